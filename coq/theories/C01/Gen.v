(** Model of the code generator (generator.py) for the first-order core: every node
    yields (dependency statements, expression); dependencies of the sub-expressions of a
    call are concatenated and emitted before the call expression (_chain_py_ast,
    _collection_ast, _invoke_to_py_ast); `if` assigns a test and a result temporary
    (_if_to_py_ast); `let*` locals get a fresh Python name genname(munge(x))
    (_let_to_py_ast); `do` statementizes all but the last form (_do_to_py_ast).
    The fourth component is the hoisting-hazard flag (true = no hazard). *)
From Coq Require Import List ZArith NArith Bool.
Import ListNotations.
From Verif Require Import C01.Lisp C01.Py.

Definition senv := N -> option pname.

Definition atomic (e : pexpr) : bool :=
  match e with PCall _ _ => false | _ => true end.

(** no call anywhere inside: running it has no effect but assignments *)
Definition quiet_e (e : pexpr) : bool :=
  match e with PCall _ _ => false | _ => true end.

Definition quiet_with (q : stmt -> bool) : list stmt -> bool :=
  fix go (l : list stmt) : bool := match l with [] => true | s :: r => q s && go r end.

Fixpoint quiet1 (s : stmt) : bool :=
  match s with
  | SAssign _ e => quiet_e e
  | SExpr e => quiet_e e
  | SIf _ fb tb => quiet_with quiet1 fb && quiet_with quiet1 tb
  end.

Definition quiet (l : list stmt) : bool := quiet_with quiet1 l.

Lemma quiet_cons s r : quiet (s :: r) = quiet1 s && quiet r.
Proof. reflexivity. Qed.

Lemma quiet_app a b : quiet (a ++ b) = quiet a && quiet b.
Proof.
  induction a as [|s r IH]; [reflexivity|].
  rewrite <- app_comm_cons, !quiet_cons, IH, andb_assoc. reflexivity.
Qed.

Definition out := (list stmt * pexpr * N * bool)%type.

Definition gen_args (g : N -> expr -> out) : list expr -> N -> list stmt * list pexpr * N * bool :=
  fix go (l : list expr) (n : N) :=
    match l with
    | [] => ([], [], n, true)
    | a :: r =>
        let '(d, e, n1, k1) := g n a in
        let '(ds, es, n2, k2) := go r n1 in
        (d ++ ds, e :: es, n2, k1 && k2 && (atomic e || quiet ds))
    end.

Fixpoint gen (sg : senv) (n : N) (e : expr) : out :=
  match e with
  | EConst v => ([], PConst v, n, true)
  | ELocal x => ([], PName (match sg x with Some p => p | None => NLocal x 0 end), n, true)
  | EIf c t e =>
      let '(dc, ec, n1, k1) := gen sg n c in
      let test := NTemp n1 in
      let res := NTemp (n1 + 1) in
      let '(dt, et, n2, k2) := gen sg (n1 + 2) t in
      let '(de, ee, n3, k3) := gen sg n2 e in
      (dc ++ [SAssign test ec; SIf test (de ++ [SAssign res ee]) (dt ++ [SAssign res et])],
       PName res, n3, k1 && k2 && k3)
  | EDo s r =>
      let '(ds, es, n1, k1) := gen sg n s in
      let '(dr, er, n2, k2) := gen sg n1 r in
      (ds ++ [SExpr es] ++ dr, er, n2, k1 && k2)
  | ELet x i b =>
      let '(di, ei, n1, k1) := gen sg n i in
      let p := NLocal x n1 in
      let '(db, eb, n2, k2) := gen (upd sg x p) (n1 + 1) b in
      (di ++ [SAssign p ei] ++ db, eb, n2, k1 && k2)
  | ECall f args =>
      let '(ds, es, n', k) := gen_args (fun n a => gen sg n a) args n in
      (ds, PCall f es, n', k)
  end.

Definition gen_list (sg : senv) (n : N) (l : list expr) := gen_args (gen sg) l n.

Lemma gen_list_cons sg n a r :
  gen_list sg n (a :: r) =
    let '(d, e, n1, k1) := gen sg n a in
    let '(ds, es, n2, k2) := gen_list sg n1 r in
    (d ++ ds, e :: es, n2, k1 && k2 && (atomic e || quiet ds)).
Proof. reflexivity. Qed.

Lemma gen_call sg n f args :
  gen sg n (ECall f args) =
    let '(ds, es, n', k) := gen_list sg n args in (ds, PCall f es, n', k).
Proof. reflexivity. Qed.

(** Whole programs: compile a closed expression at top level and run it in an empty frame. *)
Definition hazard_free (e : expr) : bool :=
  let '(_, _, _, k) := gen (fun _ => None) 0 e in k.

Definition run (e : expr) : option (value * trace) :=
  let '(d, pe, _, _) := gen (fun _ => None) 0 e in
  match exec (fun _ => None) d with
  | Some (F, t1) => match peval F pe with Some (v, t2) => Some (v, t1 ++ t2) | None => None end
  | None => None
  end.
