(** Kernel-checked witnesses that the faithful model of the generator + Python's scoping
    violates C01 outside the hazard-free fragment (each witness is replayed on the real
    compiler on every run: known_findings.json F-01a/c/d). *)
From Coq Require Import List ZArith NArith Bool.
Import ListNotations.
From Verif Require Import C01.FLisp C01.FPy C01.FGen C01.FCorr.
Local Open Scope N_scope.

Definition k z := EConst (KInt z).

(** (loop* [i 0 f nil] (if (< i 2) (recur (inc i) (if f f (fn* [] i))) (f))) *)
Definition w_loop := ELoop [(4, k 0); (8, EConst KNil)]
  (EIf (EPrim PLt [ELocal 4; k 2])
       (ERecur [EPrim PInc [ELocal 4]; EIf (ELocal 8) (ELocal 8) (EFn None [] (ELocal 4))])
       (EInvoke (ELocal 8) [])).

Theorem loop_capture_refuted :
  exists e, spec e = RVal (OInt 0) [] /\ model e = RVal (OInt 2) [] /\ tag e = 2.
Proof. exists w_loop. repeat split; vm_compute; reflexivity. Qed.

(** (loop* [i 0 f nil] (let* [n i] (if (< i 2) (recur (inc i) (if f f (fn* [] n))) (f)))) *)
Definition w_let_in_loop := ELoop [(4, k 0); (8, EConst KNil)]
  (ELet 12 (ELocal 4) (EIf (EPrim PLt [ELocal 4; k 2])
       (ERecur [EPrim PInc [ELocal 4]; EIf (ELocal 8) (ELocal 8) (EFn None [] (ELocal 12))])
       (EInvoke (ELocal 8) []))).

Theorem let_in_loop_capture_refuted :
  exists e, spec e = RVal (OInt 0) [] /\ model e = RVal (OInt 2) [] /\ tag e = 2.
Proof. exists w_let_in_loop. repeat split; vm_compute; reflexivity. Qed.

(** ((fn* [a-b] ((fn* [a_b] a-b) 2)) 1) *)
Definition w_munge := EInvoke (EFn None [0] (EInvoke (EFn None [1] (ELocal 0)) [k 2])) [k 1].

Theorem param_munge_shadow_refuted :
  exists e, spec e = RVal (OInt 1) [] /\ model e = RVal (OInt 2) [] /\ tag e = 4.
Proof. exists w_munge. repeat split; vm_compute; reflexivity. Qed.

(** ((fn* [a-b a_b] a-b) 1 2): Python rejects the generated def *)
Definition w_munge_dup := EInvoke (EFn None [0; 1] (ELocal 0)) [k 1; k 2].
Theorem param_munge_duplicate_refuted :
  exists e, spec e = RVal (OInt 1) [] /\ model e = RExc CLS_SYNTAX [] /\ tag e = 4.
Proof. exists w_munge_dup. repeat split; vm_compute; reflexivity. Qed.

(** (let* [f (try (throw (python/ValueError 7)) (catch python/Exception e (fn* [] e)))] (f)) *)
Definition w_catch := ELet 8 (ETry (EThrow (EPrim (PMkExc 1) [k 7])) (Some (0, 10, EFn None [] (ELocal 10))) None)
   (EInvoke (ELocal 8) []).

Theorem catch_var_capture_refuted :
  exists e, spec e = RVal (OExc 1 (OInt 7)) [] /\ model e = RExc CLS_NAME [] /\ tag e = 8.
Proof. exists w_catch. repeat split; vm_compute; reflexivity. Qed.

(** [(t 1) (let* [x (t 2)] x)] in the full model as well *)
Definition w_hoist := EVecLit [EPrim PTrace [k 1]; ELet 0 (EPrim PTrace [k 2]) (ELocal 0)].
Theorem hoist_refuted_full :
  exists e, spec e = RVal (OVec [OInt 1; OInt 2]) [OInt 1; OInt 2]
            /\ model e = RVal (OVec [OInt 1; OInt 2]) [OInt 2; OInt 1] /\ tag e = 1.
Proof. exists w_hoist. repeat split; vm_compute; reflexivity. Qed.

(** (loop* [i 0] (try (if (< i 2) (recur (inc i)) i) (finally (t i)))) *)
Definition w_recur_try := ELoop [(4, k 0)]
  (ETry (EIf (EPrim PLt [ELocal 4; k 2]) (ERecur [EPrim PInc [ELocal 4]]) (ELocal 4)) None
        (Some (EPrim PTrace [ELocal 4]))).
Theorem recur_in_try_refuted :
  exists e, spec e = RVal (OInt 2) [OInt 0; OInt 1; OInt 2]
            /\ model e = RVal (OInt 2) [OInt 1; OInt 2; OInt 2] /\ tag e = 16.
Proof. exists w_recur_try. repeat split; vm_compute; reflexivity. Qed.

(** agreement on a program using def, a named trampolined fn, conj, try/finally:
    (do (def g0 (fn* f [a-b x?] (if (< a-b 3) (recur (inc a-b) (conj x? (t a-b))) x?)))
        (try (g0 0 []) (finally (t 99)))) *)
Definition w_ok := EDo (EDef 0 (EFn (Some 8) [0; 2]
     (EIf (EPrim PLt [ELocal 0; k 3]) (ERecur [EPrim PInc [ELocal 0]; EPrim PConj [ELocal 2; EPrim PTrace [ELocal 0]]]) (ELocal 2))))
   (ETry (EInvoke (EGlobal 0) [k 0; EVecLit []]) None (Some (EPrim PTrace [k 99]))).

Example full_model_agrees_sample :
  spec w_ok = RVal (OVec [OInt 0; OInt 1; OInt 2]) [OInt 0; OInt 1; OInt 2; OInt 99]
  /\ model w_ok = spec w_ok /\ tag w_ok = 0.
Proof. repeat split; vm_compute; reflexivity. Qed.
