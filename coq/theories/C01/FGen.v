(** Model of generator.py for the full fragment: (dependency statements, expression)
    pairs; let/loop/catch locals are gensym'd, fn parameters are only munged; `if`, `loop*`
    and `try` assign a result temporary; `recur` is tuple re-assignment + continue inside
    a loop and a _TrampolineArgs return inside a fn; `def` assigns the module global and
    interns the Var; every form of one fn body shares one Python frame. *)
From Coq Require Import List ZArith NArith Bool.
Import ListNotations.
From Verif Require Import C01.FLisp C01.FPy.

Local Open Scope N_scope.

Inductive rpoint := RNone | RLoop (names : list pname) | RFn.

Record gctx := { sigma : list (N * pname); rp : rpoint; infn : bool }.

(** munge class of a source name: names 2k and 2k+1 stand for spellings that munge to the
    same Python identifier (a-b / a_b, x? / x__Q__) *)
Definition mclass (x : N) : N := N.div x 2.

Definition bind (c : gctx) (x : N) (p : pname) : gctx :=
  {| sigma := (x, p) :: sigma c; rp := rp c; infn := infn c |}.

Definition resolve (c : gctx) (x : N) : pname :=
  match lookup (sigma c) x with Some p => p | None => NL x 0 end.

(** does the body contain a recur that targets the enclosing fn (not nested loop/fn)? *)
Definition any_expr (f : expr -> bool) : list expr -> bool :=
  fix go (l : list expr) : bool := match l with [] => false | a :: r => f a || go r end.

Fixpoint fn_recur (e : expr) : bool :=
  match e with
  | ERecur _ => true
  | EIf _ t e => fn_recur t || fn_recur e
  | EDo _ r => fn_recur r
  | ELet _ _ b => fn_recur b
  | ETry b h _ => fn_recur b || match h with Some (_, _, hb) => fn_recur hb | None => false end
  | _ => false
  end.

Definition gout := (list stmt * pexpr * N)%type.

Definition gen_list (g : N -> expr -> gout) : list expr -> N -> list stmt * list pexpr * N :=
  fix go (l : list expr) (n : N) :=
    match l with
    | [] => ([], [], n)
    | a :: r =>
        let '(d, e, n1) := g n a in
        let '(ds, es, n2) := go r n1 in
        (d ++ ds, e :: es, n2)
    end.

Fixpoint bind_params_g (c : gctx) (ps : list N) : gctx :=
  match ps with
  | [] => c
  | p :: r => bind_params_g (bind c p (NP (mclass p))) r
  end.

Fixpoint gen (c : gctx) (n : N) (e : expr) : gout :=
  match e with
  | EConst k => ([], PConst k, n)
  | ELocal x => ([], PName (resolve c x), n)
  | EGlobal g => ([], PName (NG g), n)
  | EDef g i =>
      let '(di, ei, n1) := gen c n i in
      (di ++ (if infn c then [SGlobal (NG g)] else []) ++ [SAssign (NG g) ei], PInternVar g (NG g), n1)
  | EIf cnd t e =>
      let '(dc, ec, n1) := gen c n cnd in
      let test := NT n1 in
      let res := NT (n1 + 1) in
      let '(dt, et, n2) := gen c (n1 + 2) t in
      let '(de, ee, n3) := gen c n2 e in
      (dc ++ [SAssign test ec; SIf test (de ++ [SAssign res ee]) (dt ++ [SAssign res et])],
       PName res, n3)
  | EDo a b =>
      let '(da, ea, n1) := gen c n a in
      let '(db, eb, n2) := gen c n1 b in
      (da ++ [SExpr ea] ++ db, eb, n2)
  | ELet x i b =>
      let '(di, ei, n1) := gen c n i in
      let p := NL x n1 in
      let '(db, eb, n2) := gen (bind c x p) (n1 + 1) b in
      (di ++ [SAssign p ei] ++ db, eb, n2)
  | EFn self ps body =>
      let fname := NT n in
      let c0 := match self with Some f => bind c f fname | None => c end in
      let c1 := bind_params_g c0 ps in
      let c2 := {| sigma := sigma c1; rp := RFn; infn := true |} in
      let '(db, eb, n1) := gen c2 (n + 1) body in
      ([SDef fname (map (fun p => NP (mclass p)) ps) (fn_recur body) (db ++ [SReturn eb])],
       PName fname, n1)
  | EInvoke f args =>
      let '(df, ef, n1) := gen c n f in
      let '(ds, es, n2) := gen_list (fun n a => gen c n a) args n1 in
      (df ++ ds, PCall ef es, n2)
  | EPrim p args =>
      let '(ds, es, n1) := gen_list (fun n a => gen c n a) args n in
      (ds, PPrim p es, n1)
  | ELoop binds body =>
      let res := NT n in
      let '(dbs, names, c1, n1) :=
        (fix go (l : list (N * expr)) (c : gctx) (n : N) : list stmt * list pname * gctx * N :=
           match l with
           | [] => ([], [], c, n)
           | (x, i) :: r =>
               let '(di, ei, n1) := gen c n i in
               let p := NL x n1 in
               let '(ds, ps, c2, n2) := go r (bind c x p) (n1 + 1) in
               (di ++ [SAssign p ei] ++ ds, p :: ps, c2, n2)
           end) binds c (n + 1) in
      let c2 := {| sigma := sigma c1; rp := RLoop names; infn := infn c1 |} in
      let '(db, eb, n2) := gen c2 n1 body in
      ([SAssign res (PConst KNil)] ++ dbs ++ [SWhile (db ++ [SAssign res eb; SBreak])], PName res, n2)
  | ERecur args =>
      let '(ds, es, n1) := gen_list (fun n a => gen c n a) args n in
      match rp c with
      | RLoop names =>
          (ds ++ [match names, es with
                  | [x], [e1] => SAssign x e1
                  | _, _ => SAssignTuple names es
                  end; SContinue], PConst KNil, n1)
      | _ => (ds, PTrampArgs es, n1)
      end
  | EThrow x =>
      let '(dx, ex, n1) := gen c n x in
      (dx ++ [SRaise ex], PConst KNil, n1)
  | ETry body handler fin =>
      let res := NT n in
      let '(db, eb, n1) := gen c (n + 1) body in
      let '(h, n2) :=
        match handler with
        | Some (cls, x, hb) =>
            let p := NL x n1 in
            let '(dh, eh, n2) := gen (bind c x p) (n1 + 1) hb in
            (Some (cls, p, dh ++ [SAssign res eh]), n2)
        | None => (None, n1)
        end in
      let '(f, n3) :=
        match fin with
        | Some fe => let '(df, ef, n3) := gen c n2 fe in (df ++ [SExpr ef], n3)
        | None => ([], n2)
        end in
      ([STry (db ++ [SAssign res eb]) h f], PName res, n3)
  | EVecLit l =>
      let '(ds, es, n1) := gen_list (fun n a => gen c n a) l n in
      (ds, PPrim PVec es, n1)
  end.

Definition top_ctx : gctx := {| sigma := []; rp := RNone; infn := false |}.

(** Python rejects a `def` with two parameters of the same name at compile time
    (SyntaxError: duplicate argument): the whole form then fails before anything runs. *)
Fixpoint has_dup (l : list pname) : bool :=
  match l with [] => false | x :: r => mem_name x r || has_dup r end.

Definition any_stmt (f : stmt -> bool) : list stmt -> bool :=
  fix go (l : list stmt) : bool := match l with [] => false | s :: r => f s || go r end.

Fixpoint dup_params (s : stmt) : bool :=
  match s with
  | SDef _ ps _ body => has_dup ps || any_stmt dup_params body
  | SIf _ a b => any_stmt dup_params a || any_stmt dup_params b
  | SWhile b => any_stmt dup_params b
  | STry b h f =>
      any_stmt dup_params b
      || match h with Some (_, _, hb) => any_stmt dup_params hb | None => false end
      || any_stmt dup_params f
  | _ => false
  end.

Definition CLS_SYNTAX : N := 99.

(** compile a program as one top-level form and run it at module level *)
Definition run_plain (fuel : nat) (e : expr) : result :=
  let '(d, pe, _) := gen top_ctx 0 e in
  match execs (exec1 fuel) [] d pinit with
  | (SNormal, s1) =>
      match peval fuel [] pe s1 with
      | (EVal v, s2) => RVal (pobs v) (ptr s2)
      | (EExc (PExcV c _), s2) => RExc c (ptr s2)
      | (EFuel, _) => RFuel
      | _ => RStuck
      end
  | (SExc (PExcV c _), s1) => RExc c (ptr s1)
  | (SFuel, _) => RFuel
  | _ => RStuck
  end.

(** compile_and_exec_form compiles and runs the sub-forms of a top-level `do` one after the
    other: a form Python rejects at compile time (duplicate parameter names after munging)
    fails after the forms before it have run *)
Fixpoint top_forms (e : expr) : list expr :=
  match e with EDo a b => top_forms a ++ top_forms b | _ => [e] end.
Definition form_dup (e : expr) : bool := let '(d, _, _) := gen top_ctx 0 e in any_stmt dup_params d.
Fixpoint clean_prefix (l : list expr) : list expr :=
  match l with [] => [] | x :: r => if form_dup x then [] else x :: clean_prefix r end.
Definition do_of (l : list expr) : option expr :=
  match l with [] => None | x :: r => Some (fold_left EDo r x) end.

Definition run_model (fuel : nat) (e : expr) : result :=
  if form_dup e then
    match do_of (clean_prefix (top_forms e)) with
    | None => RExc CLS_SYNTAX []
    | Some p => match run_plain fuel p with RVal _ t => RExc CLS_SYNTAX t | other => other end
    end
  else run_plain fuel e.
