(** C01/C02 source language (first-order core) and its evaluation rules.
    Effects: the primitive [PTrace] (the harness's tracing function [t]) appends its
    argument to the trace and returns it. *)
From Coq Require Import List ZArith NArith Bool.
Import ListNotations.

Inductive value :=
| VNil
| VBool (b : bool)
| VInt (z : Z)
| VVec (l : list value)
| VExc (cls : N) (payload : value).   (* an exception object (used by the C01X extension) *)

Inductive prim := PTrace | PVec | PConj | PInc | PLt | PMkExc (cls : N).

Definition trace := list value.

Inductive expr :=
| EConst (v : value)
| ELocal (x : N)
| EIf (c t e : expr)
| EDo (s r : expr)                    (* (do s r); n-ary do is nested *)
| ELet (x : N) (i b : expr)           (* (let* [x i] b); several bindings are nested *)
| ECall (f : prim) (args : list expr).

(** only nil and false are falsey *)
Definition falsey (v : value) : bool :=
  match v with VNil => true | VBool false => true | _ => false end.

Definition apply_prim (f : prim) (vs : list value) : option (value * trace) :=
  match f, vs with
  | PTrace, [v] => Some (v, [v])
  | PTrace, _ => None                 (* arity error: outside the well-formed fragment *)
  | PVec, _ => Some (VVec vs, [])
  | PConj, [VVec l; v] => Some (VVec (l ++ [v]), [])
  | PInc, [VInt z] => Some (VInt (z + 1), [])
  | PLt, [VInt a; VInt b] => Some (VBool (Z.ltb a b), [])
  | PMkExc c, [v] => Some (VExc c v, [])
  | _, _ => None                      (* ill-typed call: outside the well-formed fragment *)
  end.

Definition env := N -> option value.
Definition upd {A} (f : N -> option A) (x : N) (a : A) : N -> option A :=
  fun y => if N.eqb y x then Some a else f y.

(** Evaluation rules: lexical scope with shadowing, left-to-right, each sub-expression on
    the taken path exactly once. *)
Fixpoint eval (rho : env) (e : expr) : option (value * trace) :=
  match e with
  | EConst v => Some (v, [])
  | ELocal x => match rho x with Some v => Some (v, []) | None => None end
  | EIf c t e =>
      match eval rho c with
      | Some (vc, t1) =>
          match (if falsey vc then eval rho e else eval rho t) with
          | Some (v, t2) => Some (v, t1 ++ t2)
          | None => None
          end
      | None => None
      end
  | EDo s r =>
      match eval rho s with
      | Some (_, t1) => match eval rho r with Some (v, t2) => Some (v, t1 ++ t2) | None => None end
      | None => None
      end
  | ELet x i b =>
      match eval rho i with
      | Some (vi, t1) =>
          match eval (upd rho x vi) b with Some (v, t2) => Some (v, t1 ++ t2) | None => None end
      | None => None
      end
  | ECall f args =>
      match (fix go (l : list expr) : option (list value * trace) :=
               match l with
               | [] => Some ([], [])
               | a :: r =>
                   match eval rho a with
                   | Some (v, t1) =>
                       match go r with Some (vs, t2) => Some (v :: vs, t1 ++ t2) | None => None end
                   | None => None
                   end
               end) args with
      | Some (vs, t1) =>
          match apply_prim f vs with Some (v, t2) => Some (v, t1 ++ t2) | None => None end
      | None => None
      end
  end.

Fixpoint eval_list (rho : env) (l : list expr) : option (list value * trace) :=
  match l with
  | [] => Some ([], [])
  | a :: r =>
      match eval rho a with
      | Some (v, t1) =>
          match eval_list rho r with Some (vs, t2) => Some (v :: vs, t1 ++ t2) | None => None end
      | None => None
      end
  end.

Lemma eval_call rho f args :
  eval rho (ECall f args) =
    match eval_list rho args with
    | Some (vs, t1) =>
        match apply_prim f vs with Some (v, t2) => Some (v, t1 ++ t2) | None => None end
    | None => None
    end.
Proof.
  cbn [eval].
  match goal with |- match ?g args with _ => _ end = _ =>
    assert (E : forall l, g l = eval_list rho l) end.
  { induction l as [|a r IH]; [reflexivity|]. cbn [eval_list]. rewrite <- IH. reflexivity. }
  rewrite E. reflexivity.
Qed.

(** induction principle that reaches the arguments of calls *)
Section ExprInd.
  Variable P : expr -> Prop.
  Hypothesis HConst : forall v, P (EConst v).
  Hypothesis HLocal : forall x, P (ELocal x).
  Hypothesis HIf : forall c t e, P c -> P t -> P e -> P (EIf c t e).
  Hypothesis HDo : forall s r, P s -> P r -> P (EDo s r).
  Hypothesis HLet : forall x i b, P i -> P b -> P (ELet x i b).
  Hypothesis HCall : forall f args, Forall P args -> P (ECall f args).

  Fixpoint expr_ind' (e : expr) : P e :=
    match e with
    | EConst v => HConst v
    | ELocal x => HLocal x
    | EIf c t e => HIf c t e (expr_ind' c) (expr_ind' t) (expr_ind' e)
    | EDo s r => HDo s r (expr_ind' s) (expr_ind' r)
    | ELet x i b => HLet x i b (expr_ind' i) (expr_ind' b)
    | ECall f args =>
        HCall f args ((fix go (l : list expr) : Forall P l :=
                         match l with
                         | [] => Forall_nil P
                         | a :: r => Forall_cons a (expr_ind' a) (go r)
                         end) args)
    end.
End ExprInd.
