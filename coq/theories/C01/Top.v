(** Whole-program statements for the first-order core. *)
From Coq Require Import List ZArith NArith Bool Lia.
Import ListNotations.
From Verif Require Import C01.Lisp C01.Py C01.Gen C01.Sim.

Local Open Scope N_scope.

Lemma R_empty : R (fun _ => None) (fun _ => None) (fun _ => None) 0.
Proof. intros x v H; discriminate. Qed.

(** Compiling and running a hazard-free program yields the value and the effect trace
    its evaluation rules prescribe. *)
Theorem compile_correct e v tr :
  eval (fun _ => None) e = Some (v, tr) -> hazard_free e = true -> run e = Some (v, tr).
Proof.
  intros He Hh. unfold hazard_free, run in *.
  destruct (gen (fun _ => None) 0 e) as [[[d pe] n'] k] eqn:G. subst k.
  destruct (sim_all e _ _ _ _ _ _ _ _ _ _ R_empty He G eq_refl)
    as (F' & t1 & t2 & X & P & T & _).
  rewrite X, P, T. reflexivity.
Qed.

(** One-hole contexts: the six syntactic positions of the property (call argument among
    other arguments, let init, let body, if test, if branches, statement position, do result),
    nested to any depth. *)
Inductive ctx :=
| CHole
| CIfTest (c : ctx) (t e : expr) | CIfThen (c0 : expr) (c : ctx) (e : expr) | CIfElse (c0 t : expr) (c : ctx)
| CDoStmt (c : ctx) (r : expr) | CDoRet (s : expr) (c : ctx)
| CLetInit (x : N) (c : ctx) (b : expr) | CLetBody (x : N) (i : expr) (c : ctx)
| CArg (f : prim) (before : list expr) (c : ctx) (after : list expr).

Fixpoint plug (c : ctx) (p : expr) : expr :=
  match c with
  | CHole => p
  | CIfTest c t e => EIf (plug c p) t e
  | CIfThen c0 c e => EIf c0 (plug c p) e
  | CIfElse c0 t c => EIf c0 t (plug c p)
  | CDoStmt c r => EDo (plug c p) r
  | CDoRet s c => EDo s (plug c p)
  | CLetInit x c b => ELet x (plug c p) b
  | CLetBody x i c => ELet x i (plug c p)
  | CArg f before c after => ECall f (before ++ plug c p :: after)
  end.

Corollary context_independent c p v tr :
  eval (fun _ => None) (plug c p) = Some (v, tr) -> hazard_free (plug c p) = true ->
  run (plug c p) = Some (v, tr).
Proof. apply compile_correct. Qed.

(** C02: the effects of the compiled code happen in source order, each exactly once. *)
Corollary order_preserved e v tr :
  eval (fun _ => None) e = Some (v, tr) -> hazard_free e = true ->
  exists v', run e = Some (v', tr).
Proof. intros He Hh. exists v. apply compile_correct; auto. Qed.

(** The hazard is real: dependencies of a later argument are hoisted above the inline
    expression of an earlier one.  (vector (t 1) (let* [x (t 2)] x)) *)
Definition hoist_witness : expr :=
  ECall PVec [ECall PTrace [EConst (VInt 1)];
              ELet 0 (ECall PTrace [EConst (VInt 2)]) (ELocal 0)].

Theorem hoist_refuted :
  exists e v tr tr', eval (fun _ => None) e = Some (v, tr) /\ run e = Some (v, tr') /\ tr <> tr'.
Proof.
  exists hoist_witness, (VVec [VInt 1; VInt 2]), [VInt 1; VInt 2], [VInt 2; VInt 1].
  split; [vm_compute; reflexivity|]. split; [vm_compute; reflexivity|]. discriminate.
Qed.

(** non-vacuity: a nested program with shadowing, an `if` in argument position and a
    `let` whose init is effectful is hazard free and evaluates *)
Definition sample : expr :=
  ELet 0 (ECall PTrace [EConst (VInt 1)])
    (ELet 0 (ECall PVec [ELocal 0; EIf (ELocal 0) (EConst (VInt 2)) (EConst VNil)])
       (EDo (ECall PTrace [ELocal 0]) (EIf (EConst (VInt 0)) (ELocal 0) (EConst VNil)))).

Example sample_ok :
  hazard_free sample = true /\
  eval (fun _ => None) sample = Some (VVec [VInt 1; VInt 2], [VInt 1; VVec [VInt 1; VInt 2]]).
Proof. split; vm_compute; reflexivity. Qed.

(** truthiness: the compiled `if` takes the else branch exactly for nil and false *)
Theorem truthiness v a b :
  run (EIf (EConst v) (EConst a) (EConst b)) = Some (if falsey v then b else a, []).
Proof. destruct v as [| [|] | z | l | c p]; vm_compute; reflexivity. Qed.
