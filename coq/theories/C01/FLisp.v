(** C01/C02 full fragment: source language and its evaluation rules (the specification).
    Special forms: quote/constants, if, do, let*, fn* (single arity, closures), invoke,
    loop*/recur (also recur to a fn), try/catch/finally, throw, def, collection literals,
    calls of runtime primitives.  A definitional interpreter on explicit fuel. *)
From Coq Require Import List ZArith NArith Bool.
Import ListNotations.

Inductive const := KNil | KBool (b : bool) | KInt (z : Z) | KVec (l : list const).

(** runtime primitives available to programs: the tracing function, vector, conj, inc, <,
    an exception constructor (class id), and = on ints *)
Inductive prim := PTrace | PVec | PConj | PInc | PLt | PMkExc (cls : N).

Inductive expr :=
| EConst (k : const)
| ELocal (x : N)
| EGlobal (g : N)
| EDef (g : N) (init : expr)
| EIf (c t e : expr)
| EDo (s r : expr)
| ELet (x : N) (i b : expr)
| EFn (self : option N) (params : list N) (body : expr)
| EInvoke (f : expr) (args : list expr)
| EPrim (p : prim) (args : list expr)
| ELoop (binds : list (N * expr)) (body : expr)
| ERecur (args : list expr)
| EThrow (e : expr)
| ETry (body : expr) (handler : option (N * N * expr)) (fin : option expr)   (* (class, local, body) *)
| EVecLit (l : list expr).

(** observable form of values: what the harness can see of a result *)
Inductive obs :=
| ONil | OBool (b : bool) | OInt (z : Z) | OVec (l : list obs) | OFn | OExc (cls : N) (payload : obs)
| OVar (g : N).

Inductive value :=
| VNil | VBool (b : bool) | VInt (z : Z) | VVec (l : list value)
| VClo (rho : list (N * value)) (self : option N) (params : list N) (body : expr)
| VExc (cls : N) (payload : value)
| VVar (g : N).

Fixpoint obs_of (v : value) : obs :=
  match v with
  | VNil => ONil | VBool b => OBool b | VInt z => OInt z
  | VVec l => OVec (map obs_of l)
  | VClo _ _ _ _ => OFn
  | VExc c p => OExc c (obs_of p)
  | VVar g => OVar g
  end.

Fixpoint of_const (k : const) : value :=
  match k with
  | KNil => VNil | KBool b => VBool b | KInt z => VInt z
  | KVec l => VVec (map of_const l)
  end.

Definition falsey (v : value) : bool :=
  match v with VNil => true | VBool false => true | _ => false end.

(** exception classes: 0 = Exception (catches everything), others match exactly *)
Definition CLS_EXCEPTION : N := 0.
Definition CLS_VALUE : N := 1.
Definition CLS_TYPE : N := 2.
Definition CLS_NAME : N := 3.
Definition CLS_KEY : N := 4.
Definition catches (handler_cls exc_cls : N) : bool := N.eqb handler_cls 0 || N.eqb handler_cls exc_cls.

Record state := { tr : list obs; globals : list (N * value) }.

Inductive outcome :=
| Val (v : value)
| Exc (v : value)
| Rec (vs : list value)
| Fuel
| Stuck.

Fixpoint lookup {A} (l : list (N * A)) (x : N) : option A :=
  match l with
  | [] => None
  | (y, a) :: r => if N.eqb x y then Some a else lookup r x
  end.

Definition add_trace (s : state) (o : obs) : state := {| tr := tr s ++ [o]; globals := globals s |}.
Definition set_global (s : state) (g : N) (v : value) : state :=
  {| tr := tr s; globals := (g, v) :: globals s |}.

Definition apply_prim (p : prim) (vs : list value) (s : state) : outcome * state :=
  match p, vs with
  | PTrace, [v] => (Val v, add_trace s (obs_of v))
  | PVec, _ => (Val (VVec vs), s)
  | PConj, [VVec l; v] => (Val (VVec (l ++ [v])), s)
  | PInc, [VInt z] => (Val (VInt (z + 1)), s)
  | PLt, [VInt a; VInt b] => (Val (VBool (Z.ltb a b)), s)
  | PMkExc c, [v] => (Val (VExc c v), s)
  | _, _ => (Stuck, s)
  end.

Fixpoint bind_params (ps : list N) (vs : list value) (rho : list (N * value)) : option (list (N * value)) :=
  match ps, vs with
  | [], [] => Some rho
  | p :: ps', v :: vs' => bind_params ps' vs' ((p, v) :: rho)
  | _, _ => None
  end.

Section Eval.
  (** [evals]: evaluate a list left to right; stops at the first non-value outcome. *)
  Variable eval : list (N * value) -> expr -> state -> outcome * state.

  Fixpoint evals (rho : list (N * value)) (l : list expr) (s : state) : (outcome * list value) * state :=
    match l with
    | [] => ((Val VNil, []), s)
    | a :: r =>
        match eval rho a s with
        | (Val v, s1) =>
            match evals rho r s1 with
            | ((Val _, vs), s2) => ((Val VNil, v :: vs), s2)
            | other => other
            end
        | (o, s1) => ((o, []), s1)
        end
    end.

  (** loop bindings: sequential, each init sees the previous ones *)
  Fixpoint eval_binds (rho : list (N * value)) (l : list (N * expr)) (s : state)
    : (outcome * list (N * value)) * state :=
    match l with
    | [] => ((Val VNil, rho), s)
    | (x, i) :: r =>
        match eval rho i s with
        | (Val v, s1) => eval_binds ((x, v) :: rho) r s1
        | (o, s1) => ((o, rho), s1)
        end
    end.
End Eval.

Fixpoint rebind (xs : list N) (vs : list value) (rho : list (N * value)) : option (list (N * value)) :=
  match xs, vs with
  | [], [] => Some rho
  | x :: xs', v :: vs' => rebind xs' vs' ((x, v) :: rho)
  | _, _ => None
  end.

Fixpoint eval (fuel : nat) (rho : list (N * value)) (e : expr) (s : state) : outcome * state :=
  match fuel with
  | O => (Fuel, s)
  | S n =>
      let ev := eval n in
      match e with
      | EConst k => (Val (of_const k), s)
      | ELocal x => match lookup rho x with Some v => (Val v, s) | None => (Stuck, s) end
      | EGlobal g => match lookup (globals s) g with Some v => (Val v, s) | None => (Stuck, s) end
      | EDef g i =>
          match ev rho i s with
          | (Val v, s1) => (Val (VVar g), set_global s1 g v)
          | other => other
          end
      | EIf c t e =>
          match ev rho c s with
          | (Val vc, s1) => if falsey vc then ev rho e s1 else ev rho t s1
          | other => other
          end
      | EDo a b =>
          match ev rho a s with
          | (Val _, s1) => ev rho b s1
          | other => other
          end
      | ELet x i b =>
          match ev rho i s with
          | (Val v, s1) => ev ((x, v) :: rho) b s1
          | other => other
          end
      | EFn self ps body => (Val (VClo rho self ps body), s)
      | EInvoke f args =>
          match ev rho f s with
          | (Val vf, s1) =>
              match evals ev rho args s1 with
              | ((Val _, vs), s2) => call n vf vs s2
              | ((o, _), s2) => (o, s2)
              end
          | other => other
          end
      | EPrim p args =>
          match evals ev rho args s with
          | ((Val _, vs), s1) => apply_prim p vs s1
          | ((o, _), s1) => (o, s1)
          end
      | ELoop binds body =>
          match eval_binds ev rho binds s with
          | ((Val _, rho1), s1) => loop n (map fst binds) rho1 body s1
          | ((o, _), s1) => (o, s1)
          end
      | ERecur args =>
          match evals ev rho args s with
          | ((Val _, vs), s1) => (Rec vs, s1)
          | ((o, _), s1) => (o, s1)
          end
      | EThrow e =>
          match ev rho e s with
          | (Val v, s1) => (Exc v, s1)
          | other => other
          end
      | ETry body handler fin =>
          let r1 :=
            match ev rho body s with
            | (Exc (VExc c p), s1) =>
                match handler with
                | Some (hc, x, hb) =>
                    if catches hc c then ev ((x, VExc c p) :: rho) hb s1 else (Exc (VExc c p), s1)
                | None => (Exc (VExc c p), s1)
                end
            | other => other
            end in
          match fin with
          | None => r1
          | Some f =>
              match r1 with
              | (Fuel, s1) => (Fuel, s1)
              | (Stuck, s1) => (Stuck, s1)
              | (o, s1) =>
                  match ev rho f s1 with
                  | (Val _, s2) => (o, s2)
                  | other => other
                  end
              end
          end
      | EVecLit l =>
          match evals ev rho l s with
          | ((Val _, vs), s1) => (Val (VVec vs), s1)
          | ((o, _), s1) => (o, s1)
          end
      end
  end

with call (fuel : nat) (vf : value) (vs : list value) (s : state) : outcome * state :=
  match fuel with
  | O => (Fuel, s)
  | S n =>
      match vf with
      | VClo rho self ps body =>
          let rho0 := match self with Some f => (f, vf) :: rho | None => rho end in
          match bind_params ps vs rho0 with
          | Some rho1 =>
              match eval n rho1 body s with
              | (Rec vs', s1) => call n vf vs' s1        (* recur to the fn: rebind all params *)
              | other => other
              end
          | None => (Exc (VExc CLS_TYPE VNil), s)        (* wrong number of arguments *)
          end
      | _ => (Stuck, s)
      end
  end

with loop (fuel : nat) (xs : list N) (rho : list (N * value)) (body : expr) (s : state) : outcome * state :=
  match fuel with
  | O => (Fuel, s)
  | S n =>
      match eval n rho body s with
      | (Rec vs, s1) =>
          match rebind xs vs rho with
          | Some rho1 => loop n xs rho1 body s1          (* all loop locals rebound simultaneously *)
          | None => (Stuck, s1)
          end
      | other => other
      end
  end.

Definition init_state : state := {| tr := []; globals := [] |}.

(** result of a whole program: observable outcome, trace *)
Inductive result :=
| RVal (o : obs) (t : list obs)
| RExc (cls : N) (t : list obs)
| RFuel
| RStuck.

Definition run_spec (fuel : nat) (e : expr) : result :=
  match eval fuel [] e init_state with
  | (Val v, s) => RVal (obs_of v) (tr s)
  | (Exc (VExc c _), s) => RExc c (tr s)
  | (Exc _, _) => RStuck
  | (Rec _, _) => RStuck
  | (Fuel, _) => RFuel
  | (Stuck, _) => RStuck
  end.
