(** Forward simulation: for every hazard-free expression of the first-order core, the
    generated Python statements followed by the generated expression compute the value
    and the effect trace the evaluation rules prescribe. *)
From Coq Require Import List ZArith NArith Bool Lia.
Import ListNotations.
From Verif Require Import C01.Lisp C01.Py C01.Gen.

Local Open Scope N_scope.

Definition agree_below (n : N) (F F' : frame) : Prop := forall p, idx p < n -> F' p = F p.

Lemma agree_refl n F : agree_below n F F.
Proof. intros p _; reflexivity. Qed.

Lemma agree_trans n m F1 F2 F3 :
  n <= m -> agree_below n F1 F2 -> agree_below m F2 F3 -> agree_below n F1 F3.
Proof. intros L A B p Hp. rewrite B by lia. apply A; auto. Qed.

Lemma agree_weaken n m F F' : n <= m -> agree_below m F F' -> agree_below n F F'.
Proof. intros L A p Hp. apply A. lia. Qed.

Lemma set_same F p v : set F p v p = Some v.
Proof. unfold set. assert (E : pname_eqb p p = true) by (apply pname_eqb_eq; reflexivity). rewrite E. reflexivity. Qed.

Lemma set_other F p v q : q <> p -> set F p v q = F q.
Proof.
  intro Hn. unfold set. destruct (pname_eqb q p) eqn:E; [|reflexivity].
  apply pname_eqb_eq in E. contradiction.
Qed.

Lemma agree_set n F p v : n <= idx p -> agree_below n F (set F p v).
Proof. intros L q Hq. apply set_other. intro E; subst. lia. Qed.

(** all names read by a generated expression lie below the counter *)
Fixpoint nb (n : N) (e : pexpr) : bool :=
  match e with
  | PConst _ => true
  | PName p => idx p <? n
  | PCall _ args => forallb (nb n) args
  end.

Lemma nb_mono n m e : n <= m -> nb n e = true -> nb m e = true.
Proof.
  intro L. induction e as [v|p|f args IH] using pexpr_ind'; simpl; auto.
  - rewrite !N.ltb_lt. lia.
  - rewrite !forallb_forall. rewrite Forall_forall in IH. auto.
Qed.

Lemma nb_list_mono n m l : n <= m -> forallb (nb n) l = true -> forallb (nb m) l = true.
Proof. intros L. rewrite !forallb_forall. intros H x Hx. eapply nb_mono; eauto. Qed.

Lemma peval_agree n F F' e : nb n e = true -> agree_below n F F' -> peval F' e = peval F e.
Proof.
  intros Hn A. induction e as [v|p|f args IH] using pexpr_ind'.
  - reflexivity.
  - simpl in *. apply N.ltb_lt in Hn. rewrite (A p Hn). reflexivity.
  - rewrite !peval_call. simpl in Hn.
    assert (E : peval_list F' args = peval_list F args).
    { clear f. induction args as [|a r IHr]; [reflexivity|].
      simpl in Hn. apply andb_true_iff in Hn as [Ha Hr]. inversion IH as [|? ? Pa Pr]; subst.
      simpl. rewrite (Pa Ha), (IHr Pr Hr). reflexivity. }
    rewrite E. reflexivity.
Qed.

Lemma peval_list_agree n F F' l :
  forallb (nb n) l = true -> agree_below n F F' -> peval_list F' l = peval_list F l.
Proof.
  intros Hn A. induction l as [|a r IH]; [reflexivity|].
  simpl in Hn. apply andb_true_iff in Hn as [Ha Hr].
  simpl. rewrite (peval_agree n F F' a Ha A), (IH Hr). reflexivity.
Qed.

Lemma atomic_no_trace F e v t : atomic e = true -> peval F e = Some (v, t) -> t = [].
Proof.
  destruct e as [c|p|f args]; simpl; try discriminate; intros _ H.
  - inversion H; reflexivity.
  - destruct (F p); inversion H; reflexivity.
Qed.

(** the invariant relating the source environment to the Python frame *)
Definition R (rho : env) (sg : senv) (F : frame) (n : N) : Prop :=
  forall x v, rho x = Some v -> exists p, sg x = Some p /\ idx p < n /\ F p = Some v.

Lemma R_mono rho sg F F' n m : R rho sg F n -> n <= m -> agree_below n F F' -> R rho sg F' m.
Proof.
  intros HR L A x v Hx. destruct (HR x v Hx) as (p & Hs & Hi & Hf).
  exists p. repeat split; auto; [lia|]. rewrite A; auto.
Qed.

Lemma gen_mono : forall e sg m d pe m' k, gen sg m e = (d, pe, m', k) -> m <= m'.
Proof.
 induction e as [c|x|c t e IHc IHt IHe|s r IHs IHr|x i b IHi IHb|f args IHargs] using expr_ind';
    intros sg m d pe m' k G; cbn [gen] in G.
  - inversion G; lia.
  - inversion G; lia.
  - destruct (gen sg m c) as [[[? ?] a1] ?] eqn:G1.
    destruct (gen sg (a1 + 2) t) as [[[? ?] a2] ?] eqn:G2.
    destruct (gen sg a2 e) as [[[? ?] a3] ?] eqn:G3. inversion G; subst.
    apply IHc in G1. apply IHt in G2. apply IHe in G3. lia.
  - destruct (gen sg m s) as [[[? ?] a1] ?] eqn:G1.
    destruct (gen sg a1 r) as [[[? ?] a2] ?] eqn:G2. inversion G; subst.
    apply IHs in G1. apply IHr in G2. lia.
  - destruct (gen sg m i) as [[[? ?] a1] ?] eqn:G1.
    destruct (gen (upd sg x (NLocal x a1)) (a1 + 1) b) as [[[? ?] a2] ?] eqn:G2. inversion G; subst.
    apply IHi in G1. apply IHb in G2. lia.
  - change (gen_args (fun n a => gen sg n a) args m) with (gen_list sg m args) in G.
    destruct (gen_list sg m args) as [[[ds es] a1] ka] eqn:G1.
    assert (L : m <= a1).
    { clear G. revert m ds es a1 ka G1. induction args as [|a r IHl]; intros m ds es a1 ka G1.
      + cbv in G1. inversion G1; lia.
      + rewrite gen_list_cons in G1.
        destruct (gen sg m a) as [[[? ?] b1] ?] eqn:Ga.
        destruct (gen_list sg b1 r) as [[[? ?] b2] ?] eqn:Gr. inversion G1; subst.
        inversion IHargs as [|? ? Pa Pr]; subst.
        apply Pa in Ga. apply (IHl Pr) in Gr. lia. }
    inversion G; subst. exact L.
Qed.

Lemma quiet_if_parts dc test ec fb tb :
  quiet (dc ++ [SAssign test ec; SIf test fb tb]) = true ->
  quiet dc = true /\ quiet_e ec = true /\ quiet fb = true /\ quiet tb = true.
Proof.
  rewrite quiet_app, !quiet_cons. cbn [quiet1].
  change (quiet_with quiet1 fb) with (quiet fb). change (quiet_with quiet1 tb) with (quiet tb).
  intro H. repeat (apply andb_true_iff in H as [H ?]).
  repeat match goal with X : _ && _ = true |- _ => apply andb_true_iff in X as [? ?] end.
  auto.
Qed.

Lemma quiet_snoc_assign d p e : quiet (d ++ [SAssign p e]) = true -> quiet d = true /\ quiet_e e = true.
Proof.
  rewrite quiet_app, quiet_cons. cbn [quiet1]. intro H.
  apply andb_true_iff in H as [H1 H2]. apply andb_true_iff in H2 as [H2 _]. auto.
Qed.

Definition sim (e : expr) : Prop :=
  forall sg n rho F v tr d pe n' k,
    R rho sg F n -> eval rho e = Some (v, tr) -> gen sg n e = (d, pe, n', k) -> k = true ->
    exists F' t1 t2,
      exec F d = Some (F', t1) /\ peval F' pe = Some (v, t2) /\ tr = t1 ++ t2 /\
      n <= n' /\ agree_below n F F' /\ nb n' pe = true /\ (quiet d = true -> t1 = []).

Definition sim_list (l : list expr) : Prop :=
  forall sg n rho F vs tr ds es n' k,
    R rho sg F n -> eval_list rho l = Some (vs, tr) -> gen_list sg n l = (ds, es, n', k) -> k = true ->
    exists F' t1 t2,
      exec F ds = Some (F', t1) /\ peval_list F' es = Some (vs, t2) /\ tr = t1 ++ t2 /\
      n <= n' /\ agree_below n F F' /\ forallb (nb n') es = true /\ (quiet ds = true -> t1 = []).

Lemma sim_list_of_Forall l : Forall sim l -> sim_list l.
Proof.
  induction l as [|a r IH]; intros HF sg n rho F vs tr ds es n' k HR He Hg Hk.
  - simpl in He. inversion He; subst. cbv in Hg. inversion Hg; subst.
    exists F, [], []. simpl. repeat split; auto using agree_refl; lia.
  - inversion HF as [|? ? Ha Hr]; subst. specialize (IH Hr).
    simpl in He.
    destruct (eval rho a) as [[va ta]|] eqn:Ea; [|discriminate].
    destruct (eval_list rho r) as [[vr trr]|] eqn:Er; [|discriminate].
    inversion He; subst; clear He.
    rewrite gen_list_cons in Hg.
    destruct (gen sg n a) as [[[d e] n1] k1] eqn:Ga.
    destruct (gen_list sg n1 r) as [[[ds' es'] n2] k2] eqn:Gr.
    try subst k. injection Hg as Hg1 Hg2 Hg3 Hk. subst.
    apply andb_true_iff in Hk as [Hk Hhz]. apply andb_true_iff in Hk as [Hk1 Hk2]. subst.
    destruct (Ha sg n rho F va ta d e n1 true HR Ea Ga eq_refl)
      as (F1 & ta1 & ta2 & X1 & P1 & T1 & L1 & A1 & N1 & Q1).
    assert (HR1 : R rho sg F1 n1) by (eapply R_mono; eauto).
    destruct (IH sg n1 rho F1 vr trr ds' es' n' true HR1 Er Gr eq_refl)
      as (F2 & ts1 & ts2 & X2 & P2 & T2 & L2 & A2 & N2 & Q2).
    exists F2, (ta1 ++ ts1), (ta2 ++ ts2).
    split; [rewrite exec_app, X1, X2; reflexivity|].
    split; [simpl; rewrite (peval_agree n1 F1 F2 e N1 A2), P1, P2; reflexivity|].
    split.
    { subst. apply orb_true_iff in Hhz as [Hat|Hq].
      - rewrite (atomic_no_trace _ _ _ _ Hat P1). rewrite !app_nil_r, !app_nil_l. apply app_assoc.
      - rewrite (Q2 Hq). rewrite !app_nil_r, !app_nil_l. rewrite app_assoc. reflexivity. }
    split; [lia|].
    split; [eapply agree_trans; eauto|].
    split.
    { simpl. rewrite (nb_mono n1 n' e L2 N1). exact N2. }
    intro Hq. rewrite quiet_app in Hq. apply andb_true_iff in Hq as [Hq1 Hq2].
    rewrite (Q1 Hq1), (Q2 Hq2). reflexivity.
Qed.

Theorem sim_all : forall e, sim e.
Proof.
  induction e as [c|x|c t e IHc IHt IHe|s r IHs IHr|x i b IHi IHb|f args IHargs] using expr_ind';
    intros sg n rho F v tr d pe n' k HR He Hg Hk.
  - (* const *)
    simpl in *. inversion He; inversion Hg; subst.
    exists F, [], []. simpl. repeat split; auto using agree_refl; lia.
  - (* local *)
    simpl in *. destruct (rho x) as [vx|] eqn:Ex; [|discriminate]. inversion He; subst; clear He.
    inversion Hg; subst; clear Hg.
    destruct (HR x v Ex) as (p & Hs & Hi & Hf). rewrite Hs.
    exists F, [], []. simpl. rewrite Hf. repeat split; auto using agree_refl; try lia.
    apply N.ltb_lt. exact Hi.
  - (* if *)
    simpl in He.
    destruct (eval rho c) as [[vc tc]|] eqn:Ec; [|discriminate].
    cbn [gen] in Hg.
    destruct (gen sg n c) as [[[dc ec] n1] k1] eqn:Gc.
    destruct (gen sg (n1 + 2) t) as [[[dt et] n2] k2] eqn:Gt.
    destruct (gen sg n2 e) as [[[de ee] n3] k3] eqn:Ge.
    try subst k. injection Hg as Hg1 Hg2 Hg3 Hk. subst.
    apply andb_true_iff in Hk as [Hk Hk3]. apply andb_true_iff in Hk as [Hk1 Hk2]. subst.
    destruct (IHc sg n rho F vc tc dc ec n1 true HR Ec Gc eq_refl)
      as (F1 & tc1 & tc2 & X1 & P1 & T1 & L1 & A1 & N1 & Q1).
    set (test := NTemp n1) in *. set (res := NTemp (n1 + 1)) in *.
    set (F1' := set F1 test vc).
    assert (A1' : agree_below n F F1').
    { eapply agree_trans; [apply N.le_refl|exact A1|]. apply agree_set. simpl. lia. }
    destruct (falsey vc) eqn:Fv.
    + (* falsey: source evaluates e *)
      destruct (eval rho e) as [[ve te]|] eqn:Ee; [|discriminate]. inversion He; subst; clear He.
      assert (L2 : n1 + 2 <= n2).
      { destruct (eval rho t) as [[vt tt]|] eqn:Et.
        - assert (HRt : R rho sg F1' (n1 + 2)) by (eapply R_mono; [exact HR|lia|exact A1']).
          destruct (IHt sg (n1 + 2) rho F1' vt tt dt et n2 true HRt Et Gt eq_refl) as (? & ? & ? & _ & _ & _ & L & _). exact L.
        - (* the untaken branch need not evaluate; monotonicity of the counter is syntactic *)
          eapply gen_mono; eauto. }
      assert (HRe : R rho sg F1' n2) by (eapply R_mono; [exact HR|lia|exact A1']).
      destruct (IHe sg n2 rho F1' v te de ee n' true HRe Ee Ge eq_refl)
        as (F2 & te1 & te2 & X2 & P2 & T2 & L3 & A2 & N2 & Q2).
      exists (set F2 res v), (tc1 ++ tc2 ++ te1 ++ te2), [].
      split.
      { rewrite exec_app, X1. rewrite exec_cons, exec1_assign, P1.
        fold F1'. rewrite exec_cons, exec1_if. unfold F1' at 1. rewrite set_same, Fv.
        fold F1'. rewrite exec_app, X2. rewrite exec_cons, exec1_assign, P2, !exec_nil.
        rewrite ?app_nil_r. rewrite <- ?app_assoc. reflexivity. }
      split; [simpl; rewrite set_same; reflexivity|].
      split; [subst; rewrite ?app_nil_r, <- ?app_assoc; reflexivity|].
      split; [lia|].
      split.
      { eapply agree_trans; [apply N.le_refl|exact A1'|].
        eapply agree_trans; [|eapply agree_weaken; [|exact A2]|]; [apply N.le_refl|lia|].
        apply agree_set. simpl. lia. }
      split; [simpl; apply N.ltb_lt; lia|].
      intro Hq. apply quiet_if_parts in Hq as (Hq1 & Hq2 & Hq3 & Hq4).
      apply quiet_snoc_assign in Hq3 as (Hq3 & Hq5).
      assert (Etc2 : tc2 = []) by (eapply atomic_no_trace; [|exact P1]; destruct ec; auto; discriminate).
      assert (Ete2 : te2 = []) by (eapply atomic_no_trace; [|exact P2]; destruct ee; auto; discriminate).
      rewrite (Q1 Hq1), Etc2, Ete2, (Q2 Hq3). reflexivity.
    + (* truthy: source evaluates t *)
      destruct (eval rho t) as [[vt tt]|] eqn:Et; [|discriminate]. inversion He; subst; clear He.
      assert (HRt : R rho sg F1' (n1 + 2)) by (eapply R_mono; [exact HR|lia|exact A1']).
      destruct (IHt sg (n1 + 2) rho F1' v tt dt et n2 true HRt Et Gt eq_refl)
        as (F2 & tt1 & tt2 & X2 & P2 & T2 & L2 & A2 & N2 & Q2).
      assert (L3 : n2 <= n').
      { clear - Ge.
        eapply gen_mono; eauto. }
      exists (set F2 res v), (tc1 ++ tc2 ++ tt1 ++ tt2), [].
      split.
      { rewrite exec_app, X1. rewrite exec_cons, exec1_assign, P1.
        fold F1'. rewrite exec_cons, exec1_if. unfold F1' at 1. rewrite set_same, Fv.
        fold F1'. rewrite exec_app, X2. rewrite exec_cons, exec1_assign, P2, !exec_nil.
        rewrite ?app_nil_r. rewrite <- ?app_assoc. reflexivity. }
      split; [simpl; rewrite set_same; reflexivity|].
      split; [subst; rewrite ?app_nil_r, <- ?app_assoc; reflexivity|].
      split; [lia|].
      split.
      { eapply agree_trans; [apply N.le_refl|exact A1'|].
        eapply agree_trans; [|eapply agree_weaken; [|exact A2]|]; [apply N.le_refl|lia|].
        apply agree_set. simpl. lia. }
      split; [simpl; apply N.ltb_lt; lia|].
      intro Hq. apply quiet_if_parts in Hq as (Hq1 & Hq2 & Hq3 & Hq4).
      apply quiet_snoc_assign in Hq4 as (Hq4 & Hq5).
      assert (Etc2 : tc2 = []) by (eapply atomic_no_trace; [|exact P1]; destruct ec; auto; discriminate).
      assert (Ett2 : tt2 = []) by (eapply atomic_no_trace; [|exact P2]; destruct et; auto; discriminate).
      rewrite (Q1 Hq1), Etc2, Ett2, (Q2 Hq4). reflexivity.
  - (* do *)
    simpl in He.
    destruct (eval rho s) as [[vs ts]|] eqn:Es; [|discriminate].
    destruct (eval rho r) as [[vr trr]|] eqn:Er; [|discriminate]. inversion He; subst; clear He.
    cbn [gen] in Hg.
    destruct (gen sg n s) as [[[ds es] n1] k1] eqn:Gs.
    destruct (gen sg n1 r) as [[[dr er] n2] k2] eqn:Gr.
    try subst k. injection Hg as Hg1 Hg2 Hg3 Hk. subst.
    apply andb_true_iff in Hk as [Hk1 Hk2]. subst.
    destruct (IHs sg n rho F vs ts ds es n1 true HR Es Gs eq_refl)
      as (F1 & ts1 & ts2 & X1 & P1 & T1 & L1 & A1 & N1 & Q1).
    assert (HR1 : R rho sg F1 n1) by (eapply R_mono; eauto).
    destruct (IHr sg n1 rho F1 v trr dr pe n' true HR1 Er Gr eq_refl)
      as (F2 & tr1 & tr2 & X2 & P2 & T2 & L2 & A2 & N2 & Q2).
    exists F2, (ts1 ++ ts2 ++ tr1), tr2.
    split.
    { rewrite exec_app, X1. cbn [app]. rewrite exec_cons, exec1_expr, P1, X2. rewrite <- ?app_assoc. reflexivity. }
    split; [exact P2|].
    split; [subst; rewrite <- ?app_assoc; reflexivity|].
    split; [lia|].
    split; [eapply agree_trans; eauto|].
    split; [exact N2|].
    intro Hq. rewrite quiet_app in Hq. cbn [app] in Hq. rewrite quiet_cons in Hq. cbn [quiet1] in Hq.
    apply andb_true_iff in Hq as [Hq1 Hq]. apply andb_true_iff in Hq as [Hqe Hq2].
    assert (Ets2 : ts2 = []) by (eapply atomic_no_trace; [|exact P1]; destruct es; auto; discriminate).
    rewrite (Q1 Hq1), Ets2, (Q2 Hq2). reflexivity.
  - (* let *)
    simpl in He.
    destruct (eval rho i) as [[vi ti]|] eqn:Ei; [|discriminate].
    destruct (eval (upd rho x vi) b) as [[vb tb]|] eqn:Eb; [|discriminate]. inversion He; subst; clear He.
    cbn [gen] in Hg.
    destruct (gen sg n i) as [[[di ei] n1] k1] eqn:Gi.
    destruct (gen (upd sg x (NLocal x n1)) (n1 + 1) b) as [[[db eb] n2] k2] eqn:Gb.
    try subst k. injection Hg as Hg1 Hg2 Hg3 Hk. subst.
    apply andb_true_iff in Hk as [Hk1 Hk2]. subst.
    destruct (IHi sg n rho F vi ti di ei n1 true HR Ei Gi eq_refl)
      as (F1 & ti1 & ti2 & X1 & P1 & T1 & L1 & A1 & N1 & Q1).
    set (p := NLocal x n1) in *.
    set (F1' := set F1 p vi).
    assert (HR1 : R (upd rho x vi) (upd sg x p) F1' (n1 + 1)).
    { intros y vy Hy. unfold upd in *. destruct (N.eqb y x) eqn:Eyx.
      - inversion Hy; subst. exists p. repeat split; [simpl; lia|]. unfold F1'. apply set_same.
      - destruct (HR y vy Hy) as (q & Hs & Hi & Hf). exists q. repeat split; auto; [lia|].
        unfold F1'. rewrite set_other; [rewrite A1; auto|]. intro E; subst q. simpl in Hi. lia. }
    destruct (IHb (upd sg x p) (n1 + 1) (upd rho x vi) F1' v tb db pe n' true HR1 Eb Gb eq_refl)
      as (F2 & tb1 & tb2 & X2 & P2 & T2 & L2 & A2 & N2 & Q2).
    exists F2, (ti1 ++ ti2 ++ tb1), tb2.
    split.
    { rewrite exec_app, X1. cbn [app]. rewrite exec_cons, exec1_assign, P1. fold F1'. rewrite X2.
      rewrite <- ?app_assoc. reflexivity. }
    split; [exact P2|].
    split; [subst; rewrite <- ?app_assoc; reflexivity|].
    split; [lia|].
    split.
    { eapply agree_trans; [apply N.le_refl|exact A1|].
      eapply agree_trans; [apply N.le_refl| |eapply agree_weaken; [|exact A2]; lia].
      apply agree_set. simpl. lia. }
    split; [exact N2|].
    intro Hq. rewrite quiet_app in Hq. cbn [app] in Hq. rewrite quiet_cons in Hq. cbn [quiet1] in Hq.
    apply andb_true_iff in Hq as [Hq1 Hq]. apply andb_true_iff in Hq as [Hqe Hq2].
    assert (Eti2 : ti2 = []) by (eapply atomic_no_trace; [|exact P1]; destruct ei; auto; discriminate).
    rewrite (Q1 Hq1), Eti2, (Q2 Hq2). reflexivity.
  - (* call *)
    rewrite eval_call in He.
    destruct (eval_list rho args) as [[vs ta]|] eqn:Ea; [|discriminate].
    destruct (apply_prim f vs) as [[vr tp]|] eqn:Ep; [|discriminate]. inversion He; subst; clear He.
    rewrite gen_call in Hg.
    destruct (gen_list sg n args) as [[[ds es] n1] k1] eqn:Gl. inversion Hg; subst; clear Hg.
    destruct (sim_list_of_Forall args IHargs sg n rho F vs ta d es n' true HR Ea Gl eq_refl)
      as (F1 & t1 & t2 & X1 & P1 & T1 & L1 & A1 & N1 & Q1).
    exists F1, t1, (t2 ++ tp).
    split; [exact X1|].
    split; [rewrite peval_call, P1, Ep; reflexivity|].
    split; [subst; rewrite app_assoc; reflexivity|].
    split; [lia|]. split; [exact A1|]. split; [exact N1|exact Q1].
Qed.
