(** C02 view of the same cases: the observable that matters is the effect trace. *)
From Coq Require Import List ZArith NArith Bool.
Import ListNotations.
From Verif Require Export C01.Corr.
From Verif Require Import Common.ListX.

Definition out_eqb (a b : out) : bool :=
  match a, b with
  | OVal _ t1, OVal _ t2 => list_eqb value_eqb t1 t2
  | OErr x, OErr y => N.eqb x y
  | _, _ => false
  end.
Definition spec_ok (c : case) (o : out) : bool := out_eqb (spec c) o.
