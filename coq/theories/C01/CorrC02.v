(** C02 view of the same cases: the observable that matters is the effect trace. *)
From Coq Require Import List ZArith NArith Bool.
Import ListNotations.
From Verif Require Export C01.AllCorr.

Definition out_eqb (a b : out) : bool := trace_eqb a b.
Definition spec_ok (c : case) (o : out) : bool := out_eqb (spec c) o.
