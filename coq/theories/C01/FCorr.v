(** C01/C02 correspondence interface for the full fragment, with the decidable hazard
    predicates (defect tags) that delimit the known findings:
      bit 1  hoisting hazard (F-02): an effectful inline expression precedes a sibling
             whose dependency statements are not quiet;
      bit 2  capture hazard (F-01a/b): a fn* closes over a local that is bound inside a
             loop* (loop local, or let/catch inside the loop body);
      bit 4  munge hazard (F-01c): two distinct local names of one munge class, one of
             them a fn* parameter;
      bit 8  catch-variable capture (F-01d): a fn* closes over a catch local;
      bit 16 tail recur inside a try with a finally clause (F-02c). *)
From Coq Require Import List ZArith NArith Bool.
Import ListNotations.
From Verif Require Export C01.FLisp C01.FPy C01.FGen.
From Verif Require Import Common.ListX.

Local Open Scope N_scope.

Definition case := expr.
Definition out := result.

Fixpoint obs_eqb (a b : obs) : bool :=
  match a, b with
  | ONil, ONil => true
  | OBool x, OBool y => Bool.eqb x y
  | OInt x, OInt y => Z.eqb x y
  | OVec l1, OVec l2 =>
      (fix go (l1 l2 : list obs) : bool :=
         match l1, l2 with
         | [], [] => true
         | x :: r1, y :: r2 => obs_eqb x y && go r1 r2
         | _, _ => false
         end) l1 l2
  | OFn, OFn => true
  | OExc c1 p1, OExc c2 p2 => N.eqb c1 c2 && obs_eqb p1 p2
  | OVar a, OVar b => N.eqb a b
  | _, _ => false
  end.

Definition FUEL : nat := 400.

Definition spec (c : case) : out := run_spec FUEL c.
Definition model (c : case) : out := run_model FUEL c.

(** C01 view: result value or exception class *)
Definition value_eqb (a b : out) : bool :=
  match a, b with
  | RVal v1 _, RVal v2 _ => obs_eqb v1 v2
  | RExc c1 _, RExc c2 _ => N.eqb c1 c2
  | RFuel, RFuel => true
  | RStuck, RStuck => true
  | _, _ => false
  end.

(** C02 view: effect trace *)
Definition trace_eqb (a b : out) : bool :=
  match a, b with
  | RVal _ t1, RVal _ t2 | RExc _ t1, RExc _ t2 | RVal _ t1, RExc _ t2 | RExc _ t1, RVal _ t2 =>
      list_eqb obs_eqb t1 t2
  | RFuel, RFuel => true
  | RStuck, RStuck => true
  | _, _ => false
  end.

(** ---- hazard predicates ---- *)
Definition mem (x : N) (l : list N) : bool := existsb (N.eqb x) l.
Definition remove (x : N) (l : list N) : list N := filter (fun y => negb (N.eqb x y)) l.

Definition any_e (f : expr -> bool) : list expr -> bool :=
  fix go (l : list expr) : bool := match l with [] => false | a :: r => f a || go r end.

(** free local variables *)
Fixpoint uses (bad : list N) (e : expr) : bool :=
  match e with
  | EConst _ | EGlobal _ => false
  | ELocal x => mem x bad
  | EDef _ i => uses bad i
  | EIf c t e => uses bad c || uses bad t || uses bad e
  | EDo a b => uses bad a || uses bad b
  | ELet x i b => uses bad i || uses (remove x bad) b
  | EFn self ps body =>
      uses (fold_right remove (match self with Some f => remove f bad | None => bad end) ps) body
  | EInvoke f args => uses bad f || any_e (uses bad) args
  | EPrim _ args | ERecur args | EVecLit args => any_e (uses bad) args
  | ELoop binds body =>
      (fix go (l : list (N * expr)) (bad : list N) : bool :=
         match l with
         | [] => uses bad body
         | (x, i) :: r => uses bad i || go r (remove x bad)
         end) binds bad
  | EThrow x => uses bad x
  | ETry b h f =>
      uses bad b
      || match h with Some (_, x, hb) => uses (remove x bad) hb | None => false end
      || match f with Some fe => uses bad fe | None => false end
  end.

(** [cap inl hot e]: some fn* inside e closes over a name in [hot]; names bound while
    [inl] (inside a loop body of the current function) become hot *)
Fixpoint cap (inl : bool) (hot : list N) (e : expr) : bool :=
  match e with
  | EConst _ | ELocal _ | EGlobal _ => false
  | EDef _ i => cap inl hot i
  | EIf c t e => cap inl hot c || cap inl hot t || cap inl hot e
  | EDo a b => cap inl hot a || cap inl hot b
  | ELet x i b => cap inl hot i || cap inl (if inl then x :: hot else remove x hot) b
  | EFn self ps body =>
      let hot' := fold_right remove (match self with Some f => remove f hot | None => hot end) ps in
      uses hot' body || cap false hot' body
  | EInvoke f args => cap inl hot f || any_e (cap inl hot) args
  | EPrim _ args | ERecur args | EVecLit args => any_e (cap inl hot) args
  | ELoop binds body =>
      (fix go (l : list (N * expr)) (hot : list N) : bool :=
         match l with
         | [] => cap true hot body
         | (x, i) :: r => cap inl hot i || go r (x :: hot)
         end) binds hot
  | EThrow x => cap inl hot x
  | ETry b h f =>
      cap inl hot b
      || match h with Some (_, x, hb) => cap inl (if inl then x :: hot else remove x hot) hb | None => false end
      || match f with Some fe => cap inl hot fe | None => false end
  end.

(** catch-variable capture *)
Fixpoint capc (hot : list N) (e : expr) : bool :=
  match e with
  | EConst _ | ELocal _ | EGlobal _ => false
  | EDef _ i => capc hot i
  | EIf c t e => capc hot c || capc hot t || capc hot e
  | EDo a b => capc hot a || capc hot b
  | ELet x i b => capc hot i || capc (remove x hot) b
  | EFn self ps body =>
      let hot' := fold_right remove (match self with Some f => remove f hot | None => hot end) ps in
      uses hot' body || capc hot' body
  | EInvoke f args => capc hot f || any_e (capc hot) args
  | EPrim _ args | ERecur args | EVecLit args => any_e (capc hot) args
  | ELoop binds body =>
      (fix go (l : list (N * expr)) (hot : list N) : bool :=
         match l with
         | [] => capc hot body
         | (x, i) :: r => capc hot i || go r (remove x hot)
         end) binds hot
  | EThrow x => capc hot x
  | ETry b h f =>
      capc hot b
      || match h with Some (_, x, hb) => capc (x :: hot) hb | None => false end
      || match f with Some fe => capc hot fe | None => false end
  end.

(** all local names bound anywhere, and fn parameters *)
Fixpoint binders (e : expr) : list N * list N :=   (* (all bound names, fn params) *)
  let cat (a b : list N * list N) := (fst a ++ fst b, snd a ++ snd b) in
  let many := fix go (l : list expr) : list N * list N :=
                match l with [] => ([], []) | a :: r => cat (binders a) (go r) end in
  match e with
  | EConst _ | ELocal _ | EGlobal _ => ([], [])
  | EDef _ i => binders i
  | EIf c t e => cat (binders c) (cat (binders t) (binders e))
  | EDo a b => cat (binders a) (binders b)
  | ELet x i b => cat ([x], []) (cat (binders i) (binders b))
  | EFn self ps body => cat (ps ++ match self with Some f => [f] | None => [] end, ps) (binders body)
  | EInvoke f args => cat (binders f) (many args)
  | EPrim _ args | ERecur args | EVecLit args => many args
  | ELoop binds body =>
      cat ((fix go (l : list (N * expr)) : list N * list N :=
              match l with [] => ([], []) | (x, i) :: r => cat ([x], []) (cat (binders i) (go r)) end) binds)
          (binders body)
  | EThrow x => binders x
  | ETry b h f =>
      cat (binders b)
          (cat (match h with Some (_, x, hb) => cat ([x], []) (binders hb) | None => ([], []) end)
               (match f with Some fe => binders fe | None => ([], []) end))
  end.

Definition munge_hazard (e : expr) : bool :=
  let '(alln, ps) := binders e in
  existsb (fun p => existsb (fun q => negb (N.eqb p q) && N.eqb (mclass p) (mclass q)) alln) ps.

(** hoisting hazard, computed on the generated pieces as the generator sees them *)
Definition atomic (e : pexpr) : bool :=
  match e with PConst _ | PName _ | PInternVar _ _ => true | _ => false end.

Definition all_stmts (f : stmt -> bool) : list stmt -> bool :=
  fix go (l : list stmt) : bool := match l with [] => true | s :: r => f s && go r end.

Fixpoint quiet1 (s : stmt) : bool :=
  match s with
  | SAssign _ e | SExpr e => atomic e
  | SIf _ a b => all_stmts quiet1 a && all_stmts quiet1 b
  | SDef _ _ _ _ | SGlobal _ => true
  | _ => false
  end.
Definition quiet := all_stmts quiet1.

Definition hoist_list (g : N -> expr -> gout) (h : expr -> bool) : list expr -> N -> bool :=
  fix go (l : list expr) (n : N) : bool :=
    match l with
    | [] => false
    | a :: r =>
        let '(_, e, n1) := g n a in
        let '(ds, _, _) := gen_list g r n1 in
        h a || negb (atomic e || quiet ds) || go r n1
    end.

(** conservative and context-insensitive: sub-expressions are re-generated in the top
    context (only the shape of the generated pieces matters) *)
Fixpoint hoist (e : expr) : bool :=
  let g := fun n a => gen top_ctx n a in
  match e with
  | EConst _ | ELocal _ | EGlobal _ => false
  | EDef _ i => hoist i
  | EIf c t e => hoist c || hoist t || hoist e
  | EDo a b => hoist a || hoist b
  | ELet _ i b => hoist i || hoist b
  | EFn _ _ body => hoist body
  | EInvoke f args => hoist_list g hoist (f :: args) 0
  | EPrim _ args | ERecur args | EVecLit args => hoist_list g hoist args 0
  | ELoop binds body =>
      (fix go (l : list (N * expr)) : bool :=
         match l with [] => false | (_, i) :: r => hoist i || go r end) binds || hoist body
  | EThrow x => hoist x
  | ETry b h f =>
      hoist b || match h with Some (_, _, hb) => hoist hb | None => false end
      || match f with Some fe => hoist fe | None => false end
  end.

(** a tail `recur` inside a `try` that has a `finally` clause (F-02c): the generated
    re-assignment of the loop locals happens inside the Python try, before the finally *)
Fixpoint recur_try (infin : bool) (e : expr) : bool :=
  match e with
  | ERecur _ => infin
  | EConst _ | ELocal _ | EGlobal _ => false
  | EDef _ i => recur_try false i
  | EIf c t e => recur_try infin t || recur_try infin e || recur_try false c
  | EDo a b => recur_try false a || recur_try infin b
  | ELet _ i b => recur_try false i || recur_try infin b
  | EFn _ _ body => recur_try false body
  | EInvoke f args => recur_try false f || any_e (recur_try false) args
  | EPrim _ args | EVecLit args => any_e (recur_try false) args
  | ELoop binds body =>
      (fix go (l : list (N * expr)) : bool :=
         match l with [] => false | (_, i) :: r => recur_try false i || go r end) binds
      || recur_try false body
  | EThrow x => recur_try false x
  | ETry b h f =>
      let infin' := match f with Some _ => true | None => infin end in
      recur_try infin' b
      || match h with Some (_, _, hb) => recur_try infin' hb | None => false end
      || match f with Some fe => recur_try false fe | None => false end
  end.

Definition tag (c : case) : N :=
  (if hoist c then 1 else 0) + (if cap false [] c then 2 else 0)
  + (if munge_hazard c then 4 else 0) + (if capc [] c then 8 else 0)
  + (if recur_try false c then 16 else 0).
