(** C01 view of the cases: the observable that matters is the result value / exception. *)
From Coq Require Import List ZArith NArith Bool.
Import ListNotations.
From Verif Require Export C01.Corr.

Definition out_eqb (a b : out) : bool :=
  match a, b with
  | OVal v1 _, OVal v2 _ => value_eqb v1 v2
  | OErr x, OErr y => N.eqb x y
  | _, _ => false
  end.
Definition spec_ok (c : case) (o : out) : bool := out_eqb (spec c) o.
