(** The Python subset emitted for the full fragment and its semantics: function frames
    map names to mutable cells, closures capture the chain of enclosing frames by
    reference, module level assigns module globals, `except ... as n` unbinds n on exit,
    `while True` / break / continue / return / raise, try/except/finally, and the
    _trampoline decorator used for `recur` inside fn*. *)
From Coq Require Import List ZArith NArith Bool.
Import ListNotations.
From Verif Require Import C01.FLisp.

(** Python names.  NL x i = genname(munge x) for let/loop/catch locals; NP c = munge class
    of a fn parameter (NOT gensym'd by the generator); NT i = generated temporary or
    function name; NG c = module global of a def'ed var (munge class). *)
Inductive pname := NL (x i : N) | NP (c : N) | NT (i : N) | NG (c : N).

Definition pname_eqb (a b : pname) : bool :=
  match a, b with
  | NL x i, NL y j => N.eqb x y && N.eqb i j
  | NP a, NP b => N.eqb a b
  | NT a, NT b => N.eqb a b
  | NG a, NG b => N.eqb a b
  | _, _ => false
  end.

Inductive pexpr :=
| PConst (k : const)
| PName (n : pname)
| PCall (f : pexpr) (args : list pexpr)
| PPrim (p : prim) (args : list pexpr)
| PTrampArgs (args : list pexpr)
| PInternVar (g : N) (n : pname).          (* Var.intern(ns, sym, <module global n>) *)

Inductive stmt :=
| SAssign (n : pname) (e : pexpr)
| SAssignTuple (ns : list pname) (es : list pexpr)
| SExpr (e : pexpr)
| SIf (test : pname) (fb tb : list stmt)     (* if None is t or False is t: fb else: tb *)
| SWhile (body : list stmt)                  (* while True *)
| SBreak
| SContinue
| SReturn (e : pexpr)
| SRaise (e : pexpr)
| SGlobal (n : pname)
| SDef (n : pname) (params : list pname) (tramp : bool) (body : list stmt)
| STry (body : list stmt) (handler : option (N * pname * list stmt)) (fin : list stmt).

Definition frame := list (pname * nat).      (* local name -> cell index *)

Inductive pvalue :=
| PNil | PBool (b : bool) | PInt (z : Z) | PVecV (l : list pvalue)
| PFn (params : list pname) (tramp : bool) (body : list stmt) (chain : list frame)
| PExcV (cls : N) (payload : pvalue)
| PTramp (args : list pvalue)
| PVarV (g : N).

Fixpoint pobs (v : pvalue) : obs :=
  match v with
  | PNil => ONil | PBool b => OBool b | PInt z => OInt z
  | PVecV l => OVec (map pobs l)
  | PFn _ _ _ _ => OFn
  | PExcV c p => OExc c (pobs p)
  | PTramp _ => OFn
  | PVarV g => OVar g
  end.

Fixpoint pof_const (k : const) : pvalue :=
  match k with
  | KNil => PNil | KBool b => PBool b | KInt z => PInt z
  | KVec l => PVecV (map pof_const l)
  end.

Definition pfalsey (v : pvalue) : bool :=
  match v with PNil => true | PBool false => true | _ => false end.

Record pstate := { ptr : list obs; heap : list (option pvalue); pglobals : list (pname * pvalue) }.

Fixpoint plookup {A} (l : list (pname * A)) (x : pname) : option A :=
  match l with
  | [] => None
  | (y, a) :: r => if pname_eqb x y then Some a else plookup r x
  end.

Fixpoint premove {A} (l : list (pname * A)) (x : pname) : list (pname * A) :=
  match l with
  | [] => []
  | (y, a) :: r => if pname_eqb x y then premove r x else (y, a) :: premove r x
  end.

Fixpoint set_nth {A} (l : list A) (i : nat) (a : A) : list A :=
  match l, i with
  | [], _ => []
  | _ :: r, O => a :: r
  | x :: r, S j => x :: set_nth r j a
  end.

(** statement outcomes *)
Inductive sout :=
| SNormal | SBrk | SCont | SRet (v : pvalue) | SExc (v : pvalue) | SFuel | SStuck.

(** expression outcomes *)
Inductive eout := EVal (v : pvalue) | EExc (v : pvalue) | EFuel | EStuck.

Definition name_error : pvalue := PExcV CLS_NAME PNil.
Definition type_error : pvalue := PExcV CLS_TYPE PNil.

(** name resolution: innermost frame outwards, then module globals *)
Fixpoint find_cell (chain : list frame) (n : pname) : option nat :=
  match chain with
  | [] => None
  | f :: r => match plookup f n with Some c => Some c | None => find_cell r n end
  end.

Definition read_name (chain : list frame) (n : pname) (s : pstate) : eout :=
  match find_cell chain n with
  | Some c => match nth c (heap s) None with Some v => EVal v | None => EExc name_error end
  | None => match plookup (pglobals s) n with Some v => EVal v | None => EExc name_error end
  end.

Definition set_global_p (s : pstate) (n : pname) (v : pvalue) : pstate :=
  {| ptr := ptr s; heap := heap s; pglobals := (n, v) :: premove (pglobals s) n |}.

(** assignment: a name of the current function's frame is a local; anything else (module
    level, or declared `global`) is a module global *)
Definition write_name (chain : list frame) (n : pname) (v : pvalue) (s : pstate) : pstate :=
  match chain with
  | f :: _ =>
      match plookup f n with
      | Some c => {| ptr := ptr s; heap := set_nth (heap s) c (Some v); pglobals := pglobals s |}
      | None => set_global_p s n v
      end
  | [] => set_global_p s n v
  end.

Definition unbind_name (chain : list frame) (n : pname) (s : pstate) : pstate :=
  match chain with
  | f :: _ =>
      match plookup f n with
      | Some c => {| ptr := ptr s; heap := set_nth (heap s) c None; pglobals := pglobals s |}
      | None => {| ptr := ptr s; heap := heap s; pglobals := premove (pglobals s) n |}
      end
  | [] => {| ptr := ptr s; heap := heap s; pglobals := premove (pglobals s) n |}
  end.

(** names bound by assignment in a function body (not descending into nested defs) *)
Definition flat_stmts (f : stmt -> list pname) : list stmt -> list pname :=
  fix go (l : list stmt) : list pname := match l with [] => [] | x :: r => f x ++ go r end.

Fixpoint assigned1 (s : stmt) : list pname :=
  match s with
  | SAssign n _ => [n]
  | SAssignTuple ns _ => ns
  | SIf _ a b => flat_stmts assigned1 a ++ flat_stmts assigned1 b
  | SWhile b => flat_stmts assigned1 b
  | SDef n _ _ _ => [n]
  | STry b h f =>
      flat_stmts assigned1 b
      ++ (match h with Some (_, n, hb) => n :: flat_stmts assigned1 hb | None => [] end)
      ++ flat_stmts assigned1 f
  | _ => []
  end.
Definition assigned (l : list stmt) : list pname := flat_stmts assigned1 l.

Fixpoint declared_global1 (s : stmt) : list pname :=
  match s with
  | SGlobal n => [n]
  | SIf _ a b => flat_stmts declared_global1 a ++ flat_stmts declared_global1 b
  | SWhile b => flat_stmts declared_global1 b
  | STry b h f =>
      flat_stmts declared_global1 b
      ++ (match h with Some (_, _, hb) => flat_stmts declared_global1 hb | None => [] end)
      ++ flat_stmts declared_global1 f
  | _ => []
  end.
Definition declared_global (l : list stmt) : list pname := flat_stmts declared_global1 l.

Definition mem_name (n : pname) (l : list pname) : bool := existsb (pname_eqb n) l.

Fixpoint dedupe (l : list pname) : list pname :=
  match l with
  | [] => []
  | x :: r => if mem_name x r then dedupe r else x :: dedupe r
  end.

(** allocate one fresh (unbound) cell per local name *)
Fixpoint alloc (names : list pname) (h : list (option pvalue)) : frame * list (option pvalue) :=
  match names with
  | [] => ([], h)
  | n :: r => let '(f, h') := alloc r (h ++ [None]) in ((n, length h) :: f, h')
  end.

Fixpoint write_params (chain : list frame) (ps : list pname) (vs : list pvalue) (s : pstate) : option pstate :=
  match ps, vs with
  | [], [] => Some s
  | p :: ps', v :: vs' => write_params chain ps' vs' (write_name chain p v s)
  | _, _ => None
  end.

Definition padd_trace (s : pstate) (o : obs) : pstate :=
  {| ptr := ptr s ++ [o]; heap := heap s; pglobals := pglobals s |}.

Definition papply_prim (p : prim) (vs : list pvalue) (s : pstate) : eout * pstate :=
  match p, vs with
  | PTrace, [v] => (EVal v, padd_trace s (pobs v))
  | PVec, _ => (EVal (PVecV vs), s)
  | PConj, [PVecV l; v] => (EVal (PVecV (l ++ [v])), s)
  | PInc, [PInt z] => (EVal (PInt (z + 1)), s)
  | PLt, [PInt a; PInt b] => (EVal (PBool (Z.ltb a b)), s)
  | PMkExc c, [v] => (EVal (PExcV c v), s)
  | _, _ => (EStuck, s)
  end.

Section Sem.
  Variable peval : list frame -> pexpr -> pstate -> eout * pstate.

  Fixpoint pevals (chain : list frame) (l : list pexpr) (s : pstate) : (eout * list pvalue) * pstate :=
    match l with
    | [] => ((EVal PNil, []), s)
    | a :: r =>
        match peval chain a s with
        | (EVal v, s1) =>
            match pevals chain r s1 with
            | ((EVal _, vs), s2) => ((EVal PNil, v :: vs), s2)
            | other => other
            end
        | (o, s1) => ((o, []), s1)
        end
    end.
End Sem.

Section Stmts.
  Variable exec1 : list frame -> stmt -> pstate -> sout * pstate.
  Fixpoint execs (chain : list frame) (l : list stmt) (s : pstate) : sout * pstate :=
    match l with
    | [] => (SNormal, s)
    | st :: r =>
        match exec1 chain st s with
        | (SNormal, s1) => execs chain r s1
        | other => other
        end
    end.
End Stmts.

Fixpoint write_all (chain : list frame) (ns : list pname) (vs : list pvalue) (s : pstate) : option pstate :=
  match ns, vs with
  | [], [] => Some s
  | n :: ns', v :: vs' => write_all chain ns' vs' (write_name chain n v s)
  | _, _ => None
  end.

Fixpoint peval (fuel : nat) (chain : list frame) (e : pexpr) (s : pstate) : eout * pstate :=
  match fuel with
  | O => (EFuel, s)
  | S n =>
      match e with
      | PConst k => (EVal (pof_const k), s)
      | PName x => (read_name chain x s, s)
      | PCall f args =>
          match peval n chain f s with
          | (EVal vf, s1) =>
              match pevals (peval n) chain args s1 with
              | ((EVal _, vs), s2) => pcall n vf vs s2
              | ((o, _), s2) => (o, s2)
              end
          | other => other
          end
      | PPrim p args =>
          match pevals (peval n) chain args s with
          | ((EVal _, vs), s1) => papply_prim p vs s1
          | ((o, _), s1) => (o, s1)
          end
      | PTrampArgs args =>
          match pevals (peval n) chain args s with
          | ((EVal _, vs), s1) => (EVal (PTramp vs), s1)
          | ((o, _), s1) => (o, s1)
          end
      | PInternVar g x =>
          match read_name chain x s with
          | EVal _ => (EVal (PVarV g), s)
          | o => (o, s)
          end
      end
  end

with pcall (fuel : nat) (vf : pvalue) (vs : list pvalue) (s : pstate) : eout * pstate :=
  match fuel with
  | O => (EFuel, s)
  | S n =>
      match vf with
      | PFn params tramp body cchain =>
          if negb (Nat.eqb (length params) (length vs)) then (EExc type_error, s) else
          let globs := declared_global body in
          let locals := dedupe (filter (fun x => negb (mem_name x globs)) (params ++ assigned body)) in
          let '(fr, h') := alloc locals (heap s) in
          let s0 := {| ptr := ptr s; heap := h'; pglobals := pglobals s |} in
          let chain := fr :: cchain in
          match write_params chain params vs s0 with
          | None => (EStuck, s)
          | Some s1 =>
              match execs (exec1 n) chain body s1 with
              | (SRet (PTramp vs'), s2) =>
                  if tramp then pcall n vf vs' s2 else (EVal (PTramp vs'), s2)
              | (SRet v, s2) => (EVal v, s2)
              | (SNormal, s2) => (EVal PNil, s2)
              | (SExc v, s2) => (EExc v, s2)
              | (SFuel, s2) => (EFuel, s2)
              | (_, s2) => (EStuck, s2)
              end
          end
      | _ => (EStuck, s)
      end
  end

with exec1 (fuel : nat) (chain : list frame) (st : stmt) (s : pstate) : sout * pstate :=
  match fuel with
  | O => (SFuel, s)
  | S n =>
      let lift (o : eout) : sout :=
        match o with EVal _ => SNormal | EExc v => SExc v | EFuel => SFuel | EStuck => SStuck end in
      match st with
      | SAssign x e =>
          match peval n chain e s with
          | (EVal v, s1) => (SNormal, write_name chain x v s1)
          | (o, s1) => (lift o, s1)
          end
      | SAssignTuple xs es =>
          match pevals (peval n) chain es s with
          | ((EVal _, vs), s1) =>
              match write_all chain xs vs s1 with Some s2 => (SNormal, s2) | None => (SStuck, s1) end
          | ((o, _), s1) => (lift o, s1)
          end
      | SExpr e =>
          match peval n chain e s with
          | (o, s1) => (lift o, s1)
          end
      | SIf t fb tb =>
          match read_name chain t s with
          | EVal v => execs (exec1 n) chain (if pfalsey v then fb else tb) s
          | o => (lift o, s)
          end
      | SWhile body => pwhile n chain body s
      | SBreak => (SBrk, s)
      | SContinue => (SCont, s)
      | SReturn e =>
          match peval n chain e s with
          | (EVal v, s1) => (SRet v, s1)
          | (o, s1) => (lift o, s1)
          end
      | SRaise e =>
          match peval n chain e s with
          | (EVal v, s1) => (SExc v, s1)
          | (o, s1) => (lift o, s1)
          end
      | SGlobal _ => (SNormal, s)
      | SDef x params tramp body => (SNormal, write_name chain x (PFn params tramp body chain) s)
      | STry body handler fin =>
          let r1 :=
            match execs (exec1 n) chain body s with
            | (SExc (PExcV c p), s1) =>
                match handler with
                | Some (hc, x, hb) =>
                    if catches hc c then
                      let s2 := write_name chain x (PExcV c p) s1 in
                      match execs (exec1 n) chain hb s2 with
                      | (o, s3) => (o, unbind_name chain x s3)     (* implicit `del x` *)
                      end
                    else (SExc (PExcV c p), s1)
                | None => (SExc (PExcV c p), s1)
                end
            | other => other
            end in
          match r1 with
          | (SFuel, s1) => (SFuel, s1)
          | (SStuck, s1) => (SStuck, s1)
          | (o, s1) =>
              match execs (exec1 n) chain fin s1 with
              | (SNormal, s2) => (o, s2)
              | other => other
              end
          end
      end
  end

with pwhile (fuel : nat) (chain : list frame) (body : list stmt) (s : pstate) : sout * pstate :=
  match fuel with
  | O => (SFuel, s)
  | S n =>
      match execs (exec1 n) chain body s with
      | (SNormal, s1) => pwhile n chain body s1
      | (SCont, s1) => pwhile n chain body s1
      | (SBrk, s1) => (SNormal, s1)
      | other => other
      end
  end.

Definition pinit : pstate := {| ptr := []; heap := []; pglobals := [] |}.
