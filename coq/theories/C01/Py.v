(** The Python subset emitted by the generator for the first-order core, with its
    semantics: one frame mapping Python names to values (no closures in this fragment). *)
From Coq Require Import List ZArith NArith Bool.
Import ListNotations.
From Verif Require Import C01.Lisp.

(** Python names are structured: genname(munge(x)) = (x, counter); temporaries
    (if_test_N, if_result_N) = counter only.  That textual names built this way do not
    collide is the job of munge/genname (C10) and is assumed here. *)
Inductive pname := NLocal (x : N) (i : N) | NTemp (i : N).
Definition idx (p : pname) : N := match p with NLocal _ i => i | NTemp i => i end.

Definition pname_eqb (a b : pname) : bool :=
  match a, b with
  | NLocal x i, NLocal y j => N.eqb x y && N.eqb i j
  | NTemp i, NTemp j => N.eqb i j
  | _, _ => false
  end.

Lemma pname_eqb_eq a b : pname_eqb a b = true <-> a = b.
Proof.
  destruct a as [x i|i], b as [y j|j]; simpl; rewrite ?andb_true_iff, ?N.eqb_eq; split; intro H;
    try discriminate.
  - destruct H; subst; reflexivity.
  - inversion H; auto.
  - subst; reflexivity.
  - inversion H; auto.
Qed.

Inductive pexpr :=
| PConst (v : value)
| PName (n : pname)
| PCall (f : prim) (args : list pexpr).

Inductive stmt :=
| SAssign (n : pname) (e : pexpr)
| SExpr (e : pexpr)
| SIf (test : pname) (falsey_branch truthy_branch : list stmt).
    (* if None is test or False is test: falsey_branch else: truthy_branch *)

Definition frame := pname -> option value.
Definition set (F : frame) (p : pname) (v : value) : frame :=
  fun q => if pname_eqb q p then Some v else F q.

Fixpoint peval (F : frame) (e : pexpr) : option (value * trace) :=
  match e with
  | PConst v => Some (v, [])
  | PName n => match F n with Some v => Some (v, []) | None => None end   (* NameError *)
  | PCall f args =>
      match (fix go (l : list pexpr) : option (list value * trace) :=
               match l with
               | [] => Some ([], [])
               | a :: r =>
                   match peval F a with
                   | Some (v, t1) =>
                       match go r with Some (vs, t2) => Some (v :: vs, t1 ++ t2) | None => None end
                   | None => None
                   end
               end) args with
      | Some (vs, t1) =>
          match apply_prim f vs with Some (v, t2) => Some (v, t1 ++ t2) | None => None end
      | None => None
      end
  end.

Fixpoint peval_list (F : frame) (l : list pexpr) : option (list value * trace) :=
  match l with
  | [] => Some ([], [])
  | a :: r =>
      match peval F a with
      | Some (v, t1) =>
          match peval_list F r with Some (vs, t2) => Some (v :: vs, t1 ++ t2) | None => None end
      | None => None
      end
  end.

Lemma peval_call F f args :
  peval F (PCall f args) =
    match peval_list F args with
    | Some (vs, t1) =>
        match apply_prim f vs with Some (v, t2) => Some (v, t1 ++ t2) | None => None end
    | None => None
    end.
Proof.
  cbn [peval].
  match goal with |- match ?g args with _ => _ end = _ =>
    assert (E : forall l, g l = peval_list F l) end.
  { induction l as [|a r IH]; [reflexivity|]. cbn [peval_list]. rewrite <- IH. reflexivity. }
  rewrite E. reflexivity.
Qed.

Fixpoint exec1 (F : frame) (s : stmt) : option (frame * trace) :=
  match s with
  | SAssign n e => match peval F e with Some (v, t) => Some (set F n v, t) | None => None end
  | SExpr e => match peval F e with Some (_, t) => Some (F, t) | None => None end
  | SIf test fb tb =>
      match F test with
      | Some v =>
          (fix go (F : frame) (l : list stmt) : option (frame * trace) :=
             match l with
             | [] => Some (F, [])
             | s :: r =>
                 match exec1 F s with
                 | Some (F1, t1) =>
                     match go F1 r with Some (F2, t2) => Some (F2, t1 ++ t2) | None => None end
                 | None => None
                 end
             end) F (if falsey v then fb else tb)
      | None => None
      end
  end.

Fixpoint exec (F : frame) (l : list stmt) : option (frame * trace) :=
  match l with
  | [] => Some (F, [])
  | s :: r =>
      match exec1 F s with
      | Some (F1, t1) =>
          match exec F1 r with Some (F2, t2) => Some (F2, t1 ++ t2) | None => None end
      | None => None
      end
  end.

Lemma exec1_if F test fb tb :
  exec1 F (SIf test fb tb) =
    match F test with
    | Some v => exec F (if falsey v then fb else tb)
    | None => None
    end.
Proof.
  simpl. destruct (F test) as [v|]; [|reflexivity].
  generalize (if falsey v then fb else tb). intro l. revert F.
  induction l as [|s r IH]; intro F; simpl; [reflexivity|].
  destruct (exec1 F s) as [[F1 t1]|]; [|reflexivity]. rewrite IH. reflexivity.
Qed.

Lemma exec_app F l1 l2 :
  exec F (l1 ++ l2) =
    match exec F l1 with
    | Some (F1, t1) => match exec F1 l2 with Some (F2, t2) => Some (F2, t1 ++ t2) | None => None end
    | None => None
    end.
Proof.
  revert F. induction l1 as [|s r IH]; intro F; simpl.
  - destruct (exec F l2) as [[F2 t2]|]; reflexivity.
  - destruct (exec1 F s) as [[F1 t1]|]; [|reflexivity].
    rewrite IH. destruct (exec F1 r) as [[F2 t2]|]; [|reflexivity].
    destruct (exec F2 l2) as [[F3 t3]|]; [|reflexivity]. rewrite app_assoc. reflexivity.
Qed.

Lemma exec_nil F : exec F [] = Some (F, []).
Proof. reflexivity. Qed.
Lemma exec_cons F s r :
  exec F (s :: r) =
    match exec1 F s with
    | Some (F1, t1) => match exec F1 r with Some (F2, t2) => Some (F2, t1 ++ t2) | None => None end
    | None => None
    end.
Proof. reflexivity. Qed.
Lemma exec1_assign F n e :
  exec1 F (SAssign n e) = match peval F e with Some (v, t) => Some (set F n v, t) | None => None end.
Proof. reflexivity. Qed.
Lemma exec1_expr F e :
  exec1 F (SExpr e) = match peval F e with Some (_, t) => Some (F, t) | None => None end.
Proof. reflexivity. Qed.

(** pexpr induction reaching call arguments *)
Section PexprInd.
  Variable P : pexpr -> Prop.
  Hypothesis HConst : forall v, P (PConst v).
  Hypothesis HName : forall n, P (PName n).
  Hypothesis HCall : forall f args, Forall P args -> P (PCall f args).
  Fixpoint pexpr_ind' (e : pexpr) : P e :=
    match e with
    | PConst v => HConst v
    | PName n => HName n
    | PCall f args =>
        HCall f args ((fix go (l : list pexpr) : Forall P l :=
                         match l with
                         | [] => Forall_nil P
                         | a :: r => Forall_cons a (pexpr_ind' a) (go r)
                         end) args)
    end.
End PexprInd.
