(** C01/C02 correspondence interface.  The case is a closed program of the modelled
    fragment; the observable is (result value, trace of the tracing function) or an
    exception class. *)
From Coq Require Import List ZArith NArith Bool.
Import ListNotations.
From Verif Require Export C01.Lisp C01.Py C01.Gen.
From Verif Require Import Common.ListX.

Definition case := expr.

Inductive out :=
| OVal (v : value) (tr : trace)
| OErr (cls : N).     (* 1 = compile-time error, 2 = run-time exception, 3 = hang/timeout *)

Fixpoint value_eqb (a b : value) : bool :=
  match a, b with
  | VNil, VNil => true
  | VBool x, VBool y => Bool.eqb x y
  | VInt x, VInt y => Z.eqb x y
  | VVec l1, VVec l2 =>
      (fix go (l1 l2 : list value) : bool :=
         match l1, l2 with
         | [], [] => true
         | x :: r1, y :: r2 => value_eqb x y && go r1 r2
         | _, _ => false
         end) l1 l2
  | _, _ => false
  end.

Definition out_of (r : option (value * trace)) : out :=
  match r with Some (v, tr) => OVal v tr | None => OErr 1%N end.

Definition out_eqb (a b : out) : bool :=
  match a, b with
  | OVal v1 t1, OVal v2 t2 => value_eqb v1 v2 && list_eqb value_eqb t1 t2
  | OErr x, OErr y => N.eqb x y
  | _, _ => false
  end.

Definition spec (c : case) : out := out_of (eval (fun _ => None) c).
Definition model (c : case) : out := out_of (run c).
Definition spec_ok (c : case) (o : out) : bool := out_eqb (spec c) o.

(** defect tag: 1 = hoisting hazard present (outside the guard of C01_compile_correct_partial) *)
Definition tag (c : case) : N := if hazard_free c then 0%N else 1%N.
