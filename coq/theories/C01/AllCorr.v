(** One case type for both developments: CS = program of the first-order core run through
    the model the simulation theorem is about (Lisp.v/Gen.v); CF = program of the full
    fragment run through FLisp/FPy/FGen.  Observables are mapped into FLisp.result. *)
From Coq Require Import List ZArith NArith Bool.
Import ListNotations.
From Verif Require C01.Lisp C01.Py C01.Gen C01L.LLisp C01L.LPy C01L.LGen C01X.XLisp C01X.XPy C01X.XGen.
From Verif Require C01C.CLisp C01C.CPy C01C.CGen.
From Verif Require Export C01.FCorr.

Inductive case :=
| CS (e : Verif.C01.Lisp.expr)          (* first-order core: model of C01/Gen.v (simulation theorem) *)
| CL (e : Verif.C01L.LLisp.lexpr)        (* core + loop*/recur: model of C01L/LGen.v (simulation theorem) *)
| CX (e : Verif.C01X.XLisp.xexpr) (f : FLisp.expr)
                                        (* core + loops + throw/try/catch/finally: model of C01X/XGen.v
                                           (simulation theorem); f is the same program in the full
                                           fragment, used where the C01X semantics is undefined
                                           (type errors raised by primitives, recur through try) *)
| CC (e : Verif.C01C.CLisp.cexpr) (f : FLisp.expr)
                                        (* core + fn*/closures/invocation: model of C01C/CGen.v (simulation
                                           theorem); f as for CX *)
| CF (e : FLisp.expr).                  (* full fragment: executable model only *)
Definition out := result.

Fixpoint obs_s (v : Verif.C01.Lisp.value) : obs :=
  match v with
  | Verif.C01.Lisp.VNil => ONil
  | Verif.C01.Lisp.VBool b => OBool b
  | Verif.C01.Lisp.VInt z => OInt z
  | Verif.C01.Lisp.VVec l => OVec (map obs_s l)
  | Verif.C01.Lisp.VExc c p => OExc c (obs_s p)
  end.

Definition res_s (r : option (Verif.C01.Lisp.value * Verif.C01.Lisp.trace)) : result :=
  match r with Some (v, t) => RVal (obs_s v) (map obs_s t) | None => RStuck end.

Definition spec (c : case) : out :=
  match c with
  | CS e => res_s (Verif.C01.Lisp.eval (fun _ => None) e)
  | CL e =>
      match Verif.C01L.LLisp.leval 300 (fun _ => None) e with
      | Some (Verif.C01L.LLisp.OVal v, t) => RVal (obs_s v) (map obs_s t)
      | _ => RStuck
      end
  | CX e f =>
      match Verif.C01X.XLisp.xeval 300 (fun _ => None) e with
      | Some (Verif.C01X.XLisp.OVal v, t) => RVal (obs_s v) (map obs_s t)
      | Some (Verif.C01X.XLisp.OExc c _, t) => RExc c (map obs_s t)
      | _ => FCorr.spec f
      end
  | CC e f =>
      match Verif.C01C.CGen.ceval_obs 300 e with
      | Some (o, t) => RVal o t
      | None => FCorr.spec f
      end
  | CF e => FCorr.spec e
  end.

(** the C01C model abstracts munge as injective: it is used only for programs without a munge
    collision between a parameter and another name (hazard bit 4 of the full model, F-01c) *)
Definition c_defined (e : Verif.C01C.CLisp.cexpr) (f : FLisp.expr) : bool :=
  match Verif.C01C.CGen.ceval_obs 300 e with Some _ => N.eqb (N.land (FCorr.tag f) 4) 0 | None => false end.

Definition x_defined (e : Verif.C01X.XLisp.xexpr) : bool :=
  match Verif.C01X.XLisp.xeval 300 (fun _ => None) e with
  | Some (Verif.C01X.XLisp.OVal _, _) | Some (Verif.C01X.XLisp.OExc _ _, _) => true
  | _ => false
  end.

Definition model (c : case) : out :=
  match c with
  | CS e => res_s (Verif.C01.Gen.run e)
  | CL e => res_s (Verif.C01L.LGen.lrun 300 e)
  | CX e f =>
      if x_defined e then
        match Verif.C01X.XGen.xrun 300 e with
        | Some (Verif.C01X.XGen.XRVal v t) => RVal (obs_s v) (map obs_s t)
        | Some (Verif.C01X.XGen.XRExc c t) => RExc c (map obs_s t)
        | None => RStuck
        end
      else FCorr.model f
  | CC e f =>
      if c_defined e f then
        match Verif.C01C.CGen.crun 300 e with
        | Some (o, t) => RVal o t
        | None => RStuck
        end
      else FCorr.model f
  | CF e => FCorr.model e
  end.

Definition tag (c : case) : N :=
  match c with
  | CS e => if Verif.C01.Gen.hazard_free e then 0%N else 1%N
  | CL e => if Verif.C01L.LGen.hazard_free e then 0%N else 1%N
  | CX e f => if x_defined e && Verif.C01X.XGen.hazard_free e then 0%N else FCorr.tag f
  | CC e f => if c_defined e f && Verif.C01C.CGen.hazard_free e then 0%N else FCorr.tag f
  | CF e => FCorr.tag e
  end.
