(** Primitives the generated tables refer to. *)
From Coq Require Import List NArith Bool.
Import ListNotations.
From Verif Require Import Common.ListX.

Definition onone (o : option str) : bool := match o with None => true | Some _ => false end.

(** `<` and `==` on `str | None` operands.  Python raises TypeError for `None < str`; the
    source only compares namespaces after having excluded None, and the generated function
    is only trusted where the correspondence run agrees, so these cases are `false`. *)
Definition ostr_ltb (a b : option str) : bool :=
  match a, b with Some x, Some y => str_ltb x y | _, _ => false end.
Definition ostr_eqb (a b : option str) : bool := option_eqb str_eqb a b.
