(** Hand-written copies used only when the translator refuses a definition (the refusal is
    reported and the properties depending on it treat their tie to the code as broken). *)
From Coq Require Import List NArith Bool.
Import ListNotations.
From Verif Require Import Common.ListX Gen.Prims.

Definition kw_lt (ns1 : option str) (nm1 : str) (ns2 : option str) (nm2 : str) : bool :=
  if andb (onone ns1) (onone ns2) then str_ltb nm1 nm2
  else if onone ns1 then true
  else if onone ns2 then false
  else orb (ostr_ltb ns1 ns2) (andb (ostr_eqb ns1 ns2) (str_ltb nm1 nm2)).
Definition sym_lt := kw_lt.
Definition vector_lt_shape : N := 1%N.
Definition munge_replacements : list (N * str) := [].
Definition py_keywords : list str := [].
Definition py_builtins : list str := [].
