(** Hand-written copies used only when the translator refuses a definition (the refusal is
    reported and the properties depending on it treat their tie to the code as broken). *)
From Coq Require Import List NArith Bool.
Import ListNotations.
From Verif Require Import Common.ListX Gen.Prims.

Definition kw_lt (ns1 : option str) (nm1 : str) (ns2 : option str) (nm2 : str) : bool :=
  if andb (onone ns1) (onone ns2) then str_ltb nm1 nm2
  else if onone ns1 then true
  else if onone ns2 then false
  else orb (ostr_ltb ns1 ns2) (andb (ostr_eqb ns1 ns2) (str_ltb nm1 nm2)).
Definition sym_lt := kw_lt.
Definition vector_lt_shape : N := 1%N.
Definition munge_replacements : list (N * str) := [].
Definition py_keywords : list str := [].
Definition py_builtins : list str := [].

(* ---- C20 (harness/tr/tr_numbers.py): copies of what the translator emits for the pinned tree ---- *)
From Coq Require Import ZArith.

Definition c20_num_normalize (R : Type) (binop : N -> R -> R -> R) (isinst : N -> R -> bool) (un : N -> R -> R) (fraction2 : R -> R -> R) (den_is_one : R -> bool) (try_zde : R -> R -> R) (ftest : N -> R -> bool) (fconst : N -> R) (v_result__in : R) : R :=
  (let v_result := v_result__in in (if (andb (isinst 3%N v_result) (den_is_one v_result)) then (un 4%N v_result) else v_result)).

Definition c20_num_add (R : Type) (binop : N -> R -> R -> R) (isinst : N -> R -> bool) (un : N -> R -> R) (fraction2 : R -> R -> R) (den_is_one : R -> bool) (try_zde : R -> R -> R) (ftest : N -> R -> bool) (fconst : N -> R) (v_x v_y : R) : R :=
  (if (isinst 1%N v_x) then (c20_num_normalize R binop isinst un fraction2 den_is_one try_zde ftest fconst (if (isinst 2%N v_y) then (un 0%N (binop 0%N (un 1%N v_x) v_y)) else (binop 0%N v_x v_y)))
   else (if (isinst 2%N v_x) then (c20_num_normalize R binop isinst un fraction2 den_is_one try_zde ftest fconst (let v_v := (binop 0%N v_x (un 2%N v_y)) in (if (isinst 1%N v_y) then (un 0%N v_v) else v_v)))
   else (if (isinst 3%N v_x) then (c20_num_normalize R binop isinst un fraction2 den_is_one try_zde ftest fconst (if (isinst 2%N v_y) then (binop 0%N (un 2%N v_x) v_y) else (binop 0%N v_x v_y)))
   else (c20_num_normalize R binop isinst un fraction2 den_is_one try_zde ftest fconst (binop 0%N v_x v_y))))).

Definition c20_num_subtract (R : Type) (binop : N -> R -> R -> R) (isinst : N -> R -> bool) (un : N -> R -> R) (fraction2 : R -> R -> R) (den_is_one : R -> bool) (try_zde : R -> R -> R) (ftest : N -> R -> bool) (fconst : N -> R) (v_x v_y : R) : R :=
  (if (isinst 1%N v_x) then (c20_num_normalize R binop isinst un fraction2 den_is_one try_zde ftest fconst (if (isinst 2%N v_y) then (un 0%N (binop 1%N (un 1%N v_x) v_y)) else (binop 1%N v_x v_y)))
   else (if (isinst 2%N v_x) then (c20_num_normalize R binop isinst un fraction2 den_is_one try_zde ftest fconst (let v_v := (binop 1%N v_x (un 2%N v_y)) in (if (isinst 1%N v_y) then (un 0%N v_v) else v_v)))
   else (if (isinst 3%N v_x) then (c20_num_normalize R binop isinst un fraction2 den_is_one try_zde ftest fconst (if (isinst 2%N v_y) then (binop 1%N (un 2%N v_x) v_y) else (binop 1%N v_x v_y)))
   else (c20_num_normalize R binop isinst un fraction2 den_is_one try_zde ftest fconst (binop 1%N v_x v_y))))).

Definition c20_num_multiply (R : Type) (binop : N -> R -> R -> R) (isinst : N -> R -> bool) (un : N -> R -> R) (fraction2 : R -> R -> R) (den_is_one : R -> bool) (try_zde : R -> R -> R) (ftest : N -> R -> bool) (fconst : N -> R) (v_x v_y : R) : R :=
  (if (isinst 1%N v_x) then (c20_num_normalize R binop isinst un fraction2 den_is_one try_zde ftest fconst (if (isinst 2%N v_y) then (un 0%N (binop 2%N (un 1%N v_x) v_y)) else (binop 2%N v_x v_y)))
   else (if (isinst 2%N v_x) then (c20_num_normalize R binop isinst un fraction2 den_is_one try_zde ftest fconst (let v_v := (binop 2%N v_x (un 2%N v_y)) in (if (isinst 1%N v_y) then (un 0%N v_v) else v_v)))
   else (if (isinst 3%N v_x) then (c20_num_normalize R binop isinst un fraction2 den_is_one try_zde ftest fconst (if (isinst 2%N v_y) then (binop 2%N (un 2%N v_x) v_y) else (binop 2%N v_x v_y)))
   else (c20_num_normalize R binop isinst un fraction2 den_is_one try_zde ftest fconst (binop 2%N v_x v_y))))).

Definition c20_num_divide (R : Type) (binop : N -> R -> R -> R) (isinst : N -> R -> bool) (un : N -> R -> R) (fraction2 : R -> R -> R) (den_is_one : R -> bool) (try_zde : R -> R -> R) (ftest : N -> R -> bool) (fconst : N -> R) (v_x v_y : R) : R :=
  (if (isinst 0%N v_x) then (c20_num_normalize R binop isinst un fraction2 den_is_one try_zde ftest fconst (if (isinst 0%N v_y) then (fraction2 v_x v_y) else (binop 3%N v_x v_y)))
   else (if (isinst 1%N v_x) then (c20_num_normalize R binop isinst un fraction2 den_is_one try_zde ftest fconst (if (isinst 2%N v_y) then (un 0%N (binop 3%N (un 1%N v_x) v_y)) else (try_zde (binop 3%N v_x v_y) (if (ftest 0%N v_x) then (fconst 0%N) else (if (ftest 1%N v_x) then (fconst 1%N) else (un 6%N (fconst 1%N)))))))
   else (if (isinst 2%N v_x) then (c20_num_normalize R binop isinst un fraction2 den_is_one try_zde ftest fconst (let v_v := (binop 3%N v_x (un 2%N v_y)) in (if (isinst 1%N v_y) then (un 0%N v_v) else v_v)))
   else (if (isinst 3%N v_x) then (c20_num_normalize R binop isinst un fraction2 den_is_one try_zde ftest fconst (if (isinst 2%N v_y) then (binop 3%N (un 2%N v_x) v_y) else (binop 3%N v_x v_y)))
   else (c20_num_normalize R binop isinst un fraction2 den_is_one try_zde ftest fconst (binop 3%N v_x v_y)))))).

Definition c20_num_trunc (R : Type) (binop : N -> R -> R -> R) (isinst : N -> R -> bool) (un : N -> R -> R) (fraction2 : R -> R -> R) (den_is_one : R -> bool) (try_zde : R -> R -> R) (ftest : N -> R -> bool) (fconst : N -> R) (v_x : R) : R :=
  (if (isinst 1%N v_x) then (un 0%N (un 3%N v_x))
   else (if (isinst 2%N v_x) then (un 1%N (un 3%N v_x))
   else (if (isinst 3%N v_x) then (let v_v := (un 5%N (un 3%N v_x)) in (if (den_is_one v_v) then (un 4%N v_v) else v_v))
   else (un 3%N v_x)))).

Definition c20_num_to_decimal_shape : N := 1%N. (* 1 = Fraction -> Decimal(n)/Decimal(d); anything else -> Decimal(x) *)

Definition c20_core_add2 (R : Type) (lit : Z -> R) (call : str -> list R -> R) (ifte : R -> R -> R -> R) (bind : R -> (R -> R) -> R) (v_x v_y : R) : R :=
  (call [98%N; 97%N; 115%N; 105%N; 108%N; 105%N; 115%N; 112%N; 46%N; 108%N; 97%N; 110%N; 103%N; 46%N; 110%N; 117%N; 109%N; 98%N; 101%N; 114%N; 115%N; 47%N; 97%N; 100%N; 100%N] [v_x; v_y]).

Definition c20_core_sub1 (R : Type) (lit : Z -> R) (call : str -> list R -> R) (ifte : R -> R -> R -> R) (bind : R -> (R -> R) -> R) (v_x : R) : R :=
  (call [111%N; 112%N; 101%N; 114%N; 97%N; 116%N; 111%N; 114%N; 47%N; 110%N; 101%N; 103%N] [v_x]).

Definition c20_core_sub2 (R : Type) (lit : Z -> R) (call : str -> list R -> R) (ifte : R -> R -> R -> R) (bind : R -> (R -> R) -> R) (v_x v_y : R) : R :=
  (call [98%N; 97%N; 115%N; 105%N; 108%N; 105%N; 115%N; 112%N; 46%N; 108%N; 97%N; 110%N; 103%N; 46%N; 110%N; 117%N; 109%N; 98%N; 101%N; 114%N; 115%N; 47%N; 115%N; 117%N; 98%N; 116%N; 114%N; 97%N; 99%N; 116%N] [v_x; v_y]).

Definition c20_core_mul2 (R : Type) (lit : Z -> R) (call : str -> list R -> R) (ifte : R -> R -> R -> R) (bind : R -> (R -> R) -> R) (v_x v_y : R) : R :=
  (call [98%N; 97%N; 115%N; 105%N; 108%N; 105%N; 115%N; 112%N; 46%N; 108%N; 97%N; 110%N; 103%N; 46%N; 110%N; 117%N; 109%N; 98%N; 101%N; 114%N; 115%N; 47%N; 109%N; 117%N; 108%N; 116%N; 105%N; 112%N; 108%N; 121%N] [v_x; v_y]).

Definition c20_core_div1 (R : Type) (lit : Z -> R) (call : str -> list R -> R) (ifte : R -> R -> R -> R) (bind : R -> (R -> R) -> R) (v_x : R) : R :=
  (call [98%N; 97%N; 115%N; 105%N; 108%N; 105%N; 115%N; 112%N; 46%N; 108%N; 97%N; 110%N; 103%N; 46%N; 110%N; 117%N; 109%N; 98%N; 101%N; 114%N; 115%N; 47%N; 100%N; 105%N; 118%N; 105%N; 100%N; 101%N] [(lit (1)%Z); v_x]).

Definition c20_core_div2 (R : Type) (lit : Z -> R) (call : str -> list R -> R) (ifte : R -> R -> R -> R) (bind : R -> (R -> R) -> R) (v_x v_y : R) : R :=
  (call [98%N; 97%N; 115%N; 105%N; 108%N; 105%N; 115%N; 112%N; 46%N; 108%N; 97%N; 110%N; 103%N; 46%N; 110%N; 117%N; 109%N; 98%N; 101%N; 114%N; 115%N; 47%N; 100%N; 105%N; 118%N; 105%N; 100%N; 101%N] [v_x; v_y]).

Definition c20_core_quot (R : Type) (lit : Z -> R) (call : str -> list R -> R) (ifte : R -> R -> R -> R) (bind : R -> (R -> R) -> R) (v_num v_div : R) : R :=
  (call [98%N; 97%N; 115%N; 105%N; 108%N; 105%N; 115%N; 112%N; 46%N; 108%N; 97%N; 110%N; 103%N; 46%N; 110%N; 117%N; 109%N; 98%N; 101%N; 114%N; 115%N; 47%N; 116%N; 114%N; 117%N; 110%N; 99%N] [(call [47%N] [v_num; v_div])]).

Definition c20_core_rem (R : Type) (lit : Z -> R) (call : str -> list R -> R) (ifte : R -> R -> R -> R) (bind : R -> (R -> R) -> R) (v_num v_div : R) : R :=
  (bind (call [45%N] [v_num; (call [42%N] [v_div; (call [113%N; 117%N; 111%N; 116%N] [v_num; v_div])])]) (fun v_m => (ifte (bind (call [60%N] [v_num; (lit (0)%Z); v_div]) (fun v_and__1 => (ifte v_and__1 (call [62%N] [v_m; (lit (0)%Z)]) v_and__1))) (call [45%N] [v_m]) v_m))).

Definition c20_core_mod (R : Type) (lit : Z -> R) (call : str -> list R -> R) (ifte : R -> R -> R -> R) (bind : R -> (R -> R) -> R) (v_num v_div : R) : R :=
  (call [45%N] [v_num; (call [42%N] [v_div; (call [109%N; 97%N; 116%N; 104%N; 47%N; 102%N; 108%N; 111%N; 111%N; 114%N] [(call [47%N] [v_num; v_div])])])]).

Definition c20_core_inc (R : Type) (lit : Z -> R) (call : str -> list R -> R) (ifte : R -> R -> R -> R) (bind : R -> (R -> R) -> R) (v_x : R) : R :=
  (call [43%N] [v_x; (lit (1)%Z)]).

Definition c20_core_dec (R : Type) (lit : Z -> R) (call : str -> list R -> R) (ifte : R -> R -> R -> R) (bind : R -> (R -> R) -> R) (v_x : R) : R :=
  (call [45%N] [v_x; (lit (1)%Z)]).

Definition c20_core_incq (R : Type) (lit : Z -> R) (call : str -> list R -> R) (ifte : R -> R -> R -> R) (bind : R -> (R -> R) -> R) (v_x : R) : R :=
  (call [43%N] [v_x; (lit (1)%Z)]).

Definition c20_core_decq (R : Type) (lit : Z -> R) (call : str -> list R -> R) (ifte : R -> R -> R -> R) (bind : R -> (R -> R) -> R) (v_x : R) : R :=
  (call [45%N] [v_x; (lit (1)%Z)]).

Definition c20_core_abs (R : Type) (lit : Z -> R) (call : str -> list R -> R) (ifte : R -> R -> R -> R) (bind : R -> (R -> R) -> R) (v_x : R) : R :=
  (call [112%N; 121%N; 116%N; 104%N; 111%N; 110%N; 47%N; 97%N; 98%N; 115%N] [v_x]).

Definition c20_core_zerop (R : Type) (lit : Z -> R) (call : str -> list R -> R) (ifte : R -> R -> R -> R) (bind : R -> (R -> R) -> R) (v_x : R) : R :=
  (call [61%N] [(lit (0)%Z); v_x]).

Definition c20_core_inline_flags : list (str * bool) := [
  ([43%N], false);
  ([45%N], false);
  ([42%N], false);
  ([47%N], false);
  ([113%N; 117%N; 111%N; 116%N], false);
  ([114%N; 101%N; 109%N], false);
  ([109%N; 111%N; 100%N], false);
  ([105%N; 110%N; 99%N], true);
  ([100%N; 101%N; 99%N], true);
  ([105%N; 110%N; 99%N; 39%N], true);
  ([100%N; 101%N; 99%N; 39%N], true);
  ([97%N; 98%N; 115%N], true);
  ([122%N; 101%N; 114%N; 111%N; 63%N], true)
].

(* operator.<name> -> (Python AST operator, operand order: 0 = (arg1 op arg2), 1 = swapped)
   operators: 0=Add, 1=Sub, 2=Mult, 3=Div, 4=FloorDiv, 5=Mod, 6=Pow, 7=LShift, 8=RShift, 9=BitOr, 10=BitXor, 11=BitAnd, 12=MatMult, 13=Lt, 14=LtE, 15=Eq, 16=NotEq, 17=Gt, 18=GtE *)
Definition c20_opt_ops : list (str * (N * N)) := [
  ([97%N; 100%N; 100%N], (0%N, 0%N));
  ([97%N; 110%N; 100%N; 95%N], (11%N, 0%N));
  ([102%N; 108%N; 111%N; 111%N; 114%N; 100%N; 105%N; 118%N], (4%N, 0%N));
  ([108%N; 115%N; 104%N; 105%N; 102%N; 116%N], (7%N, 0%N));
  ([109%N; 111%N; 100%N], (5%N, 0%N));
  ([109%N; 117%N; 108%N], (2%N, 0%N));
  ([109%N; 97%N; 116%N; 109%N; 117%N; 108%N], (12%N, 0%N));
  ([111%N; 114%N; 95%N], (9%N, 0%N));
  ([112%N; 111%N; 119%N], (6%N, 0%N));
  ([114%N; 115%N; 104%N; 105%N; 102%N; 116%N], (8%N, 0%N));
  ([115%N; 117%N; 98%N], (1%N, 0%N));
  ([116%N; 114%N; 117%N; 101%N; 100%N; 105%N; 118%N], (3%N, 0%N));
  ([120%N; 111%N; 114%N], (10%N, 0%N));
  ([108%N; 116%N], (13%N, 0%N));
  ([108%N; 101%N], (14%N, 0%N));
  ([101%N; 113%N], (15%N, 0%N));
  ([110%N; 101%N], (16%N, 0%N));
  ([103%N; 116%N], (17%N, 0%N));
  ([103%N; 101%N], (18%N, 0%N))
].

(* ---- C14: importer.py (harness/tr/tr_importer.py) ---- *)
Definition importer_magic : list N := [125%N; 4%N; 13%N; 10%N].
Definition importer_slices : list (N * N) := [(0%N, 4%N); (4%N, 8%N); (8%N, 12%N); (12%N, 0%N)].
Definition importer_header_checks : list (N * str) := [
  (1%N, [73%N; 109%N; 112%N; 111%N; 114%N; 116%N; 69%N; 114%N; 114%N; 111%N; 114%N]);
  (2%N, [69%N; 79%N; 70%N; 69%N; 114%N; 114%N; 111%N; 114%N]);
  (3%N, [73%N; 109%N; 112%N; 111%N; 114%N; 116%N; 69%N; 114%N; 114%N; 111%N; 114%N]);
  (4%N, [69%N; 79%N; 70%N; 69%N; 114%N; 114%N; 111%N; 114%N]);
  (5%N, [73%N; 109%N; 112%N; 111%N; 114%N; 116%N; 69%N; 114%N; 114%N; 111%N; 114%N])
].
Definition importer_write_layout : list N := [1%N; 2%N; 3%N; 4%N].
Definition importer_long_codec : list N := [4294967295%N; 4%N; 1%N; 1%N].
Definition importer_caught : list str := [
  [69%N; 79%N; 70%N; 69%N; 114%N; 114%N; 111%N; 114%N];
  [73%N; 109%N; 112%N; 111%N; 114%N; 116%N; 69%N; 114%N; 114%N; 111%N; 114%N];
  [79%N; 83%N; 69%N; 114%N; 114%N; 111%N; 114%N]
].
Definition importer_exec_in_try : bool := false.
(* C12/C13 (harness/tr/tr_conc.py) *)
Definition atom_cas_mode : N := 1%N.
Definition delay_deref_mode : N := 1%N.
Definition promise_shape : N := 1%N.

(* ---- C19 (harness/tr/tr_codecs.py): copies of what the translator emits for the pinned tree ---- *)
(* edn.lpy str-escape-chars: escape character -> character produced by the reader *)
Definition edn_str_escape_chars : list (N * N) :=
  [(34, 34); (92, 92); (97, 7); (98, 8); (102, 12); (110, 10); (114, 13); (116, 9); (118, 11)]%N.
(* edn.lpy str-escape-chars-translation: character -> text the writer emits for it *)
Definition edn_write_escapes : list (N * str) :=
  [(92, [92; 92]); (34, [92; 34]); (7, [92; 97]); (8, [92; 98]); (12, [92; 102]); (10, [92; 110]);
   (13, [92; 114]); (9, [92; 116]); (11, [92; 118])]%N.
(* edn.lpy dispatch-chars (sorted) *)
Definition edn_dispatch_chars : list N := [34; 40; 41; 58; 59; 91; 92; 93; 123; 125]%N.
(* bencode.lpy: the byte literals decode* dispatches on, the list/dict terminator, the length separator *)
Definition bencode_tokens : list N := [105; 108; 100; 101; 58]%N.

(* ---- C11 (harness/tr/tr_bindings.py): shapes of the binding functions on the repaired tree ---- *)
Definition push_thread_bindings_shape : N := 1%N.
Definition pop_thread_bindings_shape : N := 1%N.
Definition var_bindings_shape : N := 1%N.
Definition binding_forms_shape : N := 1%N.

(* ---- C15 (optimizer) fallbacks ---- *)
Definition opt_binops : list (N * N)%type := [].
Definition opt_unaryops : list (N * N)%type := [].
Definition opt_compareops : list (N * N)%type := [].
Definition opt_isops : list (N * (N * N))%type := [].
Definition opt_terminators : list N := [16%N; 17%N; 18%N; 19%N].
Definition opt_expr_droppable : list N := [5%N; 6%N].
Definition opt_visitors : list N := [4%N; 7%N; 9%N; 10%N; 11%N; 12%N; 13%N; 15%N].
Definition opt_ctx_openers : list N := [13%N].
Definition opt_contains_swapped : bool := true.
Definition opt_is_uses_eq : bool := true.
Definition opt_has_getitem : bool := true.
Definition opt_has_delitem : bool := true.
Definition opt_try_keeps_finally : bool := true.
Definition opt_ctx_fresh : bool := true.

(* ---- C08 (harness/tr/tr_arity.py): copies of what the translator emits for the pinned tree ---- *)
(* generator.__multi_arity_dispatch_fn: 0 = `nargs >= max_fixed_arity` selects the rest arity *)
Definition arity_dispatch_cmp : N := 0%N.
(* 1 = the function has the shape the model of C08/Arity.v transcribes *)
Definition arity_apply_to_shape : N := 1%N.
Definition arity_apply_shape : N := 1%N.
Definition arity_unwrap_shape : N := 1%N.
Definition arity_partial_shape : N := 1%N.
Definition arity_trampoline_shape : N := 1%N.
Definition arity_analyzer_rule : N := 1%N.
Definition future_deref_mode : N := 1%N.
(* C08: partial keeps a - n for a > n and adds 0 only to an empty set (0; open finding F-08c); after the
   repairs F-08a/b a final nil of a variadic recur is dropped (1) and the recur point of each arity
   carries that arity's own is_variadic flag (1) *)
Definition arity_partial_cmp : N := 0%N.
Definition arity_tramp_nil : N := 1%N.
Definition arity_recur_flag : N := 1%N.

(* ---- C16 (harness/tr/tr_reader.py): copies of what the translator emits for the pinned tree;
   the Unicode classes rd_uc_alnum / rd_uc_numeric are cut down to Latin-1 here ---- *)
Definition rd_str_escapes : list (N * N) := [(34, 34); (92, 92); (97, 7); (98, 8); (102, 12); (110, 10); (114, 13); (116, 9); (118, 11)]%N.
Definition rd_bytes_escapes : list (N * N) := [(34, 34); (92, 92); (97, 7); (98, 8); (102, 12); (110, 10); (114, 13); (116, 9); (118, 11)]%N.
Definition rd_special_chars : list (str * N) := [
  ([110%N; 101%N; 119%N; 108%N; 105%N; 110%N; 101%N], 10%N);
  ([115%N; 112%N; 97%N; 99%N; 101%N], 32%N);
  ([116%N; 97%N; 98%N], 9%N);
  ([102%N; 111%N; 114%N; 109%N; 102%N; 101%N; 101%N; 100%N], 12%N);
  ([98%N; 97%N; 99%N; 107%N; 115%N; 112%N; 97%N; 99%N; 101%N], 8%N);
  ([114%N; 101%N; 116%N; 117%N; 114%N; 110%N], 13%N)
].
Definition rd_numeric_constants : list (str * N) := [
  ([78%N; 97%N; 78%N], 0%N);
  ([73%N; 110%N; 102%N], 1%N);
  ([45%N; 73%N; 110%N; 102%N], 2%N)
]. (* 0 NaN, 1 +Inf, 2 -Inf *)
Definition rd_dispatch : list (N * N) := [(40, 1); (41, 0); (91, 2); (93, 0); (123, 3); (125, 0); (34, 4); (39, 5); (92, 6); (35, 7); (94, 8); (59, 9); (96, 10); (126, 11); (64, 12)]%N.
(* the table also maps "" (end of input) to `lambda ctx: ctx.eof`; handler codes: 0 None; 1 list 2 vector 3 map 4 str 5 quoted 6 character 7 reader-macro 8 meta
   9 comment 10 syntax-quoted 11 unquote 12 deref *)
Definition rd_macro_dispatch : list (N * N) := [(123, 1); (40, 2); (58, 3); (39, 4); (34, 5); (95, 6); (33, 7); (63, 8); (35, 9)]%N.
(* 1 set 2 function 3 namespaced-map 4 var 5 regex 6 comment-macro 7 comment 8 reader-cond 9 numeric-constant *)
Definition rd_regex_sources : list (str * str) := [
  ([98%N; 101%N; 103%N; 105%N; 110%N; 95%N; 110%N; 115%N; 95%N; 110%N; 97%N; 109%N; 101%N; 95%N; 99%N; 104%N; 97%N; 114%N; 115%N], [58%N; 124%N; 91%N; 94%N; 92%N; 115%N; 92%N; 100%N; 93%N]);
  ([105%N; 100%N; 101%N; 110%N; 116%N; 105%N; 102%N; 105%N; 101%N; 114%N; 95%N; 108%N; 105%N; 116%N; 101%N; 114%N; 97%N; 108%N], [40%N; 91%N; 94%N; 92%N; 100%N; 47%N; 93%N; 92%N; 83%N; 42%N; 47%N; 41%N; 63%N; 40%N; 47%N; 124%N; 91%N; 94%N; 92%N; 100%N; 47%N; 93%N; 91%N; 94%N; 47%N; 93%N; 42%N; 41%N]);
  ([98%N; 101%N; 103%N; 105%N; 110%N; 95%N; 110%N; 117%N; 109%N; 95%N; 99%N; 104%N; 97%N; 114%N; 115%N], [91%N; 48%N; 45%N; 57%N; 92%N; 45%N; 93%N]);
  ([109%N; 97%N; 121%N; 98%N; 101%N; 95%N; 110%N; 117%N; 109%N; 95%N; 99%N; 104%N; 97%N; 114%N; 115%N], [91%N; 48%N; 45%N; 57%N; 65%N; 45%N; 90%N; 97%N; 45%N; 122%N; 47%N; 46%N; 43%N; 93%N]);
  ([105%N; 110%N; 116%N; 101%N; 103%N; 101%N; 114%N; 95%N; 108%N; 105%N; 116%N; 101%N; 114%N; 97%N; 108%N], [40%N; 45%N; 63%N; 40%N; 63%N; 58%N; 92%N; 100%N; 124%N; 91%N; 49%N; 45%N; 57%N; 93%N; 92%N; 100%N; 43%N; 41%N; 41%N; 78%N; 63%N]);
  ([102%N; 108%N; 111%N; 97%N; 116%N; 95%N; 108%N; 105%N; 116%N; 101%N; 114%N; 97%N; 108%N], [40%N; 45%N; 63%N; 40%N; 63%N; 58%N; 92%N; 100%N; 124%N; 91%N; 49%N; 45%N; 57%N; 93%N; 92%N; 100%N; 43%N; 41%N; 40%N; 63%N; 58%N; 92%N; 46%N; 92%N; 100%N; 42%N; 41%N; 63%N; 41%N; 77%N; 63%N]);
  ([99%N; 111%N; 109%N; 112%N; 108%N; 101%N; 120%N; 95%N; 108%N; 105%N; 116%N; 101%N; 114%N; 97%N; 108%N], [45%N; 63%N; 40%N; 92%N; 100%N; 43%N; 40%N; 63%N; 58%N; 92%N; 46%N; 92%N; 100%N; 42%N; 41%N; 63%N; 41%N; 74%N]);
  ([97%N; 114%N; 98%N; 105%N; 116%N; 114%N; 97%N; 114%N; 121%N; 95%N; 98%N; 97%N; 115%N; 101%N; 95%N; 108%N; 105%N; 116%N; 101%N; 114%N; 97%N; 108%N], [45%N; 63%N; 40%N; 92%N; 100%N; 123%N; 49%N; 44%N; 50%N; 125%N; 41%N; 114%N; 40%N; 91%N; 48%N; 45%N; 57%N; 65%N; 45%N; 90%N; 97%N; 45%N; 122%N; 93%N; 43%N; 41%N]);
  ([111%N; 99%N; 116%N; 97%N; 108%N; 95%N; 108%N; 105%N; 116%N; 101%N; 114%N; 97%N; 108%N], [45%N; 63%N; 48%N; 40%N; 91%N; 48%N; 45%N; 55%N; 93%N; 43%N; 41%N; 78%N; 63%N]);
  ([104%N; 101%N; 120%N; 95%N; 99%N; 104%N; 97%N; 114%N; 115%N], [91%N; 48%N; 45%N; 57%N; 65%N; 45%N; 70%N; 97%N; 45%N; 102%N; 93%N]);
  ([104%N; 101%N; 120%N; 95%N; 108%N; 105%N; 116%N; 101%N; 114%N; 97%N; 108%N], [45%N; 63%N; 48%N; 91%N; 88%N; 120%N; 93%N; 40%N; 91%N; 48%N; 45%N; 57%N; 65%N; 45%N; 70%N; 97%N; 45%N; 102%N; 93%N; 43%N; 41%N; 78%N; 63%N]);
  ([114%N; 97%N; 116%N; 105%N; 111%N; 95%N; 108%N; 105%N; 116%N; 101%N; 114%N; 97%N; 108%N], [40%N; 45%N; 63%N; 92%N; 100%N; 43%N; 41%N; 47%N; 40%N; 92%N; 100%N; 43%N; 41%N]);
  ([115%N; 99%N; 105%N; 101%N; 110%N; 116%N; 105%N; 102%N; 105%N; 99%N; 95%N; 110%N; 111%N; 116%N; 97%N; 116%N; 105%N; 111%N; 110%N; 95%N; 108%N; 105%N; 116%N; 101%N; 114%N; 97%N; 108%N], [45%N; 63%N; 40%N; 92%N; 100%N; 43%N; 40%N; 63%N; 58%N; 92%N; 46%N; 92%N; 100%N; 42%N; 41%N; 63%N; 41%N; 91%N; 69%N; 101%N; 93%N; 40%N; 91%N; 43%N; 92%N; 45%N; 93%N; 63%N; 92%N; 100%N; 43%N; 77%N; 63%N; 41%N]);
  ([119%N; 104%N; 105%N; 116%N; 101%N; 115%N; 112%N; 97%N; 99%N; 101%N; 95%N; 99%N; 104%N; 97%N; 114%N; 115%N], [91%N; 92%N; 115%N; 44%N; 93%N]);
  ([110%N; 101%N; 119%N; 108%N; 105%N; 110%N; 101%N; 95%N; 99%N; 104%N; 97%N; 114%N; 115%N], [40%N; 13%N; 10%N; 124%N; 13%N; 124%N; 10%N; 41%N]);
  ([102%N; 110%N; 95%N; 109%N; 97%N; 99%N; 114%N; 111%N; 95%N; 97%N; 114%N; 103%N; 115%N], [40%N; 37%N; 41%N; 40%N; 38%N; 124%N; 91%N; 48%N; 45%N; 57%N; 93%N; 41%N; 63%N]);
  ([117%N; 110%N; 105%N; 99%N; 111%N; 100%N; 101%N; 95%N; 99%N; 104%N; 97%N; 114%N], [117%N; 40%N; 92%N; 119%N; 43%N; 41%N])
].
Definition rd_ns_term_exempt : list N := [35; 37; 39]%N. (* dispatch characters which do not end a symbol/keyword token *)
Definition rd_pushback_depth : N := 5%N.
Definition rd_default_index_neg : N := 2%N. (* StreamReader.DEFAULT_INDEX = -2 *)
Definition rd_unicode_lens : list N := [4; 8]%N.
Definition rd_uc_space : list (N * N) := [(9, 13); (28, 32); (133, 133); (160, 160); (5760, 5760); (8192, 8202); (8232, 8233); (8239, 8239); (8287, 8287); (12288, 12288)]%N.
Definition rd_uc_digit : list (N * N) := [(48, 57); (1632, 1641); (1776, 1785)]%N.
Definition rd_uc_alnum : list (N * N) := [(48, 57); (65, 90); (97, 122); (170, 170); (178, 179); (181, 181); (185, 186); (188, 190); (192, 214); (216, 246); (248, 255)]%N.
Definition rd_uc_numeric : list (N * N) := [(48, 57); (178, 179); (185, 185); (188, 190)]%N.
Definition rd_features : list str := [
  [108%N; 112%N; 121%N];
  [100%N; 101%N; 102%N; 97%N; 117%N; 108%N; 116%N];
  [108%N; 105%N; 110%N; 117%N; 120%N];
  [108%N; 112%N; 121%N; 51%N; 49%N; 50%N];
  [108%N; 112%N; 121%N; 51%N; 49%N; 48%N; 43%N];
  [108%N; 112%N; 121%N; 51%N; 49%N; 49%N; 43%N];
  [108%N; 112%N; 121%N; 51%N; 49%N; 50%N; 45%N];
  [108%N; 112%N; 121%N; 51%N; 49%N; 50%N; 43%N];
  [108%N; 112%N; 121%N; 51%N; 49%N; 51%N; 45%N];
  [108%N; 112%N; 121%N; 51%N; 49%N; 52%N; 45%N]
].

(* ---- C05 (harness/tr/tr_equality.py) ---- *)
Definition c05_eq_hash_classes : list str := [
  [105%N; 110%N; 116%N; 101%N; 114%N; 102%N; 97%N; 99%N; 101%N; 115%N; 46%N; 112%N; 121%N; 58%N; 73%N; 83%N; 101%N; 113%N; 46%N; 95%N; 95%N; 101%N; 113%N; 95%N; 95%N] (* interfaces.py:ISeq.__eq__ *);
  [105%N; 110%N; 116%N; 101%N; 114%N; 102%N; 97%N; 99%N; 101%N; 115%N; 46%N; 112%N; 121%N; 58%N; 73%N; 83%N; 101%N; 113%N; 46%N; 95%N; 95%N; 104%N; 97%N; 115%N; 104%N; 95%N; 95%N] (* interfaces.py:ISeq.__hash__ *);
  [107%N; 101%N; 121%N; 119%N; 111%N; 114%N; 100%N; 46%N; 112%N; 121%N; 58%N; 75%N; 101%N; 121%N; 119%N; 111%N; 114%N; 100%N; 46%N; 95%N; 95%N; 101%N; 113%N; 95%N; 95%N] (* keyword.py:Keyword.__eq__ *);
  [107%N; 101%N; 121%N; 119%N; 111%N; 114%N; 100%N; 46%N; 112%N; 121%N; 58%N; 75%N; 101%N; 121%N; 119%N; 111%N; 114%N; 100%N; 46%N; 95%N; 95%N; 104%N; 97%N; 115%N; 104%N; 95%N; 95%N] (* keyword.py:Keyword.__hash__ *);
  [108%N; 105%N; 115%N; 116%N; 46%N; 112%N; 121%N; 58%N; 80%N; 101%N; 114%N; 115%N; 105%N; 115%N; 116%N; 101%N; 110%N; 116%N; 76%N; 105%N; 115%N; 116%N; 46%N; 95%N; 95%N; 104%N; 97%N; 115%N; 104%N; 95%N; 95%N] (* list.py:PersistentList.__hash__ *);
  [109%N; 97%N; 112%N; 46%N; 112%N; 121%N; 58%N; 80%N; 101%N; 114%N; 115%N; 105%N; 115%N; 116%N; 101%N; 110%N; 116%N; 77%N; 97%N; 112%N; 46%N; 95%N; 95%N; 101%N; 113%N; 95%N; 95%N] (* map.py:PersistentMap.__eq__ *);
  [109%N; 97%N; 112%N; 46%N; 112%N; 121%N; 58%N; 80%N; 101%N; 114%N; 115%N; 105%N; 115%N; 116%N; 101%N; 110%N; 116%N; 77%N; 97%N; 112%N; 46%N; 95%N; 95%N; 104%N; 97%N; 115%N; 104%N; 95%N; 95%N] (* map.py:PersistentMap.__hash__ *);
  [109%N; 97%N; 112%N; 46%N; 112%N; 121%N; 58%N; 84%N; 114%N; 97%N; 110%N; 115%N; 105%N; 101%N; 110%N; 116%N; 77%N; 97%N; 112%N; 46%N; 95%N; 95%N; 101%N; 113%N; 95%N; 95%N] (* map.py:TransientMap.__eq__ *);
  [113%N; 117%N; 101%N; 117%N; 101%N; 46%N; 112%N; 121%N; 58%N; 80%N; 101%N; 114%N; 115%N; 105%N; 115%N; 116%N; 101%N; 110%N; 116%N; 81%N; 117%N; 101%N; 117%N; 101%N; 46%N; 95%N; 95%N; 101%N; 113%N; 95%N; 95%N] (* queue.py:PersistentQueue.__eq__ *);
  [113%N; 117%N; 101%N; 117%N; 101%N; 46%N; 112%N; 121%N; 58%N; 80%N; 101%N; 114%N; 115%N; 105%N; 115%N; 116%N; 101%N; 110%N; 116%N; 81%N; 117%N; 101%N; 117%N; 101%N; 46%N; 95%N; 95%N; 104%N; 97%N; 115%N; 104%N; 95%N; 95%N] (* queue.py:PersistentQueue.__hash__ *);
  [115%N; 101%N; 116%N; 46%N; 112%N; 121%N; 58%N; 80%N; 101%N; 114%N; 115%N; 105%N; 115%N; 116%N; 101%N; 110%N; 116%N; 83%N; 101%N; 116%N; 46%N; 95%N; 95%N; 101%N; 113%N; 95%N; 95%N] (* set.py:PersistentSet.__eq__ *);
  [115%N; 101%N; 116%N; 46%N; 112%N; 121%N; 58%N; 80%N; 101%N; 114%N; 115%N; 105%N; 115%N; 116%N; 101%N; 110%N; 116%N; 83%N; 101%N; 116%N; 46%N; 95%N; 95%N; 104%N; 97%N; 115%N; 104%N; 95%N; 95%N] (* set.py:PersistentSet.__hash__ *);
  [115%N; 101%N; 116%N; 46%N; 112%N; 121%N; 58%N; 84%N; 114%N; 97%N; 110%N; 115%N; 105%N; 101%N; 110%N; 116%N; 83%N; 101%N; 116%N; 46%N; 95%N; 95%N; 101%N; 113%N; 95%N; 95%N] (* set.py:TransientSet.__eq__ *);
  [115%N; 121%N; 109%N; 98%N; 111%N; 108%N; 46%N; 112%N; 121%N; 58%N; 83%N; 121%N; 109%N; 98%N; 111%N; 108%N; 46%N; 95%N; 95%N; 101%N; 113%N; 95%N; 95%N] (* symbol.py:Symbol.__eq__ *);
  [115%N; 121%N; 109%N; 98%N; 111%N; 108%N; 46%N; 112%N; 121%N; 58%N; 83%N; 121%N; 109%N; 98%N; 111%N; 108%N; 46%N; 95%N; 95%N; 104%N; 97%N; 115%N; 104%N; 95%N; 95%N] (* symbol.py:Symbol.__hash__ *);
  [118%N; 101%N; 99%N; 116%N; 111%N; 114%N; 46%N; 112%N; 121%N; 58%N; 80%N; 101%N; 114%N; 115%N; 105%N; 115%N; 116%N; 101%N; 110%N; 116%N; 86%N; 101%N; 99%N; 116%N; 111%N; 114%N; 46%N; 95%N; 95%N; 101%N; 113%N; 95%N; 95%N] (* vector.py:PersistentVector.__eq__ *);
  [118%N; 101%N; 99%N; 116%N; 111%N; 114%N; 46%N; 112%N; 121%N; 58%N; 80%N; 101%N; 114%N; 115%N; 105%N; 115%N; 116%N; 101%N; 110%N; 116%N; 86%N; 101%N; 99%N; 116%N; 111%N; 114%N; 46%N; 95%N; 95%N; 104%N; 97%N; 115%N; 104%N; 95%N; 95%N] (* vector.py:PersistentVector.__hash__ *);
  [118%N; 101%N; 99%N; 116%N; 111%N; 114%N; 46%N; 112%N; 121%N; 58%N; 84%N; 114%N; 97%N; 110%N; 115%N; 105%N; 101%N; 110%N; 116%N; 86%N; 101%N; 99%N; 116%N; 111%N; 114%N; 46%N; 95%N; 95%N; 101%N; 113%N; 95%N; 95%N] (* vector.py:TransientVector.__eq__ *)
].
Definition c05_vec_hash_family : N := 1%N. (* PersistentVector.__hash__: return hash(tuple(self._inner)) *)
Definition c05_list_hash_family : N := 1%N. (* PersistentList.__hash__: return hash(self._inner) *)
Definition c05_queue_hash_family : N := 1%N. (* PersistentQueue.__hash__: return hash(self._inner) *)
Definition c05_iseq_hash_family : N := 1%N. (* ISeq.__hash__: return hash(tuple(self)) *)
Definition c05_seq_equals_shape : N := 1%N.
Definition c05_iseq_eq_shape : N := 1%N.
Definition c05_vec_eq_shape : N := 1%N.
Definition c05_queue_eq_shape : N := 1%N.
Definition c05_map_eq_shape : N := 1%N.
Definition c05_set_eq_shape : N := 1%N.
Definition c05_kw_eq_shape : N := 1%N.
Definition c05_sym_eq_shape : N := 1%N.
Definition c05_equals_shape : N := 1%N.
Definition c05_core_eq_shape : N := 1%N.
Definition c05_record_eq_shape : N := 1%N.

(* ---- C03 (harness/tr/tr_printer.py): copies of what the translator emits for the repaired tree ---- *)
Definition pr_str_escapes : list (N * str) := [(34%N, [92%N; 34%N]); (92%N, [92%N; 92%N]); (7%N, [92%N; 97%N]); (8%N, [92%N; 98%N]); (12%N, [92%N; 102%N]); (10%N, [92%N; 110%N]); (13%N, [92%N; 114%N]); (9%N, [92%N; 116%N]); (11%N, [92%N; 118%N])].
Definition pr_delims : list (str * (str * str)) := [
  ([80%N; 101%N; 114%N; 115%N; 105%N; 115%N; 116%N; 101%N; 110%N; 116%N; 76%N; 105%N; 115%N; 116%N], ([40%N], [41%N])) (* PersistentList *);
  ([80%N; 101%N; 114%N; 115%N; 105%N; 115%N; 116%N; 101%N; 110%N; 116%N; 86%N; 101%N; 99%N; 116%N; 111%N; 114%N], ([91%N], [93%N])) (* PersistentVector *);
  ([80%N; 101%N; 114%N; 115%N; 105%N; 115%N; 116%N; 101%N; 110%N; 116%N; 83%N; 101%N; 116%N], ([35%N; 123%N], [125%N])) (* PersistentSet *);
  ([80%N; 101%N; 114%N; 115%N; 105%N; 115%N; 116%N; 101%N; 110%N; 116%N; 81%N; 117%N; 101%N; 117%N; 101%N], ([35%N; 113%N; 117%N; 101%N; 117%N; 101%N; 32%N; 40%N], [41%N])) (* PersistentQueue *);
  ([80%N; 101%N; 114%N; 115%N; 105%N; 115%N; 116%N; 101%N; 110%N; 116%N; 77%N; 97%N; 112%N], ([123%N], [125%N])) (* PersistentMap *);
  ([95%N; 108%N; 114%N; 101%N; 112%N; 114%N; 95%N; 112%N; 121%N; 95%N; 108%N; 105%N; 115%N; 116%N], ([35%N; 112%N; 121%N; 32%N; 91%N], [93%N])) (* _lrepr_py_list *);
  ([95%N; 108%N; 114%N; 101%N; 112%N; 114%N; 95%N; 112%N; 121%N; 95%N; 116%N; 117%N; 112%N; 108%N; 101%N], ([35%N; 112%N; 121%N; 32%N; 40%N], [41%N])) (* _lrepr_py_tuple *);
  ([95%N; 108%N; 114%N; 101%N; 112%N; 114%N; 95%N; 112%N; 121%N; 95%N; 115%N; 101%N; 116%N], ([35%N; 112%N; 121%N; 32%N; 35%N; 123%N], [125%N])) (* _lrepr_py_set *);
  ([95%N; 108%N; 114%N; 101%N; 112%N; 114%N; 95%N; 112%N; 121%N; 95%N; 100%N; 105%N; 99%N; 116%N], ([35%N; 112%N; 121%N; 32%N; 123%N], [125%N])) (* _lrepr_py_dict *)
].
Definition pr_fstrings : list (str * list str) := [
  ([95%N; 108%N; 114%N; 101%N; 112%N; 114%N; 95%N; 98%N; 121%N; 116%N; 101%N; 115%N], [[35%N; 98%N; 32%N; 34%N]; [34%N]]) (* _lrepr_bytes *);
  ([95%N; 108%N; 114%N; 101%N; 112%N; 114%N; 95%N; 100%N; 97%N; 116%N; 101%N; 116%N; 105%N; 109%N; 101%N], [[35%N; 105%N; 110%N; 115%N; 116%N; 32%N; 34%N]; [34%N]]) (* _lrepr_datetime *);
  ([95%N; 108%N; 114%N; 101%N; 112%N; 114%N; 95%N; 117%N; 117%N; 105%N; 100%N], [[35%N; 117%N; 117%N; 105%N; 100%N; 32%N; 34%N]; [34%N]]) (* _lrepr_uuid *);
  ([95%N; 108%N; 114%N; 101%N; 112%N; 114%N; 95%N; 112%N; 97%N; 116%N; 116%N; 101%N; 114%N; 110%N], [[35%N; 34%N]; [34%N]]) (* _lrepr_pattern *);
  ([95%N; 108%N; 114%N; 101%N; 112%N; 114%N; 95%N; 102%N; 114%N; 97%N; 99%N; 116%N; 105%N; 111%N; 110%N], [(@nil N); [47%N]; (@nil N)]) (* _lrepr_fraction *);
  ([95%N; 108%N; 114%N; 101%N; 112%N; 114%N; 95%N; 100%N; 101%N; 99%N; 105%N; 109%N; 97%N; 108%N], [(@nil N); [77%N]]) (* _lrepr_decimal *)
].
Definition pr_special_floats : list str := [[35%N; 35%N; 73%N; 110%N; 102%N]; [35%N; 35%N; 45%N; 73%N; 110%N; 102%N]; [35%N; 35%N; 78%N; 97%N; 78%N]]. (* +inf, -inf, nan *)
Definition pr_separators : str * str := ([32%N], [44%N; 32%N]).
Definition pr_lrepr_types : list str := [
  [68%N; 101%N; 99%N; 105%N; 109%N; 97%N; 108%N] (* Decimal *);
  [70%N; 114%N; 97%N; 99%N; 116%N; 105%N; 111%N; 110%N] (* Fraction *);
  [76%N; 105%N; 115%N; 112%N; 79%N; 98%N; 106%N; 101%N; 99%N; 116%N] (* LispObject *);
  [80%N; 97%N; 116%N; 104%N] (* Path *);
  [98%N; 111%N; 111%N; 108%N] (* bool *);
  [98%N; 121%N; 116%N; 101%N; 115%N] (* bytes *);
  [99%N; 111%N; 109%N; 112%N; 108%N; 101%N; 120%N] (* complex *);
  [100%N; 97%N; 116%N; 101%N; 116%N; 105%N; 109%N; 101%N; 46%N; 100%N; 97%N; 116%N; 101%N; 116%N; 105%N; 109%N; 101%N] (* datetime.datetime *);
  [100%N; 105%N; 99%N; 116%N] (* dict *);
  [102%N; 108%N; 111%N; 97%N; 116%N] (* float *);
  [108%N; 105%N; 115%N; 116%N] (* list *);
  [115%N; 101%N; 116%N] (* set *);
  [115%N; 116%N; 114%N] (* str *);
  [116%N; 117%N; 112%N; 108%N; 101%N] (* tuple *);
  [116%N; 121%N; 112%N; 101%N; 40%N; 78%N; 111%N; 110%N; 101%N; 41%N] (* type(None) *);
  [116%N; 121%N; 112%N; 101%N; 40%N; 114%N; 101%N; 46%N; 99%N; 111%N; 109%N; 112%N; 105%N; 108%N; 101%N; 40%N; 39%N; 39%N; 41%N; 41%N] (* type(re.compile('')) *);
  [117%N; 117%N; 105%N; 100%N; 46%N; 85%N; 85%N; 73%N; 68%N] (* uuid.UUID *)
].
Definition pr_print_defaults : list (str * N) := [([80%N; 82%N; 73%N; 78%N; 84%N; 95%N; 68%N; 85%N; 80%N], 0%N); ([80%N; 82%N; 73%N; 78%N; 84%N; 95%N; 76%N; 69%N; 78%N; 71%N; 84%N; 72%N], 0%N); ([80%N; 82%N; 73%N; 78%N; 84%N; 95%N; 76%N; 69%N; 86%N; 69%N; 76%N], 0%N); ([80%N; 82%N; 73%N; 78%N; 84%N; 95%N; 77%N; 69%N; 84%N; 65%N], 0%N); ([80%N; 82%N; 73%N; 78%N; 84%N; 95%N; 78%N; 65%N; 77%N; 69%N; 83%N; 80%N; 65%N; 67%N; 69%N; 95%N; 77%N; 65%N; 80%N; 83%N], 0%N); ([80%N; 82%N; 73%N; 78%N; 84%N; 95%N; 82%N; 69%N; 65%N; 68%N; 65%N; 66%N; 76%N; 89%N], 1%N)].
(* C03 extension: seq_lrepr / map_lrepr test print_level and print_length under `not print_dup and` *)
Definition pr_trunc_guards : list (str * bool) := [
  ([115%N; 101%N; 113%N; 95%N; 108%N; 114%N; 101%N; 112%N; 114%N; 46%N; 112%N; 114%N; 105%N; 110%N; 116%N; 95%N; 108%N; 101%N; 118%N; 101%N; 108%N], true) (* seq_lrepr.print_level *);
  ([115%N; 101%N; 113%N; 95%N; 108%N; 114%N; 101%N; 112%N; 114%N; 46%N; 112%N; 114%N; 105%N; 110%N; 116%N; 95%N; 108%N; 101%N; 110%N; 103%N; 116%N; 104%N], true) (* seq_lrepr.print_length *);
  ([109%N; 97%N; 112%N; 95%N; 108%N; 114%N; 101%N; 112%N; 114%N; 46%N; 112%N; 114%N; 105%N; 110%N; 116%N; 95%N; 108%N; 101%N; 118%N; 101%N; 108%N], true) (* map_lrepr.print_level *);
  ([109%N; 97%N; 112%N; 95%N; 108%N; 114%N; 101%N; 112%N; 114%N; 46%N; 112%N; 114%N; 105%N; 110%N; 116%N; 95%N; 108%N; 101%N; 110%N; 103%N; 116%N; 104%N], true) (* map_lrepr.print_length *)
].

(* ---- C06 (harness/tr/tr_lazyseq.py): copies of what the translator emits for the working tree ---- *)
(* seq.rs: the four-state enum, the transcribed LazySeq::seq / Sequence::__call__ / SeqIterator::__next__ / to_seq *)
Definition lazyseq_state_shape : N := 1%N.
Definition lazyseq_seq_shape : N := 1%N.
Definition lazyseq_sequence_shape : N := 1%N.
(* _compute_seq stores Initialized(gen) again when the generator raises (after repair F-06b) *)
Definition lazyseq_restore_on_error : bool := true.
(* blocking self.lock.lock() with the GIL held, no allow_threads anywhere in seq.rs (open finding F-06) *)
Definition lazyseq_lock_keeps_gil : bool := true.

(* ---- C09 (harness/tr/tr_syntaxquote.py): copies of what the translator emits for the pinned tree ---- *)
Definition sq_special_forms : list str :=
  [[97%N; 119%N; 97%N; 105%N; 116%N];
   [99%N; 97%N; 116%N; 99%N; 104%N];
   [100%N; 101%N; 102%N];
   [100%N; 101%N; 102%N; 116%N; 121%N; 112%N; 101%N; 42%N];
   [100%N; 111%N];
   [102%N; 105%N; 110%N; 97%N; 108%N; 108%N; 121%N];
   [102%N; 110%N; 42%N];
   [105%N; 102%N];
   [105%N; 109%N; 112%N; 111%N; 114%N; 116%N; 42%N];
   [46%N];
   [46%N; 45%N];
   [108%N; 101%N; 116%N; 42%N];
   [108%N; 101%N; 116%N; 102%N; 110%N; 42%N];
   [108%N; 111%N; 111%N; 112%N; 42%N];
   [113%N; 117%N; 111%N; 116%N; 101%N];
   [114%N; 101%N; 99%N; 117%N; 114%N];
   [114%N; 101%N; 105%N; 102%N; 121%N; 42%N];
   [114%N; 101%N; 113%N; 117%N; 105%N; 114%N; 101%N; 42%N];
   [115%N; 101%N; 116%N; 33%N];
   [116%N; 104%N; 114%N; 111%N; 119%N];
   [116%N; 114%N; 121%N];
   [118%N; 97%N; 114%N];
   [121%N; 105%N; 101%N; 108%N; 100%N]].
Definition sq_builders : list (str * str) :=
  [([98%N; 97%N; 115%N; 105%N; 108%N; 105%N; 115%N; 112%N; 46%N; 99%N; 111%N; 114%N; 101%N], [115%N; 101%N; 113%N]);
   ([98%N; 97%N; 115%N; 105%N; 108%N; 105%N; 115%N; 112%N; 46%N; 99%N; 111%N; 114%N; 101%N], [99%N; 111%N; 110%N; 99%N; 97%N; 116%N]);
   ([98%N; 97%N; 115%N; 105%N; 108%N; 105%N; 115%N; 112%N; 46%N; 99%N; 111%N; 114%N; 101%N], [108%N; 105%N; 115%N; 116%N]);
   ([98%N; 97%N; 115%N; 105%N; 108%N; 105%N; 115%N; 112%N; 46%N; 99%N; 111%N; 114%N; 101%N], [97%N; 112%N; 112%N; 108%N; 121%N]);
   ([98%N; 97%N; 115%N; 105%N; 108%N; 105%N; 115%N; 112%N; 46%N; 99%N; 111%N; 114%N; 101%N], [118%N; 101%N; 99%N; 116%N; 111%N; 114%N]);
   ([98%N; 97%N; 115%N; 105%N; 108%N; 105%N; 115%N; 112%N; 46%N; 99%N; 111%N; 114%N; 101%N], [104%N; 97%N; 115%N; 104%N; 45%N; 109%N; 97%N; 112%N]);
   ([98%N; 97%N; 115%N; 105%N; 108%N; 105%N; 115%N; 112%N; 46%N; 99%N; 111%N; 114%N; 101%N], [104%N; 97%N; 115%N; 104%N; 45%N; 115%N; 101%N; 116%N]);
   ((@nil N), [113%N; 117%N; 111%N; 116%N; 101%N])].
Definition sq_resolve_shape : N := 1%N.
Definition sq_expand_shape : N := 1%N.

(* ---- C04 (harness/tr/tr_collections.py): what the translator emits for the pinned tree ---- *)
(* 1 = PersistentVector/TransientVector val_at, nth, assoc, assoc_transient hand the index to pyrsistent
   unguarded and pop is the slice self[:-1]; 1 = runtime nth/get/contains/assoc/update pass it through;
   1 = with-meta is (if meta (.with-meta o meta) o); 1 = PersistentList.pop returns a PersistentList
   (repair F-04c); 1 = the persistent wrappers assign _inner/_meta only in __init__ *)
Definition coll_vector_shape : N := 1%N.
Definition coll_nth_shape : N := 1%N.
Definition coll_with_meta_shape : N := 1%N.
Definition coll_list_pop_shape : N := 1%N.
Definition coll_wrappers_pure : N := 1%N.
