(** C07 specification: the reference list functions the property prescribes, written with
    the standard library and small structural recursions, independently of the model.

    For each function the reference is a triple
      [sF]  the list function itself (what every application form must contain),
      [sE]  what has been handed downstream after the inputs [l] have been consumed and
            before completion (differs from [sF] only where completion flushes a buffer),
      [sD]  whether the function itself is finished after consuming [l] ([take], [take-while]).
    Composition is function composition; a pipeline is finished when a stage is finished on
    what reached it.  The number of inputs a transducing process may consume is the length
    of the shortest prefix after which the pipeline is finished ([need]), else all of them.
    A transducer can only stop when it is called, so [(take 0)] is finished after its first
    input (as in Clojure). *)
From Coq Require Import List Bool Arith ZArith Lia.
Import ListNotations.

Record sem (A B : Type) : Type := mkSem {
  sF : list A -> list B;
  sE : list A -> list B;
  sD : list A -> bool }.
Arguments mkSem {A B} _ _ _.
Arguments sF {A B} _ _.
Arguments sE {A B} _ _.
Arguments sD {A B} _ _.

Definition sem_simple {A B} (f : list A -> list B) : sem A B := mkSem f f (fun _ => false).

Definition sem_comp {A B C} (m1 : sem A B) (m2 : sem B C) : sem A C :=
  mkSem (fun l => sF m2 (sF m1 l))
        (fun l => sE m2 (sE m1 l))
        (fun l => sD m1 l || sD m2 (sE m1 l)).

(** length of the shortest non-empty prefix of [l] (extending [pre]) on which [P] holds,
    else [length l] *)
Fixpoint need_from {A} (P : list A -> bool) (pre l : list A) : nat :=
  match l with
  | [] => 0
  | x :: t => if P (pre ++ [x]) then 1 else S (need_from P (pre ++ [x]) t)
  end.
Definition need {A} (P : list A -> bool) (l : list A) : nat := need_from P [] l.

Section Refs.
  Context {A B : Type}.

  Definition ref_map (f : A -> B) : list A -> list B := map f.
  Definition ref_filter (p : A -> bool) : list A -> list A := filter p.
  Definition ref_remove (p : A -> bool) : list A -> list A := filter (fun x => negb (p x)).

  Fixpoint ref_keep (f : A -> option B) (l : list A) : list B :=
    match l with
    | [] => []
    | x :: t => match f x with Some y => y :: ref_keep f t | None => ref_keep f t end
    end.

  (** elements paired with their position *)
  Definition indexed (l : list A) : list (nat * A) := combine (seq 0 (length l)) l.
  Definition ref_map_indexed (f : nat -> A -> B) (l : list A) : list B :=
    map (fun ix => f (fst ix) (snd ix)) (indexed l).

  Definition ref_take (n : nat) : list A -> list A := firstn n.
  Definition ref_drop (n : nat) : list A -> list A := skipn n.

  Fixpoint ref_take_while (p : A -> bool) (l : list A) : list A :=
    match l with [] => [] | x :: t => if p x then x :: ref_take_while p t else [] end.
  Fixpoint ref_drop_while (p : A -> bool) (l : list A) : list A :=
    match l with [] => [] | x :: t => if p x then ref_drop_while p t else l end.

  (** positions 0, n, 2n, ... *)
  Definition ref_take_nth (n : nat) (l : list A) : list A :=
    map snd (filter (fun ix => Nat.eqb (fst ix mod n) 0) (indexed l)).

  Definition ref_interpose (sep : A) (l : list A) : list A :=
    match l with [] => [] | x :: t => x :: flat_map (fun y => [sep; y]) t end.

  (** consecutive chunks of [n] elements, the last one possibly shorter ([fuel] >= length) *)
  Fixpoint chunks (fuel n : nat) (l : list A) : list (list A) :=
    match fuel with
    | O => []
    | S k => match l with [] => [] | _ :: _ => firstn n l :: chunks k n (skipn n l) end
    end.
  Definition ref_partition_all (n : nat) (l : list A) : list (list A) := chunks (length l) n l.
  Definition full_chunks (n : nat) (l : list A) : list (list A) :=
    filter (fun c => Nat.eqb (length c) n) (ref_partition_all n l).

  Definition ref_cat : list (list A) -> list A := @concat A.
  Definition ref_mapcat (f : A -> list B) : list A -> list B := flat_map f.
End Refs.

Definition ref_keep_indexed {A B} (f : nat -> A -> option B) (l : list A) : list B :=
  ref_keep (fun ix => f (fst ix) (snd ix)) (indexed l).

Section RefsEq.
  Context {A K : Type}.
  Variable eqb : K -> K -> bool.

  (** maximal runs of consecutive elements with equal keys *)
  Fixpoint ref_partition_by (f : A -> K) (l : list A) : list (list A) :=
    match l with
    | [] => []
    | x :: t =>
        match ref_partition_by f t with
        | (y :: g) :: gs => if eqb (f x) (f y) then (x :: y :: g) :: gs else [x] :: (y :: g) :: gs
        | _ => [[x]]
        end
    end.
End RefsEq.

Section RefsEq2.
  Context {A : Type}.
  Variable eqb : A -> A -> bool.

  (** first occurrences *)
  Fixpoint ref_distinct_go (seen : list A) (l : list A) : list A :=
    match l with
    | [] => []
    | x :: t => if existsb (eqb x) seen then ref_distinct_go seen t
                else x :: ref_distinct_go (x :: seen) t
    end.
  Definition ref_distinct := ref_distinct_go [].

  (** drop an element equal to its predecessor *)
  Fixpoint ref_dedupe_go (prev : A) (l : list A) : list A :=
    match l with
    | [] => []
    | x :: t => if eqb prev x then ref_dedupe_go prev t else x :: ref_dedupe_go x t
    end.
  Definition ref_dedupe (l : list A) : list A :=
    match l with [] => [] | x :: t => x :: ref_dedupe_go x t end.

  (** x, f x, f (f x), ... (n elements) *)
  Fixpoint ref_iterate (n : nat) (f : A -> A) (x : A) : list A :=
    match n with O => [] | S k => x :: ref_iterate k f (f x) end.
End RefsEq2.

(** The reference triple of each function *)
Section Sems.
  Context {A B : Type}.
  Definition sem_map (f : A -> B) : sem A B := sem_simple (ref_map f).
  Definition sem_map_indexed (f : nat -> A -> B) : sem A B := sem_simple (ref_map_indexed f).
  Definition sem_keep (f : A -> option B) : sem A B := sem_simple (ref_keep f).
  Definition sem_keep_indexed (f : nat -> A -> option B) : sem A B := sem_simple (ref_keep_indexed f).
  Definition sem_mapcat (f : A -> list B) : sem A B := sem_simple (ref_mapcat f).
End Sems.
Section SemsA.
  Context {A : Type}.
  Definition sem_filter (p : A -> bool) : sem A A := sem_simple (ref_filter p).
  Definition sem_remove (p : A -> bool) : sem A A := sem_simple (ref_remove p).
  Definition sem_take (n : nat) : sem A A :=
    mkSem (ref_take n) (ref_take n) (fun l => Nat.leb (Nat.max n 1) (length l)).
  Definition sem_take_while (p : A -> bool) : sem A A :=
    mkSem (ref_take_while p) (ref_take_while p) (fun l => existsb (fun x => negb (p x)) l).
  Definition sem_drop (n : nat) : sem A A := sem_simple (ref_drop n).
  Definition sem_drop_while (p : A -> bool) : sem A A := sem_simple (ref_drop_while p).
  Definition sem_take_nth (n : nat) : sem A A := sem_simple (ref_take_nth n).
  Definition sem_interpose (sep : A) : sem A A := sem_simple (ref_interpose sep).
  Definition sem_partition_all (n : nat) : sem A (list A) :=
    mkSem (ref_partition_all n) (full_chunks n) (fun _ => false).
  Definition sem_partition_by {K} (eqb : K -> K -> bool) (f : A -> K) : sem A (list A) :=
    mkSem (ref_partition_by eqb f) (fun l => removelast (ref_partition_by eqb f l)) (fun _ => false).
  Definition sem_distinct (eqb : A -> A -> bool) : sem A A := sem_simple (ref_distinct eqb).
  Definition sem_dedupe (eqb : A -> A -> bool) : sem A A := sem_simple (ref_dedupe eqb).
  Definition sem_cat : sem (list A) A := sem_simple (@ref_cat A).
End SemsA.
