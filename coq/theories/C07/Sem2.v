(** C07 proofs, part 3: partition-all, partition-by, distinct, dedupe, mapcat. *)
From Coq Require Import List Bool Arith ZArith Lia.
Import ListNotations.
From Verif Require Import C07.Model C07.Spec C07.Mach C07.Proofs C07.Sem.

Lemma denotes_on_ext {A B} (G : list A -> Prop) (x : xform A B) (m m' : sem A B) :
  (forall l, sF m l = sF m' l) -> (forall l, sE m l = sE m' l) -> (forall l, sD m l = sD m' l) ->
  denotes_on G x m -> denotes_on G x m'.
Proof.
  intros HF HE HD (E & H & N). split; [|split]; [| |exact N].
  - intros. rewrite <- HF. auto.
  - intros. rewrite <- HE, <- HD. auto.
Qed.

Theorem mapcat_denotes {A B} (f : A -> list B) : denotes (mapcat_xf f) (sem_mapcat f).
Proof.
  apply (denotes_on_ext _ _ (sem_comp (sem_map f) sem_cat)).
  - intro l. simpl. unfold ref_cat, ref_map, ref_mapcat. symmetry. apply flat_map_concat_map.
  - intro l. simpl. unfold ref_cat, ref_map, ref_mapcat. symmetry. apply flat_map_concat_map.
  - reflexivity.
  - apply comp_denotes; [apply map_denotes|apply cat_denotes].
Qed.

(* ------------------------------------------------------------------------------------ *)
(** * partition-all *)

Section PartitionAll.
  Context {A : Type}.

  Lemma chunks_nil k n : @chunks A k n [] = [].
  Proof. destruct k; reflexivity. Qed.

  Lemma chunks_fuel n : 1 <= n -> forall k1 k2 (l : list A),
    length l <= k1 -> length l <= k2 -> chunks k1 n l = chunks k2 n l.
  Proof.
    intro Hn. induction k1 as [|k1 IH]; intros k2 l H1 H2.
    - destruct l; [|simpl in H1; lia]. rewrite !chunks_nil. reflexivity.
    - destruct l as [|x t]; [rewrite !chunks_nil; reflexivity|].
      destruct k2 as [|k2]; [simpl in H2; lia|]. simpl chunks. f_equal.
      assert (length (skipn n (x :: t)) <= length t).
      { rewrite skipn_length. simpl length. lia. }
      simpl in H1, H2. apply IH; lia.
  Qed.

  Lemma chunks_unfold n (l : list A) : l <> [] ->
    chunks (length l) n l = firstn n l :: chunks (length l - 1) n (skipn n l).
  Proof. destruct l as [|x t]; [congruence|]. intros _. simpl length. replace (S (length t) - 1) with (length t) by lia. reflexivity. Qed.

  Lemma firstn_exact (l1 l2 : list A) : firstn (length l1) (l1 ++ l2) = l1.
  Proof. rewrite firstn_app, Nat.sub_diag, firstn_all. simpl. apply app_nil_r. Qed.
  Lemma skipn_exact (l1 l2 : list A) : skipn (length l1) (l1 ++ l2) = l2.
  Proof. rewrite skipn_app, Nat.sub_diag, skipn_all. reflexivity. Qed.

  Lemma m_partition_all_run (n : nat) : 1 <= n -> forall (l buf : list A), length buf < n ->
    mF (m_partition_all (Z.of_nat n)) buf l = chunks (length (buf ++ l)) n (buf ++ l) /\
    mE (m_partition_all (Z.of_nat n)) buf l =
      filter (fun c => Nat.eqb (length c) n) (chunks (length (buf ++ l)) n (buf ++ l)).
  Proof.
    intro Hn. induction l as [|x t IH]; intros buf Hb.
    - rewrite app_nil_r, mF_nil, mE_nil. simpl mflush. destruct buf as [|b bs]; [split; reflexivity|].
      rewrite chunks_unfold by congruence.
      rewrite firstn_all2 by lia. rewrite skipn_all2 by lia. rewrite chunks_nil.
      simpl flush_buf. split; [reflexivity|].
      assert (Nat.eqb (length (b :: bs)) n = false) as E by (apply Nat.eqb_neq; lia).
      cbn [filter]. rewrite E. reflexivity.
    - rewrite mF_step, mE_step. simpl mstep.
      replace (buf ++ x :: t) with ((buf ++ [x]) ++ t) by (rewrite <- app_assoc; reflexivity).
      destruct (Z.of_nat (length (buf ++ [x])) <? Z.of_nat n)%Z eqn:E.
      + apply Z.ltb_lt in E. simpl app. apply IH. lia.
      + apply Z.ltb_ge in E. assert (length (buf ++ [x]) = n) as Hl.
        { rewrite app_length in *. simpl in *. lia. }
        destruct (IH [] ltac:(simpl; lia)) as [IF IE]. simpl app in IF, IE. rewrite IF, IE.
        assert (HL : (buf ++ [x]) ++ t <> []) by (destruct buf; simpl; discriminate).
        rewrite (chunks_unfold n _ HL).
        assert (firstn n ((buf ++ [x]) ++ t) = buf ++ [x]) as -> by (rewrite <- Hl; apply firstn_exact).
        assert (skipn n ((buf ++ [x]) ++ t) = t) as -> by (rewrite <- Hl; apply skipn_exact).
        rewrite (chunks_fuel n Hn (length ((buf ++ [x]) ++ t) - 1) (length t)); try lia;
          [|rewrite app_length; lia].
        split; [reflexivity|]. cbn [filter]. rewrite Hl, Nat.eqb_refl. reflexivity.
  Qed.

  Lemma m_partition_all_wf n : mach_wf (@m_partition_all A n).
  Proof.
    intros ms x. simpl. destruct (Z.of_nat (length (ms ++ [x])) <? n)%Z; simpl; [congruence|reflexivity].
  Qed.

  Lemma m_partition_all_D n (l : list A) : forall buf, mD (m_partition_all n) buf l = false.
  Proof.
    induction l as [|x t IH]; intro buf; [reflexivity|]. rewrite mD_step. simpl.
    destruct (Z.of_nat (length (buf ++ [x])) <? n)%Z; apply IH.
  Qed.

  Theorem partition_all_denotes (n : nat) : 1 <= n ->
    denotes (@partition_all_xf A (Z.of_nat n)) (sem_partition_all n).
  Proof.
    intro Hn. apply (machine_denotes _ _ (m_partition_all (Z.of_nat n))); auto using partition_all_natural.
    - intros; apply partition_all_sim.
    - apply m_partition_all_wf.
    - intros l _. destruct (m_partition_all_run n Hn l [] ltac:(simpl; lia)) as [F E].
      simpl m0. rewrite F, E, m_partition_all_D. auto.
  Qed.
End PartitionAll.

(* ------------------------------------------------------------------------------------ *)
(** * partition-by *)

Section PartitionBy.
  Context {A K : Type}.
  Variable eqb : K -> K -> bool.
  Hypothesis eqb_refl : forall a, eqb a a = true.
  Hypothesis eqb_sym : forall a b, eqb a b = eqb b a.
  Hypothesis eqb_trans : forall a b c, eqb a b = true -> eqb b c = true -> eqb a c = true.
  Variable f : A -> K.
  Let R := ref_partition_by eqb f.

  (** runs collected left to right: what the machine computes *)
  Fixpoint pgo (k : K) (cur : list A) (l : list A) : list (list A) :=
    match l with
    | [] => [cur]
    | x :: t => if eqb k (f x) then pgo k (cur ++ [x]) t else cur :: pgo (f x) [x] t
    end.

  Lemma pgo_nonempty l : forall k cur, pgo k cur l <> [].
  Proof. induction l as [|x t IH]; intros k cur; simpl; [congruence|]. destruct (eqb k (f x)); [apply IH|congruence]. Qed.

  Lemma R_cons c l :
    R (c :: l) = match R l with
                 | (y :: g) :: gs => if eqb (f c) (f y) then (c :: y :: g) :: gs else [c] :: (y :: g) :: gs
                 | _ => [[c]]
                 end.
  Proof. reflexivity. Qed.

  Lemma R_head x t : exists g gs, R (x :: t) = (x :: g) :: gs.
  Proof.
    rewrite R_cons. destruct (R t) as [|[|y g] gs]; eauto.
    destruct (eqb (f x) (f y)); eauto.
  Qed.

  Lemma R_prefix k : forall cur, cur <> [] -> (forall y, In y cur -> eqb k (f y) = true) ->
    forall rest, (match rest with [] => True | x :: _ => eqb k (f x) = false end) ->
    R (cur ++ rest) = cur :: R rest.
  Proof.
    induction cur as [|c cs IH]; [congruence|]. intros _ Hc rest Hr.
    destruct cs as [|c2 cs'].
    - simpl app. destruct rest as [|x t]; [reflexivity|].
      destruct (R_head x t) as (g & gs & E). rewrite R_cons, E.
      destruct (eqb (f c) (f x)) eqn:Ec; [|reflexivity].
      exfalso. rewrite (eqb_trans k (f c) (f x)) in Hr; [discriminate|apply Hc; left; reflexivity|exact Ec].
    - assert (IH' : R ((c2 :: cs') ++ rest) = (c2 :: cs') :: R rest).
      { apply IH; [congruence|intros y Hy; apply Hc; right; exact Hy|exact Hr]. }
      simpl app in *. rewrite R_cons, IH'.
      assert (eqb (f c) (f c2) = true) as ->; [|reflexivity].
      apply (eqb_trans _ k); [rewrite eqb_sym; apply Hc; left; reflexivity|apply Hc; right; left; reflexivity].
  Qed.

  Lemma pgo_ref l : forall k cur, cur <> [] -> (forall y, In y cur -> eqb k (f y) = true) ->
    pgo k cur l = R (cur ++ l).
  Proof.
    induction l as [|x t IH]; intros k cur Hne Hc.
    - simpl. rewrite (R_prefix k cur Hne Hc [] I). reflexivity.
    - simpl. destruct (eqb k (f x)) eqn:E.
      + rewrite IH.
        * rewrite <- app_assoc. reflexivity.
        * destruct cur; simpl; congruence.
        * intros y Hy. apply in_app_or in Hy. destruct Hy as [Hy|[<-|[]]]; auto.
      + rewrite (R_prefix k cur Hne Hc (x :: t) E). f_equal.
        apply (IH (f x) [x]); [congruence|]. intros y [<-|[]]. apply eqb_refl.
  Qed.

  Variable sentinel : K.
  Let m := m_partition_by eqb f sentinel.

  Lemma m_partition_by_run l : forall k cur, cur <> [] -> eqb k sentinel = false ->
    (forall x, In x l -> eqb (f x) sentinel = false) ->
    mF m (k, cur) l = pgo k cur l /\ mE m (k, cur) l = removelast (pgo k cur l) /\ mD m (k, cur) l = false.
  Proof.
    induction l as [|x t IH]; intros k cur Hne Hk Hl.
    - rewrite mF_nil, mE_nil, mD_nil. simpl. destruct cur; [congruence|]. auto.
    - rewrite mF_step, mE_step, mD_step. simpl mstep. rewrite Hk. simpl pgo.
      destruct (eqb k (f x)) eqn:E.
      + simpl app. apply IH; [destruct cur; simpl; congruence|exact Hk|intros; apply Hl; right; assumption].
      + destruct (IH (f x) [x]) as (IF & IE & ID);
          [congruence|apply Hl; left; reflexivity|intros; apply Hl; right; assumption|].
        rewrite IF, IE, ID. split; [reflexivity|split; [|reflexivity]].
        simpl app. pose proof (pgo_nonempty t (f x) [x]) as Hn.
        destruct (pgo (f x) [x] t); [congruence|reflexivity].
  Qed.

  Lemma m_partition_by_wf : mach_wf m.
  Proof.
    intros [k cur] x. simpl. destruct (eqb k sentinel); simpl; [congruence|].
    destruct (eqb k (f x)); simpl; [congruence|reflexivity].
  Qed.

  Theorem partition_by_denotes_on :
    denotes_on (fun l => forall x, In x l -> eqb (f x) sentinel = false)
               (partition_by_xf eqb f sentinel) (sem_partition_by eqb f).
  Proof.
    apply (machine_denotes _ _ m); auto using partition_by_natural.
    - intros; apply partition_by_sim.
    - apply m_partition_by_wf.
    - intros l Hl. destruct l as [|x t]; [auto|].
      rewrite mF_step, mE_step, mD_step. simpl m0. simpl mstep. rewrite eqb_refl. simpl app.
      destruct (m_partition_by_run t (f x) [x]) as (F & E & D);
        [congruence|apply Hl; left; reflexivity|intros; apply Hl; right; assumption|].
      rewrite F, E, D. rewrite (pgo_ref t (f x) [x]); [auto|congruence|].
      intros y [<-|[]]. apply eqb_refl.
  Qed.
End PartitionBy.

(* ------------------------------------------------------------------------------------ *)
(** * distinct, dedupe *)

Section Distinct.
  Context {A : Type}.
  Variables eqb heqb : A -> A -> bool.

  (** [(contains? seen x)] on a set whose membership test is [h] *)
  Definition mem_of (h : A -> A -> bool) (x : A) (seen : list A) : bool := existsb (h x) seen.

  Lemma m_distinct_E (P : A -> Prop) : (forall x y, P x -> P y -> heqb x y = eqb x y) ->
    forall l seen, Forall P l -> Forall P seen ->
    mE (m_distinct (mem_of heqb)) seen l = ref_distinct_go eqb seen l.
  Proof.
    intros HP. induction l as [|x t IH]; intros seen Hl Hs; [reflexivity|].
    inversion Hl as [|? ? Px Pt]; subst.
    rewrite mE_step. simpl. unfold mem_of.
    assert (existsb (heqb x) seen = existsb (eqb x) seen) as ->.
    { clear -HP Px Hs. induction Hs as [|y s Py _ IHs]; simpl; [reflexivity|]. rewrite IHs, HP; auto. }
    destruct (existsb (eqb x) seen); simpl; [apply IH; assumption|].
    f_equal. apply IH; [assumption|constructor; assumption].
  Qed.

  Theorem distinct_denotes_on :
    denotes_on (fun l => forall x y, In x l -> In y l -> heqb x y = eqb x y)
               (distinct_xf (mem_of heqb)) (sem_distinct eqb).
  Proof.
    apply (simple_denotes _ _ (m_distinct (mem_of heqb))); auto using distinct_natural.
    - intros; apply distinct_sim.
    - intros ms x. simpl. destruct (mem_of heqb x ms); reflexivity.
    - intros l Hl. apply (m_distinct_E (fun x => In x l)); [auto|apply Forall_forall; auto|constructor].
  Qed.
End Distinct.

Theorem distinct_denotes {A} (eqb : A -> A -> bool) :
  denotes (distinct_xf (mem_of eqb)) (sem_distinct eqb).
Proof.
  apply (denotes_on_weaken _ _ _ _ (fun l _ => (fun x y _ _ => eq_refl) : forall x y, In x l -> In y l -> eqb x y = eqb x y)).
  apply distinct_denotes_on.
Qed.

Section Dedupe.
  Context {A : Type}.
  Variable eqb : A -> A -> bool.

  Lemma m_dedupe_E sentinel l : forall prev, mE (m_dedupe eqb sentinel) prev l = ref_dedupe_go eqb prev l.
  Proof.
    induction l as [|x t IH]; intro prev; [reflexivity|].
    rewrite mE_step. simpl. destruct (eqb prev x); simpl; rewrite IH; reflexivity.
  Qed.

  Theorem dedupe_denotes_on (sentinel : A) :
    denotes_on (fun l => match l with [] => True | x :: _ => eqb sentinel x = false end)
               (dedupe_xf eqb sentinel) (sem_dedupe eqb).
  Proof.
    apply (simple_denotes _ _ (m_dedupe eqb sentinel)); auto using dedupe_natural.
    - intros; apply dedupe_sim.
    - intros ms x. simpl. destruct (eqb ms x); reflexivity.
    - intros [|x t] Hl; [reflexivity|]. rewrite mE_step. simpl m0. simpl mstep. rewrite Hl.
      rewrite m_dedupe_E. reflexivity.
  Qed.
End Dedupe.
