(** C07 model: the transducer arities of basilisp.core's sequence functions, transcribed
    from src/basilisp/core.lpy as reducing-function transformers, the application forms
    ([transduce], [into], [sequence], [eduction]) and the plain lazy-seq arities.

    Encoding.  A reducing function over accumulators [Acc] and inputs [E] is a record
      [rS]    the type of the private (volatile!/python list) state captured by the closure,
      [rs0]   that state at the moment [(xform rf)] builds the closure,
      [rstep] the 2-arity [(rf result input)]: new state, new result, and whether the result
              came back wrapped in [Reduced] (the flag is what [reduced?] tests),
      [rdone] the 1-arity (completion).
    A transducer is a function from reducing functions to reducing functions, exactly as in
    the source, and [comp] is function composition. *)
From Coq Require Import List Bool ZArith Lia.
Import ListNotations.

Record rf (Acc E : Type) : Type := mkRf {
  rS : Type;
  rs0 : rS;
  rstep : rS -> Acc -> E -> rS * Acc * bool;
  rdone : rS -> Acc -> rS * Acc }.
Arguments mkRf {Acc E rS} _ _ _.
Arguments rS {Acc E} _.
Arguments rs0 {Acc E} _.
Arguments rstep {Acc E} _ _ _ _.
Arguments rdone {Acc E} _ _ _.

Definition xform (A B : Type) : Type := forall Acc : Type, rf Acc B -> rf Acc A.

(** [(comp f g)] = [(fn [x] (f (g x)))] *)
Definition comp {A B C} (f : xform A B) (g : xform B C) : xform A C :=
  fun Acc r => f Acc (g Acc r).

(** [(reduce rf result coll)] with a reducing function that may return [Reduced]:
    internal_reduce / PersistentVector.reduce stop at the first [Reduced]. *)
Fixpoint feed {Acc E} (r : rf Acc E) (s : rS r) (a : Acc) (l : list E) : rS r * Acc * bool :=
  match l with
  | [] => (s, a, false)
  | x :: t => let '(s1, a1, h) := rstep r s a x in
              if h then (s1, a1, true) else feed r s1 a1 t
  end.

(** the same loop, also counting how many inputs were taken from the collection *)
Fixpoint run {Acc E} (r : rf Acc E) (s : rS r) (a : Acc) (l : list E) : rS r * Acc * bool * nat :=
  match l with
  | [] => (s, a, false, 0)
  | x :: t => let '(s1, a1, h) := rstep r s a x in
              if h then (s1, a1, true, 1)
              else let '(s2, a2, h2, n) := run r s1 a1 t in (s2, a2, h2, S n)
  end.

(* ------------------------------------------------------------------------------------ *)
(** * The transducer arities (core.lpy, "Higher Order and Collection Functions") *)

Section Xforms.
  Context {A B : Type}.

  (** map: [(rf result (f input))] *)
  Definition map_xf (f : A -> B) : xform A B := fun Acc r =>
    mkRf (rs0 r) (fun s a x => rstep r s a (f x)) (rdone r).

  (** map-indexed: [idx (volatile! -1)], [(rf result (f (vswap! idx inc) input))] *)
  Definition map_indexed_xf (f : Z -> A -> B) : xform A B := fun Acc r =>
    mkRf ((-1)%Z, rs0 r)
      (fun st a x => let '(i, s) := st in
         let i' := (i + 1)%Z in
         let '(s', a', h) := rstep r s a (f i' x) in ((i', s'), a', h))
      (fun st a => let '(i, s) := st in let '(s', a') := rdone r s a in ((i, s'), a')).

  (** keep: [(let [v (f input)] (if (nil? v) result (rf result v)))]; [None] is nil *)
  Definition keep_xf (f : A -> option B) : xform A B := fun Acc r =>
    mkRf (rs0 r)
      (fun s a x => match f x with None => (s, a, false) | Some v => rstep r s a v end)
      (rdone r).

  (** keep-indexed: [idx (volatile! -1)] *)
  Definition keep_indexed_xf (f : Z -> A -> option B) : xform A B := fun Acc r =>
    mkRf ((-1)%Z, rs0 r)
      (fun st a x => let '(i, s) := st in
         let i' := (i + 1)%Z in
         match f i' x with
         | None => ((i', s), a, false)
         | Some v => let '(s', a', h) := rstep r s a v in ((i', s'), a', h)
         end)
      (fun st a => let '(i, s) := st in let '(s', a') := rdone r s a in ((i, s'), a')).
End Xforms.

Section XformsA.
  Context {A : Type}.

  (** filter: [(if (pred input) (rf result input) result)]; [pred] already composed with
      truthiness.  [remove] is [(filter (complement pred))]. *)
  Definition filter_xf (p : A -> bool) : xform A A := fun Acc r =>
    mkRf (rs0 r) (fun s a x => if p x then rstep r s a x else (s, a, false)) (rdone r).
  Definition remove_xf (p : A -> bool) : xform A A := filter_xf (fun x => negb (p x)).

  (** take (as repaired, fixes/C07-take-counter.patch):
      [idx (volatile! n)];  cur = @idx, nxt = (vswap! idx dec),
      result = (if (pos? cur) (rf result input) result),
      (if (pos? nxt) result (ensure-reduced result)) *)
  Definition take_xf (n : Z) : xform A A := fun Acc r =>
    mkRf (n, rs0 r)
      (fun st a x => let '(cur, s) := st in
         let nxt := (cur - 1)%Z in
         let '(s', a', h) := if (0 <? cur)%Z then rstep r s a x else (s, a, false) in
         ((nxt, s'), a', if (0 <? nxt)%Z then h else true))
      (fun st a => let '(i, s) := st in let '(s', a') := rdone r s a in ((i, s'), a')).

  (** take-while: [(if (pred input) (rf result input) (ensure-reduced result))] *)
  Definition take_while_xf (p : A -> bool) : xform A A := fun Acc r =>
    mkRf (rs0 r) (fun s a x => if p x then rstep r s a x else (s, a, true)) (rdone r).

  (** drop: [idx (volatile! (inc n))], [(if (pos? (vswap! idx dec)) result (rf result input))] *)
  Definition drop_xf (n : Z) : xform A A := fun Acc r =>
    mkRf ((n + 1)%Z, rs0 r)
      (fun st a x => let '(i, s) := st in
         let i' := (i - 1)%Z in
         if (0 <? i')%Z then ((i', s), a, false)
         else let '(s', a', h) := rstep r s a x in ((i', s'), a', h))
      (fun st a => let '(i, s) := st in let '(s', a') := rdone r s a in ((i, s'), a')).

  (** drop-while: [v (volatile! false)];
      (cond @v (rf ..) (not (pred input)) (do (vreset! v true) (rf ..)) :else result) *)
  Definition drop_while_xf (p : A -> bool) : xform A A := fun Acc r =>
    mkRf (false, rs0 r)
      (fun st a x => let '(v, s) := st in
         if v then let '(s', a', h) := rstep r s a x in ((true, s'), a', h)
         else if negb (p x) then let '(s', a', h) := rstep r s a x in ((true, s'), a', h)
         else ((false, s), a, false))
      (fun st a => let '(i, s) := st in let '(s', a') := rdone r s a in ((i, s'), a')).

  (** take-nth: [v (volatile! -1)], cur = (vswap! v inc), [(if (zero? (rem cur n)) (rf ..) result)] *)
  Definition take_nth_xf (n : Z) : xform A A := fun Acc r =>
    mkRf ((-1)%Z, rs0 r)
      (fun st a x => let '(v, s) := st in
         let cur := (v + 1)%Z in
         if (Z.rem cur n =? 0)%Z then let '(s', a', h) := rstep r s a x in ((cur, s'), a', h)
         else ((cur, s), a, false))
      (fun st a => let '(i, s) := st in let '(s', a') := rdone r s a in ((i, s'), a')).

  (** interpose (as repaired, fixes/C07-interpose-reduced.patch): [v (volatile! 1)];
      (if (zero? (vswap! v dec)) (rf result input)
        (let [sepr (rf result sep)] (if (reduced? sepr) sepr (rf sepr input)))) *)
  Definition interpose_xf (sep : A) : xform A A := fun Acc r =>
    mkRf (1%Z, rs0 r)
      (fun st a x => let '(v, s) := st in
         let v' := (v - 1)%Z in
         if (v' =? 0)%Z then let '(s', a', h) := rstep r s a x in ((v', s'), a', h)
         else let '(s1, a1, h1) := rstep r s a sep in
              if h1 then ((v', s1), a1, true)
              else let '(s2, a2, h2) := rstep r s1 a1 x in ((v', s2), a2, h2))
      (fun st a => let '(i, s) := st in let '(s', a') := rdone r s a in ((i, s'), a')).

  (** partition-all: [lst (python/list)].
      step: (.append lst input); (if (< (len lst) n) result (let [v (vec lst)] (.clear lst) (rf result v)))
      completion: (let [result (if (zero? (len lst)) result (unreduced (rf result (vec lst))))] (rf result));
      the list is NOT cleared by the completion arity. *)
  Definition partition_all_xf (n : Z) : xform A (list A) := fun Acc r =>
    mkRf (@nil A, rs0 r)
      (fun st a x => let '(lst, s) := st in
         let lst' := lst ++ [x] in
         if (Z.of_nat (length lst') <? n)%Z then ((lst', s), a, false)
         else let '(s', a', h) := rstep r s a lst' in (([], s'), a', h))
      (fun st a => let '(lst, s) := st in
         match lst with
         | [] => let '(s', a') := rdone r s a in ((lst, s'), a')
         | _ => let '(s1, a1, _) := rstep r s a lst in
                let '(s', a') := rdone r s1 a1 in ((lst, s'), a')
         end).

  (** cat (as repaired, fixes/C07-cat-reduced.patch): [(reduce rrf result input)] where
      [rrf] re-wraps a [Reduced] so that [reduce]'s unwrapping leaves one [Reduced]. *)
  Definition cat_xf : xform (list A) A := fun Acc r =>
    mkRf (rs0 r) (fun s a xs => feed r s a xs) (rdone r).
End XformsA.

Section XformsEq.
  Context {A K : Type}.
  (** [eqb] is basilisp.core/= ; [hmem x seen] is [(contains? seen x)] on a persistent set,
      which uses Python hashing/[==], NOT basilisp's [=]. *)
  Variable eqb : K -> K -> bool.

  (** partition-by (as repaired, fixes/C07-partition-by-reduced.patch):
      [prev (volatile! :basilisp.core.partition-by/default)], [lst (python/list)].
      The sentinel is an ordinary keyword: a key equal to it is taken for "no previous key". *)
  Definition partition_by_xf (f : A -> K) (sentinel : K) : xform A (list A) := fun Acc r =>
    mkRf ((sentinel, @nil A), rs0 r)
      (fun st a x => let '((prev, lst), s) := st in
         let v := f x in
         if eqb prev sentinel then (((v, lst ++ [x]), s), a, false)
         else if eqb prev v then (((prev, lst ++ [x]), s), a, false)
         else let '(s', a', h) := rstep r s a lst in
              (((v, if h then [] else [x]), s'), a', h))
      (fun st a => let '((prev, lst), s) := st in
         match lst with
         | [] => let '(s', a') := rdone r s a in (((prev, lst), s'), a')
         | _ => let '(s1, a1, _) := rstep r s a lst in
                let '(s', a') := rdone r s1 a1 in (((prev, lst), s'), a')
         end).
End XformsEq.

Section XformsEq2.
  Context {A : Type}.
  (** distinct: [v (volatile! #{})], (if (contains? @v input) result (do (vswap! v conj input) (rf ..))) *)
  Definition distinct_xf (hmem : A -> list A -> bool) : xform A A := fun Acc r =>
    mkRf (@nil A, rs0 r)
      (fun st a x => let '(seen, s) := st in
         if hmem x seen then ((seen, s), a, false)
         else let '(s', a', h) := rstep r s a x in ((x :: seen, s'), a', h))
      (fun st a => let '(i, s) := st in let '(s', a') := rdone r s a in ((i, s'), a')).

  (** dedupe: [prev (volatile! :basilisp.core.dedupe/default)],
      (if (= @prev input) result (do (vreset! prev input) (rf result input))) *)
  Definition dedupe_xf (eqb : A -> A -> bool) (sentinel : A) : xform A A := fun Acc r =>
    mkRf (sentinel, rs0 r)
      (fun st a x => let '(prev, s) := st in
         if eqb prev x then ((prev, s), a, false)
         else let '(s', a', h) := rstep r s a x in ((x, s'), a', h))
      (fun st a => let '(i, s) := st in let '(s', a') := rdone r s a in ((i, s'), a')).
End XformsEq2.

(** mapcat: [(comp (map f) cat)] *)
Definition mapcat_xf {A B} (f : A -> list B) : xform A B := comp (map_xf f) cat_xf.

(* ------------------------------------------------------------------------------------ *)
(** * Application forms *)

(** The bottom reducing function used for observation: [conj]/[conj!]/the queue or deque
    appenders of [sequence]/[eduction], wrapped by the harness's probe that counts calls of
    the completion arity.  Accumulator = (elements so far, completion calls). *)
Definition conj_rf (B : Type) : rf (list B * nat) B :=
  mkRf tt
    (fun _ a x => (tt, (fst a ++ [x], snd a), false))
    (fun _ a => (tt, (fst a, S (snd a)))).

Section Drivers.
  Context {A B : Type}.

  (** transduce (as repaired, fixes/C07-transduce-empty.patch):
      (loop [result init coll (seq coll)]
        (cond (reduced? result) (xf @result)
              (seq coll) (recur (xf result (first coll)) (rest coll))
              :else (xf result)))
      Returns the result and the number of elements taken from [coll]. *)
  Definition transduce {Acc} (x : xform A B) (f : rf Acc B) (init : Acc) (l : list A) : Acc * nat :=
    let r := x Acc f in
    let '(s, a, _, n) := run r (rs0 r) init l in
    (snd (rdone r s a), n).

  (** into: [(persistent! (transduce xform conj! (transient to) from))] with [to] = [[]] *)
  Definition into (x : xform A B) (l : list A) : (list B * nat) * nat :=
    transduce x (conj_rf B) ([], 0) l.

  (** sequence (as repaired, fixes/C07-sequence-completion.patch):
      (lazy-seq (if (seq coll)
                  (let [elem (xf (xf) (first coll))]      ; a fresh queue per input
                    (if (reduced? elem) (seq (xf @elem))
                        (concat elem (create-sequence (rest coll)))))
                  (seq (xf (xf)))))
      fully realised: elements, completion calls, inputs taken. *)
  Fixpoint sequence_go (r : rf (list B * nat) A) (s : rS r) (l : list A) : list B * nat * nat :=
    match l with
    | [] => let '(_, qc) := rdone r s ([], 0) in (fst qc, snd qc, 0)
    | x :: t =>
        let '(s', qc, h) := rstep r s ([], 0) x in
        if h then let '(_, qc') := rdone r s' qc in (fst qc', snd qc', 1)
        else let '(q2, c2, n) := sequence_go r s' t in (fst qc ++ q2, snd qc + c2, S n)
    end.
  Definition sequence (x : xform A B) (l : list A) : list B * nat * nat :=
    let r := x _ (conj_rf B) in sequence_go r (rs0 r) l.

  (** eduction (as repaired, fixes/C07-eduction-completion.patch): EductionSeq.__next__ is
      called until StopIteration.  The deque [buf] is represented by the log of everything
      appended so far plus the number of elements already popped ([cur]); [(python/bool buf)]
      is [cur < length log].  One unfolding of the recursion below is one trip round the
      [loop] of [__next__]; a yield ends one call and the next call resumes with [coll] = r. *)
  Fixpoint eduction_go (r : rf (list B * nat) A) (s : rS r) (log : list B * nat) (cur : nat)
           (l : list A) : list B * nat * nat :=
    match l with
    | [] => (* exhausted: (set! done true) (xf nil), then the deque is drained *)
        let '(_, log') := rdone r s log in (skipn cur (fst log'), snd log', 0)
    | x :: t =>
        let '(s', log', h) := rstep r s log x in
        if h then let '(_, log'') := rdone r s' log' in (skipn cur (fst log''), snd log'', 1)
        else if Nat.ltb cur (length (fst log')) then
          let '(o, c, n) := eduction_go r s' log' (S cur) t in
          (firstn 1 (skipn cur (fst log')) ++ o, c, S n)
        else let '(o, c, n) := eduction_go r s' log' cur t in (o, c, S n)
    end.
  Definition eduction (x : xform A B) (l : list A) : list B * nat * nat :=
    let r := x _ (conj_rf B) in eduction_go r (rs0 r) ([], 0) 0 l.
End Drivers.

(** Infinite inputs: a stream [src : nat -> A]; [fuel] bounds how many elements may be
    pulled.  [None] = the pipeline did not terminate within [fuel] pulls. *)
Definition prefix {A} (src : nat -> A) (k : nat) : list A := map src (seq 0 k).
Definition transduce_stream {A B Acc} (x : xform A B) (f : rf Acc B) (init : Acc)
           (src : nat -> A) (fuel : nat) : option (Acc * nat) :=
  let r := x Acc f in
  let '(s, a, h, n) := run r (rs0 r) init (prefix src fuel) in
  if h then Some (snd (rdone r s a), n) else None.

(* ------------------------------------------------------------------------------------ *)
(** * The lazy-seq arities *)

Section Lazy.
  Context {A B : Type}.

  (** (lazy-seq (when-let [coll (seq coll)] (cons (f (first coll)) (map f (rest coll))))) *)
  Fixpoint lazy_map (f : A -> B) (l : list A) : list B :=
    match l with [] => [] | x :: t => f x :: lazy_map f t end.

  Fixpoint lazy_filter (p : A -> bool) (l : list A) : list A :=
    match l with [] => [] | x :: t => if p x then x :: lazy_filter p t else lazy_filter p t end.
  Definition lazy_remove (p : A -> bool) := lazy_filter (fun x => negb (p x)).

  Fixpoint lazy_keep (f : A -> option B) (l : list A) : list B :=
    match l with
    | [] => []
    | x :: t => match f x with None => lazy_keep f t | Some v => v :: lazy_keep f t end
    end.

  (** map-indexed = (map f (range) coll); keep-indexed walks (range) beside coll *)
  Fixpoint lazy_map_indexed_from (i : Z) (f : Z -> A -> B) (l : list A) : list B :=
    match l with [] => [] | x :: t => f i x :: lazy_map_indexed_from (i + 1)%Z f t end.
  Definition lazy_map_indexed := lazy_map_indexed_from 0%Z.
  Fixpoint lazy_keep_indexed_from (i : Z) (f : Z -> A -> option B) (l : list A) : list B :=
    match l with
    | [] => []
    | x :: t => match f i x with
                | None => lazy_keep_indexed_from (i + 1)%Z f t
                | Some v => v :: lazy_keep_indexed_from (i + 1)%Z f t
                end
    end.
  Definition lazy_keep_indexed := lazy_keep_indexed_from 0%Z.

  (** (when (> n 0) (when-let [coll (seq coll)] (cons (first coll) (take (dec n) (rest coll))))) *)
  Fixpoint lazy_take (n : Z) (l : list A) : list A :=
    if (0 <? n)%Z then match l with [] => [] | x :: t => x :: lazy_take (n - 1)%Z t end else [].

  Fixpoint lazy_take_while (p : A -> bool) (l : list A) : list A :=
    match l with [] => [] | x :: t => if p x then x :: lazy_take_while p t else [] end.

  (** (when-let [coll (seq coll)] (if (> n 0) (drop (dec n) (rest coll)) (seq coll))) *)
  Fixpoint lazy_drop (n : Z) (l : list A) : list A :=
    match l with [] => [] | x :: t => if (0 <? n)%Z then lazy_drop (n - 1)%Z t else l end.

  Fixpoint lazy_drop_while (p : A -> bool) (l : list A) : list A :=
    match l with [] => [] | x :: t => if p x then lazy_drop_while p t else l end.

  (** (when-let [coll (seq coll)] (if (seq (rest coll)) (cons (first coll) (cons sep (interpose sep (rest coll))))
                                       (cons (first coll) nil))) *)
  Fixpoint lazy_interpose (sep : A) (l : list A) : list A :=
    match l with
    | [] => []
    | x :: t => match t with [] => [x] | _ :: _ => x :: sep :: lazy_interpose sep t end
    end.

  (** (cons (first coll) (take-nth n (drop (dec n) (rest coll)))) for n > 0; the recursion is
      on a shorter list, bounded by [fuel]. *)
  Fixpoint lazy_take_nth_fuel (fuel : nat) (n : Z) (l : list A) : list A :=
    match fuel with
    | O => []
    | S k => match l with
             | [] => []
             | x :: t => x :: lazy_take_nth_fuel k n (lazy_drop (n - 1)%Z t)
             end
    end.
  Definition lazy_take_nth (n : Z) (l : list A) := lazy_take_nth_fuel (length l) n l.

  (** (partition-all n coll) = (partition-all n n coll):
      (when-let [coll (seq coll)] (cons (take n coll) (partition-all n step (drop step coll)))) *)
  Fixpoint lazy_partition_all_fuel (fuel : nat) (n : Z) (l : list A) : list (list A) :=
    match fuel with
    | O => []
    | S k => match l with
             | [] => []
             | _ :: _ => lazy_take n l :: lazy_partition_all_fuel k n (lazy_drop n l)
             end
    end.
  Definition lazy_partition_all (n : Z) (l : list A) := lazy_partition_all_fuel (length l) n l.
End Lazy.

(** (apply concat (map f coll)) *)
Definition lazy_mapcat {A B} (f : A -> list B) (l : list A) : list B := concat (lazy_map f l).

Section LazyEq.
  Context {A K : Type}.
  Variable eqb : K -> K -> bool.

  (** (let [elem (first coll) felem (f elem)
            run (cons elem (take-while #(= felem (f %)) (next coll)))]
        (cons run (partition-by f (seq (drop (count run) coll))))) *)
  Fixpoint lazy_partition_by_fuel (fuel : nat) (f : A -> K) (l : list A) : list (list A) :=
    match fuel with
    | O => []
    | S k => match l with
             | [] => []
             | x :: t =>
                 let run := x :: lazy_take_while (fun y => eqb (f x) (f y)) t in
                 run :: lazy_partition_by_fuel k f (lazy_drop (Z.of_nat (length run)) l)
             end
    end.
  Definition lazy_partition_by (f : A -> K) (l : list A) := lazy_partition_by_fuel (length l) f l.
End LazyEq.

Section LazyEq2.
  Context {A : Type}.

  (** coll-distinct with the set [found] *)
  Fixpoint lazy_distinct_go (hmem : A -> list A -> bool) (found : list A) (l : list A) : list A :=
    match l with
    | [] => []
    | e :: t => if negb (hmem e found) then e :: lazy_distinct_go hmem (e :: found) t
                else lazy_distinct_go hmem found t
    end.
  Definition lazy_distinct (hmem : A -> list A -> bool) := lazy_distinct_go hmem [].

  (** dedupe (as repaired, fixes/C07-dedupe-falsey-head.patch):
      (when-let [coll (seq coll)] (let [e (first coll)] (cons e (coll-dedupe (rest coll) e)))) *)
  Fixpoint lazy_dedupe_go (eqb : A -> A -> bool) (prev : A) (l : list A) : list A :=
    match l with
    | [] => []
    | e :: t => if negb (eqb e prev) then e :: lazy_dedupe_go eqb e t else lazy_dedupe_go eqb prev t
    end.
  Definition lazy_dedupe (eqb : A -> A -> bool) (l : list A) : list A :=
    match l with [] => [] | e :: t => e :: lazy_dedupe_go eqb e t end.

  (** iterate (as repaired, fixes/C07-iterate-falsey.patch): (lazy-seq (cons x (iterate f (f x))));
      [iterate_take n f x] is [(take n (iterate f x))]. *)
  Fixpoint iterate_take (n : nat) (f : A -> A) (x : A) : list A :=
    match n with O => [] | S k => x :: iterate_take k f (f x) end.
End LazyEq2.
