(** C07 correspondence interface: concrete values, pipeline syntax, the model of each
    application form on them, and the property's prescription.  Does not import proofs. *)
From Coq Require Import List Bool ZArith NArith Lia.
Import ListNotations.
From Verif Require Export Common.ListX C07.Model C07.Spec.

(** basilisp values that occur in the cases: nil, booleans, integers, keywords (numbered:
    0 :a, 1 :b, 2 :basilisp.core.dedupe/default, 3 :basilisp.core.partition-by/default, 4 :s),
    and sequential collections (vectors and seqs are not distinguished). *)
Inductive val := VNil | VBool (b : bool) | VInt (z : Z) | VKw (k : N) | VVec (l : list val).

(** structural identity of values: what the property means by "the same elements" *)
Fixpoint val_eqb (x y : val) {struct x} : bool :=
  match x, y with
  | VNil, VNil => true
  | VBool a, VBool b => Bool.eqb a b
  | VInt a, VInt b => Z.eqb a b
  | VKw a, VKw b => N.eqb a b
  | VVec a, VVec b =>
      (fix go (l1 l2 : list val) {struct l1} : bool :=
         match l1, l2 with
         | [], [] => true
         | u :: t1, v :: t2 => val_eqb u v && go t1 t2
         | _, _ => false
         end) a b
  | _, _ => false
  end.

(** Python [==] (what persistent sets and pvector/seq equality use): False == 0, True == 1 *)
Definition b2z (b : bool) : Z := if b then 1%Z else 0%Z.
Fixpoint heqb (x y : val) {struct x} : bool :=
  match x, y with
  | VNil, VNil => true
  | VBool a, VBool b => Bool.eqb a b
  | VInt a, VInt b => Z.eqb a b
  | VBool a, VInt b => Z.eqb (b2z a) b
  | VInt a, VBool b => Z.eqb a (b2z b)
  | VKw a, VKw b => N.eqb a b
  | VVec a, VVec b =>
      (fix go (l1 l2 : list val) {struct l1} : bool :=
         match l1, l2 with
         | [], [] => true
         | u :: t1, v :: t2 => heqb u v && go t1 t2
         | _, _ => false
         end) a b
  | _, _ => false
  end.

(** basilisp.core/= as implemented: booleans are kept apart from numbers at the top level,
    collections are compared element-wise with Python [==] *)
Definition meqb (x y : val) : bool :=
  match x, y with
  | VVec _, VVec _ => heqb x y
  | _, _ => val_eqb x y
  end.

Definition truthy (v : val) : bool :=
  match v with VNil => false | VBool false => false | _ => true end.
Definition elems_of (v : val) : list val := match v with VVec l => l | _ => [] end.
Definition is_seq (v : val) : bool := match v with VVec _ => true | _ => false end.
Definition count_of (v : val) : val := VInt (Z.of_nat (length (elems_of v))).

(** the parameter functions (the harness holds the same table as Lisp source) *)
Definition fn1 (f : N) (x : val) : val :=
  match f with
  | 0 => x                                                   (* identity *)
  | 1 => VBool (match x with VNil => true | _ => false end)  (* nil? *)
  | 2 => VVec [x]                                            (* (fn [x] [x]) *)
  | 3 => match x with VInt z => VInt (z + 1) | _ => x end    (* (fn [x] (if (int? x) (inc x) x)) *)
  | 4 => VNil                                                (* (constantly nil) *)
  | 5 => if is_seq x then count_of x else x                  (* (fn [x] (if (sequential? x) (count x) x)) *)
  | 6 => VBool (truthy x)                                    (* boolean *)
  | 7 => VBool (match x with VNil => false | _ => true end)  (* some? *)
  | 8 => VBool (match x with VInt _ => true | _ => false end) (* int? *)
  | 9 => VBool (meqb x (VInt 1))                             (* (fn [x] (= x 1)) *)
  | 10 => VBool (negb (meqb x (VInt 0)))                     (* (fn [x] (not= x 0)) *)
  | 11 => VBool (match x with VKw _ => true | _ => false end) (* keyword? *)
  | 12 => if is_seq x then VBool (meqb (count_of x) (VInt 2)) else VBool true
                                                             (* (fn [x] (if (sequential? x) (= 2 (count x)) true)) *)
  | 13 => VBool (negb (meqb x (VVec [VInt 2])))              (* (fn [x] (not= x [2])) *)
  | _ => match x with VBool false => VNil | VNil => VBool false | _ => x end
                                                             (* (fn [x] (cond (false? x) nil (nil? x) false :else x)) *)
  end%N.
Definition pred1 (f : N) (x : val) : bool := truthy (fn1 f x).
Definition opt_of (v : val) : option val := match v with VNil => None | _ => Some v end.

Definition fn2 (f : N) (i : Z) (x : val) : val :=
  match f with
  | 0 => VVec [VInt i; x]                                    (* vector *)
  | 1 => if Z.even i then x else VInt i                      (* (fn [i x] (if (even? i) x i)) *)
  | 2 => if Z.even i then x else VNil                        (* (fn [i x] (when (even? i) x)) *)
  | 3 => if truthy x then VInt i else VNil                   (* (fn [i x] (when x i)) *)
  | _ => VInt i                                              (* (fn [i x] i) *)
  end%N.

Definition fnl (f : N) (x : val) : list val :=
  match f with
  | 0 => [x; x]                                              (* (fn [x] [x x]) *)
  | 1 => match x with VNil => [] | _ => [x] end              (* (fn [x] (if (nil? x) nil [x])) *)
  | 2 => if is_seq x then elems_of x else [x]                (* (fn [x] (if (sequential? x) x [x])) *)
  | _ => []                                                  (* (fn [x] []) *)
  end%N.

Definition kw_dedupe_sentinel : val := VKw 2.
Definition kw_partition_by_sentinel : val := VKw 3.

Inductive stage :=
| SMap (f : N) | SMapIdx (f : N) | SFilter (f : N) | SRemove (f : N) | SKeep (f : N) | SKeepIdx (f : N)
| STake (n : N) | STakeWhile (f : N) | STakeNth (n : N) | SDrop (n : N) | SDropWhile (f : N)
| SInterpose (sep : val) | SPartAll (n : N) | SPartBy (f : N) | SDistinct | SDedupe
| SMapcat (f : N) | SCat.

Definition hmem (x : val) (seen : list val) : bool := existsb (heqb x) seen.

(** the transducer of a stage, at type val -> val (collections re-tagged with [VVec]) *)
Definition xf_of_stage (s : stage) : xform val val :=
  match s with
  | SMap f => map_xf (fn1 f)
  | SMapIdx f => map_indexed_xf (fn2 f)
  | SFilter f => filter_xf (pred1 f)
  | SRemove f => remove_xf (pred1 f)
  | SKeep f => keep_xf (fun x => opt_of (fn1 f x))
  | SKeepIdx f => keep_indexed_xf (fun i x => opt_of (fn2 f i x))
  | STake n => take_xf (Z.of_N n)
  | STakeWhile f => take_while_xf (pred1 f)
  | STakeNth n => take_nth_xf (Z.of_N n)
  | SDrop n => drop_xf (Z.of_N n)
  | SDropWhile f => drop_while_xf (pred1 f)
  | SInterpose sep => interpose_xf sep
  | SPartAll n => comp (partition_all_xf (Z.of_N n)) (map_xf VVec)
  | SPartBy f => comp (partition_by_xf meqb (fn1 f) kw_partition_by_sentinel) (map_xf VVec)
  | SDistinct => distinct_xf hmem
  | SDedupe => dedupe_xf meqb kw_dedupe_sentinel
  | SMapcat f => mapcat_xf (fnl f)
  | SCat => comp (map_xf elems_of) cat_xf
  end.

Definition id_xf {A} : xform A A := fun Acc r => r.
Fixpoint xf_pipe (p : list stage) : xform val val :=
  match p with [] => id_xf | s :: t => comp (xf_of_stage s) (xf_pipe t) end.

(** the lazy-seq arity of a stage *)
Definition lazy_of_stage (s : stage) (l : list val) : list val :=
  match s with
  | SMap f => lazy_map (fn1 f) l
  | SMapIdx f => lazy_map_indexed (fn2 f) l
  | SFilter f => lazy_filter (pred1 f) l
  | SRemove f => lazy_remove (pred1 f) l
  | SKeep f => lazy_keep (fun x => opt_of (fn1 f x)) l
  | SKeepIdx f => lazy_keep_indexed (fun i x => opt_of (fn2 f i x)) l
  | STake n => lazy_take (Z.of_N n) l
  | STakeWhile f => lazy_take_while (pred1 f) l
  | STakeNth n => lazy_take_nth (Z.of_N n) l
  | SDrop n => lazy_drop (Z.of_N n) l
  | SDropWhile f => lazy_drop_while (pred1 f) l
  | SInterpose sep => lazy_interpose sep l
  | SPartAll n => map VVec (lazy_partition_all (Z.of_N n) l)
  | SPartBy f => map VVec (lazy_partition_by meqb (fn1 f) l)
  | SDistinct => lazy_distinct hmem l
  | SDedupe => lazy_dedupe meqb l
  | SMapcat f => lazy_mapcat (fnl f) l
  | SCat => concat (map elems_of l)       (* (apply concat coll) *)
  end.
Fixpoint lazy_pipe (p : list stage) (l : list val) : list val :=
  match p with [] => l | s :: t => lazy_pipe t (lazy_of_stage s l) end.

(** the reference triple of a stage: everything by structural identity [val_eqb] *)
Definition sem_of_stage (s : stage) : sem val val :=
  match s with
  | SMap f => sem_map (fn1 f)
  | SMapIdx f => sem_map_indexed (fun i => fn2 f (Z.of_nat i))
  | SFilter f => sem_filter (pred1 f)
  | SRemove f => sem_remove (pred1 f)
  | SKeep f => sem_keep (fun x => opt_of (fn1 f x))
  | SKeepIdx f => sem_keep_indexed (fun i x => opt_of (fn2 f (Z.of_nat i) x))
  | STake n => sem_take (N.to_nat n)
  | STakeWhile f => sem_take_while (pred1 f)
  | STakeNth n => sem_take_nth (N.to_nat n)
  | SDrop n => sem_drop (N.to_nat n)
  | SDropWhile f => sem_drop_while (pred1 f)
  | SInterpose sep => sem_interpose sep
  | SPartAll n => sem_comp (sem_partition_all (N.to_nat n)) (sem_map VVec)
  | SPartBy f => sem_comp (sem_partition_by val_eqb (fn1 f)) (sem_map VVec)
  | SDistinct => sem_distinct val_eqb
  | SDedupe => sem_dedupe val_eqb
  | SMapcat f => sem_mapcat (fnl f)
  | SCat => sem_comp (sem_map elems_of) sem_cat
  end.
Fixpoint sem_pipe (p : list stage) : sem val val :=
  match p with [] => sem_simple (fun l => l) | s :: t => sem_comp (sem_of_stage s) (sem_pipe t) end.

(* ------------------------------------------------------------------------------------ *)

Inductive form := FLazy | FInto | FSequence | FTransduce | FEduction.

Inductive case :=
| CPipe (pipe : list stage) (input : list val) (limit : bool)
    (* the pipeline applied through all five forms to [input].
       limit = true: the input is an unbounded source whose first elements are [input];
       pulling beyond them raises the harness's limit exception *)
| CIterate (n : N) (table : list (val * val)) (dflt x : val).
    (* (take n (iterate f x)) where f is the finite map [table] with default [dflt] *)

Inductive res :=
| ROk (elems : list val) (pulls : N) (completions : N)   (* pulls/completions are 0 for the lazy form *)
| RErr (cls : N).     (* 1 pull limit exceeded, 2 any other exception, 3 timeout/hang *)

Inductive out :=
| OPipe (lazy into_ sequence_ transduce_ eduction_ : res)
| OOne (r : res).

Definition res_eqb (a b : res) : bool :=
  match a, b with
  | ROk e1 p1 c1, ROk e2 p2 c2 => list_eqb val_eqb e1 e2 && N.eqb p1 p2 && N.eqb c1 c2
  | RErr a, RErr b => N.eqb a b
  | _, _ => false
  end.
Definition out_eqb (a b : out) : bool :=
  match a, b with
  | OPipe a1 a2 a3 a4 a5, OPipe b1 b2 b3 b4 b5 =>
      res_eqb a1 b1 && res_eqb a2 b2 && res_eqb a3 b3 && res_eqb a4 b4 && res_eqb a5 b5
  | OOne a, OOne b => res_eqb a b
  | _, _ => false
  end.

Fixpoint lookup (t : list (val * val)) (d x : val) : val :=
  match t with [] => d | (k, v) :: r => if val_eqb k x then v else lookup r d x end.

Definition model_form (fm : form) (pipe : list stage) (input : list val) (limit : bool) : res :=
  let x := xf_pipe pipe in
  (* an unbounded source is pulled again unless the transducing process has stopped; the
     lazy form is taken to stop consuming exactly when the transducer pipeline stops *)
  let stops := snd (feed (x _ (conj_rf val)) (rs0 (x _ (conj_rf val))) ([], 0) input) in
  if limit && negb stops then RErr 1
  else match fm with
       | FLazy => ROk (lazy_pipe pipe input) 0 0
       | FInto | FTransduce =>
           let '((q, c), n) := into x input in ROk q (N.of_nat n) (N.of_nat c)
       | FSequence => let '(q, c, n) := sequence x input in ROk q (N.of_nat n) (N.of_nat c)
       | FEduction => let '(q, c, n) := eduction x input in ROk q (N.of_nat n) (N.of_nat c)
       end.

Definition model (c : case) : out :=
  match c with
  | CPipe pipe input limit =>
      OPipe (model_form FLazy pipe input limit) (model_form FInto pipe input limit)
            (model_form FSequence pipe input limit) (model_form FTransduce pipe input limit)
            (model_form FEduction pipe input limit)
  | CIterate n table dflt x => OOne (ROk (iterate_take (N.to_nat n) (lookup table dflt) x) 0 0)
  end.

Definition spec_form (fm : form) (pipe : list stage) (input : list val) (limit : bool) (o : res) : bool :=
  let m := sem_pipe pipe in
  if limit && negb (sD m input) then res_eqb o (RErr 1)
  else match o with
       | ROk e p k =>
           list_eqb val_eqb e (sF m input) &&
           match fm with
           | FLazy => true
           | _ => N.eqb p (N.of_nat (need (sD m) input)) && N.eqb k 1
           end
       | RErr _ => false
       end.

Definition spec_ok (c : case) (o : out) : bool :=
  match c, o with
  | CPipe pipe input limit, OPipe r1 r2 r3 r4 r5 =>
      spec_form FLazy pipe input limit r1 && spec_form FInto pipe input limit r2 &&
      spec_form FSequence pipe input limit r3 && spec_form FTransduce pipe input limit r4 &&
      spec_form FEduction pipe input limit r5
  | CIterate n table dflt x, OOne r =>
      res_eqb r (ROk (ref_iterate (N.to_nat n) (lookup table dflt) x) 0 0)
  | _, _ => false
  end.
