(** C07 proofs, part 4: the application forms.  Each of transduce / into / sequence /
    eduction, applied to a transducer that denotes [m], yields [sF m l], takes exactly
    [need (sD m) l] elements from the input and calls the completion arity once. *)
From Coq Require Import List Bool Arith ZArith Lia.
Import ListNotations.
From Verif Require Import C07.Model C07.Spec C07.Mach.

Lemma conj_feed {B} (L : list B) : forall s q c,
  feed (conj_rf B) s (q, c) L = (tt, (q ++ L, c), false).
Proof.
  induction L as [|x t IH]; intros [] q c; simpl.
  - rewrite app_nil_r. reflexivity.
  - rewrite IH, <- app_assoc. reflexivity.
Qed.

Lemma conj_exec {B} (L : list B) : exec_acc (conj_rf B) ([], 0) L = (L, 1).
Proof. unfold exec_acc, execF. simpl rs0. rewrite conj_feed. reflexivity. Qed.

Lemma conj_halted {B} (L : list B) a : halted (conj_rf B) a L = false.
Proof. unfold halted, haltF. destruct a as [q c]. simpl rs0. rewrite conj_feed. reflexivity. Qed.

Lemma firstn_length_all {A} (l : list A) : firstn (length l) l = l.
Proof. apply firstn_all. Qed.

Section Transduce.
  Context {A B : Type} (G : list A -> Prop) (x : xform A B) (m : sem A B).
  Hypothesis Hx : denotes_on G x m.

  (** with any downstream reducing function *)
  Theorem transduce_general {Acc} (f : rf Acc B) (init : Acc) (l : list A) :
    (forall k, G (firstn k l)) ->
    transduce x f init l =
      (exec_acc f init (sF m l), need (fun p => sD m p || halted f init (sE m p)) l).
  Proof.
    intro HG. destruct Hx as (E & H & _). unfold transduce.
    pose proof (run_feed (x Acc f) l (rs0 (x Acc f)) init) as RF.
    pose proof (consumed_need (x Acc f) init l) as CN. unfold consumed in CN.
    destruct (run (x Acc f) (rs0 (x Acc f)) init l) as [[[s a] h] n] eqn:Hr. simpl in RF, CN.
    f_equal.
    - specialize (E Acc f init l). unfold exec_acc at 1, execF in E. rewrite <- RF in E.
      rewrite E; [reflexivity|]. specialize (HG (length l)). rewrite firstn_all in HG. exact HG.
    - rewrite CN. apply need_ext. intro k. apply H. apply HG.
  Qed.

  Theorem transduce_conj (l : list A) : (forall k, G (firstn k l)) ->
    transduce x (conj_rf B) ([], 0) l = ((sF m l, 1), need (sD m) l).
  Proof.
    intro HG. rewrite transduce_general by exact HG. rewrite conj_exec. f_equal.
    apply need_ext. intro k. rewrite conj_halted. apply orb_false_r.
  Qed.

  Theorem into_correct (l : list A) : (forall k, G (firstn k l)) ->
    into x l = ((sF m l, 1), need (sD m) l).
  Proof. apply transduce_conj. Qed.
End Transduce.

(* ------------------------------------------------------------------------------------ *)

Lemma appending_run {C E} (r : rf (list C * nat) E) : appending r ->
  forall l s q c, run r s (q, c) l =
     let '(s', qc, h, n) := run r s ([], 0) l in (s', (q ++ fst qc, c + snd qc), h, n).
Proof.
  intros [H1 H2] l. induction l as [|x t IH]; intros s q c; simpl.
  - rewrite app_nil_r, Nat.add_0_r. reflexivity.
  - rewrite H1. destruct (rstep r s ([], 0) x) as [[s1 [q1 c1]] h]. simpl.
    destruct h; [reflexivity|]. rewrite IH. rewrite (IH s1 q1 c1).
    destruct (run r s1 ([], 0) t) as [[[s2 [q2 c2]] h2] n]. simpl.
    rewrite app_assoc, Nat.add_assoc. reflexivity.
Qed.

Lemma appending_execF {C E} (r : rf (list C * nat) E) : appending r ->
  forall l s q c, execF r s (q, c) l =
     (q ++ fst (execF r s ([], 0) l), c + snd (execF r s ([], 0) l)).
Proof.
  intros Hr l s q c. pose proof (appending_feed r Hr l s q c) as Hf. destruct Hr as [_ H2].
  unfold execF. rewrite Hf. destruct (feed r s ([], 0) l) as [[s1 [q1 c1]] h]. simpl.
  rewrite H2. destruct (rdone r s1 ([], 0)) as [s2 [q2 c2]] eqn:Hd. simpl.
  rewrite (H2 s1 q1 c1), Hd. simpl. rewrite app_assoc, Nat.add_assoc. reflexivity.
Qed.

Section Sequence.
  Context {A B : Type}.

  Lemma sequence_go_spec (r : rf (list B * nat) A) : appending r -> forall l s,
    sequence_go r s l =
      (fst (execF r s ([], 0) l), snd (execF r s ([], 0) l), snd (run r s ([], 0) l)).
  Proof.
    intros Hr. induction l as [|x t IH]; intro s.
    - unfold execF. simpl. destruct (rdone r s ([], 0)) as [s' qc]. reflexivity.
    - unfold execF. simpl. destruct (rstep r s ([], 0) x) as [[s1 [q1 c1]] h] eqn:Hs. destruct h.
      + simpl. destruct (rdone r s1 (q1, c1)) as [s' qc]. reflexivity.
      + rewrite IH. pose proof (appending_execF r Hr t s1 q1 c1) as HE. unfold execF in HE.
        rewrite (appending_run r Hr t s1 q1 c1).
        destruct (run r s1 ([], 0) t) as [[[s2 [q2 c2]] h2] n]. simpl.
        destruct (feed r s1 (q1, c1) t) as [[s3 a3] h3]. rewrite HE. reflexivity.
  Qed.

  Context (G : list A -> Prop) (x : xform A B) (m : sem A B).
  Hypothesis Hx : denotes_on G x m.

  Theorem sequence_correct (l : list A) : (forall k, G (firstn k l)) ->
    sequence x l = (sF m l, 1, need (sD m) l).
  Proof.
    intro HG. unfold sequence. pose proof Hx as (_ & _ & N).
    rewrite sequence_go_spec by (apply N, conj_appending).
    pose proof (transduce_conj G x m Hx l HG) as T. unfold transduce in T.
    pose proof (run_feed (x _ (conj_rf B)) l (rs0 (x _ (conj_rf B))) ([], 0)) as RF.
    unfold execF.
    destruct (run (x _ (conj_rf B)) (rs0 (x _ (conj_rf B))) ([], 0) l) as [[[s a] h] n].
    simpl in RF. rewrite <- RF. simpl. inversion T as [[T1 T2]]. rewrite T1. reflexivity.
  Qed.
End Sequence.

(* ------------------------------------------------------------------------------------ *)

Section Eduction.
  Context {A B : Type}.

  Lemma skipn_pop (L M : list B) : forall cur, cur < length L ->
    firstn 1 (skipn cur L) ++ skipn (S cur) (L ++ M) = skipn cur (L ++ M).
  Proof.
    induction L as [|a L' IH]; intros cur H; [simpl in H; lia|].
    destruct cur as [|c]; [reflexivity|]. simpl in H.
    change (firstn 1 (skipn c L') ++ skipn (S c) (L' ++ M) = skipn c (L' ++ M)).
    apply IH. lia.
  Qed.

  Lemma eduction_go_spec (r : rf (list B * nat) A) : appending r -> forall l s q c cur,
    cur <= length q ->
    eduction_go r s (q, c) cur l =
      (skipn cur (fst (execF r s (q, c) l)), snd (execF r s (q, c) l), snd (run r s (q, c) l)).
  Proof.
    intros Hr. pose proof Hr as [H1 H2].
    induction l as [|x t IH]; intros s q c cur Hc.
    - unfold execF. simpl. destruct (rdone r s (q, c)) as [s' qc]. reflexivity.
    - unfold execF. simpl. rewrite H1.
      destruct (rstep r s ([], 0) x) as [[s1 [q1 c1]] h] eqn:Hs. simpl. destruct h.
      + destruct (rdone r s1 (q ++ q1, c + c1)) as [s' qc]. reflexivity.
      + pose proof (appending_execF r Hr t s1 (q ++ q1) (c + c1)) as HE.
        destruct (Nat.ltb cur (length (q ++ q1))) eqn:E.
        * apply Nat.ltb_lt in E. rewrite IH by lia.
          destruct (run r s1 (q ++ q1, c + c1) t) as [[[s2 a2] h2] n]. cbn [fst snd].
          fold (execF r s1 (q ++ q1, c + c1) t). rewrite HE. cbn [fst snd].
          change (match skipn cur (q ++ q1) with [] => [] | a :: _ => [a] end) with (firstn 1 (skipn cur (q ++ q1))). rewrite skipn_pop by exact E. reflexivity.
        * apply Nat.ltb_ge in E. rewrite IH by (rewrite app_length in *; lia).
          destruct (run r s1 (q ++ q1, c + c1) t) as [[[s2 a2] h2] n]. cbn [fst snd].
          fold (execF r s1 (q ++ q1, c + c1) t). reflexivity.
  Qed.

  Context (G : list A -> Prop) (x : xform A B) (m : sem A B).
  Hypothesis Hx : denotes_on G x m.

  Theorem eduction_correct (l : list A) : (forall k, G (firstn k l)) ->
    eduction x l = (sF m l, 1, need (sD m) l).
  Proof.
    intro HG. unfold eduction. pose proof Hx as (_ & _ & N).
    rewrite eduction_go_spec by (try apply N, conj_appending; simpl; lia).
    pose proof (transduce_conj G x m Hx l HG) as T. unfold transduce in T.
    pose proof (run_feed (x _ (conj_rf B)) l (rs0 (x _ (conj_rf B))) ([], 0)) as RF.
    unfold execF.
    destruct (run (x _ (conj_rf B)) (rs0 (x _ (conj_rf B))) ([], 0) l) as [[[s a] h] n].
    simpl in RF. rewrite <- RF. simpl. inversion T as [[T1 T2]]. rewrite T1. reflexivity.
  Qed.
End Eduction.

(* ------------------------------------------------------------------------------------ *)
(** * Infinite inputs *)

Section Stream.
  Context {A B : Type} (x : xform A B) (m : sem A B).
  Hypothesis Hx : denotes x m.

  (** if the pipeline is finished on the first [fuel] elements of the stream, the process
      terminates, having pulled exactly the needed prefix *)
  Theorem transduce_stream_correct (src : nat -> A) (fuel : nat) :
    sD m (prefix src fuel) = true ->
    transduce_stream x (conj_rf B) ([], 0) src fuel =
      Some ((sF m (prefix src fuel), 1), need (sD m) (prefix src fuel)).
  Proof.
    intro HD. unfold transduce_stream.
    pose proof (transduce_conj _ x m Hx (prefix src fuel) (fun _ => I)) as T. unfold transduce in T.
    destruct Hx as (_ & H & _).
    specialize (H _ (conj_rf B) ([], 0) (prefix src fuel) I). rewrite HD in H. simpl in H.
    unfold halted, haltF in H.
    pose proof (run_feed (x _ (conj_rf B)) (prefix src fuel) (rs0 (x _ (conj_rf B))) ([], 0)) as RF.
    destruct (run (x _ (conj_rf B)) (rs0 (x _ (conj_rf B))) ([], 0) (prefix src fuel)) as [[[s a] h] n].
    simpl in RF. rewrite <- RF in H. simpl in H. subst h. rewrite T. reflexivity.
  Qed.

  Lemma run_halted_app {Acc E} (r : rf Acc E) l1 l2 : forall s a s' a' n,
    run r s a l1 = (s', a', true, n) -> run r s a (l1 ++ l2) = (s', a', true, n).
  Proof.
    induction l1 as [|y t IH]; intros s a s' a' n H; simpl in *; [congruence|].
    destruct (rstep r s a y) as [[s1 a1] h]. destruct h; [exact H|].
    destruct (run r s1 a1 t) as [[[s2 a2] h2] n2] eqn:Er. inversion H; subst.
    rewrite (IH _ _ _ _ _ Er). reflexivity.
  Qed.

  Lemma prefix_app (src : nat -> A) a b : prefix src (a + b) = prefix src a ++ map src (seq a b).
  Proof. unfold prefix. rewrite seq_app, map_app. reflexivity. Qed.

  (** more fuel does not change a terminated result (no downstream restriction) *)
  Theorem transduce_stream_mono {Acc} (f : rf Acc B) init (src : nat -> A) fuel fuel' v :
    fuel <= fuel' ->
    transduce_stream x f init src fuel = Some v -> transduce_stream x f init src fuel' = Some v.
  Proof.
    intros Hle. unfold transduce_stream.
    replace fuel' with (fuel + (fuel' - fuel)) by lia. rewrite prefix_app.
    destruct (run (x Acc f) (rs0 (x Acc f)) init (prefix src fuel)) as [[[s a] h] n] eqn:E.
    destruct h; [|discriminate]. intro Hv.
    rewrite (run_halted_app _ _ _ _ _ _ _ _ E). exact Hv.
  Qed.
End Stream.
