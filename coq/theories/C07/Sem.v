(** C07 proofs, part 2: the list semantics of each machine is the reference triple of
    Spec.v, hence (with part 1) every transducer arity denotes its reference function. *)
From Coq Require Import List Bool Arith ZArith Lia.
Import ListNotations.
From Verif Require Import C07.Model C07.Spec C07.Mach C07.Proofs.

Section Unfold.
  Context {A B : Type} (m : mach A B).
  Lemma mE_step ms x t :
    mE m ms (x :: t) = let '(o, d, ms') := mstep m ms x in if d then o else o ++ mE m ms' t.
  Proof.
    unfold mE. simpl. destruct (mstep m ms x) as [[o d] ms']. destruct d; [reflexivity|].
    destruct (mrun m ms' t) as [[o2 d2] ms2]. reflexivity.
  Qed.
  Lemma mD_step ms x t :
    mD m ms (x :: t) = let '(o, d, ms') := mstep m ms x in if d then true else mD m ms' t.
  Proof.
    unfold mD. simpl. destruct (mstep m ms x) as [[o d] ms']. destruct d; [reflexivity|].
    destruct (mrun m ms' t) as [[o2 d2] ms2]. reflexivity.
  Qed.
  Lemma mF_step ms x t :
    mF m ms (x :: t) =
      let '(o, d, ms') := mstep m ms x in if d then o ++ mflush m ms' else o ++ mF m ms' t.
  Proof.
    unfold mF, mE. simpl. destruct (mstep m ms x) as [[o d] ms']. destruct d; [reflexivity|].
    destruct (mrun m ms' t) as [[o2 d2] ms2]. simpl. rewrite app_assoc. reflexivity.
  Qed.
  Lemma mF_nil ms : mF m ms [] = mflush m ms. Proof. reflexivity. Qed.
  Lemma mE_nil ms : mE m ms [] = []. Proof. reflexivity. Qed.
  Lemma mD_nil ms : mD m ms [] = false. Proof. reflexivity. Qed.

  Lemma flush_nil_wf : (forall ms, mflush m ms = []) -> mach_wf m.
  Proof. intros H ms x _. apply H. Qed.
End Unfold.

(** a machine that never finishes and flushes nothing denotes [sem_simple f] as soon as
    what it emits is [f] *)
Lemma simple_denotes {A B} (G : list A -> Prop) (x : xform A B) (m : mach A B) (f : list A -> list B) :
  (forall Acc (r : rf Acc B), exists R, rf_sim (x Acc r) (lift m Acc r) R) ->
  (forall ms x, snd (fst (mstep m ms x)) = false) -> (forall ms, mflush m ms = []) ->
  (forall l, G l -> mE m (m0 m) l = f l) ->
  natural x -> denotes_on G x (sem_simple f).
Proof.
  intros S Hd Hf He N. apply (machine_denotes G x m); auto.
  - apply flush_nil_wf; exact Hf.
  - intros l g. destruct (mach_simple m Hd Hf l (m0 m)) as [E1 D1].
    simpl. rewrite <- E1, D1, (He l g). auto.
Qed.

(* ------------------------------------------------------------------------------------ *)
(** * stateless machines *)

Lemma m_each_E {A B} (g : A -> list B) l : forall ms, mE (m_each g) ms l = flat_map g l.
Proof.
  induction l as [|x t IH]; intro ms; [reflexivity|]. rewrite mE_step. simpl. rewrite IH. reflexivity.
Qed.

Lemma flat_map_map {A B} (f : A -> B) l : flat_map (fun x => [f x]) l = map f l.
Proof. induction l; simpl; congruence. Qed.
Lemma flat_map_filter {A} (p : A -> bool) l : flat_map (fun x => if p x then [x] else []) l = filter p l.
Proof. induction l as [|x t IH]; simpl; [reflexivity|]. destruct (p x); simpl; congruence. Qed.
Lemma flat_map_keep {A B} (f : A -> option B) l :
  flat_map (fun x => match f x with None => [] | Some v => [v] end) l = ref_keep f l.
Proof. induction l as [|x t IH]; simpl; [reflexivity|]. destruct (f x); simpl; congruence. Qed.
Lemma flat_map_id {A} (l : list (list A)) : flat_map (fun xs => xs) l = concat l.
Proof. induction l; simpl; congruence. Qed.

Section Stateless.
  Context {A B : Type}.

  Theorem map_denotes (f : A -> B) : denotes (map_xf f) (sem_map f).
  Proof.
    apply (simple_denotes _ _ (m_map f)); auto using map_natural.
    - intros; apply map_sim.
    - intros l _. unfold m_map. rewrite m_each_E. apply flat_map_map.
  Qed.

  Theorem keep_denotes (f : A -> option B) : denotes (keep_xf f) (sem_keep f).
  Proof.
    apply (simple_denotes _ _ (m_keep f)); auto using keep_natural.
    - intros; apply keep_sim.
    - intros l _. unfold m_keep. rewrite m_each_E. apply flat_map_keep.
  Qed.
End Stateless.

Section StatelessA.
  Context {A : Type}.

  Theorem filter_denotes (p : A -> bool) : denotes (filter_xf p) (sem_filter p).
  Proof.
    apply (simple_denotes _ _ (m_filter p)); auto using filter_natural.
    - intros; apply filter_sim.
    - intros l _. unfold m_filter. rewrite m_each_E. apply flat_map_filter.
  Qed.

  Theorem remove_denotes (p : A -> bool) : denotes (remove_xf p) (sem_remove p).
  Proof. apply filter_denotes. Qed.

  Theorem cat_denotes : denotes (@cat_xf A) sem_cat.
  Proof.
    apply (simple_denotes _ _ m_cat); auto using cat_natural.
    - intros; apply cat_sim.
    - intros l _. unfold m_cat. rewrite m_each_E. apply flat_map_id.
  Qed.
End StatelessA.

(* ------------------------------------------------------------------------------------ *)
(** * indexed machines *)

Section Indexed.
  Context {A B : Type}.

  Lemma m_map_indexed_E (f : Z -> A -> B) l : forall k,
    mE (m_map_indexed f) (Z.of_nat k - 1)%Z l =
      map (fun ix => f (Z.of_nat (fst ix)) (snd ix)) (combine (seq k (length l)) l).
  Proof.
    induction l as [|x t IH]; intro k; [reflexivity|].
    rewrite mE_step. simpl.
    replace (Z.of_nat k - 1 + 1)%Z with (Z.of_nat k) by lia. f_equal.
    rewrite <- IH. f_equal. lia.
  Qed.

  Theorem map_indexed_denotes (f : Z -> A -> B) :
    denotes (map_indexed_xf f) (sem_map_indexed (fun i => f (Z.of_nat i))).
  Proof.
    apply (simple_denotes _ _ (m_map_indexed f)); auto using map_indexed_natural.
    - intros; apply map_indexed_sim.
    - intros l _. apply (m_map_indexed_E f l 0).
  Qed.

  Lemma m_keep_indexed_E (f : Z -> A -> option B) l : forall k,
    mE (m_keep_indexed f) (Z.of_nat k - 1)%Z l =
      ref_keep (fun ix => f (Z.of_nat (fst ix)) (snd ix)) (combine (seq k (length l)) l).
  Proof.
    induction l as [|x t IH]; intro k; [reflexivity|].
    rewrite mE_step. simpl.
    replace (Z.of_nat k - 1 + 1)%Z with (Z.of_nat k) by lia.
    replace (Z.of_nat k) with (Z.of_nat (S k) - 1)%Z at 2 by lia. rewrite IH.
    destruct (f (Z.of_nat k) x); reflexivity.
  Qed.

  Theorem keep_indexed_denotes (f : Z -> A -> option B) :
    denotes (keep_indexed_xf f) (sem_keep_indexed (fun i => f (Z.of_nat i))).
  Proof.
    apply (simple_denotes _ _ (m_keep_indexed f)); auto using keep_indexed_natural.
    - intros; apply keep_indexed_sim.
    - intros l _. apply (m_keep_indexed_E f l 0).
  Qed.
End Indexed.

(* ------------------------------------------------------------------------------------ *)
(** * take, take-while *)

Section Take.
  Context {A : Type}.

  Lemma m_take_run (l : list A) : forall k, 1 <= k ->
    mE (m_take (Z.of_nat k)) (Z.of_nat k) l = firstn k l /\
    mD (m_take (Z.of_nat k)) (Z.of_nat k) l = Nat.leb k (length l).
  Proof.
    (* the machine's state parameter and its step function do not depend on the initial n *)
    assert (G : forall n (l : list A) k, 1 <= k ->
              mE (m_take n) (Z.of_nat k) l = firstn k l /\
              mD (m_take n) (Z.of_nat k) l = Nat.leb k (length l)).
    { intros n l0. induction l0 as [|x t IH]; intros k Hk.
      - destruct k; [lia|]. split; reflexivity.
      - rewrite mE_step, mD_step. simpl.
        destruct (0 <? Z.of_nat k)%Z eqn:E1; [|apply Z.ltb_ge in E1; lia].
        destruct (0 <? Z.of_nat k - 1)%Z eqn:E2; simpl.
        + apply Z.ltb_lt in E2. destruct k as [|k']; [lia|]. destruct k' as [|k'']; [lia|].
          replace (Z.of_nat (S (S k'')) - 1)%Z with (Z.of_nat (S k'')) by lia.
          destruct (IH (S k'')) as [IE ID]; [lia|]. rewrite IE, ID. split; reflexivity.
        + apply Z.ltb_ge in E2. assert (k = 1) by lia. subst k. split; reflexivity. }
    intros k Hk. apply G. exact Hk.
  Qed.

  Theorem take_denotes (n : nat) : denotes (@take_xf A (Z.of_nat n)) (sem_take n).
  Proof.
    apply (machine_denotes _ _ (m_take (Z.of_nat n))); auto using take_natural.
    - intros; apply take_sim.
    - apply flush_nil_wf; reflexivity.
    - intros l _. unfold mF. simpl mflush. rewrite app_nil_r. simpl m0.
      destruct n as [|n'].
      + (* (take 0): finished at the first input, emits nothing *)
        destruct l as [|x t]; [auto|]. rewrite mE_step, mD_step. simpl. auto.
      + destruct (m_take_run l (S n')) as [E D]; [lia|]. rewrite E, D.
        simpl. replace (Nat.max n' 0) with n' by lia. auto.
  Qed.

  Lemma m_take_while_run (p : A -> bool) l :
    mE (m_take_while p) tt l = ref_take_while p l /\
    mD (m_take_while p) tt l = existsb (fun x => negb (p x)) l.
  Proof.
    induction l as [|x t [IE ID]]; [split; reflexivity|].
    rewrite mE_step, mD_step. simpl. destruct (p x); simpl; [|split; reflexivity].
    rewrite IE, ID. split; reflexivity.
  Qed.

  Theorem take_while_denotes (p : A -> bool) : denotes (take_while_xf p) (sem_take_while p).
  Proof.
    apply (machine_denotes _ _ (m_take_while p)); auto using take_while_natural.
    - intros; apply take_while_sim.
    - apply flush_nil_wf; reflexivity.
    - intros l _. unfold mF. simpl mflush. rewrite app_nil_r.
      destruct (m_take_while_run p l) as [E D]. simpl m0. rewrite E, D. auto.
  Qed.
End Take.

(* ------------------------------------------------------------------------------------ *)
(** * drop, drop-while, take-nth, interpose *)

Section Drop.
  Context {A : Type}.

  Lemma m_drop_E n (l : list A) : forall z, mE (m_drop n) z l = skipn (Z.to_nat (z - 1)) l.
  Proof.
    induction l as [|x t IH]; intro z.
    - simpl. destruct (Z.to_nat (z - 1)); reflexivity.
    - rewrite mE_step. simpl. destruct (0 <? z - 1)%Z eqn:E.
      + apply Z.ltb_lt in E. rewrite IH. simpl.
        replace (Z.to_nat (z - 1)) with (S (Z.to_nat (z - 1 - 1))) by lia. reflexivity.
      + apply Z.ltb_ge in E. rewrite IH.
        replace (Z.to_nat (z - 1)) with 0 by lia. replace (Z.to_nat (z - 1 - 1)) with 0 by lia.
        reflexivity.
  Qed.

  Theorem drop_denotes (n : nat) : denotes (@drop_xf A (Z.of_nat n)) (sem_drop n).
  Proof.
    apply (simple_denotes _ _ (m_drop (Z.of_nat n))); auto using drop_natural.
    - intros; apply drop_sim.
    - intros l _. simpl m0. rewrite m_drop_E. unfold ref_drop. f_equal. lia.
  Qed.

  Lemma m_drop_while_E p (l : list A) :
    mE (m_drop_while p) true l = l /\ mE (m_drop_while p) false l = ref_drop_while p l.
  Proof.
    induction l as [|x t [IT IF]]; [split; reflexivity|].
    rewrite !mE_step. simpl. rewrite IT. split; [reflexivity|].
    destruct (p x); simpl; [exact IF|]. rewrite IT. reflexivity.
  Qed.

  Theorem drop_while_denotes (p : A -> bool) : denotes (drop_while_xf p) (sem_drop_while p).
  Proof.
    apply (simple_denotes _ _ (m_drop_while p)); auto using drop_while_natural.
    - intros; apply drop_while_sim.
    - intros ms x. simpl. destruct ms; [reflexivity|]. destruct (p x); reflexivity.
    - intros l _. apply m_drop_while_E.
  Qed.

  Lemma m_take_nth_E (n : nat) (l : list A) : n <> 0 -> forall k,
    mE (m_take_nth (Z.of_nat n)) (Z.of_nat k - 1)%Z l =
      map snd (filter (fun ix => Nat.eqb (fst ix mod n) 0) (combine (seq k (length l)) l)).
  Proof.
    intro Hn. induction l as [|x t IH]; intro k; [reflexivity|].
    rewrite mE_step. simpl.
    replace (Z.of_nat k - 1 + 1)%Z with (Z.of_nat k) by lia.
    replace (Z.of_nat k) with (Z.of_nat (S k) - 1)%Z at 2 by lia. rewrite IH.
    rewrite Z.rem_mod_nonneg by lia. rewrite <- Nat2Z.inj_mod.
    destruct (Nat.eqb (k mod n) 0) eqn:E.
    - apply Nat.eqb_eq in E. rewrite E. reflexivity.
    - apply Nat.eqb_neq in E. destruct (Z.of_nat (k mod n) =? 0)%Z eqn:E2; [|reflexivity].
      apply Z.eqb_eq in E2. lia.
  Qed.

  Theorem take_nth_denotes (n : nat) : 1 <= n -> denotes (@take_nth_xf A (Z.of_nat n)) (sem_take_nth n).
  Proof.
    intro Hn. apply (simple_denotes _ _ (m_take_nth (Z.of_nat n))); auto using take_nth_natural.
    - intros; apply take_nth_sim.
    - intros l _. apply (m_take_nth_E n l ltac:(lia) 0).
  Qed.

  Lemma m_interpose_E sep (l : list A) : forall z, (z <= 0)%Z ->
    mE (m_interpose sep) z l = flat_map (fun y => [sep; y]) l.
  Proof.
    induction l as [|x t IH]; intros z Hz; [reflexivity|].
    rewrite mE_step. simpl. destruct (z - 1 =? 0)%Z eqn:E; [apply Z.eqb_eq in E; lia|].
    rewrite IH by lia. reflexivity.
  Qed.

  Theorem interpose_denotes (sep : A) : denotes (interpose_xf sep) (sem_interpose sep).
  Proof.
    apply (simple_denotes _ _ (m_interpose sep)); auto using interpose_natural.
    - intros; apply interpose_sim.
    - intros l _. destruct l as [|x t]; [reflexivity|].
      rewrite mE_step. simpl. rewrite m_interpose_E by lia. reflexivity.
  Qed.
End Drop.
