(** C07 proofs, part 6: the concrete model of the correspondence (Corr.v) meets the
    property's prescription for every pipeline that does not compare elements (everything
    except distinct / dedupe / partition-by, see the guarded theorems for those), every
    input, every application form, bounded or unbounded source. *)
From Coq Require Import List Bool Arith ZArith NArith Lia.
Import ListNotations.
From Verif Require Import C07.Corr C07.Mach C07.Proofs C07.Sem C07.Sem2 C07.Drivers C07.Lazy C07.Refuted.

Definition stage_ok (s : stage) : bool :=
  match s with
  | STakeNth n | SPartAll n => N.leb 1 n
  | SPartBy _ | SDistinct | SDedupe => false
  | _ => true
  end.
Definition pipe_ok (p : list stage) : bool := forallb stage_ok p.

Lemma ZofN n : Z.of_N n = Z.of_nat (N.to_nat n).
Proof. rewrite N_nat_Z. reflexivity. Qed.

Lemma stage_denotes s : stage_ok s = true -> denotes (xf_of_stage s) (sem_of_stage s).
Proof.
  destruct s; simpl; intro H; try discriminate.
  - apply map_denotes.
  - apply map_indexed_denotes.
  - apply filter_denotes.
  - apply remove_denotes.
  - apply keep_denotes.
  - apply (keep_indexed_denotes (fun i x => opt_of (fn2 f i x))).
  - rewrite ZofN. apply take_denotes.
  - apply take_while_denotes.
  - rewrite ZofN. apply take_nth_denotes. apply N.leb_le in H. lia.
  - rewrite ZofN. apply drop_denotes.
  - apply drop_while_denotes.
  - apply interpose_denotes.
  - rewrite ZofN. apply comp_denotes; [|apply map_denotes].
    apply partition_all_denotes. apply N.leb_le in H. lia.
  - apply mapcat_denotes.
  - apply comp_denotes; [apply map_denotes|apply cat_denotes].
Qed.

Lemma id_denotes {A} : denotes (@id_xf A) (sem_simple (fun l => l)).
Proof.
  split; [|split].
  - intros; reflexivity.
  - intros; reflexivity.
  - intros C r Hr. exact Hr.
Qed.

Lemma pipe_denotes p : pipe_ok p = true -> denotes (xf_pipe p) (sem_pipe p).
Proof.
  induction p as [|s t IH]; simpl; intro H; [apply id_denotes|].
  apply andb_true_iff in H as [H1 H2]. apply comp_denotes; [apply stage_denotes; exact H1|apply IH; exact H2].
Qed.

Lemma lazy_stage s l : stage_ok s = true -> lazy_of_stage s l = sF (sem_of_stage s) l.
Proof.
  destruct s; simpl; intro H; try discriminate.
  - apply lazy_map_ref.
  - apply lazy_map_indexed_ref.
  - apply lazy_filter_ref.
  - apply lazy_remove_ref.
  - apply lazy_keep_ref.
  - apply (lazy_keep_indexed_ref (fun i x => opt_of (fn2 f i x))).
  - rewrite ZofN. apply lazy_take_ref.
  - apply lazy_take_while_ref.
  - rewrite ZofN. apply lazy_take_nth_ref. apply N.leb_le in H. lia.
  - rewrite ZofN. apply lazy_drop_ref.
  - apply lazy_drop_while_ref.
  - apply lazy_interpose_ref.
  - rewrite ZofN, lazy_partition_all_ref. reflexivity.
  - apply lazy_mapcat_ref.
  - reflexivity.
Qed.

Lemma lazy_pipe_ref p : forall l, pipe_ok p = true -> lazy_pipe p l = sF (sem_pipe p) l.
Proof.
  induction p as [|s t IH]; simpl; intros l H; [reflexivity|].
  apply andb_true_iff in H as [H1 H2]. rewrite lazy_stage by exact H1. apply IH. exact H2.
Qed.

Lemma list_val_eqb_refl (l : list val) : list_eqb val_eqb l l = true.
Proof. induction l as [|x t IH]; simpl; [reflexivity|]. rewrite val_eqb_refl, IH. reflexivity. Qed.

Theorem model_meets_spec fm pipe input limit : pipe_ok pipe = true ->
  spec_form fm pipe input limit (model_form fm pipe input limit) = true.
Proof.
  intro Hok. pose proof (pipe_denotes pipe Hok) as D.
  pose proof D as (_ & Hh & _).
  unfold spec_form, model_form.
  specialize (Hh _ (conj_rf val) ([], 0) input I). unfold halted, haltF in Hh.
  rewrite conj_feed in Hh. simpl in Hh. rewrite orb_false_r in Hh. rewrite Hh.
  destruct (limit && negb (sD (sem_pipe pipe) input)); [reflexivity|].
  assert (G : forall k : nat, (fun _ : list val => True) (firstn k input)) by (intros; exact I).
  destruct fm.
  - rewrite lazy_pipe_ref by exact Hok. rewrite list_val_eqb_refl. reflexivity.
  - rewrite (into_correct _ _ _ D input G). rewrite list_val_eqb_refl, N.eqb_refl. reflexivity.
  - rewrite (sequence_correct _ _ _ D input G). rewrite list_val_eqb_refl, N.eqb_refl. reflexivity.
  - rewrite (into_correct _ _ _ D input G). rewrite list_val_eqb_refl, N.eqb_refl. reflexivity.
  - rewrite (eduction_correct _ _ _ D input G). rewrite list_val_eqb_refl, N.eqb_refl. reflexivity.
Qed.

Theorem model_case_meets_spec pipe input limit : pipe_ok pipe = true ->
  spec_ok (CPipe pipe input limit) (model (CPipe pipe input limit)) = true.
Proof. intro H. simpl. rewrite !model_meets_spec by exact H. reflexivity. Qed.

Lemma list_res_refl r : res_eqb r r = true.
Proof.
  destruct r; simpl; [|apply N.eqb_refl]. rewrite list_val_eqb_refl, !N.eqb_refl. reflexivity.
Qed.

Theorem model_iterate_meets_spec n table dflt x :
  spec_ok (CIterate n table dflt x) (model (CIterate n table dflt x)) = true.
Proof. simpl. rewrite iterate_take_ref, list_val_eqb_refl. reflexivity. Qed.
