(** C07 proofs, part 1: every transducer arity is simulated by a list machine and is
    accumulator-natural. *)
From Coq Require Import List Bool Arith ZArith Lia.
Import ListNotations.
From Verif Require Import C07.Model C07.Spec C07.Mach.

Definition R_stateless {X : Type} (s1 : X) (s2 : unit * X) : Prop := s2 = (tt, s1).

Ltac dm :=
  match goal with
  | |- context [match ?e with _ => _ end] => destruct e eqn:?
  end.

Ltac dif :=
  match goal with
  | |- context [if ?e then _ else _] =>
      lazymatch e with
      | context [match _ with _ => _ end] => fail
      | _ => destruct e eqn:?
      end
  | |- context [match ?e with Some _ => _ | None => _ end] =>
      lazymatch e with
      | context [match _ with _ => _ end] => fail
      | _ => destruct e eqn:?
      end
  | |- context [match ?e with [] => _ | _ :: _ => _ end] => is_var e; destruct e
  end.

Ltac drs :=
  repeat match goal with
  | |- context [rstep ?r ?s ?a ?x] => destruct (rstep r s a x) as [[? ?] []] eqn:?; simpl
  | |- context [rdone ?r ?s ?a] => destruct (rdone r s a) as [? ?] eqn:?; simpl
  | |- context [feed ?r ?s ?a ?l] => is_var l; destruct (feed r s a l) as [[? ?] []] eqn:?; simpl
  end.

Ltac sim_body HR :=
  try subst;
  repeat match goal with s : (_ * _)%type |- _ => destruct s end;
  try (inversion HR; subst); simpl;
  repeat (first [dif; simpl | progress drs | dm; simpl; try subst]); simpl;
  unfold R_stateless in *; repeat split; auto; try congruence.

(** simulation proof: unfold both step functions and split on everything they test *)
Ltac sim_tac R :=
  exists R; split; [reflexivity|split];
  [ intros s1 s2 a x HR; sim_body HR | intros s1 s2 a HR; sim_body HR ].

(* ------------------------------------------------------------------------------------ *)
(** * Machines *)

Section Machines.
  Context {A B : Type}.

  (** stateless machines given by what each input emits *)
  Definition m_each (g : A -> list B) : mach A B :=
    mkMach tt (fun _ x => (g x, false, tt)) (fun s => s) (fun _ => []).

  Definition m_map (f : A -> B) := m_each (fun x => [f x]).
  Definition m_keep (f : A -> option B) := m_each (fun x => match f x with None => [] | Some v => [v] end).

  Definition m_map_indexed (f : Z -> A -> B) : mach A B :=
    mkMach (-1)%Z (fun i x => ([f (i + 1)%Z x], false, (i + 1)%Z)) (fun s => s) (fun _ => []).
  Definition m_keep_indexed (f : Z -> A -> option B) : mach A B :=
    mkMach (-1)%Z (fun i x => (match f (i + 1)%Z x with None => [] | Some v => [v] end, false, (i + 1)%Z))
           (fun s => s) (fun _ => []).
End Machines.

Section MachinesA.
  Context {A : Type}.
  Definition m_filter (p : A -> bool) : mach A A := m_each (fun x => if p x then [x] else []).
  Definition m_cat : mach (list A) A := m_each (fun xs => xs).

  Definition m_take (n : Z) : mach A A :=
    mkMach n (fun cur x => (if (0 <? cur)%Z then [x] else [], negb (0 <? cur - 1)%Z, (cur - 1)%Z))
           (fun s => s) (fun _ => []).
  Definition m_take_while (p : A -> bool) : mach A A :=
    mkMach tt (fun _ x => (if p x then [x] else [], negb (p x), tt)) (fun s => s) (fun _ => []).
  Definition m_drop (n : Z) : mach A A :=
    mkMach (n + 1)%Z (fun i x => (if (0 <? i - 1)%Z then [] else [x], false, (i - 1)%Z))
           (fun s => s) (fun _ => []).
  Definition m_drop_while (p : A -> bool) : mach A A :=
    mkMach false (fun v x => if v then ([x], false, true)
                             else if negb (p x) then ([x], false, true) else ([], false, false))
           (fun s => s) (fun _ => []).
  Definition m_take_nth (n : Z) : mach A A :=
    mkMach (-1)%Z (fun v x => (if (Z.rem (v + 1) n =? 0)%Z then [x] else [], false, (v + 1)%Z))
           (fun s => s) (fun _ => []).
  Definition m_interpose (sep : A) : mach A A :=
    mkMach 1%Z (fun v x => (if (v - 1 =? 0)%Z then [x] else [sep; x], false, (v - 1)%Z))
           (fun s => s) (fun _ => []).
  Definition flush_buf (lst : list A) : list (list A) := match lst with [] => [] | _ => [lst] end.
  Definition m_partition_all (n : Z) : mach A (list A) :=
    mkMach (@nil A)
           (fun lst x => let lst' := lst ++ [x] in
                         if (Z.of_nat (length lst') <? n)%Z then ([], false, lst') else ([lst'], false, []))
           (fun s => s) flush_buf.
  Definition m_partition_by {K} (eqb : K -> K -> bool) (f : A -> K) (sentinel : K) : mach A (list A) :=
    mkMach (sentinel, @nil A)
           (fun st x => let '(prev, lst) := st in
              let v := f x in
              if eqb prev sentinel then ([], false, (v, lst ++ [x]))
              else if eqb prev v then ([], false, (prev, lst ++ [x]))
              else ([lst], false, (v, [x])))
           (fun st => (fst st, []))
           (fun st => flush_buf (snd st)).
  Definition m_distinct (hmem : A -> list A -> bool) : mach A A :=
    mkMach (@nil A) (fun seen x => if hmem x seen then ([], false, seen) else ([x], false, x :: seen))
           (fun s => s) (fun _ => []).
  Definition m_dedupe (eqb : A -> A -> bool) (sentinel : A) : mach A A :=
    mkMach sentinel (fun prev x => if eqb prev x then ([], false, prev) else ([x], false, x))
           (fun s => s) (fun _ => []).
End MachinesA.

(* ------------------------------------------------------------------------------------ *)
(** * Simulations: the transcribed transducer steps exactly like its machine *)

Section Sims.
  Context {A B : Type}.

  Lemma map_sim (f : A -> B) Acc (r : rf Acc B) :
    exists R, rf_sim (map_xf f Acc r) (lift (m_map f) Acc r) R.
  Proof. sim_tac (@R_stateless (rS r)). Qed.

  Lemma keep_sim (f : A -> option B) Acc (r : rf Acc B) :
    exists R, rf_sim (keep_xf f Acc r) (lift (m_keep f) Acc r) R.
  Proof. sim_tac (@R_stateless (rS r)). Qed.

  Lemma map_indexed_sim (f : Z -> A -> B) Acc (r : rf Acc B) :
    exists R, rf_sim (map_indexed_xf f Acc r) (lift (m_map_indexed f) Acc r) R.
  Proof. sim_tac (@eq (Z * rS r)). Qed.

  Lemma keep_indexed_sim (f : Z -> A -> option B) Acc (r : rf Acc B) :
    exists R, rf_sim (keep_indexed_xf f Acc r) (lift (m_keep_indexed f) Acc r) R.
  Proof. sim_tac (@eq (Z * rS r)). Qed.
End Sims.

Section SimsA.
  Context {A : Type}.

  Lemma filter_sim (p : A -> bool) Acc (r : rf Acc A) :
    exists R, rf_sim (filter_xf p Acc r) (lift (m_filter p) Acc r) R.
  Proof. sim_tac (@R_stateless (rS r)). Qed.

  Lemma cat_sim Acc (r : rf Acc A) :
    exists R, rf_sim (cat_xf Acc r) (lift m_cat Acc r) R.
  Proof. sim_tac (@R_stateless (rS r)). Qed.

  Lemma take_sim (n : Z) Acc (r : rf Acc A) :
    exists R, rf_sim (take_xf n Acc r) (lift (m_take n) Acc r) R.
  Proof. sim_tac (@eq (Z * rS r)). Qed.

  Lemma take_while_sim (p : A -> bool) Acc (r : rf Acc A) :
    exists R, rf_sim (take_while_xf p Acc r) (lift (m_take_while p) Acc r) R.
  Proof. sim_tac (@R_stateless (rS r)). Qed.

  Lemma drop_sim (n : Z) Acc (r : rf Acc A) :
    exists R, rf_sim (drop_xf n Acc r) (lift (m_drop n) Acc r) R.
  Proof. sim_tac (@eq (Z * rS r)). Qed.

  Lemma drop_while_sim (p : A -> bool) Acc (r : rf Acc A) :
    exists R, rf_sim (drop_while_xf p Acc r) (lift (m_drop_while p) Acc r) R.
  Proof. sim_tac (@eq (bool * rS r)). Qed.

  Lemma take_nth_sim (n : Z) Acc (r : rf Acc A) :
    exists R, rf_sim (take_nth_xf n Acc r) (lift (m_take_nth n) Acc r) R.
  Proof. sim_tac (@eq (Z * rS r)). Qed.

  Lemma interpose_sim (sep : A) Acc (r : rf Acc A) :
    exists R, rf_sim (interpose_xf sep Acc r) (lift (m_interpose sep) Acc r) R.
  Proof. sim_tac (@eq (Z * rS r)). Qed.

  Lemma partition_all_sim (n : Z) Acc (r : rf Acc (list A)) :
    exists R, rf_sim (partition_all_xf n Acc r) (lift (m_partition_all n) Acc r) R.
  Proof. sim_tac (@eq (list A * rS r)). Qed.

  Lemma partition_by_sim {K} (eqb : K -> K -> bool) (f : A -> K) (sentinel : K) Acc (r : rf Acc (list A)) :
    exists R, rf_sim (partition_by_xf eqb f sentinel Acc r) (lift (m_partition_by eqb f sentinel) Acc r) R.
  Proof. sim_tac (@eq ((K * list A) * rS r)). Qed.

  Lemma distinct_sim (hmem : A -> list A -> bool) Acc (r : rf Acc A) :
    exists R, rf_sim (distinct_xf hmem Acc r) (lift (m_distinct hmem) Acc r) R.
  Proof. sim_tac (@eq (list A * rS r)). Qed.

  Lemma dedupe_sim (eqb : A -> A -> bool) (sentinel : A) Acc (r : rf Acc A) :
    exists R, rf_sim (dedupe_xf eqb sentinel Acc r) (lift (m_dedupe eqb sentinel) Acc r) R.
  Proof. sim_tac (@eq (A * rS r)). Qed.
End SimsA.

(* ------------------------------------------------------------------------------------ *)
(** * Accumulator-naturality of every transducer arity *)

Ltac nat_norm :=
  simpl; repeat rewrite <- app_assoc; repeat rewrite <- Nat.add_assoc;
  rewrite ?app_nil_r, ?Nat.add_0_r; try reflexivity.

Ltac nat_go H1 H2 Hf :=
  repeat first
   [ dif; simpl
   | match goal with
     | |- context [rstep ?r ?s (?q, ?c) ?v] =>
        lazymatch q with [] => fail | _ => rewrite (H1 s q c v) end
     | |- context [rdone ?r ?s (?q, ?c)] =>
        lazymatch q with [] => fail | _ => rewrite (H2 s q c) end
     | |- context [feed ?r ?s (?q, ?c) ?l] =>
        lazymatch q with [] => fail | _ => rewrite (Hf l s q c) end
     end
   | match goal with
     | |- context [rstep ?r ?s ([], 0) ?v] =>
         destruct (rstep r s ([], 0) v) as [[? [? ?]] []] eqn:?; simpl
     | |- context [rdone ?r ?s ([], 0)] =>
         destruct (rdone r s ([], 0)) as [? [? ?]] eqn:?; simpl
     | |- context [feed ?r ?s ([], 0) ?l] =>
         destruct (feed r s ([], 0) l) as [[? [? ?]] []] eqn:?; simpl
     end ];
  nat_norm.

Ltac nat_tac :=
  intros C r Hr; pose proof (appending_feed r Hr) as Hf; destruct Hr as [H1 H2];
  split; [intros ? q c x | intros ? q c];
  repeat match goal with s : rS _ |- _ => progress simpl in s end;
  repeat match goal with s : (_ * _)%type |- _ => destruct s end;
  simpl; nat_go H1 H2 Hf.

Section Naturals.
  Context {A B : Type}.
  Lemma map_natural (f : A -> B) : natural (map_xf f). Proof. nat_tac. Qed.
  Lemma keep_natural (f : A -> option B) : natural (keep_xf f). Proof. nat_tac. Qed.
  Lemma map_indexed_natural (f : Z -> A -> B) : natural (map_indexed_xf f). Proof. nat_tac. Qed.
  Lemma keep_indexed_natural (f : Z -> A -> option B) : natural (keep_indexed_xf f). Proof. nat_tac. Qed.
End Naturals.

Section NaturalsA.
  Context {A : Type}.
  Lemma filter_natural (p : A -> bool) : natural (filter_xf p). Proof. nat_tac. Qed.
  Lemma cat_natural : natural (@cat_xf A). Proof. nat_tac. Qed.
  Lemma take_natural (n : Z) : natural (@take_xf A n). Proof. nat_tac. Qed.
  Lemma take_while_natural (p : A -> bool) : natural (take_while_xf p). Proof. nat_tac. Qed.
  Lemma drop_natural (n : Z) : natural (@drop_xf A n). Proof. nat_tac. Qed.
  Lemma drop_while_natural (p : A -> bool) : natural (drop_while_xf p). Proof. nat_tac. Qed.
  Lemma take_nth_natural (n : Z) : natural (@take_nth_xf A n). Proof. nat_tac. Qed.
  Lemma interpose_natural (sep : A) : natural (interpose_xf sep). Proof. nat_tac. Qed.
  Lemma partition_all_natural (n : Z) : natural (@partition_all_xf A n). Proof. nat_tac. Qed.
  Lemma partition_by_natural {K} (eqb : K -> K -> bool) (f : A -> K) (sentinel : K) :
    natural (partition_by_xf eqb f sentinel). Proof. nat_tac. Qed.
  Lemma distinct_natural (hmem : A -> list A -> bool) : natural (distinct_xf hmem). Proof. nat_tac. Qed.
  Lemma dedupe_natural (eqb : A -> A -> bool) (sentinel : A) : natural (dedupe_xf eqb sentinel). Proof. nat_tac. Qed.
End NaturalsA.
