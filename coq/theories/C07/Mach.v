(** C07 generic theory: what it means for a transducer to denote a reference function,
    closure under [comp], and the proof method (list machines, lifting, simulation). *)
From Coq Require Import List Bool Arith ZArith Lia.
Import ListNotations.
From Verif Require Import C07.Model C07.Spec.

Ltac dpair :=
  repeat match goal with
  | |- context [let '(_, _) := ?e in _] => destruct e eqn:?
  | H : context [let '(_, _) := ?e in _] |- _ => destruct e eqn:?
  end.

(* ------------------------------------------------------------------------------------ *)
(** * feed / run *)

Section FeedRun.
  Context {Acc E : Type} (r : rf Acc E).

  Lemma run_feed l : forall s a, fst (run r s a l) = feed r s a l.
  Proof.
    induction l as [|x t IH]; intros s a; simpl; [reflexivity|].
    destruct (rstep r s a x) as [[s1 a1] h]. destruct h; [reflexivity|].
    specialize (IH s1 a1). destruct (run r s1 a1 t) as [[[s2 a2] h2] n]. exact IH.
  Qed.

  Lemma feed_app l1 : forall l2 s a,
    feed r s a (l1 ++ l2) =
      let '(s1, a1, h) := feed r s a l1 in if h then (s1, a1, true) else feed r s1 a1 l2.
  Proof.
    induction l1 as [|x t IH]; intros l2 s a; simpl; [reflexivity|].
    destruct (rstep r s a x) as [[s1 a1] h]. destruct h; [reflexivity|]. apply IH.
  Qed.

  Lemma feed_halted_true l : forall s a s' a' h, feed r s a l = (s', a', h) -> l = [] -> h = false.
  Proof. intros; subst; simpl in *; congruence. Qed.
End FeedRun.

Definition execF {Acc E} (r : rf Acc E) (s : rS r) (a : Acc) (l : list E) : Acc :=
  let '(s', a', _) := feed r s a l in snd (rdone r s' a').
Definition haltF {Acc E} (r : rf Acc E) (s : rS r) (a : Acc) (l : list E) : bool :=
  snd (feed r s a l).
(** result of a complete transducing process started on a fresh [(xform rf)] *)
Definition exec_acc {Acc E} (r : rf Acc E) (a : Acc) (l : list E) : Acc := execF r (rs0 r) a l.
(** did the process stop (a [Reduced] came back) while consuming [l]? *)
Definition halted {Acc E} (r : rf Acc E) (a : Acc) (l : list E) : bool := haltF r (rs0 r) a l.
Definition consumed {Acc E} (r : rf Acc E) (a : Acc) (l : list E) : nat := snd (run r (rs0 r) a l).

(** the count returned by [run] is the length of the shortest prefix on which it stops *)
Lemma run_count {Acc E} (r : rf Acc E) l : forall pre s0 a0 s a,
  feed r s0 a0 pre = (s, a, false) ->
  snd (run r s a l) = need_from (fun p => haltF r s0 a0 p) pre l.
Proof.
  induction l as [|x t IH]; intros pre s0 a0 s a Hp; simpl; [reflexivity|].
  unfold haltF at 1. rewrite feed_app, Hp. simpl.
  destruct (rstep r s a x) as [[s1 a1] h] eqn:Hs. destruct h; simpl; [reflexivity|].
  specialize (IH (pre ++ [x]) s0 a0 s1 a1).
  destruct (run r s1 a1 t) as [[[s2 a2] h2] n]. simpl in *. f_equal. apply IH.
  rewrite feed_app, Hp. simpl. rewrite Hs. reflexivity.
Qed.

Lemma consumed_need {Acc E} (r : rf Acc E) a l : consumed r a l = need (halted r a) l.
Proof. unfold consumed, need, halted. apply run_count. reflexivity. Qed.

Lemma need_from_ext {A} (P Q : list A -> bool) l : forall pre,
  (forall k, P (pre ++ firstn k l) = Q (pre ++ firstn k l)) ->
  need_from P pre l = need_from Q pre l.
Proof.
  induction l as [|x t IH]; intros pre H; simpl; [reflexivity|].
  pose proof (H 1) as H1. simpl in H1. rewrite H1.
  destruct (Q (pre ++ [x])); [reflexivity|]. f_equal. apply IH.
  intro k. specialize (H (S k)). simpl in H. rewrite <- !app_assoc. exact H.
Qed.

Lemma need_ext {A} (P Q : list A -> bool) l :
  (forall k, P (firstn k l) = Q (firstn k l)) -> need P l = need Q l.
Proof. intro H. apply need_from_ext. exact H. Qed.

(* ------------------------------------------------------------------------------------ *)
(** * Accumulator-naturality: a transducer only ever hands the accumulator to [rf].
    Needed for [sequence] (a fresh queue per input) and [eduction] (elements are popped
    while the process is still running). *)

Definition appending {C E} (r : rf (list C * nat) E) : Prop :=
  (forall s q c x, rstep r s (q, c) x =
     let '(s', qc, h) := rstep r s ([], 0) x in (s', (q ++ fst qc, c + snd qc), h)) /\
  (forall s q c, rdone r s (q, c) =
     let '(s', qc) := rdone r s ([], 0) in (s', (q ++ fst qc, c + snd qc))).

Definition natural {A B} (x : xform A B) : Prop :=
  forall C (r : rf (list C * nat) B), appending r -> appending (x _ r).

Lemma conj_appending B : appending (conj_rf B).
Proof. split; intros; simpl; rewrite ?app_nil_r, ?Nat.add_0_r, ?Nat.add_1_r; reflexivity. Qed.

Lemma appending_feed {C E} (r : rf (list C * nat) E) : appending r ->
  forall l s q c, feed r s (q, c) l =
     let '(s', qc, h) := feed r s ([], 0) l in (s', (q ++ fst qc, c + snd qc), h).
Proof.
  intros [H1 H2] l. induction l as [|x t IH]; intros s q c; simpl.
  - rewrite app_nil_r, Nat.add_0_r. reflexivity.
  - rewrite H1. destruct (rstep r s ([], 0) x) as [[s1 [q1 c1]] h]. simpl.
    destruct h; [reflexivity|]. rewrite IH. rewrite (IH s1 q1 c1).
    destruct (feed r s1 ([], 0) t) as [[s2 [q2 c2]] h2]. simpl.
    rewrite app_assoc, Nat.add_assoc. reflexivity.
Qed.

(* ------------------------------------------------------------------------------------ *)
(** * Denotation *)

(** [x] denotes [m] on the inputs satisfying [G]: for EVERY downstream reducing function,
    - a complete process over [l] (feed until [Reduced], then completion once) gives what
      the downstream process gives over [sF m l] -- same elements, downstream completion
      called exactly as often as in a single downstream process, i.e. once;
    - it stops while consuming [l] iff the function is finished on [l] or downstream
      stopped on what was handed to it;
    - [x] is accumulator-natural. *)
Definition denotes_on {A B} (G : list A -> Prop) (x : xform A B) (m : sem A B) : Prop :=
  (forall Acc (r : rf Acc B) a l, G l -> exec_acc (x Acc r) a l = exec_acc r a (sF m l)) /\
  (forall Acc (r : rf Acc B) a l, G l -> halted (x Acc r) a l = sD m l || halted r a (sE m l)) /\
  natural x.
Definition denotes {A B} (x : xform A B) (m : sem A B) : Prop := denotes_on (fun _ => True) x m.

Lemma comp_denotes_on {A B C} (G1 : list A -> Prop) (G2 : list B -> Prop)
      (x1 : xform A B) (x2 : xform B C) m1 m2 :
  denotes_on G1 x1 m1 -> denotes_on G2 x2 m2 ->
  denotes_on (fun l => G1 l /\ G2 (sF m1 l) /\ G2 (sE m1 l)) (comp x1 x2) (sem_comp m1 m2).
Proof.
  intros (E1 & H1 & N1) (E2 & H2 & N2). split; [|split].
  - intros Acc r a l (g1 & g2 & _). unfold comp. rewrite E1 by assumption. rewrite E2 by assumption. reflexivity.
  - intros Acc r a l (g1 & _ & g3). unfold comp. rewrite H1 by assumption. rewrite H2 by assumption.
    simpl. rewrite orb_assoc. reflexivity.
  - intros Cc r Hr. unfold comp. apply N1, N2, Hr.
Qed.

Lemma comp_denotes {A B C} (x1 : xform A B) (x2 : xform B C) m1 m2 :
  denotes x1 m1 -> denotes x2 m2 -> denotes (comp x1 x2) (sem_comp m1 m2).
Proof.
  intros D1 D2. pose proof (comp_denotes_on _ _ _ _ _ _ D1 D2) as (E & H & N).
  split; [|split]; auto.
Qed.

Lemma denotes_on_weaken {A B} (G G' : list A -> Prop) (x : xform A B) m :
  (forall l, G' l -> G l) -> denotes_on G x m -> denotes_on G' x m.
Proof. intros W (E & H & N). split; [|split]; auto. Qed.

(* ------------------------------------------------------------------------------------ *)
(** * Simulation between reducing functions *)

Definition rf_sim {Acc E} (r1 r2 : rf Acc E) (R : rS r1 -> rS r2 -> Prop) : Prop :=
  R (rs0 r1) (rs0 r2) /\
  (forall s1 s2 a x, R s1 s2 ->
     R (fst (fst (rstep r1 s1 a x))) (fst (fst (rstep r2 s2 a x))) /\
     snd (fst (rstep r1 s1 a x)) = snd (fst (rstep r2 s2 a x)) /\
     snd (rstep r1 s1 a x) = snd (rstep r2 s2 a x)) /\
  (forall s1 s2 a, R s1 s2 -> snd (rdone r1 s1 a) = snd (rdone r2 s2 a)).

Lemma sim_feed {Acc E} (r1 r2 : rf Acc E) R : rf_sim r1 r2 R ->
  forall l s1 s2 a, R s1 s2 ->
    R (fst (fst (feed r1 s1 a l))) (fst (fst (feed r2 s2 a l))) /\
    snd (fst (feed r1 s1 a l)) = snd (fst (feed r2 s2 a l)) /\
    snd (feed r1 s1 a l) = snd (feed r2 s2 a l).
Proof.
  intros (_ & Hs & _) l. induction l as [|x t IH]; intros s1 s2 a HR; simpl; [auto|].
  destruct (Hs s1 s2 a x HR) as (HR' & Ha & Hh).
  destruct (rstep r1 s1 a x) as [[s1' a1] h1], (rstep r2 s2 a x) as [[s2' a2] h2]. simpl in *. subst.
  destruct h2; simpl; [auto|]. apply IH. exact HR'.
Qed.

Lemma sim_exec {Acc E} (r1 r2 : rf Acc E) R : rf_sim r1 r2 R ->
  forall a l, exec_acc r1 a l = exec_acc r2 a l /\ halted r1 a l = halted r2 a l.
Proof.
  intros S a l. pose proof S as (H0 & _ & Hd).
  destruct (sim_feed _ _ _ S l _ _ a H0) as (HR & Ha & Hh).
  unfold exec_acc, execF, halted, haltF.
  destruct (feed r1 (rs0 r1) a l) as [[s1 a1] h1], (feed r2 (rs0 r2) a l) as [[s2 a2] h2]. simpl in *. subst.
  split; [apply Hd; exact HR|reflexivity].
Qed.

(* ------------------------------------------------------------------------------------ *)
(** * List machines: the proof device.  A machine says, per input, what it emits, whether
    it is finished, and its next state; [mhalt] is applied to the state when downstream
    stopped in the middle of what was emitted; [mflush] is what completion emits. *)

Record mach (A B : Type) : Type := mkMach {
  mS : Type;
  m0 : mS;
  mstep : mS -> A -> list B * bool * mS;
  mhalt : mS -> mS;
  mflush : mS -> list B }.
Arguments mkMach {A B mS} _ _ _ _.
Arguments mS {A B} _.
Arguments m0 {A B} _.
Arguments mstep {A B} _ _ _.
Arguments mhalt {A B} _ _.
Arguments mflush {A B} _ _.

Definition mach_wf {A B} (m : mach A B) : Prop :=
  forall ms x, fst (fst (mstep m ms x)) <> [] -> mflush m (mhalt m (snd (mstep m ms x))) = [].

Definition lift {A B} (m : mach A B) : xform A B := fun Acc r =>
  mkRf (m0 m, rs0 r)
    (fun st a x => let '(ms, s) := st in
       let '(o, d, ms') := mstep m ms x in
       let '(s', a', h) := feed r s a o in
       ((if h then mhalt m ms' else ms', s'), a', h || d))
    (fun st a => let '(ms, s) := st in
       let '(s1, a1, _) := feed r s a (mflush m ms) in
       let '(s', a') := rdone r s1 a1 in ((ms, s'), a')).

Fixpoint mrun {A B} (m : mach A B) (ms : mS m) (l : list A) : list B * bool * mS m :=
  match l with
  | [] => ([], false, ms)
  | x :: t => let '(o, d, ms') := mstep m ms x in
              if d then (o, true, ms')
              else let '(o2, d2, ms2) := mrun m ms' t in (o ++ o2, d2, ms2)
  end.
Definition mE {A B} (m : mach A B) ms l : list B := fst (fst (mrun m ms l)).
Definition mD {A B} (m : mach A B) ms l : bool := snd (fst (mrun m ms l)).
Definition mF {A B} (m : mach A B) ms l : list B := mE m ms l ++ mflush m (snd (mrun m ms l)).

Section Lift.
  Context {A B : Type} (m : mach A B) (WF : mach_wf m).
  Context {Acc : Type} (r : rf Acc B).

  Lemma execF_app l1 l2 s a :
    execF r s a (l1 ++ l2) =
      let '(s1, a1, h) := feed r s a l1 in if h then snd (rdone r s1 a1) else execF r s1 a1 l2.
  Proof.
    unfold execF. rewrite feed_app. destruct (feed r s a l1) as [[s1 a1] h]. destruct h; reflexivity.
  Qed.

  Lemma execF_cons x t s a :
    execF r s a (x :: t) =
      let '(s1, a1, h) := rstep r s a x in if h then snd (rdone r s1 a1) else execF r s1 a1 t.
  Proof. unfold execF. simpl. destruct (rstep r s a x) as [[s1 a1] h]. destruct h; reflexivity. Qed.

  Lemma lift_execF_cons x t ms s a :
    execF (lift m Acc r) (ms, s) a (x :: t) =
      let '(o, d, ms') := mstep m ms x in
      let '(s1, a1, h) := feed r s a o in
      if h || d then execF (lift m Acc r) (if h then mhalt m ms' else ms', s1) a1 []
      else execF (lift m Acc r) (ms', s1) a1 t.
  Proof.
    unfold execF at 1. simpl feed.
    destruct (mstep m ms x) as [[o d] ms']. destruct (feed r s a o) as [[s1 a1] h].
    destruct h; simpl; [reflexivity|]. destruct d; reflexivity.
  Qed.

  Lemma lift_execF_nil ms s a :
    execF (lift m Acc r) (ms, s) a [] = execF r s a (mflush m ms).
  Proof.
    unfold execF. simpl. destruct (feed r s a (mflush m ms)) as [[s1 a1] h].
    destruct (rdone r s1 a1) as [s' a']. reflexivity.
  Qed.

  Lemma lift_exec l : forall ms s a,
    execF (lift m Acc r) (ms, s) a l = execF r s a (mF m ms l).
  Proof.
    induction l as [|x t IH]; intros ms s a.
    - rewrite lift_execF_nil. unfold mF, mE. simpl. reflexivity.
    - rewrite lift_execF_cons. unfold mF, mE. simpl mrun.
      pose proof (WF ms x) as Hwf.
      destruct (mstep m ms x) as [[o d] ms'] eqn:Hm. simpl in Hwf.
      destruct (feed r s a o) as [[s1 a1] h] eqn:Hf.
      destruct h.
      + (* downstream stopped inside [o] *)
        simpl orb. cbv iota. rewrite lift_execF_nil.
        assert (o <> []) as Ho by (intro; subst o; simpl in Hf; congruence).
        rewrite (Hwf Ho).
        destruct d.
        * simpl. rewrite (execF_app o), Hf. reflexivity.
        * destruct (mrun m ms' t) as [[o2 d2] ms2]. simpl.
          rewrite <- app_assoc, (execF_app o), Hf. reflexivity.
      + destruct d; simpl orb; cbv iota.
        * rewrite lift_execF_nil. simpl. rewrite (execF_app o), Hf. reflexivity.
        * rewrite IH. unfold mF, mE. destruct (mrun m ms' t) as [[o2 d2] ms2]. simpl.
          rewrite <- app_assoc, (execF_app o), Hf. reflexivity.
  Qed.

  Lemma haltF_app l1 l2 s a :
    haltF r s a (l1 ++ l2) =
      let '(s1, a1, h) := feed r s a l1 in if h then true else haltF r s1 a1 l2.
  Proof.
    unfold haltF. rewrite feed_app. destruct (feed r s a l1) as [[s1 a1] h]. destruct h; reflexivity.
  Qed.

  Lemma lift_haltF_cons x t ms s a :
    haltF (lift m Acc r) (ms, s) a (x :: t) =
      let '(o, d, ms') := mstep m ms x in
      let '(s1, a1, h) := feed r s a o in
      if h || d then true else haltF (lift m Acc r) (ms', s1) a1 t.
  Proof.
    unfold haltF at 1. simpl feed.
    destruct (mstep m ms x) as [[o d] ms']. destruct (feed r s a o) as [[s1 a1] h].
    destruct h; simpl; [reflexivity|]. destruct d; reflexivity.
  Qed.

  Lemma lift_halt l : forall ms s a,
    haltF (lift m Acc r) (ms, s) a l = mD m ms l || haltF r s a (mE m ms l).
  Proof.
    induction l as [|x t IH]; intros ms s a.
    - reflexivity.
    - rewrite lift_haltF_cons. unfold mD, mE. simpl mrun.
      destruct (mstep m ms x) as [[o d] ms'] eqn:Hm.
      destruct (feed r s a o) as [[s1 a1] h] eqn:Hf.
      destruct h.
      + simpl orb. cbv iota. destruct d.
        * reflexivity.
        * destruct (mrun m ms' t) as [[o2 d2] ms2]. simpl. rewrite (haltF_app o), Hf.
          rewrite orb_true_r. reflexivity.
      + destruct d; simpl orb; cbv iota; [reflexivity|].
        rewrite IH. unfold mD, mE. destruct (mrun m ms' t) as [[o2 d2] ms2]. simpl.
        rewrite (haltF_app o), Hf. reflexivity.
  Qed.
End Lift.

Lemma lift_natural {A B} (m : mach A B) : natural (lift m).
Proof.
  intros C r Hr. pose proof (appending_feed r Hr) as Hf. destruct Hr as [H1 H2]. split.
  - intros [ms s] q c x. simpl. destruct (mstep m ms x) as [[o d] ms'].
    rewrite Hf. destruct (feed r s ([], 0) o) as [[s1 [q1 c1]] h]. reflexivity.
  - intros [ms s] q c. simpl. rewrite Hf.
    destruct (feed r s ([], 0) (mflush m ms)) as [[s1 [q1 c1]] h]. simpl.
    rewrite H2. rewrite (H2 s1 q1 c1). destruct (rdone r s1 ([], 0)) as [s' [q' c']]. simpl.
    rewrite app_assoc, Nat.add_assoc. reflexivity.
Qed.

(** The method: a transducer simulated by a well-formed machine whose list semantics is
    the reference triple (on the inputs satisfying [G]) denotes that triple. *)
Lemma machine_denotes {A B} (G : list A -> Prop) (x : xform A B) (m : mach A B) (sm : sem A B) :
  (forall Acc (r : rf Acc B), exists R, rf_sim (x Acc r) (lift m Acc r) R) ->
  mach_wf m ->
  (forall l, G l -> mF m (m0 m) l = sF sm l /\ mE m (m0 m) l = sE sm l /\ mD m (m0 m) l = sD sm l) ->
  natural x ->
  denotes_on G x sm.
Proof.
  intros S WF Hsem N. split; [|split]; [| |exact N].
  - intros Acc r a l g. destruct (S Acc r) as [R HS]. destruct (sim_exec _ _ _ HS a l) as [He _].
    rewrite He. unfold exec_acc. simpl rs0. rewrite lift_exec by exact WF.
    destruct (Hsem l g) as (-> & _ & _). reflexivity.
  - intros Acc r a l g. destruct (S Acc r) as [R HS]. destruct (sim_exec _ _ _ HS a l) as [_ Hh].
    rewrite Hh. unfold halted. simpl rs0. rewrite lift_halt.
    destruct (Hsem l g) as (_ & -> & ->). reflexivity.
Qed.

(** machines that never finish by themselves and flush nothing: E = F, D = false *)
Lemma mach_simple {A B} (m : mach A B) :
  (forall ms x, snd (fst (mstep m ms x)) = false) -> (forall ms, mflush m ms = []) ->
  forall l ms, mE m ms l = mF m ms l /\ mD m ms l = false.
Proof.
  intros Hd Hf l. unfold mF. split; [rewrite Hf, app_nil_r; reflexivity|].
  revert ms. induction l as [|x t IH]; intro ms; [reflexivity|].
  unfold mD. simpl. specialize (Hd ms x). destruct (mstep m ms x) as [[o d] ms']. simpl in Hd. subst d.
  specialize (IH ms'). unfold mD in IH. destruct (mrun m ms' t) as [[o2 d2] ms2]. exact IH.
Qed.
