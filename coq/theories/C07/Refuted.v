(** C07: facts about the concrete value universe of the correspondence (Corr.v):
    structural equality is decidable equality, witnesses of the three places where the
    transcribed code departs from the reference, and examples meeting the guards. *)
From Coq Require Import List Bool ZArith NArith Lia.
Import ListNotations.
From Verif Require Import C07.Corr C07.Mach.

Section ValInd.
  Variable P : val -> Prop.
  Hypothesis Hnil : P VNil.
  Hypothesis Hbool : forall b, P (VBool b).
  Hypothesis Hint : forall z, P (VInt z).
  Hypothesis Hkw : forall k, P (VKw k).
  Hypothesis Hvec : forall l, Forall P l -> P (VVec l).
  Fixpoint val_ind' (v : val) : P v :=
    match v with
    | VNil => Hnil
    | VBool b => Hbool b
    | VInt z => Hint z
    | VKw k => Hkw k
    | VVec l => Hvec l ((fix go (l : list val) : Forall P l :=
                           match l with
                           | [] => Forall_nil P
                           | x :: t => Forall_cons x (val_ind' x) (go t)
                           end) l)
    end.
End ValInd.

Lemma val_eqb_eq : forall x y, val_eqb x y = true <-> x = y.
Proof.
  induction x as [| b | z | k | l IH] using val_ind'; intros [| b' | z' | k' | l']; simpl;
    try (split; [discriminate|discriminate]); try (split; [reflexivity|reflexivity]).
  - rewrite Bool.eqb_true_iff. split; congruence.
  - rewrite Z.eqb_eq. split; congruence.
  - rewrite N.eqb_eq. split; congruence.
  - revert l'. induction IH as [|x t Hx Ht IHt]; intros [|y t']; simpl;
      try (split; [discriminate|discriminate]); [split; reflexivity|].
    rewrite andb_true_iff, Hx.
    specialize (IHt t'). split.
    + intros [-> H]. apply IHt in H. congruence.
    + intro H. inversion H; subst. split; [reflexivity|]. apply IHt. reflexivity.
Qed.

Lemma val_eqb_refl a : val_eqb a a = true.
Proof. apply val_eqb_eq. reflexivity. Qed.
Lemma val_eqb_sym a b : val_eqb a b = val_eqb b a.
Proof.
  destruct (val_eqb a b) eqn:E1, (val_eqb b a) eqn:E2; try reflexivity.
  - apply val_eqb_eq in E1. subst. rewrite val_eqb_refl in E2. discriminate.
  - apply val_eqb_eq in E2. subst. rewrite val_eqb_refl in E1. discriminate.
Qed.
Lemma val_eqb_trans a b c : val_eqb a b = true -> val_eqb b c = true -> val_eqb a c = true.
Proof. rewrite !val_eqb_eq. congruence. Qed.

Local Open Scope N_scope.

(** dedupe's keyword sentinel: an input starting with it loses its first element *)
Lemma dedupe_refuted :
  exists l : list val,
    fst (fst (into (dedupe_xf meqb kw_dedupe_sentinel) l)) <> ref_dedupe val_eqb l.
Proof. exists [VKw 2; VInt 1]. vm_compute. discriminate. Qed.

(** partition-by's keyword sentinel: a key equal to it never closes a partition *)
Lemma partition_by_refuted :
  exists l : list val,
    fst (fst (into (partition_by_xf meqb (fn1 0) kw_partition_by_sentinel) l))
    <> ref_partition_by val_eqb (fn1 0) l.
Proof. exists [VKw 3; VInt 1]. vm_compute. discriminate. Qed.

(** distinct: set membership is Python [==], under which false = 0 *)
Lemma distinct_refuted :
  exists l : list val,
    fst (fst (into (distinct_xf hmem) l)) <> ref_distinct val_eqb l.
Proof. exists [VInt 0; VBool false]. vm_compute. discriminate. Qed.

(** dedupe and partition-by on collections: basilisp's [=] on vectors is element-wise Python [==] *)
Lemma dedupe_collections_refuted :
  exists l : list val,
    fst (fst (into (dedupe_xf meqb kw_dedupe_sentinel) l)) <> ref_dedupe val_eqb l.
Proof. exists [VVec [VInt 0]; VVec [VBool false]]. vm_compute. discriminate. Qed.

(** the lazy arities share the last two *)
Lemma lazy_distinct_refuted :
  exists l : list val, lazy_distinct hmem l <> ref_distinct val_eqb l.
Proof. exists [VInt 0; VBool false]. vm_compute. discriminate. Qed.
