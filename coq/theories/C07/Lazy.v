(** C07 proofs, part 5: the plain lazy-seq arities compute the reference functions. *)
From Coq Require Import List Bool Arith ZArith Lia.
Import ListNotations.
From Verif Require Import C07.Model C07.Spec C07.Mach C07.Proofs C07.Sem C07.Sem2.

Section LazyForms.
  Context {A B : Type}.

  Lemma lazy_map_ref (f : A -> B) l : lazy_map f l = ref_map f l.
  Proof. induction l; simpl; congruence. Qed.
  Lemma lazy_filter_ref (p : A -> bool) l : lazy_filter p l = ref_filter p l.
  Proof. induction l as [|x t IH]; simpl; [reflexivity|]. destruct (p x); congruence. Qed.
  Lemma lazy_remove_ref (p : A -> bool) l : lazy_remove p l = ref_remove p l.
  Proof. apply lazy_filter_ref. Qed.
  Lemma lazy_keep_ref (f : A -> option B) l : lazy_keep f l = ref_keep f l.
  Proof. induction l as [|x t IH]; simpl; [reflexivity|]. destruct (f x); congruence. Qed.

  Lemma lazy_map_indexed_from_ref (f : Z -> A -> B) l : forall k,
    lazy_map_indexed_from (Z.of_nat k) f l =
      map (fun ix => f (Z.of_nat (fst ix)) (snd ix)) (combine (seq k (length l)) l).
  Proof.
    induction l as [|x t IH]; intro k; simpl; [reflexivity|]. f_equal.
    replace (Z.of_nat k + 1)%Z with (Z.of_nat (S k)) by lia. apply IH.
  Qed.
  Lemma lazy_map_indexed_ref (f : Z -> A -> B) l :
    lazy_map_indexed f l = ref_map_indexed (fun i => f (Z.of_nat i)) l.
  Proof. apply (lazy_map_indexed_from_ref f l 0). Qed.

  Lemma lazy_keep_indexed_from_ref (f : Z -> A -> option B) l : forall k,
    lazy_keep_indexed_from (Z.of_nat k) f l =
      ref_keep (fun ix => f (Z.of_nat (fst ix)) (snd ix)) (combine (seq k (length l)) l).
  Proof.
    induction l as [|x t IH]; intro k; simpl; [reflexivity|].
    replace (Z.of_nat k + 1)%Z with (Z.of_nat (S k)) by lia. rewrite IH.
    destruct (f (Z.of_nat k) x); reflexivity.
  Qed.
  Lemma lazy_keep_indexed_ref (f : Z -> A -> option B) l :
    lazy_keep_indexed f l = ref_keep_indexed (fun i => f (Z.of_nat i)) l.
  Proof. apply (lazy_keep_indexed_from_ref f l 0). Qed.
End LazyForms.

Lemma lazy_mapcat_ref {A B} (f : A -> list B) l : lazy_mapcat f l = ref_mapcat f l.
Proof. unfold lazy_mapcat, ref_mapcat. rewrite lazy_map_ref. symmetry. apply flat_map_concat_map. Qed.

Section LazyFormsA.
  Context {A : Type}.

  Lemma lazy_take_ref (l : list A) : forall n, lazy_take (Z.of_nat n) l = ref_take n l.
  Proof.
    induction l as [|x t IH]; intro n.
    - simpl. destruct (0 <? Z.of_nat n)%Z; destruct n; reflexivity.
    - simpl. destruct n as [|n']; [reflexivity|].
      destruct (0 <? Z.of_nat (S n'))%Z eqn:E; [|apply Z.ltb_ge in E; lia].
      replace (Z.of_nat (S n') - 1)%Z with (Z.of_nat n') by lia. rewrite IH. reflexivity.
  Qed.

  Lemma lazy_take_while_ref (p : A -> bool) l : lazy_take_while p l = ref_take_while p l.
  Proof. induction l as [|x t IH]; simpl; [reflexivity|]. destruct (p x); congruence. Qed.

  Lemma lazy_drop_ref (l : list A) : forall n, lazy_drop (Z.of_nat n) l = ref_drop n l.
  Proof.
    induction l as [|x t IH]; intro n.
    - destruct n; reflexivity.
    - simpl. destruct n as [|n']; [reflexivity|].
      destruct (0 <? Z.of_nat (S n'))%Z eqn:E; [|apply Z.ltb_ge in E; lia].
      replace (Z.of_nat (S n') - 1)%Z with (Z.of_nat n') by lia. apply IH.
  Qed.

  Lemma lazy_drop_while_ref (p : A -> bool) l : lazy_drop_while p l = ref_drop_while p l.
  Proof. induction l as [|x t IH]; simpl; [reflexivity|]. destruct (p x); congruence. Qed.

  Lemma lazy_interpose_ref (sep : A) l : lazy_interpose sep l = ref_interpose sep l.
  Proof.
    assert (H : forall t y, sep :: lazy_interpose sep (y :: t) = flat_map (fun z => [sep; z]) (y :: t)).
    { induction t as [|z t' IH]; intro y; [reflexivity|].
      change (lazy_interpose sep (y :: z :: t')) with (y :: sep :: lazy_interpose sep (z :: t')).
      rewrite IH. reflexivity. }
    destruct l as [|x [|y t]]; [reflexivity|reflexivity|].
    change (lazy_interpose sep (x :: y :: t)) with (x :: sep :: lazy_interpose sep (y :: t)).
    rewrite H. reflexivity.
  Qed.

  (** take-nth *)
  Definition nth_from (n k : nat) (l : list A) : list A :=
    map snd (filter (fun ix => Nat.eqb (fst ix mod n) 0) (combine (seq k (length l)) l)).

  Lemma nth_from_skip n : n <> 0 -> forall j (l : list A) k,
    (forall i, i < j -> (k + i) mod n <> 0) -> nth_from n k l = nth_from n (k + j) (skipn j l).
  Proof.
    intro Hn. induction j as [|j IH]; intros l k Hk.
    - rewrite Nat.add_0_r. reflexivity.
    - destruct l as [|x t]; [reflexivity|]. unfold nth_from. simpl.
      pose proof (Hk 0 ltac:(lia)) as H0. rewrite Nat.add_0_r in H0.
      destruct (Nat.eqb (k mod n) 0) eqn:E; [apply Nat.eqb_eq in E; congruence|].
      replace (k + S j) with (S k + j) by lia. apply (IH t (S k)).
      intros i Hi. replace (S k + i) with (k + S i) by lia. apply Hk. lia.
  Qed.

  Lemma lazy_take_nth_fuel_ref (n : nat) : 1 <= n -> forall fuel (l : list A) k,
    length l <= fuel -> k mod n = 0 ->
    lazy_take_nth_fuel fuel (Z.of_nat n) l = nth_from n k l.
  Proof.
    intro Hn. induction fuel as [|fuel IH]; intros l k Hl Hk.
    - destruct l; [reflexivity|simpl in Hl; lia].
    - destruct l as [|x t]; [reflexivity|]. simpl lazy_take_nth_fuel.
      unfold nth_from at 1. simpl. rewrite Hk. simpl. f_equal.
      replace (Z.of_nat n - 1)%Z with (Z.of_nat (n - 1)) by lia. rewrite lazy_drop_ref.
      fold (nth_from n (S k) t).
      rewrite (nth_from_skip n ltac:(lia) (n - 1) t (S k)).
      + apply IH.
        * unfold ref_drop. rewrite skipn_length. simpl in Hl. lia.
        * replace (S k + (n - 1)) with (k + 1 * n) by lia. rewrite Nat.mod_add by lia. exact Hk.
      + intros i Hi. replace (S k + i) with (S i + k) by lia.
        rewrite <- Nat.add_mod_idemp_r by lia. rewrite Hk, Nat.add_0_r.
        rewrite Nat.mod_small by lia. lia.
  Qed.

  Lemma lazy_take_nth_ref (n : nat) (l : list A) : 1 <= n ->
    lazy_take_nth (Z.of_nat n) l = ref_take_nth n l.
  Proof.
    intro Hn. unfold lazy_take_nth. apply (lazy_take_nth_fuel_ref n Hn (length l) l 0); [lia|].
    apply Nat.mod_0_l. lia.
  Qed.

  Lemma lazy_partition_all_ref (n : nat) (l : list A) :
    lazy_partition_all (Z.of_nat n) l = ref_partition_all n l.
  Proof.
    unfold lazy_partition_all, ref_partition_all. generalize (length l) as fuel. intro fuel. revert l.
    induction fuel as [|fuel IH]; intro l; [reflexivity|].
    destruct l as [|x t]; [reflexivity|].
    cbn [lazy_partition_all_fuel chunks].
    rewrite lazy_take_ref, lazy_drop_ref. unfold ref_take, ref_drop. rewrite IH. reflexivity.
  Qed.
End LazyFormsA.

Section LazyPartitionBy.
  Context {A K : Type}.
  Variable eqb : K -> K -> bool.
  Hypothesis eqb_refl : forall a, eqb a a = true.
  Hypothesis eqb_sym : forall a b, eqb a b = eqb b a.
  Hypothesis eqb_trans : forall a b c, eqb a b = true -> eqb b c = true -> eqb a c = true.
  Variable f : A -> K.

  Lemma take_drop_while (p : A -> bool) l :
    l = lazy_take_while p l ++ lazy_drop_while p l /\
    lazy_drop (Z.of_nat (length (lazy_take_while p l))) l = lazy_drop_while p l /\
    match lazy_drop_while p l with [] => True | y :: _ => p y = false end.
  Proof.
    induction l as [|x t (I1 & I2 & I3)]; [repeat split|].
    simpl. destruct (p x) eqn:E.
    - simpl length. split; [simpl; congruence|]. split; [|exact I3].
      destruct (0 <? Z.of_nat (S (length (lazy_take_while p t))))%Z eqn:E2; [|apply Z.ltb_ge in E2; lia].
      replace (Z.of_nat (S (length (lazy_take_while p t))) - 1)%Z
        with (Z.of_nat (length (lazy_take_while p t))) by lia. exact I2.
    - simpl. repeat split. exact E.
  Qed.

  Lemma lazy_partition_by_fuel_ref : forall fuel l, length l <= fuel ->
    lazy_partition_by_fuel eqb fuel f l = ref_partition_by eqb f l.
  Proof.
    induction fuel as [|fuel IH]; intros l Hl.
    - destruct l; [reflexivity|simpl in Hl; lia].
    - destruct l as [|x t]; [reflexivity|]. cbn [lazy_partition_by_fuel].
      set (p := fun y => eqb (f x) (f y)).
      destruct (take_drop_while p t) as (H1 & H2 & H3).
      assert (lazy_drop (Z.of_nat (length (x :: lazy_take_while p t))) (x :: t) = lazy_drop_while p t) as ->.
      { rewrite lazy_drop_ref. rewrite lazy_drop_ref in H2. exact H2. }
      rewrite IH.
      + transitivity (ref_partition_by eqb f ((x :: lazy_take_while p t) ++ lazy_drop_while p t));
          [|simpl app; rewrite <- H1; reflexivity].
        rewrite (R_prefix eqb eqb_sym eqb_trans f (f x)); [reflexivity|congruence| |exact H3].
        intros y [<-|Hy]; [apply eqb_refl|].
        clear -Hy. induction t as [|z t' IHt]; simpl in Hy; [contradiction|].
        destruct (p z) eqn:E; [|contradiction]. destruct Hy as [<-|Hy]; [exact E|auto].
      + apply (f_equal (@length A)) in H1. rewrite app_length in H1. simpl in Hl. lia.
  Qed.

  Lemma lazy_partition_by_ref l : lazy_partition_by eqb f l = ref_partition_by eqb f l.
  Proof. apply lazy_partition_by_fuel_ref. lia. Qed.
End LazyPartitionBy.

Section LazyDistinct.
  Context {A : Type}.
  Variables eqb heqb : A -> A -> bool.

  Lemma lazy_distinct_go_ref (P : A -> Prop) : (forall x y, P x -> P y -> heqb x y = eqb x y) ->
    forall l found, Forall P l -> Forall P found ->
    lazy_distinct_go (mem_of heqb) found l = ref_distinct_go eqb found l.
  Proof.
    intros HP. induction l as [|x t IH]; intros found Hl Hs; [reflexivity|].
    inversion Hl as [|? ? Px Pt]; subst. simpl. unfold mem_of.
    assert (existsb (heqb x) found = existsb (eqb x) found) as ->.
    { clear -HP Px Hs. induction Hs as [|y s Py _ IHs]; simpl; [reflexivity|]. rewrite IHs, HP; auto. }
    destruct (existsb (eqb x) found); simpl; [apply IH; assumption|].
    f_equal. apply IH; [assumption|constructor; assumption].
  Qed.

  Lemma lazy_distinct_ref_on l : (forall x y, In x l -> In y l -> heqb x y = eqb x y) ->
    lazy_distinct (mem_of heqb) l = ref_distinct eqb l.
  Proof.
    intro H. apply (lazy_distinct_go_ref (fun x => In x l)); [auto|apply Forall_forall; auto|constructor].
  Qed.

  Hypothesis eqb_sym : forall a b, eqb a b = eqb b a.

  Lemma lazy_dedupe_go_ref l : forall prev, lazy_dedupe_go eqb prev l = ref_dedupe_go eqb prev l.
  Proof.
    induction l as [|x t IH]; intro prev; simpl; [reflexivity|].
    rewrite (eqb_sym x prev). destruct (eqb prev x); simpl; rewrite IH; reflexivity.
  Qed.
  Lemma lazy_dedupe_ref l : lazy_dedupe eqb l = ref_dedupe eqb l.
  Proof. destruct l; simpl; [reflexivity|]. rewrite lazy_dedupe_go_ref. reflexivity. Qed.

  Lemma iterate_take_ref n (g : A -> A) : forall x, iterate_take n g x = ref_iterate n g x.
  Proof. induction n as [|n IH]; intro x; simpl; [reflexivity|]. rewrite IH. reflexivity. Qed.
End LazyDistinct.
