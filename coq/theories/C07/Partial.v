(** C07: the three guarded denotation theorems with executable guards. *)
From Coq Require Import List Bool Arith ZArith Lia.
Import ListNotations.
From Verif Require Import C07.Model C07.Spec C07.Mach C07.Proofs C07.Sem C07.Sem2.

Section Guards.
  Context {A K : Type}.

  Definition partition_by_guard (eqb : K -> K -> bool) (f : A -> K) (sentinel : K) (l : list A) : bool :=
    forallb (fun x => negb (eqb (f x) sentinel)) l.
  Definition dedupe_guard (eqb : A -> A -> bool) (sentinel : A) (l : list A) : bool :=
    match l with [] => true | x :: _ => negb (eqb sentinel x) end.
  Definition distinct_guard (eqb heqb : A -> A -> bool) (l : list A) : bool :=
    forallb (fun x => forallb (fun y => Bool.eqb (heqb x y) (eqb x y)) l) l.

  Lemma partition_by_partial (eqb : K -> K -> bool) :
    (forall a, eqb a a = true) -> (forall a b, eqb a b = eqb b a) ->
    (forall a b c, eqb a b = true -> eqb b c = true -> eqb a c = true) ->
    forall (f : A -> K) (sentinel : K),
    denotes_on (fun l => partition_by_guard eqb f sentinel l = true)
               (partition_by_xf eqb f sentinel) (sem_partition_by eqb f).
  Proof.
    intros R S T f sentinel.
    apply (denotes_on_weaken (fun l => forall x, In x l -> eqb (f x) sentinel = false)).
    - intros l H x Hx. unfold partition_by_guard in H. rewrite forallb_forall in H.
      apply negb_true_iff. apply H. exact Hx.
    - apply partition_by_denotes_on; assumption.
  Qed.

  Lemma dedupe_partial (eqb : A -> A -> bool) (sentinel : A) :
    denotes_on (fun l => dedupe_guard eqb sentinel l = true) (dedupe_xf eqb sentinel) (sem_dedupe eqb).
  Proof.
    apply (denotes_on_weaken (fun l => match l with [] => True | x :: _ => eqb sentinel x = false end)).
    - intros [|x t] H; [exact I|]. simpl in H. apply negb_true_iff. exact H.
    - apply dedupe_denotes_on.
  Qed.

  Lemma distinct_partial (eqb heqb : A -> A -> bool) :
    denotes_on (fun l => distinct_guard eqb heqb l = true) (distinct_xf (mem_of heqb)) (sem_distinct eqb).
  Proof.
    apply (denotes_on_weaken (fun l => forall x y, In x l -> In y l -> heqb x y = eqb x y)).
    - intros l H x y Hx Hy. unfold distinct_guard in H. rewrite forallb_forall in H.
      specialize (H x Hx). rewrite forallb_forall in H. specialize (H y Hy).
      apply Bool.eqb_prop. exact H.
    - apply distinct_denotes_on.
  Qed.
End Guards.
