(** C16 -- concrete witnesses (evaluated on the model; each is re-run on the real reader by the
    correspondence check as the witness of a finding). *)
From Coq Require Import List NArith ZArith Bool.
Import ListNotations.
From Verif Require Import Common.ListX C16.Lex C16.Reader C16.Spec.
Local Open Scope N_scope.

Definition no_orc : N -> list N -> bool := fun _ _ => false.

(** F-16h: `(unquote)  -- the syntax-quote expansion indexes past the end of a one-element
    (unquote) list: IndexError, neither a SyntaxError nor forms *)
Definition w_sq : list N := [96; 40; 117; 110; 113; 117; 111; 116; 101; 41].
Lemma other_sq_refuted : forall orc, read_all orc w_sq = Err (EOther 1).
Proof. intros orc. vm_compute. reflexivity. Qed.

(** F-16b (residual): ## , #b , #? , and a string ending in a backslash, at the end of input: a form or the rest of a string is
    owed, the answer is a plain syntax error *)
Lemma owed_macro_refuted :
  forall orc,
    owed [35; 35] = true /\ read_all orc [35; 35] = Err (ESyntax 1 2) /\
    owed [35; 98] = true /\ read_all orc [35; 98] = Err (ESyntax 1 2) /\
    owed [35; 63] = true /\ read_all orc [35; 63] = Err (ESyntax 1 2) /\
    owed [34; 92] = true /\ read_all orc [34; 92] = Err (ESyntax 1 2).
Proof. intros orc. vm_compute. repeat split; reflexivity. Qed.

(** F-16g: the set #{a} is tagged with the span (1,1)-(1,4), the text of which is {a}: a map
    literal with one form (a syntax error), not the set *)
Definition w_set : list N := [35; 123; 97; 125].
Lemma span_set_refuted :
  forall orc,
    read_all orc w_set = Ok [FSet [FSym None [97] (Some (1, 2, 1, 3))] (Some (1, 1, 1, 4))]
                            (mkst [] 1 4) /\
    slice w_set 1 1 1 4 = Some [123; 97; 125] /\
    read_all orc [123; 97; 125] = Err (ESyntax 1 3).
Proof. intros orc. vm_compute. repeat split; reflexivity. Qed.

(** F-16i: '#?@(:a 1)  -- a splicing reader conditional after a prefix is handed on as an object *)
Definition w_rcond : list N := [39; 35; 63; 64; 40; 58; 97; 32; 49; 41].
Lemma rcond_leak_refuted :
  forall orc, exists loc st',
    read_all orc w_rcond =
      Ok [FList [FSym None s_quote None; FRCond true [FKw None [97]; FNum (NInt 1)]] loc] st'.
Proof. intros orc. eexists. eexists. vm_compute. reflexivity. Qed.

(** after the repairs: the prefixes of F-16a/F-16b answer with an unexpected-EOF error at the end
    of the input, \ too, and the exceptions of F-16c/d/e are syntax errors *)
Lemma repaired_prefixes :
  forall orc,
    read_all orc [39] = Err (EEof 1 1) /\ read_all orc [64] = Err (EEof 1 1) /\
    read_all orc [126] = Err (EEof 1 1) /\ read_all orc [126; 64] = Err (EEof 1 2) /\
    read_all orc [96] = Err (EEof 1 1) /\ read_all orc [94] = Err (EEof 1 1) /\
    read_all orc [35; 39] = Err (EEof 1 2) /\ read_all orc [35; 95] = Err (EEof 1 2) /\
    read_all orc [92] = Err (EEof 1 1) /\ read_all orc [35; 58; 97] = Err (EEof 1 3).
Proof. intros orc. vm_compute. repeat split; reflexivity. Qed.
