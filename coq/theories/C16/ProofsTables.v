(** C16 -- obligations which tie the hand-written tables and recognisers of the model to the tables
    regenerated from reader.py / runtime.py / the running CPython on every run (Gen.Tables). *)
From Coq Require Import List NArith ZArith Bool.
Import ListNotations.
From Verif Require Import Common.ListX Gen.Tables C16.UcTables C16.Lex C16.Reader C16.Spec C16.RegexRef.
Local Open Scope N_scope.

Definition codes256 : list N := map N.of_nat (seq 0 256).
Definition codes128 : list N := map N.of_nat (seq 0 128).

Lemma all_codes (P : N -> bool) l : forallb P l = true -> forall c, In c l -> P c = true.
Proof. intros H. apply forallb_forall. exact H. Qed.

Lemma t_str_escapes : rd_str_escapes = str_escapes /\ str_escapes = ref_escapes.
Proof. split; reflexivity. Qed.
Lemma t_bytes_escapes : rd_bytes_escapes = bytes_escapes /\ bytes_escapes = ref_escapes.
Proof. split; reflexivity. Qed.
Lemma t_special_chars : rd_special_chars = special_chars /\ special_chars = ref_special_chars.
Proof. split; reflexivity. Qed.
Lemma t_numeric_constants :
  rd_numeric_constants = numeric_constants /\ numeric_constants = ref_numeric_constants.
Proof. split; reflexivity. Qed.

(** the model dispatches on exactly the keys of _read_dispatch / _read_macro_dispatch, to the
    handler the table names (255 = not a key) *)
Definition table_code (t : list (N * N)) (c : N) : N :=
  match find (fun p => fst p =? c) t with Some p => snd p | None => 255 end.
Definition keys_small (t : list (N * N)) : bool := forallb (fun p => fst p <? 256) t.

Lemma t_dispatch :
  keys_small rd_dispatch = true /\
  forall c, In c codes256 -> (dispatch_code c =? table_code rd_dispatch c) = true.
Proof. split; [reflexivity|]. apply all_codes. vm_compute. reflexivity. Qed.
Lemma t_macro_dispatch :
  keys_small rd_macro_dispatch = true /\
  forall c, In c codes256 -> (macro_code c =? table_code rd_macro_dispatch c) = true.
Proof. split; [reflexivity|]. apply all_codes. vm_compute. reflexivity. Qed.

(** a token ends at the dispatch characters except the exempted ones *)
Lemma t_ns_term :
  forall c, In c codes256 ->
    Bool.eqb (is_term c) (negb (table_code rd_dispatch c =? 255) && negb (existsb (N.eqb c) rd_ns_term_exempt)) = true.
Proof. apply all_codes. vm_compute. reflexivity. Qed.

Lemma t_regex_sources : rd_regex_sources = ref_regex_sources.
Proof. vm_compute. reflexivity. Qed.

(** _read_num re-reads a token as a symbol after at most depth - 2 = 3 pushbacks; \u takes 4 or 8 digits *)
Lemma t_stream_consts :
  rd_pushback_depth - rd_default_index_neg = 3 /\ rd_unicode_lens = [4; 8].
Proof. split; reflexivity. Qed.

Lemma t_unicode_classes :
  rd_uc_space = uc_space /\ rd_uc_digit = uc_digit /\ rd_uc_alnum = uc_alnum /\ rd_uc_numeric = uc_numeric.
Proof. repeat split; vm_compute; reflexivity. Qed.

(** the hand-written ASCII tests agree with the Unicode tables *)
Lemma t_ascii_classes :
  forall c, In c codes128 ->
    (Bool.eqb (ascii_space c) (in_ranges c uc_space) && Bool.eqb (is_dig c) (in_ranges c uc_digit)
     && Bool.eqb (ascii_alnum c) (in_ranges c uc_alnum) && Bool.eqb (is_dig c) (in_ranges c uc_numeric)) = true.
Proof. apply all_codes. vm_compute. reflexivity. Qed.

Lemma t_features : rd_features = features.
Proof. vm_compute. reflexivity. Qed.
