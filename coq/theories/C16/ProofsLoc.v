(** C16 -- every answer of the reader is tied to a position of the input: the state a reader
    returns, the location an error carries, the position where an unexpected-EOF error is raised
    (always the end of input) and the character which is being read when another exception class
    arises (always a backquote) are all reached from the start by advancing the stream. *)
From Coq Require Import List NArith ZArith Bool Lia.
Import ListNotations.
From Verif Require Import Common.ListX C16.Lex C16.Reader C16.ProofsTerm.
Local Open Scope N_scope.

Inductive reach : st -> st -> Prop :=
| reach_refl s : reach s s
| reach_step s s' : reach (adv s) s' -> reach s s'.

Lemma reach_adv s : reach s (adv s).
Proof. apply reach_step, reach_refl. Qed.
Lemma reach_trans a b c : reach a b -> reach b c -> reach a c.
Proof. intros H1; induction H1; intros H2; [exact H2|]. apply reach_step. auto. Qed.
Lemma reach_adv_r a b : reach a b -> reach a (adv b).
Proof. intros H. eapply reach_trans; [exact H|apply reach_adv]. Qed.
Lemma reach_adv_n n s : reach s (adv_n n s).
Proof. revert s. induction n; intros s; simpl; [apply reach_refl|]. apply reach_step. apply IHn. Qed.
Lemma reach_is_adv_n a b : reach a b -> exists n, b = adv_n n a.
Proof. induction 1 as [s|s s' _ [n IH]]; [exists O; reflexivity|]. exists (S n). simpl. exact IH. Qed.
#[export] Hint Resolve reach_refl reach_adv reach_adv_r : rch.

Lemma skip_ws_reach n s : reach s (skip_ws n s).
Proof.
  revert s. induction n; intros s; simpl; [apply reach_refl|].
  destruct (peek s); [|apply reach_refl]. destruct (is_ws n0); [|apply reach_refl].
  apply reach_step. apply IHn.
Qed.
Lemma skipws_reach s : reach s (skipws s).
Proof. apply skip_ws_reach. Qed.
Lemma reach_skipws a b : reach a b -> reach a (skipws b).
Proof. intros H. eapply reach_trans; [exact H|apply skipws_reach]. Qed.
#[export] Hint Resolve skipws_reach reach_skipws : rch.

Definition inv {A} (s : st) (r : res A) : Prop :=
  match r with
  | Ok _ s' => reach s s'
  | Err (ESyntax l c) => exists s', reach s s' /\ l = line s' /\ c = col s'
  | Err (EEof l c) => exists s', reach s s' /\ rest s' = [] /\ l = line s' /\ c = col s'
  | Err (EOther _) => exists s', reach s s' /\ peek s' = Some 96
  | Err EFuel => True
  end.

Lemma inv_reach {A} s s1 (r : res A) : reach s s1 -> inv s1 r -> inv s r.
Proof.
  intros R. destruct r as [a s'|[l c|l c|t|]]; simpl; auto.
  - intros H. eapply reach_trans; eauto.
  - intros (s' & H & E). exists s'. split; [eapply reach_trans; eauto|exact E].
  - intros (s' & H & E). exists s'. split; [eapply reach_trans; eauto|exact E].
  - intros (s' & H & E). exists s'. split; [eapply reach_trans; eauto|exact E].
Qed.
Lemma inv_syn {A} s s' : reach s s' -> @inv A s (syn s').
Proof. intros R. simpl. exists s'. auto. Qed.
Lemma inv_eof {A} s s' : reach s s' -> peek s' = None -> @inv A s (eof s').
Proof. intros R P. simpl. exists s'. apply peek_none in P. auto. Qed.
Lemma inv_ok {A} s s' (a : A) : reach s s' -> inv s (Ok a s').
Proof. auto. Qed.
Lemma inv_bind {A B} s (r : res A) (f : A -> st -> res B) :
  inv s r -> (forall a s', reach s s' -> inv s (f a s')) -> inv s (bind r f).
Proof. destruct r; simpl; intros H1 H2; auto. Qed.
#[export] Hint Resolve inv_syn inv_eof inv_ok : rch.

Ltac rbrk :=
  repeat match goal with
         | |- context [match ?x with _ => _ end] =>
             lazymatch x with
             | context [match _ with _ => _ end] => fail
             | _ => destruct x eqn:?
             end
         end; auto 6 with rch.

(** ** leaves *)
Lemma take_token_reach n s acc t s' : take_token n s acc = (t, s') -> reach s s'.
Proof.
  revert s acc. induction n; intros s acc; simpl.
  - intros E; inversion E; subst; auto with rch.
  - destruct (peek s); [|intros E; inversion E; subst; auto with rch].
    destruct (is_ws n0 || is_term n0); [intros E; inversion E; subst; auto with rch|].
    intros E. apply reach_step. eapply IHn; eauto.
Qed.
Lemma read_namespaced_inv s : inv s (read_namespaced s).
Proof.
  unfold read_namespaced, token. destruct (take_token _ s []) as [t s'] eqn:E.
  apply take_token_reach in E. destruct (ident_ok t); auto with rch.
Qed.
Lemma read_sym_inv cx rms s : inv s (read_sym cx rms s).
Proof.
  unfold read_sym. apply inv_bind; [apply read_namespaced_inv|]. intros [ns name] s' R. rbrk.
Qed.

Lemma scan_num_reach n s acc t s' : scan_num n s acc = NumTok t s' -> reach s s'.
Proof.
  revert s acc. induction n; intros s acc; simpl.
  - intros E; inversion E; subst; auto with rch.
  - destruct (peek s); [|intros E; inversion E; subst; auto with rch].
    destruct (n0 =? 45).
    + destruct (peek (adv s)); [|discriminate]. destruct (is_begin_num n1); [|discriminate].
      intros E. apply reach_step. eapply IHn; eauto.
    + destruct (is_maybe_num n0); [|intros E; inversion E; subst; auto with rch].
      intros E. apply reach_step. eapply IHn; eauto.
Qed.
Lemma read_num_inv cx s : inv s (read_num cx s).
Proof.
  unfold read_num. destruct (scan_num _ s []) as [t s'|k] eqn:E.
  - apply scan_num_reach in E. destruct (classify_num t); auto with rch.
  - destruct (k <=? 2)%nat; [apply read_sym_inv|]. apply inv_syn. apply reach_adv_n.
Qed.

Lemma hex_run_reach n prev cur acc hs p s :
  reach s prev -> reach s cur -> hex_run n prev cur acc = (hs, p) -> reach s p.
Proof.
  revert prev cur acc. induction n; intros prev cur acc R1 R2; simpl.
  - intros E; inversion E; subst; auto.
  - destruct (peek cur); [|intros E; inversion E; subst; auto].
    destruct (is_hex n0); [|intros E; inversion E; subst; auto].
    intros E. eapply IHn; [| |exact E]; auto with rch.
Qed.
Lemma uni_escape_inv s su : reach s su -> inv s (uni_escape su).
Proof.
  intros R. unfold uni_escape. destruct (hex_run _ su (adv su) []) as [hs p] eqn:E.
  eapply hex_run_reach in E; eauto with rch. rbrk.
Qed.

Lemma str_loop_inv raw n s0 s acc : reach s0 s -> inv s0 (str_loop raw n s acc).
Proof.
  revert s acc. induction n; intros s acc R; simpl; [exact I|].
  destruct (peek (adv s)) eqn:P1; [|auto with rch].
  destruct (n0 =? 92).
  - destruct raw.
    + destruct (peek (adv (adv s))); [destruct (n1 =? 34)|]; auto 6 with rch.
    + destruct (peek (adv (adv s))) eqn:P2; [|auto 6 with rch].
      destruct (assoc n1 str_escapes); [auto 6 with rch|].
      destruct ((n1 =? 117) || (n1 =? 85)); [|auto 6 with rch].
      pose proof (uni_escape_inv s0 (adv (adv s)) ltac:(auto with rch)) as U.
      destruct (uni_escape (adv (adv s))); [apply IHn; exact U|exact U].
  - destruct (n0 =? 34); auto 6 with rch.
Qed.
Lemma read_str_inv raw s : inv s (read_str raw s).
Proof. apply str_loop_inv. auto with rch. Qed.

Lemma bytes_loop_inv n s0 s acc : reach s0 s -> inv s0 (bytes_loop n s acc).
Proof.
  revert s acc. induction n; intros s acc R; simpl; [exact I|].
  destruct (peek (adv s)) eqn:P1; [|auto with rch].
  destruct ((n0 <? 1) || (127 <? n0)); [auto with rch|].
  destruct (n0 =? 92).
  - destruct (peek (adv (adv s))); [|auto 6 with rch].
    destruct (assoc n1 bytes_escapes); [auto 6 with rch|].
    destruct (n1 =? 120); [|auto 6 with rch].
    destruct (hexbyte _ _); auto 8 with rch.
  - destruct (n0 =? 34); auto 6 with rch.
Qed.
Lemma read_bytes_inv s : inv s (read_bytes s).
Proof.
  unfold read_bytes. destruct (peek (skipws s)); [|auto with rch].
  destruct (n =? 34); [|auto with rch]. apply bytes_loop_inv. auto with rch.
Qed.

Lemma take_while_reach p n s acc t s' : take_while p n s acc = (t, s') -> reach s s'.
Proof.
  revert s acc. induction n; intros s acc; simpl.
  - intros E; inversion E; subst; auto with rch.
  - destruct (peek s); [|intros E; inversion E; subst; auto with rch].
    destruct (p n0); [|intros E; inversion E; subst; auto with rch].
    intros E. apply reach_step. eapply IHn; eauto.
Qed.
Lemma read_char_inv s : inv s (read_char s).
Proof.
  unfold read_char. destruct (peek (adv s)) eqn:P1; [|auto with rch].
  destruct (take_while _ _ _ _) as [more s2] eqn:E. apply take_while_reach in E.
  assert (R : reach s s2) by (eapply reach_trans; [|exact E]; auto with rch).
  rbrk.
Qed.
Lemma read_kw_inv s : inv s (read_kw s).
Proof.
  unfold read_kw.
  assert (X : forall s1 (f : option (list N) * list N -> st -> res form), reach s s1 ->
              (forall p s', reach s s' -> inv s (f p s')) -> inv s (bind (read_namespaced s1) f)).
  { intros s1 f R H. apply inv_bind; [eapply inv_reach; [exact R|apply read_namespaced_inv]|exact H]. }
  destruct (peek (adv s)) eqn:P1.
  - destruct (n =? 58).
    + apply X; [auto with rch|]. intros p s' R. rbrk.
    + destruct (is_numeric n).
      * destruct (take_while _ _ _ _) as [t s'] eqn:E. apply take_while_reach in E.
        simpl. eapply reach_trans; [|exact E]. auto with rch.
      * apply X; [auto with rch|]. intros p s' R. auto with rch.
  - apply X; [auto with rch|]. intros p s' R. auto with rch.
Qed.
Lemma comment_loop_reach n s : reach s (comment_loop n s).
Proof.
  revert s. induction n; intros s; simpl; [auto with rch|].
  destruct (peek s); [|auto with rch]. destruct ((n0 =? 10) || (n0 =? 13)); [auto with rch|].
  apply reach_step. apply IHn.
Qed.
Lemma read_comment_reach s : reach s (read_comment s).
Proof. unfold read_comment. apply reach_step. apply comment_loop_reach. Qed.
Lemma read_numconst_inv s : inv s (read_numconst s).
Proof.
  unfold read_numconst. apply inv_bind; [eapply inv_reach; [apply reach_adv|apply read_namespaced_inv]|].
  intros p s' R. rbrk.
Qed.

(** ** readers with sub-forms *)
Section Rn.
  Variable orc : N -> list N -> bool.
  Variable rn : ctx -> st -> res item.
  Hypothesis Hrn : forall cx s, inv s (rn cx s).

  Lemma rn_at cx s0 s : reach s0 s -> inv s0 (rn cx s).
  Proof. intros R. eapply inv_reach; [exact R|apply Hrn]. Qed.

  Lemma rcond_branch_inv items s0 s : reach s0 s -> inv s0 (rcond_branch orc items s).
  Proof. intros R. unfold rcond_branch. rbrk. Qed.

  Lemma coll_loop_inv cx closer n s0 s acc : reach s0 s -> inv s0 (coll_loop orc rn cx closer n s acc).
  Proof.
    revert s acc. induction n; intros s acc R; simpl; [exact I|].
    destruct (peek s) eqn:P; [|auto with rch].
    destruct (is_ws n0); [auto with rch|].
    destruct (n0 =? closer); [auto with rch|].
    pose proof (rn_at cx s0 s R) as G.
    destruct (rn cx s) as [i s'|e]; [|exact G]. simpl in G.
    destruct i as [f| |]; auto.
    destruct f; auto. destruct splicing; auto.
    pose proof (rcond_branch_inv l s0 s' G) as B.
    destruct (rcond_branch orc l s') as [o s''|e]; [|exact B].
    destruct o as [g|]; auto. destruct g; auto with rch.
  Qed.
  Lemma read_elems_inv cx closer s0 s : reach s0 s -> inv s0 (read_elems orc rn cx closer s).
  Proof. intros R. unfold read_elems. apply coll_loop_inv. exact R. Qed.

  Lemma req_loop_inv cx n s0 s : reach s0 s -> inv s0 (req_loop rn cx n s).
  Proof.
    revert s. induction n; intros s R; simpl; [exact I|].
    destruct (peek (skipws s)) eqn:P; [|auto with rch].
    pose proof (rn_at cx s0 (skipws s) ltac:(auto with rch)) as G.
    destruct (rn cx (skipws s)) as [i s'|e]; [|exact G]. simpl in G.
    destruct i; auto.
  Qed.
  Lemma req_inv cx s0 s : reach s0 s -> inv s0 (req rn cx s).
  Proof. intros R. unfold req. apply req_loop_inv. exact R. Qed.

  Lemma map_of_inv ns l loc s0 s : reach s0 s -> inv s0 (map_of ns l loc s).
  Proof. intros R. unfold map_of. rbrk. Qed.
  Lemma set_of_inv l loc s0 s : reach s0 s -> inv s0 (set_of l loc s).
  Proof. intros R. unfold set_of. rbrk. Qed.

  Lemma read_list_inv cx s0 s : reach s0 s -> inv s0 (read_list orc rn cx s).
  Proof. intros R. unfold read_list. apply inv_bind; [apply read_elems_inv; auto with rch|]. auto with rch. Qed.
  Lemma read_vec_inv cx s0 s : reach s0 s -> inv s0 (read_vec orc rn cx s).
  Proof. intros R. unfold read_vec. apply inv_bind; [apply read_elems_inv; auto with rch|]. auto with rch. Qed.
  Lemma read_map_inv cx ns s0 s : reach s0 s -> inv s0 (read_map orc rn cx ns s).
  Proof.
    intros R. unfold read_map. apply inv_bind; [apply read_elems_inv; auto with rch|].
    intros l s' R'. apply map_of_inv. exact R'.
  Qed.
  Lemma read_set_inv cx s0 s : reach s0 s -> inv s0 (read_set orc rn cx s).
  Proof.
    intros R. unfold read_set. apply inv_bind; [apply read_elems_inv; auto with rch|].
    intros l s' R'. apply set_of_inv. exact R'.
  Qed.

  Lemma read_nsmap_inv cx s0 s : reach s0 s -> inv s0 (read_nsmap orc rn cx s).
  Proof.
    intros R. unfold read_nsmap. apply inv_bind.
    - assert (X : inv s0 (bind (read_namespaced (adv s))
                   (fun p s' => match fst p with Some _ => syn s' | None => Ok (snd p) s' end))).
      { apply inv_bind; [eapply inv_reach; [|apply read_namespaced_inv]; auto with rch|].
        intros p s' R'. rbrk. }
      rbrk.
    - intros ns s2 R2. destruct (peek (skipws s2)) eqn:P; [|auto with rch].
      destruct (n =? 123); [|auto with rch]. apply read_map_inv. auto with rch.
  Qed.
  Lemma read_fn_inv cx s0 s : reach s0 s -> inv s0 (read_fn orc rn cx s).
  Proof.
    intros R. unfold read_fn. destruct (anon cx); [auto with rch|].
    apply inv_bind; [apply read_list_inv; exact R|]. auto with rch.
  Qed.
  Lemma read_quoted_inv cx s0 s : reach s0 s -> inv s0 (read_quoted rn cx s).
  Proof. intros R. unfold read_quoted. apply inv_bind; [apply req_inv; auto with rch|]. auto with rch. Qed.
  Lemma read_deref_inv cx s0 s : reach s0 s -> inv s0 (read_deref rn cx s).
  Proof. intros R. unfold read_deref. apply inv_bind; [apply req_inv; auto with rch|]. auto with rch. Qed.
  Lemma read_unquote_inv cx s0 s : reach s0 s -> inv s0 (read_unquote rn cx s).
  Proof.
    intros R. unfold read_unquote.
    assert (X : forall cx' s1 nm, reach s0 s1 ->
              inv s0 (bind (req rn cx' s1) (fun f s' => Ok (FList [core_sym nm; f] None) s'))).
    { intros cx' s1 nm R1. apply inv_bind; [apply req_inv; exact R1|]. auto with rch. }
    rbrk; apply X; auto with rch.
  Qed.
  Lemma read_meta_inv cx s0 s : reach s0 s -> inv s0 (read_meta rn cx s).
  Proof.
    intros R. unfold read_meta. apply inv_bind; [apply req_inv; auto with rch|].
    intros m s1 R1.
    assert (X : inv s0 (bind (req rn cx s1) (fun f s2 => if with_meta_ok f then Ok f s2 else syn s2))).
    { apply inv_bind; [apply req_inv; exact R1|]. intros f s2 R2. rbrk. }
    destruct m; auto with rch.
  Qed.
  Lemma read_var_inv cx s0 s : reach s0 s -> inv s0 (read_var rn cx s).
  Proof.
    intros R. unfold read_var. destruct (peek (adv s)) eqn:P; [|auto with rch].
    apply inv_bind; [|auto with rch].
    destruct (n =? 126); [apply read_unquote_inv; auto with rch|].
    eapply inv_reach; [|apply read_sym_inv]. auto with rch.
  Qed.
  (** the only place where another exception class arises: [s] is at the backquote *)
  Lemma sq_process_inv f s0 s1 s : reach s0 s1 -> peek s1 = Some 96 -> reach s0 s -> inv s0 (sq_process f s).
  Proof.
    intros R1 P R. unfold sq_process.
    assert (O : forall t, @inv form s0 (Err (EOther t))) by (intros t; simpl; eauto).
    rbrk.
  Qed.
  Lemma read_sq_inv cx s0 s : reach s0 s -> peek s = Some 96 -> inv s0 (read_sq rn cx s).
  Proof.
    intros R P. unfold read_sq. apply inv_bind; [apply req_inv; auto with rch|].
    intros f s' R'. apply (sq_process_inv f s0 s s'); auto.
  Qed.

  Lemma fstr_loop_inv cx n s0 s ex acc : reach s0 s -> inv s0 (fstr_loop rn cx n s ex acc).
  Proof.
    revert s ex acc. induction n; intros s ex acc R; simpl; [exact I|].
    destruct (peek (adv s)) eqn:P1; [|auto with rch].
    destruct (n0 =? 92).
    - destruct (peek (adv (adv s))) eqn:P2; [|auto 6 with rch].
      destruct (assoc n1 str_escapes); [auto 6 with rch|].
      destruct ((n1 =? 117) || (n1 =? 85)).
      + pose proof (uni_escape_inv s0 (adv (adv s)) ltac:(auto with rch)) as U.
        destruct (uni_escape (adv (adv s))); [apply IHn; exact U|exact U].
      + destruct (n1 =? 123); auto 6 with rch.
    - destruct (n0 =? 34); [auto 6 with rch|].
      destruct (n0 =? 123); [|auto 6 with rch].
      pose proof (rn_at cx s0 (adv (adv s)) ltac:(auto with rch)) as G.
      destruct (rn cx (adv (adv s))) as [i s3|e]; [|exact G]. simpl in G.
      rbrk.
  Qed.
  Lemma read_fstr_inv cx s0 s : reach s0 s -> inv s0 (read_fstr rn cx s).
  Proof. intros R. unfold read_fstr. apply fstr_loop_inv. auto with rch. Qed.

  Lemma rcond_body_inv cx sp s0 s2 : reach s0 s2 -> inv s0 (rcond_body orc rn cx sp s2).
  Proof.
    intros R. unfold rcond_body. destruct (peek s2) eqn:P; [|auto with rch].
    destruct (n =? 40); [|auto with rch].
    apply inv_bind; [apply read_elems_inv; auto with rch|].
    intros items s' R'. destruct (rcond_ok [] items); [|auto with rch].
    destruct sp; [auto with rch|].
    apply inv_bind; [apply rcond_branch_inv; exact R'|]. intros o s'' R''. destruct o; auto with rch.
  Qed.
  Lemma read_rcond_inv cx s0 s : reach s0 s -> inv s0 (read_rcond orc rn cx s).
  Proof.
    intros R. unfold read_rcond. destruct (peek (adv s)) eqn:P; [|auto with rch].
    destruct (n =? 64); [apply rcond_body_inv; auto with rch|].
    destruct (n =? 40); [apply rcond_body_inv; auto with rch|auto with rch].
  Qed.

  Lemma form_inv s0 (r : res form) : inv s0 r -> inv s0 (bind r (fun f s' => Ok (IForm f) s')).
  Proof. intros H. apply inv_bind; [exact H|]. auto with rch. Qed.

  Lemma read_tagged_inv cx s0 s1 : reach s0 s1 -> inv s0 (read_tagged orc rn cx s1).
  Proof.
    intros R. unfold read_tagged. apply inv_bind; [eapply inv_reach; [exact R|apply read_sym_inv]|].
    intros t s2 R2. destruct t; auto with rch.
    destruct (_ && str_eqb name [98]).
    { apply form_inv. eapply inv_reach; [exact R2|apply read_bytes_inv]. }
    destruct (_ && str_eqb name [102]).
    { apply form_inv. apply read_fstr_inv. exact R2. }
    apply inv_bind; [apply req_inv; exact R2|]. intros v s3 R3. rbrk.
  Qed.

  Lemma read_macro_inv cx s0 s : reach s0 s -> inv s0 (read_macro orc rn cx s).
  Proof.
    intros R. unfold read_macro. destruct (peek (adv s)) as [d|] eqn:P1; [|auto with rch].
    assert (R1 : reach s0 (adv s)) by auto with rch.
    assert (D : inv s0 (if is_begin_name d then read_tagged orc rn cx (adv s) else syn (adv s))).
    { destruct (is_begin_name d); [apply read_tagged_inv; exact R1|auto with rch]. }
    assert (B1 := form_inv _ _ (read_set_inv cx _ _ R1)).
    assert (B2 := form_inv _ _ (read_fn_inv cx _ _ R1)).
    assert (B3 := form_inv _ _ (read_nsmap_inv cx _ _ R1)).
    assert (B4 := form_inv _ _ (read_var_inv cx _ _ R1)).
    assert (B5 : inv s0 (bind (bind (read_str true (adv s))
                   (fun p s' => if orc 0 p then Ok (FRegex p) s' else syn s'))
                   (fun f s' => Ok (IForm f) s'))).
    { apply form_inv. apply inv_bind; [eapply inv_reach; [exact R1|apply read_str_inv]|].
      intros p s' R'. rbrk. }
    assert (B6 : inv s0 (bind (req rn cx (adv (adv s))) (fun _ s' => Ok IComment s'))).
    { apply inv_bind; [apply req_inv; auto with rch|]. auto with rch. }
    assert (B7 : inv s0 (Ok IComment (read_comment (adv s)))).
    { simpl. eapply reach_trans; [exact R1|apply read_comment_reach]. }
    assert (B8 := read_rcond_inv cx _ _ R1).
    assert (B9 : inv s0 (bind (read_numconst (adv s)) (fun f s' => Ok (IForm f) s'))).
    { apply form_inv. eapply inv_reach; [exact R1|apply read_numconst_inv]. }
    cbv zeta.
    destruct (macro_code d) as [|p]; [exact D|].
    repeat (destruct p as [p|p|]; try assumption).
  Qed.
End Rn.

Lemma dispatch_10 c : dispatch_code c = 10 -> c = 96.
Proof.
  unfold dispatch_code.
  repeat match goal with
         | |- context [if ?c =? ?k then _ else _] => destruct (N.eqb_spec c k); [try discriminate|]
         end; try discriminate; auto.
Qed.

Section Main.
  Variable orc : N -> list N -> bool.

  Lemma read_next_inv fuel : forall cx s, inv s (read_next orc fuel cx s).
  Proof.
    induction fuel as [|k IH]; intros cx s; simpl; [exact I|].
    destruct (peek s) as [c|] eqn:P; [|auto with rch].
    assert (R : reach s s) by auto with rch.
    destruct (is_begin_num c). { apply form_inv. apply read_num_inv. }
    destruct (is_ws c). { eapply inv_reach; [apply skipws_reach|apply IH]. }
    assert (D : inv s (if is_begin_name c
                       then (if c =? 58 then bind (read_kw s) (fun f s' => Ok (IForm f) s')
                             else bind (read_sym cx false s) (fun f s' => Ok (IForm f) s'))
                       else syn s)).
    { destruct (is_begin_name c); [|auto with rch].
      destruct (c =? 58); apply form_inv; [apply read_kw_inv|apply read_sym_inv]. }
    assert (B1 := form_inv _ _ (read_list_inv orc _ IH cx _ _ R)).
    assert (B2 := form_inv _ _ (read_vec_inv orc _ IH cx _ _ R)).
    assert (B3 := form_inv _ _ (read_map_inv orc _ IH cx None _ _ R)).
    assert (B4 : inv s (bind (bind (read_str false s) (fun p s' => Ok (FStr p) s'))
                             (fun f s' => Ok (IForm f) s'))).
    { apply form_inv. apply inv_bind; [apply read_str_inv|]. auto with rch. }
    assert (B5 := form_inv _ _ (read_quoted_inv _ IH cx _ _ R)).
    assert (B6 := form_inv _ _ (read_char_inv s)).
    assert (B7 := read_macro_inv orc _ IH cx _ _ R).
    assert (B8 := form_inv _ _ (read_meta_inv _ IH cx _ _ R)).
    assert (B9 : inv s (Ok IComment (read_comment s))) by (simpl; apply read_comment_reach).
    assert (B10 : dispatch_code c = 10 -> inv s (bind (read_sq (read_next orc k) cx s) (fun f s' => Ok (IForm f) s'))).
    { intros E. apply dispatch_10 in E. subst c. apply form_inv. apply read_sq_inv; auto. }
    assert (B11 := form_inv _ _ (read_unquote_inv _ IH cx _ _ R)).
    assert (B12 := form_inv _ _ (read_deref_inv _ IH cx _ _ R)).
    clear IH. cbv zeta.
    destruct (dispatch_code c) as [|p] eqn:DC; [exact D|].
    repeat (destruct p as [p|p|]; try assumption; try (apply B10; reflexivity)).
  Qed.

  Lemma read_top_inv fuel n s0 s acc : reach s0 s -> inv s0 (read_top orc fuel n s acc).
  Proof.
    revert s acc. induction n; intros s acc R; simpl; [exact I|].
    pose proof (inv_reach _ _ _ R (read_next_inv fuel ctx0 s)) as G.
    destruct (read_next orc fuel ctx0 s) as [[f| |] s'|e]; simpl in G; auto.
    destruct f; auto with rch.
  Qed.

  Lemma read_all_inv inp : inv (init inp) (read_all orc inp).
  Proof. unfold read_all. apply read_top_inv. auto with rch. Qed.
End Main.

(* ------------------------------------------------------------------------------------ *)
(** ** the stream reader's bookkeeping is the true location (Spec.locs) *)
From Verif Require Import C16.Spec.

Lemma adv_n_rest n st : rest (adv_n n st) = skipn n (rest st).
Proof.
  revert st. induction n; intros st; simpl; [reflexivity|].
  rewrite IHn. unfold adv. destruct (rest st) as [|c r]; simpl.
  - destruct n; reflexivity.
  - destruct ((c =? 10) || _); reflexivity.
Qed.

Lemma locs_from_adv n : forall st, (n <= length (rest st))%nat ->
  nth_error (locs_from (rest st) (line st) (col st)) n = Some (line (adv_n n st), col (adv_n n st)).
Proof.
  induction n; intros st L.
  - simpl. destruct (rest st); reflexivity.
  - destruct (rest st) as [|c r] eqn:E; [simpl in L; lia|].
    simpl in L. change (adv_n (S n) st) with (adv_n n (adv st)).
    assert (E' : rest (adv st) = r) by (eapply adv_rest; eauto).
    specialize (IHn (adv st)). rewrite E' in IHn. specialize (IHn ltac:(lia)).
    rewrite <- IHn. simpl. unfold adv. rewrite E.
    destruct ((c =? 10) || _); reflexivity.
Qed.

(** update_loc_spec: after [n <= length s] characters the reader's (line, col) is the n-th entry
    of the table of true locations *)
Lemma update_loc_spec s n : (n <= length s)%nat ->
  nth_error (locs s) n = Some (line (adv_n n (init s)), col (adv_n n (init s))).
Proof. intros L. unfold locs. apply (locs_from_adv n (init s)). exact L. Qed.

(** past the end of input only the column grows *)
Lemma adv_n_past st k : rest st = [] -> adv_n k st = mkst [] (line st) (col st + N.of_nat k).
Proof.
  revert st. induction k; intros st E; simpl.
  - destruct st; simpl in *; subst. f_equal. lia.
  - rewrite IHk; unfold adv; rewrite E; simpl; [|reflexivity]. f_equal. lia.
Qed.

Lemma locs_from_length l ln cl : length (locs_from l ln cl) = S (length l).
Proof. revert ln cl. induction l; intros; simpl; [reflexivity|]. destruct (_ || _); simpl; rewrite IHl; reflexivity. Qed.

Lemma end_loc_spec s : end_loc s = (line (adv_n (length s) (init s)), col (adv_n (length s) (init s))).
Proof.
  unfold end_loc. pose proof (update_loc_spec s (length s) ltac:(lia)) as H.
  assert (L : length (locs s) = S (length s)) by apply locs_from_length.
  destruct (locs s) as [|x l] eqn:E using rev_ind; [simpl in L; lia|].
  rewrite last_last. rewrite app_length in L. simpl in L.
  rewrite nth_error_app2 in H by lia. replace (length s - length l)%nat with O in H by lia.
  simpl in H. congruence.
Qed.

(** a location is genuine for [s]: the location of a position 0..length s, or of the end of input
    advanced by k > 0 further reads *)
Definition genuine (s : list N) (l c : N) : Prop :=
  (exists n, (n <= length s)%nat /\ nth_error (locs s) n = Some (l, c)) \/
  (exists k, l = fst (end_loc s) /\ c = snd (end_loc s) + N.of_nat k).

Lemma reach_genuine s st : reach (init s) st -> genuine s (line st) (col st).
Proof.
  intros R. apply reach_is_adv_n in R as [n ->].
  destruct (Nat.le_gt_cases n (length s)) as [L|L].
  - left. exists n. split; [exact L|]. apply update_loc_spec. exact L.
  - right. exists (n - length s)%nat. rewrite end_loc_spec. simpl.
    replace n with (length s + (n - length s))%nat at 1 2 by lia.
    assert (A : forall a b st0, adv_n (a + b) st0 = adv_n b (adv_n a st0)).
    { induction a; intros; simpl; auto. }
    rewrite A. rewrite adv_n_past; [simpl; auto|].
    rewrite adv_n_rest. simpl. apply skipn_all.
Qed.

Lemma reach_at_end s st : reach (init s) st -> rest st = [] ->
  exists k, line st = fst (end_loc s) /\ col st = snd (end_loc s) + N.of_nat k.
Proof.
  intros R E. apply reach_is_adv_n in R as [n ->].
  assert (L : (length s <= n)%nat).
  { rewrite adv_n_rest in E. simpl in E. destruct (Nat.le_gt_cases (length s) n); [auto|].
    exfalso. assert (length (skipn n s) = (length s - n)%nat) by apply skipn_length.
    rewrite E in H0. simpl in H0. lia. }
  exists (n - length s)%nat. rewrite end_loc_spec. simpl.
  replace n with (length s + (n - length s))%nat at 1 2 by lia.
  assert (A : forall a b st0, adv_n (a + b) st0 = adv_n b (adv_n a st0)).
  { induction a; intros; simpl; auto. }
  rewrite A. rewrite adv_n_past; [simpl; auto|].
  rewrite adv_n_rest. simpl. apply skipn_all.
Qed.

Lemma reach_peek_in s st c : reach (init s) st -> peek st = Some c -> In c s.
Proof.
  intros R P. apply reach_is_adv_n in R as [n ->]. apply peek_some in P as [r E].
  rewrite adv_n_rest in E. simpl in E.
  assert (In c (skipn n s)) by (rewrite E; left; reflexivity).
  rewrite <- (firstn_skipn n s). apply in_or_app. right. assumption.
Qed.

Section Theorems.
  Variable orc : N -> list N -> bool.

  (** a syntax error carries a genuine location of the text *)
  Theorem errors_carry_loc s l c :
    read_all orc s = Err (ESyntax l c) \/ read_all orc s = Err (EEof l c) -> genuine s l c.
  Proof.
    pose proof (read_all_inv orc s) as H. intros [E|E]; rewrite E in H; simpl in H.
    - destruct H as (st & R & -> & ->). apply reach_genuine. exact R.
    - destruct H as (st & R & _ & -> & ->). apply reach_genuine. exact R.
  Qed.

  (** an unexpected-EOF error is only ever raised with the reader at the end of the input *)
  Theorem eof_only_at_end s l c :
    read_all orc s = Err (EEof l c) ->
    exists k, l = fst (end_loc s) /\ c = snd (end_loc s) + N.of_nat k.
  Proof.
    pose proof (read_all_inv orc s) as H. intros E; rewrite E in H; simpl in H.
    destruct H as (st & R & E0 & -> & ->). apply reach_at_end; assumption.
  Qed.

  (** an exception which is neither SyntaxError nor UnexpectedEOFError needs a backquote *)
  Definition no_backquote (s : list N) : bool := forallb (fun c => negb (c =? 96)) s.
  Theorem only_syntax_errors_partial s t :
    no_backquote s = true -> read_all orc s <> Err (EOther t).
  Proof.
    intros G E. pose proof (read_all_inv orc s) as H. rewrite E in H. simpl in H.
    destruct H as (st & R & P). pose proof (reach_peek_in _ _ _ R P) as I.
    unfold no_backquote in G. rewrite forallb_forall in G. specialize (G _ I).
    rewrite N.eqb_refl in G. discriminate.
  Qed.
End Theorems.

(** ** the one-pass table [locs] is the index-based definition [spec_loc] *)
Lemma last_start_le s j : (last_start s j <= j)%nat.
Proof. induction j; cbn [last_start]; [lia|]. destruct (line_start s (S j)); lia. Qed.

Lemma line_start_step p c r :
  line_start (p ++ c :: r) (S (length p)) =
  ((c =? 10) || ((c =? 13) && negb (match r with 10 :: _ => true | _ => false end))).
Proof.
  unfold line_start, nth_c.
  assert (E1 : nth_error (p ++ c :: r) (length p) = Some c).
  { rewrite nth_error_app2 by lia. replace (length p - length p)%nat with O by lia. reflexivity. }
  assert (E2 : nth_error (p ++ c :: r) (S (length p)) = nth_error r 0).
  { rewrite nth_error_app2 by lia. replace (S (length p) - length p)%nat with 1%nat by lia. reflexivity. }
  rewrite E1, E2. clear E1 E2.
  destruct (N.eqb_spec c 10) as [->|N10]; [reflexivity|].
  destruct (N.eqb_spec c 13) as [->|N13].
  - cbn [orb andb]. destruct r as [|d r]; [reflexivity|]. cbn [nth_error].
    destruct d as [|d]; [reflexivity|].
    repeat (destruct d as [d|d|]; try reflexivity).
  - cbn [orb andb]. destruct c as [|q]; [reflexivity|].
    repeat (destruct q as [q|q|]; try reflexivity; try (exfalso; apply N10; reflexivity);
            try (exfalso; apply N13; reflexivity)).
Qed.

Lemma locs_from_spec l : forall p j,
  (j <= length l)%nat ->
  nth_error (locs_from l (fst (spec_loc (p ++ l) (length p))) (snd (spec_loc (p ++ l) (length p)))) j
  = Some (spec_loc (p ++ l) (length p + j)).
Proof.
  induction l as [|c r IH]; intros p j L.
  - simpl in L. assert (j = 0)%nat by lia. subst. rewrite Nat.add_0_r. cbn [locs_from nth_error].
    rewrite <- surjective_pairing. reflexivity.
  - destruct j as [|j].
    + rewrite Nat.add_0_r. cbn [locs_from nth_error]. rewrite <- surjective_pairing. reflexivity.
    + simpl in L. specialize (IH (p ++ [c]) j ltac:(lia)).
      rewrite <- app_assoc in IH. change ([c] ++ r) with (c :: r) in IH.
      rewrite app_length in IH. change (length [c]) with 1%nat in IH.
      replace (length p + 1 + j)%nat with (length p + S j)%nat in IH by lia.
      rewrite <- IH. clear IH.
      replace (length p + 1)%nat with (S (length p)) by lia.
      set (b := (c =? 10) || ((c =? 13) && negb (match r with 10 :: _ => true | _ => false end))).
      pose proof (line_start_step p c r) as LS. fold b in LS.
      assert (CS : count_starts (p ++ c :: r) (S (length p)) =
                   (if b then 1 else 0) + count_starts (p ++ c :: r) (length p)).
      { cbn [count_starts]. rewrite LS. reflexivity. }
      assert (LA : last_start (p ++ c :: r) (S (length p)) =
                   if b then S (length p) else last_start (p ++ c :: r) (length p)).
      { cbn [last_start]. rewrite LS. reflexivity. }
      pose proof (last_start_le (p ++ c :: r) (length p)) as LL.
      cbn [locs_from nth_error]. fold b.
      unfold spec_loc. cbn [fst snd]. rewrite CS, LA.
      clearbody b. destruct b.
      * replace (S (length p) - S (length p))%nat with O by lia.
        replace (1 + count_starts (p ++ c :: r) (length p) + 1)
          with (1 + (1 + count_starts (p ++ c :: r) (length p))) by lia. reflexivity.
      * replace (N.of_nat (S (length p) - last_start (p ++ c :: r) (length p)))
          with (N.of_nat (length p - last_start (p ++ c :: r) (length p)) + 1) by lia.
        reflexivity.
Qed.

Lemma locs_spec s j : (j <= length s)%nat -> nth_error (locs s) j = Some (spec_loc s j).
Proof. intros L. unfold locs. apply (locs_from_spec s [] j L). Qed.

(** the reader's incremental line/column bookkeeping equals the true location *)
Theorem update_loc_is_spec s n : (n <= length s)%nat ->
  (line (adv_n n (init s)), col (adv_n n (init s))) = spec_loc s n.
Proof.
  intros L. pose proof (update_loc_spec s n L) as A. pose proof (locs_spec s n L) as B. congruence.
Qed.

(** the same statements in terms of the index-based definition of the true location *)
Lemma end_loc_is_spec s : end_loc s = spec_loc s (length s).
Proof. rewrite end_loc_spec. apply update_loc_is_spec. lia. Qed.

Theorem errors_carry_spec_loc orc s l c :
  read_all orc s = Err (ESyntax l c) \/ read_all orc s = Err (EEof l c) ->
  (exists n, (n <= length s)%nat /\ (l, c) = spec_loc s n) \/
  (exists k, (l, c) = (fst (spec_loc s (length s)), snd (spec_loc s (length s)) + N.of_nat k)).
Proof.
  intros H. apply errors_carry_loc in H. destruct H as [(n & L & E)|(k & E1 & E2)].
  - left. exists n. split; [exact L|]. rewrite (locs_spec s n L) in E. congruence.
  - right. exists k. rewrite <- end_loc_is_spec. congruence.
Qed.
Theorem eof_only_at_end_spec orc s l c :
  read_all orc s = Err (EEof l c) ->
  exists k, (l, c) = (fst (spec_loc s (length s)), snd (spec_loc s (length s)) + N.of_nat k).
Proof.
  intros H. apply eof_only_at_end in H as (k & E1 & E2). exists k. rewrite <- end_loc_is_spec. congruence.
Qed.
