(** C16 -- lexical layer of the executable model of basilisp.lang.reader (as repaired by fixes/C16-*.patch and
    fixes/C03-sci-notation-float.patch): StreamReader with line/column bookkeeping, token
    recognisers transcribed from the reader's regular expressions, the per-form readers and
    the two dispatch tables, on explicit fuel.  Strings are lists of code points. *)
From Coq Require Import List NArith ZArith Bool Lia.
Import ListNotations.
From Verif Require Import Common.ListX C16.UcTables.
Local Open Scope N_scope.

(* ------------------------------------------------------------------------------------ *)
(** * Character classes *)

Fixpoint in_ranges (c : N) (l : list (N * N)) : bool :=
  match l with
  | [] => false
  | (a, b) :: t => ((a <=? c) && (c <=? b)) || in_ranges c t
  end.

Definition is_dig (c : N) : bool := (48 <=? c) && (c <=? 57).
Definition is_upper (c : N) : bool := (65 <=? c) && (c <=? 90).
Definition is_lower (c : N) : bool := (97 <=? c) && (c <=? 122).
Definition ascii_space (c : N) : bool := ((9 <=? c) && (c <=? 13)) || ((28 <=? c) && (c <=? 32)).
Definition ascii_alnum (c : N) : bool := is_dig c || is_upper c || is_lower c.

(** re [\s] on str = str.isspace; [\d] = Unicode category Nd; str.isalnum; str.isnumeric.
    ASCII is decided by hand-written tests (tied to the tables by an obligation), the rest by
    the tables of UcTables.v (computed from CPython). *)
Definition is_space (c : N) : bool := if c <? 128 then ascii_space c else in_ranges c uc_space.
Definition is_udigit (c : N) : bool := if c <? 128 then is_dig c else in_ranges c uc_digit.
Definition is_alnum (c : N) : bool := if c <? 128 then ascii_alnum c else in_ranges c uc_alnum.
Definition is_numeric (c : N) : bool := if c <? 128 then is_dig c else in_ranges c uc_numeric.

(** whitespace_chars = [\s,] *)
Definition is_ws (c : N) : bool := is_space c || (c =? 44).
(** begin_num_chars = [0-9\-] *)
Definition is_begin_num (c : N) : bool := is_dig c || (c =? 45).
(** maybe_num_chars = [0-9A-Za-z/.+] *)
Definition is_maybe_num (c : N) : bool :=
  is_dig c || is_upper c || is_lower c || (c =? 47) || (c =? 46) || (c =? 43).
(** hex_chars = [0-9A-Fa-f] *)
Definition is_hex (c : N) : bool :=
  is_dig c || ((65 <=? c) && (c <=? 70)) || ((97 <=? c) && (c <=? 102)).
Definition hexval (c : N) : N :=
  if is_dig c then c - 48 else if c <=? 70 then c - 55 else c - 87.
(** begin_ns_name_chars = :|[^\s\d] (on one character) *)
Definition is_begin_name (c : N) : bool := (c =? 58) || negb (is_space c || is_udigit c).

(** handler codes of _read_dispatch (see Gen.Tables.rd_dispatch); 255 = not a key *)
Definition dispatch_code (c : N) : N :=
  if c =? 40 then 1 else if c =? 41 then 0 else if c =? 91 then 2 else if c =? 93 then 0
  else if c =? 123 then 3 else if c =? 125 then 0 else if c =? 34 then 4 else if c =? 39 then 5
  else if c =? 92 then 6 else if c =? 35 then 7 else if c =? 94 then 8 else if c =? 59 then 9
  else if c =? 96 then 10 else if c =? 126 then 11 else if c =? 64 then 12 else 255.
(** handler codes of _read_macro_dispatch *)
Definition macro_code (c : N) : N :=
  if c =? 123 then 1 else if c =? 40 then 2 else if c =? 58 then 3 else if c =? 39 then 4
  else if c =? 34 then 5 else if c =? 95 then 6 else if c =? 33 then 7 else if c =? 63 then 8
  else if c =? 35 then 9 else 255.
(** a character which ends a symbol / keyword token: in _read_dispatch and not one of # ' % *)
Definition is_term (c : N) : bool :=
  negb (dispatch_code c =? 255) && negb ((c =? 35) || (c =? 39) || (c =? 37)).

(* ------------------------------------------------------------------------------------ *)
(** * StreamReader: the unread input and the (line, col) of its first character.
    [adv] is next_char/advance: the location of the new current character is computed from
    the character left behind and the new one exactly as _update_loc does (end of input
    counts as a character which is neither CR nor LF, also when read repeatedly). *)

Record st := mkst { rest : list N; line : N; col : N }.

Definition peek (s : st) : option N := hd_error (rest s).

Definition adv (s : st) : st :=
  match rest s with
  | [] => mkst [] (line s) (col s + 1)
  | c :: r =>
      let nl := (c =? 10) || ((c =? 13) && negb (match r with 10 :: _ => true | _ => false end)) in
      if nl then mkst r (line s + 1) 0 else mkst r (line s) (col s + 1)
  end.

Definition init (s : list N) : st := mkst s 1 0.

Fixpoint adv_n (n : nat) (s : st) : st :=
  match n with O => s | S k => adv_n k (adv s) end.

Inductive err :=
| ESyntax (l c : N)      (* reader.SyntaxError with line, col *)
| EEof (l c : N)         (* reader.UnexpectedEOFError with line, col *)
| EOther (t : N)         (* any other exception class *)
| EFuel.                 (* the model ran out of fuel (excluded by C16_terminates) *)

Inductive res (A : Type) :=
| Ok (a : A) (s : st)
| Err (e : err).
Arguments Ok {A}. Arguments Err {A}.

Definition syn {A} (s : st) : res A := Err (ESyntax (line s) (col s)).
Definition eof {A} (s : st) : res A := Err (EEof (line s) (col s)).

Definition bind {A B} (r : res A) (f : A -> st -> res B) : res B :=
  match r with Ok a s => f a s | Err e => Err e end.

(** _consume_whitespace *)
Fixpoint skip_ws (n : nat) (s : st) : st :=
  match n with
  | O => s
  | S k => match peek s with
           | Some c => if is_ws c then skip_ws k (adv s) else s
           | None => s
           end
  end.
Definition skipws (s : st) : st := skip_ws (length (rest s)) s.

(* ------------------------------------------------------------------------------------ *)
(** * Tokens *)

Definition str_mem (c : N) (l : list N) : bool := existsb (N.eqb c) l.

Fixpoint span_while (p : N -> bool) (l : list N) : list N * list N :=
  match l with
  | c :: r => if p c then let (a, b) := span_while p r in (c :: a, b) else ([], l)
  | [] => ([], [])
  end.

Definition digval (c : N) : N :=
  if is_dig c then c - 48 else if is_upper c then c - 55 else c - 87.
Fixpoint base_val (b acc : N) (l : list N) : N :=
  match l with [] => acc | c :: r => base_val b (acc * b + digval c) r end.
Definition dec_val (l : list N) : N := base_val 10 0 l.

(** ** identifier_literal (source in Gen.Tables.rd_regex_sources) as a fullmatch recogniser on a
    token which contains no whitespace.  See the derivation in docs/agents/C16.md. *)
Definition name_start (c : N) : bool := negb (is_udigit c) && negb (c =? 47).
Fixpoint after_last_slash (acc : option (list N)) (l : list N) : option (list N) :=
  match l with
  | [] => acc
  | c :: r => if c =? 47 then after_last_slash (Some r) r else after_last_slash acc r
  end.
Fixpoint ends_2slash (l : list N) : bool :=
  match l with
  | [47; 47] => true
  | _ :: r => ends_2slash r
  | [] => false
  end.
Definition ident_ok (t : list N) : bool :=
  match t with
  | [] => false
  | c :: _ =>
      if str_eqb t [47] then true else
      match after_last_slash None t with
      | None => name_start c
      | Some r =>
          name_start c &&
          match r with
          | d :: _ => negb (is_udigit d)
          | [] => ends_2slash t && (3 <=? N.of_nat (length t))
          end
      end
  end.

(** ident.split("/", maxsplit=1) when ident <> "/" and it contains a slash *)
Fixpoint split_slash (l : list N) : option (list N * list N) :=
  match l with
  | [] => None
  | c :: r => if c =? 47 then Some ([], r)
              else match split_slash r with Some (a, b) => Some (c :: a, b) | None => None end
  end.
Definition split_ident (t : list N) : option (list N) * list N :=
  if str_eqb t [47] then (None, t)
  else match split_slash t with Some (a, b) => (Some a, b) | None => (None, t) end.

(** any(len(s) == 0 for s in ns.split(".")) *)
Fixpoint has_empty_seg (at_start : bool) (l : list N) : bool :=
  match l with
  | [] => at_start
  | c :: r => if c =? 46 then at_start || has_empty_seg true r else has_empty_seg false r
  end.

Definition ends_with (c : N) (l : list N) : bool :=
  match rev l with d :: _ => d =? c | [] => false end.

(** _read_namespaced's token: characters up to end of input, whitespace or a terminator *)
Fixpoint take_token (n : nat) (s : st) (acc : list N) : list N * st :=
  match n with
  | O => (rev acc, s)
  | S k => match peek s with
           | Some c => if is_ws c || is_term c then (rev acc, s) else take_token k (adv s) (c :: acc)
           | None => (rev acc, s)
           end
  end.
Definition token (s : st) : list N * st := take_token (length (rest s)) s [].

(** _read_namespaced: (ns, name) or a syntax error at the end of the token *)
Definition read_namespaced (s : st) : res (option (list N) * list N) :=
  let (t, s') := token s in
  if ident_ok t then Ok (split_ident t) s' else syn s'.

(* ------------------------------------------------------------------------------------ *)
(** * Numbers *)

(** a decimal value  (-1)^neg * m * 10^e  with m not divisible by 10 (or m = 0, e = 0) *)
Inductive dec := Dec (neg : bool) (m : N) (e : Z).

Fixpoint strip10 (fuel : nat) (m : N) (e : Z) : N * Z :=
  match fuel with
  | O => (m, e)
  | S k => if (m =? 0) then (0, 0%Z)
           else if (m mod 10 =? 0) then strip10 k (m / 10) (e + 1)%Z else (m, e)
  end.
Definition mkdec (neg : bool) (m : N) (e : Z) : dec :=
  let (m', e') := strip10 (S (N.to_nat (N.size m))) m e in Dec neg m' e'.

Definition dec_eqb (a b : dec) : bool :=
  match a, b with Dec n1 m1 e1, Dec n2 m2 e2 => Bool.eqb n1 n2 && (m1 =? m2) && (e1 =? e2)%Z end.

Inductive num :=
| NInt (z : Z)
| NFloat (d : dec)        (* float(text): the decimal value of the text *)
| NDecimal (d : dec)
| NRatio (n d : Z)
| NComplex (d : dec)      (* imaginary part *)
| NBad.                   (* a syntax error (any cause) *)

Definition strip_neg (t : list N) : bool * list N :=
  match t with 45 :: r => (true, r) | _ => (false, t) end.
Definition zsign (neg : bool) (n : N) : Z := if neg then (- Z.of_N n)%Z else Z.of_N n.
Definition nonempty {A} (l : list A) : bool := match l with [] => false | _ => true end.

(** (?:\d|[1-9]\d+) *)
Definition int_digits_ok (ds : list N) : bool :=
  match ds with
  | [] => false
  | [_] => true
  | c :: _ => negb (c =? 48)
  end.
(** CPython refuses int(str) for more than 4300 digits *)
Definition too_long (ds : list N) : bool := 4300 <? N.of_nat (length ds).

(** digits, optional dot and digits: integer digits, was there a dot, fraction digits, the rest *)
Definition dec_body (u : list N) : list N * bool * list N * list N :=
  let (ds, r) := span_while is_dig u in
  match r with
  | 46 :: r' => let (fs, r'') := span_while is_dig r' in (ds, true, fs, r'')
  | _ => (ds, false, [], r)
  end.
Definition dec_of (neg : bool) (ds fs : list N) (e : Z) : dec :=
  mkdec neg (dec_val (ds ++ fs)) (e - Z.of_nat (length fs))%Z.

Definition all_b (p : N -> bool) (l : list N) : bool := forallb p l.

Definition classify_num (t : list N) : num :=
  let (neg, u) := strip_neg t in
  let '(ds, dot, fs, r) := dec_body u in
  (* integer_literal *)
  if int_digits_ok ds && negb dot && (match r with [] | [78] => true | _ => false end) then
    (if too_long ds then NBad else NInt (zsign neg (dec_val ds)))
  (* float_literal *)
  else if int_digits_ok ds && (match r with [] => true | _ => false end) then NFloat (dec_of neg ds fs 0)
  else if int_digits_ok ds && (match r with [77] => true | _ => false end) then NDecimal (dec_of neg ds fs 0)
  else
  (* octal_literal  -?0([0-7]+)N? *)
  let oct := match u with
             | 48 :: o => let (os, r2) := span_while (fun c => (48 <=? c) && (c <=? 55)) o in
                          if nonempty os && (match r2 with [] | [78] => true | _ => false end)
                          then Some (NInt (zsign neg (base_val 8 0 os))) else None
             | _ => None
             end in
  match oct with Some v => v | None =>
  (* hex_literal  -?0[Xx]([0-9A-Fa-f]+)N? *)
  let hex := match u with
             | 48 :: x :: h => if (x =? 88) || (x =? 120) then
                          let (hs, r2) := span_while is_hex h in
                          if nonempty hs && (match r2 with [] | [78] => true | _ => false end)
                          then Some (NInt (zsign neg (base_val 16 0 hs))) else None
                          else None
             | _ => None
             end in
  match hex with Some v => v | None =>
  (* ratio_literal  (-?\d+)/(\d+) *)
  let ratio := if nonempty ds && negb dot then
                 match r with
                 | 47 :: d => if nonempty d && all_b is_dig d then
                     Some (if too_long ds then NBad
                           else if dec_val ds =? 0 then NInt 0
                           else if too_long d then NBad
                           else if dec_val d =? 0 then NBad
                           else let n := zsign neg (dec_val ds) in
                                let dd := Z.of_N (dec_val d) in
                                let g := Z.gcd n dd in
                                if (dd / g =? 1)%Z then NInt (n / g)%Z else NRatio (n / g)%Z (dd / g)%Z)
                     else None
                 | _ => None
                 end
               else None in
  match ratio with Some v => v | None =>
  (* scientific_notation_literal *)
  let sci := if nonempty ds then
               match r with
               | ee :: x => if (ee =? 69) || (ee =? 101) then
                   let (eneg, x1) := match x with 43 :: y => (false, y) | 45 :: y => (true, y) | _ => (false, x) end in
                   let (es, r2) := span_while is_dig x1 in
                   if nonempty es then
                     let ev := if eneg then (- Z.of_N (dec_val es))%Z else Z.of_N (dec_val es) in
                     match r2 with
                     | [] => Some (NFloat (dec_of neg ds fs ev))
                     | [77] => Some (if 17 <? N.of_nat (length es) then NBad else NDecimal (dec_of neg ds fs ev))
                     | _ => None
                     end
                   else None
                   else None
               | _ => None
               end
             else None in
  match sci with Some v => v | None =>
  (* arbitrary_base_literal  -?(\d{1,2})r([0-9A-Za-z]+) *)
  let arb := if negb dot && nonempty ds && (N.of_nat (length ds) <=? 2) then
               match r with
               | 114 :: b => if nonempty b && all_b (fun c => is_dig c || is_upper c || is_lower c) b then
                    let base := dec_val ds in
                    Some (if (base <? 2) || (36 <? base) then NBad
                          else if all_b (fun c => digval c <? base) b
                                  && (negb (too_long b) || (base =? 2) || (base =? 4) || (base =? 8)
                                      || (base =? 16) || (base =? 32))
                               then NInt (zsign neg (base_val base 0 b)) else NBad)
                    else None
               | _ => None
               end
             else None in
  match arb with Some v => v | None =>
  (* complex_literal *)
  if nonempty ds && (match r with [74] => true | _ => false end) then
    (if dot then NComplex (dec_of neg ds fs 0)
     else if too_long ds then NBad
     else if (2 ^ 1024 - 2 ^ 970 <=? dec_val ds) then NBad   (* int too large to convert to float *)
     else NComplex (dec_of (neg && negb (dec_val ds =? 0)) ds [] 0))   (* -0 is the int 0 *)
  else NBad
  end end end end end.

(** the characters _read_num collects, or the decision to re-read the token as a symbol:
    [NumTok chars s'] / [NumSym k] (a '-' not followed by a digit or '-' after k characters) *)
Inductive numscan := NumTok (t : list N) (s : st) | NumSym (k : nat).
Fixpoint scan_num (n : nat) (s : st) (acc : list N) : numscan :=
  match n with
  | O => NumTok (rev acc) s
  | S k =>
      match peek s with
      | Some c =>
          if c =? 45 then
            match peek (adv s) with
            | Some d => if is_begin_num d then scan_num k (adv s) (c :: acc) else NumSym (length acc)
            | None => NumSym (length acc)
            end
          else if is_maybe_num c then scan_num k (adv s) (c :: acc)
          else NumTok (rev acc) s
      | None => NumTok (rev acc) s
      end
  end.
