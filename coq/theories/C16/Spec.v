(** C16 -- what the property prescribes, independent of the reader model:
    - the true (line, column) of a position of a text,
    - the text of a reported span,
    - "the input stops where a form is still owed": a generative grammar of incomplete plain texts
      (used by the theorems) and an independent scanner over a plain alphabet (used by the
      correspondence check),
    - the reference tables the regenerated tables of the code are compared with. *)
From Coq Require Import List NArith ZArith Bool Lia.
Import ListNotations.
From Verif Require Import Common.ListX.
Local Open Scope N_scope.

(* ------------------------------------------------------------------------------------ *)
(** * True locations.  Lines are numbered from 1, columns from 0.  A line ends after LF, after
    CR LF, or after a CR which is not followed by LF.  Position [i] may be [length s] (end of
    input). *)

Definition nth_c (s : list N) (i : nat) : option N := nth_error s i.

(** is position j (0 < j) the first position of a line? *)
Definition line_start (s : list N) (j : nat) : bool :=
  match j with
  | O => true
  | S p => match nth_c s p with
           | Some 10 => true
           | Some 13 => negb (match nth_c s j with Some 10 => true | _ => false end)
           | _ => false
           end
  end.

Fixpoint count_starts (s : list N) (j : nat) : N :=    (* line starts among 1..j *)
  match j with
  | O => 0
  | S p => (if line_start s j then 1 else 0) + count_starts s p
  end.
Fixpoint last_start (s : list N) (j : nat) : nat :=     (* the greatest line start <= j *)
  match j with
  | O => O
  | S p => if line_start s j then j else last_start s p
  end.

Definition spec_loc (s : list N) (i : nat) : N * N :=
  (1 + count_starts s i, N.of_nat (i - last_start s i)).

Definition loc_eqb (a b : N * N) : bool := (fst a =? fst b) && (snd a =? snd b).

(** all locations of the positions 0 .. length s in one pass (equal to [spec_loc], lemma
    locs_spec in Proofs; used where the definitions are executed) *)
Fixpoint locs_from (l : list N) (ln cl : N) : list (N * N) :=
  (ln, cl) ::
  match l with
  | [] => []
  | c :: r =>
      if (c =? 10) || ((c =? 13) && negb (match r with 10 :: _ => true | _ => false end))
      then locs_from r (ln + 1) 0 else locs_from r ln (cl + 1)
  end.
Definition locs (s : list N) : list (N * N) := locs_from s 1 0.

Fixpoint index_of (p : N * N) (l : list (N * N)) (i : nat) : option nat :=
  match l with
  | [] => None
  | q :: r => if loc_eqb q p then Some i else index_of p r (S i)
  end.

(** the position with a given location, if any *)
Definition offset_of (s : list N) (l c : N) : option nat := index_of (l, c) (locs s) 0.

(** the text of the span from (l1, c1) to (l2, c2), end exclusive *)
Definition slice (s : list N) (l1 c1 l2 c2 : N) : option (list N) :=
  match offset_of s l1 c1, offset_of s l2 c2 with
  | Some a, Some b => if (a <=? b)%nat then Some (firstn (b - a) (skipn a s)) else None
  | _, _ => None
  end.

Definition end_loc (s : list N) : N * N := last (locs s) (1, 0).

(** a location an error may carry: a position of the text, or up to two columns past the end
    (the stream reader can be advanced past the end of input) *)
Definition loc_valid (s : list N) (l c : N) : bool :=
  match offset_of s l c with
  | Some _ => true
  | None => let e := end_loc s in (l =? fst e) && (snd e <? c) && (c <=? snd e + 2)
  end.
Definition loc_at_end (s : list N) (l c : N) : bool :=
  let e := end_loc s in (l =? fst e) && (snd e <=? c) && (c <=? snd e + 1).

(* ------------------------------------------------------------------------------------ *)
(** * Incomplete plain text: the scanner used by the correspondence check.
    Alphabet: a-z, space, LF, CR, ( ) [ ] ' @ ~ and double quote; inside a string any character
    but the backslash.  [None]: outside the alphabet, or malformed (a closer which does not match
    or which follows a prefix).  [Some true]: the text ends inside a string, inside a list or
    vector, or right after a prefix. *)
Inductive mode := MNorm | MTok | MStr.

Definition is_letter (c : N) : bool := (97 <=? c) && (c <=? 122).
Definition is_blank (c : N) : bool := (c =? 32) || (c =? 10) || (c =? 13).

Fixpoint scan (l : list N) (m : mode) (stack : list N) (pend : bool) : option bool :=
  match l with
  | [] => match m with
          | MStr => Some true
          | _ => Some (match stack with [] => pend | _ => true end)
          end
  | c :: r =>
      match m with
      | MStr => if c =? 34 then scan r MNorm stack false
                else if c =? 92 then None else scan r MStr stack pend
      | _ =>
          if (match m with MTok => is_letter c || (c =? 39) | _ => false end) then scan r MTok stack pend
          else if is_blank c then scan r MNorm stack pend
          else if is_letter c then scan r MTok stack false
          else if (c =? 39) || (c =? 64) || (c =? 126) then scan r MNorm stack true
          else if c =? 34 then scan r MStr stack false
          else if c =? 40 then scan r MNorm (41 :: stack) false
          else if c =? 91 then scan r MNorm (93 :: stack) false
          else if (c =? 41) || (c =? 93) then
            if pend then None
            else match stack with
                 | t :: st' => if t =? c then scan r MNorm st' false else None
                 | [] => None
                 end
          else None
      end
  end.
Definition owed_plain (s : list N) : bool :=
  match scan s MNorm [] false with Some true => true | _ => false end.

(** the remaining prefixes and unterminated strings named by the property for which the reader
    (still) answers with a plain syntax error: the whole input, after blanks, is one of
      #   ##   #b   #?   #?@   #:   "\   #b "\x   *)
Definition resid : list (list N) :=
  [[35]; [35; 35]; [35; 98]; [35; 63]; [35; 63; 64]; [35; 58]; [34; 92]; [35; 98; 32; 34; 92; 120]].
Fixpoint drop_blanks (l : list N) : list N :=
  match l with c :: r => if is_blank c then drop_blanks r else l | [] => [] end.
Definition owed_resid (s : list N) : bool := existsb (str_eqb (drop_blanks s)) resid.

Definition owed (s : list N) : bool := owed_plain s || owed_resid s.

(* ------------------------------------------------------------------------------------ *)
(** * Reference tables (what the reader's tables are supposed to contain) *)
Definition ref_escapes : list (N * N) :=
  [(34, 34); (92, 92); (97, 7); (98, 8); (102, 12); (110, 10); (114, 13); (116, 9); (118, 11)].
Definition ref_special_chars : list (list N * N) :=
  [([110; 101; 119; 108; 105; 110; 101], 10); ([115; 112; 97; 99; 101], 32); ([116; 97; 98], 9);
   ([102; 111; 114; 109; 102; 101; 101; 100], 12); ([98; 97; 99; 107; 115; 112; 97; 99; 101], 8);
   ([114; 101; 116; 117; 114; 110], 13)].
Definition ref_numeric_constants : list (list N * N) :=
  [([78; 97; 78], 0); ([73; 110; 102], 1); ([45; 73; 110; 102], 2)].

(* ------------------------------------------------------------------------------------ *)
(** * Plain text as a grammar (used by the theorems about incomplete input and spans)
    Plain forms: symbols of lower-case letters (other than nil, true, false), strings without quote
    or backslash, lists, vectors, and the quote and deref prefixes; elements are separated by one
    space. *)
Inductive pform :=
| PSym (name : list N)
| PStr (chars : list N)
| PList (l : list pform)
| PVec (l : list pform)
| PQuote (f : pform)
| PDeref (f : pform).

Fixpoint render (f : pform) : list N :=
  let fix seq (l : list pform) : list N :=
    match l with
    | [] => []
    | [x] => render x
    | x :: r => render x ++ 32 :: seq r
    end in
  match f with
  | PSym n => n
  | PStr c => 34 :: c ++ [34]
  | PList l => 40 :: seq l ++ [41]
  | PVec l => 91 :: seq l ++ [93]
  | PQuote g => 39 :: render g
  | PDeref g => 64 :: render g
  end.
Fixpoint render_seq (l : list pform) : list N :=
  match l with
  | [] => []
  | [x] => render x
  | x :: r => render x ++ 32 :: render_seq r
  end.

Definition reserved (n : list N) : bool :=
  str_eqb n [110; 105; 108] || str_eqb n [116; 114; 117; 101] || str_eqb n [102; 97; 108; 115; 101].

Fixpoint wf (f : pform) : bool :=
  match f with
  | PSym n => (match n with [] => false | _ => true end) && forallb is_letter n && negb (reserved n)
  | PStr c => forallb (fun x => negb (x =? 34) && negb (x =? 92)) c
  | PList l | PVec l => forallb wf l
  | PQuote g | PDeref g => wf g
  end.

(** Incomplete plain text: the input stops inside a string, inside a list or vector (after some
    complete elements, possibly inside a further incomplete one), or right after a prefix
    (possibly followed by a further incomplete form). *)
Inductive pctx :=
| KStr (chars : list N)                                  (* an opening quote and chars *)
| KCollEnd (paren : bool) (done : list pform)            (* ( or [ and complete elements *)
| KCollIn (paren : bool) (done : list pform) (inner : pctx)
| KQuoteEnd                                              (* the quote character *)
| KQuoteIn (inner : pctx)
| KDerefEnd                                              (* @ *)
| KDerefIn (inner : pctx).

Fixpoint render_ctx (k : pctx) : list N :=
  match k with
  | KStr c => 34 :: c
  | KCollEnd paren done => (if paren then 40 else 91) :: render_seq done
  | KCollIn paren done inner =>
      (if paren then 40 else 91) ::
      match done with
      | [] => render_ctx inner
      | _ => render_seq done ++ 32 :: render_ctx inner
      end
  | KQuoteEnd => [39]
  | KQuoteIn inner => 39 :: render_ctx inner
  | KDerefEnd => [64]
  | KDerefIn inner => 64 :: render_ctx inner
  end.
Fixpoint wf_ctx (k : pctx) : bool :=
  match k with
  | KStr c => forallb (fun x => negb (x =? 34) && negb (x =? 92)) c
  | KCollEnd _ done => forallb wf done
  | KCollIn _ done inner => forallb wf done && wf_ctx inner
  | KQuoteEnd | KDerefEnd => true
  | KQuoteIn inner | KDerefIn inner => wf_ctx inner
  end.
