(** C16 -- executable model of basilisp.lang.reader (the code as repaired by
    fixes/C16-reader-eof-and-exceptions.patch and fixes/C03-sci-notation-float.patch):
    forms, the per-form readers, the two dispatch tables, on explicit fuel.
    Coarse parts (stated in docs/agents/C16.md): the result of a syntax-quote expansion and of an
    f-string with expressions is [FOpaque]; user metadata given with ^ is checked but not kept;
    floats are the decimal value of their text; #inst / #uuid / regex validity is an oracle. *)
From Coq Require Import List NArith ZArith Bool Lia.
Import ListNotations.
From Verif Require Import Common.ListX C16.UcTables.
From Verif Require Export C16.Lex.
Local Open Scope N_scope.

(* ------------------------------------------------------------------------------------ *)
(** * Names *)
Definition s_nil : list N := [110; 105; 108].
Definition s_true : list N := [116; 114; 117; 101].
Definition s_false : list N := [102; 97; 108; 115; 101].
Definition s_quote : list N := [113; 117; 111; 116; 101].
Definition s_var : list N := [118; 97; 114].
Definition s_fn : list N := [102; 110; 42].
Definition s_core : list N := [98; 97; 115; 105; 108; 105; 115; 112; 46; 99; 111; 114; 101].
Definition s_deref : list N := [100; 101; 114; 101; 102].
Definition s_unquote : list N := [117; 110; 113; 117; 111; 116; 101].
Definition s_unquote_splicing : list N :=
  [117; 110; 113; 117; 111; 116; 101; 45; 115; 112; 108; 105; 99; 105; 110; 103].
Definition s_inst : list N := [105; 110; 115; 116].
Definition s_uuid : list N := [117; 117; 105; 100].
Definition s_py : list N := [112; 121].
Definition s_queue : list N := [113; 117; 101; 117; 101].
Definition s_arg : list N := [97; 114; 103; 45].
Definition s_rest : list N := [114; 101; 115; 116].
Definition s_us : list N := [95].
(** the name of the current namespace (the harness binds *ns* to a namespace of this name, which
    has no aliases and refers basilisp.core) *)
Definition cur_ns : list N := [99; 49; 54; 110; 115].   (* c16ns *)

(* ------------------------------------------------------------------------------------ *)
(** * Forms *)

(** line, col, end-line, end-col as attached by _with_loc *)
Definition span := (N * N * N * N)%type.

Inductive form :=
| FNil
| FBool (b : bool)
| FNum (n : num)
| FSpecial (k : N)                                  (* ##NaN 0, ##Inf 1, ##-Inf 2 *)
| FStr (s : list N)                                 (* strings and character literals *)
| FBytes (s : list N)
| FRegex (s : list N)
| FKw (ns : option (list N)) (name : list N)
| FSym (ns : option (list N)) (name : list N) (loc : option span)
| FList (l : list form) (loc : option span)
| FVec (l : list form) (loc : option span)
| FMap (l : list form) (loc : option span)          (* k v k v ... in reading order *)
| FSet (l : list form) (loc : option span)
| FQueue (l : list form)
| FPy (k : N) (l : list form)                       (* #py: 0 tuple, 1 list, 2 set, 3 dict (k v ...) *)
| FInst (s : list N)
| FUuid (s : list N)
| FTagged (tag : form) (v : form)                   (* TaggedLiteral kept inside a reader conditional *)
| FRCond (splicing : bool) (l : list form)          (* ReaderConditional object *)
| FOpaque.                                          (* some list without location (see above) *)

Inductive item := IForm (f : form) | IComment | IEof.

Record ctx := mkctx { sq : bool; anon : bool; ptl : bool }.
Definition ctx0 : ctx := mkctx false false true.

(** ** equality.  [wl = true]: exact, with locations (used to compare model and implementation;
    the first argument is the model's form: a float whose text has more than 15 significant digits or
    an extreme exponent matches any float).  [wl = false]: Python ==/hash as used for duplicate
    detection in sets and maps and for "an equal form" of the span clause: locations ignored,
    numbers by value. *)
Definition ostr_eq (a b : option (list N)) : bool := option_eqb str_eqb a b.
Definition span_eqb (a b : span) : bool :=
  match a, b with (a1, a2, a3, a4), (b1, b2, b3, b4) => (a1 =? b1) && (a2 =? b2) && (a3 =? b3) && (a4 =? b4) end.
Definition loc_eq (wl : bool) (a b : option span) : bool :=
  if wl then option_eqb span_eqb a b else true.

Definition coarse (d : dec) : bool :=
  match d with Dec _ m e => (49 <=? N.log2 m) || (280 <? e)%Z || (e <? -300)%Z end.

(** value of a number as a fraction (numerator, positive denominator) *)
Definition dec_q (d : dec) : Z * Z :=
  match d with
  | Dec neg m e => let z := if neg then (- Z.of_N m)%Z else Z.of_N m in
                   if (0 <=? e)%Z then ((z * 10 ^ e)%Z, 1%Z) else (z, (10 ^ (- e))%Z)
  end.
Definition num_q (n : num) : option (Z * Z) :=
  match n with
  | NInt z => Some (z, 1%Z)
  | NFloat d | NDecimal d => Some (dec_q d)
  | NRatio a b => Some (a, b)
  | _ => None
  end.
Definition q_eq (a b : Z * Z) : bool := (fst a * snd b =? fst b * snd a)%Z.

Definition num_exact (a b : num) : bool :=
  match a, b with
  | NInt x, NInt y => (x =? y)%Z
  | NFloat x, NFloat y => dec_eqb x y || coarse x
  | NDecimal x, NDecimal y => dec_eqb x y
  | NRatio a1 b1, NRatio a2 b2 => (a1 =? a2)%Z && (b1 =? b2)%Z
  | NComplex x, NComplex y => dec_eqb x y || coarse x
  | _, _ => false
  end.
Definition num_key (a b : num) : bool :=
  match num_q a, num_q b with
  | Some x, Some y => q_eq x y
  | _, _ => match a, b with NComplex x, NComplex y => dec_eqb x y | _, _ => false end
  end.

Fixpoint feq (wl : bool) (a b : form) {struct a} : bool :=
  let fix leq (x y : list form) {struct x} : bool :=
    match x, y with
    | [], [] => true
    | p :: x', q :: y' => feq wl p q && leq x' y'
    | _, _ => false
    end in
  (* every element of x equals some element of y *)
  let fix sub (x y : list form) {struct x} : bool :=
    match x with
    | [] => true
    | p :: x' => (fix mem (y : list form) : bool :=
                    match y with [] => false | q :: y' => feq wl p q || mem y' end) y && sub x' y
    end in
  (* every (k, v) of x equals some pair of y *)
  let fix subp (x y : list form) {struct x} : bool :=
    match x with
    | k :: v :: x' => (fix mem (y : list form) : bool :=
                         match y with
                         | k' :: v' :: y' => (feq wl k k' && feq wl v v') || mem y'
                         | _ => false
                         end) y && subp x' y
    | _ => true
    end in
  match a, b with
  | FNil, FNil => true
  | FBool x, FBool y => Bool.eqb x y
  | FBool x, FNum n => negb wl && num_key (NInt (if x then 1 else 0)%Z) n
  | FNum n, FBool y => negb wl && num_key n (NInt (if y then 1 else 0)%Z)
  | FNum x, FNum y => if wl then num_exact x y else num_key x y
  | FNum (NFloat x), FSpecial _ => wl && coarse x
  | FSpecial x, FSpecial y => x =? y
  | FStr x, FStr y => str_eqb x y
  | FBytes x, FBytes y => str_eqb x y
  | FRegex x, FRegex y => str_eqb x y
  | FKw n1 s1, FKw n2 s2 => ostr_eq n1 n2 && str_eqb s1 s2
  | FSym n1 s1 l1, FSym n2 s2 l2 => ostr_eq n1 n2 && str_eqb s1 s2 && loc_eq wl l1 l2
  | FList x l1, FList y l2 => leq x y && loc_eq wl l1 l2
  | FVec x l1, FVec y l2 => leq x y && loc_eq wl l1 l2
  | FMap x l1, FMap y l2 => (length x =? length y)%nat && subp x y && loc_eq wl l1 l2
  | FSet x l1, FSet y l2 => (length x =? length y)%nat && sub x y && loc_eq wl l1 l2
  | FQueue x, FQueue y => leq x y
  | FPy k1 x, FPy k2 y =>
      (k1 =? k2) && (if k1 =? 2 then (length x =? length y)%nat && sub x y
                     else if k1 =? 3 then (length x =? length y)%nat && subp x y else leq x y)
  | FInst x, FInst y => wl || str_eqb x y        (* the value is CPython's; only its presence is compared *)
  | FUuid x, FUuid y => wl || str_eqb x y
  | FTagged t1 v1, FTagged t2 v2 => feq wl t1 t2 && feq wl v1 v2
  | FRCond s1 x, FRCond s2 y => Bool.eqb s1 s2 && leq x y
  | FOpaque, FOpaque => true
  | _, _ => false
  end.

Definition forms_eq (wl : bool) (x y : list form) : bool := list_eqb (feq wl) x y.

(** hash() succeeds *)
Fixpoint hashable (f : form) : bool :=
  match f with
  | FList l _ | FVec l _ | FMap l _ | FSet l _ | FQueue l => forallb hashable l
  | FPy k l => (k =? 0) && forallb hashable l
  | FRCond _ _ => false
  | FTagged t v => hashable v
  | _ => true
  end.

Fixpoint has_dup (l : list form) : bool :=
  match l with
  | [] => false
  | x :: r => existsb (feq false x) r || has_dup r
  end.
Fixpoint map_keys (l : list form) : list form :=
  match l with k :: _ :: r => k :: map_keys r | _ => [] end.

Definition with_meta_ok (f : form) : bool :=   (* isinstance(f, IWithMeta) *)
  match f with
  | FSym _ _ _ | FList _ _ | FVec _ _ | FMap _ _ | FSet _ _ | FQueue _ | FOpaque => true
  | _ => false
  end.

Definition assoc {B} (c : N) (l : list (N * B)) : option B :=
  match find (fun p => fst p =? c) l with Some p => Some (snd p) | None => None end.
Definition assoc_str {B} (s : list N) (l : list (list N * B)) : option B :=
  match find (fun p => str_eqb (fst p) s) l with Some p => Some (snd p) | None => None end.

(** the tables of the code, hand-written; tied to the regenerated ones by obligations *)
Definition str_escapes : list (N * N) :=
  [(34, 34); (92, 92); (97, 7); (98, 8); (102, 12); (110, 10); (114, 13); (116, 9); (118, 11)].
Definition bytes_escapes : list (N * N) := str_escapes.
Definition special_chars : list (list N * N) :=
  [([110; 101; 119; 108; 105; 110; 101], 10); ([115; 112; 97; 99; 101], 32); ([116; 97; 98], 9);
   ([102; 111; 114; 109; 102; 101; 101; 100], 12); ([98; 97; 99; 107; 115; 112; 97; 99; 101], 8);
   ([114; 101; 116; 117; 114; 110], 13)].
Definition numeric_constants : list (list N * N) :=
  [([78; 97; 78], 0); ([73; 110; 102], 1); ([45; 73; 110; 102], 2)].

(* ------------------------------------------------------------------------------------ *)
(** * Leaf readers *)

Definition mkloc (s s' : st) : option span := Some (line s, col s, line s', col s').

(** _read_sym *)
Definition read_sym (cx : ctx) (rms : bool) (s : st) : res form :=
  bind (read_namespaced s) (fun p s' =>
    let (ns, name) := p in
    if negb (sq cx) && ends_with 35 name then syn s'
    else if (match ns with Some n => has_empty_seg true n | None => false end) then syn s'
    else
      match ns with
      | None =>
          if str_eqb name s_nil then Ok FNil s'
          else if str_eqb name s_true then Ok (FBool true) s'
          else if str_eqb name s_false then Ok (FBool false) s'
          else if sq cx && negb rms && (str_eqb name s_unquote || str_eqb name s_unquote_splicing)
               then Ok (FSym (Some s_core) name (mkloc s s')) s'   (* ctx.resolve: referred from core *)
          else Ok (FSym None name (mkloc s s')) s'
      | Some _ => Ok (FSym ns name (mkloc s s')) s'
      end).

(** _read_num *)
Definition read_num (cx : ctx) (s : st) : res form :=
  match scan_num (S (length (rest s))) s [] with
  | NumTok t s' => match classify_num t with NBad => syn s' | n => Ok (FNum n) s' end
  | NumSym k => if (k <=? 2)%nat then read_sym cx false s else syn (adv_n (k - 2) s)
  end.

(** _read_unicode_escape_seq: [su] is at the u; returns the code and the state at the last digit *)
Fixpoint hex_run (n : nat) (prev cur : st) (acc : list N) : list N * st :=
  match n with
  | O => (rev acc, prev)
  | S k => match peek cur with
           | Some c => if is_hex c then hex_run k cur (adv cur) (c :: acc) else (rev acc, prev)
           | None => (rev acc, prev)
           end
  end.
Definition uni_escape (su : st) : res N :=
  let (hs, p) := hex_run (length (rest su)) su (adv su) [] in
  let n := length hs in
  if ((n =? 4) || (n =? 8))%nat then
    let code := base_val 16 0 hs in
    if code <=? 1114111 then Ok code p else syn p
  else syn p.

(** _read_str; [s] is at the opening quote *)
Fixpoint str_loop (raw : bool) (n : nat) (s : st) (acc : list N) : res (list N) :=
  match n with
  | O => Err EFuel
  | S k =>
      let s1 := adv s in
      match peek s1 with
      | None => eof s1
      | Some c =>
          if c =? 92 then
            let s2 := adv s1 in
            if raw then
              match peek s2 with
              | Some d => if d =? 34 then Ok (rev (92 :: acc)) (adv s2)
                          else str_loop raw k s2 (d :: 92 :: acc)
              | None => str_loop raw k s2 (92 :: acc)
              end
            else
              match peek s2 with
              | None => syn s2
              | Some d =>
                  match assoc d str_escapes with
                  | Some e => str_loop raw k s2 (e :: acc)
                  | None =>
                      if (d =? 117) || (d =? 85) then
                        match uni_escape s2 with
                        | Ok code p => str_loop raw k p (code :: acc)
                        | Err e => Err e
                        end
                      else syn s2
                  end
              end
          else if c =? 34 then Ok (rev acc) (adv s1)
          else str_loop raw k s1 (c :: acc)
      end
  end.
Definition read_str (raw : bool) (s : st) : res (list N) := str_loop raw (S (length (rest s))) s [].

Definition utf8 (d : N) : list N :=
  if d <? 128 then [d]
  else if d <? 2048 then [192 + d / 64; 128 + d mod 64]
  else if d <? 65536 then [224 + d / 4096; 128 + (d / 64) mod 64; 128 + d mod 64]
  else [240 + d / 262144; 128 + (d / 4096) mod 64; 128 + (d / 64) mod 64; 128 + d mod 64].

(** int("0x" + c1 + c2, base=16) *)
Definition hexbyte (c1 c2 : option N) : option N :=
  match c1, c2 with
  | Some a, Some b =>
      if is_hex a && is_hex b then Some (16 * hexval a + hexval b)
      else if is_hex a && is_space b then Some (hexval a)
      else if (a =? 95) && is_hex b then Some (hexval b)
      else None
  | Some a, None => if is_hex a then Some (hexval a) else None
  | _, _ => None
  end.

(** _read_byte_str's loop; [s] is at the opening quote *)
Fixpoint bytes_loop (n : nat) (s : st) (acc : list N) : res form :=
  match n with
  | O => Err EFuel
  | S k =>
      let s1 := adv s in
      match peek s1 with
      | None => eof s1
      | Some c =>
          if (c <? 1) || (127 <? c) then syn s1
          else if c =? 92 then
            let s2 := adv s1 in
            match peek s2 with
            | None => bytes_loop k s2 (92 :: acc)
            | Some d =>
                match assoc d bytes_escapes with
                | Some e => bytes_loop k s2 (e :: acc)
                | None =>
                    if d =? 120 then
                      let s3 := adv s2 in
                      let s4 := adv s3 in
                      match hexbyte (peek s3) (peek s4) with
                      | Some v => bytes_loop k s4 (v :: acc)
                      | None => syn s4
                      end
                    else bytes_loop k s2 (rev (utf8 d) ++ 92 :: acc)
                end
            end
          else if c =? 34 then Ok (FBytes (rev acc)) (adv s1)
          else bytes_loop k s1 (c :: acc)
      end
  end.
Definition read_bytes (s : st) : res form :=
  let s0 := skipws s in
  match peek s0 with
  | Some c => if c =? 34 then bytes_loop (S (length (rest s0))) s0 [] else syn s0
  | None => syn s0
  end.

Fixpoint take_while (p : N -> bool) (n : nat) (s : st) (acc : list N) : list N * st :=
  match n with
  | O => (rev acc, s)
  | S k => match peek s with
           | Some c => if p c then take_while p k (adv s) (c :: acc) else (rev acc, s)
           | None => (rev acc, s)
           end
  end.

(** _read_character; [s] is at the backslash *)
Definition read_char (s : st) : res form :=
  let s1 := adv s in
  match peek s1 with
  | None => eof s1
  | Some c =>
      let (more, s2) := take_while is_alnum (length (rest s1)) (adv s1) [] in
      let t := c :: more in
      match assoc_str t special_chars with
      | Some ch => Ok (FStr [ch]) s2
      | None =>
          match t with
          | [_] => Ok (FStr t) s2
          | 117 :: h => if forallb is_hex h && (base_val 16 0 h <=? 1114111)
                        then Ok (FStr [base_val 16 0 h]) s2 else syn s2
          | _ => syn s2
          end
      end
  end.

(** _read_kw; [s] is at the colon *)
Definition read_kw (s : st) : res form :=
  let s1 := adv s in
  match peek s1 with
  | Some c =>
      if c =? 58 then
        bind (read_namespaced (adv s1)) (fun p s' =>
          match fst p with Some _ => syn s' | None => Ok (FKw (Some cur_ns) (snd p)) s' end)
      else if is_numeric c then
        let (t, s') := take_while is_numeric (length (rest s1)) s1 [] in Ok (FKw None t) s'
      else bind (read_namespaced s1) (fun p s' => Ok (FKw (fst p) (snd p)) s')
  | None => bind (read_namespaced s1) (fun p s' => Ok (FKw (fst p) (snd p)) s')
  end.

(** _read_comment; [s] is at the ; or ! *)
Fixpoint comment_loop (n : nat) (s : st) : st :=
  match n with
  | O => s
  | S k => match peek s with
           | Some c => if (c =? 10) || (c =? 13) then adv s else comment_loop k (adv s)
           | None => s
           end
  end.
Definition read_comment (s : st) : st := comment_loop (length (rest s)) (adv s).

(** _read_numeric_constant; [s] is at the second # *)
Definition read_numconst (s : st) : res form :=
  bind (read_namespaced (adv s)) (fun p s' =>
    match fst p with
    | Some _ => syn s'
    | None => match assoc_str (snd p) numeric_constants with
              | Some k => Ok (FSpecial k) s'
              | None => syn s'
              end
    end).

(* ------------------------------------------------------------------------------------ *)
(** * Post-processing of forms *)

Definition is_unq (name : list N) (f : form) : bool :=
  match f with
  | FList (FSym (Some ns) nm _ :: _) _ => str_eqb ns s_core && str_eqb nm name
  | _ => false
  end.
Definition is_unq_any (f : form) : bool := is_unq s_unquote f || is_unq s_unquote_splicing f.

(** does _expand_syntax_quote index past the end of a one-element (unquote) list? *)
Fixpoint sq_elem_bad (f : form) : bool :=
  match f with
  | FList l _ => if is_unq_any f then (length l <? 2)%nat else existsb sq_elem_bad l
  | FVec l _ | FSet l _ | FMap l _ => existsb sq_elem_bad l
  | _ => false
  end.

(** _process_syntax_quoted_form at the top of a syntax-quoted form; [s] = reader position *)
Definition sq_process (f : form) (s : st) : res form :=
  if is_unq s_unquote f then
    match f with
    | FList (_ :: x :: _) _ => Ok x s
    | _ => Err (EOther 1)                       (* IndexError: PList index out of range *)
    end
  else if is_unq s_unquote_splicing f then syn s
  else match f with
       | FList l _ | FVec l _ | FSet l _ | FMap l _ =>
           if existsb sq_elem_bad l then Err (EOther 1) else Ok FOpaque s
       | FSym _ _ _ | FOpaque => Ok FOpaque s
       | _ => Ok f s
       end.

(** #() : the % arguments of a form *)
Definition pct_arg (ns : option (list N)) (name : list N) : option (option N) :=
  (* None: not an argument; Some None: the rest argument; Some (Some k): argument number k *)
  if (match ns with None => true | Some n => str_eqb n cur_ns end) then
    match name with
    | 37 :: r =>
        match r with
        | 38 :: _ => Some None
        | d :: _ => if is_dig d then Some (Some (d - 48)) else Some (Some 1)
        | [] => Some (Some 1)
        end
    | _ => None
    end
  else None.
Definition arg_sym (sqd : bool) (a : option N) : form :=
  let suffix := match a with None => s_rest | Some k => [48 + k] end in
  FSym None (s_arg ++ suffix ++ (if sqd then [35] else [])) None.

Fixpoint fn_rewrite (sqd : bool) (f : form) : form :=
  match f with
  | FSym ns name _ => match pct_arg ns name with Some a => arg_sym sqd a | None => f end
  | FList l loc => FList (map (fn_rewrite sqd) l) loc
  | FVec l loc => FVec (map (fn_rewrite sqd) l) loc
  | FMap l loc => FMap (map (fn_rewrite sqd) l) loc
  | FSet l loc => FSet (map (fn_rewrite sqd) l) loc
  | _ => f
  end.
(** (largest numbered argument + 1, or 0 when there is none; is there a rest argument) *)
Fixpoint fn_args (f : form) : N * bool :=
  let join := fun (l : list form) =>
    fold_right (fun x acc => let (m, r) := fn_args x in (N.max m (fst acc), r || snd acc)) (0, false) l in
  match f with
  | FSym ns name _ => match pct_arg ns name with
                      | Some None => (0, true)
                      | Some (Some k) => (k + 1, false)
                      | None => (0, false)
                      end
  | FList l _ | FVec l _ | FMap l _ | FSet l _ => join l
  | _ => (0, false)
  end.
Fixpoint arg_list (sqd : bool) (n : nat) (acc : list form) : list form :=
  match n with O => acc | S k => arg_list sqd k (arg_sym sqd (Some (N.of_nat n)) :: acc) end.
Definition fn_form (sqd : bool) (body : form) : form :=
  match body with
  | FList l loc =>
      let (m, r) := fn_args body in
      let args := arg_list sqd (N.to_nat (m - 1)) [] ++
                  (if r then [FSym None [38] None; arg_sym sqd None] else []) in
      FList [FSym None s_fn None; FVec args None;
             match l with [] => FNil | _ => fn_rewrite sqd body end] loc
  | _ => body
  end.

(** namespaced maps: process_key *)
Definition ns_key (ns : list N) (k : form) : form :=
  match k with
  | FKw None name => FKw (Some ns) name
  | FKw (Some u) name => if str_eqb u s_us then FKw None name else k
  | FSym None name _ => FSym (Some ns) name None
  | FSym (Some u) name _ => if str_eqb u s_us then FSym None name None else k
  | _ => k
  end.
Fixpoint ns_keys (ns : list N) (l : list form) : list form :=
  match l with k :: v :: r => ns_key ns k :: v :: ns_keys ns r | _ => l end.

Definition map_of (ns : option (list N)) (l : list form) (loc : option span) (s : st) : res form :=
  if Nat.odd (length l) then syn s
  else let l' := match ns with Some n => ns_keys n l | None => l end in
       let ks := map_keys l' in
       if negb (forallb hashable ks) || has_dup ks then syn s else Ok (FMap l' loc) s.
Definition set_of (l : list form) (loc : option span) (s : st) : res form :=
  if negb (forallb hashable l) || has_dup l then syn s else Ok (FSet l loc) s.

(** reader conditionals *)
Fixpoint rcond_ok (seen l : list form) : bool :=
  match l with
  | [] => true
  | k :: _ :: r => match k with
                   | FKw _ _ => negb (existsb (feq false k) seen) && rcond_ok (k :: seen) r
                   | _ => false
                   end
  | _ => false
  end.
Definition is_feature (k : form) : bool :=
  match k with FKw None name => existsb (str_eqb name) features | _ => false end.
Fixpoint rcond_select (l : list form) : option form :=
  match l with
  | k :: v :: r => if is_feature k then Some v else rcond_select r
  | _ => None
  end.

Section WithOracle.
  (** validity of a regex pattern (0), an #inst string (1), a #uuid string (2): CPython's
      re.compile / datetime.fromisoformat / uuid.UUID, supplied per case by the harness *)
  Variable orc : N -> list N -> bool.

  (** _resolve_tagged_literal with the default data readers; None = a syntax error *)
  Definition resolve_tag (tag v : form) : option form :=
    match tag with
    | FSym None name _ =>
        if str_eqb name s_inst then
          match v with FStr x => if orc 1 x then Some (FInst x) else None | _ => None end
        else if str_eqb name s_uuid then
          match v with FStr x => if orc 2 x then Some (FUuid x) else None | _ => None end
        else if str_eqb name s_py then
          match v with
          | FList l _ => Some (FPy 0 l)
          | FVec l _ => Some (FPy 1 l)
          | FSet l _ => Some (FPy 2 l)
          | FMap l _ => Some (FPy 3 l)
          | _ => None
          end
        else if str_eqb name s_queue then
          match v with
          | FList l _ | FVec l _ | FSet l _ | FQueue l => Some (FQueue l)
          | FPy k l => if k =? 3 then Some (FQueue (map_keys l)) else Some (FQueue l)
          | FMap l _ => Some (FQueue (map_keys l))     (* iterating a map yields its keys *)
          | FStr x => Some (FQueue (map (fun c => FStr [c]) x))
          | FBytes x => Some (FQueue (map (fun c => FNum (NInt (Z.of_N c))) x))
          | FOpaque => Some FOpaque
          | _ => None
          end
        else None            (* no data reader; a dotted name: no such namespace *)
    | _ => None
    end.

  (** _postwalk(resolve_tagged_literals, form) *)
  Fixpoint resolve_tl (f : form) : option form :=
    let fix go (l : list form) : option (list form) :=
      match l with
      | [] => Some []
      | x :: r => match resolve_tl x, go r with Some x', Some r' => Some (x' :: r') | _, _ => None end
      end in
    match f with
    | FTagged t v => match resolve_tl v with Some v' => resolve_tag t v' | None => None end
    | FList l loc => option_map (fun l' => FList l' loc) (go l)
    | FVec l loc => option_map (fun l' => FVec l' loc) (go l)
    | FMap l loc => option_map (fun l' => FMap l' loc) (go l)
    | FSet l loc => option_map (fun l' => FSet l' loc) (go l)
    | _ => Some f
    end.

  (** _select_reader_conditional_branch: None = no feature present *)
  Definition rcond_branch (items : list form) (s : st) : res (option form) :=
    match rcond_select items with
    | None => Ok None s
    | Some v => match resolve_tl v with Some v' => Ok (Some v') s | None => syn s end
    end.

  (* ---------------------------------------------------------------------------------- *)
  (** * Readers which read sub-forms; [rn] is _read_next one level of fuel down *)
  Section WithNext.
    Variable rn : ctx -> st -> res item.

    (** _read_coll / __read_map_elems / _read_reader_conditional_preserving: the elements up to
        [closer]; a splicing reader conditional is spliced in *)
    Fixpoint coll_loop (cx : ctx) (closer : N) (n : nat) (s : st) (acc : list form) : res (list form) :=
      match n with
      | O => Err EFuel
      | S k =>
          match peek s with
          | None => eof s
          | Some c =>
              if is_ws c then coll_loop cx closer k (adv s) acc
              else if c =? closer then Ok (rev acc) (adv s)
              else
                match rn cx s with
                | Err e => Err e
                | Ok (IForm (FRCond true items)) s' =>
                    match rcond_branch items s' with
                    | Err e => Err e
                    | Ok None _ => coll_loop cx closer k s' acc
                    | Ok (Some (FVec l _)) _ => coll_loop cx closer k s' (rev l ++ acc)
                    | Ok (Some _) _ => syn s'
                    end
                | Ok (IForm f) s' => coll_loop cx closer k s' (f :: acc)
                | Ok _ s' => coll_loop cx closer k s' acc
                end
          end
      end.
    Definition read_elems (cx : ctx) (closer : N) (s : st) : res (list form) :=
      coll_loop cx closer (S (length (rest s))) s [].

    (** _read_next_consuming_comment (repaired): the form a prefix applies to *)
    Fixpoint req_loop (cx : ctx) (n : nat) (s : st) : res form :=
      match n with
      | O => Err EFuel
      | S k =>
          let s0 := skipws s in
          match peek s0 with
          | None => eof s0
          | Some _ =>
              match rn cx s0 with
              | Err e => Err e
              | Ok (IForm f) s' => Ok f s'
              | Ok _ s' => req_loop cx k s'
              end
          end
      end.
    Definition req (cx : ctx) (s : st) : res form := req_loop cx (S (length (rest s))) s.

    (** [s] is at the opening delimiter *)
    Definition read_list (cx : ctx) (s : st) : res form :=
      bind (read_elems cx 41 (adv s)) (fun l s' => Ok (FList l (mkloc s s')) s').
    Definition read_vec (cx : ctx) (s : st) : res form :=
      bind (read_elems cx 93 (adv s)) (fun l s' => Ok (FVec l (mkloc s s')) s').
    Definition read_map (cx : ctx) (ns : option (list N)) (s : st) : res form :=
      bind (read_elems cx 125 (adv s)) (fun l s' => map_of ns l (mkloc s s') s').
    Definition read_set (cx : ctx) (s : st) : res form :=
      bind (read_elems cx 125 (adv s)) (fun l s' => set_of l (mkloc s s') s').

    (** _read_namespaced_map (repaired); [s] is at the colon *)
    Definition read_nsmap (cx : ctx) (s : st) : res form :=
      let s1 := adv s in
      let r := match peek s1 with
               | Some 58 => Ok cur_ns (adv s1)
               | _ => bind (read_namespaced s1) (fun p s' =>
                        match fst p with Some _ => syn s' | None => Ok (snd p) s' end)
               end in
      bind r (fun ns s2 =>
        let s3 := skipws s2 in
        match peek s3 with
        | None => eof s3
        | Some c => if c =? 123 then read_map cx (Some ns) s3 else syn s3
        end).

    (** _read_function; [s] is at the ( *)
    Definition read_fn (cx : ctx) (s : st) : res form :=
      if anon cx then syn s
      else bind (read_list (mkctx (sq cx) true (ptl cx)) s) (fun body s' => Ok (fn_form (sq cx) body) s').

    Definition core_sym (name : list N) : form := FSym (Some s_core) name None.

    Definition read_quoted (cx : ctx) (s : st) : res form :=
      bind (req cx (adv s)) (fun f s' => Ok (FList [FSym None s_quote None; f] (mkloc s s')) s').
    Definition read_deref (cx : ctx) (s : st) : res form :=
      bind (req cx (adv s)) (fun f s' => Ok (FList [core_sym s_deref; f] (mkloc s s')) s').
    Definition read_unquote (cx : ctx) (s : st) : res form :=
      let s1 := adv s in
      let cx' := mkctx false (anon cx) (ptl cx) in
      match peek s1 with
      | Some 64 => bind (req cx' (adv s1)) (fun f s' => Ok (FList [core_sym s_unquote_splicing; f] None) s')
      | _ => bind (req cx' s1) (fun f s' => Ok (FList [core_sym s_unquote; f] None) s')
      end.
    Definition read_sq (cx : ctx) (s : st) : res form :=
      bind (req (mkctx true (anon cx) (ptl cx)) (adv s)) sq_process.

    (** _read_meta; the metadata itself is checked and dropped *)
    Definition read_meta (cx : ctx) (s : st) : res form :=
      bind (req cx (adv s)) (fun m s1 =>
        match m with
        | FSym _ _ _ | FKw _ _ | FMap _ _ | FVec _ _ =>
            bind (req cx s1) (fun f s2 => if with_meta_ok f then Ok f s2 else syn s2)
        | _ => syn s1
        end).

    (** _read_var_macro (repaired); [s] is at the quote after # *)
    Definition read_var (cx : ctx) (s : st) : res form :=
      let s1 := adv s in
      match peek s1 with
      | None => eof s1
      | Some c =>
          bind (if c =? 126 then read_unquote cx s1 else read_sym cx false s1)
               (fun f s' => Ok (FList [FSym None s_var None; f] None) s')
      end.

    (** _read_fstr (coarse: a result with expressions is [FOpaque]); [s] is after #f *)
    Fixpoint fstr_loop (cx : ctx) (n : nat) (s : st) (ex : bool) (acc : list N) : res form :=
      match n with
      | O => Err EFuel
      | S k =>
          let s1 := adv s in
          match peek s1 with
          | None => eof s1
          | Some c =>
              if c =? 92 then
                let s2 := adv s1 in
                match peek s2 with
                | None => syn s2
                | Some d =>
                    match assoc d str_escapes with
                    | Some e => fstr_loop cx k s2 ex (e :: acc)
                    | None =>
                        if (d =? 117) || (d =? 85) then
                          match uni_escape s2 with
                          | Ok code p => fstr_loop cx k p ex (code :: acc)
                          | Err e => Err e
                          end
                        else if d =? 123 then fstr_loop cx k s2 ex (d :: acc)
                        else syn s2
                    end
                end
              else if c =? 34 then Ok (if ex then FOpaque else FStr (rev acc)) (adv s1)
              else if c =? 123 then
                match rn cx (adv s1) with
                | Err e => Err e
                | Ok _ s3 => let s4 := skipws s3 in
                             match peek s4 with
                             | Some 125 => fstr_loop cx k s4 true acc
                             | _ => syn s4
                             end
                end
              else fstr_loop cx k s1 ex (c :: acc)
          end
      end.
    Definition read_fstr (cx : ctx) (s : st) : res form :=
      let s0 := skipws s in fstr_loop cx (S (length (rest s0))) s0 false [].

    (** _read_reader_conditional (+ the wrapper, which after the repair passes EOF errors on and
        re-raises syntax errors at the position where they occurred); [s] is at the ? *)
    Definition rcond_body (cx : ctx) (splicing : bool) (s2 : st) : res item :=
      (* open_char = reader.advance() *)
      match peek s2 with
      | Some c =>
          if c =? 40 then
            bind (read_elems (mkctx (sq cx) (anon cx) false) 41 (adv s2)) (fun items s' =>
              if rcond_ok [] items then
                if splicing then Ok (IForm (FRCond true items)) s'
                else bind (rcond_branch items s') (fun o s'' =>
                       match o with Some f => Ok (IForm f) s'' | None => Ok IComment s'' end)
              else syn s')
          else syn (adv s2)
      | None => syn (adv s2)
      end.
    Definition read_rcond (cx : ctx) (s : st) : res item :=
      let s1 := adv s in
      match peek s1 with
      | Some c => if c =? 64 then rcond_body cx true (adv s1)
                  else if c =? 40 then rcond_body cx false s1
                  else syn s1
      | None => syn s1
      end.

    (** a tag: #b, #f, or a tagged literal; [s1] is at the first character of the tag *)
    Definition read_tagged (cx : ctx) (s1 : st) : res item :=
      let form_ := fun (r : res form) => bind r (fun f s' => Ok (IForm f) s') in
      bind (read_sym cx true s1) (fun t s2 =>
        match t with
        | FSym ns name _ =>
            if (match ns with None => true | Some _ => false end) && str_eqb name [98]
            then form_ (read_bytes s2)
            else if (match ns with None => true | Some _ => false end) && str_eqb name [102]
            then form_ (read_fstr cx s2)
            else bind (req cx s2) (fun v s3 =>
                   if ptl cx then
                     match resolve_tag t v with Some f => Ok (IForm f) s3 | None => syn s3 end
                   else Ok (IForm (FTagged t v)) s3)
        | _ => syn s2
        end).

    (** _read_reader_macro; [s] is at the # *)
    Definition read_macro (cx : ctx) (s : st) : res item :=
      let s1 := adv s in
      let form_ := fun (r : res form) => bind r (fun f s' => Ok (IForm f) s') in
      match peek s1 with
      | None => syn s1
      | Some c =>
          match macro_code c with
          | 1 => form_ (read_set cx s1)
          | 2 => form_ (read_fn cx s1)
          | 3 => form_ (read_nsmap cx s1)
          | 4 => form_ (read_var cx s1)
          | 5 => form_ (bind (read_str true s1) (fun p s' => if orc 0 p then Ok (FRegex p) s' else syn s'))
          | 6 => bind (req cx (adv s1)) (fun _ s' => Ok IComment s')
          | 7 => Ok IComment (read_comment s1)
          | 8 => read_rcond cx s1
          | 9 => form_ (read_numconst s1)
          | _ => if is_begin_name c then read_tagged cx s1 else syn s1
          end
      end.
  End WithNext.

  (** _read_next *)
  Fixpoint read_next (fuel : nat) (cx : ctx) (s : st) : res item :=
    match fuel with
    | O => Err EFuel
    | S k =>
        let rn := read_next k in
        let form_ := fun (r : res form) => bind r (fun f s' => Ok (IForm f) s') in
        match peek s with
        | None => Ok IEof s
        | Some c =>
            if is_begin_num c then form_ (read_num cx s)
            else if is_ws c then rn cx (skipws s)
            else
              match dispatch_code c with
              | 1 => form_ (read_list rn cx s)
              | 2 => form_ (read_vec rn cx s)
              | 3 => form_ (read_map rn cx None s)
              | 4 => form_ (bind (read_str false s) (fun p s' => Ok (FStr p) s'))
              | 5 => form_ (read_quoted rn cx s)
              | 6 => form_ (read_char s)
              | 7 => read_macro rn cx s
              | 8 => form_ (read_meta rn cx s)
              | 9 => Ok IComment (read_comment s)
              | 10 => form_ (read_sq rn cx s)
              | 11 => form_ (read_unquote rn cx s)
              | 12 => form_ (read_deref rn cx s)
              | _ => if is_begin_name c then
                       (if c =? 58 then form_ (read_kw s) else form_ (read_sym cx false s))
                     else syn s
              end
        end
    end.

  (** read(): all the forms of the input *)
  Fixpoint read_top (fuel n : nat) (s : st) (acc : list form) : res (list form) :=
    match n with
    | O => Err EFuel
    | S k =>
        match read_next fuel ctx0 s with
        | Err e => Err e
        | Ok IEof s' => Ok (rev acc) s'
        | Ok IComment s' => read_top fuel k s' acc
        | Ok (IForm (FRCond sp l)) s' => syn s'
        | Ok (IForm f) s' => read_top fuel k s' (f :: acc)
        end
    end.

  Definition read_all (inp : list N) : res (list form) :=
    read_top (S (length inp)) (S (length inp)) (init inp) [].
End WithOracle.
