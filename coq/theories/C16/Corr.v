(** C16 correspondence interface: cases, observable outputs, spec predicate, model, defect tag.
    Does not import the proofs. *)
From Coq Require Import List Bool ZArith NArith.
Import ListNotations.
From Verif Require Export Common.ListX C16.Reader C16.Spec.
Local Open Scope N_scope.

(** A case: the input text and the oracle for CPython library calls: the (kind, text) pairs for
    which re.compile (0) / datetime.fromisoformat (1) / uuid.UUID (2) succeed. *)
Inductive case := CRead (s : list N) (valid : list (N * list N)).

Inductive out :=
| OForms (fs : list form) (bad : list span)   (* the forms; the spans whose text does not re-read to an equal form *)
| OSyntax (l c : N)
| OEof (l c : N)
| OOther (k : N)                               (* another exception class *)
| OHarness.                                    (* timeout / hang / harness error *)

Definition orc_of (valid : list (N * list N)) (k : N) (t : list N) : bool :=
  existsb (fun p => (fst p =? k) && str_eqb (snd p) t) valid.

(** ** the span clause: every located sub-form of plain text re-reads from its own span *)
Definition reread_ok (orc : N -> list N -> bool) (s : list N) (f : form) (sp : span) : bool :=
  match sp with
  | (l1, c1, l2, c2) =>
      match slice s l1 c1 l2 c2 with
      | Some t => match read_all orc t with
                  | Ok [g] _ => feq false f g
                  | _ => false
                  end
      | None => false
      end
  end.

Fixpoint bad_spans (orc : N -> list N -> bool) (s : list N) (f : form) : list span :=
  let here := fun (loc : option span) =>
    match loc with Some sp => if reread_ok orc s f sp then [] else [sp] | None => [] end in
  let fix many (l : list form) : list span :=
    match l with [] => [] | x :: r => bad_spans orc s x ++ many r end in
  match f with
  | FSym _ _ loc => here loc
  | FList l loc | FVec l loc | FMap l loc | FSet l loc => here loc ++ many l
  | FQueue l | FPy _ l | FRCond _ l => many l
  | FTagged t v => bad_spans orc s t ++ bad_spans orc s v
  | _ => []
  end.

Fixpoint has_rcond (f : form) : bool :=
  let fix any (l : list form) : bool := match l with [] => false | x :: r => has_rcond x || any r end in
  match f with
  | FRCond _ _ => true
  | FList l _ | FVec l _ | FMap l _ | FSet l _ | FQueue l | FPy _ l => any l
  | FTagged t v => has_rcond t || has_rcond v
  | _ => false
  end.

Definition model (c : case) : out :=
  match c with
  | CRead s valid =>
      let orc := orc_of valid in
      match read_all orc s with
      | Ok fs _ => OForms fs (flat_map (bad_spans orc s) fs)
      | Err (ESyntax l c) => OSyntax l c
      | Err (EEof l c) => OEof l c
      | Err (EOther k) => OOther k
      | Err EFuel => OHarness
      end
  end.

Definition spans_sub (a b : list span) : bool := forallb (fun x => existsb (span_eqb x) b) a.

Definition out_eqb (m i : out) : bool :=
  match m, i with
  | OForms f1 b1, OForms f2 b2 => forms_eq true f1 f2 && spans_sub b1 b2 && spans_sub b2 b1
  | OSyntax l1 c1, OSyntax l2 c2 => (l1 =? l2) && (c1 =? c2)
  | OEof l1 c1, OEof l2 c2 => (l1 =? l2) && (c1 =? c2)
  | OOther _, OOther _ => true
  | _, _ => false
  end.

(** ** what the property prescribes for an answer *)
Definition spec_ok (c : case) (o : out) : bool :=
  match c with
  | CRead s _ =>
      match o with
      | OForms fs bad => negb (existsb has_rcond fs) && (match bad with [] => true | _ => false end)
                         && negb (owed s)
      | OSyntax l c => negb (owed s) && loc_valid s l c
      | OEof l c => loc_at_end s l c
      | OOther _ => false
      | OHarness => false
      end
  end.

(** ** defect tag of the model's answer (0 = none)
    1: a span which starts one character late, after the # of a set / anonymous function, or the
       map of a namespaced map, or a form rewritten inside an anonymous function, or a symbol
       which only the var macro can read (F-16g)
    2: IndexError from the syntax-quote expansion of a one-element (unquote) list (F-16h)
    4: one of the residual prefixes / unterminated strings answered with a plain syntax error (F-16b)
    8: a ReaderConditional object inside a form (F-16i) *)
Fixpoint drop_ws_rev (l : list N) : list N :=
  match l with c :: r => if is_ws c then drop_ws_rev r else l | [] => [] end.
Fixpoint upto_hash (l : list N) (last : N) : bool :=   (* reversed text before the map: name ... : # *)
  match l with
  | c :: r => if c =? 35 then last =? 58
              else if is_ws c || is_term c then false else upto_hash r c
  | [] => false
  end.
Fixpoint has_fn_before (l : list N) : bool :=          (* the text contains #( *)
  match l with
  | 35 :: ((40 :: _) as r) => true
  | _ :: r => has_fn_before r
  | [] => false
  end.
Definition span_explained (s : list N) (sp : span) : bool :=
  match sp with
  | (l1, c1, _, _) =>
      match offset_of s l1 c1 with
      | Some o =>
          let before := rev (firstn o s) in
          (match before with 35 :: _ => true | 39 :: 35 :: _ => true | _ => false end)
          || ((match nth_error s o with Some 123 => true | _ => false end) && upto_hash (drop_ws_rev before) 0)
          || has_fn_before (firstn o s)
      | None => false
      end
  end.

Definition tag (c : case) : N :=
  match c with
  | CRead s _ =>
      match model c with
      | OForms fs bad =>
          (if (match bad with [] => false | _ => true end) && forallb (span_explained s) bad then 1 else 0)
          + (if existsb has_rcond fs then 8 else 0)
      | OOther _ => 2
      | OSyntax _ _ => if owed_resid s then 4 else 0
      | _ => 0
      end
  end.
