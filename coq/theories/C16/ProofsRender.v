(** C16 -- plain text (Spec.pform) is read back exactly, with the spans its sub-forms really
    occupy; text that stops where a plain form is still owed (Spec.pctx) gives an unexpected-EOF
    error.  All statements are "for every fuel: out of fuel or the stated answer"; the top-level
    theorems combine them with C16_terminates. *)
From Coq Require Import List NArith ZArith Bool Lia.
Import ListNotations.
From Verif Require Import Common.ListX C16.Lex C16.Reader C16.Spec C16.ProofsTerm C16.ProofsLoc.
Local Open Scope N_scope.

Lemma peek_rest s c r : rest s = c :: r -> peek s = Some c.
Proof. unfold peek. intros ->. reflexivity. Qed.
Lemma peek_nil s : rest s = [] -> peek s = None.
Proof. unfold peek. intros ->. reflexivity. Qed.

Lemma adv_n_add a b s : adv_n (a + b) s = adv_n b (adv_n a s).
Proof. revert s. induction a; intros; simpl; auto. Qed.
Lemma adv_n_S n s : adv_n (S n) s = adv (adv_n n s).
Proof. replace (S n) with (n + 1)%nat by lia. rewrite adv_n_add. reflexivity. Qed.
Lemma adv_n_app s a b : rest s = a ++ b -> rest (adv_n (length a) s) = b.
Proof.
  intros E. rewrite adv_n_rest, E. rewrite skipn_app, skipn_all, Nat.sub_diag. reflexivity.
Qed.

(** ** letters *)
Definition letters : list N := map N.of_nat (seq 97 26).
Lemma letter_in c : is_letter c = true -> In c letters.
Proof.
  unfold is_letter. intros H. apply andb_true_iff in H as [H1 H2].
  apply N.leb_le in H1, H2. unfold letters. apply in_map_iff. exists (N.to_nat c).
  split; [apply N2Nat.id|]. apply in_seq. lia.
Qed.
Definition letter_props (c : N) : bool :=
  negb (is_ws c) && negb (is_term c) && negb (is_begin_num c) && (dispatch_code c =? 255)
  && is_begin_name c && negb (c =? 58) && negb (is_udigit c) && negb (c =? 47) && negb (c =? 35)
  && negb (c =? 41) && negb (c =? 93) && negb (c =? 34).
Lemma letters_ok : forallb letter_props letters = true.
Proof. vm_compute. reflexivity. Qed.
Lemma letter_ok c : is_letter c = true -> letter_props c = true.
Proof. intros H. apply letter_in in H. pose proof letters_ok as A. rewrite forallb_forall in A. auto. Qed.

Lemma letter_facts c : is_letter c = true ->
  is_ws c = false /\ is_term c = false /\ is_begin_num c = false /\ dispatch_code c = 255 /\
  is_begin_name c = true /\ (c =? 58) = false /\ is_udigit c = false /\ (c =? 47) = false /\
  (c =? 35) = false /\ (c =? 41) = false /\ (c =? 93) = false /\ (c =? 34) = false.
Proof.
  intros H. pose proof (letter_ok c H) as P. unfold letter_props in P.
  repeat match goal with
         | X : _ && _ = true |- _ => apply andb_true_iff in X; destruct X
         end.
  repeat match goal with
         | X : negb _ = true |- _ => apply negb_true_iff in X
         end.
  match goal with X : (dispatch_code c =? 255) = true |- _ => apply N.eqb_eq in X end.
  repeat split; assumption.
Qed.
Ltac lfacts c H :=
  destruct (letter_facts c H) as (Lws & Lterm & Lnum & Ldisp & Lname & L58 & Ldig & L47 & L35 & L41 & L93 & L34).

(** ** symbols *)
Definition tcond (r : list N) : Prop :=
  r = [] \/ exists c r', r = c :: r' /\ (is_ws c || is_term c) = true.

Lemma take_token_letters name : forall r s acc n,
  rest s = name ++ r -> forallb is_letter name = true -> tcond r -> (length name <= n)%nat ->
  take_token n s acc = (rev acc ++ name, adv_n (length name) s).
Proof.
  induction name as [|c t IH]; intros r s acc n E F T L.
  - simpl in *. rewrite app_nil_r. destruct n; simpl; [reflexivity|].
    destruct T as [->|(d & r' & -> & W)].
    + rewrite (peek_nil _ E). reflexivity.
    + rewrite (peek_rest _ _ _ E). rewrite W. reflexivity.
  - simpl in F. apply andb_true_iff in F as [Fc Ft]. destruct n; [simpl in L; lia|].
    simpl. rewrite (peek_rest _ _ _ E). lfacts c Fc.
    rewrite Lws, Lterm. cbn [orb].
    erewrite IH; [|eapply adv_rest; exact E|exact Ft|exact T|simpl in L; lia].
    simpl. rewrite <- app_assoc. reflexivity.
Qed.

Lemma after_last_slash_none l acc : forallb is_letter l = true -> after_last_slash acc l = acc.
Proof.
  revert acc. induction l as [|c t IH]; intros acc F; simpl; [reflexivity|].
  simpl in F. apply andb_true_iff in F as [Fc Ft]. lfacts c Fc. rewrite L47. apply IH. exact Ft.
Qed.
Lemma split_slash_none l : forallb is_letter l = true -> split_slash l = None.
Proof.
  induction l as [|c t IH]; intros F; simpl; [reflexivity|].
  simpl in F. apply andb_true_iff in F as [Fc Ft]. lfacts c Fc. rewrite L47, (IH Ft). reflexivity.
Qed.
Lemma ident_ok_letters name :
  name <> [] -> forallb is_letter name = true -> ident_ok name = true /\ split_ident name = (None, name).
Proof.
  intros NE F. destruct name as [|c t]; [congruence|]. pose proof F as F0.
  simpl in F. apply andb_true_iff in F as [Fc Ft]. lfacts c Fc.
  assert (N47 : c <> 47) by (apply N.eqb_neq; assumption).
  assert (S47 : str_eqb (c :: t) [47] = false).
  { unfold str_eqb. cbn [list_eqb]. rewrite L47. reflexivity. }
  split.
  - unfold ident_ok. rewrite S47. rewrite (after_last_slash_none _ None F0).
    unfold name_start. rewrite Ldig, L47. reflexivity.
  - unfold split_ident. rewrite S47. rewrite (split_slash_none _ F0). reflexivity.
Qed.

Lemma ends_with_letters name c0 : forallb is_letter name = true -> is_letter c0 = false -> ends_with c0 name = false.
Proof.
  intros F NL. unfold ends_with. destruct (rev name) as [|d l] eqn:E; [reflexivity|].
  assert (I : In d name) by (apply in_rev; rewrite E; left; reflexivity).
  rewrite forallb_forall in F. specialize (F _ I).
  destruct (N.eqb_spec d c0); [subst; congruence|reflexivity].
Qed.

Lemma read_sym_render cx name r s :
  sq cx = false -> rest s = name ++ r -> wf (PSym name) = true -> tcond r ->
  read_sym cx false s = Ok (FSym None name (mkloc s (adv_n (length name) s))) (adv_n (length name) s).
Proof.
  intros SQ E W T. simpl in W. apply andb_true_iff in W as [W R]. apply andb_true_iff in W as [NE F].
  assert (NE' : name <> []) by (destruct name; [discriminate|congruence]).
  destruct (ident_ok_letters name NE' F) as [IO SI].
  unfold read_sym, read_namespaced, token.
  rewrite (take_token_letters name r s [] (length (rest s)) E F T) by (rewrite E, app_length; lia).
  simpl. rewrite IO. simpl. rewrite SI. rewrite SQ. simpl.
  rewrite (ends_with_letters name 35 F eq_refl).
  apply negb_true_iff in R. unfold reserved in R.
  apply orb_false_iff in R as [R R3]. apply orb_false_iff in R as [R1 R2].
  unfold s_nil, s_true, s_false. rewrite R1, R2, R3. reflexivity.
Qed.

(** ** strings *)
Definition strchars_ok (c : list N) : bool := forallb (fun x => negb (x =? 34) && negb (x =? 92)) c.

Lemma str_loop_render chars : forall r s acc n,
  rest (adv s) = chars ++ 34 :: r -> strchars_ok chars = true ->
  str_loop false n s acc = Err EFuel \/
  str_loop false n s acc = Ok (rev acc ++ chars) (adv (adv_n (length chars) (adv s))).
Proof.
  induction chars as [|c t IH]; intros r s acc n E W.
  - destruct n; [left; reflexivity|]. right. simpl.
    rewrite (peek_rest _ _ _ E). change (34 =? 92) with false. change (34 =? 34) with true.
    cbn match. rewrite app_nil_r. reflexivity.
  - destruct n; [left; reflexivity|]. simpl in W. apply andb_true_iff in W as [Wc Wt].
    apply andb_true_iff in Wc as [W34 W92]. apply negb_true_iff in W34, W92.
    simpl. rewrite (peek_rest _ _ _ E). rewrite W92, W34.
    destruct (IH r (adv s) (c :: acc) n) as [H|H]; [eapply adv_rest; exact E|exact Wt|left; exact H|].
    right. rewrite H. simpl. rewrite <- app_assoc. reflexivity.
Qed.

(** ** the expected forms *)
Fixpoint reify (f : pform) (s : st) : form :=
  let e := adv_n (length (render f)) s in
  let fix seq (l : list pform) (s : st) : list form :=
    match l with
    | [] => []
    | x :: r => reify x s :: seq r (adv_n (S (length (render x))) s)
    end in
  match f with
  | PSym n => FSym None n (mkloc s e)
  | PStr c => FStr c
  | PList l => FList (seq l (adv s)) (mkloc s e)
  | PVec l => FVec (seq l (adv s)) (mkloc s e)
  | PQuote g => FList [FSym None s_quote None; reify g (adv s)] (mkloc s e)
  | PDeref g => FList [FSym (Some s_core) s_deref None; reify g (adv s)] (mkloc s e)
  end.
Fixpoint reify_seq (l : list pform) (s : st) : list form :=
  match l with
  | [] => []
  | x :: r => reify x s :: reify_seq r (adv_n (S (length (render x))) s)
  end.

Lemma render_seq_eq l :
  (fix seq (l : list pform) : list N :=
     match l with [] => [] | [x] => render x | x :: r => render x ++ 32 :: seq r end) l = render_seq l.
Proof. induction l as [|x r IH]; [reflexivity|]. destruct r as [|y r]; [reflexivity|]. change (render_seq (x :: y :: r)) with (render x ++ 32 :: render_seq (y :: r)). rewrite <- IH. reflexivity. Qed.
Lemma render_list l : render (PList l) = 40 :: render_seq l ++ [41].
Proof. cbn [render]. rewrite render_seq_eq. reflexivity. Qed.
Lemma render_vec l : render (PVec l) = 91 :: render_seq l ++ [93].
Proof. cbn [render]. rewrite render_seq_eq. reflexivity. Qed.
Lemma reify_seq_eq l : forall s,
  (fix seq (l : list pform) (s : st) : list form :=
     match l with [] => [] | x :: r => reify x s :: seq r (adv_n (S (length (render x))) s) end) l s
  = reify_seq l s.
Proof. induction l as [|x r IH]; intros s; [reflexivity|]. cbn [reify_seq]. Show. Abort.
Lemma reify_list l s :
  reify (PList l) s = FList (reify_seq l (adv s)) (mkloc s (adv_n (length (render (PList l))) s)).
Proof. cbn [reify]. rewrite reify_seq_eq. reflexivity. Qed.
Lemma reify_vec l s :
  reify (PVec l) s = FVec (reify_seq l (adv s)) (mkloc s (adv_n (length (render (PVec l))) s)).
Proof. cbn [reify]. rewrite reify_seq_eq. reflexivity. Qed.

(** the first character of a rendered form: not whitespace, not a closer *)
Definition head_ok (c : N) : Prop :=
  is_ws c = false /\ (c =? 41) = false /\ (c =? 93) = false.
Lemma render_head f : wf f = true -> exists c t, render f = c :: t /\ head_ok c.
Proof.
  destruct f; intros W.
  - simpl in W. apply andb_true_iff in W as [W _]. apply andb_true_iff in W as [NE F].
    destruct name as [|c t]; [discriminate|]. exists c, t. split; [reflexivity|].
    simpl in F. apply andb_true_iff in F as [Fc _]. lfacts c Fc. repeat split; assumption.
  - exists 34, (chars ++ [34]). split; [reflexivity|]. repeat split; reflexivity.
  - rewrite render_list. eexists _, _. split; [reflexivity|]. repeat split; reflexivity.
  - rewrite render_vec. eexists _, _. split; [reflexivity|]. repeat split; reflexivity.
  - eexists _, _. split; [reflexivity|]. repeat split; reflexivity.
  - eexists _, _. split; [reflexivity|]. repeat split; reflexivity.
Qed.
