(** C16 -- plain text (Spec.pform) is read back exactly, with the spans its sub-forms really
    occupy; text that stops where a plain form is still owed (Spec.pctx) gives an unexpected-EOF
    error.  All statements are "for every fuel: out of fuel or the stated answer"; the top-level
    theorems combine them with C16_terminates. *)
From Coq Require Import List NArith ZArith Bool Lia.
Import ListNotations.
From Verif Require Import Common.ListX C16.Lex C16.Reader C16.Spec C16.ProofsTerm C16.ProofsLoc.
Local Open Scope N_scope.

Lemma peek_rest s c r : rest s = c :: r -> peek s = Some c.
Proof. unfold peek. intros ->. reflexivity. Qed.
Lemma peek_nil s : rest s = [] -> peek s = None.
Proof. unfold peek. intros ->. reflexivity. Qed.

Lemma adv_n_add a b s : adv_n (a + b) s = adv_n b (adv_n a s).
Proof. revert s. induction a; intros; simpl; auto. Qed.
Lemma adv_n_S n s : adv_n (S n) s = adv (adv_n n s).
Proof. replace (S n) with (n + 1)%nat by lia. rewrite adv_n_add. reflexivity. Qed.
Lemma adv_n_app s a b : rest s = a ++ b -> rest (adv_n (length a) s) = b.
Proof.
  intros E. rewrite adv_n_rest, E. rewrite skipn_app, skipn_all, Nat.sub_diag. reflexivity.
Qed.

(** ** letters *)
Definition letters : list N := map N.of_nat (seq 97 26).
Lemma letter_in c : is_letter c = true -> In c letters.
Proof.
  unfold is_letter. intros H. apply andb_true_iff in H as [H1 H2].
  apply N.leb_le in H1, H2. unfold letters. apply in_map_iff. exists (N.to_nat c).
  split; [apply N2Nat.id|]. apply in_seq. lia.
Qed.
Definition letter_props (c : N) : bool :=
  negb (is_ws c) && negb (is_term c) && negb (is_begin_num c) && (dispatch_code c =? 255)
  && is_begin_name c && negb (c =? 58) && negb (is_udigit c) && negb (c =? 47) && negb (c =? 35)
  && negb (c =? 41) && negb (c =? 93) && negb (c =? 34).
Lemma letters_ok : forallb letter_props letters = true.
Proof. vm_compute. reflexivity. Qed.
Lemma letter_ok c : is_letter c = true -> letter_props c = true.
Proof. intros H. apply letter_in in H. pose proof letters_ok as A. rewrite forallb_forall in A. auto. Qed.

Lemma letter_facts c : is_letter c = true ->
  is_ws c = false /\ is_term c = false /\ is_begin_num c = false /\ dispatch_code c = 255 /\
  is_begin_name c = true /\ (c =? 58) = false /\ is_udigit c = false /\ (c =? 47) = false /\
  (c =? 35) = false /\ (c =? 41) = false /\ (c =? 93) = false /\ (c =? 34) = false.
Proof.
  intros H. pose proof (letter_ok c H) as P. unfold letter_props in P.
  repeat match goal with
         | X : _ && _ = true |- _ => apply andb_true_iff in X; destruct X
         end.
  repeat match goal with
         | X : negb _ = true |- _ => apply negb_true_iff in X
         end.
  match goal with X : (dispatch_code c =? 255) = true |- _ => apply N.eqb_eq in X end.
  repeat split; assumption.
Qed.
Ltac lfacts c H :=
  destruct (letter_facts c H) as (Lws & Lterm & Lnum & Ldisp & Lname & L58 & Ldig & L47 & L35 & L41 & L93 & L34).

(** ** symbols *)
Definition tcond (r : list N) : Prop :=
  r = [] \/ exists c r', r = c :: r' /\ (is_ws c || is_term c) = true.

Lemma take_token_letters name : forall r s acc n,
  rest s = name ++ r -> forallb is_letter name = true -> tcond r -> (length name <= n)%nat ->
  take_token n s acc = (rev acc ++ name, adv_n (length name) s).
Proof.
  induction name as [|c t IH]; intros r s acc n E F T L.
  - simpl in *. rewrite app_nil_r. destruct n; simpl; [reflexivity|].
    destruct T as [->|(d & r' & -> & W)].
    + rewrite (peek_nil _ E). reflexivity.
    + rewrite (peek_rest _ _ _ E). rewrite W. reflexivity.
  - simpl in F. apply andb_true_iff in F as [Fc Ft]. destruct n; [simpl in L; lia|].
    simpl. rewrite (peek_rest _ _ _ E). lfacts c Fc.
    rewrite Lws, Lterm. cbn [orb].
    erewrite IH; [|eapply adv_rest; exact E|exact Ft|exact T|simpl in L; lia].
    simpl. rewrite <- app_assoc. reflexivity.
Qed.

Lemma after_last_slash_none l acc : forallb is_letter l = true -> after_last_slash acc l = acc.
Proof.
  revert acc. induction l as [|c t IH]; intros acc F; simpl; [reflexivity|].
  simpl in F. apply andb_true_iff in F as [Fc Ft]. lfacts c Fc. rewrite L47. apply IH. exact Ft.
Qed.
Lemma split_slash_none l : forallb is_letter l = true -> split_slash l = None.
Proof.
  induction l as [|c t IH]; intros F; simpl; [reflexivity|].
  simpl in F. apply andb_true_iff in F as [Fc Ft]. lfacts c Fc. rewrite L47, (IH Ft). reflexivity.
Qed.
Lemma ident_ok_letters name :
  name <> [] -> forallb is_letter name = true -> ident_ok name = true /\ split_ident name = (None, name).
Proof.
  intros NE F. destruct name as [|c t]; [congruence|]. pose proof F as F0.
  simpl in F. apply andb_true_iff in F as [Fc Ft]. lfacts c Fc.
  assert (N47 : c <> 47) by (apply N.eqb_neq; assumption).
  assert (S47 : str_eqb (c :: t) [47] = false).
  { unfold str_eqb. cbn [list_eqb]. rewrite L47. reflexivity. }
  split.
  - unfold ident_ok. rewrite S47. rewrite (after_last_slash_none _ None F0).
    unfold name_start. rewrite Ldig, L47. reflexivity.
  - unfold split_ident. rewrite S47. rewrite (split_slash_none _ F0). reflexivity.
Qed.

Lemma ends_with_letters name c0 : forallb is_letter name = true -> is_letter c0 = false -> ends_with c0 name = false.
Proof.
  intros F NL. unfold ends_with. destruct (rev name) as [|d l] eqn:E; [reflexivity|].
  assert (I : In d name) by (apply in_rev; rewrite E; left; reflexivity).
  rewrite forallb_forall in F. specialize (F _ I).
  destruct (N.eqb_spec d c0); [subst; congruence|reflexivity].
Qed.

Lemma read_sym_render cx name r s :
  sq cx = false -> rest s = name ++ r -> wf (PSym name) = true -> tcond r ->
  read_sym cx false s = Ok (FSym None name (mkloc s (adv_n (length name) s))) (adv_n (length name) s).
Proof.
  intros SQ E W T. simpl in W. apply andb_true_iff in W as [W R]. apply andb_true_iff in W as [NE F].
  assert (NE' : name <> []) by (destruct name; [discriminate|congruence]).
  destruct (ident_ok_letters name NE' F) as [IO SI].
  unfold read_sym, read_namespaced, token.
  rewrite (take_token_letters name r s [] (length (rest s)) E F T) by (rewrite E, app_length; lia).
  simpl. rewrite IO. simpl. rewrite SI. rewrite SQ. simpl.
  rewrite (ends_with_letters name 35 F eq_refl).
  apply negb_true_iff in R. unfold reserved in R.
  apply orb_false_iff in R as [R R3]. apply orb_false_iff in R as [R1 R2].
  unfold s_nil, s_true, s_false. rewrite R1, R2, R3. reflexivity.
Qed.

(** ** strings *)
Definition strchars_ok (c : list N) : bool := forallb (fun x => negb (x =? 34) && negb (x =? 92)) c.

Lemma str_loop_render chars : forall r s acc n,
  rest (adv s) = chars ++ 34 :: r -> strchars_ok chars = true ->
  str_loop false n s acc = Err EFuel \/
  str_loop false n s acc = Ok (rev acc ++ chars) (adv (adv_n (length chars) (adv s))).
Proof.
  induction chars as [|c t IH]; intros r s acc n E W.
  - destruct n; [left; reflexivity|]. right. simpl.
    rewrite (peek_rest _ _ _ E). change (34 =? 92) with false. change (34 =? 34) with true.
    cbn match. rewrite app_nil_r. reflexivity.
  - destruct n; [left; reflexivity|]. simpl in W. apply andb_true_iff in W as [Wc Wt].
    apply andb_true_iff in Wc as [W34 W92]. apply negb_true_iff in W34, W92.
    simpl. rewrite (peek_rest _ _ _ E). rewrite W92, W34.
    destruct (IH r (adv s) (c :: acc) n) as [H|H]; [eapply adv_rest; exact E|exact Wt|left; exact H|].
    right. rewrite H. simpl. rewrite <- app_assoc. reflexivity.
Qed.

(** ** the expected forms *)
Fixpoint reify (f : pform) (s : st) : form :=
  let e := adv_n (length (render f)) s in
  let fix seq (l : list pform) (s : st) : list form :=
    match l with
    | [] => []
    | x :: r => reify x s :: seq r (adv_n (S (length (render x))) s)
    end in
  match f with
  | PSym n => FSym None n (mkloc s e)
  | PStr c => FStr c
  | PList l => FList (seq l (adv s)) (mkloc s e)
  | PVec l => FVec (seq l (adv s)) (mkloc s e)
  | PQuote g => FList [FSym None s_quote None; reify g (adv s)] (mkloc s e)
  | PDeref g => FList [FSym (Some s_core) s_deref None; reify g (adv s)] (mkloc s e)
  end.
Fixpoint reify_seq (l : list pform) (s : st) : list form :=
  match l with
  | [] => []
  | x :: r => reify x s :: reify_seq r (adv_n (S (length (render x))) s)
  end.

Lemma render_seq_eq l :
  (fix seq (l : list pform) : list N :=
     match l with [] => [] | [x] => render x | x :: r => render x ++ 32 :: seq r end) l = render_seq l.
Proof. induction l as [|x r IH]; [reflexivity|]. destruct r as [|y r]; [reflexivity|]. change (render_seq (x :: y :: r)) with (render x ++ 32 :: render_seq (y :: r)). rewrite <- IH. reflexivity. Qed.
Lemma render_list l : render (PList l) = 40 :: render_seq l ++ [41].
Proof. cbn [render]. rewrite render_seq_eq. reflexivity. Qed.
Lemma render_vec l : render (PVec l) = 91 :: render_seq l ++ [93].
Proof. cbn [render]. rewrite render_seq_eq. reflexivity. Qed.
Lemma reify_seq_eq l : forall s,
  (fix seq (l : list pform) (s : st) : list form :=
     match l with [] => [] | x :: r => reify x s :: seq r (adv_n (S (length (render x))) s) end) l s
  = reify_seq l s.
Proof. induction l as [|x r IH]; intros s; [reflexivity|]. cbn [reify_seq]. rewrite IH. reflexivity. Qed.
Lemma reify_list l s :
  reify (PList l) s = FList (reify_seq l (adv s)) (mkloc s (adv_n (length (render (PList l))) s)).
Proof. cbn [reify]. rewrite reify_seq_eq. reflexivity. Qed.
Lemma reify_vec l s :
  reify (PVec l) s = FVec (reify_seq l (adv s)) (mkloc s (adv_n (length (render (PVec l))) s)).
Proof. cbn [reify]. rewrite reify_seq_eq. reflexivity. Qed.

(** the first character of a rendered form: not whitespace, not a closer *)
Definition head_ok (c : N) : Prop :=
  is_ws c = false /\ (c =? 41) = false /\ (c =? 93) = false.
Lemma render_head f : wf f = true -> exists c t, render f = c :: t /\ head_ok c.
Proof.
  destruct f; intros W.
  - simpl in W. apply andb_true_iff in W as [W _]. apply andb_true_iff in W as [NE F].
    destruct name as [|c t]; [discriminate|]. exists c, t. split; [reflexivity|].
    simpl in F. apply andb_true_iff in F as [Fc _]. lfacts c Fc. repeat split; assumption.
  - exists 34, (chars ++ [34]). split; [reflexivity|]. repeat split; reflexivity.
  - rewrite render_list. eexists _, _. split; [reflexivity|]. repeat split; reflexivity.
  - rewrite render_vec. eexists _, _. split; [reflexivity|]. repeat split; reflexivity.
  - eexists _, _. split; [reflexivity|]. repeat split; reflexivity.
  - eexists _, _. split; [reflexivity|]. repeat split; reflexivity.
Qed.

(** ** induction principle for nested forms *)
Section PInd.
  Variable P : pform -> Prop.
  Hypothesis HSym : forall n, P (PSym n).
  Hypothesis HStr : forall c, P (PStr c).
  Hypothesis HList : forall l, Forall P l -> P (PList l).
  Hypothesis HVec : forall l, Forall P l -> P (PVec l).
  Hypothesis HQ : forall g, P g -> P (PQuote g).
  Hypothesis HD : forall g, P g -> P (PDeref g).
  Fixpoint pform_ind' (f : pform) : P f :=
    match f with
    | PSym n => HSym n
    | PStr c => HStr c
    | PList l => HList l ((fix go (l : list pform) : Forall P l :=
                             match l with [] => Forall_nil _ | x :: r => Forall_cons _ (pform_ind' x) (go r) end) l)
    | PVec l => HVec l ((fix go (l : list pform) : Forall P l :=
                           match l with [] => Forall_nil _ | x :: r => Forall_cons _ (pform_ind' x) (go r) end) l)
    | PQuote g => HQ g (pform_ind' g)
    | PDeref g => HD g (pform_ind' g)
    end.
End PInd.

Lemma skipws_nonws s c : peek s = Some c -> is_ws c = false -> skipws s = s.
Proof.
  intros P W. unfold skipws. apply peek_some in P as [r E]. rewrite E. simpl.
  unfold peek. rewrite E. simpl. rewrite W. reflexivity.
Qed.

Lemma reify_not_rcond f s : match reify f s with FRCond _ _ => False | _ => True end.
Proof. destruct f; exact I. Qed.

Lemma tcond_closer c r : c = 41 \/ c = 93 -> tcond (c :: r).
Proof. intros [->| ->]; right; eexists _, _; split; reflexivity. Qed.
Lemma tcond_space r : tcond (32 :: r).
Proof. right. eexists _, _. split; reflexivity. Qed.

Section Core.
  Variable orc : N -> list N -> bool.

  Definition RR (f : pform) : Prop :=
    wf f = true -> forall fuel cx s r,
      sq cx = false -> rest s = render f ++ r -> tcond r ->
      read_next orc fuel cx s = Err EFuel \/
      read_next orc fuel cx s = Ok (IForm (reify f s)) (adv_n (length (render f)) s).

  (** the elements of a collection, up to and including the closer *)
  Lemma coll_render k cx closer : sq cx = false -> closer = 41 \/ closer = 93 ->
    forall l, Forall RR l -> forallb wf l = true ->
    forall n s acc r, rest s = render_seq l ++ closer :: r ->
      coll_loop orc (read_next orc k) cx closer n s acc = Err EFuel \/
      coll_loop orc (read_next orc k) cx closer n s acc
        = Ok (rev acc ++ reify_seq l s) (adv_n (S (length (render_seq l))) s).
  Proof.
    intros SQ CL. 
    assert (CW : is_ws closer = false) by (destruct CL as [->| ->]; reflexivity).
    induction l as [|x t IH]; intros FA W n s acc r E.
    - destruct n; [left; reflexivity|]. right. simpl in *.
      rewrite (peek_rest _ _ _ E), CW, N.eqb_refl. rewrite app_nil_r. reflexivity.
    - destruct n; [left; reflexivity|].
      inversion FA as [|? ? Rx Rt]; subst. simpl in W. apply andb_true_iff in W as [Wx Wt].
      destruct (render_head x Wx) as (c & tl & HX & HW & H41 & H93).
      (* the text after x *)
      set (after := match t with [] => closer :: r | _ => 32 :: render_seq t ++ closer :: r end).
      assert (E' : rest s = render x ++ after).
      { rewrite E. unfold after. destruct t; simpl; [reflexivity|]. rewrite <- app_assoc. reflexivity. }
      assert (TC : tcond after).
      { unfold after. destruct t; [apply tcond_closer; exact CL|apply tcond_space]. }
      assert (P : peek s = Some c) by (eapply peek_rest; rewrite E', HX; reflexivity).
      assert (NC : (c =? closer) = false) by (destruct CL as [->| ->]; assumption).
      simpl. rewrite P, HW, NC.
      destruct (Rx Wx k cx s after SQ E' TC) as [H|H]; rewrite H; [left; reflexivity|].
      pose proof (reify_not_rcond x s) as NR.
      cbn [reify_seq]. remember (reify x s) as fx eqn:Efx.
      set (s' := adv_n (length (render x)) s) in *.
      assert (ES' : rest s' = after) by (apply adv_n_app; exact E').
      assert (STEP : coll_loop orc (read_next orc k) cx closer n s' (fx :: acc) = Err EFuel \/
                     coll_loop orc (read_next orc k) cx closer n s' (fx :: acc)
                     = Ok (rev acc ++ fx :: reify_seq t (adv_n (S (length (render x))) s))
                          (adv_n (S (length (render_seq (x :: t)))) s)).
      { destruct t as [|y t'].
        - (* x was the last element *)
          destruct (IH Rt Wt n s' (fx :: acc) r ES') as [G|G]; [left; exact G|]. right.
          rewrite G. simpl. rewrite <- app_assoc. unfold s'. f_equal.
          rewrite <- adv_n_S. reflexivity.
        - (* a space, then the rest *)
          destruct n; [left; reflexivity|]. unfold after in ES'.
          simpl. rewrite (peek_rest _ _ _ ES'). change (is_ws 32) with true. cbn match.
          assert (ES'' : rest (adv s') = render_seq (y :: t') ++ closer :: r) by (eapply adv_rest; exact ES').
          destruct (IH Rt Wt n (adv s') (fx :: acc) r ES'') as [G|G]; [left; exact G|]. right.
          rewrite G. cbn [reify_seq rev]. rewrite <- app_assoc. cbn [app].
          assert (A1 : adv s' = adv_n (S (length (render x))) s) by (unfold s'; rewrite adv_n_S; reflexivity).
          rewrite A1. f_equal.
          assert (LEN : S (length (render_seq (x :: y :: t'))) =
                        (S (length (render x)) + S (length (render_seq (y :: t'))))%nat).
          { change (render_seq (x :: y :: t')) with (render x ++ 32 :: render_seq (y :: t')).
            remember (render_seq (y :: t')) as RS. rewrite app_length. cbn [length]. lia. }
          transitivity (adv_n (S (length (render_seq (x :: y :: t')))) s);
            [rewrite LEN, adv_n_add; reflexivity|reflexivity]. }
      clear Efx. destruct fx; try contradiction; exact STEP.
  Qed.

  Lemma read_next_step k cx s c :
    peek s = Some c -> is_begin_num c = false -> is_ws c = false ->
    read_next orc (S k) cx s =
      let rn := read_next orc k in
      let form_ := fun (r : res form) => bind r (fun f s' => Ok (IForm f) s') in
      match dispatch_code c with
      | 1 => form_ (read_list orc rn cx s)
      | 2 => form_ (read_vec orc rn cx s)
      | 3 => form_ (read_map orc rn cx None s)
      | 4 => form_ (bind (read_str false s) (fun p s' => Ok (FStr p) s'))
      | 5 => form_ (read_quoted rn cx s)
      | 6 => form_ (read_char s)
      | 7 => read_macro orc rn cx s
      | 8 => form_ (read_meta rn cx s)
      | 9 => Ok IComment (read_comment s)
      | 10 => form_ (read_sq rn cx s)
      | 11 => form_ (read_unquote rn cx s)
      | 12 => form_ (read_deref rn cx s)
      | _ => if is_begin_name c then
               (if c =? 58 then form_ (read_kw s) else form_ (read_sym cx false s))
             else syn s
      end.
  Proof. intros P B W. cbn [read_next]. rewrite P, B, W. reflexivity. Qed.

  Lemma req_render k cx g s r :
    RR g -> wf g = true -> sq cx = false -> rest s = render g ++ r -> tcond r ->
    req (read_next orc k) cx s = Err EFuel \/
    req (read_next orc k) cx s = Ok (reify g s) (adv_n (length (render g)) s).
  Proof.
    intros R W SQ E T. unfold req. cbn [req_loop].
    destruct (render_head g W) as (c & tl & HX & HW & _).
    assert (P : peek s = Some c) by (eapply peek_rest; rewrite E, HX; reflexivity).
    rewrite (skipws_nonws _ _ P HW), P.
    destruct (R W k cx s r SQ E T) as [H|H]; rewrite H; [left|right]; reflexivity.
  Qed.

  Theorem read_render f : RR f.
  Proof.
    induction f using pform_ind'; intros W fuel cx s r SQ E T; (destruct fuel as [|k]; [left; reflexivity|]).
    - (* symbol *)
      pose proof W as W0. simpl in W. apply andb_true_iff in W as [W _]. apply andb_true_iff in W as [NE F].
      destruct n as [|c t]; [discriminate|]. simpl in F. apply andb_true_iff in F as [Fc _]. lfacts c Fc.
      assert (P : peek s = Some c) by (eapply peek_rest; exact E).
      right. rewrite (read_next_step k cx s c P Lnum Lws). cbv zeta. rewrite Ldisp. cbn match.
      rewrite Lname, L58. rewrite (read_sym_render cx (c :: t) r s SQ E W0 T). reflexivity.
    - (* string *)
      cbn [render] in E. assert (P : peek s = Some 34) by (eapply peek_rest; exact E).
      rewrite (read_next_step k cx s 34 P eq_refl eq_refl). cbv zeta.
      change (dispatch_code 34) with 4. cbn match. unfold read_str.
      assert (E1 : rest (adv s) = c ++ 34 :: r).
      { apply (adv_rest s 34). rewrite E. cbn [app]. rewrite <- app_assoc. reflexivity. }
      destruct (str_loop_render c r s [] (S (length (rest s))) E1 W) as [H|H]; rewrite H; [left; reflexivity|].
      right. cbn [bind rev app reify]. f_equal.
      assert (LEN : length (render (PStr c)) = S (S (length c))).
      { cbn [render length]. rewrite app_length. cbn [length]. lia. }
      rewrite LEN, <- adv_n_S. reflexivity.
    - (* list *)
      rewrite render_list in E. assert (P : peek s = Some 40) by (eapply peek_rest; exact E).
      rewrite (read_next_step k cx s 40 P eq_refl eq_refl). cbv zeta.
      change (dispatch_code 40) with 1. cbn match. unfold read_list, read_elems.
      assert (E1 : rest (adv s) = render_seq l ++ 41 :: r).
      { apply (adv_rest s 40). rewrite E. cbn [app]. rewrite <- app_assoc. reflexivity. }
      destruct (coll_render k cx 41 SQ (or_introl eq_refl) l H W (S (length (rest (adv s)))) (adv s) [] r E1) as [G|G];
        rewrite G; [left; reflexivity|].
      right. cbn [bind rev app]. rewrite reify_list.
      assert (LEN : length (render (PList l)) = S (S (length (render_seq l)))).
      { rewrite render_list. cbn [length]. rewrite app_length. cbn [length]. lia. }
      rewrite LEN. reflexivity.
    - (* vector *)
      rewrite render_vec in E. assert (P : peek s = Some 91) by (eapply peek_rest; exact E).
      rewrite (read_next_step k cx s 91 P eq_refl eq_refl). cbv zeta.
      change (dispatch_code 91) with 2. cbn match. unfold read_vec, read_elems.
      assert (E1 : rest (adv s) = render_seq l ++ 93 :: r).
      { apply (adv_rest s 91). rewrite E. cbn [app]. rewrite <- app_assoc. reflexivity. }
      destruct (coll_render k cx 93 SQ (or_intror eq_refl) l H W (S (length (rest (adv s)))) (adv s) [] r E1) as [G|G];
        rewrite G; [left; reflexivity|].
      right. cbn [bind rev app]. rewrite reify_vec.
      assert (LEN : length (render (PVec l)) = S (S (length (render_seq l)))).
      { rewrite render_vec. cbn [length]. rewrite app_length. cbn [length]. lia. }
      rewrite LEN. reflexivity.
    - (* quote *)
      cbn [render] in E. assert (P : peek s = Some 39) by (eapply peek_rest; exact E).
      rewrite (read_next_step k cx s 39 P eq_refl eq_refl). cbv zeta.
      change (dispatch_code 39) with 5. cbn match. unfold read_quoted.
      assert (E1 : rest (adv s) = render f ++ r) by (eapply adv_rest; exact E).
      destruct (req_render k cx f (adv s) r IHf W SQ E1 T) as [G|G]; rewrite G; [left; reflexivity|].
      right. reflexivity.
    - (* deref *)
      cbn [render] in E. assert (P : peek s = Some 64) by (eapply peek_rest; exact E).
      rewrite (read_next_step k cx s 64 P eq_refl eq_refl). cbv zeta.
      change (dispatch_code 64) with 12. cbn match. unfold read_deref.
      assert (E1 : rest (adv s) = render f ++ r) by (eapply adv_rest; exact E).
      destruct (req_render k cx f (adv s) r IHf W SQ E1 T) as [G|G]; rewrite G; [left; reflexivity|].
      right. reflexivity.
  Qed.
End Core.

(* ------------------------------------------------------------------------------------ *)
(** ** complete plain forms: the whole text *)
Section Top.
  Variable orc : N -> list N -> bool.

  Lemma tcond_nil : tcond [].
  Proof. left. reflexivity. Qed.

  Lemma render_nonempty f : wf f = true -> exists c t, render f = c :: t.
  Proof. intros W. destruct (render_head f W) as (c & t & E & _). eauto. Qed.

  Theorem read_all_render f : wf f = true ->
    read_all orc (render f) =
      Ok [reify f (init (render f))] (adv_n (length (render f)) (init (render f))).
  Proof.
    intros W. pose proof (read_all_terminates orc (render f)) as NF.
    unfold read_all in *. destruct (render_nonempty f W) as (c & t & E).
    set (s0 := init (render f)) in *.
    assert (E0 : rest s0 = render f ++ []) by (rewrite app_nil_r; reflexivity).
    remember (S (length (render f))) as fuel eqn:EF.
    assert (F2 : exists m, fuel = S (S m)) by (rewrite EF, E; simpl; eauto).
    destruct F2 as (m & ->). cbn [read_top] in *.
    destruct (read_render orc f W (S (S m)) ctx0 s0 [] eq_refl E0 tcond_nil) as [H|H];
      rewrite H in *; [congruence|].
    pose proof (reify_not_rcond f s0) as NR.
    set (s1 := adv_n (length (render f)) s0) in *.
    assert (E1 : rest s1 = []) by (apply (adv_n_app s0 (render f) []); exact E0).
    assert (R1 : read_next orc (S (S m)) ctx0 s1 = Ok IEof s1).
    { cbn [read_next]. rewrite (peek_nil _ E1). reflexivity. }
    remember (reify f s0) as fx. destruct fx; try contradiction; rewrite R1 in *; reflexivity.
  Qed.
End Top.

(** ** incomplete plain text gives an unexpected-EOF error *)
Section Owed.
  Variable orc : N -> list N -> bool.

  Definition is_eof_err {A} (r : res A) : Prop := exists l c, r = Err (EEof l c).
  Definition EE {A} (r : res A) : Prop := r = Err EFuel \/ is_eof_err r.

  Lemma str_loop_open chars : forall s acc n,
    rest (adv s) = chars -> strchars_ok chars = true -> EE (str_loop false n s acc).
  Proof.
    induction chars as [|c t IH]; intros s acc n E W.
    - destruct n; [left; reflexivity|]. right. simpl. rewrite (peek_nil _ E). eexists _, _. reflexivity.
    - destruct n; [left; reflexivity|]. simpl in W. apply andb_true_iff in W as [Wc Wt].
      apply andb_true_iff in Wc as [W34 W92]. apply negb_true_iff in W34, W92.
      simpl. rewrite (peek_rest _ _ _ E). rewrite W92, W34.
      apply IH; [eapply adv_rest; exact E|exact Wt].
  Qed.

  Definition KK (k : pctx) : Prop :=
    wf_ctx k = true -> forall fuel cx s, sq cx = false -> rest s = render_ctx k ->
    EE (read_next orc fuel cx s).

  Lemma ctx_head k : exists c t, render_ctx k = c :: t /\ head_ok c /\ is_begin_num c = false.
  Proof.
    destruct k; try destruct paren; eexists _, _; (split; [reflexivity|]); repeat split; reflexivity.
  Qed.

  (** the collection loop over complete elements followed by [tail] *)
  Lemma coll_owed k cx closer : sq cx = false -> closer = 41 \/ closer = 93 ->
    forall tail, tcond tail ->
      (forall n s acc, rest s = tail -> EE (coll_loop orc (read_next orc k) cx closer n s acc)) ->
    forall l, forallb wf l = true -> l <> [] ->
    forall n s acc, rest s = render_seq l ++ tail ->
      EE (coll_loop orc (read_next orc k) cx closer n s acc).
  Proof.
    intros SQ CL tail TT TB.
    induction l as [|x t IH]; intros W NE n s acc E; [congruence|].
    destruct n; [left; reflexivity|].
    simpl in W. apply andb_true_iff in W as [Wx Wt].
    destruct (render_head x Wx) as (c & tl & HX & HW & H41 & H93).
    set (after := match t with [] => tail | _ => 32 :: render_seq t ++ tail end).
    assert (E' : rest s = render x ++ after).
    { rewrite E. unfold after. destruct t; simpl; [reflexivity|]. rewrite <- app_assoc. reflexivity. }
    assert (TC : tcond after) by (unfold after; destruct t; [exact TT|apply tcond_space]).
    assert (P : peek s = Some c) by (eapply peek_rest; rewrite E', HX; reflexivity).
    assert (NC : (c =? closer) = false) by (destruct CL as [->| ->]; assumption).
    simpl. rewrite P, HW, NC.
    destruct (read_render orc x Wx k cx s after SQ E' TC) as [H|H]; rewrite H; [left; reflexivity|].
    pose proof (reify_not_rcond x s) as NR. remember (reify x s) as fx eqn:Efx.
    set (s' := adv_n (length (render x)) s) in *.
    assert (ES' : rest s' = after) by (apply adv_n_app; exact E').
    assert (STEP : EE (coll_loop orc (read_next orc k) cx closer n s' (fx :: acc))).
    { destruct t as [|y t'].
      - apply TB. exact ES'.
      - destruct n; [left; reflexivity|]. unfold after in ES'.
        simpl. rewrite (peek_rest _ _ _ ES'). change (is_ws 32) with true. cbn match.
        apply IH; [exact Wt|discriminate|eapply adv_rest; exact ES']. }
    clear Efx. destruct fx; try contradiction; exact STEP.
  Qed.

  Lemma coll_tail_eof k cx closer n s acc :
    rest s = [] -> EE (coll_loop orc (read_next orc k) cx closer n s acc).
  Proof.
    intros E. destruct n; [left; reflexivity|]. right. simpl. rewrite (peek_nil _ E).
    eexists _, _. reflexivity.
  Qed.

  Lemma coll_tail_inner k cx closer inner : closer = 41 \/ closer = 93 ->
    (forall s, rest s = render_ctx inner -> EE (read_next orc k cx s)) ->
    forall n s acc, rest s = render_ctx inner -> EE (coll_loop orc (read_next orc k) cx closer n s acc).
  Proof.
    intros CL HI n s acc E. destruct n; [left; reflexivity|].
    destruct (ctx_head inner) as (c & t & EC & (HW & H41 & H93) & _).
    assert (P : peek s = Some c) by (eapply peek_rest; rewrite E, EC; reflexivity).
    assert (NC : (c =? closer) = false) by (destruct CL as [->| ->]; assumption).
    simpl. rewrite P, HW, NC.
    destruct (HI s E) as [H|(l & c0 & H)]; rewrite H; [left; reflexivity|right; eexists _, _; reflexivity].
  Qed.

  Lemma req_owed_end k cx s : rest s = [] -> EE (req (read_next orc k) cx s).
  Proof.
    intros E. unfold req. cbn [req_loop]. right.
    assert (SW : skipws s = s) by (unfold skipws; rewrite E; reflexivity).
    rewrite SW, (peek_nil _ E). eexists _, _. reflexivity.
  Qed.
  Lemma req_owed_inner k cx inner s :
    (forall s, rest s = render_ctx inner -> EE (read_next orc k cx s)) ->
    rest s = render_ctx inner -> EE (req (read_next orc k) cx s).
  Proof.
    intros HI E. unfold req. cbn [req_loop].
    destruct (ctx_head inner) as (c & t & EC & (HW & _) & _).
    assert (P : peek s = Some c) by (eapply peek_rest; rewrite E, EC; reflexivity).
    rewrite (skipws_nonws _ _ P HW), P.
    destruct (HI s E) as [H|(l & c0 & H)]; rewrite H; [left; reflexivity|right; eexists _, _; reflexivity].
  Qed.

  Lemma EE_bind {A B} (r : res A) (f : A -> st -> res B) : EE r -> EE (bind r f).
  Proof. intros [->|(l & c & ->)]; [left|right; eexists _, _]; reflexivity. Qed.

  Theorem read_owed k0 : KK k0.
  Proof.
    induction k0; intros W fuel cx s SQ E; (destruct fuel as [|k]; [left; reflexivity|]).
    - (* unterminated string *)
      cbn [render_ctx] in E. assert (P : peek s = Some 34) by (eapply peek_rest; exact E).
      rewrite (read_next_step orc k cx s 34 P eq_refl eq_refl). cbv zeta.
      change (dispatch_code 34) with 4. cbn match. apply EE_bind, EE_bind. unfold read_str.
      apply (str_loop_open chars); [eapply adv_rest; exact E|exact W].
    - (* unterminated collection, complete elements only *)
      cbn [render_ctx wf_ctx] in *.
      assert (X : forall closer, closer = 41 \/ closer = 93 -> forall s1, rest s1 = render_seq done ->
                  EE (read_elems orc (read_next orc k) cx closer s1)).
      { intros closer CL s1 E1. unfold read_elems. destruct done as [|x t].
        - apply coll_tail_eof. exact E1.
        - assert (NE : x :: t <> []) by discriminate.
          apply (coll_owed k cx closer SQ CL [] tcond_nil
                   (fun n s2 acc E2 => coll_tail_eof k cx closer n s2 acc E2) (x :: t) W NE).
          rewrite app_nil_r. exact E1. }
      destruct paren.
      + assert (P : peek s = Some 40) by (eapply peek_rest; exact E).
        rewrite (read_next_step orc k cx s 40 P eq_refl eq_refl). cbv zeta.
        change (dispatch_code 40) with 1. cbn match. apply EE_bind. unfold read_list. apply EE_bind.
        apply X; [left; reflexivity|eapply adv_rest; exact E].
      + assert (P : peek s = Some 91) by (eapply peek_rest; exact E).
        rewrite (read_next_step orc k cx s 91 P eq_refl eq_refl). cbv zeta.
        change (dispatch_code 91) with 2. cbn match. apply EE_bind. unfold read_vec. apply EE_bind.
        apply X; [right; reflexivity|eapply adv_rest; exact E].
    - (* unterminated collection with an incomplete last element *)
      cbn [render_ctx wf_ctx] in *. apply andb_true_iff in W as [Wd Wi].
      assert (HI : forall s1, rest s1 = render_ctx k0 -> EE (read_next orc k cx s1)).
      { intros s1 E1. apply IHk0; assumption. }
      assert (X : forall closer, closer = 41 \/ closer = 93 -> forall s1,
                  rest s1 = match done with [] => render_ctx k0 | _ => render_seq done ++ 32 :: render_ctx k0 end ->
                  EE (read_elems orc (read_next orc k) cx closer s1)).
      { intros closer CL s1 E1. unfold read_elems. destruct done as [|x t].
        - apply (coll_tail_inner k cx closer k0 CL HI). exact E1.
        - assert (NE : x :: t <> []) by discriminate.
          assert (TB : forall n s2 acc, rest s2 = 32 :: render_ctx k0 ->
                       EE (coll_loop orc (read_next orc k) cx closer n s2 acc)).
          { intros n s2 acc E2. destruct n; [left; reflexivity|].
            simpl. rewrite (peek_rest _ _ _ E2). change (is_ws 32) with true. cbn match.
            apply (coll_tail_inner k cx closer k0 CL HI). eapply adv_rest; exact E2. }
          apply (coll_owed k cx closer SQ CL (32 :: render_ctx k0) (tcond_space _) TB (x :: t) Wd NE).
          exact E1. }
      destruct paren.
      + assert (P : peek s = Some 40) by (eapply peek_rest; exact E).
        rewrite (read_next_step orc k cx s 40 P eq_refl eq_refl). cbv zeta.
        change (dispatch_code 40) with 1. cbn match. apply EE_bind. unfold read_list. apply EE_bind.
        apply X; [left; reflexivity|eapply adv_rest; exact E].
      + assert (P : peek s = Some 91) by (eapply peek_rest; exact E).
        rewrite (read_next_step orc k cx s 91 P eq_refl eq_refl). cbv zeta.
        change (dispatch_code 91) with 2. cbn match. apply EE_bind. unfold read_vec. apply EE_bind.
        apply X; [right; reflexivity|eapply adv_rest; exact E].
    - (* quote at the end *)
      cbn [render_ctx] in E. assert (P : peek s = Some 39) by (eapply peek_rest; exact E).
      rewrite (read_next_step orc k cx s 39 P eq_refl eq_refl). cbv zeta.
      change (dispatch_code 39) with 5. cbn match. apply EE_bind. unfold read_quoted. apply EE_bind.
      apply req_owed_end. eapply adv_rest; exact E.
    - cbn [render_ctx wf_ctx] in *. assert (P : peek s = Some 39) by (eapply peek_rest; exact E).
      rewrite (read_next_step orc k cx s 39 P eq_refl eq_refl). cbv zeta.
      change (dispatch_code 39) with 5. cbn match. apply EE_bind. unfold read_quoted. apply EE_bind.
      apply (req_owed_inner k cx k0); [intros; apply IHk0; assumption|eapply adv_rest; exact E].
    - (* deref at the end *)
      cbn [render_ctx] in E. assert (P : peek s = Some 64) by (eapply peek_rest; exact E).
      rewrite (read_next_step orc k cx s 64 P eq_refl eq_refl). cbv zeta.
      change (dispatch_code 64) with 12. cbn match. apply EE_bind. unfold read_deref. apply EE_bind.
      apply req_owed_end. eapply adv_rest; exact E.
    - cbn [render_ctx wf_ctx] in *. assert (P : peek s = Some 64) by (eapply peek_rest; exact E).
      rewrite (read_next_step orc k cx s 64 P eq_refl eq_refl). cbv zeta.
      change (dispatch_code 64) with 12. cbn match. apply EE_bind. unfold read_deref. apply EE_bind.
      apply (req_owed_inner k cx k0); [intros; apply IHk0; assumption|eapply adv_rest; exact E].
  Qed.
End Owed.

Section OwedTop.
  Variable orc : N -> list N -> bool.

  Theorem read_all_owed k : wf_ctx k = true ->
    exists l c, read_all orc (render_ctx k) = Err (EEof l c).
  Proof.
    intros W. pose proof (read_all_terminates orc (render_ctx k)) as NF.
    unfold read_all in *. cbn [read_top] in *.
    destruct (read_owed orc k W (S (length (render_ctx k))) ctx0 (init (render_ctx k)) eq_refl eq_refl)
      as [H|(l & c & H)]; rewrite H in *; [congruence|]. eauto.
  Qed.
End OwedTop.

(** ** an equal form: the same plain form read at two different places differs in locations only *)
Lemma feq_flist wl x y l1 l2 :
  feq wl (FList x l1) (FList y l2) = forms_eq wl x y && loc_eq wl l1 l2.
Proof.
  cbn [feq]. f_equal. unfold forms_eq. revert y. induction x as [|p x IH]; intros [|q y]; cbn [list_eqb]; try reflexivity.
  rewrite <- IH. reflexivity.
Qed.
Lemma feq_fvec wl x y l1 l2 :
  feq wl (FVec x l1) (FVec y l2) = forms_eq wl x y && loc_eq wl l1 l2.
Proof.
  cbn [feq]. f_equal. unfold forms_eq. revert y. induction x as [|p x IH]; intros [|q y]; cbn [list_eqb]; try reflexivity.
  rewrite <- IH. reflexivity.
Qed.

Lemma reify_seq_shape l : Forall (fun g => forall a b, feq false (reify g a) (reify g b) = true) l ->
  forall a b, forms_eq false (reify_seq l a) (reify_seq l b) = true.
Proof.
  induction 1 as [|x t Hx Ht IH]; intros a b; [reflexivity|].
  cbn [reify_seq]. unfold forms_eq. cbn [list_eqb]. rewrite Hx. apply IH.
Qed.

Theorem reify_shape g : forall a b, feq false (reify g a) (reify g b) = true.
Proof.
  induction g using pform_ind'; intros a b.
  - cbn [reify feq]. rewrite str_eqb_refl. reflexivity.
  - cbn [reify feq]. apply str_eqb_refl.
  - rewrite !reify_list, feq_flist. rewrite (reify_seq_shape l H). reflexivity.
  - rewrite !reify_vec, feq_fvec. rewrite (reify_seq_shape l H). reflexivity.
  - cbn [reify]. rewrite feq_flist. unfold forms_eq. cbn [list_eqb]. rewrite IHg.
    cbn [feq]. rewrite str_eqb_refl. reflexivity.
  - cbn [reify]. rewrite feq_flist. unfold forms_eq. cbn [list_eqb]. rewrite IHg.
    cbn [feq]. rewrite !str_eqb_refl. reflexivity.
Qed.

(** the span a plain form is tagged with is the extent of its text *)
Definition form_loc (f : form) : option span :=
  match f with
  | FSym _ _ l | FList _ l | FVec _ l | FMap _ l | FSet _ l => l
  | _ => None
  end.
Lemma reify_loc g s :
  form_loc (reify g s) =
    match g with
    | PStr _ => None
    | _ => let e := adv_n (length (render g)) s in Some (line s, col s, line e, col e)
    end.
Proof. destruct g; reflexivity. Qed.

Section Statements.
  Variable orc : N -> list N -> bool.

  Theorem incomplete_is_eof k : wf_ctx k = true ->
    exists c, read_all orc (render_ctx k) = Err (EEof (fst (spec_loc (render_ctx k) (length (render_ctx k)))) c).
  Proof.
    intros W. destruct (read_all_owed orc k W) as (l & c & H).
    destruct (eof_only_at_end_spec orc _ _ _ H) as (n & E). inversion E; subst. eauto.
  Qed.

  Theorem span_fidelity f : wf f = true ->
    read_all orc (render f) = Ok [reify f (init (render f))] (adv_n (length (render f)) (init (render f))) /\
    forall g s, wf g = true ->
      read_all orc (render g) = Ok [reify g (init (render g))] (adv_n (length (render g)) (init (render g))) /\
      feq false (reify g s) (reify g (init (render g))) = true.
  Proof.
    intros W. split; [apply read_all_render; exact W|].
    intros g s Wg. split; [apply read_all_render; exact Wg|apply reify_shape].
  Qed.
End Statements.

Definition ex_ctx : pctx :=
  KCollIn true [PSym [97]; PStr [98]] (KQuoteIn (KCollEnd false [PSym [99]])).
Lemma ex_ctx_ok : wf_ctx ex_ctx = true /\
  render_ctx ex_ctx = [40; 97; 32; 34; 98; 34; 32; 39; 91; 99].       (* (a "b" '[c *)
Proof. split; reflexivity. Qed.
Definition ex_form : pform :=
  PList [PSym [97]; PVec [PQuote (PSym [98]); PDeref (PSym [99])]; PStr [120; 10; 121]].
Lemma ex_form_ok : wf ex_form = true /\
  render ex_form = [40; 97; 32; 91; 39; 98; 32; 64; 99; 93; 32; 34; 120; 10; 121; 34; 41].
Proof. split; reflexivity. Qed.
