(** C16 -- termination: with fuel above the length of the unread input no reader of the model
    runs out of fuel, and every form read consumes at least one character. *)
From Coq Require Import List NArith ZArith Bool Lia.
Import ListNotations.
From Verif Require Import Common.ListX C16.Lex C16.Reader.
Local Open Scope N_scope.

Arguments adv : simpl never.
Arguments peek : simpl never.
Arguments skipws : simpl never.
Arguments is_ws : simpl never.
Arguments is_term : simpl never.
Arguments is_hex : simpl never.
Arguments is_alnum : simpl never.
Arguments is_numeric : simpl never.
Arguments is_begin_num : simpl never.
Arguments is_begin_name : simpl never.
Arguments is_maybe_num : simpl never.
Arguments assoc : simpl never.
Arguments assoc_str : simpl never.
Arguments uni_escape : simpl never.
Arguments hexbyte : simpl never.
Arguments utf8 : simpl never.
Arguments N.eqb : simpl never.
Arguments N.ltb : simpl never.
Arguments N.leb : simpl never.
Arguments dispatch_code : simpl never.
Arguments macro_code : simpl never.
Arguments classify_num : simpl never.
Arguments ident_ok : simpl never.
Arguments split_ident : simpl never.
Arguments base_val : simpl never.

Definition len (s : st) : nat := length (rest s).

Lemma peek_some s c : peek s = Some c -> exists r, rest s = c :: r.
Proof. unfold peek. destruct (rest s); simpl; intros E; [discriminate|]. inversion E; subst; eauto. Qed.
Lemma peek_none s : peek s = None -> rest s = [].
Proof. unfold peek. destruct (rest s); simpl; intros E; [reflexivity|discriminate]. Qed.

Lemma adv_le s : (len (adv s) <= len s)%nat.
Proof.
  unfold len, adv. destruct (rest s) as [|c r]; simpl; [lia|].
  destruct ((c =? 10) || _); simpl; lia.
Qed.
Lemma adv_lt s c : peek s = Some c -> S (len (adv s)) = len s.
Proof.
  intros H. apply peek_some in H as [r E]. unfold len, adv. rewrite E.
  destruct ((c =? 10) || _); simpl; lia.
Qed.
Lemma adv_rest s c r : rest s = c :: r -> rest (adv s) = r.
Proof. intros E. unfold adv. rewrite E. destruct ((c =? 10) || _); reflexivity. Qed.

Lemma adv_some s c : peek (adv s) = Some c -> (len (adv s) < len s)%nat.
Proof.
  intros P. destruct (peek s) eqn:P0.
  - pose proof (adv_lt _ _ P0). lia.
  - apply peek_none in P0. unfold peek, adv in P. rewrite P0 in P. discriminate.
Qed.

Lemma skip_ws_le n s : (len (skip_ws n s) <= len s)%nat.
Proof.
  revert s. induction n; intros s; simpl; [lia|].
  destruct (peek s) eqn:P; [|lia]. destruct (is_ws n0); [|lia].
  specialize (IHn (adv s)). pose proof (adv_le s). lia.
Qed.
Lemma skipws_le s : (len (skipws s) <= len s)%nat.
Proof. apply skip_ws_le. Qed.
Lemma skip_ws_not_ws n s c : (len s <= n)%nat -> peek (skip_ws n s) = Some c -> is_ws c = false.
Proof.
  revert s. induction n; intros s L; simpl.
  - intros P. apply peek_some in P as [r E]. unfold len in L. rewrite E in L. simpl in L. lia.
  - destruct (peek s) eqn:P0; [|congruence].
    destruct (is_ws n0) eqn:W.
    + apply IHn. pose proof (adv_lt _ _ P0). lia.
    + intros P. congruence.
Qed.
Lemma skipws_not_ws s c : peek (skipws s) = Some c -> is_ws c = false.
Proof. apply skip_ws_not_ws. unfold len. lia. Qed.

(** progress predicates on results *)
Definition nofuel {A} (r : res A) : Prop := match r with Err EFuel => False | _ => True end.
Definition ple {A} (b : nat) (r : res A) : Prop :=
  match r with Ok _ s' => (len s' <= b)%nat | Err e => e <> EFuel end.
Definition plt {A} (b : nat) (r : res A) : Prop :=
  match r with Ok _ s' => (len s' < b)%nat | Err e => e <> EFuel end.

Lemma syn_ne {A} s b : @plt A b (syn s).
Proof. simpl. discriminate. Qed.
Lemma eof_ne {A} s b : @plt A b (eof s).
Proof. simpl. discriminate. Qed.
Lemma syn_le {A} s b : @ple A b (syn s).
Proof. simpl. discriminate. Qed.
Lemma eof_le {A} s b : @ple A b (eof s).
Proof. simpl. discriminate. Qed.
#[export] Hint Resolve syn_ne eof_ne syn_le eof_le : rd.

Lemma plt_ple {A} b (r : res A) : plt b r -> ple b r.
Proof. destruct r; simpl; [lia|auto]. Qed.
Lemma plt_mono {A} b b' (r : res A) : plt b r -> (b <= b')%nat -> plt b' r.
Proof. destruct r; simpl; [lia|auto]. Qed.
Lemma ple_mono {A} b b' (r : res A) : ple b r -> (b <= b')%nat -> ple b' r.
Proof. destruct r; simpl; [lia|auto]. Qed.
Lemma ple_plt {A} b (r : res A) : ple b r -> plt (S b) r.
Proof. destruct r; simpl; [lia|auto]. Qed.

Lemma bind_plt {A B} b b' (r : res A) (f : A -> st -> res B) :
  ple b r -> (forall a s', (len s' <= b)%nat -> plt b' (f a s')) -> plt b' (bind r f).
Proof. destruct r; simpl; intros H1 H2; auto. Qed.
Lemma bind_plt' {A B} b b' (r : res A) (f : A -> st -> res B) :
  plt b r -> (forall a s', (len s' < b)%nat -> plt b' (f a s')) -> plt b' (bind r f).
Proof. destruct r; simpl; intros H1 H2; auto. Qed.
Lemma bind_ple {A B} b b' (r : res A) (f : A -> st -> res B) :
  ple b r -> (forall a s', (len s' <= b)%nat -> ple b' (f a s')) -> ple b' (bind r f).
Proof. destruct r; simpl; intros H1 H2; auto. Qed.

(* ------------------------------------------------------------------------------------ *)
(** ** tokens *)
Lemma take_token_len n s acc t s' :
  take_token n s acc = (t, s') -> (len s' + length t = len s + length acc)%nat.
Proof.
  revert s acc. induction n; intros s acc; simpl.
  - intros E. inversion E; subst. rewrite rev_length. lia.
  - destruct (peek s) eqn:P.
    + destruct (is_ws n0 || is_term n0).
      * intros E. inversion E; subst. rewrite rev_length. lia.
      * intros E. apply IHn in E. simpl in E. pose proof (adv_lt _ _ P). lia.
    + intros E. inversion E; subst. rewrite rev_length. lia.
Qed.
Lemma token_len s t s' : token s = (t, s') -> (len s' + length t = len s)%nat.
Proof. unfold token. intros E. apply take_token_len in E. simpl in E. lia. Qed.

Lemma ident_ok_nil : ident_ok [] = false.
Proof. reflexivity. Qed.

Lemma read_namespaced_plt s : plt (len s) (read_namespaced s).
Proof.
  unfold read_namespaced. destruct (token s) as [t s'] eqn:E.
  apply token_len in E. destruct (ident_ok t) eqn:I; [|apply syn_ne].
  simpl. destruct t; [rewrite ident_ok_nil in I; discriminate|]. simpl in E. lia.
Qed.


Ltac brk :=
  repeat match goal with
         | |- context [match ?x with _ => _ end] =>
             lazymatch x with
             | context [match _ with _ => _ end] => fail
             | _ => destruct x eqn:?
             end
         end; simpl in *; try discriminate; try lia; auto with rd;
  unfold syn, eof in *;
  repeat match goal with
         | H : Ok _ _ = Ok _ _ |- _ => inversion H; clear H; subst
         | H : Err _ = Err _ |- _ => inversion H; clear H; subst
         end; try discriminate; try lia; auto.

Lemma read_sym_plt cx rms s : plt (len s) (read_sym cx rms s).
Proof.
  unfold read_sym. eapply bind_plt'; [apply read_namespaced_plt|].
  intros [ns name] s' L. brk.
Qed.

(** ** numbers *)
Lemma scan_num_len n s acc t s' :
  scan_num n s acc = NumTok t s' -> (len s' + length t = len s + length acc)%nat.
Proof.
  revert s acc. induction n; intros s acc; simpl.
  - intros E. inversion E; subst. rewrite rev_length. lia.
  - destruct (peek s) eqn:P.
    + destruct (n0 =? 45).
      * destruct (peek (adv s)); [|discriminate]. destruct (is_begin_num n1); [|discriminate].
        intros E. apply IHn in E. simpl in E. pose proof (adv_lt _ _ P). lia.
      * destruct (is_maybe_num n0).
        -- intros E. apply IHn in E. simpl in E. pose proof (adv_lt _ _ P). lia.
        -- intros E. inversion E; subst. rewrite rev_length. lia.
    + intros E. inversion E; subst. rewrite rev_length. lia.
Qed.

Lemma classify_nil : classify_num [] = NBad.
Proof. reflexivity. Qed.

Lemma read_num_plt cx s : plt (len s) (read_num cx s).
Proof.
  unfold read_num. destruct (scan_num _ s []) as [t s'|k] eqn:E.
  - apply scan_num_len in E. simpl in E.
    destruct t; [rewrite classify_nil; apply syn_ne|]. simpl in E.
    destruct (classify_num (n :: t)); simpl; try lia. discriminate.
  - destruct (k <=? 2)%nat; [apply read_sym_plt|apply syn_ne].
Qed.

(** ** strings *)
Lemma hex_run_le n prev cur acc hs p :
  (len cur <= len prev)%nat -> hex_run n prev cur acc = (hs, p) -> (len p <= len prev)%nat.
Proof.
  revert prev cur acc. induction n; intros prev cur acc L; simpl.
  - intros E. inversion E; subst. lia.
  - destruct (peek cur) eqn:P.
    + destruct (is_hex n0).
      * intros E. apply IHn in E; [lia|]. apply adv_le.
      * intros E. inversion E; subst. lia.
    + intros E. inversion E; subst. lia.
Qed.
Lemma uni_escape_ple su : ple (len su) (uni_escape su).
Proof.
  unfold uni_escape. destruct (hex_run _ su (adv su) []) as [hs p] eqn:E.
  apply hex_run_le in E; [|apply adv_le]. brk.
Qed.

Lemma str_loop_plt raw n s acc c :
  (len s < n)%nat -> peek s = Some c -> plt (len s) (str_loop raw n s acc).
Proof.
  revert s acc c. induction n; intros s acc c L P; [lia|]. simpl.
  pose proof (adv_lt _ _ P) as A1.
  destruct (peek (adv s)) as [c1|] eqn:P1; [|apply eof_ne].
  pose proof (adv_lt _ _ P1) as A2.
  assert (IH : forall s2 acc2 c2, (len s2 < len s)%nat -> peek s2 = Some c2 ->
                                   plt (len s) (str_loop raw n s2 acc2)).
  { intros s2 acc2 c2 L2 P2. eapply plt_mono; [eapply IHn; [lia|exact P2]|lia]. }
  assert (IH0 : forall s2 acc2, (len s2 < len s)%nat -> plt (len s) (str_loop raw n s2 acc2)).
  { intros s2 acc2 L2. destruct (peek s2) eqn:P2; [eapply IH; eauto|].
    destruct n; [lia|]. simpl. apply peek_none in P2.
    assert (peek (adv s2) = None) as ->. { unfold peek, adv. rewrite P2. reflexivity. }
    apply eof_ne. }
  destruct (c1 =? 92).
  - destruct raw.
    + destruct (peek (adv (adv s))) eqn:P2.
      * destruct (n0 =? 34); [simpl; pose proof (adv_le (adv (adv s))); lia|]. apply IH0. lia.
      * apply IH0. pose proof (adv_le (adv s)). lia.
    + destruct (peek (adv (adv s))) eqn:P2; [|apply syn_ne].
      destruct (assoc n0 str_escapes); [apply IH0; pose proof (adv_le (adv s)); lia|].
      destruct ((n0 =? 117) || (n0 =? 85)); [|apply syn_ne].
      pose proof (uni_escape_ple (adv (adv s))) as U.
      destruct (uni_escape (adv (adv s))); simpl in U; [|exact U].
      apply IH0. pose proof (adv_le (adv s)). lia.
  - destruct (c1 =? 34); [simpl; pose proof (adv_le (adv s)); lia|].
    apply IH0. lia.
Qed.
Lemma read_str_plt raw s c : peek s = Some c -> plt (len s) (read_str raw s).
Proof. intros P. unfold read_str. eapply str_loop_plt; eauto. Qed.

Lemma loop_eof_tail (s2 : st) (P2 : peek s2 = None) : peek (adv s2) = None.
Proof. apply peek_none in P2. unfold peek, adv. rewrite P2. reflexivity. Qed.

Lemma bytes_loop_plt n s acc c :
  (len s < n)%nat -> peek s = Some c -> plt (len s) (bytes_loop n s acc).
Proof.
  revert s acc c. induction n; intros s acc c L P; [lia|]. simpl.
  pose proof (adv_lt _ _ P) as A1.
  destruct (peek (adv s)) as [c1|] eqn:P1; [|apply eof_ne].
  pose proof (adv_lt _ _ P1) as A2.
  assert (IH0 : forall s2 acc2, (len s2 < len s)%nat -> plt (len s) (bytes_loop n s2 acc2)).
  { intros s2 acc2 L2. destruct (peek s2) eqn:P2.
    - eapply plt_mono; [eapply IHn; [lia|exact P2]|lia].
    - destruct n; [lia|]. simpl. rewrite (loop_eof_tail _ P2). apply eof_ne. }
  destruct ((c1 <? 1) || (127 <? c1)); [apply syn_ne|].
  destruct (c1 =? 92).
  - destruct (peek (adv (adv s))) eqn:P2.
    + destruct (assoc n0 bytes_escapes); [apply IH0; lia|].
      destruct (n0 =? 120); [|apply IH0; lia].
      destruct (hexbyte _ _); [|apply syn_ne].
      apply IH0. pose proof (adv_le (adv (adv s))). pose proof (adv_le (adv (adv (adv s)))). lia.
    + apply IH0. lia.
  - destruct (c1 =? 34); [simpl; pose proof (adv_le (adv s)); lia|]. apply IH0. lia.
Qed.
Lemma read_bytes_ple s : ple (len s) (read_bytes s).
Proof.
  unfold read_bytes. pose proof (skipws_le s) as W.
  destruct (peek (skipws s)) eqn:P; [|apply syn_le].
  destruct (n =? 34); [|apply syn_le].
  apply plt_ple. eapply plt_mono; [eapply bytes_loop_plt; eauto|lia].
Qed.

Lemma take_while_le p n s acc t s' : take_while p n s acc = (t, s') -> (len s' <= len s)%nat.
Proof.
  revert s acc. induction n; intros s acc; simpl.
  - intros E; inversion E; subst; lia.
  - destruct (peek s) eqn:P; [|intros E; inversion E; subst; lia].
    destruct (p n0); [|intros E; inversion E; subst; lia].
    intros E. apply IHn in E. pose proof (adv_le s). lia.
Qed.

Lemma read_char_plt s c : peek s = Some c -> plt (len s) (read_char s).
Proof.
  intros P. unfold read_char. pose proof (adv_lt _ _ P) as A1.
  destruct (peek (adv s)) eqn:P1; [|apply eof_ne].
  pose proof (adv_lt _ _ P1) as A2.
  destruct (take_while _ _ _ _) as [more s2] eqn:E. apply take_while_le in E.
  brk.
Qed.

Lemma read_kw_plt s c : peek s = Some c -> plt (len s) (read_kw s).
Proof.
  intros P. unfold read_kw. pose proof (adv_lt _ _ P) as A1.
  destruct (peek (adv s)) eqn:P1.
  - pose proof (adv_lt _ _ P1) as A2. destruct (n =? 58).
    + eapply (bind_plt' (len s)); [eapply plt_mono; [apply read_namespaced_plt|lia]|]. intros p s' L. brk.
    + destruct (is_numeric n).
      * destruct (take_while _ _ _ _) as [t s'] eqn:E. apply take_while_le in E. simpl. lia.
      * eapply (bind_plt' (len s)); [eapply plt_mono; [apply read_namespaced_plt|lia]|]. intros p s' L. simpl. lia.
  - eapply (bind_plt' (len s)); [eapply plt_mono; [apply read_namespaced_plt|lia]|]. intros p s' L. simpl. lia.
Qed.

Lemma comment_loop_le n s : (len (comment_loop n s) <= len s)%nat.
Proof.
  revert s. induction n; intros s; simpl; [lia|].
  destruct (peek s) eqn:P; [|lia]. pose proof (adv_le s).
  destruct ((n0 =? 10) || (n0 =? 13)); [lia|]. specialize (IHn (adv s)). lia.
Qed.
Lemma read_comment_lt s c : peek s = Some c -> (len (read_comment s) < len s)%nat.
Proof.
  intros P. unfold read_comment.
  pose proof (comment_loop_le (length (rest s)) (adv s)) as H1.
  pose proof (adv_lt _ _ P) as H2.
  lia.
Qed.

Lemma read_numconst_plt s c : peek s = Some c -> plt (len s) (read_numconst s).
Proof.
  intros P. unfold read_numconst. pose proof (adv_lt _ _ P).
  eapply (bind_plt' (len s)); [eapply plt_mono; [apply read_namespaced_plt|lia]|]. intros p s' L. brk.
Qed.

(* ------------------------------------------------------------------------------------ *)
(** ** readers with sub-forms *)
Definition goodi (s : st) (r : res item) : Prop :=
  match r with
  | Ok IEof s' => (len s' < len s)%nat \/ (s' = s /\ rest s = [])
  | Ok _ s' => (len s' < len s)%nat
  | Err e => e <> EFuel
  end.

Lemma goodi_le s r : goodi s r -> ple (len s) r.
Proof. destruct r as [[| |] s'|e]; simpl; try lia; auto. intros [H|[-> _]]; lia. Qed.

Lemma form_plt b (r : res form) : plt b r -> plt b (bind r (fun f s' => Ok (IForm f) s')).
Proof. destruct r; simpl; auto. Qed.
Lemma plt_goodi s (r : res form) :
  plt (len s) r -> goodi s (bind r (fun f s' => Ok (IForm f) s')).
Proof. destruct r; simpl; auto. Qed.

Section Rn.
  Variable orc : N -> list N -> bool.
  Variable rn : ctx -> st -> res item.
  Variable k : nat.
  Hypothesis Hrn : forall cx s, (len s < k)%nat -> goodi s (rn cx s).

  Lemma rcond_branch_same items s : 
    match rcond_branch orc items s with Ok _ s' => s' = s | Err e => e <> EFuel end.
  Proof. unfold rcond_branch. brk. Qed.

  Lemma coll_loop_plt cx closer n s acc :
    (len s < n)%nat -> (len s < k)%nat -> plt (len s) (coll_loop orc rn cx closer n s acc).
  Proof.
    revert s acc. induction n; intros s acc L K; [lia|]. simpl.
    destruct (peek s) as [c|] eqn:P; [|apply eof_ne].
    pose proof (adv_lt _ _ P) as A1.
    assert (IH : forall s2 acc2, (len s2 < len s)%nat ->
                                 plt (len s) (coll_loop orc rn cx closer n s2 acc2)).
    { intros s2 acc2 L2. eapply plt_mono; [apply IHn; lia|lia]. }
    destruct (is_ws c) eqn:W; [apply IH; lia|].
    destruct (c =? closer); [simpl; lia|].
    pose proof (Hrn cx s K) as G.
    destruct (rn cx s) as [i s'|e]; [|exact G].
    destruct i as [f| |]; simpl in G.
    - destruct f; try (apply IH; lia).
      destruct splicing; [|apply IH; lia].
      pose proof (rcond_branch_same l s') as B.
      destruct (rcond_branch orc l s') as [o s''|e]; [|exact B].
      destruct o as [g|]; [|apply IH; lia].
      destruct g; try apply syn_ne. apply IH; lia.
    - apply IH; lia.
    - destruct G as [G|[_ G]]; [apply IH; lia|]. apply peek_some in P as [r E]. congruence.
  Qed.

  Lemma read_elems_plt cx closer s : (len s < k)%nat -> plt (len s) (read_elems orc rn cx closer s).
  Proof. intros K. unfold read_elems. apply coll_loop_plt; auto. Qed.

  Lemma req_loop_plt cx n s :
    (len s < n)%nat -> (len s < k)%nat -> plt (len s) (req_loop rn cx n s).
  Proof.
    revert s. induction n; intros s L K; [lia|]. simpl.
    pose proof (skipws_le s) as W.
    destruct (peek (skipws s)) as [c|] eqn:P; [|apply eof_ne].
    assert (K0 : (len (skipws s) < k)%nat) by lia.
    pose proof (Hrn cx _ K0) as G.
    destruct (rn cx (skipws s)) as [i s'|e]; [|exact G].
    destruct i as [f| |]; simpl in G.
    - simpl. lia.
    - eapply plt_mono; [apply IHn; lia|lia].
    - destruct G as [G|[_ G]]; [eapply plt_mono; [apply IHn; lia|lia]|]. apply peek_some in P as [r E]. congruence.
  Qed.
  Lemma req_plt cx s : (len s < k)%nat -> plt (len s) (req rn cx s).
  Proof. intros K. unfold req. apply req_loop_plt; auto. Qed.

  (** the common shape: the reader consumes its first character, then reads with [rn] *)
  Ltac first_char P A1 := pose proof (adv_lt _ _ P) as A1.

  Lemma map_of_same ns l loc s : match map_of ns l loc s with Ok _ s' => s' = s | Err e => e <> EFuel end.
  Proof. unfold map_of. brk. Qed.
  Lemma set_of_same l loc s : match set_of l loc s with Ok _ s' => s' = s | Err e => e <> EFuel end.
  Proof. unfold set_of. brk. Qed.

  Lemma read_list_plt cx s c : peek s = Some c -> (len s <= k)%nat -> plt (len s) (read_list orc rn cx s).
  Proof.
    intros P K. first_char P A1. unfold read_list.
    eapply (bind_plt' (len s)); [eapply plt_mono; [apply read_elems_plt; lia|lia]|].
    intros a s' L. simpl. lia.
  Qed.
  Lemma read_vec_plt cx s c : peek s = Some c -> (len s <= k)%nat -> plt (len s) (read_vec orc rn cx s).
  Proof.
    intros P K. first_char P A1. unfold read_vec.
    eapply (bind_plt' (len s)); [eapply plt_mono; [apply read_elems_plt; lia|lia]|].
    intros a s' L. simpl. lia.
  Qed.
  Lemma read_map_plt cx ns s c : peek s = Some c -> (len s <= k)%nat -> plt (len s) (read_map orc rn cx ns s).
  Proof.
    intros P K. first_char P A1. unfold read_map.
    eapply (bind_plt' (len s)); [eapply plt_mono; [apply read_elems_plt; lia|lia]|].
    intros a s' L. pose proof (map_of_same ns a (mkloc s s') s') as M.
    destruct (map_of ns a (mkloc s s') s'); simpl; [subst; lia|exact M].
  Qed.
  Lemma read_set_plt cx s c : peek s = Some c -> (len s <= k)%nat -> plt (len s) (read_set orc rn cx s).
  Proof.
    intros P K. first_char P A1. unfold read_set.
    eapply (bind_plt' (len s)); [eapply plt_mono; [apply read_elems_plt; lia|lia]|].
    intros a s' L. pose proof (set_of_same a (mkloc s s') s') as M.
    destruct (set_of a (mkloc s s') s'); simpl; [subst; lia|exact M].
  Qed.

  Lemma read_nsmap_plt cx s c : peek s = Some c -> (len s <= k)%nat -> plt (len s) (read_nsmap orc rn cx s).
  Proof.
    intros P K. first_char P A1. unfold read_nsmap.
    eapply (bind_plt' (len s)).
    - destruct (peek (adv s)) as [d|] eqn:P1.
      + pose proof (adv_lt _ _ P1).
        assert (X : plt (len s) (bind (read_namespaced (adv s))
                  (fun p s' => match fst p with Some _ => syn s' | None => Ok (snd p) s' end))).
        { eapply (bind_plt' (len s)); [eapply plt_mono; [apply read_namespaced_plt|lia]|].
          intros p s' L. brk. }
        brk.
      + eapply (bind_plt' (len s)); [eapply plt_mono; [apply read_namespaced_plt|lia]|].
        intros p s' L. brk.
    - intros ns s2 L. pose proof (skipws_le s2) as W.
      destruct (peek (skipws s2)) as [d|] eqn:P2; [|apply eof_ne].
      destruct (d =? 123); [|apply syn_ne].
      eapply plt_mono; [eapply read_map_plt; [exact P2|lia]|lia].
  Qed.

  Lemma read_fn_plt cx s c : peek s = Some c -> (len s <= k)%nat -> plt (len s) (read_fn orc rn cx s).
  Proof.
    intros P K. unfold read_fn. destruct (anon cx); [apply syn_ne|].
    eapply (bind_plt' (len s)); [eapply read_list_plt; eauto|]. intros a s' L. simpl. lia.
  Qed.

  Lemma read_quoted_plt cx s c : peek s = Some c -> (len s <= k)%nat -> plt (len s) (read_quoted rn cx s).
  Proof.
    intros P K. first_char P A1. unfold read_quoted.
    eapply (bind_plt' (len s)); [eapply plt_mono; [apply req_plt; lia|lia]|]. intros a s' L. simpl. lia.
  Qed.
  Lemma read_deref_plt cx s c : peek s = Some c -> (len s <= k)%nat -> plt (len s) (read_deref rn cx s).
  Proof.
    intros P K. first_char P A1. unfold read_deref.
    eapply (bind_plt' (len s)); [eapply plt_mono; [apply req_plt; lia|lia]|]. intros a s' L. simpl. lia.
  Qed.
  Lemma read_unquote_plt cx s c : peek s = Some c -> (len s <= k)%nat -> plt (len s) (read_unquote rn cx s).
  Proof.
    intros P K. first_char P A1. unfold read_unquote.
    assert (X : forall cx' s1, (len s1 < len s)%nat -> forall nm,
              plt (len s) (bind (req rn cx' s1) (fun f s' => Ok (FList [core_sym nm; f] None) s'))).
    { intros cx' s1 L nm. eapply (bind_plt' (len s)); [eapply plt_mono; [apply req_plt; lia|lia]|].
      intros a s' L'. simpl. lia. }
    destruct (peek (adv s)) as [d|] eqn:P1.
    - pose proof (adv_lt _ _ P1). brk; apply X; lia.
    - apply X. lia.
  Qed.
  Lemma sq_process_same f s : match sq_process f s with Ok _ s' => s' = s | Err e => e <> EFuel end.
  Proof. unfold sq_process. brk. Qed.
  Lemma read_sq_plt cx s c : peek s = Some c -> (len s <= k)%nat -> plt (len s) (read_sq rn cx s).
  Proof.
    intros P K. first_char P A1. unfold read_sq.
    eapply (bind_plt' (len s)); [eapply plt_mono; [apply req_plt; lia|lia]|]. intros a s' L.
    pose proof (sq_process_same a s') as M. destruct (sq_process a s'); simpl; [subst; lia|exact M].
  Qed.
  Lemma read_meta_plt cx s c : peek s = Some c -> (len s <= k)%nat -> plt (len s) (read_meta rn cx s).
  Proof.
    intros P K. first_char P A1. unfold read_meta.
    eapply (bind_plt' (len s)); [eapply plt_mono; [apply req_plt; lia|lia]|]. intros m s1 L.
    assert (X : plt (len s) (bind (req rn cx s1) (fun f s2 => if with_meta_ok f then Ok f s2 else syn s2))).
    { eapply (bind_plt' (len s)); [eapply plt_mono; [apply req_plt; lia|lia]|]. intros f s2 L2. brk. }
    destruct m; try apply syn_ne; exact X.
  Qed.
  Lemma read_var_plt cx s c : peek s = Some c -> (len s <= k)%nat -> plt (len s) (read_var rn cx s).
  Proof.
    intros P K. first_char P A1. unfold read_var.
    destruct (peek (adv s)) as [d|] eqn:P1; [|apply eof_ne].
    eapply (bind_plt' (len s)).
    - destruct (d =? 126).
      + eapply plt_mono; [eapply read_unquote_plt; [exact P1|lia]|lia].
      + eapply plt_mono; [apply read_sym_plt|lia].
    - intros f s' L. simpl. lia.
  Qed.

  Lemma fstr_loop_plt cx n s ex acc :
    (len s < n)%nat -> (len s <= k)%nat -> ple (len s) (fstr_loop rn cx n s ex acc).
  Proof.
    revert s ex acc. induction n; intros s ex acc L K; [lia|]. simpl.
    pose proof (adv_le s) as A0.
    destruct (peek (adv s)) as [c1|] eqn:P1; [|apply eof_le].
    pose proof (adv_lt _ _ P1) as A2. pose proof (adv_some _ _ P1) as A3.
    assert (IH : forall s2 ex2 acc2, (len s2 < len s)%nat ->
                                     ple (len s) (fstr_loop rn cx n s2 ex2 acc2)).
    { intros s2 ex2 acc2 L2. eapply ple_mono; [apply IHn; lia|lia]. }
    destruct (c1 =? 92).
    - destruct (peek (adv (adv s))) eqn:P2; [|apply syn_le].
      destruct (assoc n0 str_escapes); [apply IH; lia|].
      destruct ((n0 =? 117) || (n0 =? 85)).
      + pose proof (uni_escape_ple (adv (adv s))) as U.
        destruct (uni_escape (adv (adv s))); simpl in U; [|exact U]. apply IH. lia.
      + destruct (n0 =? 123); [apply IH; lia|apply syn_le].
    - destruct (c1 =? 34); [simpl; pose proof (adv_le (adv s)); lia|].
      destruct (c1 =? 123); [|apply IH; lia].
      assert (K2 : (len (adv (adv s)) < k)%nat) by lia.
      pose proof (goodi_le _ _ (Hrn cx _ K2)) as G.
      destruct (rn cx (adv (adv s))) as [i s3|e]; simpl in G; [|exact G].
      pose proof (skipws_le s3) as W.
      destruct (peek (skipws s3)) as [d|] eqn:P3; [|apply syn_le].
      brk; try apply syn_le. apply IH. lia.
  Qed.
  Lemma read_fstr_ple cx s : (len s <= k)%nat -> ple (len s) (read_fstr rn cx s).
  Proof.
    intros K. unfold read_fstr. pose proof (skipws_le s).
    eapply ple_mono; [apply fstr_loop_plt; unfold len in *; lia|lia].
  Qed.

  Lemma rcond_body_ok cx sp s2 b : (len s2 <= k)%nat -> (len s2 <= b)%nat ->
    match rcond_body orc rn cx sp s2 with Ok _ s' => (len s' < S b)%nat | Err e => e <> EFuel end.
  Proof.
    intros K L. unfold rcond_body.
    destruct (peek s2) as [d|] eqn:P2; [|discriminate].
    pose proof (adv_lt _ _ P2) as A2.
    destruct (d =? 40); [|discriminate].
    assert (K3 : (len (adv s2) < k)%nat) by lia.
    pose proof (read_elems_plt (mkctx (sq cx) (anon cx) false) 41 (adv s2) K3) as R.
    destruct (read_elems _ _ _ _ _) as [items s'|e]; simpl in *; [|exact R].
    destruct (rcond_ok [] items); [|discriminate].
    destruct sp; [lia|].
    pose proof (rcond_branch_same items s') as B.
    destruct (rcond_branch orc items s') as [o s''|e]; simpl; [subst|exact B].
    destruct o; lia.
  Qed.
  Lemma read_rcond_goodi cx s c : peek s = Some c -> (len s <= k)%nat ->
    match read_rcond orc rn cx s with Ok _ s' => (len s' < len s)%nat | Err e => e <> EFuel end.
  Proof.
    intros P K. pose proof (adv_lt _ _ P) as A1. unfold read_rcond.
    destruct (peek (adv s)) as [d|] eqn:P1; [|discriminate].
    pose proof (adv_lt _ _ P1) as A2.
    destruct (d =? 64).
    - pose proof (rcond_body_ok cx true (adv (adv s)) (len (adv (adv s)))) as X.
      destruct (rcond_body _ _ _ _ _); [|apply X; lia]. specialize (X ltac:(lia) ltac:(lia)). lia.
    - destruct (d =? 40); [|discriminate].
      pose proof (rcond_body_ok cx false (adv s) (len (adv s))) as X.
      destruct (rcond_body _ _ _ _ _); [|apply X; lia]. specialize (X ltac:(lia) ltac:(lia)). lia.
  Qed.

  Definition gooditem (s : st) (r : res item) : Prop :=
    match r with Ok _ s' => (len s' < len s)%nat | Err e => e <> EFuel end.
  Lemma plt_gooditem s (r : res form) :
    plt (len s) r -> gooditem s (bind r (fun f s' => Ok (IForm f) s')).
  Proof. destruct r; simpl; auto. Qed.

  Lemma read_tagged_good cx s1 : (len s1 < k)%nat -> gooditem s1 (read_tagged orc rn cx s1).
  Proof.
    intros K. unfold read_tagged, gooditem.
    pose proof (read_sym_plt cx true s1) as RS.
    destruct (read_sym cx true s1) as [t s2|e]; simpl in *; [|exact RS].
    destruct t; try discriminate.
    destruct ((match ns with None => true | Some _ => false end) && str_eqb name [98]).
    { pose proof (read_bytes_ple s2) as B. destruct (read_bytes s2); simpl in *; [lia|exact B]. }
    destruct ((match ns with None => true | Some _ => false end) && str_eqb name [102]).
    { pose proof (read_fstr_ple cx s2 ltac:(lia)) as B. destruct (read_fstr rn cx s2); simpl in *; [lia|exact B]. }
    assert (K2 : (len s2 < k)%nat) by lia.
    pose proof (req_plt cx s2 K2) as R. destruct (req rn cx s2); simpl in *; [|exact R].
    brk.
  Qed.

  Lemma gooditem_mono s s1 r : gooditem s1 r -> (len s1 <= len s)%nat -> gooditem s r.
  Proof. destruct r; simpl; [lia|auto]. Qed.

  Lemma read_macro_good cx s c : peek s = Some c -> (len s <= k)%nat -> gooditem s (read_macro orc rn cx s).
  Proof.
    intros P K. pose proof (adv_lt _ _ P) as A1. unfold read_macro.
    destruct (peek (adv s)) as [d|] eqn:P1; [|discriminate].
    pose proof (adv_lt _ _ P1) as A2.
    assert (M : forall r : res form, plt (len (adv s)) r ->
                gooditem s (bind r (fun f s' => Ok (IForm f) s'))).
    { intros r H. apply plt_gooditem. eapply plt_mono; [exact H|lia]. }
    assert (Kd : (len (adv s) <= k)%nat) by lia.
    assert (D : gooditem s (if is_begin_name d then read_tagged orc rn cx (adv s) else syn (adv s))).
    { destruct (is_begin_name d); [|discriminate].
      eapply gooditem_mono; [apply read_tagged_good; lia|lia]. }
    assert (B1 := M _ (read_set_plt cx _ _ P1 Kd)).
    assert (B2 := M _ (read_fn_plt cx _ _ P1 Kd)).
    assert (B3 := M _ (read_nsmap_plt cx _ _ P1 Kd)).
    assert (B4 := M _ (read_var_plt cx _ _ P1 Kd)).
    assert (B5 : gooditem s (bind (bind (read_str true (adv s))
                   (fun p s' => if orc 0 p then Ok (FRegex p) s' else syn s'))
                   (fun f s' => Ok (IForm f) s'))).
    { apply M. eapply (bind_plt' (len (adv s))); [eapply read_str_plt; eauto|]. intros p s' L. brk. }
    assert (B6 : gooditem s (bind (req rn cx (adv (adv s))) (fun _ s' => Ok IComment s'))).
    { assert (K6 : (len (adv (adv s)) < k)%nat) by lia.
      pose proof (req_plt cx _ K6) as R. destruct (req rn cx (adv (adv s))); simpl in *; [lia|exact R]. }
    assert (B7 : gooditem s (Ok IComment (read_comment (adv s)))).
    { simpl. pose proof (read_comment_lt _ _ P1). lia. }
    assert (B8 : gooditem s (read_rcond orc rn cx (adv s))).
    { pose proof (read_rcond_goodi cx _ _ P1 Kd) as R. unfold gooditem.
      destruct (read_rcond orc rn cx (adv s)); [lia|exact R]. }
    assert (B9 := M _ (read_numconst_plt _ _ P1)).
    clear M. cbv zeta.
    destruct (macro_code d) as [|p]; [exact D|].
    repeat (destruct p as [p|p|]; try assumption).
  Qed.
End Rn.

(* ------------------------------------------------------------------------------------ *)
(** ** _read_next and read() *)
Section Main.
  Variable orc : N -> list N -> bool.

  Lemma gooditem_goodi s r : gooditem s r -> goodi s r.
  Proof. destruct r as [[| |] s'|e]; simpl; auto. Qed.

  Lemma read_next_good fuel : forall cx s, (len s < fuel)%nat -> goodi s (read_next orc fuel cx s).
  Proof.
    induction fuel as [|k IH]; intros cx s L; [lia|]. simpl.
    destruct (peek s) as [c|] eqn:P.
    2:{ simpl. right. split; [reflexivity|]. apply peek_none. exact P. }
    pose proof (adv_lt _ _ P) as A1.
    assert (K : (len s <= k)%nat) by lia.
    assert (F : forall r : res form, plt (len s) r -> goodi s (bind r (fun f s' => Ok (IForm f) s'))).
    { intros r H. apply plt_goodi. exact H. }
    destruct (is_begin_num c). { apply F. apply read_num_plt. }
    destruct (is_ws c) eqn:W.
    { (* whitespace: at least one character is skipped *)
      assert (L2 : (len (skipws s) < len s)%nat).
      { unfold skipws. apply peek_some in P as [r E]. unfold len. rewrite E. simpl.
        unfold peek. rewrite E. simpl. rewrite W.
        pose proof (skip_ws_le (length r) (adv s)) as H. unfold len in H.
        rewrite (adv_rest _ _ _ E) in H. lia. }
      assert (L3 : (len (skipws s) < k)%nat) by lia.
      pose proof (IH cx _ L3) as G.
      destruct (read_next orc k cx (skipws s)) as [[| |] s'|e]; simpl in *; try lia; auto.
      left. destruct G as [G|[-> _]]; lia. }
    assert (D : goodi s (if is_begin_name c
                         then (if c =? 58 then bind (read_kw s) (fun f s' => Ok (IForm f) s')
                               else bind (read_sym cx false s) (fun f s' => Ok (IForm f) s'))
                         else syn s)).
    { destruct (is_begin_name c); [|discriminate].
      destruct (c =? 58); apply F; [eapply read_kw_plt; eauto|apply read_sym_plt]. }
    pose proof (IH) as Hrn.
    assert (B1 := F _ (read_list_plt orc _ k Hrn cx _ _ P K)).
    assert (B2 := F _ (read_vec_plt orc _ k Hrn cx _ _ P K)).
    assert (B3 := F _ (read_map_plt orc _ k Hrn cx None _ _ P K)).
    assert (B4 : goodi s (bind (bind (read_str false s) (fun p s' => Ok (FStr p) s'))
                               (fun f s' => Ok (IForm f) s'))).
    { apply F. eapply (bind_plt' (len s)); [eapply read_str_plt; eauto|]. intros p s' L'. simpl. lia. }
    assert (B5 := F _ (read_quoted_plt _ k Hrn cx _ _ P K)).
    assert (B6 := F _ (read_char_plt _ _ P)).
    assert (B7 : goodi s (read_macro orc (read_next orc k) cx s)).
    { apply gooditem_goodi. apply (read_macro_good orc _ k Hrn cx _ _ P K). }
    assert (B8 := F _ (read_meta_plt _ k Hrn cx _ _ P K)).
    assert (B9 : goodi s (Ok IComment (read_comment s))).
    { simpl. eapply read_comment_lt; eauto. }
    assert (B10 := F _ (read_sq_plt _ k Hrn cx _ _ P K)).
    assert (B11 := F _ (read_unquote_plt _ k Hrn cx _ _ P K)).
    assert (B12 := F _ (read_deref_plt _ k Hrn cx _ _ P K)).
    clear F IH Hrn. cbv zeta.
    destruct (dispatch_code c) as [|p]; [exact D|].
    repeat (destruct p as [p|p|]; try assumption).
  Qed.

  Lemma read_next_nofuel fuel cx s : (len s < fuel)%nat -> read_next orc fuel cx s <> Err EFuel.
  Proof.
    intros L E. pose proof (read_next_good fuel cx s L) as G. rewrite E in G. simpl in G. congruence.
  Qed.

  Lemma read_top_nofuel fuel n s acc :
    (len s < fuel)%nat -> (len s < n)%nat -> read_top orc fuel n s acc <> Err EFuel.
  Proof.
    revert s acc. induction n; intros s acc LF LN; [lia|]. simpl.
    pose proof (read_next_good fuel ctx0 s LF) as G.
    destruct (read_next orc fuel ctx0 s) as [[f| |] s'|e]; simpl in G.
    - assert (X : read_top orc fuel n s' (f :: acc) <> Err EFuel) by (apply IHn; lia).
      destruct f; try exact X. discriminate.
    - apply IHn; lia.
    - discriminate.
    - congruence.
  Qed.

  (** fuel [length s + 1] suffices for every input *)
  Theorem read_all_terminates inp : read_all orc inp <> Err EFuel.
  Proof. unfold read_all. apply read_top_nofuel; unfold len, init; simpl; lia. Qed.
End Main.
