(** C10 extension -- thread bindings: model of the code as it is (runtime.py, one thread).

    - every Var object has its own thread-local store `_tl.bindings` (a Python list, the
      innermost binding last; here: head first), present only while the Var is dynamic
      (Var.__init__ :263, set_dynamic :292-298);
    - the thread has a stack of frames `_THREAD_BINDINGS`, a frame = the set of Vars pushed
      together (push_thread_bindings :1059-1078; here one Var per frame: `(binding [v x] ...)`);
    - push_thread_bindings: `var.dynamic` is tested, `var.push_bindings(val)` appends, then the
      frame is recorded; on failure nothing is recorded;
    - pop_thread_bindings (:1081-1091): the frame is popped FIRST, then `var.pop_bindings()`:
      RuntimeException when the Var is not dynamic (any more), IndexError when its store is
      empty;
    - [def] of an existing Var (Var.intern :387-412, also intern_unbound at analysis time):
      `set_dynamic(dynamic)`: nothing when the flag is unchanged; otherwise the store is
      REPLACED (a fresh one, or None) -- the thread bindings of that Var are dropped while
      their frames stay on `_THREAD_BINDINGS`.  A new Var object starts with an empty store;
    - a reference to a Var whose meta says :dynamic is never direct-linked
      (generator.py:3376-3381) and `Var.value` (:356-366) yields `bindings[-1]` when the Var is
      dynamic and the store is not empty, else the root. *)
From Coq Require Import List NArith Bool.
Import ListNotations.
From Verif Require Import Common.ListX Gen.Tables C10.Munge.
From Verif Require Export C10.Spec C10.Names C10.BSpec.
Local Open Scope N_scope.

Record bstate := mkB {
  stacks : list (key * list N);      (* Var |-> _tl.bindings, innermost first *)
  mframes : list key                 (* _THREAD_BINDINGS, innermost first *)
}.

Record xstate := mkX { base : state; bs : bstate }.

Definition xinit (cur : str) (nss : list str) : xstate := mkX (minit cur nss) (mkB [] []).

Definition stack_of (b : bstate) (k : key) : list N :=
  match aget k (stacks b) with Some s => s | None => [] end.

(** Var.intern on (cur, n) with dynamic flag [f_dyn fl]: set_dynamic *)
Definition on_def (st : sstate) (n : str) (fl : flags) (b : bstate) : bstate :=
  let k := (s_cur st, n) in
  match aget k (s_vars st) with
  | Some r => if Bool.eqb (f_dyn fl) (f_dyn (v_flags r)) then b else mkB (aset k [] (stacks b)) (mframes b)
  | None => mkB (aset k [] (stacks b)) (mframes b)
  end.

Definition xexec (st : xstate) (s : bstep) : xstate * bool :=
  match s with
  | B s0 =>
      (mkX (fst (exec (base st) s0))
           (match s0 with SDef n fl _ => on_def (sp (base st)) n fl (bs st) | _ => bs st end),
       snd (exec (base st) s0))
  | BPush m n v =>
      if is_dynamic (sp (base st)) (m, n)
      then (mkX (base st) (mkB (aset (m, n) (v :: stack_of (bs st) (m, n)) (stacks (bs st)))
                               ((m, n) :: mframes (bs st))), true)
      else (st, false)
  | BPop =>
      match mframes (bs st) with
      | [] => (st, false)
      | k :: fr =>
          if is_dynamic (sp (base st)) k then
            match stack_of (bs st) k with
            | _ :: s' => (mkX (base st) (mkB (aset k s' (stacks (bs st))) fr), true)
            | [] => (mkX (base st) (mkB (stacks (bs st)) fr), false)     (* IndexError *)
            end
          else (mkX (base st) (mkB (stacks (bs st)) fr), false)           (* RuntimeException *)
      end
  end.

Definition xrun (st : xstate) (h : list bstep) : xstate := fold_left (fun s x => fst (xexec s x)) h st.

(** evaluating a compiled reference *)
Definition xread (st : xstate) (md : mode) (rq : readreq) : robs :=
  let '(RR rns loc spl) := rq in
  match resolve (locals_of loc) (sp (base st)) rns spl with
  | RVar k =>
      if is_dynamic (sp (base st)) k then
        match stack_of (bs st) k with
        | v :: _ => OVal v                           (* Var.find(...).value = bindings[-1] *)
        | [] => read (base st) md rq                 (* ... = the root *)
        end
      else read (base st) md rq
  | _ => read (base st) md rq
  end.

(** defect tag of the correspondence run: a [def] changes the dynamic marking of a Var that
    has frames on the thread's frame stack *)
Definition dyn_hazard (st : xstate) (s : bstep) : bool :=
  match s with
  | B (SDef n fl _) =>
      let k := (s_cur (sp (base st)), n) in
      match aget k (s_vars (sp (base st))) with
      | Some r => negb (Bool.eqb (f_dyn fl) (f_dyn (v_flags r))) && existsb (key_eqb k) (mframes (bs st))
      | None => false
      end
  | _ => false
  end.
