(** C10 extension -- thread bindings: proofs over ALL histories.

    One invariant ties three readings of a history together: the model of the code (per-Var
    stores + the thread's frame stack, C10/BNames.v), the reference semantics (one stack of
    frames, C10/BSpec.v) and the history-level reading [open_frames]:
      the store of Var k = the values of the open frames of k whose Var has kept its dynamic
      marking since they were entered, innermost first. *)
From Coq Require Import List NArith Bool Lia.
Import ListNotations.
From Verif Require Import Common.ListX Gen.Tables C10.Munge C10.MungeProofs C10.Spec C10.Names C10.Proofs
  C10.Theorems C10.BSpec C10.BNames.
Local Open Scope N_scope.

(** ---- small facts ---- *)
Lemma key_eqb_sym a b : key_eqb a b = key_eqb b a.
Proof.
  destruct (key_eqb a b) eqn:E.
  - apply key_eqb_eq in E. subst. symmetry. apply key_eqb_refl.
  - apply key_eqb_neq in E. symmetry. apply key_eqb_neq. auto.
Qed.

Definition dynof (st : sstate) (k : key) : option bool :=
  option_map (fun r => f_dyn (v_flags r)) (aget k (s_vars st)).

Lemma is_dynamic_dynof st k : is_dynamic st k = match dynof st k with Some b => b | None => false end.
Proof. unfold is_dynamic, dynof. destruct (aget k (s_vars st)); reflexivity. Qed.

Lemma dynof_sexec st s0 k :
  dynof (fst (sexec st s0)) k =
  match s0 with
  | SDef n fl _ => if key_eqb k (s_cur st, n) then Some (f_dyn fl) else dynof st k
  | _ => dynof st k
  end.
Proof.
  unfold dynof. destruct s0 as [n fl v|m|m a|m only|m n v]; simpl.
  - rewrite ?aget_aset. destruct (key_eqb k (s_cur st, n)); reflexivity.
  - reflexivity.
  - destruct (mem_str m (s_nss st)); reflexivity.
  - destruct (mem_str m (s_nss st)); reflexivity.
  - destruct (aget (m, n) (s_vars st)) as [r|] eqn:E; simpl; [|reflexivity].
    rewrite ?aget_aset. destruct (key_eqb k (m, n)) eqn:K; [|reflexivity].
    apply key_eqb_eq in K. subst k. rewrite E. reflexivity.
Qed.

Lemma cur_sexec st s0 : s_cur (fst (sexec st s0)) = match s0 with SInNs m => m | _ => s_cur st end.
Proof.
  destruct s0 as [n fl v|m|m a|m only|m n v]; simpl; try reflexivity.
  - destruct (mem_str m (s_nss st)); reflexivity.
  - destruct (mem_str m (s_nss st)); reflexivity.
  - destruct (aget (m, n) (s_vars st)); reflexivity.
Qed.

Lemma is_dynamic_sexec_other st s0 k :
  (forall n fl v, s0 = SDef n fl v -> key_eqb k (s_cur st, n) = false) ->
  is_dynamic (fst (sexec st s0)) k = is_dynamic st k.
Proof.
  intro H. rewrite !is_dynamic_dynof, dynof_sexec. destruct s0; try reflexivity.
  rewrite (H _ _ _ eq_refl). reflexivity.
Qed.

Lemma stack_of_aset k s l f k' :
  stack_of (mkB (aset k s l) f) k' = if key_eqb k' k then s else stack_of (mkB l f) k'.
Proof. unfold stack_of. simpl. rewrite ?aget_aset. destruct (key_eqb k' k); reflexivity. Qed.

Lemma stack_of_frames l f f' k : stack_of (mkB l f) k = stack_of (mkB l f') k.
Proof. reflexivity. Qed.

Lemma bs_eta b : mkB (stacks b) (mframes b) = b.
Proof. destruct b; reflexivity. Qed.

(** ---- the base state is not touched by bindings ---- *)
Lemma base_xexec st s :
  base (fst (xexec st s)) = match s with B s0 => fst (exec (base st) s0) | _ => base st end.
Proof.
  destruct s as [s0|m n v|]; simpl.
  - reflexivity.
  - destruct (is_dynamic (sp (base st)) (m, n)); reflexivity.
  - destruct (mframes (bs st)) as [|k fr]; [reflexivity|].
    destruct (is_dynamic (sp (base st)) k); [|reflexivity].
    destruct (stack_of (bs st) k); reflexivity.
Qed.

Lemma base_xrun h : forall st, base (xrun st h) = run (base st) (base_steps h).
Proof.
  unfold xrun, run. induction h as [|s h IH]; intro st; simpl; [reflexivity|].
  rewrite IH, base_xexec. destruct s; reflexivity.
Qed.

Lemma xs_base_xsexec st s :
  xs_base (fst (xsexec st s)) = match s with B s0 => fst (sexec (xs_base st) s0) | _ => xs_base st end.
Proof.
  destruct s as [s0|m n v|]; simpl.
  - reflexivity.
  - destruct (is_dynamic (xs_base st) (m, n)); reflexivity.
  - destruct (xs_frames st); reflexivity.
Qed.

Lemma xs_base_xsrun h : forall st, xs_base (xsrun st h) = srun (xs_base st) (base_steps h).
Proof.
  unfold xsrun, srun. induction h as [|s h IH]; intro st; simpl; [reflexivity|].
  rewrite IH, xs_base_xsexec. destruct s; reflexivity.
Qed.

Definition xafter (cur : str) (nss : list str) (h : list bstep) : xstate := xrun (xinit cur nss) h.
Definition xsafter (cur : str) (nss : list str) (h : list bstep) : xsstate := xsrun (xsinit cur nss) h.

Lemma base_xafter cur nss h : base (xafter cur nss h) = after cur nss (base_steps h).
Proof. unfold xafter, after. rewrite base_xrun. reflexivity. Qed.

Lemma xs_base_xsafter cur nss h : xs_base (xsafter cur nss h) = srun (init cur nss) (base_steps h).
Proof. unfold xsafter. rewrite xs_base_xsrun. reflexivity. Qed.

Lemma xafter_app cur nss h1 h2 : xafter cur nss (h1 ++ h2) = xrun (xafter cur nss h1) h2.
Proof. unfold xafter, xrun. apply fold_left_app. Qed.

(** ---- lists of history frames ---- *)
Definition sel (k : key) (f : hframe) : bool := key_eqb k (hf_key f) && hf_intact f.
Definition no_intact (k : key) (fr : list hframe) : bool := forallb (fun f => negb (sel k f)) fr.
Fixpoint ordered (fr : list hframe) : bool :=
  match fr with
  | [] => true
  | f :: r => (hf_intact f || no_intact (hf_key f) r) && ordered r
  end.
Definition erase (f : hframe) : key * N := (hf_key f, hf_val f).
Definition vals (k : key) (fr : list hframe) : list N := map hf_val (filter (sel k) fr).

Lemma sel_spoil_same k f : sel k (spoil k f) = false.
Proof.
  unfold sel. change (hf_key (spoil k f)) with (hf_key f).
  change (hf_intact (spoil k f)) with (hf_intact f && negb (key_eqb k (hf_key f))).
  destruct (key_eqb k (hf_key f)); [simpl; apply andb_false_r | reflexivity].
Qed.

Lemma sel_spoil_other k k0 f : key_eqb k k0 = false -> sel k (spoil k0 f) = sel k f.
Proof.
  intro N. unfold sel. change (hf_key (spoil k0 f)) with (hf_key f).
  change (hf_intact (spoil k0 f)) with (hf_intact f && negb (key_eqb k0 (hf_key f))).
  destruct (key_eqb k (hf_key f)) eqn:E; [|reflexivity].
  apply key_eqb_eq in E. rewrite <- E, (key_eqb_sym k0 k), N. simpl. rewrite andb_true_r. reflexivity.
Qed.

Lemma vals_spoil_same k fr : vals k (map (spoil k) fr) = [].
Proof.
  unfold vals. induction fr as [|f r IH]; [reflexivity|]. simpl. rewrite sel_spoil_same. exact IH.
Qed.

Lemma vals_spoil_other k k0 fr : key_eqb k k0 = false -> vals k (map (spoil k0) fr) = vals k fr.
Proof.
  intro N. unfold vals. induction fr as [|f r IH]; [reflexivity|]. simpl.
  rewrite (sel_spoil_other _ _ _ N). destruct (sel k f); simpl; rewrite IH; reflexivity.
Qed.

Lemma no_intact_vals k fr : no_intact k fr = true -> vals k fr = [].
Proof.
  unfold no_intact, vals. induction fr as [|f r IH]; [reflexivity|]. simpl.
  intro H. apply andb_true_iff in H as [H1 H2]. apply negb_true_iff in H1. rewrite H1. auto.
Qed.

Lemma no_intact_spoil k k0 fr : no_intact k fr = true -> no_intact k (map (spoil k0) fr) = true.
Proof.
  unfold no_intact. induction fr as [|f r IH]; [reflexivity|]. simpl.
  intro H. apply andb_true_iff in H as [H1 H2]. rewrite (IH H2), andb_true_r.
  destruct (key_eqb k k0) eqn:E.
  - apply key_eqb_eq in E. subst k0. rewrite sel_spoil_same. reflexivity.
  - rewrite (sel_spoil_other _ _ _ E). exact H1.
Qed.

Lemma no_intact_spoil_same k fr : no_intact k (map (spoil k) fr) = true.
Proof.
  unfold no_intact. induction fr as [|f r IH]; [reflexivity|]. simpl. rewrite sel_spoil_same, IH. reflexivity.
Qed.

Lemma ordered_spoil k0 fr : ordered fr = true -> ordered (map (spoil k0) fr) = true.
Proof.
  induction fr as [|f r IH]; [reflexivity|]. cbn [map ordered].
  intro H. apply andb_true_iff in H as [H1 H2]. rewrite (IH H2), andb_true_r.
  change (hf_key (spoil k0 f)) with (hf_key f).
  change (hf_intact (spoil k0 f)) with (hf_intact f && negb (key_eqb k0 (hf_key f))).
  destruct (key_eqb k0 (hf_key f)) eqn:E.
  - apply key_eqb_eq in E. rewrite <- E. rewrite no_intact_spoil_same. apply orb_true_r.
  - cbn [negb]. rewrite andb_true_r. apply orb_true_iff in H1 as [H1|H1].
    + rewrite H1. reflexivity.
    + rewrite (no_intact_spoil _ _ _ H1). apply orb_true_r.
Qed.

Lemma map_erase_spoil k fr : map erase (map (spoil k) fr) = map erase fr.
Proof. rewrite map_map. reflexivity. Qed.

Lemma map_key_spoil k fr : map hf_key (map (spoil k) fr) = map hf_key fr.
Proof. rewrite map_map. reflexivity. Qed.

Lemma hfind_vals k fr v : hfind k fr = Some (v, true) -> exists rest, vals k fr = v :: rest.
Proof.
  unfold vals. induction fr as [|f r IH]; simpl; [discriminate|].
  unfold sel at 1. destruct (key_eqb k (hf_key f)) eqn:E; simpl.
  - intro H. inversion H. rewrite H2. simpl. eauto.
  - exact IH.
Qed.

Lemma hfind_in k fr v i : hfind k fr = Some (v, i) -> exists f, In f fr /\ hf_key f = k /\ hf_val f = v /\ hf_intact f = i.
Proof.
  induction fr as [|f r IH]; simpl; [discriminate|].
  destruct (key_eqb k (hf_key f)) eqn:E.
  - intro H. inversion H. apply key_eqb_eq in E. exists f. auto.
  - intro H. destruct (IH H) as [g [I G]]. exists g. auto.
Qed.

Lemma hfind_none_vals k fr : hfind k fr = None -> vals k fr = [].
Proof.
  unfold vals. induction fr as [|f r IH]; simpl; [reflexivity|].
  unfold sel at 1. destruct (key_eqb k (hf_key f)); simpl; [discriminate | exact IH].
Qed.

Lemma hfind_spoiled_vals k fr v : ordered fr = true -> hfind k fr = Some (v, false) -> vals k fr = [].
Proof.
  unfold vals. induction fr as [|f r IH]; simpl; [reflexivity|].
  intro O. apply andb_true_iff in O as [O1 O2].
  unfold sel at 1. destruct (key_eqb k (hf_key f)) eqn:E; simpl.
  - intro H. inversion H. rewrite H2 in *. simpl in O1. apply key_eqb_eq in E. subst k.
    apply (no_intact_vals _ _ O1).
  - apply IH. exact O2.
Qed.

Lemma aget_erase k fr : aget k (map erase fr) = option_map fst (hfind k fr).
Proof.
  induction fr as [|f r IH]; [reflexivity|]. simpl.
  destruct (key_eqb k (hf_key f)); [reflexivity | exact IH].
Qed.

Lemma intact_vals k fr :
  forallb hf_intact fr = true ->
  aget k (map erase fr) = match vals k fr with v :: _ => Some v | [] => None end.
Proof.
  unfold vals. induction fr as [|f r IH]; [reflexivity|]. simpl.
  intro H. apply andb_true_iff in H as [H1 H2]. unfold sel at 1. rewrite H1, andb_true_r.
  destruct (key_eqb k (hf_key f)); [reflexivity | apply IH; exact H2].
Qed.

Lemma ahas_erase_false k fr : ahas k (map erase fr) = false -> map (spoil k) fr = fr.
Proof.
  unfold ahas. induction fr as [|f r IH]; [reflexivity|]. simpl.
  destruct (key_eqb k (hf_key f)) eqn:E; [discriminate|].
  intro H. rewrite (IH H). f_equal. unfold spoil. rewrite E. simpl. rewrite andb_true_r.
  destruct f as [[a b] c]. reflexivity.
Qed.

(** ---- the invariant ---- *)
Record inv (x : xstate) (xs : xsstate) (a : hacc) : Prop := {
  iv_base : sp (base x) = xs_base xs;
  iv_cur : h_cur a = s_cur (xs_base xs);
  iv_dyn : forall k, aget k (h_dyn a) = dynof (xs_base xs) k;
  iv_frames : xs_frames xs = map erase (h_fr a);
  iv_mframes : mframes (bs x) = map hf_key (h_fr a);
  iv_stack : forall k, stack_of (bs x) k = vals k (h_fr a);
  iv_live : forall f, In f (h_fr a) -> hf_intact f = true -> is_dynamic (xs_base xs) (hf_key f) = true;
  iv_ord : ordered (h_fr a) = true
}.

Lemma inv_init cur nss : inv (xinit cur nss) (xsinit cur nss) (mkH cur [] []).
Proof. split; simpl; try reflexivity; intros; contradiction. Qed.

Ltac other_base_step :=
  match goal with
  | Ib : sp (base _) = xs_base _, Ic : h_cur _ = _, Id : forall k, aget k _ = dynof _ k,
    Il : forall f, In f _ -> _ -> _ |- _ =>
      cbn [hstep xexec xsexec fst];
      split; cbn [h_cur h_dyn h_fr xs_base xs_frames base bs]; try assumption;
      try (rewrite cur_sexec; first [reflexivity | exact Ic]);
      try (intro k; rewrite dynof_sexec; apply Id);
      try (intros f I T; rewrite is_dynamic_sexec_other; [apply Il; assumption | intros; discriminate])
  end.

Lemma inv_step x xs a s : inv x xs a -> inv (fst (xexec x s)) (fst (xsexec xs s)) (hstep a s).
Proof.
  intros [Ib Ic Id If Im Is Il Io].
  destruct s as [s0|m n v|].
  - (* a base step *)
    assert (Eb : sp (base (fst (xexec x (B s0)))) = xs_base (fst (xsexec xs (B s0)))).
    { simpl. rewrite sp_exec, Ib. reflexivity. }
    destruct s0 as [n fl v|m|m al|m only|m n v].
    + (* def *)
      set (k0 := (s_cur (xs_base xs), n)).
      assert (Ed : forall k, dynof (fst (sexec (xs_base xs) (SDef n fl v))) k
                             = if key_eqb k k0 then Some (f_dyn fl) else dynof (xs_base xs) k).
      { intro k. rewrite dynof_sexec. reflexivity. }
      assert (Edyn : forall k, key_eqb k k0 = false ->
                is_dynamic (fst (sexec (xs_base xs) (SDef n fl v))) k = is_dynamic (xs_base xs) k).
      { intros k K. rewrite !is_dynamic_dynof, Ed, K. reflexivity. }
      cbn [hstep]. rewrite Ic. fold k0. rewrite Id. unfold dynof at 1.
      cbn [xexec xsexec fst]. unfold on_def. rewrite Ib. fold k0.
      destruct (aget k0 (s_vars (xs_base xs))) as [r|] eqn:A; cbn [option_map].
      * destruct (Bool.eqb (f_dyn fl) (f_dyn (v_flags r))) eqn:F; cbn [negb].
        -- (* same marking *)
           split; cbn [h_cur h_dyn h_fr xs_base xs_frames base bs]; try assumption.
           ++ rewrite cur_sexec. reflexivity.
           ++ intro k. rewrite aget_aset, Ed. destruct (key_eqb k k0); [reflexivity | apply Id].
           ++ intros f I T. destruct (key_eqb (hf_key f) k0) eqn:K.
              ** apply key_eqb_eq in K. rewrite K. rewrite is_dynamic_dynof, Ed, key_eqb_refl.
                 pose proof (Il f I T) as D. rewrite K in D. unfold is_dynamic in D. rewrite A in D.
                 apply Bool.eqb_prop in F. congruence.
              ** rewrite (Edyn _ K). apply Il; assumption.
        -- (* marking changed: the store is replaced *)
           split; cbn [h_cur h_dyn h_fr xs_base xs_frames base bs stacks mframes].
           ++ exact Eb.
           ++ rewrite cur_sexec. reflexivity.
           ++ intro k. rewrite aget_aset, Ed. destruct (key_eqb k k0); [reflexivity | apply Id].
           ++ rewrite map_erase_spoil. exact If.
           ++ rewrite map_key_spoil. exact Im.
           ++ intro k. rewrite stack_of_aset. destruct (key_eqb k k0) eqn:K.
              ** apply key_eqb_eq in K. subst k. symmetry. apply vals_spoil_same.
              ** rewrite (vals_spoil_other _ _ _ K). rewrite <- Is. destruct (bs x); reflexivity.
           ++ intros f I T. apply in_map_iff in I as [g [G I]]. subst f.
              simpl in T. apply andb_true_iff in T as [T1 T2]. apply negb_true_iff in T2.
              change (hf_key (spoil k0 g)) with (hf_key g).
              rewrite Edyn; [apply Il; assumption | rewrite key_eqb_sym; exact T2].
           ++ apply ordered_spoil. exact Io.
      * (* a new Var: no frame of it can be intact *)
        assert (NI : forall f, In f (h_fr a) -> hf_intact f = true -> key_eqb (hf_key f) k0 = false).
        { intros f I T. destruct (key_eqb (hf_key f) k0) eqn:K; [|reflexivity].
          apply key_eqb_eq in K. pose proof (Il f I T) as D. rewrite K in D.
          unfold is_dynamic in D. rewrite A in D. discriminate. }
        split; cbn [h_cur h_dyn h_fr xs_base xs_frames base bs stacks mframes]; try assumption.
        -- rewrite cur_sexec. reflexivity.
        -- intro k. rewrite aget_aset, Ed. destruct (key_eqb k k0); [reflexivity | apply Id].
        -- intro k. rewrite stack_of_aset. destruct (key_eqb k k0) eqn:K.
           ++ apply key_eqb_eq in K. subst k. symmetry. apply no_intact_vals.
              unfold no_intact. apply forallb_forall. intros f I. unfold sel.
              destruct (hf_intact f) eqn:T; [|rewrite andb_false_r; reflexivity].
              rewrite key_eqb_sym, (NI f I T). reflexivity.
           ++ rewrite <- Is. destruct (bs x); reflexivity.
        -- intros f I T. rewrite (Edyn _ (NI f I T)). apply Il; assumption.
    + (* in-ns *) other_base_step.
    + (* require *) other_base_step.
    + (* refer *) other_base_step.
    + (* alter-var-root *) other_base_step.
  - (* push *)
    cbn [hstep xexec xsexec]. rewrite Ib, Id, is_dynamic_dynof.
    destruct (dynof (xs_base xs) (m, n)) as [[|]|] eqn:D; cbn [fst];
      try (split; assumption).
    split; cbn [h_cur h_dyn h_fr xs_base xs_frames base bs stacks mframes]; try assumption.
    + rewrite If. reflexivity.
    + rewrite Im. reflexivity.
    + intro k. rewrite stack_of_aset. unfold vals. cbn [filter]. unfold sel at 1. cbn [hf_key hf_intact fst snd].
      rewrite andb_true_r. destruct (key_eqb k (m, n)) eqn:K.
      * apply key_eqb_eq in K. subst k. cbn [map hf_val fst snd]. f_equal. apply Is.
      * rewrite (stack_of_frames _ _ (mframes (bs x))), bs_eta. apply Is.
    + intros f [I|I] T; [|apply Il; assumption]. subst f. cbn [hf_key fst].
      rewrite is_dynamic_dynof, D. reflexivity.
  - (* pop *)
    cbn [hstep xexec xsexec]. rewrite If, Im, Ib.
    destruct (h_fr a) as [|f r] eqn:HF; cbn [map tl].
    + cbn [fst]. split; cbn [h_cur h_dyn h_fr]; try assumption; try (rewrite <- HF; assumption).
    + cbn [ordered] in Io. apply andb_true_iff in Io as [Io1 Io2].
      assert (Il' : forall g, In g r -> hf_intact g = true -> is_dynamic (xs_base xs) (hf_key g) = true).
      { intros g I T. apply Il; [right; exact I | exact T]. }
      destruct (hf_intact f) eqn:T.
      * (* the innermost frame is intact: the Var is dynamic and its store holds the value *)
        rewrite (Il f (or_introl eq_refl) T).
        assert (S : stack_of (bs x) (hf_key f) = hf_val f :: vals (hf_key f) r).
        { rewrite Is. unfold vals. cbn [filter]. unfold sel at 1. rewrite key_eqb_refl, T. reflexivity. }
        rewrite S. cbn [fst].
        split; cbn [h_cur h_dyn h_fr xs_base xs_frames base bs stacks mframes]; try assumption; try reflexivity.
        intro k. rewrite stack_of_aset. destruct (key_eqb k (hf_key f)) eqn:K.
        -- apply key_eqb_eq in K. subst k. reflexivity.
        -- rewrite stack_of_frames with (f' := mframes (bs x)).
           replace (mkB (stacks (bs x)) (mframes (bs x))) with (bs x) by (destruct (bs x); reflexivity).
           rewrite Is. unfold vals. cbn [filter]. unfold sel at 1. rewrite K. reflexivity.
      * (* its Var's marking was changed: the store is empty, pop_bindings raises *)
        simpl in Io1.
        assert (S : forall k, stack_of (bs x) k = vals k r).
        { intro k. rewrite Is. unfold vals. cbn [filter]. unfold sel at 1. rewrite T, andb_false_r. reflexivity. }
        assert (E : stack_of (bs x) (hf_key f) = []).
        { rewrite S. apply no_intact_vals. exact Io1. }
        assert (R : inv (mkX (base x) (mkB (stacks (bs x)) (map hf_key r))) (mkXS (xs_base xs) (map erase r))
                        (mkH (h_cur a) (h_dyn a) r)).
        { split; cbn [h_cur h_dyn h_fr xs_base xs_frames base bs stacks mframes]; try assumption; try reflexivity. }
        destruct (is_dynamic (xs_base xs) (hf_key f)); [rewrite E|]; exact R.
Qed.

Lemma inv_run h : forall x xs a, inv x xs a -> inv (xrun x h) (xsrun xs h) (hrun a h).
Proof.
  unfold xrun, xsrun, hrun. induction h as [|s h IH]; intros x xs a I; simpl; [exact I|].
  apply IH. apply inv_step. exact I.
Qed.

Lemma inv_after cur nss h : inv (xafter cur nss h) (xsafter cur nss h) (hrun (mkH cur [] []) h).
Proof. apply inv_run. apply inv_init. Qed.

(** ---- the reference semantics is the history-level reading (all histories) ---- *)
Theorem spec_frames_are_open_frames cur nss h :
  xs_frames (xsafter cur nss h) = map erase (open_frames cur h).
Proof. exact (iv_frames _ _ _ (inv_after cur nss h)). Qed.

Theorem thread_view_is_innermost cur nss h k :
  thread_view (xsafter cur nss h) k =
  if is_dynamic (xs_base (xsafter cur nss h)) k then option_map fst (innermost cur h k) else None.
Proof.
  unfold thread_view, innermost. rewrite spec_frames_are_open_frames, aget_erase. reflexivity.
Qed.

(** ---- reads inside bindings (all histories) ---- *)
(** A read of a Var whose innermost open binding gave it [v] -- the Var having kept its
    dynamic marking since that binding was entered -- yields [v]: in both linking modes,
    through every spelling, whatever defs / redefinitions / root mutations / other bindings
    happened before or since.  (Such a Var is dynamic: [innermost_is_dynamic].) *)
Theorem read_sees_innermost_binding cur nss h md rns loc spl k v :
  let st := xafter cur nss h in
  resolve (locals_of loc) (sp (base st)) rns spl = RVar k ->
  innermost cur h k = Some (v, true) ->
  xread st md (RR rns loc spl) = OVal v.
Proof.
  intros st R H. pose proof (inv_after cur nss h) as I. fold st in I.
  unfold innermost, open_frames in H.
  destruct (hfind_in _ _ _ _ H) as [f [F [K [_ T]]]].
  pose proof (iv_live _ _ _ I f F T) as D. rewrite K, <- (iv_base _ _ _ I) in D.
  destruct (hfind_vals _ _ _ H) as [rest V].
  unfold xread. rewrite R, D, (iv_stack _ _ _ I), V. reflexivity.
Qed.

Theorem innermost_is_dynamic cur nss h k v :
  innermost cur h k = Some (v, true) -> is_dynamic (sp (base (xafter cur nss h))) k = true.
Proof.
  intro H. pose proof (inv_after cur nss h) as I. unfold innermost, open_frames in H.
  destruct (hfind_in _ _ _ _ H) as [f [F [K [_ T]]]].
  pose proof (iv_live _ _ _ I f F T) as D. rewrite K, <- (iv_base _ _ _ I) in D. exact D.
Qed.

(** no open binding (or the Var is not dynamic): the read is the read of C10/Names.v after the
    defs / root mutations of the history *)
Theorem read_without_binding cur nss h md rq k :
  let st := xafter cur nss h in
  (let '(RR rns loc spl) := rq in resolve (locals_of loc) (sp (base st)) rns spl = RVar k) ->
  innermost cur h k = None \/ is_dynamic (sp (base st)) k = false ->
  xread st md rq = read (after cur nss (base_steps h)) md rq.
Proof.
  intros st R H. pose proof (inv_after cur nss h) as I. fold st in I.
  rewrite <- base_xafter. fold st. destruct rq as [rns loc spl]. unfold xread. rewrite R.
  destruct (is_dynamic (sp (base st)) k) eqn:D; [|reflexivity].
  destruct H as [H|H]; [|discriminate].
  rewrite (iv_stack _ _ _ I). unfold innermost, open_frames in H. rewrite (hfind_none_vals _ _ H). reflexivity.
Qed.

(** the code as it is: a binding whose Var's dynamic marking was changed by a def is not
    seen any more (the reference semantics still shows it when the Var is dynamic again) *)
Theorem read_after_marking_change cur nss h md rq k v :
  let st := xafter cur nss h in
  (let '(RR rns loc spl) := rq in resolve (locals_of loc) (sp (base st)) rns spl = RVar k) ->
  innermost cur h k = Some (v, false) ->
  xread st md rq = read (after cur nss (base_steps h)) md rq.
Proof.
  intros st R H. pose proof (inv_after cur nss h) as I. fold st in I.
  rewrite <- base_xafter. fold st. destruct rq as [rns loc spl]. unfold xread. rewrite R.
  destruct (is_dynamic (sp (base st)) k) eqn:D; [|reflexivity].
  rewrite (iv_stack _ _ _ I). unfold innermost, open_frames in H.
  rewrite (hfind_spoiled_vals _ _ _ (iv_ord _ _ _ I) H). reflexivity.
Qed.

(** ---- under the guard the model meets the reference semantics ---- *)
Lemma intact_step x xs a s :
  inv x xs a -> forallb hf_intact (h_fr a) = true -> dyn_safe xs s = true ->
  forallb hf_intact (h_fr (hstep a s)) = true.
Proof.
  intros [Ib Ic Id If Im Is Il Io] T S.
  destruct s as [s0|m n v|].
  - destruct s0 as [n fl v|m|m al|m only|m n v]; try exact T.
    cbn [hstep h_fr]. rewrite Ic, Id. unfold dynof. simpl in S.
    destruct (aget (s_cur (xs_base xs), n) (s_vars (xs_base xs))) as [r|]; cbn [option_map]; [|exact T].
    destruct (Bool.eqb (f_dyn fl) (f_dyn (v_flags r))); cbn [negb]; [exact T|].
    simpl in S. apply negb_true_iff in S. unfold has_frame in S. rewrite If in S.
    rewrite (ahas_erase_false _ _ S). exact T.
  - cbn [hstep]. destruct (aget (m, n) (h_dyn a)) as [[|]|]; exact T.
  - cbn [hstep h_fr]. destruct (h_fr a) as [|f r]; [exact T|]. simpl in T. apply andb_true_iff in T as [_ T]. exact T.
Qed.

Lemma intact_run h : forall x xs a,
  inv x xs a -> forallb hf_intact (h_fr a) = true -> dyn_stable xs h = true ->
  forallb hf_intact (h_fr (hrun a h)) = true.
Proof.
  unfold hrun. induction h as [|s h IH]; intros x xs a I T S; simpl; [exact T|].
  simpl in S. apply andb_true_iff in S as [S1 S2].
  apply (IH (fst (xexec x s)) (fst (xsexec xs s))); [apply inv_step; exact I | eapply intact_step; eassumption | exact S2].
Qed.

Lemma intact_after cur nss h :
  dyn_stable (xsinit cur nss) h = true -> forallb hf_intact (open_frames cur h) = true.
Proof. intro S. unfold open_frames. eapply intact_run; [apply inv_init | reflexivity | exact S]. Qed.

(** every step succeeds in the model exactly when it does in the reference semantics *)
Theorem steps_agree_partial cur nss h s :
  dyn_stable (xsinit cur nss) h = true ->
  snd (xexec (xafter cur nss h) s) = snd (xsexec (xsafter cur nss h) s).
Proof.
  intro S. pose proof (intact_after cur nss h S) as T. pose proof (inv_after cur nss h) as I.
  unfold open_frames in T. destruct I as [Ib Ic Id If Im Is Il Io].
  destruct s as [s0|m n v|]; simpl.
  - rewrite exec_ok, Ib. reflexivity.
  - rewrite Ib. destruct (is_dynamic (xs_base (xsafter cur nss h)) (m, n)); reflexivity.
  - rewrite Im, If, Ib. destruct (h_fr (hrun (mkH cur [] []) h)) as [|f r] eqn:HF; [reflexivity|].
    simpl. simpl in T. apply andb_true_iff in T as [T1 T2].
    rewrite (Il f (or_introl eq_refl) T1), Is. unfold vals. cbn [filter]. unfold sel at 1.
    rewrite key_eqb_refl, T1. reflexivity.
Qed.

Theorem model_meets_spec_bind_partial cur nss h md rq :
  no_collision (minit cur nss) (base_steps h) = true ->
  priv_stable (init cur nss) (base_steps h) = true ->
  dyn_stable (xsinit cur nss) h = true ->
  bread_ok (xsafter cur nss h) md rq (xread (xafter cur nss h) md rq) = true.
Proof.
  intros N P S. pose proof (intact_after cur nss h S) as T. pose proof (inv_after cur nss h) as I.
  unfold open_frames in T.
  pose proof (model_meets_spec_partial cur nss (base_steps h) md rq N P) as M. cbv zeta in M.
  rewrite <- base_xafter in M.
  destruct rq as [rns loc spl]. unfold bread_ok, xread.
  rewrite <- (iv_base _ _ _ I).
  destruct (resolve (locals_of loc) (sp (base (xafter cur nss h))) rns spl) as [|k| | |] eqn:R; try exact M.
  destruct (is_private (sp (base (xafter cur nss h))) k && negb (str_eqb (fst k) rns)) eqn:PV.
  - exfalso. apply andb_true_iff in PV as [P1 P2]. apply negb_true_iff in P2. apply str_eqb_neq in P2.
    apply P2. rewrite base_xafter in R, P1.
    exact (private_unreachable_partial cur nss (base_steps h) (locals_of loc) rns spl k P R P1).
  - unfold thread_view. rewrite <- (iv_base _ _ _ I).
    destruct (is_dynamic (sp (base (xafter cur nss h))) k); [|exact M].
    rewrite (iv_frames _ _ _ I), (intact_vals _ _ T), (iv_stack _ _ _ I).
    destruct (vals k (h_fr (hrun (mkH cur [] []) h))) as [|v rest]; [exact M|].
    simpl. apply N.eqb_refl.
Qed.

(** ---- leaving a binding restores the previous view ---- *)
Lemma stack_of_set b k s f k' :
  stack_of (mkB (aset k s (stacks b)) f) k' = if key_eqb k' k then s else stack_of b k'.
Proof. unfold stack_of. simpl. rewrite ?aget_aset. destruct (key_eqb k' k); reflexivity. Qed.

Lemma stack_of_same b f k : stack_of (mkB (stacks b) f) k = stack_of b k.
Proof. reflexivity. Qed.

Definition xeq (a b : xstate) : Prop :=
  base a = base b /\ mframes (bs a) = mframes (bs b) /\ forall k, stack_of (bs a) k = stack_of (bs b) k.

Lemma xeq_refl a : xeq a a.
Proof. repeat split. Qed.

Lemma xexec_xeq a b s : xeq a b -> xeq (fst (xexec a s)) (fst (xexec b s)).
Proof.
  intros [Eb [Em Es]]. destruct s as [s0|m n v|]; cbn [xexec].
  - rewrite Eb. cbn [fst]. split; [reflexivity|].
    destruct s0 as [n fl v|m|m al|m only|m n v]; cbn [bs]; try (split; assumption).
    unfold on_def.
    destruct (aget (s_cur (sp (base b)), n) (s_vars (sp (base b)))) as [r|].
    + destruct (Bool.eqb (f_dyn fl) (f_dyn (v_flags r))); [split; assumption|].
      split; [exact Em|]. intro k. rewrite !stack_of_set. destruct (key_eqb k _); [reflexivity | apply Es].
    + split; [exact Em|]. intro k. rewrite !stack_of_set. destruct (key_eqb k _); [reflexivity | apply Es].
  - rewrite Eb. destruct (is_dynamic (sp (base b)) (m, n)); cbn [fst]; [|repeat split; assumption].
    split; [reflexivity|]. cbn [bs mframes]. split; [rewrite Em; reflexivity|].
    intro k. rewrite !stack_of_set, Es. destruct (key_eqb k (m, n)); [reflexivity | apply Es].
  - rewrite Em, Eb. destruct (mframes (bs b)) as [|k fr] eqn:MF; cbn [fst]; [split; [exact Eb | split; [congruence | exact Es]]|].
    assert (X : forall k', stack_of (mkB (stacks (bs a)) fr) k' = stack_of (mkB (stacks (bs b)) fr) k').
    { intro k'. rewrite !stack_of_same. apply Es. }
    destruct (is_dynamic (sp (base b)) k); cbn [fst]; [|split; [reflexivity | split; [reflexivity | exact X]]].
    rewrite Es. destruct (stack_of (bs b) k) as [|v s']; cbn [fst]; [split; [reflexivity | split; [reflexivity | exact X]]|].
    split; [reflexivity|]. split; [reflexivity|]. intro k'. cbn [bs]. rewrite !stack_of_set.
    destruct (key_eqb k' k); [reflexivity | apply Es].
Qed.

Lemma xrun_xeq h : forall a b, xeq a b -> xeq (xrun a h) (xrun b h).
Proof.
  unfold xrun. induction h as [|s h IH]; intros a b E; simpl; [exact E|]. apply IH. apply xexec_xeq. exact E.
Qed.

Lemma xread_xeq a b md rq : xeq a b -> xread a md rq = xread b md rq.
Proof.
  intros [Eb [_ Es]]. destruct rq as [rns loc spl]. unfold xread. rewrite Eb.
  destruct (resolve (locals_of loc) (sp (base b)) rns spl); try reflexivity. rewrite Es. reflexivity.
Qed.

(** inside a binding of [k] with [v] (entered in [b]'s state), while only base steps run *)
Definition lock (k : key) (v : N) (a b : xstate) : Prop :=
  base a = base b /\ mframes (bs a) = k :: mframes (bs b) /\
  (forall k', key_eqb k' k = false -> stack_of (bs a) k' = stack_of (bs b) k') /\
  ((stack_of (bs a) k = v :: stack_of (bs b) k /\ is_dynamic (sp (base a)) k = true) \/
   (stack_of (bs a) k = [] /\ stack_of (bs b) k = [])).

Lemma lock_step k v a b s0 : lock k v a b -> lock k v (fst (xexec a (B s0))) (fst (xexec b (B s0))).
Proof.
  intros [Eb [Em [Eo Ek]]]. cbn [xexec fst base bs]. rewrite <- Eb.
  assert (Keep : (forall n fl w, s0 = SDef n fl w -> key_eqb k (s_cur (sp (base a)), n) = false) ->
                 is_dynamic (sp (fst (exec (base a) s0))) k = is_dynamic (sp (base a)) k).
  { intro H. rewrite sp_exec. apply is_dynamic_sexec_other. exact H. }
  destruct s0 as [n fl w|m|m al|m only|m n w];
    try (split; [reflexivity|]; cbn [base bs]; split; [exact Em|]; split; [exact Eo|];
         destruct Ek as [[E1 E2]|E]; [left; split; [exact E1|] | right; exact E];
         rewrite Keep; [exact E2 | intros; discriminate]).
  split; [reflexivity|]. unfold on_def.
  set (k0 := (s_cur (sp (base a)), n)).
  assert (Clear : lock k v (mkX (fst (exec (base a) (SDef n fl w))) (mkB (aset k0 [] (stacks (bs a))) (mframes (bs a))))
                           (mkX (fst (exec (base a) (SDef n fl w))) (mkB (aset k0 [] (stacks (bs b))) (mframes (bs b))))).
  { split; [reflexivity|]. cbn [bs mframes base]. split; [exact Em|]. split.
    - intros k' K'. rewrite !stack_of_set. destruct (key_eqb k' k0); [reflexivity | apply Eo; exact K'].
    - rewrite !stack_of_set. destruct (key_eqb k k0) eqn:K; [right; split; reflexivity|].
      destruct Ek as [[E1 E2]|E]; [left; split; [exact E1|] | right; exact E].
      rewrite Keep; [exact E2|]. intros n' fl' w' X. inversion X. subst. exact K. }
  destruct (aget k0 (s_vars (sp (base a)))) as [r|] eqn:A; [|apply Clear].
  destruct (Bool.eqb (f_dyn fl) (f_dyn (v_flags r))) eqn:F; [|apply Clear].
  split; [exact Em|]. split; [exact Eo|].
  destruct Ek as [[E1 E2]|E]; [left; split; [exact E1|] | right; exact E].
  cbn [base]. destruct (key_eqb k k0) eqn:K.
  - apply key_eqb_eq in K. rewrite sp_exec, is_dynamic_dynof, dynof_sexec. fold k0. rewrite K, key_eqb_refl.
    rewrite K in E2. unfold is_dynamic in E2. rewrite A in E2. apply Bool.eqb_prop in F. congruence.
  - rewrite Keep; [exact E2|]. intros n' fl' w' X. inversion X. subst. exact K.
Qed.

Lemma lock_run k v t : forallb is_base t = true -> forall a b, lock k v a b -> lock k v (xrun a t) (xrun b t).
Proof.
  unfold xrun. induction t as [|s t IH]; intros Bt a b L; simpl; [exact L|].
  simpl in Bt. apply andb_true_iff in Bt as [B1 B2].
  destruct s as [s0| |]; try discriminate. apply IH; [exact B2 | apply lock_step; exact L].
Qed.

Lemma lock_pop k v a b : lock k v a b -> xeq (fst (xexec a BPop)) b.
Proof.
  intros [Eb [Em [Eo Ek]]]. cbn [xexec]. rewrite Em.
  assert (X : stack_of (bs a) k = stack_of (bs b) k ->
              xeq (mkX (base a) (mkB (stacks (bs a)) (mframes (bs b)))) b).
  { intro E. split; [exact Eb|]. split; [reflexivity|]. intro k'. cbn [bs]. rewrite stack_of_same.
    destruct (key_eqb k' k) eqn:K; [apply key_eqb_eq in K; subst k'; exact E | apply Eo; exact K]. }
  destruct Ek as [[E1 E2]|[E1 E2]].
  - rewrite E2, E1. cbn [fst]. split; [exact Eb|]. split; [reflexivity|]. intro k'. cbn [bs]. rewrite stack_of_set.
    destruct (key_eqb k' k) eqn:K; [apply key_eqb_eq in K; subst k'; reflexivity | apply Eo; exact K].
  - assert (E : stack_of (bs a) k = stack_of (bs b) k) by congruence.
    destruct (is_dynamic (sp (base a)) k); [rewrite E1|]; cbn [fst]; apply X; exact E.
Qed.

Lemma lock_enter st0 m n v :
  is_dynamic (sp (base st0)) (m, n) = true -> lock (m, n) v (fst (xexec st0 (BPush m n v))) st0.
Proof.
  intro D. cbn [xexec]. rewrite D. cbn [fst].
  split; [reflexivity|]. split; [reflexivity|]. cbn [bs base]. split.
  - intros k' K. rewrite stack_of_set, K. reflexivity.
  - left. split; [|exact D]. rewrite stack_of_set, key_eqb_refl. reflexivity.
Qed.

(** Entering a binding of a dynamic Var, running any defs / redefinitions / root mutations /
    namespace steps [t], and leaving it: every later read -- after any continuation [s] -- is
    what it would be had the binding never been entered (root changes made by [t] included).
    [h] and [s] are arbitrary histories, so this applies to nested and enclosing bindings
    alike (innermost pair first). *)
Theorem binding_balanced cur nss h m n v t s md rq :
  is_dynamic (sp (base (xafter cur nss h))) (m, n) = true ->
  forallb is_base t = true ->
  xread (xafter cur nss (h ++ BPush m n v :: t ++ BPop :: s)) md rq
  = xread (xafter cur nss (h ++ t ++ s)) md rq.
Proof.
  intros D Bt. apply xread_xeq.
  rewrite !xafter_app. set (st0 := xafter cur nss h) in *.
  change (BPush m n v :: t ++ BPop :: s) with ([BPush m n v] ++ t ++ [BPop] ++ s).
  unfold xrun. rewrite !fold_left_app. fold (xrun st0 t).
  apply xrun_xeq. cbn [fold_left].
  apply (lock_pop (m, n) v).
  apply lock_run; [exact Bt|]. apply lock_enter. exact D.
Qed.

(** in particular the frame stack and every store are as before when the binding form is left
    (the previous view is restored exactly) *)
Theorem binding_balanced_state cur nss h m n v t :
  is_dynamic (sp (base (xafter cur nss h))) (m, n) = true ->
  forallb is_base t = true ->
  xeq (xafter cur nss (h ++ BPush m n v :: t ++ [BPop])) (xafter cur nss (h ++ t)).
Proof.
  intros D Bt. rewrite !xafter_app. set (st0 := xafter cur nss h) in *.
  change (BPush m n v :: t ++ [BPop]) with ([BPush m n v] ++ t ++ [BPop]).
  unfold xrun. rewrite !fold_left_app. fold (xrun st0 t). cbn [fold_left].
  apply (lock_pop (m, n) v).
  apply lock_run; [exact Bt|]. apply lock_enter. exact D.
Qed.
