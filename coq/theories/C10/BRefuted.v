(** C10 extension -- thread bindings: concrete histories.  A history that meets all three
    guards and exercises nested bindings, redefinitions and root mutations inside them; and the
    kernel-checked counterexample on the model of the code as it is (finding F-10e, re-run on
    the real implementation by the correspondence check). *)
From Coq Require Import List NArith Bool String Ascii.
Import ListNotations.
From Verif Require Import Common.ListX Gen.Tables C10.Munge C10.MungeProofs C10.Spec C10.Names C10.Proofs
  C10.Theorems C10.Refuted C10.BSpec C10.BNames C10.BProofs.
Local Open Scope N_scope.

Definition dv := T "*v*".
Definition dw := T "*w*".
Definition uu := T "uu".
Definition dyn : flags := mkFlags true false false.

(** (def ^:dynamic *v* 1) (def ^:dynamic *w* 7) (def v 8)
    (binding [*v* 5] (def ^:dynamic *v* 2) (binding [*w* 70] (binding [*v* 6]
       (alter-var-root #'*v* (constantly 3)) (def ^:dynamic *v* 4) <here> ))) *)
Definition h_in : list bstep :=
  [B (SDef dv dyn 1); B (SDef dw dyn 7); B (SDef v plain 8);
   BPush U dv 5; B (SDef dv dyn 2); BPush U dw 70; BPush U dv 6;
   B (SAlter U dv 3); B (SDef dv dyn 4)].
(** ... leaving the two inner forms, a root mutation, leaving the outer one, from another namespace *)
Definition h_out : list bstep :=
  h_in ++ [BPop; BPop; B (SInNs X); B (SRequire U (Some uu)); B (SAlter U dv 9); BPop; B (SDef v plain 10)].

Example bind_guards_nonvacuous :
  no_collision (minit U [U; X]) (base_steps h_out) = true /\
  priv_stable (init U [U; X]) (base_steps h_out) = true /\
  dyn_stable (xsinit U [U; X]) h_out = true.
Proof. vm_compute. repeat split; reflexivity. Qed.

Example bind_reads_inside :
  let st := xafter U [U; X] h_in in
  innermost U h_in (U, dv) = Some (6, true) /\ innermost U h_in (U, dw) = Some (70, true) /\
  innermost U h_in (U, v) = None /\
  last_given U (base_steps h_in) (U, dv) None = Some 4 /\
  xread st Direct (RR U None (Bare dv)) = OVal 6 /\ xread st Indirect (RR U None (Bare dv)) = OVal 6 /\
  xread st Direct (RR X None (Qual U dv)) = OVal 6 /\
  xread st Direct (RR U None (Bare dw)) = OVal 70 /\
  xread st Direct (RR U None (Bare v)) = OVal 8 /\
  xread st Direct (RR U (Some (dv, 77)) (Bare dv)) = OVal 77.
Proof. vm_compute. repeat split; reflexivity. Qed.

Example bind_reads_after :
  let st1 := xafter U [U; X] (h_in ++ [BPop]) in
  let st2 := xafter U [U; X] (h_in ++ [BPop; BPop]) in
  let st := xafter U [U; X] h_out in
  xread st1 Direct (RR U None (Bare dv)) = OVal 5 /\        (* the outer binding again *)
  xread st2 Direct (RR U None (Bare dw)) = OVal 7 /\
  innermost U h_out (U, dv) = None /\
  xread st Direct (RR X None (Qual uu dv)) = OVal 9 /\  (* the root given meanwhile *)
  xread st Indirect (RR X None (Qual U dv)) = OVal 9 /\
  snd (xexec st BPop) = false.                                 (* nothing left to pop *)
Proof. vm_compute. repeat split; reflexivity. Qed.

(** a non-dynamic Var cannot be bound, and nothing is recorded *)
Example push_nondynamic_fails :
  let st := xafter U [U; X] h_in in
  snd (xexec st (BPush U v 1)) = false /\ fst (xexec st (BPush U v 1)) = st /\
  snd (xsexec (xsafter U [U; X] h_in) (BPush U v 1)) = false.
Proof. vm_compute. repeat split; reflexivity. Qed.

(** ---- F-10e: a def that changes the dynamic marking of a bound Var drops its bindings ---- *)
(** (def ^:dynamic *v* 1) (binding [*v* 5] (def *v* 2) (def ^:dynamic *v* 3) *v* ): the Var is
    dynamic and inside its binding, yet the read yields the root 3; leaving the form raises *)
Definition h_flip : list bstep :=
  [B (SDef dv dyn 1); BPush U dv 5; B (SDef dv plain 2); B (SDef dv dyn 3)].

Lemma marking_change_drops_binding :
  let st := xafter U [U] h_flip in
  let xs := xsafter U [U] h_flip in
  resolve [] (sp (base st)) U (Bare dv) = RVar (U, dv) /\
  is_dynamic (sp (base st)) (U, dv) = true /\
  thread_view xs (U, dv) = Some 5 /\ innermost U h_flip (U, dv) = Some (5, false) /\
  xread st Direct (RR U None (Bare dv)) = OVal 3 /\ xread st Indirect (RR U None (Bare dv)) = OVal 3 /\
  bread_ok xs Direct (RR U None (Bare dv)) (OVal 3) = false /\
  snd (xsexec xs BPop) = true /\ snd (xexec st BPop) = false /\
  no_collision (minit U [U]) (base_steps h_flip) = true /\
  priv_stable (init U [U]) (base_steps h_flip) = true /\
  dyn_stable (xsinit U [U]) h_flip = false.
Proof. vm_compute. repeat split; reflexivity. Qed.

(** an enclosing binding is lost as well, and the binding form of ANOTHER Var is still left
    properly afterwards *)
Lemma marking_change_drops_outer_bindings :
  let h := [B (SDef dv dyn 1); B (SDef dw dyn 7); BPush U dv 5; BPush U dw 70; BPush U dv 6;
            B (SDef dv plain 2); B (SDef dv dyn 3); BPop] in
  let st := xafter U [U] h in
  thread_view (xsafter U [U] h) (U, dv) = Some 5 /\
  xread st Direct (RR U None (Bare dv)) = OVal 3 /\
  xread st Direct (RR U None (Bare dw)) = OVal 70 /\
  snd (xexec st BPop) = true /\
  xread (fst (xexec st BPop)) Direct (RR U None (Bare dw)) = OVal 7.
Proof. vm_compute. repeat split; reflexivity. Qed.

Lemma binding_survives_marking_change_refuted :
  exists cur nss h md rns spl k v,
    let st := xafter cur nss h in
    let xs := xsafter cur nss h in
    resolve [] (sp (base st)) rns spl = RVar k /\ is_dynamic (sp (base st)) k = true /\
    thread_view xs k = Some v /\
    xread st md (RR rns None spl) <> OVal v /\
    bread_ok xs md (RR rns None spl) (xread st md (RR rns None spl)) = false /\
    snd (xexec st BPop) <> snd (xsexec xs BPop) /\
    no_collision (minit cur nss) (base_steps h) = true /\ priv_stable (init cur nss) (base_steps h) = true.
Proof.
  exists U, [U], h_flip, Direct, U, (Bare dv), (U, dv), 5.
  destruct marking_change_drops_binding as [R [D [TV [_ [RD [_ [BO [PS [PM [NC [PR _]]]]]]]]]]].
  cbv zeta. rewrite RD, PS, PM.
  split; [exact R|]. split; [exact D|]. split; [exact TV|]. split; [discriminate|].
  split; [exact BO|]. split; [discriminate|]. split; [exact NC | exact PR].
Qed.
