(** C10 -- [munge] of src/basilisp/lang/util.py:40-54, over the tables regenerated from the
    source ([Gen.Tables.munge_replacements], [py_keywords], [py_builtins]).

      new_s = s.translate(_MUNGE_TRANSLATE_TABLE)
      if new_s == "..":                              return "__DOT_DOT__"
      if keyword.iskeyword(new_s):                   return new_s + "_"
      if not allow_builtins and new_s in builtins.__dict__:  return new_s + "_"
      return new_s

    and [_var_ns_as_python_sym name = munge (name.replace(".", "_"))] (generator.py:705).
    This file has definitions and the executable table checks only; proofs are in
    MungeProofs.v. *)
From Coq Require Import List NArith Bool.
Import ListNotations.
From Verif Require Import Common.ListX Gen.Tables.
Local Open Scope N_scope.

Definition US : N := 95.    (* _ *)
Definition DASH : N := 45.  (* - *)
Definition DOT : N := 46.   (* . *)

Fixpoint tr_lookup (t : list (N * str)) (c : N) : option str :=
  match t with
  | [] => None
  | (k, v) :: r => if N.eqb c k then Some v else tr_lookup r c
  end.

Definition tr_char (t : list (N * str)) (c : N) : str :=
  match tr_lookup t c with Some v => v | None => [c] end.

(** [str.translate] with a table of single-character keys *)
Definition translate_with (t : list (N * str)) (s : str) : str := flat_map (tr_char t) s.
Definition translate : str -> str := translate_with munge_replacements.

Definition mem_str (s : str) (l : list str) : bool := existsb (str_eqb s) l.

Definition DOTDOT : str := [46; 46].
(* "__DOT_DOT__" *)
Definition DOTDOT_REPL : str := [95; 95; 68; 79; 84; 95; 68; 79; 84; 95; 95].

Definition finish (allow_builtins : bool) (t : str) : str :=
  if str_eqb t DOTDOT then DOTDOT_REPL
  else if mem_str t py_keywords then t ++ [US]
  else if negb allow_builtins && mem_str t py_builtins then t ++ [US]
  else t.

Definition munge_gen (allow_builtins : bool) (s : str) : str := finish allow_builtins (translate s).
Definition munge : str -> str := munge_gen false.
Definition munge_ab : str -> str := munge_gen true.

Definition undot (s : str) : str := map (fun c => if N.eqb c DOT then US else c) s.
(** generator.py:_var_ns_as_python_sym *)
Definition var_ns_sym (ns : str) : str := munge (undot ns).

Definition has_dot (s : str) : bool := existsb (N.eqb DOT) s.

(** ---- executable checks on the regenerated tables (obligations C10_table_xxx) ---- *)
Definition is_upper (c : N) : bool := (65 <=? c) && (c <=? 90).

(** shape of a replacement value: [Some U] when the value is "__" ++ U ++ "__" with U a
    non-empty string of upper-case letters *)
Fixpoint strip_suffix2 (s : str) : option str :=   (* s = U ++ [95;95] -> Some U *)
  match s with
  | [a; b] => if N.eqb a US && N.eqb b US then Some [] else None
  | c :: r => match strip_suffix2 r with Some u => Some (c :: u) | None => None end
  | [] => None
  end.

Definition value_inner (v : str) : option str :=
  match v with
  | a :: b :: r =>
      if N.eqb a US && N.eqb b US then
        match strip_suffix2 r with
        | Some u => if forallb is_upper u && negb (match u with [] => true | _ => false end) then Some u else None
        | None => None
        end
      else None
  | _ => None
  end.

(** every entry is either ('-', "_") or (k, "__UPPER__") *)
Definition entry_ok (e : N * str) : bool :=
  let '(k, v) := e in
  if N.eqb k DASH then str_eqb v [US]
  else match value_inner v with Some _ => true | None => false end.

Fixpoint distinctb {A} (eqb : A -> A -> bool) (l : list A) : bool :=
  match l with
  | [] => true
  | x :: r => negb (existsb (eqb x) r) && distinctb eqb r
  end.

Definition table_values_ok : bool := forallb entry_ok munge_replacements.
Definition table_keys_distinct : bool := distinctb N.eqb (map fst munge_replacements).
Definition table_values_distinct : bool := distinctb str_eqb (map snd munge_replacements).
(** no key is '_', '.', an upper-case letter; '-' is a key (the source of the a-b / a_b collision) *)
Definition table_keys_ok : bool :=
  forallb (fun k => negb (N.eqb k US) && negb (N.eqb k DOT) && negb (is_upper k)) (map fst munge_replacements)
  && existsb (N.eqb DASH) (map fst munge_replacements).
(** no Python keyword or builtin is another keyword/builtin followed by '_' (so the suffix
    rule is idempotent), and none of them contains a character of the table *)
Definition reserved : list str := py_keywords ++ py_builtins.
Definition table_reserved_ok : bool :=
  forallb (fun r => negb (mem_str (r ++ [US]) reserved)
                    && forallb (fun c => match tr_lookup munge_replacements c with None => true | Some _ => false end) r)
          reserved.
