(** C10 -- proofs over ALL histories: well-formedness of the Var store, the history-level
    reading of "the value last given", resolution facts (spellings agree, locals shadow,
    privacy), and the linking invariant that holds as long as no step stores a module
    global under an identifier another name is looked up by. *)
From Coq Require Import List NArith Bool Lia.
Import ListNotations.
From Verif Require Import Common.ListX Gen.Tables C10.Munge C10.MungeProofs C10.Spec C10.Names.
Local Open Scope N_scope.

(** ---- association lists ---- *)
Lemma key_eqb_eq a b : key_eqb a b = true <-> a = b.
Proof.
  unfold key_eqb. destruct a as [a1 a2], b as [b1 b2]. simpl.
  rewrite andb_true_iff, !str_eqb_eq. split; [intros [-> ->]; reflexivity | intro H; inversion H; auto].
Qed.

Lemma key_eqb_refl a : key_eqb a a = true.
Proof. apply key_eqb_eq. reflexivity. Qed.

Lemma key_eqb_neq a b : key_eqb a b = false <-> a <> b.
Proof.
  split.
  - intros H E. subst. rewrite key_eqb_refl in H. discriminate.
  - intro H. destruct (key_eqb a b) eqn:E; [|reflexivity]. apply key_eqb_eq in E. contradiction.
Qed.

Lemma aget_aset {V} k k' (v : V) l : aget k (aset k' v l) = if key_eqb k k' then Some v else aget k l.
Proof. reflexivity. Qed.

Arguments aset : simpl never.
Arguments mem_str : simpl never.
Arguments munge_gen : simpl never.
Arguments var_ns_sym : simpl never.

Lemma ahas_aset {V} k k' (v : V) l : ahas k (aset k' v l) = key_eqb k k' || ahas k l.
Proof. unfold ahas. rewrite ?aget_aset. destruct (key_eqb k k'); reflexivity. Qed.

Lemma ahas_true {V} k (l : list (key * V)) : ahas k l = true <-> exists v, aget k l = Some v.
Proof.
  unfold ahas. destruct (aget k l) as [v|]; split; intro H; try discriminate; eauto.
  destruct H as [v H]. discriminate.
Qed.

Lemma mem_str_cons x m l : mem_str x (m :: l) = str_eqb x m || mem_str x l.
Proof. reflexivity. Qed.

Lemma str_eqb_neq a b : str_eqb a b = false <-> a <> b.
Proof.
  split.
  - intros H E. subst. rewrite str_eqb_refl in H. discriminate.
  - intro H. destruct (str_eqb a b) eqn:E; [|reflexivity]. apply str_eqb_eq in E. contradiction.
Qed.

Lemma str_eqb_sym a b : str_eqb a b = str_eqb b a.
Proof.
  destruct (str_eqb a b) eqn:E.
  - apply str_eqb_eq in E. subst. symmetry. apply str_eqb_refl.
  - apply str_eqb_neq in E. symmetry. apply str_eqb_neq. auto.
Qed.

Lemma aget_interned_names st m n r :
  aget (m, n) (s_vars st) = Some r -> In n (interned_names st m).
Proof.
  unfold interned_names. induction (s_vars st) as [|[k v] l IH]; simpl; [discriminate|].
  destruct (key_eqb (m, n) k) eqn:E.
  - apply key_eqb_eq in E. subst k. simpl. rewrite str_eqb_refl. intros _. left. reflexivity.
  - intro H. specialize (IH H). destruct (str_eqb (fst k) m); [right|]; exact IH.
Qed.

(** ---- well-formedness, for every history ---- *)
Record wf (st : sstate) : Prop := {
  wf_cur : mem_str (s_cur st) (s_nss st) = true;
  wf_vars : forall k r, aget k (s_vars st) = Some r -> mem_str (fst k) (s_nss st) = true;
  wf_refers : forall k k', aget k (s_refers st) = Some k' -> ahas k' (s_vars st) = true
}.

Lemma wf_init cur nss : wf (init cur nss).
Proof.
  unfold init. split; simpl; try discriminate.
  destruct (mem_str cur nss) eqn:E; [exact E|]. rewrite mem_str_cons, str_eqb_refl. reflexivity.
Qed.

Lemma add_refers_ok st m names : forall rf,
  (forall k k', aget k rf = Some k' -> ahas k' (s_vars st) = true) ->
  forall k k', aget k (add_refers st m names rf) = Some k' -> ahas k' (s_vars st) = true.
Proof.
  unfold add_refers. induction names as [|n names IH]; intros rf H; simpl; [exact H|].
  apply IH. destruct (interned st (m, n) && negb (is_private st (m, n))) eqn:E; [|exact H].
  intros k k'. rewrite ?aget_aset. destruct (key_eqb k (s_cur st, n)).
  - intro X. inversion X. subst. apply andb_true_iff in E as [E _]. exact E.
  - apply H.
Qed.

Lemma wf_sexec st s : wf st -> wf (fst (sexec st s)).
Proof.
  intros [Wc Wv Wr]. destruct s as [n fl v|m|m a|m only|m n v]; simpl.
  - split; simpl; [exact Wc| |].
    + intros k r. rewrite ?aget_aset. destruct (key_eqb k (s_cur st, n)) eqn:E.
      * apply key_eqb_eq in E. subst. intros _. exact Wc.
      * apply Wv.
    + intros k k' H. rewrite ahas_aset. rewrite (Wr _ _ H). apply orb_true_r.
  - split; simpl.
    + destruct (mem_str m (s_nss st)) eqn:E; [exact E|]. rewrite mem_str_cons, str_eqb_refl. reflexivity.
    + intros k r H. specialize (Wv _ _ H). destruct (mem_str m (s_nss st)); [exact Wv|].
      rewrite mem_str_cons, Wv. apply orb_true_r.
    + exact Wr.
  - destruct (mem_str m (s_nss st)); simpl; split; auto.
  - destruct (mem_str m (s_nss st)); simpl; [|split; auto]. split; simpl; [exact Wc|exact Wv|].
    apply add_refers_ok. exact Wr.
  - destruct (aget (m, n) (s_vars st)) as [r|] eqn:E; simpl; [|split; auto]. split; simpl; [exact Wc| |].
    + intros k r'. rewrite ?aget_aset. destruct (key_eqb k (m, n)) eqn:K.
      * apply key_eqb_eq in K. subst. intros _. exact (Wv _ _ E).
      * apply Wv.
    + intros k k' H. rewrite ahas_aset. rewrite (Wr _ _ H). apply orb_true_r.
Qed.

Lemma wf_srun h : forall st, wf st -> wf (srun st h).
Proof.
  unfold srun. induction h as [|s h IH]; intros st W; simpl; [exact W|].
  apply IH. apply wf_sexec. exact W.
Qed.

(** the model's run projects onto the specification's run *)
Lemma sp_exec st s : sp (fst (exec st s)) = fst (sexec (sp st) s).
Proof. unfold exec. destruct (sexec (sp st) s). reflexivity. Qed.

Lemma sp_run h : forall st, sp (run st h) = srun (sp st) h.
Proof.
  unfold run, srun. induction h as [|s h IH]; intros st; simpl; [reflexivity|].
  rewrite IH, sp_exec. reflexivity.
Qed.

Lemma exec_ok st s : snd (exec st s) = snd (sexec (sp st) s).
Proof. unfold exec. destruct (sexec (sp st) s). reflexivity. Qed.

(** ---- the value most recently given to a Var, read off the history ---- *)
Lemma last_given_srun h : forall st k accg accd,
  accg = option_map v_root (aget k (s_vars st)) ->
  accd = option_map v_lastdef (aget k (s_vars st)) ->
  last_given (s_cur st) h k accg = option_map v_root (aget k (s_vars (srun st h))) /\
  last_def (s_cur st) h k accd = option_map v_lastdef (aget k (s_vars (srun st h))).
Proof.
  unfold srun. induction h as [|s h IH]; intros st k accg accd Hg Hd; simpl; [auto|].
  destruct s as [n fl v|m|m a|m only|m n v]; simpl.
  - apply (IH (mkS _ _ _ _ _)); simpl; rewrite ?aget_aset; destruct (key_eqb k (s_cur st, n)); auto.
  - apply (IH (mkS _ _ _ _ _)); simpl; auto.
  - destruct (mem_str m (s_nss st)); simpl; [apply (IH (mkS _ _ _ _ _)) | apply IH]; auto.
  - destruct (mem_str m (s_nss st)); simpl; [apply (IH (mkS _ _ _ _ _)) | apply IH]; auto.
  - destruct (aget (m, n) (s_vars st)) as [r|] eqn:E; simpl.
    + apply (IH (mkS _ _ _ _ _)); simpl; rewrite ?aget_aset; destruct (key_eqb k (m, n)) eqn:K; auto.
      * apply key_eqb_eq in K. subst k. rewrite E in Hg. subst accg. reflexivity.
      * apply key_eqb_eq in K. subst k. rewrite E in Hd. subst accd. reflexivity.
    + apply IH; auto.
      destruct (key_eqb k (m, n)) eqn:K; [|exact Hg].
      apply key_eqb_eq in K. subst k. rewrite E in Hg. subst accg. rewrite E. reflexivity.
Qed.

Lemma init_cur cur nss : s_cur (init cur nss) = cur.
Proof. reflexivity. Qed.

Lemma last_given_run cur nss h k r :
  aget k (s_vars (srun (init cur nss) h)) = Some r ->
  last_given cur h k None = Some (v_root r) /\ last_def cur h k None = Some (v_lastdef r).
Proof.
  intro H. destruct (last_given_srun h (init cur nss) k None None eq_refl eq_refl) as [G D].
  rewrite init_cur in G, D. rewrite H in G, D. auto.
Qed.

(** ---- resolution facts ---- *)
Lemma find_some st m n k : find st m n = Some k ->
  (k = (m, n) /\ interned st (m, n) = true) \/ (interned st (m, n) = false /\ aget (m, n) (s_refers st) = Some k).
Proof. unfold find. destruct (interned st (m, n)) eqn:E; intro H; [left; inversion H|right]; auto. Qed.

Lemma find_exists st m n k : wf st -> find st m n = Some k -> exists r, aget k (s_vars st) = Some r.
Proof.
  intros W H. apply ahas_true. destruct (find_some _ _ _ _ H) as [[-> I]|[_ R]]; [exact I|].
  eapply wf_refers; eauto.
Qed.

Lemma check_private_var st k k' : check_private st k = RVar k' -> k' = k /\ is_private st k = false.
Proof. unfold check_private. destruct (is_private st k); intro H; inversion H. auto. Qed.

(** whatever a symbol resolves to exists *)
Lemma resolve_exists locals st rns spl k :
  wf st -> resolve locals st rns spl = RVar k -> exists r, aget k (s_vars st) = Some r.
Proof.
  intros W. destruct spl as [n|q n]; simpl.
  - destruct (mem_str n locals); [intro X; discriminate X|].
    destruct (find st rns n) as [k0|] eqn:F.
    + intro H. inversion H. subst. eapply find_exists; eauto.
    + destruct (has_dot n); [intro X; discriminate X|]. destruct (mem_str (munge_ab n) py_builtins); intro X; discriminate X.
  - destruct (if str_eqb q rns then find st rns n else None) as [k0|] eqn:F1.
    + intro H. inversion H. subst. destruct (str_eqb q rns); [|discriminate F1]. eapply find_exists; eauto.
    + destruct (if mem_str q (s_nss st) then find st q n else None) as [k0|] eqn:F2.
      * intro H. apply check_private_var in H as [-> _].
        destruct (mem_str q (s_nss st)); [|discriminate F2]. eapply find_exists; eauto.
      * destruct (has_dot n); [intro X; discriminate X|].
        destruct (aget (rns, q) (s_aliases st)) as [m|]; [|intro X; discriminate X].
        destruct (find st m n) as [k0|] eqn:F3; [|intro X; discriminate X].
        intro H. apply check_private_var in H as [-> _]. eapply find_exists; eauto.
Qed.

(** the name of the Var a symbol denotes is the name written (no :rename is modelled) *)
Definition spelled_name (spl : spelling) : str := match spl with Bare n => n | Qual _ n => n end.

(** ---- spellings agree ---- *)
Section Spellings.
  Variable st : sstate.
  Hypothesis W : wf st.
  Variables (m n : str).
  Hypothesis I : interned st (m, n) = true.

  Lemma find_interned : find st m n = Some (m, n).
  Proof. unfold find. rewrite I. reflexivity. Qed.

  Lemma m_exists : mem_str m (s_nss st) = true.
  Proof.
    apply ahas_true in I as [r I']. exact (wf_vars _ W _ _ I').
  Qed.

  (** bare, from its own namespace (when no local of that name is in scope) *)
  Lemma bare_own locals : mem_str n locals = false -> resolve locals st m (Bare n) = RVar (m, n).
  Proof. intro L. simpl. rewrite L, find_interned. reflexivity. Qed.

  (** qualified by its own namespace, from that namespace: no privacy check *)
  Lemma qual_own locals : resolve locals st m (Qual m n) = RVar (m, n).
  Proof. simpl. rewrite str_eqb_refl, find_interned. reflexivity. Qed.

  (** fully qualified from another namespace *)
  Lemma qual_other locals rns : rns <> m -> is_private st (m, n) = false ->
    resolve locals st rns (Qual m n) = RVar (m, n).
  Proof.
    intros N P. simpl. replace (str_eqb m rns) with false by (symmetry; apply str_eqb_neq; auto).
    rewrite m_exists, find_interned. unfold check_private. rewrite P. reflexivity.
  Qed.

  (** through an alias [a] of the reading namespace, provided [a] is not itself the reading
      namespace or a namespace in which [n] resolves (Var.find is tried before the aliases) *)
  Lemma qual_alias locals rns a :
    aget (rns, a) (s_aliases st) = Some m -> is_private st (m, n) = false ->
    has_dot n = false ->
    (if str_eqb a rns then find st rns n else None) = None ->
    (if mem_str a (s_nss st) then find st a n else None) = None ->
    resolve locals st rns (Qual a n) = RVar (m, n).
  Proof.
    intros A P D F1 F2. simpl. rewrite F1, F2, D, A, find_interned. unfold check_private. rewrite P. reflexivity.
  Qed.

  (** bare, from a namespace that refers it and does not intern the name itself *)
  Lemma bare_referred locals rns :
    mem_str n locals = false -> interned st (rns, n) = false -> aget (rns, n) (s_refers st) = Some (m, n) ->
    resolve locals st rns (Bare n) = RVar (m, n).
  Proof. intros L NI R. simpl. rewrite L. unfold find. rewrite NI, R. reflexivity. Qed.
End Spellings.

(** ---- locals shadow ---- *)
Lemma locals_shadow locals st rns n : mem_str n locals = true -> resolve locals st rns (Bare n) = RLocal.
Proof. intro H. simpl. rewrite H. reflexivity. Qed.

Lemma locals_do_not_capture_qualified locals st rns q n :
  resolve locals st rns (Qual q n) = resolve [] st rns (Qual q n).
Proof. reflexivity. Qed.

Lemma locals_do_not_capture_others locals st rns n :
  mem_str n locals = false -> resolve locals st rns (Bare n) = resolve [] st rns (Bare n).
Proof. intro H. simpl. rewrite H. reflexivity. Qed.

(** ---- privacy ---- *)
(** a private Var of another namespace can only be reached through a refer entry of the
    namespace the symbol is compiled in *)
Lemma private_only_via_refer locals st rns spl k :
  resolve locals st rns spl = RVar k -> is_private st k = true -> fst k <> rns ->
  aget (rns, spelled_name spl) (s_refers st) = Some k.
Proof.
  destruct spl as [n|q n]; simpl.
  - destruct (mem_str n locals); [intro X; discriminate X|].
    destruct (find st rns n) as [k0|] eqn:F.
    + intros H P N. inversion H. subst k0.
      destruct (find_some _ _ _ _ F) as [[-> _]|[_ R]]; [simpl in N; congruence | exact R].
    + destruct (has_dot n); [intro X; discriminate X|]. destruct (mem_str (munge_ab n) py_builtins); intro X; discriminate X.
  - destruct (if str_eqb q rns then find st rns n else None) as [k0|] eqn:F1.
    + intros H P N. inversion H. subst k0. destruct (str_eqb q rns); [|discriminate F1].
      destruct (find_some _ _ _ _ F1) as [[-> _]|[_ R]]; [simpl in N; congruence | exact R].
    + destruct (if mem_str q (s_nss st) then find st q n else None) as [k0|] eqn:F2.
      * intros H P. apply check_private_var in H as [-> P']. congruence.
      * destruct (has_dot n); [intro X; discriminate X|].
        destruct (aget (rns, q) (s_aliases st)) as [m|]; [|intro X; discriminate X].
        destruct (find st m n) as [k0|]; [|intro X; discriminate X].
        intros H P. apply check_private_var in H as [-> P']. congruence.
Qed.

(** refers only hold public Vars as long as redefinitions keep the privacy flag *)
Definition refers_public (st : sstate) : Prop :=
  forall k k', aget k (s_refers st) = Some k' -> is_private st k' = false.

Lemma add_refers_public st m names : forall rf,
  (forall k k', aget k rf = Some k' -> is_private st k' = false) ->
  forall k k', aget k (add_refers st m names rf) = Some k' -> is_private st k' = false.
Proof.
  unfold add_refers. induction names as [|n names IH]; intros rf H; simpl; [exact H|].
  apply IH. destruct (interned st (m, n) && negb (is_private st (m, n))) eqn:E; [|exact H].
  intros k k'. rewrite ?aget_aset. destruct (key_eqb k (s_cur st, n)).
  - intro X. inversion X. subst. apply andb_true_iff in E as [_ E]. apply negb_true_iff in E. exact E.
  - apply H.
Qed.

Lemma refers_public_sexec st s : wf st -> refers_public st -> priv_safe st s = true -> refers_public (fst (sexec st s)).
Proof.
  intros W R PS. destruct s as [n fl v|m|m a|m only|m n v]; simpl.
  - intros k k' H. simpl in H. specialize (R _ _ H). unfold is_private in *. simpl.
    rewrite ?aget_aset. destruct (key_eqb k' (s_cur st, n)) eqn:E; [|exact R].
    apply key_eqb_eq in E. subst k'. simpl in PS.
    destruct (aget (s_cur st, n) (s_vars st)) as [r|] eqn:A.
    + simpl. apply Bool.eqb_prop in PS. rewrite PS. exact R.
    + pose proof (wf_refers _ W _ _ H) as X. unfold ahas in X. rewrite A in X. discriminate.
  - exact R.
  - destruct (mem_str m (s_nss st)); exact R.
  - destruct (mem_str m (s_nss st)); simpl; [|exact R].
    intros k k' H. simpl in H.
    change (is_private st k' = false). eapply add_refers_public; [exact R | exact H].
  - destruct (aget (m, n) (s_vars st)) as [r|] eqn:A; simpl; [|exact R].
    intros k k' H. simpl in H. specialize (R _ _ H). unfold is_private in *. simpl.
    rewrite ?aget_aset. destruct (key_eqb k' (m, n)) eqn:E; [|exact R].
    apply key_eqb_eq in E. subst k'. rewrite A in R. exact R.
Qed.

Lemma refers_public_srun h : forall st, wf st -> refers_public st -> priv_stable st h = true -> refers_public (srun st h).
Proof.
  unfold srun. induction h as [|s h IH]; intros st W R P; simpl; [exact R|].
  simpl in P. apply andb_true_iff in P as [P1 P2].
  apply IH; [apply wf_sexec; exact W | apply refers_public_sexec; assumption | exact P2].
Qed.

(** ---- the linking invariant ---- *)
Record link (st : state) : Prop := {
  lk_var : forall m n r, aget (m, n) (s_vars (sp st)) = Some r ->
                         aget (m, munge n) (mods st) = Some (PVal (v_lastdef r));
  lk_ns : forall rns m key, mem_str m (s_nss (sp st)) = true ->
                            name_in_module st rns (var_ns_sym m) = Some key ->
                            aget (rns, key) (mods st) = Some (PMod m);
  lk_dom : forall k, ahas k (mods st) = true -> mem_str (fst k) (s_nss (sp st)) = true
}.

Lemma link_init cur nss : link (minit cur nss).
Proof.
  split; simpl; try discriminate; try (intros rns m key _; unfold name_in_module; simpl; discriminate).
Qed.

Lemma probes_fst x : mem_str (munge x) (probes x) = true.
Proof. unfold probes. rewrite mem_str_cons, str_eqb_refl. reflexivity. Qed.

Lemma probes_snd x : mem_str (munge_ab x) (probes x) = true.
Proof. unfold probes. rewrite !mem_str_cons, str_eqb_refl. simpl. apply orb_true_r. Qed.

Lemma nim_probes st m x key : name_in_module st m x = Some key -> mem_str key (probes x) = true.
Proof.
  unfold name_in_module. destruct (ahas (m, munge x) (mods st)).
  - intro H. inversion H. apply probes_fst.
  - destruct (ahas (m, munge_ab x) (mods st)); [|discriminate].
    intro H. inversion H. apply probes_snd.
Qed.

(** writing one module global: the namespace-probe half of the invariant survives if the
    written value is the right module whenever the written key is a probe of a namespace *)
Lemma lk_ns_write (st : state) sp' c wk pv :
  s_nss sp' = s_nss (sp st) ->
  (forall rns m key, mem_str m (s_nss (sp st)) = true ->
                     name_in_module st rns (var_ns_sym m) = Some key -> aget (rns, key) (mods st) = Some (PMod m)) ->
  (forall m, mem_str m (s_nss (sp st)) = true -> mem_str wk (probes (var_ns_sym m)) = true -> pv = PMod m) ->
  forall rns m key, mem_str m (s_nss sp') = true ->
    name_in_module (mkM sp' (aset (c, wk) pv (mods st))) rns (var_ns_sym m) = Some key ->
    aget (rns, key) (aset (c, wk) pv (mods st)) = Some (PMod m).
Proof.
  intros EN Old New rns m key Hm. rewrite EN in Hm. unfold name_in_module. simpl.
  rewrite ?ahas_aset, ?aget_aset.
  set (x := var_ns_sym m).
  destruct (key_eqb (rns, munge x) (c, wk)) eqn:K1; simpl.
  - intro H. inversion H. subst key. rewrite K1. f_equal. apply New; [exact Hm|].
    apply key_eqb_eq in K1. inversion K1. subst. apply probes_fst.
  - destruct (ahas (rns, munge x) (mods st)) eqn:A1.
    + intro H. inversion H. subst key. rewrite K1. apply Old; [exact Hm|].
      unfold name_in_module. fold x. rewrite A1. reflexivity.
    + destruct (key_eqb (rns, munge_ab x) (c, wk)) eqn:K2; simpl.
      * intro H. inversion H. subst key. rewrite K2. f_equal. apply New; [exact Hm|].
        apply key_eqb_eq in K2. inversion K2. subst. apply probes_snd.
      * destruct (ahas (rns, munge_ab x) (mods st)) eqn:A2; [|discriminate].
        intro H. inversion H. subst key. rewrite K2. apply Old; [exact Hm|].
        unfold name_in_module. fold x. rewrite A1, A2. reflexivity.
Qed.

Lemma forallb_In {A} (f : A -> bool) l x : forallb f l = true -> In x l -> f x = true.
Proof. intros H I. rewrite forallb_forall in H. auto. Qed.

Lemma link_exec st s : wf (sp st) -> link st -> step_safe st s = true -> link (fst (exec st s)).
Proof.
  intros W [Lv Ln Ld] S. unfold exec.
  destruct s as [n fl v|m|m a|m only|m n v].
  - (* def *)
    simpl in *. apply andb_true_iff in S as [S1 S2].
    split; simpl.
    + intros m0 n0 r. rewrite ?aget_aset.
      destruct (key_eqb (m0, n0) (s_cur (sp st), n)) eqn:K.
      * apply key_eqb_eq in K. inversion K. subst. intro H. inversion H. subst r. simpl.
        rewrite key_eqb_refl. reflexivity.
      * intro H. rewrite (Lv _ _ _ H).
        destruct (key_eqb (m0, munge n0) (s_cur (sp st), munge n)) eqn:K2; [|reflexivity].
        exfalso. apply key_eqb_eq in K2. injection K2 as Em En. subst m0.
        pose proof (forallb_In _ _ _ S1 (aget_interned_names _ _ _ _ H)) as X. simpl in X.
        apply orb_true_iff in X as [X|X].
        -- apply str_eqb_eq in X. subst n0. rewrite key_eqb_refl in K. discriminate.
        -- rewrite En, str_eqb_refl in X. discriminate.
    + apply (lk_ns_write st (mkS _ _ _ _ _)); [reflexivity | exact Ln |].
      intros m0 Hm P. exfalso.
      pose proof (forallb_In _ _ _ S2 (proj1 (mem_str_In _ _) Hm)) as X. simpl in X.
      rewrite P in X. discriminate.
    + intros k. rewrite ahas_aset. intro H. apply orb_true_iff in H as [H|H]; [|apply Ld; exact H].
      apply key_eqb_eq in H. subst k. simpl. exact (wf_cur _ W).
  - (* in-ns *)
    simpl in *. split; simpl.
    + exact Lv.
    + intros rns m0 key Hm.
      change (name_in_module (mkM _ (mods st)) rns (var_ns_sym m0)) with (name_in_module st rns (var_ns_sym m0)).
      intro H. destruct (mem_str m (s_nss (sp st))) eqn:E.
      * simpl in S. apply Ln; assumption.
      * simpl in S. rewrite mem_str_cons in Hm. apply orb_true_iff in Hm as [Hm|Hm]; [|apply Ln; assumption].
        apply str_eqb_eq in Hm. subst m0. exfalso.
        destruct (mem_str rns (s_nss (sp st))) eqn:R.
        -- pose proof (forallb_In _ _ _ S (proj1 (mem_str_In _ _) R)) as X. simpl in X.
           rewrite H in X. discriminate.
        -- unfold name_in_module in H.
           destruct (ahas (rns, munge (var_ns_sym m)) (mods st)) eqn:A1.
           { apply Ld in A1. simpl in A1. congruence. }
           destruct (ahas (rns, munge_ab (var_ns_sym m)) (mods st)) eqn:A2; [|discriminate].
           apply Ld in A2. simpl in A2. congruence.
    + intros k H. specialize (Ld _ H). destruct (mem_str m (s_nss (sp st))); [exact Ld|].
      rewrite mem_str_cons, Ld. apply orb_true_r.
  - (* require *)
    simpl in *. destruct (mem_str m (s_nss (sp st))) eqn:E; simpl; [|split; assumption].
    apply andb_true_iff in S as [S1 S2].
    split; simpl.
    + intros m0 n0 r H. rewrite ?aget_aset. rewrite (Lv _ _ _ H).
      destruct (key_eqb (m0, munge n0) (s_cur (sp st), var_ns_sym m)) eqn:K2; [|reflexivity].
      exfalso. apply key_eqb_eq in K2. injection K2 as Em En. subst m0.
      pose proof (forallb_In _ _ _ S1 (aget_interned_names _ _ _ _ H)) as X. simpl in X.
      rewrite En, str_eqb_refl in X. discriminate.
    + apply (lk_ns_write st (mkS _ _ _ _ _)); [reflexivity | exact Ln |].
      intros m0 Hm P.
      pose proof (forallb_In _ _ _ S2 (proj1 (mem_str_In _ _) Hm)) as X. simpl in X.
      rewrite P in X. simpl in X. rewrite orb_false_r in X. apply str_eqb_eq in X. subst. reflexivity.
    + intros k. rewrite ahas_aset. intro H. apply orb_true_iff in H as [H|H]; [|apply Ld; exact H].
      apply key_eqb_eq in H. subst k. simpl. exact (wf_cur _ W).
  - (* refer *)
    simpl in *. destruct (mem_str m (s_nss (sp st))) eqn:E; simpl; [|split; assumption].
    apply andb_true_iff in S as [S1 S2].
    split; simpl.
    + intros m0 n0 r H. rewrite ?aget_aset. rewrite (Lv _ _ _ H).
      destruct (key_eqb (m0, munge n0) (s_cur (sp st), var_ns_sym m)) eqn:K2; [|reflexivity].
      exfalso. apply key_eqb_eq in K2. injection K2 as Em En. subst m0.
      pose proof (forallb_In _ _ _ S1 (aget_interned_names _ _ _ _ H)) as X. simpl in X.
      rewrite En, str_eqb_refl in X. discriminate.
    + apply (lk_ns_write st (mkS _ _ _ _ _)); [reflexivity | exact Ln |].
      intros m0 Hm P.
      pose proof (forallb_In _ _ _ S2 (proj1 (mem_str_In _ _) Hm)) as X. simpl in X.
      rewrite P in X. simpl in X. rewrite orb_false_r in X. apply str_eqb_eq in X. subst. reflexivity.
    + intros k. rewrite ahas_aset. intro H. apply orb_true_iff in H as [H|H]; [|apply Ld; exact H].
      apply key_eqb_eq in H. subst k. simpl. exact (wf_cur _ W).
  - (* alter-var-root *)
    simpl in *. destruct (aget (m, n) (s_vars (sp st))) as [r|] eqn:E; simpl; [|split; assumption].
    split; simpl.
    + intros m0 n0 r'. rewrite ?aget_aset. destruct (key_eqb (m0, n0) (m, n)) eqn:K.
      * apply key_eqb_eq in K. inversion K. subst. intro H. inversion H. subst r'. simpl. apply Lv. exact E.
      * apply Lv.
    + exact Ln.
    + exact Ld.
Qed.

Lemma link_run h : forall st, wf (sp st) -> link st -> no_collision st h = true -> link (run st h).
Proof.
  unfold run. induction h as [|s h IH]; intros st W L N; simpl; [exact L|].
  simpl in N. apply andb_true_iff in N as [N1 N2].
  apply IH; [rewrite sp_exec; apply wf_sexec; exact W | apply link_exec; assumption | exact N2].
Qed.

(** ---- reading ---- *)
(** with var indirection (or a ^:dynamic / ^:redef Var) a reference yields the root: no
    condition on the history *)
Lemma read_var_root st md rns k r :
  aget k (s_vars (sp st)) = Some r -> uses_root md (v_flags r) = true -> read_var st md rns k = OVal (v_root r).
Proof. intros A U. unfold read_var. rewrite A, U. reflexivity. Qed.

(** a directly linked reference yields the value of the last def, or the root when no link
    could be made, provided the linking invariant holds *)
Lemma read_var_direct st md rns k r :
  wf (sp st) -> link st -> aget k (s_vars (sp st)) = Some r -> uses_root md (v_flags r) = false ->
  read_var st md rns k = OVal (v_lastdef r) \/ read_var st md rns k = OVal (v_root r).
Proof.
  intros W [Lv Ln Ld] A U. unfold read_var. rewrite A, U. destruct k as [m n]. simpl.
  pose proof (Lv _ _ _ A) as G.
  assert (name_in_module st m n = Some (munge n)) as NM.
  { unfold name_in_module. unfold ahas. rewrite G. reflexivity. }
  rewrite NM. destruct (str_eqb m rns) eqn:E.
  - apply str_eqb_eq in E. subst rns. rewrite G. left. reflexivity.
  - destruct (name_in_module st rns (var_ns_sym m)) as [an|] eqn:NA; [|right; reflexivity].
    rewrite (Ln _ _ _ (wf_vars _ W _ _ A) NA). simpl fst. rewrite G. left. reflexivity.
Qed.

(** roots are only changed by def when the history has no alter-var-root *)
Definition roots_are_defs (st : sstate) : Prop :=
  forall k r, aget k (s_vars st) = Some r -> v_root r = v_lastdef r.

Lemma roots_are_defs_srun h : forall st, roots_are_defs st -> no_alter h = true -> roots_are_defs (srun st h).
Proof.
  unfold srun. induction h as [|s h IH]; intros st R N; simpl; [exact R|].
  simpl in N. apply andb_true_iff in N as [N1 N2]. apply IH; [|exact N2].
  destruct s as [n fl v|m|m a|m only|m n v]; simpl; try discriminate.
  - intros k r. simpl. rewrite ?aget_aset. destruct (key_eqb k (s_cur st, n)); [|apply R].
    intro H. inversion H. reflexivity.
  - exact R.
  - destruct (mem_str m (s_nss st)); exact R.
  - destruct (mem_str m (s_nss st)); exact R.
Qed.
