(** C10 -- kernel-checked counterexamples on the model of the code as it is (each is re-run on
    the real implementation by the correspondence check: findings F-10a, F-10b, F-10c), and
    concrete histories that meet the guards of the partial theorems. *)
From Coq Require Import List NArith Bool String Ascii.
Import ListNotations.
From Verif Require Import Common.ListX Gen.Tables C10.Munge C10.MungeProofs C10.Spec C10.Names C10.Proofs C10.Theorems.
Local Open Scope N_scope.

Definition T (s : string) : str := map N_of_ascii (list_ascii_of_string s).

Definition U := T "app.u".
Definition X := T "app.foo.bar".
Definition Y := T "app.foo-bar".
Definition Z := T "app.foo_bar".
Definition NSS := [U; X; Y; Z].
Definition v := T "v".
Definition fb := T "fb".
Definition fd := T "fd".

(** ---- F-10a: two names of one namespace share one module global ---- *)
(** after (def p 1) (def q 2): the symbol p denotes Var p, whose last def gave 1 and whose root
    is 1 (that is what var indirection reads), but the directly linked read yields 2 *)
Definition def_collision (p q : str) : Prop :=
  let h := [SDef p plain 1; SDef q plain 2] in
  let st := run (minit U [U]) h in
  p <> q /\
  resolve [] (sp st) U (Bare p) = RVar (U, p) /\
  last_def U h (U, p) None = Some 1 /\ last_given U h (U, p) None = Some 1 /\
  no_alter h = true /\
  read st Indirect (RR U None (Bare p)) = OVal 1 /\
  read st Direct (RR U None (Bare p)) = OVal 2 /\
  no_collision (minit U [U]) h = false.

Lemma def_collision_a_b : def_collision s_a_dash_b s_a_us_b.
Proof. unfold def_collision. vm_compute. repeat split; try reflexivity; discriminate. Qed.
Lemma def_collision_xq : def_collision s_xq s_x_Q.
Proof. unfold def_collision. vm_compute. repeat split; try reflexivity; discriminate. Qed.
Lemma def_collision_plus : def_collision s_plus s_dd_PLUS.
Proof. unfold def_collision. vm_compute. repeat split; try reflexivity; discriminate. Qed.
Lemma def_collision_print : def_collision s_print s_print_us.
Proof. unfold def_collision. vm_compute. repeat split; try reflexivity; discriminate. Qed.
Lemma def_collision_class : def_collision s_class s_class_us.
Proof. unfold def_collision. vm_compute. repeat split; try reflexivity; discriminate. Qed.

(** the unresolvable partner of a defined name trips the analyzer's assertion instead of the
    "unable to resolve symbol" error *)
Lemma undefined_partner_asserts :
  read (run (minit U [U]) [SDef s_print plain 1]) Direct (RR U None (Bare s_print_us)) = OErr E_ASSERT.
Proof. vm_compute. reflexivity. Qed.

(** ---- F-10b: namespaces whose names differ only in '.', '-', '_' share one module alias ---- *)
Definition h_ns : list step :=
  [SInNs X; SDef v plain 1; SInNs Y; SDef v plain 2; SInNs Z; SDef v plain 3; SInNs U;
   SRequire X (Some (T "fb")); SRequire Y (Some (T "fd")); SRequire Z (Some (T "fu"))].

Lemma ns_collision :
  let st := run (minit U NSS) h_ns in
  var_ns_sym X = var_ns_sym Y /\ var_ns_sym Y = var_ns_sym Z /\
  resolve [] (sp st) U (Qual (T "fb") v) = RVar (X, v) /\
  resolve [] (sp st) U (Qual X v) = RVar (X, v) /\
  last_def U h_ns (X, v) None = Some 1 /\ no_alter h_ns = true /\
  read st Indirect (RR U None (Qual (T "fb") v)) = OVal 1 /\
  read st Direct (RR U None (Qual (T "fb") v)) = OVal 3 /\
  read st Direct (RR U None (Qual X v)) = OVal 3 /\
  read st Direct (RR U None (Qual (T "fd") v)) = OVal 3 /\
  no_collision (minit U NSS) h_ns = false.
Proof. vm_compute. repeat split; reflexivity. Qed.

(** the last required namespace need not even define the name: AttributeError at run time *)
Lemma ns_collision_attribute_error :
  let h := [SInNs X; SDef v plain 1; SInNs U; SRequire X (Some (T "fb")); SRequire Y (Some (T "fd"))] in
  let st := run (minit U NSS) h in
  resolve [] (sp st) U (Qual (T "fb") v) = RVar (X, v) /\
  read st Indirect (RR U None (Qual (T "fb") v)) = OVal 1 /\
  read st Direct (RR U None (Qual (T "fb") v)) = OErr E_ATTR.
Proof. vm_compute. repeat split; reflexivity. Qed.

(** a Var whose munged name is the module alias of a required namespace replaces the module *)
Lemma ns_alias_clobbered_by_def :
  let h := [SInNs X; SDef v plain 1; SInNs U; SRequire X (Some (T "fb")); SDef (T "app-foo-bar") plain 5] in
  let st := run (minit U NSS) h in
  read st Indirect (RR U None (Qual (T "fb") v)) = OVal 1 /\
  read st Direct (RR U None (Qual (T "fb") v)) = OErr E_ATTR.
Proof. vm_compute. repeat split; reflexivity. Qed.

(** ---- F-10c: a Var made private after it was referred stays reachable ---- *)
Definition h_priv : list step :=
  [SInNs X; SDef v plain 1; SInNs U; SRefer X [v]; SInNs X; SDef v (mkFlags false false true) 2; SInNs U].

Lemma private_reachable_via_stale_refer :
  let st := sp (run (minit U NSS) h_priv) in
  resolve [] st U (Bare v) = RVar (X, v) /\ is_private st (X, v) = true /\ X <> U /\
  resolve [] st U (Qual X v) = RPrivate /\
  priv_stable (init U NSS) h_priv = false.
Proof. vm_compute. repeat split; try reflexivity; discriminate. Qed.

(** ---- non-vacuity of the guards ---- *)
Definition W := T "app.w".
Definition h_good : list step :=
  [SInNs X; SDef v plain 1; SDef s_xq plain 2; SDef s_print (mkFlags false true false) 3;
   SDef (T "secret") (mkFlags false false true) 4; SDef s_plus (mkFlags true false false) 5;
   SInNs W; SDef v plain 6; SDef s_class plain 7;
   SInNs U; SRequire X (Some (T "fb")); SRequire W (Some (T "w")); SRefer X [s_xq; T "secret"]; SRefer W [];
   SDef v plain 8; SAlter X v 9; SAlter X s_print 10; SDef s_xq plain 11; SInNs X; SDef v plain 12;
   SAlter W s_class 13].

Example guards_nonvacuous :
  no_collision (minit U [U; X]) h_good = true /\ priv_stable (init U [U; X]) h_good = true.
Proof. vm_compute. split; reflexivity. Qed.

(** on that history a plain Var altered behind the compiler's back shows the permitted
    difference between the modes, a ^:redef one does not *)
Example good_history_reads :
  let st := run (minit U [U; X]) h_good in
  read st Direct (RR U None (Qual (T "fb") v)) = OVal 12 /\
  read st Indirect (RR U None (Qual (T "fb") v)) = OVal 12 /\
  read st Direct (RR U None (Qual (T "fb") s_print)) = OVal 10 /\
  read st Direct (RR U None (Bare s_xq)) = OVal 11 /\
  read st Direct (RR U None (Qual X s_xq)) = OVal 2 /\
  read st Direct (RR U None (Qual (T "fb") (T "secret"))) = OErr E_PRIVATE /\
  read st Direct (RR U None (Bare s_class)) = OVal 7 /\
  read st Indirect (RR U None (Bare s_class)) = OVal 13 /\
  read st Direct (RR U (Some (v, 77)) (Bare v)) = OVal 77 /\
  read st Direct (RR U (Some (v, 77)) (Qual U v)) = OVal 8.
Proof. vm_compute. repeat split; reflexivity. Qed.

Definition h_good_defs_only : list step := filter (fun s => negb (is_alter s)) h_good.
Example modes_agree_nonvacuous :
  no_collision (minit U [U; X]) h_good_defs_only = true /\ no_alter h_good_defs_only = true.
Proof. vm_compute. split; reflexivity. Qed.

(** ---- the refutations in the form quoted by Properties/C10.v ---- *)
Lemma munge_collision_refuted :
  exists cur nss h rns spl k v,
    let st := after cur nss h in
    no_alter h = true /\
    resolve [] (sp st) rns spl = RVar k /\ last_def cur h k None = Some v /\
    read st Indirect (RR rns None spl) = OVal v /\ read st Direct (RR rns None spl) <> OVal v /\
    (exists p q fl1 fl2 v1 v2, h = [SDef p fl1 v1; SDef q fl2 v2] /\ p <> q /\ munge p = munge q).
Proof.
  exists U, [U], [SDef s_a_dash_b plain 1; SDef s_a_us_b plain 2], U, (Bare s_a_dash_b), (U, s_a_dash_b), 1.
  destruct def_collision_a_b as [NE [R [LD [_ [NA [RI [RD _]]]]]]].
  split; [exact NA|]. split; [exact R|]. split; [exact LD|]. split; [exact RI|]. split.
  - unfold after. rewrite RD. discriminate.
  - exists s_a_dash_b, s_a_us_b, plain, plain, 1, 2.
    split; [reflexivity|]. split; [exact NE | exact (proj1 munge_collisions)].
Qed.

Lemma ns_collision_refuted :
  exists cur nss h rns spl k v,
    let st := after cur nss h in
    no_alter h = true /\
    resolve [] (sp st) rns spl = RVar k /\ last_def cur h k None = Some v /\
    read st Indirect (RR rns None spl) = OVal v /\ read st Direct (RR rns None spl) <> OVal v /\
    (exists m1 m2, m1 <> m2 /\ mem_str m1 nss = true /\ mem_str m2 nss = true /\ var_ns_sym m1 = var_ns_sym m2).
Proof.
  exists U, NSS, h_ns, U, (Qual (T "fb") v), (X, v), 1.
  destruct ns_collision as [E1 [_ [R [_ [LD [NA [RI [RD _]]]]]]]].
  split; [exact NA|]. split; [exact R|]. split; [exact LD|]. split; [exact RI|]. split.
  - unfold after. rewrite RD. discriminate.
  - exists X, Y. split; [vm_compute; discriminate|]. split; [vm_compute; reflexivity|].
    split; [vm_compute; reflexivity | exact E1].
Qed.

Lemma private_unreachable_refuted :
  exists cur nss h rns spl k,
    let st := sp (after cur nss h) in
    resolve [] st rns spl = RVar k /\ is_private st k = true /\ fst k <> rns.
Proof.
  exists U, NSS, h_priv, U, (Bare v), (X, v).
  destruct private_reachable_via_stale_refer as [A [B [C _]]]. exact (conj A (conj B C)).
Qed.
