(** C10 correspondence interface.

    A history case: the namespaces that exist at the start (the first one is the current namespace), the
    compilation modes the reads are compiled in, and the steps (C10/BSpec.v [bstep]: a step of
    C10/Spec.v, entering a binding, leaving the innermost binding), each followed by the read
    requests made after it.  Observable: per step whether it succeeded, per mode the value
    (or error class) of every read.
    A munge case: strings; observable: (munge s, munge s allow_builtins=True) of the real
    util.munge. *)
From Coq Require Import List NArith Bool String Ascii.
Import ListNotations.
From Verif Require Import Gen.Tables.
From Verif Require Export Common.ListX C10.Munge C10.Spec C10.Names C10.BSpec C10.BNames.
Local Open Scope N_scope.

(** ---- compact literals (the case files are large; Coq parses string literals an order of
         magnitude faster than lists of numerals) ---- *)
Definition T (s : string) : str := map N_of_ascii (list_ascii_of_string s).

Fixpoint toks (s : string) (cur : option N) (acc : list N) : list N :=
  match s with
  | EmptyString => rev (match cur with Some n => n :: acc | None => acc end)
  | String c r =>
      let k := N_of_ascii c in
      if (48 <=? k) && (k <=? 57)
      then toks r (Some (match cur with Some n => 10 * n + (k - 48) | None => k - 48 end)) acc
      else toks r None (match cur with Some n => n :: acc | None => acc end)
  end.

(** a row of observations, one decimal token each:
    0 builtin, 1 module, 2 unresolved, 3 private, 4 AttributeError, 5 other error,
    6 bare AssertionError, 10+v value v *)
Definition obs_of_tok (k : N) : robs :=
  if k =? 0 then OBuiltin else if k =? 1 then OMod else if k =? 2 then OErr E_UNRESOLVED
  else if k =? 3 then OErr E_PRIVATE else if k =? 4 then OErr E_ATTR
  else if k =? 6 then OErr E_ASSERT
  else if k <? 10 then OErr E_OTHER else OVal (k - 10).
Definition row (s : string) : list robs := map obs_of_tok (toks s None []).

(** the read requests made after a step: for every reading namespace (with the qualifiers to
    try there) and every name: the bare symbol and every qualified one; then, for the name
    [rf_let], the bare and the self-qualified symbol under a let* local of that name and the
    bare symbol under a let* local of a colliding name *)
Record rfac := mkRF {
  rf_readers : list (str * list str);
  rf_names : list str;
  rf_let : option str;
  rf_partner : option str }.

Definition mk_reads (f : rfac) : list readreq :=
  flat_map (fun rq : str * list str =>
    let (rns, quals) := rq in
    flat_map (fun n => RR rns None (Bare n) :: map (fun q => RR rns None (Qual q n)) quals) (rf_names f)
    ++ match rf_let f with
       | Some n0 =>
           [RR rns (Some (n0, 77)) (Bare n0); RR rns (Some (n0, 77)) (Qual rns n0)]
           ++ match rf_partner f with Some p => [RR rns (Some (p, 78)) (Bare n0)] | None => [] end
       | None => []
       end) (rf_readers f).

Inductive case :=
| CHist (nss : list str) (modes : list mode) (steps : list (bstep * list readreq))
| CMunge (l : list str).

Inductive out :=
| OHist (l : list (bool * list (list robs)))
| OMunge (l : list (str * str))
| OFail (n : N).                                  (* harness-level failure: 1 timeout/hang, 2 other *)

Definition cur0 (nss : list str) : str := match nss with c :: _ => c | [] => [] end.

Definition obs_list_eqb := list_eqb robs_eqb.
Definition step_out_eqb (a b : bool * list (list robs)) : bool :=
  Bool.eqb (fst a) (fst b) && list_eqb obs_list_eqb (snd a) (snd b).
Definition pair_str_eqb (a b : str * str) : bool := str_eqb (fst a) (fst b) && str_eqb (snd a) (snd b).

Definition out_eqb (a b : out) : bool :=
  match a, b with
  | OHist x, OHist y => list_eqb step_out_eqb x y
  | OMunge x, OMunge y => list_eqb pair_str_eqb x y
  | OFail x, OFail y => N.eqb x y
  | _, _ => false
  end.

(** ---- model ---- *)
Fixpoint model_steps (st : xstate) (modes : list mode) (steps : list (bstep * list readreq))
  : list (bool * list (list robs)) :=
  match steps with
  | [] => []
  | (s, rqs) :: r =>
      let '(st', ok) := xexec st s in
      (ok, map (fun md => map (xread st' md) rqs) modes) :: model_steps st' modes r
  end.

Definition munge_out (l : list str) : out := OMunge (map (fun s => (munge s, munge_ab s)) l).

Definition model (c : case) : out :=
  match c with
  | CHist nss modes steps => OHist (model_steps (xinit (cur0 nss) nss) modes steps)
  | CMunge l => munge_out l
  end.

(** ---- spec ---- *)
Fixpoint all2 {A B} (f : A -> B -> bool) (l1 : list A) (l2 : list B) : bool :=
  match l1, l2 with
  | [], [] => true
  | x :: r1, y :: r2 => f x y && all2 f r1 r2
  | _, _ => false
  end.

Fixpoint spec_steps (st : xsstate) (modes : list mode) (steps : list (bstep * list readreq))
         (o : list (bool * list (list robs))) : bool :=
  match steps, o with
  | [], [] => true
  | (s, rqs) :: r, (ok, obs) :: ro =>
      let '(st', ok') := xsexec st s in
      Bool.eqb ok ok'
      && all2 (fun md ol => all2 (fun rq ob => bread_ok st' md rq ob) rqs ol) modes obs
      && spec_steps st' modes r ro
  | _, _ => false
  end.

Definition spec_ok (c : case) (o : out) : bool :=
  match c, o with
  | CHist nss modes steps, OHist l => spec_steps (xsinit (cur0 nss) nss) modes steps l
  | CMunge l, _ => out_eqb (munge_out l) o       (* the documented function IS the specification *)
  | _, _ => false
  end.

(** ---- defect tags: bit 1 = two names of one namespace share a module global (F-10a),
         bit 2 = a module alias collides (F-10b), bit 4 = a Var became private after it had
         been referred / privacy flag changed by a redefinition (F-10c), bit 8 = a def changed
         the dynamic marking of a Var that has open binding frames (F-10e) ---- *)
Fixpoint hazards (st : xstate) (h : list bstep) : bool * bool * bool * bool :=
  match h with
  | [] => (false, false, false, false)
  | s :: r =>
      let '(a, b, c, d) := hazards (fst (xexec st s)) r in
      match s with
      | B s0 => (def_hazard (base st) s0 || a, ns_hazard (base st) s0 || b,
                 negb (priv_safe (sp (base st)) s0) || c, dyn_hazard st s || d)
      | _ => (a, b, c, d)
      end
  end.

Definition tag (c : case) : N :=
  match c with
  | CHist nss _ steps =>
      let '(a, b, c, d) := hazards (xinit (cur0 nss) nss) (map fst steps) in
      (if a then 1 else 0) + (if b then 2 else 0) + (if c then 4 else 0) + (if d then 8 else 0)
  | CMunge _ => 0
  end.

(** ---- debugging aid for replays: where does the implementation differ from the model /
         violate the spec?  (step index, mode index, read index, model's observation,
         implementation's observation, spec accepts it) ---- *)
Fixpoint zip_idx {A B} (i : N) (l1 : list A) (l2 : list B) : list (N * A * B) :=
  match l1, l2 with
  | x :: r1, y :: r2 => (i, x, y) :: zip_idx (N.succ i) r1 r2
  | _, _ => []
  end.

Fixpoint mismatch_steps (i : N) (st : xstate) (xs : xsstate) (modes : list mode) (steps : list (bstep * list readreq))
         (o : list (bool * list (list robs))) : list (N * N * N * robs * robs * bool) :=
  match steps, o with
  | (s, rqs) :: r, (ok, obs) :: ro =>
      let '(st', ok') := xexec st s in
      let '(xs', oks) := xsexec xs s in
      (if Bool.eqb ok ok' && Bool.eqb ok oks then [] else [(i, 99, 99, OErr (if ok' then 1 else 0), OErr (if oks then 1 else 0), false)])
      ++ flat_map (fun '(mi, md, ol) =>
           flat_map (fun '(ri, rq, ob) =>
                       let m := xread st' md rq in
                       let okk := bread_ok xs' md rq ob in
                       if robs_eqb m ob && okk then [] else [(i, mi, ri, m, ob, okk)])
                    (zip_idx 0 rqs ol))
           (zip_idx 0 modes obs)
      ++ mismatch_steps (N.succ i) st' xs' modes r ro
  | _, _ => []
  end.

Definition mismatches (c : case) (o : out) :=
  match c, o with
  | CHist nss modes steps, OHist l => mismatch_steps 0 (xinit (cur0 nss) nss) (xsinit (cur0 nss) nss) modes steps l
  | _, _ => []
  end.
