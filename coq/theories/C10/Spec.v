(** C10 -- reference semantics: Vars are cells named by (namespace, name).

    The specification knows nothing about Python modules or identifiers.  It consists of
    - the Var store: (ns, name) |-> root value, value last given by [def], flags of the last def
      (Var.intern, runtime.py:386-412: an existing Var gets the new root, meta and dynamic flag);
    - per namespace: refers (name |-> Var) and aliases (alias |-> namespace)
      (Namespace.add_refer / add_alias, runtime.py:748-862);
    - which Var a symbol DENOTES: the analyzer's resolution order (analyzer.py:3576-3907);
    - what a read must yield: the value most recently given to the denoted Var -- by [def], and
      also by root mutation when the Var is ^:dynamic / ^:redef or var indirection is on.
      For a plain Var compiled with direct linking the value of the last [def] is also
      acceptable (the property only promises root mutations for the other Vars). *)
From Coq Require Import List NArith Bool.
Import ListNotations.
From Verif Require Import Common.ListX Gen.Tables C10.Munge.
Local Open Scope N_scope.

(** ---- association lists (first binding wins, [aset] shadows) ---- *)
Definition key := (str * str)%type.
Definition key_eqb (a b : key) : bool := str_eqb (fst a) (fst b) && str_eqb (snd a) (snd b).

Fixpoint aget {V} (k : key) (l : list (key * V)) : option V :=
  match l with
  | [] => None
  | (k', v) :: r => if key_eqb k k' then Some v else aget k r
  end.
Definition aset {V} (k : key) (v : V) (l : list (key * V)) : list (key * V) := (k, v) :: l.
Definition ahas {V} (k : key) (l : list (key * V)) : bool :=
  match aget k l with Some _ => true | None => false end.

(** ---- state ---- *)
Record flags := mkFlags { f_dyn : bool; f_redef : bool; f_priv : bool }.
Definition plain : flags := mkFlags false false false.
Record varrec := mkVar { v_root : N; v_lastdef : N; v_flags : flags }.

Record sstate := mkS {
  s_cur : str;                        (* *ns* *)
  s_nss : list str;                   (* the namespace cache *)
  s_vars : list (key * varrec);       (* (ns, name) |-> Var; interned in ns under name *)
  s_refers : list (key * key);        (* (ns, name) |-> Var key *)
  s_aliases : list (key * str)        (* (ns, alias) |-> namespace *)
}.

Definition init (cur : str) (nss : list str) : sstate :=
  mkS cur (if mem_str cur nss then nss else cur :: nss) [] [] [].

(** ---- history steps ---- *)
Inductive step :=
| SDef (n : str) (fl : flags) (v : N)           (* (def ^fl n v) in *ns* *)
| SInNs (m : str)                               (* (in-ns 'm) *)
| SRequire (m : str) (a : option str)           (* (require '[m :as a]) / (require 'm) *)
| SRefer (m : str) (only : list str)            (* (refer 'm :only '[...]) ; [] = (refer 'm) *)
| SAlter (m n : str) (v : N).                   (* (alter-var-root #'m/n (constantly v)) on the interned Var *)

Definition interned (st : sstate) (k : key) : bool := ahas k (s_vars st).
Definition is_private (st : sstate) (k : key) : bool :=
  match aget k (s_vars st) with Some r => f_priv (v_flags r) | None => false end.

(** names interned in namespace [m] (with repetitions; order irrelevant) *)
Definition interned_names (st : sstate) (m : str) : list str :=
  map (fun e => snd (fst e)) (filter (fun e => str_eqb (fst (fst e)) m) (s_vars st)).

(** Namespace.find: interns first, then refers (runtime.py:781-788) *)
Definition find (st : sstate) (m n : str) : option key :=
  if interned st (m, n) then Some (m, n) else aget (m, n) (s_refers st).

Definition add_refers (st : sstate) (m : str) (names : list str) (rf : list (key * key)) : list (key * key) :=
  fold_left (fun acc n => if interned st (m, n) && negb (is_private st (m, n))
                          then aset (s_cur st, n) (m, n) acc else acc) names rf.

(** the naming part of require-lib: alias ns_sym -> ns, then alias -> ns *)
Definition add_req_aliases (st : sstate) (m : str) (a : option str) : list (key * str) :=
  let al := aset (s_cur st, m) m (s_aliases st) in
  match a with Some x => aset (s_cur st, x) m al | None => al end.

(** [sexec st s] = (new state, did the step succeed) *)
Definition sexec (st : sstate) (s : step) : sstate * bool :=
  match s with
  | SDef n fl v =>
      (mkS (s_cur st) (s_nss st) (aset (s_cur st, n) (mkVar v v fl) (s_vars st)) (s_refers st) (s_aliases st), true)
  | SInNs m =>
      (mkS m (if mem_str m (s_nss st) then s_nss st else m :: s_nss st) (s_vars st) (s_refers st) (s_aliases st), true)
  | SRequire m a =>
      if mem_str m (s_nss st)
      then (mkS (s_cur st) (s_nss st) (s_vars st) (s_refers st) (add_req_aliases st m a), true)
      else (st, false)                                 (* ImportError *)
  | SRefer m only =>
      if mem_str m (s_nss st)
      then (mkS (s_cur st) (s_nss st) (s_vars st)
                (add_refers st m (match only with [] => interned_names st m | _ => only end) (s_refers st))
                (add_req_aliases st m None), true)
      else (st, false)
  | SAlter m n v =>
      match aget (m, n) (s_vars st) with
      | Some r => (mkS (s_cur st) (s_nss st) (aset (m, n) (mkVar v (v_lastdef r) (v_flags r)) (s_vars st))
                       (s_refers st) (s_aliases st), true)
      | None => (st, false)
      end
  end.

Definition srun (st : sstate) (h : list step) : sstate := fold_left (fun s x => fst (sexec s x)) h st.

(** ---- which Var a symbol denotes (analyzer.py:3659-3907) ---- *)
Inductive spelling := Bare (n : str) | Qual (q n : str).

Inductive res :=
| RLocal                   (* a let*/fn local of that name is in scope *)
| RVar (k : key)
| RBuiltin                 (* python builtin: munge(name, allow_builtins=True) in vars(builtins) *)
| RPrivate                 (* "cannot resolve private Var" *)
| RUnresolved.             (* "unable to resolve symbol" *)

Definition check_private (st : sstate) (k : key) : res :=
  if is_private st k then RPrivate else RVar k.

(** [locals]: names bound by enclosing let* / fn forms.  [rns] is the namespace the form is
    compiled in. *)
Definition resolve (locals : list str) (st : sstate) (rns : str) (sp : spelling) : res :=
  match sp with
  | Bare n =>
      if mem_str n locals then RLocal                                   (* :3896-3905 *)
      else match find st rns n with                                      (* :3802 *)
           | Some k => RVar k
           | None =>
               if has_dot n then RUnresolved                             (* :3811 *)
               else if mem_str (munge_ab n) py_builtins then RBuiltin    (* :3816 *)
               else RUnresolved                                          (* imports are out of scope *)
           end
  | Qual q n =>
      match (if str_eqb q rns then find st rns n else None) with        (* :3683-3691, no privacy check *)
      | Some k => RVar k
      | None =>
          match (if mem_str q (s_nss st) then find st q n else None) with   (* Var.find :3706 *)
          | Some k => check_private st k                                  (* :3708-3713 *)
          | None =>
              if has_dot n then RUnresolved                               (* :3721 *)
              else match aget (rns, q) (s_aliases st) with                (* :3636 *)
                   | Some m =>
                       match find st m n with                             (* Var.find_in_ns *)
                       | Some k => check_private st k                     (* :3644-3648 *)
                       | None => RUnresolved
                       end
                   | None => RUnresolved
                   end
          end
      end
  end.

(** ---- what a read must yield ---- *)
Inductive mode := Direct | Indirect.

Inductive robs :=
| OVal (v : N)
| OBuiltin            (* a Python builtin object *)
| OMod                (* a module object *)
| OErr (e : N).       (* 1 unresolved, 2 private, 3 AttributeError, 4 bare AssertionError of the analyzer, 9 other *)

Definition robs_eqb (a b : robs) : bool :=
  match a, b with
  | OVal x, OVal y => N.eqb x y
  | OBuiltin, OBuiltin => true
  | OMod, OMod => true
  | OErr x, OErr y => N.eqb x y
  | _, _ => false
  end.

Definition E_UNRESOLVED : N := 1.
Definition E_PRIVATE : N := 2.
Definition E_ATTR : N := 3.
Definition E_ASSERT : N := 4.
Definition E_OTHER : N := 9.

Definition uses_root (md : mode) (fl : flags) : bool :=
  match md with Indirect => true | Direct => f_dyn fl || f_redef fl end.

(** a read request: compile [(let* [x v] sp)] (or just [sp]) in namespace [rns] *)
Inductive readreq := RR (rns : str) (loc : option (str * N)) (sp : spelling).

Definition locals_of (loc : option (str * N)) : list str :=
  match loc with Some (x, _) => [x] | None => [] end.

Definition read_ok (st : sstate) (md : mode) (rq : readreq) (o : robs) : bool :=
  let '(RR rns loc sp) := rq in
  match resolve (locals_of loc) st rns sp with
  | RLocal => match loc with Some (_, v) => robs_eqb o (OVal v) | None => false end
  | RVar k =>
      if is_private st k && negb (str_eqb (fst k) rns)
      then robs_eqb o (OErr E_PRIVATE)               (* private Vars are unreachable from other namespaces *)
      else
      match aget k (s_vars st) with
      | Some r =>
          robs_eqb o (OVal (v_root r))
          || (negb (uses_root md (v_flags r)) && robs_eqb o (OVal (v_lastdef r)))
      | None => false
      end
  | RBuiltin => robs_eqb o OBuiltin
  | RPrivate => robs_eqb o (OErr E_PRIVATE)
  (* an unresolvable symbol is a compile-time error; analyzer.py:3857 asserts that the munged
     name is not a global of the module before raising it, so the error may be that assertion *)
  | RUnresolved => robs_eqb o (OErr E_UNRESOLVED) || robs_eqb o (OErr E_ASSERT)
  end.

(** ---- "the value most recently given to a Var", read off the history alone ---- *)
Fixpoint last_given (cur : str) (h : list step) (k : key) (acc : option N) : option N :=
  match h with
  | [] => acc
  | SDef n _ v :: r => last_given cur r k (if key_eqb k (cur, n) then Some v else acc)
  | SInNs m :: r => last_given m r k acc
  | SAlter m n v :: r =>
      last_given cur r k (if key_eqb k (m, n) then match acc with Some _ => Some v | None => None end else acc)
  | _ :: r => last_given cur r k acc
  end.

Fixpoint last_def (cur : str) (h : list step) (k : key) (acc : option N) : option N :=
  match h with
  | [] => acc
  | SDef n _ v :: r => last_def cur r k (if key_eqb k (cur, n) then Some v else acc)
  | SInNs m :: r => last_def m r k acc
  | _ :: r => last_def cur r k acc
  end.
