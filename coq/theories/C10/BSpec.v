(** C10 extension -- thread bindings of dynamic Vars (one thread): reference semantics.

    On top of the Var store of C10/Spec.v there is ONE stack of open binding frames, innermost
    first; a frame is (Var, value): `(binding [m/n v] ...)` / `push-thread-bindings {#'m/n v}`
    enters one, leaving the `binding` form / `pop-thread-bindings` leaves the innermost one.
    Only a Var currently marked ^:dynamic can be bound.  A [def] or a root mutation gives a
    ROOT value and never touches the frames.

    What a read must yield: a Var that is marked ^:dynamic and has an open frame yields the
    value of its innermost open frame (in either linking mode, through every spelling); every
    other read is as in C10/Spec.v (non-dynamic Vars ignore bindings).

    [open_frames] / [innermost] read the same off the history alone (like [last_given]); they
    also record, per open frame, whether the Var's dynamic marking has been changed by a [def]
    since the frame was entered ([false] = changed). *)
From Coq Require Import List NArith Bool.
Import ListNotations.
From Verif Require Import Common.ListX Gen.Tables C10.Munge.
From Verif Require Export C10.Spec.
Local Open Scope N_scope.

(** ---- history steps ---- *)
Inductive bstep :=
| B (s : step)                      (* a step of C10/Spec.v, possibly inside open bindings *)
| BPush (m n : str) (v : N)         (* enter (binding [m/n v] ...) *)
| BPop.                             (* leave the innermost open binding form *)

Fixpoint base_steps (h : list bstep) : list step :=
  match h with
  | [] => []
  | B s :: r => s :: base_steps r
  | _ :: r => base_steps r
  end.

Definition is_base (s : bstep) : bool := match s with B _ => true | _ => false end.

(** ---- state ---- *)
Record xsstate := mkXS {
  xs_base : sstate;
  xs_frames : list (key * N)        (* open binding frames, innermost first *)
}.

Definition xsinit (cur : str) (nss : list str) : xsstate := mkXS (init cur nss) [].

Definition is_dynamic (st : sstate) (k : key) : bool :=
  match aget k (s_vars st) with Some r => f_dyn (v_flags r) | None => false end.

Definition xsexec (st : xsstate) (s : bstep) : xsstate * bool :=
  match s with
  | B s0 => (mkXS (fst (sexec (xs_base st) s0)) (xs_frames st), snd (sexec (xs_base st) s0))
  | BPush m n v =>
      if is_dynamic (xs_base st) (m, n)
      then (mkXS (xs_base st) (((m, n), v) :: xs_frames st), true)
      else (st, false)                          (* "cannot set thread-local bindings for non-dynamic Var" *)
  | BPop =>
      match xs_frames st with
      | [] => (st, false)                       (* "cannot pop thread-local bindings without prior push" *)
      | _ :: r => (mkXS (xs_base st) r, true)
      end
  end.

Definition xsrun (st : xsstate) (h : list bstep) : xsstate := fold_left (fun s x => fst (xsexec s x)) h st.

(** ---- what a read must yield ---- *)
(** the thread's view of Var [k]: its innermost open frame, when it is marked dynamic *)
Definition thread_view (st : xsstate) (k : key) : option N :=
  if is_dynamic (xs_base st) k then aget k (xs_frames st) else None.

Definition bread_ok (st : xsstate) (md : mode) (rq : readreq) (o : robs) : bool :=
  let '(RR rns loc spl) := rq in
  match resolve (locals_of loc) (xs_base st) rns spl with
  | RVar k =>
      if is_private (xs_base st) k && negb (str_eqb (fst k) rns) then read_ok (xs_base st) md rq o
      else match thread_view st k with
           | Some v => robs_eqb o (OVal v)
           | None => read_ok (xs_base st) md rq o
           end
  | _ => read_ok (xs_base st) md rq o
  end.

(** the guard of the partial theorems: a redefinition of a Var that has open binding frames
    keeps its dynamic marking *)
Definition has_frame (k : key) (fr : list (key * N)) : bool := ahas k fr.

Definition dyn_safe (st : xsstate) (s : bstep) : bool :=
  match s with
  | B (SDef n fl _) =>
      let k := (s_cur (xs_base st), n) in
      match aget k (s_vars (xs_base st)) with
      | Some r => Bool.eqb (f_dyn fl) (f_dyn (v_flags r)) || negb (has_frame k (xs_frames st))
      | None => true
      end
  | _ => true
  end.

Fixpoint dyn_stable (st : xsstate) (h : list bstep) : bool :=
  match h with
  | [] => true
  | s :: r => dyn_safe st s && dyn_stable (fst (xsexec st s)) r
  end.

(** ---- the open bindings, read off the history alone ---- *)
(** (Var, value, the Var's dynamic marking has not been changed since the frame was entered) *)
Definition hframe := (key * N * bool)%type.
Definition hf_key (f : hframe) : key := fst (fst f).
Definition hf_val (f : hframe) : N := snd (fst f).
Definition hf_intact (f : hframe) : bool := snd f.

Definition spoil (k : key) (f : hframe) : hframe :=
  (hf_key f, hf_val f, hf_intact f && negb (key_eqb k (hf_key f))).

Record hacc := mkH {
  h_cur : str;                      (* *ns* *)
  h_dyn : list (key * bool);        (* Var |-> dynamic marking given by its last def *)
  h_fr : list hframe                (* open frames, innermost first *)
}.

Definition hstep (a : hacc) (s : bstep) : hacc :=
  match s with
  | B (SDef n fl _) =>
      let k := (h_cur a, n) in
      let flip := match aget k (h_dyn a) with Some d => negb (Bool.eqb (f_dyn fl) d) | None => false end in
      mkH (h_cur a) (aset k (f_dyn fl) (h_dyn a)) (if flip then map (spoil k) (h_fr a) else h_fr a)
  | B (SInNs m) => mkH m (h_dyn a) (h_fr a)
  | B _ => a
  | BPush m n v =>
      match aget (m, n) (h_dyn a) with
      | Some true => mkH (h_cur a) (h_dyn a) (((m, n), v, true) :: h_fr a)
      | _ => a
      end
  | BPop => mkH (h_cur a) (h_dyn a) (tl (h_fr a))
  end.

Definition hrun (a : hacc) (h : list bstep) : hacc := fold_left hstep h a.

Definition open_frames (cur : str) (h : list bstep) : list hframe := h_fr (hrun (mkH cur [] []) h).

Fixpoint hfind (k : key) (fr : list hframe) : option (N * bool) :=
  match fr with
  | [] => None
  | f :: r => if key_eqb k (hf_key f) then Some (hf_val f, hf_intact f) else hfind k r
  end.

(** [innermost cur h k = Some (v, i)]: after history [h] the innermost open binding of Var [k]
    gave it [v]; [i = true] iff no [def] changed [k]'s dynamic marking since it was entered *)
Definition innermost (cur : str) (h : list bstep) (k : key) : option (N * bool) :=
  hfind k (open_frames cur h).
