(** C10 -- model of the code as it is: besides the Var store (C10/Spec.v: that part of the
    runtime does behave like cells), every namespace has a Python module whose __dict__ is
    keyed by Python identifiers:

    - [def] assigns the module global [munge name] in the CURRENT namespace's module AND
      interns the Var (generator.py:891-1025: `safe_name = munge(defsym.name)`);
    - [require*] assigns the module global [_var_ns_as_python_sym ns] := the required
      namespace's module (generator.py:2933-3010; core.lpy require-lib evals require* in the
      requiring namespace; [refer] calls require-lib first);
    - a Var reference compiles (generator.py:3274-3395) to Var.find(ns/name).value when the Var
      is ^:dynamic / ^:redef or use-var-indirection is on; otherwise to a DIRECT LINK when
      [__name_in_module name var_ns.module] finds a global: the bare Python name when the Var's
      namespace is the current one, else `<alias>.<name>` when
      [__name_in_module (_var_ns_as_python_sym var_ns.name) current_ns.module] finds a global;
      else Var.find again.  [__name_in_module] tries [munge x], then [munge x allow_builtins]. *)
From Coq Require Import List NArith Bool.
Import ListNotations.
From Verif Require Import Common.ListX Gen.Tables C10.Munge.
From Verif Require Export C10.Spec.
Local Open Scope N_scope.

Inductive pyval := PVal (v : N) | PMod (m : str).

Record state := mkM {
  sp : sstate;                       (* Var store, refers, aliases, *ns* *)
  mods : list (key * pyval)          (* (namespace, python identifier) |-> module global *)
}.

Definition minit (cur : str) (nss : list str) : state := mkM (init cur nss) [].

Definition exec (st : state) (s : step) : state * bool :=
  let '(sp', ok) := sexec (sp st) s in
  let cur := s_cur (sp st) in
  let mods' :=
    match s with
    | SDef n _ v => aset (cur, munge n) (PVal v) (mods st)
    | SRequire m _ | SRefer m _ => if ok then aset (cur, var_ns_sym m) (PMod m) (mods st) else mods st
    | _ => mods st
    end in
  (mkM sp' mods', ok).

Definition run (st : state) (h : list step) : state := fold_left (fun s x => fst (exec s x)) h st.

(** generator.py:__name_in_module *)
Definition name_in_module (st : state) (m x : str) : option str :=
  if ahas (m, munge x) (mods st) then Some (munge x)
  else if ahas (m, munge_ab x) (mods st) then Some (munge_ab x)
  else None.

Definition pv_obs (pv : pyval) : robs :=
  match pv with PVal v => OVal v | PMod _ => OMod end.

(** what evaluating a reference to Var [k], compiled in namespace [rns], yields *)
Definition read_var (st : state) (md : mode) (rns : str) (k : key) : robs :=
  match aget k (s_vars (sp st)) with
  | None => OErr E_OTHER
  | Some r =>
      if uses_root md (v_flags r) then OVal (v_root r)                   (* Var.find(...).value *)
      else
        match name_in_module st (fst k) (snd k) with
        | None => OVal (v_root r)                                        (* fallback: Var.find *)
        | Some sn =>
            if str_eqb (fst k) rns then
              match aget (rns, sn) (mods st) with                        (* ast.Name(safe_name) *)
              | Some pv => pv_obs pv
              | None => OErr E_OTHER
              end
            else
              match name_in_module st rns (var_ns_sym (fst k)) with
              | None => OVal (v_root r)                                  (* fallback: Var.find *)
              | Some an =>                                               (* `an.sn` *)
                  match aget (rns, an) (mods st) with
                  | Some (PMod m) =>
                      match aget (m, sn) (mods st) with
                      | Some pv => pv_obs pv
                      | None => OErr E_ATTR                              (* module has no attribute *)
                      end
                  | Some (PVal _) => OErr E_ATTR                         (* 'int' object has no attribute *)
                  | None => OErr E_OTHER
                  end
              end
        end
  end.

Definition read (st : state) (md : mode) (rq : readreq) : robs :=
  let '(RR rns loc spl) := rq in
  match resolve (locals_of loc) (sp st) rns spl with
  | RLocal => match loc with Some (_, v) => OVal v | None => OErr E_OTHER end
  | RVar k => read_var st md rns k
  | RBuiltin => OBuiltin
  | RPrivate => OErr E_PRIVATE
  | RUnresolved =>
      (* analyzer.py:3857 `assert munged not in vars(current_ns.module)` with
         munged = munge(name, allow_builtins=True), reached by bare symbols without '.' *)
      match spl with
      | Bare n => if negb (has_dot n) && ahas (rns, munge_ab n) (mods st) then OErr E_ASSERT else OErr E_UNRESOLVED
      | Qual _ _ => OErr E_UNRESOLVED
      end
  end.

(** ---- the executable guard of the partial theorems ----

    [step_safe st s]: the module global that step [s] stores does not coincide with the
    Python identifier under which another name of the same namespace, or the module of any
    namespace, is looked up.  In words: the munged identifiers of the names defined in one
    namespace are pairwise distinct, and distinct from the module aliases
    ([var_ns_sym]) of the namespaces, which are pairwise distinct as well. *)
Definition probes (x : str) : list str := [munge x; munge_ab x].

Definition step_safe (st : state) (s : step) : bool :=
  let cur := s_cur (sp st) in
  match s with
  | SDef n _ _ =>
      forallb (fun n' => str_eqb n n' || negb (str_eqb (munge n) (munge n'))) (interned_names (sp st) cur)
      && forallb (fun m => negb (mem_str (munge n) (probes (var_ns_sym m)))) (s_nss (sp st))
  | SRequire m _ | SRefer m _ =>
      forallb (fun n' => negb (str_eqb (var_ns_sym m) (munge n'))) (interned_names (sp st) cur)
      && forallb (fun m' => str_eqb m m' || negb (mem_str (var_ns_sym m) (probes (var_ns_sym m')))) (s_nss (sp st))
  | SInNs m =>
      mem_str m (s_nss (sp st))
      || forallb (fun rns => match name_in_module st rns (var_ns_sym m) with None => true | Some _ => false end)
                 (s_nss (sp st))
  | SAlter _ _ _ => true
  end.

Fixpoint no_collision (st : state) (h : list step) : bool :=
  match h with
  | [] => true
  | s :: r => step_safe st s && no_collision (fst (exec st s)) r
  end.

(** the two halves of the guard separately (defect tags of the correspondence run) *)
Definition def_hazard (st : state) (s : step) : bool :=
  match s with
  | SDef n _ _ =>
      negb (forallb (fun n' => str_eqb n n' || negb (str_eqb (munge n) (munge n')))
                    (interned_names (sp st) (s_cur (sp st))))
  | _ => false
  end.

Definition ns_hazard (st : state) (s : step) : bool := negb (step_safe st s) && negb (def_hazard st s).

(** privacy is stable: a redefinition keeps the :private flag of the Var *)
Definition priv_safe (st : sstate) (s : step) : bool :=
  match s with
  | SDef n fl _ =>
      match aget (s_cur st, n) (s_vars st) with
      | Some r => Bool.eqb (f_priv fl) (f_priv (v_flags r))
      | None => true
      end
  | _ => true
  end.

Fixpoint priv_stable (st : sstate) (h : list step) : bool :=
  match h with
  | [] => true
  | s :: r => priv_safe st s && priv_stable (fst (sexec st s)) r
  end.

Definition is_alter (s : step) : bool := match s with SAlter _ _ _ => true | _ => false end.
Definition no_alter (h : list step) : bool := forallb (fun s => negb (is_alter s)) h.
