(** C10 -- the theorems, stated over ALL histories from an initial state with no Vars. *)
From Coq Require Import List NArith Bool Lia.
Import ListNotations.
From Verif Require Import Common.ListX Gen.Tables C10.Munge C10.MungeProofs C10.Spec C10.Names C10.Proofs.
Local Open Scope N_scope.

Definition after (cur : str) (nss : list str) (h : list step) : state := run (minit cur nss) h.

Lemma sp_after cur nss h : sp (after cur nss h) = srun (init cur nss) h.
Proof. unfold after. rewrite sp_run. reflexivity. Qed.

Lemma wf_after cur nss h : wf (sp (after cur nss h)).
Proof. rewrite sp_after. apply wf_srun. apply wf_init. Qed.

(** ---- spellings agree: every spelling of an interned Var denotes that Var ---- *)
Theorem spellings_agree cur nss h m n :
  let st := sp (after cur nss h) in
  interned st (m, n) = true ->
  (* bare and self-qualified, in its own namespace *)
  (forall locals, mem_str n locals = false -> resolve locals st m (Bare n) = RVar (m, n)) /\
  (forall locals, resolve locals st m (Qual m n) = RVar (m, n)) /\
  (* fully qualified, from any other namespace, when public *)
  (forall locals rns, rns <> m -> is_private st (m, n) = false -> resolve locals st rns (Qual m n) = RVar (m, n)) /\
  (* through an alias, when public and the alias is not shadowed by a namespace of that name *)
  (forall locals rns a,
      aget (rns, a) (s_aliases st) = Some m -> is_private st (m, n) = false -> has_dot n = false ->
      (if str_eqb a rns then find st rns n else None) = None ->
      (if mem_str a (s_nss st) then find st a n else None) = None ->
      resolve locals st rns (Qual a n) = RVar (m, n)) /\
  (* bare, where it is referred and not shadowed by an own Var *)
  (forall locals rns,
      mem_str n locals = false -> interned st (rns, n) = false -> aget (rns, n) (s_refers st) = Some (m, n) ->
      resolve locals st rns (Bare n) = RVar (m, n)).
Proof.
  intros st I. pose proof (wf_after cur nss h) as W. fold st in W.
  repeat split.
  - intros. apply bare_own; assumption.
  - intros. apply qual_own; assumption.
  - intros. apply qual_other; assumption.
  - intros. eapply qual_alias; eassumption.
  - intros. apply bare_referred; assumption.
Qed.

(** ---- a symbol denotes a Var of the name written; two different bare names never denote
         the same Var ---- *)
Definition refnames (st : sstate) : Prop :=
  forall a n k', aget (a, n) (s_refers st) = Some k' -> snd k' = n.

Lemma add_refers_names st m names : forall rf,
  (forall a n k', aget (a, n) rf = Some k' -> snd k' = n) ->
  forall a n k', aget (a, n) (add_refers st m names rf) = Some k' -> snd k' = n.
Proof.
  unfold add_refers. induction names as [|x names IH]; intros rf H; simpl; [exact H|].
  apply IH. destruct (interned st (m, x) && negb (is_private st (m, x))); [|exact H].
  intros a n k'. rewrite ?aget_aset. destruct (key_eqb (a, n) (s_cur st, x)) eqn:E.
  - apply key_eqb_eq in E. inversion E. subst. intro X. inversion X. reflexivity.
  - apply H.
Qed.

Lemma refnames_srun h : forall st, refnames st -> refnames (srun st h).
Proof.
  unfold srun. induction h as [|s h IH]; intros st R; simpl; [exact R|].
  apply IH. destruct s as [n fl v|m|m a|m only|m n v]; simpl; try exact R.
  - destruct (mem_str m (s_nss st)); exact R.
  - destruct (mem_str m (s_nss st)); simpl; [|exact R].
    intros a n k' H. simpl in H. eapply add_refers_names; [exact R | exact H].
  - destruct (aget (m, n) (s_vars st)); exact R.
Qed.

Lemma resolve_name locals st rns spl k :
  refnames st -> resolve locals st rns spl = RVar k -> snd k = spelled_name spl.
Proof.
  intro R.
  assert (F : forall m n k0, find st m n = Some k0 -> snd k0 = n).
  { intros m n k0 H. destruct (find_some _ _ _ _ H) as [[-> _]|[_ X]]; [reflexivity | eapply R; eauto]. }
  destruct spl as [n|q n]; unfold resolve, spelled_name.
  - destruct (mem_str n locals); [intro X; discriminate X|].
    destruct (find st rns n) as [k0|] eqn:E.
    + intro H. inversion H. subst. eauto.
    + destruct (has_dot n); [intro X; discriminate X|].
      destruct (mem_str (munge_ab n) py_builtins); intro X; discriminate X.
  - destruct (if str_eqb q rns then find st rns n else None) as [k0|] eqn:F1.
    + intro H. inversion H. subst. destruct (str_eqb q rns); [|discriminate F1]. eauto.
    + destruct (if mem_str q (s_nss st) then find st q n else None) as [k0|] eqn:F2.
      * intro H. apply check_private_var in H as [-> _].
        destruct (mem_str q (s_nss st)); [|discriminate F2]. eauto.
      * destruct (has_dot n); [intro X; discriminate X|].
        destruct (aget (rns, q) (s_aliases st)) as [m|]; [|intro X; discriminate X].
        destruct (find st m n) as [k0|] eqn:F3; [|intro X; discriminate X].
        intro H. apply check_private_var in H as [-> _]. eauto.
Qed.

Theorem names_distinct cur nss h locals rns n1 n2 k :
  let st := sp (after cur nss h) in
  resolve locals st rns (Bare n1) = RVar k -> resolve locals st rns (Bare n2) = RVar k -> n1 = n2.
Proof.
  intros st H1 H2.
  assert (R : refnames st).
  { unfold st. rewrite sp_after. apply refnames_srun. intros a n k' H. discriminate H. }
  apply (resolve_name _ _ _ _ _ R) in H1. apply (resolve_name _ _ _ _ _ R) in H2. simpl in *. congruence.
Qed.

(** ---- privacy ---- *)
Theorem private_only_via_own_refer cur nss h locals rns spl k :
  let st := sp (after cur nss h) in
  resolve locals st rns spl = RVar k -> is_private st k = true -> fst k <> rns ->
  aget (rns, spelled_name spl) (s_refers st) = Some k.
Proof. intros st. apply private_only_via_refer. Qed.

Theorem private_unreachable_partial cur nss h locals rns spl k :
  let st := sp (after cur nss h) in
  priv_stable (init cur nss) h = true ->
  resolve locals st rns spl = RVar k -> is_private st k = true -> fst k = rns.
Proof.
  intros st P H Pk.
  destruct (str_eqb (fst k) rns) eqn:E; [apply str_eqb_eq; exact E|]. exfalso.
  apply str_eqb_neq in E.
  pose proof (private_only_via_refer _ _ _ _ _ H Pk E) as R.
  assert (RP : refers_public st).
  { unfold st. rewrite sp_after. apply refers_public_srun; [apply wf_init | | exact P].
    intros a b X. discriminate X. }
  rewrite (RP _ _ R) in Pk. discriminate.
Qed.

(** ---- reading ---- *)
(** With var indirection, and for ^:dynamic / ^:redef Vars in either mode, a read yields the
    value most recently given to the denoted Var by def or root mutation: NO condition on the
    history (munge plays no role). *)
Theorem read_root cur nss h md rns loc spl k :
  let st := after cur nss h in
  resolve (locals_of loc) (sp st) rns spl = RVar k ->
  exists r, aget k (s_vars (sp st)) = Some r /\
            last_given cur h k None = Some (v_root r) /\
            (uses_root md (v_flags r) = true -> read st md (RR rns loc spl) = OVal (v_root r)).
Proof.
  intros st H. destruct (resolve_exists _ _ _ _ _ (wf_after cur nss h) H) as [r A].
  exists r. split; [exact A|]. split.
  - unfold st in A. rewrite sp_after in A. apply (last_given_run _ _ _ _ _ A).
  - intro U. unfold read. fold st. rewrite H. apply read_var_root; assumption.
Qed.

Theorem read_indirect cur nss h rns loc spl k :
  let st := after cur nss h in
  resolve (locals_of loc) (sp st) rns spl = RVar k ->
  exists v, last_given cur h k None = Some v /\ read st Indirect (RR rns loc spl) = OVal v.
Proof.
  intros st H. destruct (read_root cur nss h Indirect rns loc spl k H) as [r [_ [G R]]].
  exists (v_root r). split; [exact G | apply R; reflexivity].
Qed.

(** Under the guard, in either mode: a read of a symbol denoting Var k yields the value last
    given to k -- by def, and, when the Var is dynamic/redef or indirection is on, also by root
    mutation; a directly linked plain Var yields the value of its last def, or its root when
    no link could be made. *)
Theorem read_after_def_partial cur nss h md rns loc spl k :
  let st := after cur nss h in
  no_collision (minit cur nss) h = true ->
  resolve (locals_of loc) (sp st) rns spl = RVar k ->
  exists r, aget k (s_vars (sp st)) = Some r /\
            last_def cur h k None = Some (v_lastdef r) /\
            last_given cur h k None = Some (v_root r) /\
            (if uses_root md (v_flags r)
             then read st md (RR rns loc spl) = OVal (v_root r)
             else read st md (RR rns loc spl) = OVal (v_lastdef r) \/
                  read st md (RR rns loc spl) = OVal (v_root r)).
Proof.
  intros st N H. pose proof (wf_after cur nss h) as W. fold st in W.
  destruct (resolve_exists _ _ _ _ _ W H) as [r A].
  exists r. split; [exact A|].
  assert (A' := A). unfold st in A'. rewrite sp_after in A'.
  destruct (last_given_run _ _ _ _ _ A') as [G D].
  split; [exact D|]. split; [exact G|].
  unfold read. rewrite H.
  destruct (uses_root md (v_flags r)) eqn:U.
  - apply read_var_root; assumption.
  - apply read_var_direct; try assumption.
    unfold st, after. apply link_run; [apply wf_init | apply link_init | exact N].
Qed.

(** hence, when roots are changed only through def, both linking modes read the same *)
Theorem modes_agree_partial cur nss h rq :
  let st := after cur nss h in
  no_collision (minit cur nss) h = true -> no_alter h = true ->
  read st Direct rq = read st Indirect rq.
Proof.
  intros st N NA. destruct rq as [rns loc spl]. unfold read.
  destruct (resolve (locals_of loc) (sp st) rns spl) as [|k| | |] eqn:H; try reflexivity.
  destruct (read_after_def_partial cur nss h Direct rns loc spl k N H) as [r [A [_ [_ R]]]].
  fold st in A, R. unfold read in R. rewrite H in R.
  assert (E : v_root r = v_lastdef r).
  { assert (RD : roots_are_defs (sp st)).
    { unfold st. rewrite sp_after. apply roots_are_defs_srun; [|exact NA]. intros k0 r0 X. discriminate X. }
    exact (RD _ _ A). }
  rewrite (read_var_root st Indirect rns k r A eq_refl).
  destruct (uses_root Direct (v_flags r)); [exact R|].
  destruct R as [R|R]; rewrite R; [rewrite E|]; reflexivity.
Qed.

Theorem read_is_last_def_partial cur nss h md rns loc spl k :
  let st := after cur nss h in
  no_collision (minit cur nss) h = true -> no_alter h = true ->
  resolve (locals_of loc) (sp st) rns spl = RVar k ->
  exists v, last_def cur h k None = Some v /\ read st md (RR rns loc spl) = OVal v.
Proof.
  intros st N NA H.
  destruct (read_after_def_partial cur nss h md rns loc spl k N H) as [r [A [D [_ R]]]].
  fold st in A, R. exists (v_lastdef r). split; [exact D|].
  assert (E : v_root r = v_lastdef r).
  { assert (RD : roots_are_defs (sp st)).
    { unfold st. rewrite sp_after. apply roots_are_defs_srun; [|exact NA]. intros k0 r0 X. discriminate X. }
    exact (RD _ _ A). }
  destruct (uses_root md (v_flags r)); [rewrite <- E; exact R|].
  destruct R as [R|R]; rewrite R; [|rewrite E]; reflexivity.
Qed.

Lemma resolve_not_local st rns spl : resolve [] st rns spl <> RLocal.
Proof.
  destruct spl as [n|q n]; unfold resolve.
  - change (mem_str n []) with false. cbv iota.
    destruct (find st rns n); [discriminate|]. destruct (has_dot n); [discriminate|].
    destruct (mem_str (munge_ab n) py_builtins); discriminate.
  - destruct (if str_eqb q rns then find st rns n else None); [discriminate|].
    destruct (if mem_str q (s_nss st) then find st q n else None) as [k0|].
    + unfold check_private. destruct (is_private st k0); discriminate.
    + destruct (has_dot n); [discriminate|].
      destruct (aget (rns, q) (s_aliases st)) as [m|]; [|discriminate].
      destruct (find st m n) as [k0|]; [|discriminate].
      unfold check_private. destruct (is_private st k0); discriminate.
Qed.

(** the model's reads always satisfy the specification's acceptance predicate under the
    guards (this is what the correspondence run evaluates per case) *)
Theorem model_meets_spec_partial cur nss h md rq :
  let st := after cur nss h in
  no_collision (minit cur nss) h = true -> priv_stable (init cur nss) h = true ->
  read_ok (sp st) md rq (read st md rq) = true.
Proof.
  intros st N P. destruct rq as [rns loc spl]. unfold read_ok, read.
  destruct (resolve (locals_of loc) (sp st) rns spl) as [|k| | |] eqn:H.
  - destruct loc as [[x v]|].
    + simpl. apply N.eqb_refl.
    + exfalso. exact (resolve_not_local _ _ _ H).
  - destruct (is_private (sp st) k && negb (str_eqb (fst k) rns)) eqn:PV.
    + exfalso. apply andb_true_iff in PV as [P1 P2]. apply negb_true_iff in P2. apply str_eqb_neq in P2.
      apply P2. eapply (private_unreachable_partial cur nss h); eauto.
    + destruct (read_after_def_partial cur nss h md rns loc spl k N H) as [r [A [_ [_ R]]]].
      fold st in A, R. unfold read in R. rewrite H in R. rewrite A.
      destruct (uses_root md (v_flags r)).
      * rewrite R. simpl. rewrite N.eqb_refl. reflexivity.
      * destruct R as [R|R]; rewrite R; simpl; rewrite N.eqb_refl; simpl; [apply orb_true_r | reflexivity].
  - reflexivity.
  - reflexivity.
  - destruct spl as [n|q n]; [|reflexivity].
    destruct (negb (has_dot n) && ahas (rns, munge_ab n) (mods st)); reflexivity.
Qed.

(** ---- the guard is not vacuous: it holds for EVERY history of defs and alter-var-roots of
         plain names (no '_', '-', '.') in one namespace, provided no defined name munges to
         the module alias of an existing namespace ---- *)
Definition def_only (s : step) : bool :=
  match s with SDef n _ _ => plain_name n | SAlter _ _ _ => true | _ => false end.
Definition avoids_aliases (nss : list str) (s : step) : bool :=
  match s with
  | SDef n _ _ => forallb (fun m => negb (mem_str (munge n) (probes (var_ns_sym m)))) nss
  | _ => true
  end.

Lemma interned_names_aset st k r c :
  interned_names (mkS (s_cur st) (s_nss st) (aset k r (s_vars st)) (s_refers st) (s_aliases st)) c
  = if str_eqb (fst k) c then snd k :: interned_names st c else interned_names st c.
Proof. unfold interned_names, aset. simpl. destruct (str_eqb (fst k) c); reflexivity. Qed.

Lemma plain_defs_no_collision h : forall st,
  forallb def_only h = true ->
  forallb (avoids_aliases (s_nss (sp st))) h = true ->
  forallb plain_name (interned_names (sp st) (s_cur (sp st))) = true ->
  no_collision st h = true.
Proof.
  induction h as [|s h IH]; intros st D A P; [reflexivity|].
  simpl in D, A. apply andb_true_iff in D as [D1 D2]. apply andb_true_iff in A as [A1 A2].
  destruct s as [n fl v|m|m a|m only|m n v]; simpl in D1; try discriminate.
  - (* def *)
    cbn [no_collision]. apply andb_true_iff. split.
    + cbn [step_safe]. apply andb_true_iff. split; [|exact A1].
      apply forallb_forall. intros n' I.
      pose proof (forallb_In _ _ _ P I) as Pn'.
      destruct (str_eqb (munge n) (munge n')) eqn:E.
      * apply str_eqb_eq in E. apply (munge_inj_plain false false) in E; try assumption.
        subst. rewrite str_eqb_refl. reflexivity.
      * apply orb_true_r.
    + apply IH; [exact D2 | | ].
      * rewrite sp_exec. exact A2.
      * rewrite sp_exec. cbn [sexec fst s_cur]. rewrite interned_names_aset. cbn [fst snd].
        rewrite str_eqb_refl. cbn [forallb]. rewrite D1. exact P.
  - (* alter-var-root *)
    cbn [no_collision step_safe]. cbn [andb]. apply IH; [exact D2 | | ].
    + rewrite sp_exec. cbn [sexec]. destruct (aget (m, n) (s_vars (sp st))); exact A2.
    + rewrite sp_exec. cbn [sexec]. destruct (aget (m, n) (s_vars (sp st))) as [r|] eqn:E; [|exact P].
      cbn [fst s_cur]. rewrite interned_names_aset. cbn [fst snd].
      destruct (str_eqb m (s_cur (sp st))) eqn:M; [|exact P].
      apply str_eqb_eq in M. subst m. cbn [forallb]. rewrite P.
      rewrite (forallb_In _ _ _ P (aget_interned_names _ _ _ _ E)). reflexivity.
Qed.

Corollary plain_defs_guard cur h :
  forallb def_only h = true -> forallb (avoids_aliases [cur]) h = true ->
  no_collision (minit cur [cur]) h = true.
Proof.
  intros D A. apply plain_defs_no_collision; [exact D | | reflexivity].
  simpl. unfold init. simpl. rewrite mem_str_cons, str_eqb_refl. exact A.
Qed.
