(** C10 -- facts about [munge]: the obligations on the regenerated table, and character-level
    injectivity on names that contain neither '_' nor '-' (nor '.'). *)
From Coq Require Import List NArith Bool Lia.
Import ListNotations.
From Verif Require Import Common.ListX Gen.Tables C10.Munge.
Local Open Scope N_scope.

(** ---- reflective table obligations (a mutated table breaks one of these) ---- *)
Lemma table_values_ok_true : table_values_ok = true.
Proof. vm_compute. reflexivity. Qed.
Lemma table_keys_distinct_true : table_keys_distinct = true.
Proof. vm_compute. reflexivity. Qed.
Lemma table_values_distinct_true : table_values_distinct = true.
Proof. vm_compute. reflexivity. Qed.
Lemma table_keys_ok_true : table_keys_ok = true.
Proof. vm_compute. reflexivity. Qed.
Lemma table_reserved_ok_true : table_reserved_ok = true.
Proof. vm_compute. reflexivity. Qed.

(** ---- generic consequences ---- *)
Lemma mem_str_In s l : mem_str s l = true <-> In s l.
Proof.
  unfold mem_str. rewrite existsb_exists. split.
  - intros [x [Hi He]]. apply str_eqb_eq in He. subst. exact Hi.
  - intro H. exists s. split; [exact H | apply str_eqb_refl].
Qed.

Lemma tr_lookup_In t c v : tr_lookup t c = Some v -> In (c, v) t.
Proof.
  induction t as [|[k w] r IH]; simpl; [discriminate|].
  destruct (N.eqb_spec c k).
  - intro H. inversion H. subst. left. reflexivity.
  - intro H. right. apply IH. exact H.
Qed.

Lemma In_tr_lookup t c v : In (c, v) t -> tr_lookup t c <> None.
Proof.
  induction t as [|[k w] r IH]; simpl; [contradiction|].
  intros [H|H]; destruct (N.eqb_spec c k); try discriminate; auto.
  inversion H. congruence.
Qed.

Lemma strip_suffix2_spec s u : strip_suffix2 s = Some u -> s = u ++ [US; US].
Proof.
  revert u. induction s as [|c r IH]; intros u H; [discriminate|].
  destruct r as [|b r'].
  - simpl in H. discriminate.
  - destruct r' as [|d r''].
    + simpl in H.
      destruct (N.eqb_spec c US); destruct (N.eqb_spec b US); simpl in H; try discriminate.
      inversion H. subst. reflexivity.
    + change (strip_suffix2 (c :: b :: d :: r'')) with
        (match strip_suffix2 (b :: d :: r'') with Some u => Some (c :: u) | None => None end) in H.
      destruct (strip_suffix2 (b :: d :: r'')) as [u'|] eqn:E; [|discriminate].
      inversion H. subst. simpl. f_equal. apply IH. reflexivity.
Qed.

Lemma value_inner_spec v u :
  value_inner v = Some u -> v = US :: US :: u ++ [US; US] /\ forallb is_upper u = true /\ u <> [].
Proof.
  unfold value_inner. destruct v as [|a [|b r]]; try discriminate.
  destruct (N.eqb_spec a US); destruct (N.eqb_spec b US); simpl; try discriminate.
  destruct (strip_suffix2 r) as [w|] eqn:E; [|discriminate].
  destruct (forallb is_upper w) eqn:F; simpl; [|discriminate].
  destruct w as [|x w']; simpl; [discriminate|].
  intro H. inversion H. subst. apply strip_suffix2_spec in E. subst.
  split; [reflexivity|]. split; [exact F | discriminate].
Qed.

(** what a table entry looks like *)
Lemma lookup_shape c v :
  tr_lookup munge_replacements c = Some v ->
  (c = DASH /\ v = [US]) \/
  (c <> DASH /\ exists u, v = US :: US :: u ++ [US; US] /\ forallb is_upper u = true /\ u <> []).
Proof.
  intro H. apply tr_lookup_In in H.
  pose proof table_values_ok_true as T. unfold table_values_ok in T.
  rewrite forallb_forall in T. specialize (T _ H). simpl in T.
  destruct (N.eqb_spec c DASH).
  - left. apply str_eqb_eq in T. auto.
  - right. split; [assumption|].
    destruct (value_inner v) as [u|] eqn:E; [|discriminate].
    exists u. apply value_inner_spec. exact E.
Qed.

Lemma distinctb_fst_inj {A} (t : list (N * A)) c v w :
  distinctb N.eqb (map fst t) = true -> In (c, v) t -> In (c, w) t -> v = w.
Proof.
  induction t as [|[k x] r IH]; simpl; [contradiction|].
  intros D [H1|H1] [H2|H2].
  - congruence.
  - apply andb_true_iff in D as [D _]. inversion H1; subst.
    apply negb_true_iff in D. exfalso.
    assert (existsb (N.eqb c) (map fst r) = true).
    { apply existsb_exists. exists c. split; [|apply N.eqb_refl].
      change c with (fst (c, w)). apply in_map. exact H2. }
    congruence.
  - apply andb_true_iff in D as [D _]. inversion H2; subst.
    apply negb_true_iff in D. exfalso.
    assert (existsb (N.eqb c) (map fst r) = true).
    { apply existsb_exists. exists c. split; [|apply N.eqb_refl].
      change c with (fst (c, v)). apply in_map. exact H1. }
    congruence.
  - apply andb_true_iff in D as [_ D]. auto.
Qed.

Lemma distinctb_snd_inj (t : list (N * str)) c d v :
  distinctb str_eqb (map snd t) = true -> In (c, v) t -> In (d, v) t ->
  distinctb N.eqb (map fst t) = true -> c = d.
Proof.
  induction t as [|[k x] r IH]; simpl; [contradiction|].
  intros D [H1|H1] [H2|H2] K.
  - congruence.
  - apply andb_true_iff in D as [D _]. inversion H1; subst.
    apply negb_true_iff in D. exfalso.
    assert (existsb (str_eqb v) (map snd r) = true).
    { apply existsb_exists. exists v. split; [|apply str_eqb_refl].
      change v with (snd (d, v)). apply in_map. exact H2. }
    congruence.
  - apply andb_true_iff in D as [D _]. inversion H2; subst.
    apply negb_true_iff in D. exfalso.
    assert (existsb (str_eqb v) (map snd r) = true).
    { apply existsb_exists. exists v. split; [|apply str_eqb_refl].
      change v with (snd (c, v)). apply in_map. exact H1. }
    congruence.
  - apply andb_true_iff in D as [_ D]. apply andb_true_iff in K as [_ K]. auto.
Qed.

(** distinct keys have distinct replacement strings *)
Lemma lookup_value_inj c d v :
  tr_lookup munge_replacements c = Some v -> tr_lookup munge_replacements d = Some v -> c = d.
Proof.
  intros H1 H2. apply tr_lookup_In in H1. apply tr_lookup_In in H2.
  eapply distinctb_snd_inj; eauto using table_values_distinct_true, table_keys_distinct_true.
Qed.

Lemma us_not_key : tr_lookup munge_replacements US = None.
Proof.
  destruct (tr_lookup munge_replacements US) as [v|] eqn:E; [|reflexivity].
  apply tr_lookup_In in E.
  pose proof table_keys_ok_true as T. unfold table_keys_ok in T.
  apply andb_true_iff in T as [T _]. rewrite forallb_forall in T.
  assert (In US (map fst munge_replacements)) as I by (change US with (fst (US, v)); apply in_map; exact E).
  specialize (T _ I). rewrite N.eqb_refl in T. discriminate.
Qed.

Lemma dot_not_key : tr_lookup munge_replacements DOT = None.
Proof.
  destruct (tr_lookup munge_replacements DOT) as [v|] eqn:E; [|reflexivity].
  apply tr_lookup_In in E.
  pose proof table_keys_ok_true as T. unfold table_keys_ok in T.
  apply andb_true_iff in T as [T _]. rewrite forallb_forall in T.
  assert (In DOT (map fst munge_replacements)) as I by (change DOT with (fst (DOT, v)); apply in_map; exact E).
  specialize (T _ I). rewrite N.eqb_refl in T. rewrite andb_false_r in T. discriminate.
Qed.

(** the source of finding F-10a is in the table: '-' is replaced by '_' *)
Lemma dash_is_key : tr_lookup munge_replacements DASH = Some [US].
Proof.
  pose proof table_keys_ok_true as T. unfold table_keys_ok in T.
  apply andb_true_iff in T as [_ T]. apply existsb_exists in T as [k [I E]].
  apply N.eqb_eq in E. subst k. apply in_map_iff in I as [[k v] [E I]]. simpl in E. subst k.
  destruct (tr_lookup munge_replacements DASH) as [w|] eqn:L.
  - destruct (lookup_shape _ _ L) as [[_ ->]|[N _]]; [reflexivity | congruence].
  - exfalso. eapply In_tr_lookup; eauto.
Qed.

(** ---- translate ---- *)
Lemma translate_cons c s : translate (c :: s) = tr_char munge_replacements c ++ translate s.
Proof. reflexivity. Qed.

Lemma translate_app a b : translate (a ++ b) = translate a ++ translate b.
Proof. unfold translate, translate_with. apply flat_map_app. Qed.

Definition nokey (c : N) : bool :=
  match tr_lookup munge_replacements c with None => true | Some _ => false end.

Lemma translate_id s : forallb nokey s = true -> translate s = s.
Proof.
  induction s as [|c s IH]; [reflexivity|].
  intro H. simpl in H. apply andb_true_iff in H as [H1 H2]. rewrite translate_cons, IH by assumption.
  unfold tr_char, nokey in *. destruct (tr_lookup munge_replacements c); [discriminate|reflexivity].
Qed.

(** names over characters the table does not mention are munged to themselves or get '_' *)
Lemma munge_simple f s : forallb nokey s = true ->
  munge_gen f s = s \/ munge_gen f s = s ++ [US] \/ (s = DOTDOT /\ munge_gen f s = DOTDOT_REPL).
Proof.
  intro H. unfold munge_gen. rewrite translate_id by assumption. unfold finish.
  destruct (str_eqb s DOTDOT) eqn:E.
  - right. right. apply str_eqb_eq in E. auto.
  - destruct (mem_str s py_keywords); [auto|].
    destruct (negb f && mem_str s py_builtins); auto.
Qed.

(** ---- injectivity ---- *)
Definition clean_char (c : N) : bool := negb (N.eqb c US) && negb (N.eqb c DASH).
Definition clean (s : str) : bool := forallb clean_char s.
(** a "plain" name: no '_', no '-', no '.' *)
Definition plain_name (s : str) : bool := forallb (fun c => clean_char c && negb (N.eqb c DOT)) s.

Definition nous (u : str) : bool := forallb (fun c => negb (N.eqb c US)) u.

Lemma upper_nous u : forallb is_upper u = true -> nous u = true.
Proof.
  unfold nous. intro H. rewrite forallb_forall in *. intros c I. specialize (H _ I).
  unfold is_upper in H. apply andb_true_iff in H as [_ H]. apply N.leb_le in H.
  apply negb_true_iff. apply N.eqb_neq. unfold US. lia.
Qed.

(** the first '_' delimits *)
Lemma prefix_code u1 u2 r1 r2 :
  nous u1 = true -> nous u2 = true -> u1 ++ US :: r1 = u2 ++ US :: r2 -> u1 = u2 /\ r1 = r2.
Proof.
  revert u2. induction u1 as [|a u1 IH]; intros [|b u2] N1 N2 E; simpl in *.
  - inversion E. auto.
  - inversion E. subst b. apply andb_true_iff in N2 as [N2 _]. rewrite N.eqb_refl in N2. discriminate.
  - inversion E. subst a. apply andb_true_iff in N1 as [N1 _]. rewrite N.eqb_refl in N1. discriminate.
  - inversion E. subst b. apply andb_true_iff in N1 as [_ N1]. apply andb_true_iff in N2 as [_ N2].
    destruct (IH u2 N1 N2 H1) as [-> ->]. auto.
Qed.

(** the image of one clean character *)
Lemma tr_char_clean c : clean_char c = true ->
  (tr_lookup munge_replacements c = None /\ tr_char munge_replacements c = [c] /\ c <> US) \/
  (exists u, tr_lookup munge_replacements c = Some (US :: US :: u ++ [US; US]) /\
             tr_char munge_replacements c = US :: US :: u ++ [US; US] /\ nous u = true /\ u <> []).
Proof.
  intro C. unfold clean_char in C. apply andb_true_iff in C as [C1 C2].
  apply negb_true_iff in C1, C2. apply N.eqb_neq in C1, C2.
  unfold tr_char. destruct (tr_lookup munge_replacements c) as [v|] eqn:L.
  - right. destruct (lookup_shape _ _ L) as [[D _]|[_ [u [-> [U NE]]]]]; [congruence|].
    exists u. auto using upper_nous.
  - left. auto.
Qed.

Lemma app_assoc3 (u : str) r : (US :: US :: u ++ [US; US]) ++ r = US :: US :: (u ++ US :: US :: r).
Proof. simpl. rewrite <- app_assoc. reflexivity. Qed.

Lemma translate_inj a : forall b, clean a = true -> clean b = true -> translate a = translate b -> a = b.
Proof.
  induction a as [|c a IH]; intros [|d b] Ca Cb E.
  - reflexivity.
  - exfalso. simpl in Cb. apply andb_true_iff in Cb as [Cd _]. rewrite translate_cons in E.
    destruct (tr_char_clean d Cd) as [[_ [T _]]|[u [_ [T _]]]]; rewrite T in E; simpl in E; discriminate.
  - exfalso. simpl in Ca. apply andb_true_iff in Ca as [Cc _]. rewrite translate_cons in E.
    destruct (tr_char_clean c Cc) as [[_ [T _]]|[u [_ [T _]]]]; rewrite T in E; simpl in E; discriminate.
  - simpl in Ca, Cb. apply andb_true_iff in Ca as [Cc Ca]. apply andb_true_iff in Cb as [Cd Cb].
    rewrite !translate_cons in E.
    destruct (tr_char_clean c Cc) as [[Lc [Tc Nc]]|[u [Lc [Tc [Uc NEc]]]]];
    destruct (tr_char_clean d Cd) as [[Ld [Td Nd]]|[w [Ld [Td [Ud NEd]]]]];
    rewrite Tc, Td in E.
    + simpl in E. inversion E. f_equal. apply IH; assumption.
    + simpl in E. inversion E. congruence.
    + simpl in E. inversion E. congruence.
    + rewrite !app_assoc3 in E. inversion E as [E'].
      destruct (prefix_code _ _ _ _ Uc Ud E') as [-> R]. inversion R as [R'].
      assert (c = d) by (eapply lookup_value_inj; eauto). subst d.
      f_equal. apply IH; assumption.
Qed.

(** a translated clean string is never another one followed by '_' *)
Lemma translate_no_suffix a : forall b, clean a = true -> clean b = true -> translate a ++ [US] <> translate b.
Proof.
  induction a as [|c a IH]; intros [|d b] Ca Cb E.
  - discriminate.
  - simpl in Cb. apply andb_true_iff in Cb as [Cd _]. rewrite translate_cons in E.
    destruct (tr_char_clean d Cd) as [[_ [Td Nd]]|[u [_ [Td _]]]]; rewrite Td in E; simpl in E.
    + inversion E. congruence.
    + inversion E.
  - simpl in Ca. apply andb_true_iff in Ca as [Cc _]. rewrite translate_cons in E.
    destruct (tr_char_clean c Cc) as [[_ [T _]]|[u [_ [T _]]]]; rewrite T in E; simpl in E; discriminate.
  - simpl in Ca, Cb. apply andb_true_iff in Ca as [Cc Ca]. apply andb_true_iff in Cb as [Cd Cb].
    rewrite !translate_cons in E.
    destruct (tr_char_clean c Cc) as [[Lc [Tc Nc]]|[u [Lc [Tc [Uc NEc]]]]];
    destruct (tr_char_clean d Cd) as [[Ld [Td Nd]]|[w [Ld [Td [Ud NEd]]]]];
    rewrite Tc, Td in E.
    + simpl in E. inversion E. eapply IH; eauto.
    + simpl in E. inversion E. congruence.
    + simpl in E. inversion E. congruence.
    + rewrite <- app_assoc in E. rewrite !app_assoc3 in E. inversion E as [E'].
      destruct (prefix_code _ _ _ _ Uc Ud E') as [_ R]. inversion R as [R']. eapply IH; eauto.
Qed.

Lemma plain_clean s : plain_name s = true -> clean s = true.
Proof.
  unfold plain_name, clean. intro H. rewrite forallb_forall in *. intros c I.
  specialize (H _ I). apply andb_true_iff in H as [H _]. exact H.
Qed.

Lemma no_dot_in_value u : forallb is_upper u = true -> existsb (N.eqb DOT) (US :: US :: u ++ [US; US]) = false.
Proof.
  intro U. apply not_true_is_false. intro Ex. apply existsb_exists in Ex as [x [I Ex]].
  apply N.eqb_eq in Ex. subst x.
  destruct I as [I|[I|I]]; try discriminate.
  apply in_app_or in I as [I|[I|[I|[]]]]; try discriminate.
  rewrite forallb_forall in U. specialize (U _ I). discriminate.
Qed.

Lemma translate_no_dot s : plain_name s = true -> existsb (N.eqb DOT) (translate s) = false.
Proof.
  induction s as [|c s IH]; [reflexivity|].
  intro H. simpl in H. apply andb_true_iff in H as [Hc Hs]. apply andb_true_iff in Hc as [Cc Nd].
  rewrite translate_cons, existsb_app, IH by assumption. rewrite orb_false_r.
  apply negb_true_iff in Nd.
  destruct (tr_char_clean c Cc) as [[_ [T _]]|[u [L [T _]]]]; rewrite T.
  - cbn [existsb]. rewrite orb_false_r. rewrite N.eqb_sym. exact Nd.
  - destruct (lookup_shape _ _ L) as [[_ X]|[_ [u' [X [U _]]]]]; [destruct u; discriminate|].
    assert (u' = u).
    { inversion X as [X']. apply app_inv_tail in X'. auto. }
    subst u'. apply no_dot_in_value. exact U.
Qed.

Lemma finish_plain f s : plain_name s = true ->
  finish f (translate s) = translate s \/ finish f (translate s) = translate s ++ [US].
Proof.
  intro P. unfold finish.
  destruct (str_eqb (translate s) DOTDOT) eqn:E.
  - apply str_eqb_eq in E. pose proof (translate_no_dot s P) as D. rewrite E in D. discriminate.
  - destruct (mem_str (translate s) py_keywords); [auto|].
    destruct (negb f && mem_str (translate s) py_builtins); auto.
Qed.

(** [munge] (with or without allow_builtins, in any combination) is injective on plain names *)
Lemma munge_inj_plain f1 f2 a b :
  plain_name a = true -> plain_name b = true -> munge_gen f1 a = munge_gen f2 b -> a = b.
Proof.
  intros Pa Pb E. unfold munge_gen in E.
  pose proof (plain_clean _ Pa) as Ca. pose proof (plain_clean _ Pb) as Cb.
  destruct (finish_plain f1 a Pa) as [Ea|Ea]; destruct (finish_plain f2 b Pb) as [Eb|Eb];
    rewrite Ea, Eb in E.
  - apply translate_inj; assumption.
  - exfalso. symmetry in E. eapply translate_no_suffix; [exact Cb | exact Ca | exact E].
  - exfalso. eapply translate_no_suffix; [exact Ca | exact Cb | exact E].
  - apply app_inv_tail in E. apply translate_inj; assumption.
Qed.

(** ---- the collisions (all consequences of '-' |-> '_' and of the '_' suffix) ---- *)
Definition s_a_dash_b : str := [97; 45; 98].           (* a-b *)
Definition s_a_us_b : str := [97; 95; 98].             (* a_b *)
Definition s_xq : str := [120; 63].                    (* x? *)
Definition s_x_Q : str := [120; 95; 95; 81; 95; 95].   (* x__Q__ *)
Definition s_plus : str := [43].                       (* + *)
Definition s_dd_PLUS : str := [45; 45; 80; 76; 85; 83; 45; 45].   (* --PLUS-- *)
Definition s_print : str := [112; 114; 105; 110; 116]. (* print *)
Definition s_print_us : str := [112; 114; 105; 110; 116; 95].     (* print_ *)
Definition s_class : str := [99; 108; 97; 115; 115].   (* class *)
Definition s_class_us : str := [99; 108; 97; 115; 115; 95].       (* class_ *)

Lemma munge_collisions :
  munge s_a_dash_b = munge s_a_us_b /\ munge s_xq = munge s_x_Q /\ munge s_plus = munge s_dd_PLUS
  /\ munge s_print = munge s_print_us /\ munge s_class = munge s_class_us.
Proof. vm_compute. repeat split. Qed.

(** non-vacuity of the injectivity lemma: real names are plain *)
Example plain_examples :
  plain_name s_xq = true /\ plain_name s_plus = true /\ plain_name s_print = true /\ plain_name s_class = true
  /\ plain_name s_a_dash_b = false /\ plain_name s_a_us_b = false.
Proof. vm_compute. repeat split. Qed.
