(** C20 specification: what the property prescribes, written with Coq's own rational and
    integer arithmetic ([Q], [Z.quot], [Qfloor]) and without reference to the code.
    Only the vocabulary (value and operation names) is shared with the model. *)
From Coq Require Import List Bool ZArith NArith QArith Qreduction Qround Qabs String.
Import ListNotations.
From Verif Require Import Common.ListX C20.Model.

(** the one representation of a rational number basilisp may return: an int when the
    number is integral, otherwise the fraction in lowest terms *)
Definition canon (q : Q) : pv :=
  let r := Qred q in
  if Pos.eqb (Qden r) 1 then PInt (Qnum r) else PFrac r.

(** round towards zero / towards minus infinity *)
Definition Qtrunc (q : Q) : Z := Z.quot (Qnum q) (Zpos (Qden q)).

(** + - * / : exact rational arithmetic; division by zero is an error *)
Definition ref_arith (o : aop) (x y : Q) : res :=
  match o with
  | OAdd => Val (canon (x + y))
  | OSub => Val (canon (x - y))
  | OMul => Val (canon (x * y))
  | ODiv => if Qeq_bool y 0 then Exc EZeroDiv else Val (canon (x / y))
  end.

(** quot truncates the exact quotient; rem and mod are what is left over after taking the
    truncated / floored quotient times the divisor *)
Definition ref_quot (x y : Q) : Z := Qtrunc (x / y).
Definition ref_rem (x y : Q) : Q := x - y * inject_Z (Qtrunc (x / y)).
Definition ref_mod (x y : Q) : Q := x - y * inject_Z (Qfloor (x / y)).

Definition ref_divop (o : dop) (x y : Q) : res :=
  if Qeq_bool y 0 then Exc EZeroDiv
  else match o with
       | OQuot => Val (PInt (ref_quot x y))
       | ORem => Val (canon (ref_rem x y))
       | OMod => Val (canon (ref_mod x y))
       end.

Definition ref_unop (o : uop) (x : Q) : res :=
  match o with
  | UInc | UIncq => Val (canon (x + 1))
  | UDec | UDecq => Val (canon (x - 1))
  | UNeg => Val (canon (- x))
  | UAbs => Val (canon (Qabs x))
  | UInv => if Qeq_bool x 0 then Exc EZeroDiv else Val (canon (/ x))
  | UZerop => Val (PBool (Qeq_bool x 0))
  end.

Definition ref_cmp (o : cop) (x y : Q) : res :=
  Val (PBool match o with
             | CLt => negb (Qle_bool y x)
             | CLe => Qle_bool x y
             | CGt => negb (Qle_bool x y)
             | CGe => Qle_bool y x
             | CEq => Qeq_bool x y
             end).

(** * Result types of mixed operations

    exact (int or ratio, decided by the value) < decimal < float: the result of every
    binary arithmetic operation has the larger of the operand types.  The table is
    symmetric by construction. *)
Inductive kind := KExact | KDec | KFlt | KBool.

Definition kind_of (v : pv) : option kind :=
  match v with
  | PInt _ | PFrac _ | PIntU => Some KExact
  | PDec => Some KDec
  | PFlt => Some KFlt
  | PBool _ => Some KBool
  end.

Definition kind_eqb (a b : kind) : bool :=
  match a, b with
  | KExact, KExact | KDec, KDec | KFlt, KFlt | KBool, KBool => true
  | _, _ => false
  end.

Definition join (a b : kind) : kind :=
  match a, b with
  | KFlt, _ | _, KFlt => KFlt
  | KDec, _ | _, KDec => KDec
  | _, _ => KExact
  end.

(** * The documented meaning of the functions of Python's [operator] module

    (docs.python.org, module operator: "operator.add(a, b): Return a + b" ...).  Operator
    codes as in Gen/Tables.v; order 0 means [a op b]. *)
Definition operator_doc : list (str * (N * N)) := [
  (s "add", (0, 0)); (s "sub", (1, 0)); (s "mul", (2, 0)); (s "truediv", (3, 0));
  (s "floordiv", (4, 0)); (s "mod", (5, 0)); (s "pow", (6, 0)); (s "lshift", (7, 0));
  (s "rshift", (8, 0)); (s "or_", (9, 0)); (s "xor", (10, 0)); (s "and_", (11, 0));
  (s "matmul", (12, 0)); (s "lt", (13, 0)); (s "le", (14, 0)); (s "eq", (15, 0));
  (s "ne", (16, 0)); (s "gt", (17, 0)); (s "ge", (18, 0))
]%N.

(** calling the function object [operator.<name>] (the path taken through [apply]) *)
Definition operator_call (name : str) (a b : pv) : res :=
  match lookup_op name operator_doc with
  | Some (astop, 0%N) => py_native astop a b
  | Some (astop, _) => py_native astop b a
  | None => Exc EOther
  end.

Definition pair_eqb (a b : N * N) : bool := N.eqb (fst a) (fst b) && N.eqb (snd a) (snd b).

(** obligation on the table regenerated from optimizer.py: every rewritten operator gets the
    Python operator, and the operand order, that the operator module documents for it *)
Definition opt_entry_ok (e : str * (N * N)) : bool :=
  match lookup_op (fst e) operator_doc with
  | Some v => pair_eqb v (snd e)
  | None => false
  end.

(** the arithmetic and comparison operators the model gives a meaning to *)
Definition modelled_operator (name : str) : bool :=
  existsb (str_eqb name)
    [s "add"; s "sub"; s "mul"; s "truediv"; s "floordiv"; s "mod";
     s "lt"; s "le"; s "eq"; s "ne"; s "gt"; s "ge"].
