(** C20 correspondence interface.

    A case is one operation applied to one or two operands; the implementation evaluates it
    along four call paths and reports one observation per path:
      1. the call form compiled with the operands as literals (inlining enabled),
      2. through [apply],
      3. the call form compiled with the compiler option inline-functions = false,
      4. a precompiled [(fn [a b] (op a b))] applied to the operand values.
    The specification demands that the four observations are identical and that they are
    what exact rational arithmetic prescribes (exact operands), resp. a value of the
    prescribed type (Decimal / float operands, whose values are not modelled). *)
From Coq Require Import List Bool ZArith NArith QArith Qreduction Qround Qabs String.
Import ListNotations.
From Verif Require Export Common.ListX C20.Model C20.Spec.

Inductive operand :=
| AInt (z : Z)
| ARatio (n : Z) (d : positive)       (* a fractions.Fraction as the harness built it *)
| ADec                                (* some decimal.Decimal *)
| AFlt.                               (* some float (incl. zeros, infinities, NaN) *)

Inductive opn :=
| OpA (o : aop) | OpD (o : dop) | OpU (o : uop) | OpC (o : cop)
| OpPy (name : str).                  (* (operator/<name> a b) *)

Inductive case := Case (o : opn) (args : list operand).

Inductive obs :=
| OInt (z : Z)
| ORatio (n : Z) (d : positive)       (* numerator / denominator exactly as returned *)
| ODec (repr : str)                   (* str(Decimal), only compared between paths *)
| OFlt (bits : N)                     (* IEEE-754 bits, only compared between paths *)
| OBool (b : bool)
| OExc (e : exc)
| OApx (k : kind).                    (* model/spec only: some value of kind k, or an
                                         arithmetic exception on the unmodelled values
                                         (e.g. decimal.InvalidOperation when a Decimal is
                                         ordered against a float NaN) *)

Inductive out := Paths (l : list obs).

Definition pv_of (a : operand) : pv :=
  match a with
  | AInt z => PInt z
  | ARatio n d => PFrac (n # d)
  | ADec => PDec
  | AFlt => PFlt
  end.

Definition obs_of_res (r : res) : obs :=
  match r with
  | Val (PInt z) => OInt z
  | Val (PFrac q) => ORatio (Qnum q) (Qden q)
  | Val PDec => OApx KDec
  | Val PFlt => OApx KFlt
  | Val PIntU => OApx KExact
  | Val (PBool b) => OBool b
  | Exc e => OExc e
  end.

Definition kindp (v : pv) : kind :=
  match v with PDec => KDec | PFlt => KFlt | PBool _ => KBool | _ => KExact end.

(** strict equality of observations (used between the call paths) *)
Definition obs_eqb (a b : obs) : bool :=
  match a, b with
  | OInt x, OInt y => Z.eqb x y
  | ORatio n d, ORatio n' d' => Z.eqb n n' && Pos.eqb d d'
  | ODec x, ODec y => str_eqb x y
  | OFlt x, OFlt y => N.eqb x y
  | OBool x, OBool y => Bool.eqb x y
  | OExc x, OExc y => exc_eqb x y
  | OApx x, OApx y => kind_eqb x y
  | _, _ => false
  end.

Definition arith_exc (e : exc) : bool :=
  match e with EZeroDiv | EArith | EValue => true | _ => false end.

(** [covers m i]: the implementation's observation [i] is one the model/spec observation [m]
    stands for *)
Definition covers (m i : obs) : bool :=
  match m, i with
  | OApx KFlt, OFlt _ => true
  | OApx KDec, ODec _ => true
  | OApx KBool, OBool _ => true
  | OApx KExact, (OInt _ | ORatio _ _) => true
  | OApx _, OExc e => arith_exc e
  | OApx _, _ => false
  | _, _ => obs_eqb m i
  end.

Definition all_exact (l : list pv) : bool := forallb is_exact l.

(** * the model of the code *)
Definition model_obs (c : case) : obs :=
  match c with
  | Case (OpA o) [x; y] => obs_of_res (arith o (pv_of x) (pv_of y))
  | Case (OpA o) [x; y; z] =>
      (* the variadic arity [x y & args] of + - * / : a left fold (modelled by hand) *)
      match arith o (pv_of x) (pv_of y) with
      | Val v => obs_of_res (arith o v (pv_of z))
      | Exc e => OExc e
      end
  | Case (OpD o) [x; y] =>
      let a := pv_of x in let b := pv_of y in
      if all_exact [a; b] then obs_of_res (divop o a b)
      else OApx (join (kindp a) (kindp b))          (* values not modelled: type only *)
  | Case (OpU o) [x] =>
      let a := pv_of x in
      if is_exact a then obs_of_res (unop o a)
      else match o with
           | UZerop => OApx KBool
           | _ => obs_of_res (unop o a)
           end
  | Case (OpC o) [x; y] =>
      let a := pv_of x in let b := pv_of y in
      if all_exact [a; b] then obs_of_res (cmpop o a b) else OApx KBool
  | Case (OpPy name) [x; y] =>
      let a := pv_of x in let b := pv_of y in
      match rewritten name a b with
      | Exc EOther => if all_exact [a; b] then OExc EOther else OApx KBool
      | r => obs_of_res r
      end
  | _ => OExc EOther
  end.

Definition model (c : case) : out := let m := model_obs c in Paths [m; m; m; m].

Fixpoint forall2b {A B} (f : A -> B -> bool) (l1 : list A) (l2 : list B) : bool :=
  match l1, l2 with
  | [], [] => true
  | a :: t1, b :: t2 => f a b && forall2b f t1 t2
  | _, _ => false
  end.

Definition out_eqb (m i : out) : bool :=
  match m, i with Paths ms, Paths is_ => forall2b covers ms is_ end.

(** * the specification *)
Definition qv (a : operand) : Q := den (pv_of a).

Definition spec_obs (c : case) : obs :=
  match c with
  | Case (OpA o) [x; y] =>
      let a := pv_of x in let b := pv_of y in
      if all_exact [a; b] then obs_of_res (ref_arith o (qv x) (qv y))
      else OApx (join (kindp a) (kindp b))
  | Case (OpA o) [x; y; z] =>
      let a := pv_of x in let b := pv_of y in let c := pv_of z in
      if all_exact [a; b; c] then
        match ref_arith o (qv x) (qv y) with
        | Val v => obs_of_res (ref_arith o (den v) (qv z))
        | Exc e => OExc e
        end
      else OApx (join (join (kindp a) (kindp b)) (kindp c))
  | Case (OpD o) [x; y] =>
      let a := pv_of x in let b := pv_of y in
      if all_exact [a; b] then obs_of_res (ref_divop o (qv x) (qv y))
      else OApx (join (kindp a) (kindp b))
  | Case (OpU o) [x] =>
      let a := pv_of x in
      if is_exact a then obs_of_res (ref_unop o (qv x))
      else match o with UZerop => OApx KBool | _ => OApx (kindp a) end
  | Case (OpC o) [x; y] =>
      let a := pv_of x in let b := pv_of y in
      if all_exact [a; b] then obs_of_res (ref_cmp o (qv x) (qv y)) else OApx KBool
  | Case (OpPy name) [x; y] =>
      (* the function object of Python's operator module, as documented *)
      let a := pv_of x in let b := pv_of y in
      match operator_call name a b with
      | Exc EOther => if all_exact [a; b] then OExc EOther else OApx KBool
      | r => obs_of_res r
      end
  | _ => OExc EOther
  end.

Definition spec_ok (c : case) (o : out) : bool :=
  match o with
  | Paths (first :: rest) =>
      Nat.eqb (List.length rest) 3
      && forallb (obs_eqb first) rest            (* the call paths agree *)
      && covers (spec_obs c) first               (* and give the prescribed answer *)
  | _ => false
  end.
