(** C20 -- how [mod] and [rem] of the model relate to each other: for every non-zero divisor
    and all exact operands (integers and ratios alike), [mod x y] is [rem x y] itself or
    [rem x y + y]; it is [rem x y] exactly when the remainder is zero or has the sign of the
    divisor.  Derived from the two characterisations of Proofs.v, so it speaks of the bodies
    of core.lpy's [quot], [rem] and [mod] as regenerated in Gen/Tables.v. *)
From Coq Require Import List Bool ZArith QArith Qabs Lia Lqa.
From Verif Require Import Gen.Tables C20.Model C20.Spec C20.SpecProofs C20.Proofs.
Open Scope Q_scope.

Lemma inject_Z_le_m1 j : (j <= -1)%Z -> inject_Z j <= -1.
Proof. intro H. change (-1) with (inject_Z (-1)). rewrite <- Zle_Qle. exact H. Qed.

Lemma inject_Z_ge_2 j : (2 <= j)%Z -> 2 <= inject_Z j.
Proof. intro H. change 2 with (inject_Z 2). rewrite <- Zle_Qle. exact H. Qed.

Lemma inject_Z_sub a b : inject_Z (a - b) == inject_Z a - inject_Z b.
Proof. unfold inject_Z, Qminus, Qplus, Qopp, Qeq; simpl. lia. Qed.

(** a multiple y*j of y that lies strictly between -|y|... : the arithmetic core *)
Lemma multiple_in_window (y r m : Q) (j : Z) :
  ~ y == 0 -> m - r == y * inject_Z j -> Qabs r < Qabs y ->
  (0 < y -> 0 <= m /\ m < y) -> (y < 0 -> y < m /\ m <= 0) ->
  j = 0%Z \/ j = 1%Z.
Proof.
  intros Hy He Hr Hp Hn.
  destruct (Z_le_gt_dec j (-1)) as [Hl|Hl];
    [exfalso; pose proof (inject_Z_le_m1 j Hl) as HJ |].
  - destruct (Qlt_le_dec 0 y) as [Hpos|Hneg].
    + destruct (Hp Hpos) as [Hm0 Hm1].
      rewrite (Qabs_pos y) in Hr by lra.
      apply Qabs_Qlt_condition in Hr. nra.
    + assert (Hlt : y < 0) by (destruct (Qeq_dec y 0); [contradiction|lra]).
      destruct (Hn Hlt) as [Hm0 Hm1].
      rewrite (Qabs_neg y) in Hr by lra.
      apply Qabs_Qlt_condition in Hr. nra.
  - destruct (Z_le_gt_dec 2 j) as [Hg|Hg];
      [exfalso; pose proof (inject_Z_ge_2 j Hg) as HJ | lia].
    destruct (Qlt_le_dec 0 y) as [Hpos|Hneg].
    + destruct (Hp Hpos) as [Hm0 Hm1].
      rewrite (Qabs_pos y) in Hr by lra.
      apply Qabs_Qlt_condition in Hr. nra.
    + assert (Hlt : y < 0) by (destruct (Qeq_dec y 0); [contradiction|lra]).
      destruct (Hn Hlt) as [Hm0 Hm1].
      rewrite (Qabs_neg y) in Hr by lra.
      apply Qabs_Qlt_condition in Hr. nra.
Qed.

Theorem mod_is_rem_or_rem_plus_divisor : forall x y, normal x -> normal y -> ~ den y == 0 ->
  exists r m, divop ORem x y = Val r /\ divop OMod x y = Val m /\
              (den m == den r \/ den m == den r + den y) /\
              (den m == den r <->
               den r == 0 \/ (0 < den y /\ 0 < den r) \/ (den y < 0 /\ den r < 0)).
Proof.
  intros x y Hx Hy Hy0.
  destruct (quot_rem_identity x y Hx Hy Hy0) as (q & r & _ & Hr & _ & Hqr & Hs1 & Hs2 & Hlt).
  destruct (mod_law x y Hx Hy Hy0) as (m & k & Hm & _ & Hmk & Hp & Hn).
  exists r, m. split; [exact Hr|]. split; [exact Hm|].
  assert (He : den m - den r == den y * inject_Z (q - k)).
  { rewrite inject_Z_sub.
    assert (H1 : den y * inject_Z q == den x - den r) by (rewrite Hqr; ring).
    assert (H2 : den y * inject_Z k == den x - den m) by (rewrite Hmk; ring).
    setoid_replace (den y * (inject_Z q - inject_Z k))
      with (den y * inject_Z q - den y * inject_Z k) by ring.
    rewrite H1, H2. ring. }
  pose proof (multiple_in_window _ _ _ _ Hy0 He Hlt Hp Hn) as Hj.
  assert (Hcase : den m == den r \/ den m == den r + den y).
  { destruct Hj as [Hj|Hj]; rewrite Hj in He.
    - left. change (inject_Z 0) with 0 in He. lra.
    - right. change (inject_Z 1) with 1 in He. lra. }
  split; [exact Hcase|].
  apply Qabs_Qlt_condition in Hlt.
  destruct (Qlt_le_dec 0 (den y)) as [Hpos|Hneg].
  - destruct (Hp Hpos) as [Hm0 Hm1].
    rewrite (Qabs_pos (den y)) in Hlt by lra.
    split.
    + intro E. destruct (Qlt_le_dec 0 (den r)); [right; left; split; assumption|left; lra].
    + intros [Z|[[_ P]|[N _]]]; [|destruct Hcase as [E|E]; [exact E|lra]|lra].
      destruct Hcase as [E|E]; [exact E|lra].
  - assert (Hlt' : den y < 0) by (destruct (Qeq_dec (den y) 0); [contradiction|lra]).
    destruct (Hn Hlt') as [Hm0 Hm1].
    rewrite (Qabs_neg (den y)) in Hlt by lra.
    split.
    + intro E. destruct (Qlt_le_dec (den r) 0); [right; right; split; assumption|left; lra].
    + intros [Z|[[P _]|[_ N]]]; [|lra|destruct Hcase as [E|E]; [exact E|lra]].
      destruct Hcase as [E|E]; [exact E|lra].
Qed.
