(** C20: laws of the reference semantics (Spec.v) -- canonical forms, truncation, the
    quot/rem/mod identities and sign laws over all rationals, and agreement with Coq's
    [Z.quot], [Z.rem], [Z.modulo] on integers. *)
From Coq Require Import List Bool ZArith NArith QArith Qreduction Qround Qabs Lqa Lia.
Import ListNotations.
From Verif Require Import Common.ListX C20.Model C20.Spec.
Open Scope Q_scope.

Lemma Qred_inject_Z z : Qred (inject_Z z) = inject_Z z.
Proof.
  unfold Qred, inject_Z.
  pose proof (Z.ggcd_gcd z 1) as Hg. pose proof (Z.ggcd_correct_divisors z 1) as Hd.
  destruct (Z.ggcd z 1) as [g [aa bb]]. simpl in *. destruct Hd as [H1 H2].
  rewrite Z.gcd_1_r in Hg. subst g. rewrite Z.mul_1_l in H1, H2. subst. reflexivity.
Qed.

Lemma Qred_idem q : Qred (Qred q) = Qred q.
Proof. apply Qred_complete, Qred_correct. Qed.

Lemma canon_comp p q : p == q -> canon p = canon q.
Proof. intro H. unfold canon. rewrite (Qred_complete _ _ H). reflexivity. Qed.

Lemma den_canon q : den (canon q) == q.
Proof.
  unfold canon. cbv zeta. destruct (Pos.eqb_spec (Qden (Qred q)) 1) as [E|E]; simpl.
  - rewrite <- (Qred_correct q) at 2. destruct (Qred q) as [n d]. simpl in *. subst. reflexivity.
  - apply Qred_correct.
Qed.

Lemma normal_canon q : normal (canon q).
Proof.
  unfold canon. cbv zeta. destruct (Pos.eqb_spec (Qden (Qred q)) 1) as [E|E]; simpl; auto.
  split; auto. apply Qred_idem.
Qed.

Lemma canon_int q z : q == inject_Z z -> canon q = PInt z.
Proof.
  intro H. rewrite (canon_comp _ _ H). unfold canon. rewrite Qred_inject_Z. reflexivity.
Qed.

Lemma canon_den v : normal v -> canon (den v) = v.
Proof.
  destruct v; simpl; try tauto.
  - intros _. apply canon_int. reflexivity.
  - intros [R D]. unfold canon. rewrite R. apply Pos.eqb_neq in D. rewrite D. reflexivity.
Qed.

Lemma normal_unique v w : normal v -> normal w -> den v == den w -> v = w.
Proof.
  intros Hv Hw E. rewrite <- (canon_den v Hv), <- (canon_den w Hw). apply canon_comp, E.
Qed.

(** ** truncation and floor *)
Lemma Qtrunc_nonneg q : 0 <= q -> Qtrunc q = Qfloor q.
Proof.
  destruct q as [n d]. unfold Qle, Qtrunc, Qfloor; simpl. intro H.
  apply Z.quot_div_nonneg; lia.
Qed.

Lemma Qtrunc_nonpos q : q <= 0 -> Qtrunc q = (- Qfloor (- q))%Z.
Proof.
  destruct q as [n d]. unfold Qle, Qtrunc, Qfloor, Qopp; simpl. intro H.
  rewrite <- (Z.opp_involutive n) at 1. rewrite Z.quot_opp_l by lia.
  f_equal. apply Z.quot_div_nonneg; lia.
Qed.

Lemma Qtrunc_comp p q : p == q -> Qtrunc p = Qtrunc q.
Proof.
  intro E. destruct (Qlt_le_dec p 0) as [L|L].
  - rewrite !Qtrunc_nonpos; try lra. f_equal. apply Qfloor_comp. rewrite E. reflexivity.
  - rewrite !Qtrunc_nonneg; try lra. apply Qfloor_comp, E.
Qed.

Lemma Qfloor_bounds q : inject_Z (Qfloor q) <= q /\ q < inject_Z (Qfloor q) + 1.
Proof.
  split. apply Qfloor_le. pose proof (Qlt_floor q) as H.
  rewrite inject_Z_plus in H. exact H.
Qed.

(** the part cut off by truncation lies in [0,1) for non-negative and in (-1,0] for
    non-positive numbers *)
Lemma Qtrunc_frac_nonneg q : 0 <= q -> 0 <= q - inject_Z (Qtrunc q) /\ q - inject_Z (Qtrunc q) < 1.
Proof.
  intro H. rewrite (Qtrunc_nonneg q H). destruct (Qfloor_bounds q). split; lra.
Qed.

Lemma Qtrunc_frac_nonpos q : q <= 0 -> -(1) < q - inject_Z (Qtrunc q) /\ q - inject_Z (Qtrunc q) <= 0.
Proof.
  intro H. rewrite (Qtrunc_nonpos q H). rewrite inject_Z_opp.
  destruct (Qfloor_bounds (- q)). split; lra.
Qed.

Lemma Qtrunc_inject_Z z : Qtrunc (inject_Z z) = z.
Proof. unfold Qtrunc, inject_Z; simpl. apply Z.quot_1_r. Qed.

(** ** quot / rem / mod laws of the reference *)
Section Laws.
  Variables x y : Q.
  Hypothesis Hy : ~ y == 0.

  Lemma ref_quot_rem : x == y * inject_Z (ref_quot x y) + ref_rem x y.
  Proof. unfold ref_rem, ref_quot. ring. Qed.

  Lemma ref_rem_form : ref_rem x y == y * (x / y - inject_Z (Qtrunc (x / y))).
  Proof. unfold ref_rem. field. exact Hy. Qed.

  Lemma ref_mod_form : ref_mod x y == y * (x / y - inject_Z (Qfloor (x / y))).
  Proof. unfold ref_mod. field. exact Hy. Qed.

  Lemma x_form : x == y * (x / y).
  Proof. field. exact Hy. Qed.

  Lemma y_sign : 0 < y \/ y < 0.
  Proof. destruct (Qlt_le_dec 0 y); auto. destruct (Qlt_le_dec y 0); auto. exfalso; apply Hy; lra. Qed.

  (** rem has the sign of the dividend (or is zero) *)
  Lemma ref_rem_sign : (0 <= x -> 0 <= ref_rem x y) /\ (x <= 0 -> ref_rem x y <= 0).
  Proof.
    pose proof ref_rem_form as F. pose proof x_form as X.
    set (q := x / y) in *.
    destruct (Qlt_le_dec q 0) as [Q0|Q0]; [|destruct (Qlt_le_dec 0 q) as [Q1|Q1]].
    - destruct (Qtrunc_frac_nonpos q) as [F1 F2]; [lra|].
      set (f := q - inject_Z (Qtrunc q)) in *.
      destruct y_sign as [Y|Y]; split; intro Hx; rewrite F; nra.
    - destruct (Qtrunc_frac_nonneg q) as [F1 F2]; [lra|].
      set (f := q - inject_Z (Qtrunc q)) in *.
      destruct y_sign as [Y|Y]; split; intro Hx; rewrite F; nra.
    - assert (E : q == 0) by lra.
      assert (Z0 : ref_rem x y == 0).
      { rewrite F. rewrite (Qtrunc_comp q 0 E). rewrite E. change (Qtrunc 0) with 0%Z. ring. }
      rewrite Z0. split; intro; lra.
  Qed.

  (** and is smaller in magnitude than the divisor *)
  Lemma ref_rem_bound : Qabs (ref_rem x y) < Qabs y.
  Proof.
    pose proof ref_rem_form as F.
    set (q := x / y) in *.
    rewrite F.
    destruct (Qlt_le_dec q 0) as [Q0|Q0].
    - destruct (Qtrunc_frac_nonpos q) as [F1 F2]; [lra|].
      set (f := q - inject_Z (Qtrunc q)) in *.
      destruct y_sign as [Y|Y].
      + rewrite (Qabs_neg (y * f)) by nra. rewrite (Qabs_pos y) by lra. nra.
      + rewrite (Qabs_pos (y * f)) by nra. rewrite (Qabs_neg y) by lra. nra.
    - destruct (Qtrunc_frac_nonneg q) as [F1 F2]; [lra|].
      set (f := q - inject_Z (Qtrunc q)) in *.
      destruct y_sign as [Y|Y].
      + rewrite (Qabs_pos (y * f)) by nra. rewrite (Qabs_pos y) by lra. nra.
      + rewrite (Qabs_neg (y * f)) by nra. rewrite (Qabs_neg y) by lra. nra.
  Qed.

  (** mod has the sign of the divisor (or is zero) and is smaller in magnitude *)
  Lemma ref_mod_range : (0 < y -> 0 <= ref_mod x y /\ ref_mod x y < y)
                     /\ (y < 0 -> y < ref_mod x y /\ ref_mod x y <= 0).
  Proof.
    pose proof ref_mod_form as F.
    set (q := x / y) in *. destruct (Qfloor_bounds q) as [F1 F2].
    set (f := q - inject_Z (Qfloor q)) in *.
    assert (0 <= f) by (unfold f; lra). assert (f < 1) by (unfold f; lra).
    split; intro Y; rewrite F; split; nra.
  Qed.

  (** mod is congruent to the dividend *)
  Lemma ref_mod_congr : x == y * inject_Z (Qfloor (x / y)) + ref_mod x y.
  Proof. unfold ref_mod. ring. Qed.
End Laws.

(** ** on integers the reference is Coq's [Z.quot], [Z.rem], [Z.modulo] *)
Lemma inject_Z_div_floor a b : b <> 0%Z -> Qfloor (inject_Z a / inject_Z b) = (a / b)%Z.
Proof.
  intro Hb. unfold Qdiv, Qmult, Qinv, inject_Z, Qfloor. simpl.
  destruct b as [|p|p]; [congruence| |]; simpl.
  - rewrite Z.mul_1_r. reflexivity.
  - rewrite <- (Z.div_opp_opp a (Z.neg p)) by lia.
    f_equal; lia.
Qed.

Lemma inject_Z_div_trunc a b : b <> 0%Z -> Qtrunc (inject_Z a / inject_Z b) = Z.quot a b.
Proof.
  intro Hb. unfold Qdiv, Qmult, Qinv, inject_Z, Qtrunc. simpl.
  destruct b as [|p|p]; [congruence| |]; simpl.
  - rewrite Z.mul_1_r. reflexivity.
  - rewrite <- (Z.quot_opp_opp a (Z.neg p)) by lia.
    f_equal; lia.
Qed.

Lemma inject_Z_zero b : Qeq_bool (inject_Z b) 0 = Z.eqb b 0.
Proof. unfold Qeq_bool, inject_Z. simpl. rewrite Z.mul_1_r. destruct b; reflexivity. Qed.

Lemma ref_int_quot a b : b <> 0%Z -> ref_divop OQuot (inject_Z a) (inject_Z b) = Val (PInt (Z.quot a b)).
Proof.
  intro Hb. unfold ref_divop. rewrite inject_Z_zero. apply Z.eqb_neq in Hb. rewrite Hb.
  apply Z.eqb_neq in Hb. unfold ref_quot. rewrite inject_Z_div_trunc by exact Hb. reflexivity.
Qed.

Lemma ref_int_rem a b : b <> 0%Z -> ref_divop ORem (inject_Z a) (inject_Z b) = Val (PInt (Z.rem a b)).
Proof.
  intro Hb. unfold ref_divop. rewrite inject_Z_zero. apply Z.eqb_neq in Hb. rewrite Hb.
  apply Z.eqb_neq in Hb. unfold ref_rem. rewrite inject_Z_div_trunc by exact Hb.
  f_equal. apply canon_int. unfold Qminus. rewrite <- inject_Z_mult, <- inject_Z_opp, <- inject_Z_plus.
  assert (E : (a + - (b * (a ÷ b)) = Z.rem a b)%Z) by (rewrite (Z.quot_rem' a b) at 1; ring).
  rewrite E. reflexivity.
Qed.

Lemma ref_int_mod a b : b <> 0%Z -> ref_divop OMod (inject_Z a) (inject_Z b) = Val (PInt (a mod b)).
Proof.
  intro Hb. unfold ref_divop. rewrite inject_Z_zero. apply Z.eqb_neq in Hb. rewrite Hb.
  apply Z.eqb_neq in Hb. unfold ref_mod. rewrite inject_Z_div_floor by exact Hb.
  f_equal. apply canon_int. unfold Qminus. rewrite <- inject_Z_mult, <- inject_Z_opp, <- inject_Z_plus.
  assert (E : (a + - (b * (a / b)) = a mod b)%Z) by (rewrite (Z.mod_eq a b Hb); ring).
  rewrite E. reflexivity.
Qed.
