(** C20 -- model of basilisp's arithmetic AS THE CODE IS.

    Two layers, both instantiating definitions that the translator regenerates from the
    source on every check (Gen/Tables.v):

    - the Python layer: [num_add], [num_subtract], [num_multiply], [num_divide], [num_trunc]
      are [Tables.c20_num_*] (= the single-dispatch tables and handler bodies of
      src/basilisp/lang/numbers.py) instantiated with the model of CPython's numeric tower
      below ([py_binop], [py_isinst], [py_un] ...).  Integers are [Z], [fractions.Fraction]
      is a reduced [Q]; [decimal.Decimal] and [float] are modelled at the level of their TYPE
      only ([PDec], [PFlt] carry no value; a result [Val PFlt] reads "a float, or an
      arithmetic exception").

    - the Lisp layer: [core_add], ..., [core_quot], [core_rem], [core_mod], [core_inc] ... are
      [Tables.c20_core_*] (= the bodies of the defns in src/basilisp/core.lpy) instantiated
      with [call_k], which resolves the *names* the bodies call. *)
From Coq Require Import List Bool ZArith NArith QArith Qreduction Qround Qabs String Ascii.
Import ListNotations.
From Verif Require Import Common.ListX Gen.Tables.

(** * Values *)
Inductive exc :=
| EZeroDiv     (* ZeroDivisionError (incl. decimal.DivisionByZero) *)
| EArith       (* any other ArithmeticError: OverflowError, decimal.InvalidOperation ... *)
| EValue       (* ValueError (e.g. math.floor of NaN) *)
| EType        (* TypeError *)
| EOther       (* anything else / outside the model *)
| EHang.

Inductive pv :=
| PInt (z : Z)        (* int *)
| PFrac (q : Q)       (* fractions.Fraction; CPython keeps it reduced (invariant [reduced]) *)
| PDec                (* decimal.Decimal, value not modelled *)
| PFlt                (* float, value not modelled *)
| PIntU               (* an int whose value is not modelled (math.trunc of a float/Decimal) *)
| PBool (b : bool).

Inductive res := Val (v : pv) | Exc (e : exc).

Definition exc_eqb (a b : exc) : bool :=
  match a, b with
  | EZeroDiv, EZeroDiv | EArith, EArith | EValue, EValue | EType, EType | EOther, EOther
  | EHang, EHang => true
  | _, _ => false
  end.

Definition reduced (q : Q) : Prop := Qred q = q.

(** Values a basilisp arithmetic function may legitimately return for exact operands:
    an int, or a reduced Fraction whose denominator is not 1. *)
Definition normal (v : pv) : Prop :=
  match v with
  | PInt _ => True
  | PFrac q => reduced q /\ Qden q <> 1%positive
  | _ => False
  end.

Definition q_eqb_struct (a b : Q) : bool := Z.eqb (Qnum a) (Qnum b) && Pos.eqb (Qden a) (Qden b).

Definition normalb (v : pv) : bool :=
  match v with
  | PInt _ => true
  | PFrac q => q_eqb_struct (Qred q) q && negb (Pos.eqb (Qden q) 1)
  | _ => false
  end.

Definition den (v : pv) : Q :=
  match v with
  | PInt z => inject_Z z
  | PFrac q => q
  | _ => 0
  end.

(** * CPython's numeric tower (the primitives of numbers.py) *)

Definition bind2 (a b : res) (f : pv -> pv -> res) : res :=
  match a with
  | Exc e => Exc e
  | Val x => match b with Exc e => Exc e | Val y => f x y end
  end.

Definition bind1 (a : res) (f : pv -> res) : res :=
  match a with Exc e => Exc e | Val x => f x end.

(** exact rational value of an int / Fraction *)
Definition exact_q (v : pv) : option Q :=
  match v with PInt z => Some (inject_Z z) | PFrac q => Some q | _ => None end.

Definition is_exact (v : pv) : bool :=
  match v with PInt _ | PFrac _ => true | _ => false end.

(** [Fraction] arithmetic: exact, result reduced.  k: 0 + , 1 - , 2 * , 3 /, 4 //, 5 %  *)
Definition frac_op (k : N) (a b : Q) : res :=
  match k with
  | 0%N => Val (PFrac (Qred (a + b)))
  | 1%N => Val (PFrac (Qred (a - b)))
  | 2%N => Val (PFrac (Qred (a * b)))
  | 3%N => if Qeq_bool b 0 then Exc EZeroDiv else Val (PFrac (Qred (a / b)))
  | 4%N => if Qeq_bool b 0 then Exc EZeroDiv else Val (PInt (Qfloor (a / b)))
  | 5%N => if Qeq_bool b 0 then Exc EZeroDiv
           else Val (PFrac (Qred (a - b * inject_Z (Qfloor (a / b)))))
  | _ => Exc EOther
  end.

Definition int_op (k : N) (a b : Z) : res :=
  match k with
  | 0%N => Val (PInt (a + b))
  | 1%N => Val (PInt (a - b))
  | 2%N => Val (PInt (a * b))
  | 3%N => if Z.eqb b 0 then Exc EZeroDiv else Val PFlt      (* int / int is a float in Python *)
  | 4%N => if Z.eqb b 0 then Exc EZeroDiv else Val (PInt (a / b))
  | 5%N => if Z.eqb b 0 then Exc EZeroDiv else Val (PInt (a mod b))
  | _ => Exc EOther
  end.

Definition is_zero_exact (v : pv) : bool :=
  match v with PInt z => Z.eqb z 0 | PFrac q => Qeq_bool q 0 | _ => false end.

Definition is_div (k : N) : bool := N.eqb k 3 || N.eqb k 4 || N.eqb k 5.

(** [x op y] of CPython for the four numeric types.  Decimal refuses float and Fraction
    operands (TypeError); float absorbs int and Fraction. *)
Definition py_binop_v (k : N) (x y : pv) : res :=
  match x, y with
  | PInt a, PInt b => int_op k a b
  | PInt a, PFrac q => frac_op k (inject_Z a) q
  | PFrac q, PInt b => frac_op k q (inject_Z b)
  | PFrac p, PFrac q => frac_op k p q
  | PFlt, (PInt _ | PFrac _) => if is_div k && is_zero_exact y then Exc EZeroDiv else Val PFlt
  | PFlt, (PFlt | PIntU) | (PInt _ | PFrac _ | PIntU), PFlt => Val PFlt
  | PDec, (PInt _ | PDec | PIntU) | (PInt _ | PIntU), PDec => Val PDec
  | PDec, (PFrac _ | PFlt) | (PFrac _ | PFlt), PDec => Exc EType
  | PIntU, (PInt _ | PIntU) | PInt _, PIntU => if N.eqb k 3 then Val PFlt else Val PIntU
  | _, _ => Exc EOther
  end.

Definition py_binop (k : N) (a b : res) : res := bind2 a b (py_binop_v k).

(** isinstance codes: 0 int, 1 float, 2 decimal.Decimal, 3 Fraction *)
Definition py_isinst (k : N) (r : res) : bool :=
  match r with
  | Exc _ => false
  | Val v =>
      match k, v with
      | 0%N, (PInt _ | PIntU | PBool _) => true
      | 1%N, PFlt => true
      | 2%N, PDec => true
      | 3%N, PFrac _ => true
      | _, _ => false
      end
  end.

(** Fraction.__trunc__ : [-(-n // d)] for negative numerators, [n // d] otherwise *)
Definition frac_trunc (q : Q) : Z :=
  if (Qnum q <? 0)%Z then (- ((- Qnum q) / Zpos (Qden q)))%Z else (Qnum q / Zpos (Qden q))%Z.

(** unary primitives: 0 float(), 1 decimal.Decimal(), 2 numbers._to_decimal, 3 math.trunc,
    4 .numerator, 5 fractions.Fraction(x), 6 unary minus *)
Definition py_un_v (k : N) (v : pv) : res :=
  match k with
  | 0%N => match v with PBool _ => Exc EOther | _ => Val PFlt end
  | 1%N => match v with PFrac _ => Exc EType | PBool _ => Exc EOther | _ => Val PDec end
  | 2%N => match v with PBool _ => Exc EOther | _ => Val PDec end
  | 3%N => match v with
           | PInt z => Val (PInt z)
           | PFrac q => Val (PInt (frac_trunc q))
           | PDec | PFlt => Val PIntU
           | PIntU => Val PIntU
           | PBool _ => Exc EOther
           end
  | 4%N => match v with
           | PInt z => Val (PInt z)
           | PFrac q => Val (PInt (Qnum q))
           | PIntU => Val PIntU
           | _ => Exc EOther
           end
  | 5%N => match v with
           | PInt z => Val (PFrac (inject_Z z))
           | PFrac q => Val (PFrac q)
           | _ => Exc EOther
           end
  | 6%N => match v with
           | PInt z => Val (PInt (- z))
           | PFrac q => Val (PFrac (Qred (- q)))
           | PDec => Val PDec
           | PFlt => Val PFlt
           | PIntU => Val PIntU
           | PBool _ => Exc EOther
           end
  | _ => Exc EOther
  end.

Definition py_un (k : N) (r : res) : res := bind1 r (py_un_v k).

(** Fraction(x, y) for two ints *)
Definition mkq (a b : Z) : Q := Qmake (a * Z.sgn b) (Z.to_pos (Z.abs b)).

Definition py_fraction2 (a b : res) : res :=
  bind2 a b (fun x y =>
    match x, y with
    | PInt n, PInt d => if Z.eqb d 0 then Exc EZeroDiv else Val (PFrac (Qred (mkq n d)))
    | _, _ => Exc EOther
    end).

Definition py_den_is_one (r : res) : bool :=
  match r with Val (PFrac q) => Pos.eqb (Qden q) 1 | _ => false end.

Definition py_try_zde (e h : res) : res :=
  match e with Exc EZeroDiv => h | _ => e end.

(** math.isnan(x) / x >= 0 on a float whose value is not modelled: the branches they select
    all produce a float, so the answer does not matter at the level of types *)
Definition py_ftest (k : N) (r : res) : bool := false.
Definition py_fconst (k : N) : res := Val PFlt.

(** * numbers.py, instantiated *)
Definition num_add : res -> res -> res :=
  c20_num_add res py_binop py_isinst py_un py_fraction2 py_den_is_one py_try_zde py_ftest py_fconst.
Definition num_subtract : res -> res -> res :=
  c20_num_subtract res py_binop py_isinst py_un py_fraction2 py_den_is_one py_try_zde py_ftest py_fconst.
Definition num_multiply : res -> res -> res :=
  c20_num_multiply res py_binop py_isinst py_un py_fraction2 py_den_is_one py_try_zde py_ftest py_fconst.
Definition num_divide : res -> res -> res :=
  c20_num_divide res py_binop py_isinst py_un py_fraction2 py_den_is_one py_try_zde py_ftest py_fconst.
Definition num_trunc : res -> res :=
  c20_num_trunc res py_binop py_isinst py_un py_fraction2 py_den_is_one py_try_zde py_ftest py_fconst.
Definition num_normalize : res -> res :=
  c20_num_normalize res py_binop py_isinst py_un py_fraction2 py_den_is_one py_try_zde py_ftest py_fconst.

(** * Names *)
Definition s (x : string) : str := map (fun c => N_of_ascii c) (list_ascii_of_string x).

(** * The Lisp layer: primitives of the generated core.lpy bodies *)
Definition l_lit (z : Z) : res := Val (PInt z).
Definition l_bind (r : res) (f : res -> res) : res :=
  match r with Val _ => f r | Exc e => Exc e end.
(** [if]: nil and false are falsey; nil does not occur among numbers *)
Definition l_ifte (c a b : res) : res :=
  match c with
  | Exc e => Exc e
  | Val (PBool false) => b
  | Val _ => a
  end.

(** arguments are evaluated left to right; the first exception wins *)
Fixpoint first_exc (args : list res) : option exc :=
  match args with
  | [] => None
  | Exc e :: _ => Some e
  | Val _ :: t => first_exc t
  end.

Fixpoint vals (args : list res) : list pv :=
  match args with
  | [] => []
  | Val v :: t => v :: vals t
  | Exc _ :: t => vals t
  end.

(** Python comparison of two exact numbers. 0 <, 1 <=, 2 >, 3 >=, 4 == *)
Definition q_cmp (k : N) (a b : Q) : bool :=
  match k with
  | 0%N => negb (Qle_bool b a)
  | 1%N => Qle_bool a b
  | 2%N => negb (Qle_bool a b)
  | 3%N => Qle_bool b a
  | _ => Qeq_bool a b
  end.

Definition cmp_v (k : N) (x y : pv) : option bool :=
  match exact_q x, exact_q y with
  | Some a, Some b => Some (q_cmp k a b)
  | _, _ => None
  end.

(** core's variadic [<] [>] [<=] [>=] [=]: [([_] true) ([x & args] ...)] walks adjacent pairs
    and stops at the first false one *)
Fixpoint chain (k : N) (x : pv) (rest : list pv) : res :=
  match rest with
  | [] => Val (PBool true)
  | y :: t =>
      match cmp_v k x y with
      | None => Exc EOther                 (* inexact operands: outside this layer's model *)
      | Some false => Val (PBool false)
      | Some true => match t with [] => Val (PBool true) | _ => chain k y t end
      end
  end.

Definition strict (args : list res) (f : list pv -> res) : res :=
  match first_exc args with Some e => Exc e | None => f (vals args) end.

(** level 0: Python / runtime functions called by core.lpy *)
Definition call0 (f : str) (args : list res) : res :=
  if str_eqb f (s "basilisp.lang.numbers/add") then
    match args with [a; b] => strict args (fun _ => num_add a b) | _ => Exc EType end
  else if str_eqb f (s "basilisp.lang.numbers/subtract") then
    match args with [a; b] => strict args (fun _ => num_subtract a b) | _ => Exc EType end
  else if str_eqb f (s "basilisp.lang.numbers/multiply") then
    match args with [a; b] => strict args (fun _ => num_multiply a b) | _ => Exc EType end
  else if str_eqb f (s "basilisp.lang.numbers/divide") then
    match args with [a; b] => strict args (fun _ => num_divide a b) | _ => Exc EType end
  else if str_eqb f (s "basilisp.lang.numbers/trunc") then
    match args with [a] => strict args (fun _ => num_trunc a) | _ => Exc EType end
  else if str_eqb f (s "operator/neg") then
    match args with [a] => py_un 6 a | _ => Exc EType end
  else if str_eqb f (s "math/floor") then
    (* math.floor: int -> itself; Fraction.__floor__ = n // d; float/Decimal -> some int *)
    match args with
    | [a] => bind1 a (fun v => match v with
                               | PInt z => Val (PInt z)
                               | PFrac q => Val (PInt (Qfloor q))
                               | PDec | PFlt | PIntU => Val PIntU
                               | PBool _ => Exc EOther
                               end)
    | _ => Exc EType
    end
  else if str_eqb f (s "python/abs") then
    match args with
    | [a] => bind1 a (fun v => match v with
                               | PInt z => Val (PInt (Z.abs z))
                               | PFrac q => Val (PFrac (Qred (Qabs q)))
                               | PDec => Val PDec
                               | PFlt => Val PFlt
                               | PIntU => Val PIntU
                               | PBool _ => Exc EOther
                               end)
    | _ => Exc EType
    end
  else Exc EOther.

Definition cmp_code (f : str) : option N :=
  if str_eqb f (s "<") then Some 0%N
  else if str_eqb f (s "<=") then Some 1%N
  else if str_eqb f (s ">") then Some 2%N
  else if str_eqb f (s ">=") then Some 3%N
  else if str_eqb f (s "=") then Some 4%N
  else if str_eqb f (s "==") then Some 4%N
  else None.

(** level 1: [+ - * /] (generated bodies over level 0) and the comparison functions *)
Definition core_add (x y : res) : res := c20_core_add2 res l_lit call0 l_ifte l_bind x y.
Definition core_neg (x : res) : res := c20_core_sub1 res l_lit call0 l_ifte l_bind x.
Definition core_sub (x y : res) : res := c20_core_sub2 res l_lit call0 l_ifte l_bind x y.
Definition core_mul (x y : res) : res := c20_core_mul2 res l_lit call0 l_ifte l_bind x y.
Definition core_inv (x : res) : res := c20_core_div1 res l_lit call0 l_ifte l_bind x.
Definition core_div (x y : res) : res := c20_core_div2 res l_lit call0 l_ifte l_bind x y.
Definition core_abs (x : res) : res := c20_core_abs res l_lit call0 l_ifte l_bind x.

Definition call1 (f : str) (args : list res) : res :=
  if str_eqb f (s "+") then
    match args with [a; b] => strict args (fun _ => core_add a b) | _ => Exc EOther end
  else if str_eqb f (s "-") then
    match args with
    | [a] => strict args (fun _ => core_neg a)
    | [a; b] => strict args (fun _ => core_sub a b)
    | _ => Exc EOther
    end
  else if str_eqb f (s "*") then
    match args with [a; b] => strict args (fun _ => core_mul a b) | _ => Exc EOther end
  else if str_eqb f (s "/") then
    match args with
    | [a] => strict args (fun _ => core_inv a)
    | [a; b] => strict args (fun _ => core_div a b)
    | _ => Exc EOther
    end
  else match cmp_code f with
       | Some k => strict args (fun vs => match vs with
                                          | [] => Exc EType
                                          | x :: rest => chain k x rest
                                          end)
       | None => call0 f args
       end.

(** level 2: quot, mod, inc, dec, zero? *)
Definition core_quot (x y : res) : res := c20_core_quot res l_lit call1 l_ifte l_bind x y.
Definition core_mod (x y : res) : res := c20_core_mod res l_lit call1 l_ifte l_bind x y.
Definition core_inc (x : res) : res := c20_core_inc res l_lit call1 l_ifte l_bind x.
Definition core_dec (x : res) : res := c20_core_dec res l_lit call1 l_ifte l_bind x.
Definition core_incq (x : res) : res := c20_core_incq res l_lit call1 l_ifte l_bind x.
Definition core_decq (x : res) : res := c20_core_decq res l_lit call1 l_ifte l_bind x.
Definition core_zerop (x : res) : res := c20_core_zerop res l_lit call1 l_ifte l_bind x.

Definition call2 (f : str) (args : list res) : res :=
  if str_eqb f (s "quot") then
    match args with [a; b] => strict args (fun _ => core_quot a b) | _ => Exc EOther end
  else if str_eqb f (s "mod") then
    match args with [a; b] => strict args (fun _ => core_mod a b) | _ => Exc EOther end
  else call1 f args.

(** level 3: rem (calls quot) *)
Definition core_rem (x y : res) : res := c20_core_rem res l_lit call2 l_ifte l_bind x y.

(** * The operations of the property, on values *)
Inductive aop := OAdd | OSub | OMul | ODiv.
Inductive dop := OQuot | ORem | OMod.
Inductive uop := UInc | UDec | UIncq | UDecq | UNeg | UAbs | UInv | UZerop.
Inductive cop := CLt | CLe | CGt | CGe | CEq.

Definition arith (o : aop) (x y : pv) : res :=
  match o with
  | OAdd => core_add (Val x) (Val y)
  | OSub => core_sub (Val x) (Val y)
  | OMul => core_mul (Val x) (Val y)
  | ODiv => core_div (Val x) (Val y)
  end.

Definition divop (o : dop) (x y : pv) : res :=
  match o with
  | OQuot => core_quot (Val x) (Val y)
  | ORem => core_rem (Val x) (Val y)
  | OMod => core_mod (Val x) (Val y)
  end.

Definition unop (o : uop) (x : pv) : res :=
  match o with
  | UInc => core_inc (Val x)
  | UDec => core_dec (Val x)
  | UIncq => core_incq (Val x)
  | UDecq => core_decq (Val x)
  | UNeg => core_neg (Val x)
  | UAbs => core_abs (Val x)
  | UInv => core_inv (Val x)
  | UZerop => core_zerop (Val x)
  end.

Definition cop_name (o : cop) : str :=
  match o with CLt => s "<" | CLe => s "<=" | CGt => s ">" | CGe => s ">=" | CEq => s "=" end.

Definition cmpop (o : cop) (x y : pv) : res := call1 (cop_name o) [Val x; Val y].

(** * Inline expansion versus the function path (analyzer._invoke_ast + _inline_fn_ast)

    A call [(f e)] of an [^:inline] fn is replaced at compile time by f's body with the
    parameter replaced by the argument *form*; otherwise the argument is evaluated and the
    function object is called.  Expressions over the modelled unary/binary functions: *)
Inductive expr :=
| XLit (v : pv)
| XUn (o : uop) (e : expr)
| XArith (o : aop) (a b : expr)
| XDiv (o : dop) (a b : expr)
| XCmp (o : cop) (a b : expr).

Definition un_body (o : uop) : res -> res :=
  match o with
  | UInc => core_inc | UDec => core_dec | UIncq => core_incq | UDecq => core_decq
  | UNeg => core_neg | UAbs => core_abs | UInv => core_inv | UZerop => core_zerop
  end.

Definition un_name (o : uop) : str :=
  match o with
  | UInc => s "inc" | UDec => s "dec" | UIncq => s "inc'" | UDecq => s "dec'"
  | UNeg => s "-" | UAbs => s "abs" | UInv => s "/" | UZerop => s "zero?"
  end.

Fixpoint lookup_flag (f : str) (t : list (str * bool)) : bool :=
  match t with
  | [] => false
  | (n, b) :: r => if str_eqb f n then b else lookup_flag f r
  end.

Definition arith_name (o : aop) : str :=
  match o with OAdd => s "+" | OSub => s "-" | OMul => s "*" | ODiv => s "/" end.
Definition div_name (o : dop) : str :=
  match o with OQuot => s "quot" | ORem => s "rem" | OMod => s "mod" end.

(** is the function inlined at its call sites?  (regenerated from the ^:inline metadata) *)
Definition inlined_name (f : str) : bool := lookup_flag f c20_core_inline_flags.
Definition inlined (o : uop) : bool := inlined_name (un_name o).

Definition call_fn2 (f : res -> res -> res) (a b : res) : res :=
  bind2 a b (fun x y => f (Val x) (Val y)).
Definition call_fn1 (f : res -> res) (a : res) : res := bind1 a (fun x => f (Val x)).

Definition arith_body (o : aop) : res -> res -> res :=
  match o with OAdd => core_add | OSub => core_sub | OMul => core_mul | ODiv => core_div end.
Definition div_body (o : dop) : res -> res -> res :=
  match o with OQuot => core_quot | ORem => core_rem | OMod => core_mod end.

(** the function path ([apply], or inlining disabled): arguments are evaluated left to
    right, then the function object is called with the values *)
Fixpoint eval_apply (e : expr) : res :=
  match e with
  | XLit v => Val v
  | XUn o a => call_fn1 (un_body o) (eval_apply a)
  | XArith o a b => call_fn2 (arith_body o) (eval_apply a) (eval_apply b)
  | XDiv o a b => call_fn2 (div_body o) (eval_apply a) (eval_apply b)
  | XCmp o a b => call_fn2 (fun x y => call1 (cop_name o) [x; y]) (eval_apply a) (eval_apply b)
  end.

(** the compiled path with inlining enabled: the body of an inlined fn is instantiated with
    the argument's *computation* (its form), not with its value *)
Fixpoint eval_inline (e : expr) : res :=
  match e with
  | XLit v => Val v
  | XUn o a => if inlined o then un_body o (eval_inline a)
               else call_fn1 (un_body o) (eval_inline a)
  | XArith o a b => if inlined_name (arith_name o) then arith_body o (eval_inline a) (eval_inline b)
                    else call_fn2 (arith_body o) (eval_inline a) (eval_inline b)
  | XDiv o a b => if inlined_name (div_name o) then div_body o (eval_inline a) (eval_inline b)
                  else call_fn2 (div_body o) (eval_inline a) (eval_inline b)
  | XCmp o a b => call_fn2 (fun x y => call1 (cop_name o) [x; y]) (eval_inline a) (eval_inline b)
  end.

(** * The optimizer's operator rewrites (optimizer._optimize_operator_call_attr)

    [(operator/<name> a b)] compiles to the call [operator.<name>(a, b)], which the optimizer
    replaces by the native node listed in [c20_opt_ops].  Python operators of the model
    (codes of Gen/Tables.v): 0 Add 1 Sub 2 Mult 3 Div 4 FloorDiv 5 Mod, 13 Lt 14 LtE 15 Eq
    16 NotEq 17 Gt 18 GtE. *)
Definition py_cmp_code (astop : N) : option (N * bool) :=   (* q_cmp code, negate *)
  match astop with
  | 13%N => Some (0%N, false) | 14%N => Some (1%N, false) | 15%N => Some (4%N, false)
  | 16%N => Some (4%N, true) | 17%N => Some (2%N, false) | 18%N => Some (3%N, false)
  | _ => None
  end.

(** [a <astop> b] as a native Python expression *)
Definition py_native (astop : N) (a b : pv) : res :=
  if (astop <=? 5)%N then py_binop_v astop a b
  else match py_cmp_code astop with
       | Some (k, neg) =>
           match cmp_v k a b with
           | Some r => Val (PBool (if neg then negb r else r))
           | None => Exc EOther
           end
       | None => Exc EOther
       end.

Fixpoint lookup_op (f : str) (t : list (str * (N * N))) : option (N * N) :=
  match t with
  | [] => None
  | (n, v) :: r => if str_eqb f n then Some v else lookup_op f r
  end.

(** what the optimized code computes for [(operator/<name> a b)] *)
Definition rewritten (name : str) (a b : pv) : res :=
  match lookup_op name c20_opt_ops with
  | Some (astop, 0%N) => py_native astop a b
  | Some (astop, _) => py_native astop b a
  | None => Exc EOther
  end.
