(** C20: the model of the code (Model.v, instantiating the definitions regenerated from
    numbers.py / core.lpy / optimizer.py) computes the reference semantics (Spec.v). *)
From Coq Require Import List Bool ZArith NArith QArith Qreduction Qround Qabs Lqa Lia String.
Import ListNotations.
From Verif Require Import Common.ListX Gen.Tables C20.Model C20.Spec C20.SpecProofs.
Open Scope Q_scope.

(** ** numbers.py *)
Lemma normalize_red q : num_normalize (Val (PFrac (Qred q))) = Val (canon q).
Proof.
  unfold num_normalize, c20_num_normalize, canon. cbv zeta.
  cbn [py_isinst py_den_is_one andb py_un bind1 py_un_v].
  destruct (Pos.eqb (Qden (Qred q)) 1); reflexivity.
Qed.

Lemma normalize_int z : num_normalize (Val (PInt z)) = Val (PInt z).
Proof. reflexivity. Qed.

Lemma normalize_exc e : num_normalize (Exc e) = Exc e.
Proof. reflexivity. Qed.

Lemma mkq_correct a b : b <> 0%Z -> mkq a b == inject_Z a / inject_Z b.
Proof.
  intro Hb. unfold mkq, Qdiv, Qmult, Qinv, inject_Z, Qeq. simpl.
  destruct b as [|p|p]; [congruence| |]; simpl; lia.
Qed.

Lemma Qeq_bool_false_neq q : Qeq_bool q 0 = false -> ~ q == 0.
Proof. intros H E. apply Qeq_bool_iff in E. congruence. Qed.

Definition exactv (v : pv) : Prop := match v with PInt _ | PFrac _ => True | _ => False end.

Lemma normal_exact v : normal v -> exactv v.
Proof. destruct v; simpl; tauto. Qed.

Lemma canon_plus_int a b : canon (inject_Z a + inject_Z b) = PInt (a + b).
Proof. apply canon_int. rewrite inject_Z_plus. reflexivity. Qed.
Lemma canon_minus_int a b : canon (inject_Z a - inject_Z b) = PInt (a - b).
Proof. apply canon_int. unfold Z.sub. rewrite inject_Z_plus, inject_Z_opp. reflexivity. Qed.
Lemma canon_mult_int a b : canon (inject_Z a * inject_Z b) = PInt (a * b).
Proof. apply canon_int. rewrite inject_Z_mult. reflexivity. Qed.

Ltac frac_case e := change (num_normalize (Val (PFrac (Qred e))) = Val (canon e)); apply normalize_red.

(** + - * / on exact operands (reducedness of the operands is not even needed) *)
Lemma add_is_ref x y : exactv x -> exactv y -> arith OAdd x y = Val (canon (den x + den y)).
Proof.
  destruct x as [a|p| | | |]; try contradiction; destruct y as [b|q| | | |]; try contradiction;
    intros _ _; unfold arith, den.
  - rewrite canon_plus_int. reflexivity.
  - frac_case (inject_Z a + q).
  - frac_case (p + inject_Z b).
  - frac_case (p + q).
Qed.

Lemma sub_is_ref x y : exactv x -> exactv y -> arith OSub x y = Val (canon (den x - den y)).
Proof.
  destruct x as [a|p| | | |]; try contradiction; destruct y as [b|q| | | |]; try contradiction;
    intros _ _; unfold arith, den.
  - rewrite canon_minus_int. reflexivity.
  - frac_case (inject_Z a - q).
  - frac_case (p - inject_Z b).
  - frac_case (p - q).
Qed.

Lemma mul_is_ref x y : exactv x -> exactv y -> arith OMul x y = Val (canon (den x * den y)).
Proof.
  destruct x as [a|p| | | |]; try contradiction; destruct y as [b|q| | | |]; try contradiction;
    intros _ _; unfold arith, den.
  - rewrite canon_mult_int. reflexivity.
  - frac_case (inject_Z a * q).
  - frac_case (p * inject_Z b).
  - frac_case (p * q).
Qed.

Ltac div_case p q :=
  change (num_normalize (if Qeq_bool q 0 then Exc EZeroDiv else Val (PFrac (Qred (p / q))))
          = if Qeq_bool q 0 then Exc EZeroDiv else Val (canon (p / q)));
  destruct (Qeq_bool q 0); [reflexivity|apply normalize_red].

Lemma div_is_ref x y : exactv x -> exactv y ->
  arith ODiv x y = if Qeq_bool (den y) 0 then Exc EZeroDiv else Val (canon (den x / den y)).
Proof.
  destruct x as [a|p| | | |]; try contradiction; destruct y as [b|q| | | |]; try contradiction;
    intros _ _; unfold arith, den.
  - change (num_normalize (if Z.eqb b 0 then Exc EZeroDiv else Val (PFrac (Qred (mkq a b))))
            = if Qeq_bool (inject_Z b) 0 then Exc EZeroDiv else Val (canon (inject_Z a / inject_Z b))).
    rewrite inject_Z_zero. destruct (Z.eqb_spec b 0) as [E|E]; [reflexivity|].
    rewrite normalize_red. f_equal. apply canon_comp, mkq_correct, E.
  - div_case (inject_Z a) q.
  - div_case p (inject_Z b).
  - div_case p q.
Qed.

Lemma arith_is_ref o x y : exactv x -> exactv y -> arith o x y = ref_arith o (den x) (den y).
Proof.
  intros Hx Hy. destruct o; unfold ref_arith.
  - apply add_is_ref; assumption.
  - apply sub_is_ref; assumption.
  - apply mul_is_ref; assumption.
  - apply div_is_ref; assumption.
Qed.

(** ** trunc / floor *)
Lemma frac_trunc_is_Qtrunc q : frac_trunc q = Qtrunc q.
Proof.
  unfold frac_trunc, Qtrunc. destruct q as [n d]; simpl.
  destruct (Z.ltb_spec n 0) as [L|L].
  - rewrite <- (Z.opp_involutive n) at 2. rewrite Z.quot_opp_l by lia.
    f_equal. symmetry. apply Z.quot_div_nonneg; lia.
  - symmetry. apply Z.quot_div_nonneg; lia.
Qed.

Lemma Qtrunc_Qred q : Qtrunc (Qred q) = Qtrunc q.
Proof. apply Qtrunc_comp, Qred_correct. Qed.

Lemma Qfloor_Qred q : Qfloor (Qred q) = Qfloor q.
Proof. apply Qfloor_comp, Qred_correct. Qed.

Lemma den1_num q : Qden q = 1%positive -> q = inject_Z (Qnum q).
Proof. destruct q as [n d]; simpl; intros ->; reflexivity. Qed.

Lemma trunc_canon q : num_trunc (Val (canon q)) = Val (PInt (Qtrunc q)).
Proof.
  unfold canon. cbv zeta. destruct (Pos.eqb_spec (Qden (Qred q)) 1) as [E|E].
  - change (Val (PInt (Qnum (Qred q))) = Val (PInt (Qtrunc q))). do 2 f_equal.
    rewrite <- Qtrunc_Qred. rewrite (den1_num _ E) at 2. rewrite Qtrunc_inject_Z. reflexivity.
  - change (Val (PInt (frac_trunc (Qred q))) = Val (PInt (Qtrunc q))).
    rewrite frac_trunc_is_Qtrunc, Qtrunc_Qred. reflexivity.
Qed.

Definition floor_r (r : res) : res := call1 (s "math/floor") [r].

Lemma floor_canon q : floor_r (Val (canon q)) = Val (PInt (Qfloor q)).
Proof.
  unfold canon. cbv zeta. destruct (Pos.eqb_spec (Qden (Qred q)) 1) as [E|E].
  - change (Val (PInt (Qnum (Qred q))) = Val (PInt (Qfloor q))). do 2 f_equal.
    rewrite <- Qfloor_Qred. rewrite (den1_num _ E) at 2. rewrite Qfloor_Z. reflexivity.
  - change (Val (PInt (Qfloor (Qred q))) = Val (PInt (Qfloor q))). rewrite Qfloor_Qred. reflexivity.
Qed.

(** ** symbolic evaluation of the generated core.lpy bodies

    The bodies regenerated from core.lpy are compositions of [call] (by name), [lit], [bind]
    and [ifte].  Instead of matching their present shape, the proofs below evaluate them with
    rewrite rules that hold for arbitrary argument computations, so that a refactoring of a
    body which keeps its meaning keeps the proofs. *)
Definition chain_of (k : N) (vs : list pv) : res :=
  match vs with [] => Exc EType | x :: rest => chain k x rest end.

Lemma c1_add a b : call1 (s "+") [a; b] = bind2 a b (arith OAdd).
Proof. destruct a, b; reflexivity. Qed.
Lemma c1_sub a b : call1 (s "-") [a; b] = bind2 a b (arith OSub).
Proof. destruct a, b; reflexivity. Qed.
Lemma c1_mul a b : call1 (s "*") [a; b] = bind2 a b (arith OMul).
Proof. destruct a, b; reflexivity. Qed.
Lemma c1_div a b : call1 (s "/") [a; b] = bind2 a b (arith ODiv).
Proof. destruct a, b; reflexivity. Qed.
Lemma c1_neg a : call1 (s "-") [a] = bind1 a (unop UNeg).
Proof. destruct a; reflexivity. Qed.
Lemma c1_inv a : call1 (s "/") [a] = bind1 a (unop UInv).
Proof. destruct a; reflexivity. Qed.
Lemma c1_trunc a : call1 (s "basilisp.lang.numbers/trunc") [a] = bind1 a (fun v => num_trunc (Val v)).
Proof. destruct a; reflexivity. Qed.
Lemma c1_floor a : call1 (s "math/floor") [a] = bind1 a (fun v => floor_r (Val v)).
Proof. destruct a; reflexivity. Qed.
Lemma c1_lt args : call1 (s "<") args = strict args (chain_of 0).
Proof. reflexivity. Qed.
Lemma c1_le args : call1 (s "<=") args = strict args (chain_of 1).
Proof. reflexivity. Qed.
Lemma c1_gt args : call1 (s ">") args = strict args (chain_of 2).
Proof. reflexivity. Qed.
Lemma c1_ge args : call1 (s ">=") args = strict args (chain_of 3).
Proof. reflexivity. Qed.
Lemma c1_eq args : call1 (s "=") args = strict args (chain_of 4).
Proof. reflexivity. Qed.

Lemma c2_add a b : call2 (s "+") [a; b] = bind2 a b (arith OAdd).
Proof. destruct a, b; reflexivity. Qed.
Lemma c2_sub a b : call2 (s "-") [a; b] = bind2 a b (arith OSub).
Proof. destruct a, b; reflexivity. Qed.
Lemma c2_mul a b : call2 (s "*") [a; b] = bind2 a b (arith OMul).
Proof. destruct a, b; reflexivity. Qed.
Lemma c2_div a b : call2 (s "/") [a; b] = bind2 a b (arith ODiv).
Proof. destruct a, b; reflexivity. Qed.
Lemma c2_neg a : call2 (s "-") [a] = bind1 a (unop UNeg).
Proof. destruct a; reflexivity. Qed.
Lemma c2_inv a : call2 (s "/") [a] = bind1 a (unop UInv).
Proof. destruct a; reflexivity. Qed.
Lemma c2_trunc a : call2 (s "basilisp.lang.numbers/trunc") [a] = bind1 a (fun v => num_trunc (Val v)).
Proof. destruct a; reflexivity. Qed.
Lemma c2_floor a : call2 (s "math/floor") [a] = bind1 a (fun v => floor_r (Val v)).
Proof. destruct a; reflexivity. Qed.
Lemma c2_quot a b : call2 (s "quot") [a; b] = bind2 a b (divop OQuot).
Proof. destruct a, b; reflexivity. Qed.
Lemma c2_mod a b : call2 (s "mod") [a; b] = bind2 a b (divop OMod).
Proof. destruct a, b; reflexivity. Qed.
Lemma c2_lt args : call2 (s "<") args = strict args (chain_of 0).
Proof. reflexivity. Qed.
Lemma c2_le args : call2 (s "<=") args = strict args (chain_of 1).
Proof. reflexivity. Qed.
Lemma c2_gt args : call2 (s ">") args = strict args (chain_of 2).
Proof. reflexivity. Qed.
Lemma c2_ge args : call2 (s ">=") args = strict args (chain_of 3).
Proof. reflexivity. Qed.
Lemma c2_eq args : call2 (s "=") args = strict args (chain_of 4).
Proof. reflexivity. Qed.

Lemma exactv_canon q : exactv (canon q).
Proof. apply normal_exact, normal_canon. Qed.
Lemma exactv_int z : exactv (PInt z).
Proof. exact I. Qed.
#[local] Hint Resolve exactv_canon exactv_int : c20.

Lemma cmp_v_exact k x y : exactv x -> exactv y -> cmp_v k x y = Some (q_cmp k (den x) (den y)).
Proof. destruct x; try contradiction; destruct y; try contradiction; reflexivity. Qed.

Lemma chain1 k x y : exactv x -> exactv y -> chain k x [y] = Val (PBool (q_cmp k (den x) (den y))).
Proof.
  intros Hx Hy. cbn [chain]. rewrite cmp_v_exact by assumption.
  destruct (q_cmp k (den x) (den y)); reflexivity.
Qed.

Lemma chain2 k x y z : exactv x -> exactv y -> exactv z ->
  chain k x [y; z] = Val (PBool (q_cmp k (den x) (den y) && q_cmp k (den y) (den z))).
Proof.
  intros Hx Hy Hz. cbn [chain]. rewrite !cmp_v_exact by assumption.
  destruct (q_cmp k (den x) (den y)), (q_cmp k (den y) (den z)); reflexivity.
Qed.

(** value-level facts used by the evaluator, all for exact operands and a non-zero divisor *)
Lemma div_nz x y : exactv x -> exactv y -> Qeq_bool (den y) 0 = false ->
  arith ODiv x y = Val (canon (den x / den y)).
Proof. intros Hx Hy E. rewrite div_is_ref by assumption. rewrite E. reflexivity. Qed.
Lemma div_z x y : exactv x -> exactv y -> Qeq_bool (den y) 0 = true -> arith ODiv x y = Exc EZeroDiv.
Proof. intros Hx Hy E. rewrite div_is_ref by assumption. rewrite E. reflexivity. Qed.

Lemma neg_exact x : exactv x -> exists v, unop UNeg x = Val v /\ exactv v /\ den v == - den x.
Proof.
  destruct x as [a|p| | | |]; try contradiction; intros _.
  - exists (PInt (- a)). split; [reflexivity|split; [exact I|]]. cbn [den]. rewrite inject_Z_opp. reflexivity.
  - exists (PFrac (Qred (- p))). split; [reflexivity|split; [exact I|]]. cbn [den]. apply Qred_correct.
Qed.

(** one evaluation step *)
Ltac core_step Ey :=
  first
  [ rewrite c2_quot | rewrite c2_mod
  | rewrite c1_add | rewrite c1_sub | rewrite c1_mul | rewrite c1_div | rewrite c1_neg | rewrite c1_inv
  | rewrite c2_add | rewrite c2_sub | rewrite c2_mul | rewrite c2_div | rewrite c2_neg | rewrite c2_inv
  | rewrite c1_trunc | rewrite c1_floor | rewrite c2_trunc | rewrite c2_floor
  | rewrite c1_lt | rewrite c1_le | rewrite c1_gt | rewrite c1_ge | rewrite c1_eq
  | rewrite c2_lt | rewrite c2_le | rewrite c2_gt | rewrite c2_ge | rewrite c2_eq
  | progress cbn [bind2 bind1 l_bind l_lit strict first_exc vals chain_of]
  | rewrite add_is_ref by auto with c20
  | rewrite sub_is_ref by auto with c20
  | rewrite mul_is_ref by auto with c20
  | rewrite div_nz by (first [exact Ey | auto with c20])
  | rewrite div_z by (first [exact Ey | auto with c20])
  | rewrite trunc_canon | rewrite floor_canon
  | rewrite chain1 by auto with c20
  | rewrite chain2 by auto with c20 ].

Ltac core_eval Ey := repeat core_step Ey.

(** closing [Val (canon a) = Val (canon b)] when a == b up to [den (canon _)] *)
Ltac canon_close :=
  f_equal; apply canon_comp; rewrite ?den_canon; cbn [den]; rewrite ?den_canon;
  try reflexivity; try ring.

Lemma quot_is_ref x y : exactv x -> exactv y -> divop OQuot x y = ref_divop OQuot (den x) (den y).
Proof.
  intros Hx Hy. unfold divop, core_quot, c20_core_quot, ref_divop, ref_quot.
  destruct (Qeq_bool (den y) 0) eqn:Ey; core_eval Ey; reflexivity.
Qed.

Lemma mod_is_ref x y : exactv x -> exactv y -> divop OMod x y = ref_divop OMod (den x) (den y).
Proof.
  intros Hx Hy. unfold divop, core_mod, c20_core_mod, ref_divop, ref_mod.
  destruct (Qeq_bool (den y) 0) eqn:Ey; core_eval Ey; [reflexivity|]. canon_close.
Qed.

(** facts the evaluator of [rem] (level 3) needs about level 2 *)
Lemma quot_nz x y : exactv x -> exactv y -> Qeq_bool (den y) 0 = false ->
  divop OQuot x y = Val (PInt (ref_quot (den x) (den y))).
Proof. intros Hx Hy E. rewrite quot_is_ref by assumption. unfold ref_divop. rewrite E. reflexivity. Qed.
Lemma quot_z x y : exactv x -> exactv y -> Qeq_bool (den y) 0 = true -> divop OQuot x y = Exc EZeroDiv.
Proof. intros Hx Hy E. rewrite quot_is_ref by assumption. unfold ref_divop. rewrite E. reflexivity. Qed.
Lemma mod_nz x y : exactv x -> exactv y -> Qeq_bool (den y) 0 = false ->
  divop OMod x y = Val (canon (ref_mod (den x) (den y))).
Proof. intros Hx Hy E. rewrite mod_is_ref by assumption. unfold ref_divop. rewrite E. reflexivity. Qed.
Lemma mod_z x y : exactv x -> exactv y -> Qeq_bool (den y) 0 = true -> divop OMod x y = Exc EZeroDiv.
Proof. intros Hx Hy E. rewrite mod_is_ref by assumption. unfold ref_divop. rewrite E. reflexivity. Qed.

Ltac core_eval3 Ey :=
  repeat first
  [ rewrite quot_nz by (first [exact Ey | auto with c20])
  | rewrite quot_z by (first [exact Ey | auto with c20])
  | rewrite mod_nz by (first [exact Ey | auto with c20])
  | rewrite mod_z by (first [exact Ey | auto with c20])
  | core_step Ey ].

Lemma Qle_bool_false a b : Qle_bool a b = false -> b < a.
Proof.
  intro H. destruct (Qlt_le_dec b a) as [L|L]; [exact L|].
  apply Qle_bool_iff in L. congruence.
Qed.

(** [rem]: whatever sign-correcting branches core.lpy's [rem] has, on exact operands every
    branch either returns the exact remainder or is unreachable by the sign law *)
Lemma rem_is_ref x y : exactv x -> exactv y -> divop ORem x y = ref_divop ORem (den x) (den y).
Proof.
  intros Hx Hy. unfold divop, core_rem, c20_core_rem, ref_divop.
  destruct (Qeq_bool (den y) 0) eqn:Ey; core_eval3 Ey; [reflexivity|].
  pose proof (ref_rem_sign (den x) (den y) (Qeq_bool_false_neq _ Ey)) as [S1 S2].
  assert (Em : forall q, q == ref_rem (den x) (den y) -> canon q = canon (ref_rem (den x) (den y)))
    by (intros; apply canon_comp; assumption).
  set (m := canon (den x - den (canon (den y * den (PInt (ref_quot (den x) (den y))))))) in *.
  assert (Hm : m = canon (ref_rem (den x) (den y))).
  { apply Em. rewrite den_canon. reflexivity. }
  assert (Dm : den m == ref_rem (den x) (den y)) by (rewrite Hm; apply den_canon).
  cbn [l_ifte q_cmp den]. change (inject_Z 0) with 0.
  repeat match goal with
         | |- context [Qle_bool ?a ?b] =>
             let E := fresh "E" in destruct (Qle_bool a b) eqn:E;
             [apply Qle_bool_iff in E|apply Qle_bool_false in E]; cbn [negb andb l_ifte]
         end;
    try (rewrite Hm; reflexivity);
    exfalso; rewrite ?Dm in *; lra.
Qed.

Lemma divop_is_ref o x y : exactv x -> exactv y -> divop o x y = ref_divop o (den x) (den y).
Proof.
  destruct o; [apply quot_is_ref|apply rem_is_ref|apply mod_is_ref].
Qed.

(** ** unary functions and comparisons *)
Lemma Qeq_bool_sym a b : Qeq_bool a b = Qeq_bool b a.
Proof.
  destruct (Qeq_bool a b) eqn:E1, (Qeq_bool b a) eqn:E2; auto.
  - apply Qeq_bool_iff in E1. symmetry in E1. apply Qeq_bool_iff in E1. congruence.
  - apply Qeq_bool_iff in E2. symmetry in E2. apply Qeq_bool_iff in E2. congruence.
Qed.

Lemma nonint_canon p q : reduced p -> Qden p <> 1%positive ->
  (forall z, q == inject_Z z -> exists z', p == inject_Z z') -> canon q = PFrac (Qred q).
Proof.
  intros R D H. unfold canon. cbv zeta.
  destruct (Pos.eqb_spec (Qden (Qred q)) 1) as [E|E]; [|reflexivity].
  exfalso. destruct (H (Qnum (Qred q))) as [z' Hz'].
  { rewrite <- (Qred_correct q) at 1. rewrite (den1_num _ E) at 1. reflexivity. }
  apply Qred_complete in Hz'. rewrite Qred_inject_Z in Hz'. unfold reduced in R.
  rewrite R in Hz'. subst p. apply D. reflexivity.
Qed.

Lemma unop_is_ref o x : normal x -> unop o x = ref_unop o (den x).
Proof.
  intro Hn. pose proof (normal_exact _ Hn) as Hx. destruct o; unfold unop, ref_unop.
  - unfold core_inc, c20_core_inc. core_eval I. canon_close.
  - unfold core_dec, c20_core_dec. core_eval I. canon_close.
  - unfold core_incq, c20_core_incq. core_eval I. canon_close.
  - unfold core_decq, c20_core_decq. core_eval I. canon_close.
  - destruct x as [a|p| | | |]; try contradiction.
    + change (Val (PInt (- a)) = Val (canon (- inject_Z a))). f_equal. symmetry.
      apply canon_int. rewrite inject_Z_opp. reflexivity.
    + change (Val (PFrac (Qred (- p))) = Val (canon (- p))). destruct Hn as [R D].
      rewrite (nonint_canon p (- p) R D); [reflexivity|].
      intros z Hz. exists (- z)%Z. rewrite inject_Z_opp, <- Hz. ring.
  - destruct x as [a|p| | | |]; try contradiction.
    + change (Val (PInt (Z.abs a)) = Val (canon (Qabs (inject_Z a)))). f_equal. symmetry.
      apply canon_int. reflexivity.
    + change (Val (PFrac (Qred (Qabs p))) = Val (canon (Qabs p))). destruct Hn as [R D].
      rewrite (nonint_canon p (Qabs p) R D); [reflexivity|].
      intros z Hz. destruct (Qlt_le_dec p 0) as [L|L].
      * rewrite Qabs_neg in Hz by lra. exists (- z)%Z. rewrite inject_Z_opp, <- Hz. ring.
      * rewrite Qabs_pos in Hz by lra. exists z. exact Hz.
  - change (core_inv (Val x)) with (arith ODiv (PInt 1) x). rewrite div_is_ref by (simpl; auto).
    destruct (Qeq_bool (den x) 0); [reflexivity|]. f_equal. apply canon_comp. simpl den.
    unfold Qdiv. change (inject_Z 1) with 1. ring.
  - change (core_zerop (Val x)) with (chain 4 (PInt 0) [x]). rewrite chain1 by (simpl; auto).
    cbn [q_cmp den]. change (inject_Z 0) with 0. rewrite Qeq_bool_sym. reflexivity.
Qed.

Lemma cmpop_is_ref o x y : exactv x -> exactv y -> cmpop o x y = ref_cmp o (den x) (den y).
Proof.
  intros Hx Hy. unfold ref_cmp.
  destruct o; (match goal with |- cmpop ?c _ _ = _ =>
     let k := constr:(match c with CLt => 0 | CLe => 1 | CGt => 2 | CGe => 3 | CEq => 4 end%N) in
     let k' := eval cbv in k in change (cmpop c x y) with (chain k' x [y]) end);
    rewrite chain1 by assumption; reflexivity.
Qed.

(** ** result types (the finite table, over all four numeric types) *)
Definition numeric (v : pv) : Prop :=
  match v with PInt _ | PFrac _ | PDec | PFlt => True | _ => False end.

Definition kind_of' (v : pv) : kind :=
  match v with PDec => KDec | PFlt => KFlt | PBool _ => KBool | _ => KExact end.

Lemma kind_canon q : kind_of (canon q) = Some KExact.
Proof. unfold canon. cbv zeta. destruct (Pos.eqb (Qden (Qred q)) 1); reflexivity. Qed.

(** every result of + - * / is a value of the larger operand type; the only exception the
    model can produce is ZeroDivisionError, and only for [/] with an exact zero divisor *)
Definition type_ok (o : aop) (x y : pv) (r : res) : Prop :=
  match r with
  | Val v => kind_of v = Some (join (kind_of' x) (kind_of' y))
  | Exc e => e = EZeroDiv /\ o = ODiv /\ exactv x /\ exactv y /\ den y == 0
  end.

Lemma arith_type_table o x y : numeric x -> numeric y -> type_ok o x y (arith o x y).
Proof.
  intros Nx Ny.
  destruct x as [a|p| | | |]; try contradiction; destruct y as [b|q| | | |]; try contradiction.
  (* exact / exact *)
  1,2,5,6: rewrite arith_is_ref by exact I; destruct o; unfold ref_arith, type_ok;
    try apply kind_canon;
    match goal with |- context [Qeq_bool ?d 0] => destruct (Qeq_bool d 0) eqn:E end;
    try apply kind_canon;
    (repeat split; apply Qeq_bool_iff; exact E).
  (* at least one Decimal / float operand: the handlers compute a constant *)
  all: destruct o; try reflexivity.
  all: unfold arith, type_ok.
  - cbv -[Z.eqb]. destruct (Z.eqb b 0); reflexivity.
  - cbv -[Qeq_bool]. destruct (Qeq_bool q 0); reflexivity.
Qed.

Lemma join_comm a b : join a b = join b a.
Proof. destruct a, b; reflexivity. Qed.

Definition res_kind (r : res) : option kind :=
  match r with Val v => kind_of v | Exc _ => None end.

Lemma arith_kind o x y : numeric x -> numeric y -> o <> ODiv ->
  res_kind (arith o x y) = Some (join (kind_of' x) (kind_of' y)).
Proof.
  intros Nx Ny Ho. pose proof (arith_type_table o x y Nx Ny) as H. unfold type_ok in H.
  destruct (arith o x y); simpl; [exact H|]. destruct H as (_ & E & _). contradiction.
Qed.

Lemma type_commutes o x y : numeric x -> numeric y -> o = OAdd \/ o = OMul ->
  res_kind (arith o x y) = res_kind (arith o y x) /\ res_kind (arith o x y) <> None.
Proof.
  intros Nx Ny Ho. rewrite !arith_kind by (auto; destruct Ho; subst; discriminate).
  rewrite join_comm. split; [reflexivity|discriminate].
Qed.

Lemma no_type_error o x y : numeric x -> numeric y -> arith o x y <> Exc EType.
Proof.
  intros Nx Ny E. pose proof (arith_type_table o x y Nx Ny) as H. rewrite E in H.
  destruct H as [H _]. discriminate.
Qed.

(** ** inline expansion = function call *)
Lemma un_body_strict o e : un_body o (Exc e) = Exc e.
Proof. destruct o; reflexivity. Qed.

Lemma arith_body_strict_l o e b : arith_body o (Exc e) b = Exc e.
Proof. destruct o; reflexivity. Qed.
Lemma arith_body_strict_r o x e : arith_body o (Val x) (Exc e) = Exc e.
Proof. destruct o; reflexivity. Qed.
Lemma div_body_strict_l o e b : div_body o (Exc e) b = Exc e.
Proof. destruct o; reflexivity. Qed.
Lemma div_body_strict_r o x e : div_body o (Val x) (Exc e) = Exc e.
Proof. destruct o; reflexivity. Qed.

Lemma un_inline_apply o r : un_body o r = call_fn1 (un_body o) r.
Proof. destruct r; [reflexivity|apply un_body_strict]. Qed.
Lemma arith_inline_apply o a b : arith_body o a b = call_fn2 (arith_body o) a b.
Proof.
  destruct a as [x|e]; [destruct b as [y|e]|]; simpl;
    [reflexivity|apply arith_body_strict_r|apply arith_body_strict_l].
Qed.
Lemma div_inline_apply o a b : div_body o a b = call_fn2 (div_body o) a b.
Proof.
  destruct a as [x|e]; [destruct b as [y|e]|]; simpl;
    [reflexivity|apply div_body_strict_r|apply div_body_strict_l].
Qed.

Lemma inline_equals_apply e : eval_inline e = eval_apply e.
Proof.
  induction e as [v|o a IH|o a IHa b IHb|o a IHa b IHb|o a IHa b IHb]; simpl.
  - reflexivity.
  - rewrite IH. destruct (inlined o); [apply un_inline_apply|reflexivity].
  - rewrite IHa, IHb. destruct (inlined_name (arith_name o)); [apply arith_inline_apply|reflexivity].
  - rewrite IHa, IHb. destruct (inlined_name (div_name o)); [apply div_inline_apply|reflexivity].
  - rewrite IHa, IHb. reflexivity.
Qed.

(** ** the optimizer's operator rewrites *)
Lemma pair_eqb_eq a b : pair_eqb a b = true -> a = b.
Proof.
  destruct a, b; unfold pair_eqb; simpl. intro H. apply andb_true_iff in H as [H1 H2].
  apply N.eqb_eq in H1, H2. congruence.
Qed.

Lemma table_sound (t : list (str * (N * N))) : forallb opt_entry_ok t = true ->
  forall name v, lookup_op name t = Some v -> lookup_op name operator_doc = Some v.
Proof.
  unfold opt_entry_ok. generalize operator_doc as doc. intro doc.
  induction t as [|[n w] t IH]; cbn [forallb lookup_op fst snd]; intros H name v L; [discriminate|].
  apply andb_true_iff in H as [H1 H2].
  destruct (str_eqb name n) eqn:E.
  - apply str_eqb_eq in E. subst n. inversion L; subst w.
    destruct (lookup_op name doc) as [u|]; [|discriminate].
    apply pair_eqb_eq in H1. congruence.
  - apply IH; assumption.
Qed.

Lemma opt_table_ok : forallb opt_entry_ok c20_opt_ops = true.
Proof. vm_compute. reflexivity. Qed.

Lemma modelled_ops_rewritten :
  forallb (fun n => match lookup_op n c20_opt_ops with Some _ => true | None => false end)
    [s "add"; s "sub"; s "mul"; s "truediv"; s "floordiv"; s "mod";
     s "lt"; s "le"; s "eq"; s "ne"; s "gt"; s "ge"] = true.
Proof. vm_compute. reflexivity. Qed.

Lemma rewrite_sound name a b : lookup_op name c20_opt_ops <> None ->
  rewritten name a b = operator_call name a b.
Proof.
  intro H. unfold rewritten, operator_call.
  destruct (lookup_op name c20_opt_ops) as [v|] eqn:L; [|contradiction].
  rewrite (table_sound _ opt_table_ok _ _ L). reflexivity.
Qed.

(** ** the clauses of the property, for the model *)
Definition qop (o : aop) (a b : Q) : Q :=
  match o with OAdd => a + b | OSub => a - b | OMul => a * b | ODiv => a / b end.

Lemma Qeq_bool_true_eq q : Qeq_bool q 0 = true -> q == 0.
Proof. apply Qeq_bool_iff. Qed.

Theorem ring_exact o x y : normal x -> normal y -> (o = ODiv -> ~ den y == 0) ->
  exists v, arith o x y = Val v /\ normal v /\ den v == qop o (den x) (den y).
Proof.
  intros Hx Hy Hd. rewrite arith_is_ref by (apply normal_exact; assumption).
  destruct o; unfold ref_arith, qop.
  1-3: eexists; split; [reflexivity|split; [apply normal_canon|apply den_canon]].
  destruct (Qeq_bool (den y) 0) eqn:E.
  - exfalso. apply Hd; [reflexivity|apply Qeq_bool_true_eq, E].
  - eexists; split; [reflexivity|split; [apply normal_canon|apply den_canon]].
Qed.

Theorem zero_divisor x y : normal x -> normal y -> den y == 0 ->
  arith ODiv x y = Exc EZeroDiv /\ forall o, divop o x y = Exc EZeroDiv.
Proof.
  intros Hx Hy E. apply Qeq_bool_iff in E. split.
  - rewrite arith_is_ref by (apply normal_exact; assumption). unfold ref_arith. rewrite E. reflexivity.
  - intro o. rewrite divop_is_ref by (apply normal_exact; assumption). unfold ref_divop. rewrite E. reflexivity.
Qed.

Lemma normal_integral v z : normal v -> den v == inject_Z z -> v = PInt z.
Proof. intros Hv E. apply (normal_unique v (PInt z) Hv I E). Qed.

Lemma arith_normal o x y v : normal x -> normal y -> arith o x y = Val v -> normal v.
Proof.
  intros Hx Hy. rewrite arith_is_ref by (apply normal_exact; assumption).
  destruct o; unfold ref_arith; try (intro H; inversion H; apply normal_canon).
  destruct (Qeq_bool (den y) 0); intro H; inversion H; apply normal_canon.
Qed.

Lemma divop_normal o x y v : normal x -> normal y -> divop o x y = Val v -> normal v.
Proof.
  intros Hx Hy. rewrite divop_is_ref by (apply normal_exact; assumption). unfold ref_divop.
  destruct (Qeq_bool (den y) 0); [discriminate|].
  destruct o; intro H; inversion H; try apply normal_canon. exact I.
Qed.

Theorem integral_ratio_is_int_arith o x y v z : normal x -> normal y ->
  arith o x y = Val v -> den v == inject_Z z -> v = PInt z.
Proof. intros Hx Hy H E. eapply normal_integral; eauto using arith_normal. Qed.

Theorem integral_ratio_is_int_divop o x y v z : normal x -> normal y ->
  divop o x y = Val v -> den v == inject_Z z -> v = PInt z.
Proof. intros Hx Hy H E. eapply normal_integral; eauto using divop_normal. Qed.

Theorem int_closed a b :
  arith OAdd (PInt a) (PInt b) = Val (PInt (a + b)) /\
  arith OSub (PInt a) (PInt b) = Val (PInt (a - b)) /\
  arith OMul (PInt a) (PInt b) = Val (PInt (a * b)).
Proof. repeat split. Qed.

Theorem quot_rem_identity x y : normal x -> normal y -> ~ den y == 0 ->
  exists q r, divop OQuot x y = Val (PInt q) /\ divop ORem x y = Val r /\ normal r /\
              den x == den y * inject_Z q + den r /\
              (0 <= den x -> 0 <= den r) /\ (den x <= 0 -> den r <= 0) /\
              Qabs (den r) < Qabs (den y).
Proof.
  intros Hx Hy Hd. rewrite !divop_is_ref by (apply normal_exact; assumption). unfold ref_divop.
  destruct (Qeq_bool (den y) 0) eqn:E; [exfalso; apply Hd, Qeq_bool_true_eq, E|].
  exists (ref_quot (den x) (den y)), (canon (ref_rem (den x) (den y))).
  split; [reflexivity|]. split; [reflexivity|]. split; [apply normal_canon|].
  rewrite den_canon. split; [apply ref_quot_rem|].
  destruct (ref_rem_sign (den x) (den y) Hd) as [S1 S2].
  split; [exact S1|]. split; [exact S2|]. apply ref_rem_bound, Hd.
Qed.

Theorem mod_law x y : normal x -> normal y -> ~ den y == 0 ->
  exists m k, divop OMod x y = Val m /\ normal m /\
              den x == den y * inject_Z k + den m /\
              (0 < den y -> 0 <= den m /\ den m < den y) /\
              (den y < 0 -> den y < den m /\ den m <= 0).
Proof.
  intros Hx Hy Hd. rewrite divop_is_ref by (apply normal_exact; assumption). unfold ref_divop.
  destruct (Qeq_bool (den y) 0) eqn:E; [exfalso; apply Hd, Qeq_bool_true_eq, E|].
  exists (canon (ref_mod (den x) (den y))), (Qfloor (den x / den y)).
  split; [reflexivity|]. split; [apply normal_canon|]. rewrite den_canon.
  split; [apply ref_mod_congr|]. apply ref_mod_range, Hd.
Qed.

Theorem int_quot_rem_mod a b : b <> 0%Z ->
  divop OQuot (PInt a) (PInt b) = Val (PInt (Z.quot a b)) /\
  divop ORem (PInt a) (PInt b) = Val (PInt (Z.rem a b)) /\
  divop OMod (PInt a) (PInt b) = Val (PInt (a mod b)).
Proof.
  intro Hb. rewrite !divop_is_ref by exact I. simpl den.
  rewrite ref_int_quot, ref_int_rem, ref_int_mod by exact Hb. repeat split.
Qed.

(** non-vacuity and magnitudes beyond 2^53 (where a float detour would round) *)
Example big_ints :
  arith OAdd (PInt (2 ^ 53)) (PInt 1) = Val (PInt 9007199254740993) /\
  arith OMul (PInt (10 ^ 30 + 1)) (PInt (10 ^ 30 - 1)) = Val (PInt (10 ^ 60 - 1)) /\
  arith ODiv (PInt (2 ^ 64)) (PInt (2 ^ 62)) = Val (PInt 4) /\
  arith ODiv (PInt (2 ^ 64 + 1)) (PInt 3) = Val (PFrac (18446744073709551617 # 3)) /\
  divop OQuot (PInt (- (10 ^ 30) - 1)) (PInt 7) = Val (PInt (-142857142857142857142857142857)) /\
  divop ORem (PInt (- (10 ^ 30) - 1)) (PInt 7) = Val (PInt (-2)) /\
  divop OMod (PInt (- (10 ^ 30) - 1)) (PInt 7) = Val (PInt 5) /\
  divop OQuot (PFrac (7 # 2)) (PFrac (1 # 3)) = Val (PInt 10) /\
  divop ORem (PFrac (-7 # 2)) (PFrac (1 # 3)) = Val (PFrac (-1 # 6)) /\
  divop OMod (PFrac (-7 # 2)) (PFrac (1 # 3)) = Val (PFrac (1 # 6)) /\
  arith OAdd (PFrac (1 # 2)) (PFrac (1 # 2)) = Val (PInt 1) /\
  normal (PFrac (7 # 2)) /\ normal (PFrac (1 # 3)) /\ ~ den (PFrac (1 # 3)) == 0.
Proof. vm_compute. repeat split; try reflexivity; try discriminate. Qed.

Example inline_example :
  existsb inlined [UInc; UDec; UIncq; UDecq; UNeg; UAbs; UInv; UZerop] = true /\
  eval_inline (XUn UInc (XArith ODiv (XLit (PInt 1)) (XLit (PInt 2)))) = Val (PFrac (3 # 2)) /\
  eval_inline (XUn UInc (XArith ODiv (XLit (PInt 1)) (XLit (PInt 0)))) = Exc EZeroDiv.
Proof. vm_compute. repeat split. Qed.
