(** C05: the invariant [good] for maps (and, through them, sets): the one-sided
    "every entry of one map is found in the other" test of immutables, together with equal
    sizes and keys that are pairwise distinct for the map, is a symmetric, transitive
    relation that preserves the hash. *)
From Coq Require Import List Bool ZArith QArith NArith Arith Lia Permutation.
Import ListNotations.
From Verif Require Import Common.ListX Gen.Prims Gen.Tables C05.Model C05.Unfold C05.Lemmas
  C05.Coherence C05.StrSort C05.Good.

Lemma uniq_entries (l : list (val * val)) :
  pairwise same_key (map fst l) = true ->
  forall e e', In e l -> In e' l ->
  same_key (fst e) (fst e') = true -> same_key (fst e') (fst e) = true -> e = e'.
Proof.
  induction l as [|h t IH]; simpl; intros P e e' He He' S1 S2; [destruct He|].
  apply andb_true_iff in P as [P1 P2]. rewrite forallb_forall in P1.
  destruct He as [<-|He], He' as [<-|He']; auto.
  - exfalso. specialize (P1 (fst e') (in_map fst _ _ He')). rewrite S1 in P1. discriminate.
  - exfalso. specialize (P1 (fst e) (in_map fst _ _ He)). rewrite S2 in P1. discriminate.
Qed.

Lemma look_a_intro f l kb vb ka va :
  (forall e e', In e l -> In e' l -> km f (fst e) kb = true -> km f (fst e') kb = true -> e = e') ->
  In (ka, va) l -> km f ka kb = true -> look_a f l kb vb = f va vb.
Proof.
  induction l as [|[k v] t IH]; simpl; intros U Hi Hk; [destruct Hi|].
  destruct (heq k kb && f k kb) eqn:E.
  - assert ((k, v) = (ka, va)) as Eq by (apply U; simpl; auto).
    inversion Eq; subst; reflexivity.
  - destruct Hi as [Eq|Hi]; [inversion Eq; subst; unfold km in Hk; congruence|].
    apply IH; auto; intros; apply U; simpl; auto.
Qed.
Lemma look_b_intro f ka va l kb vb :
  (forall e e', In e l -> In e' l -> km f ka (fst e) = true -> km f ka (fst e') = true -> e = e') ->
  In (kb, vb) l -> km f ka kb = true -> look_b f ka va l = f va vb.
Proof.
  induction l as [|[k v] t IH]; simpl; intros U Hi Hk; [destruct Hi|].
  destruct (heq ka k && f ka k) eqn:E.
  - assert ((k, v) = (kb, vb)) as Eq by (apply U; simpl; auto).
    inversion Eq; subst; reflexivity.
  - destruct Hi as [Eq|Hi]; [inversion Eq; subst; unfold km in Hk; congruence|].
    apply IH; auto; intros; apply U; simpl; auto.
Qed.

Lemma fop_impl {A} (P Q : A -> A -> Prop) l :
  (forall x y, P x y -> Q x y) -> ForallOrdPairs P l -> ForallOrdPairs Q l.
Proof.
  intros H F. induction F as [|x t Fx _ IH]; constructor; auto.
  eapply Forall_impl; [|exact Fx]. auto.
Qed.
Lemma pairwise_map_ordpairs {A B} (r : B -> B -> bool) (f : A -> B) l :
  pairwise r (map f l) = true ->
  ForallOrdPairs (fun e e' => In e l /\ In e' l /\ r (f e) (f e') = false) l.
Proof.
  induction l as [|x t IH]; simpl; intro H; [constructor|].
  apply andb_true_iff in H as [H1 H2]. rewrite forallb_forall in H1. constructor.
  - apply Forall_forall. intros y Hy. repeat split; auto.
    apply negb_true_iff. apply H1. apply in_map. exact Hy.
  - specialize (IH H2). eapply fop_impl; [|exact IH]. simpl. intros a b [? [? ?]]. auto.
Qed.

Definition wfl (l : list (val * val)) : Prop := forall x, In x (elems l) -> wf x = true.
Definition keys_ok (l : list (val * val)) : Prop := pairwise same_key (map fst l) = true.

Lemma wf_map l : wf (VMap l) = true -> wfl l /\ keys_ok l.
Proof.
  simpl. rewrite andb_true_iff, forallb_forall. intros [H P]. split; auto.
  intros x Hx. unfold elems in Hx. apply in_flat_map in Hx as [[k v] [Hi Hx]].
  specialize (H _ Hi). simpl in *. apply andb_true_iff in H. destruct Hx as [<-|[<-|[]]]; tauto.
Qed.

Definition fwd (f : val -> val -> bool) (la lb : list (val * val)) : Prop :=
  forall ka va, In (ka, va) la ->
  exists kb vb, In (kb, vb) lb /\ km f ka kb = true /\ f va vb = true.
Definition bwd (f : val -> val -> bool) (la lb : list (val * val)) : Prop :=
  forall kb vb, In (kb, vb) lb ->
  exists ka va, In (ka, va) la /\ km f ka kb = true /\ f va vb = true.

Lemma map_sup_bwd f la lb : map_sup f la lb = true -> bwd f la lb.
Proof. rewrite map_sup_forall. intros H kb vb Hi. apply look_a_true. auto. Qed.
Lemma map_sub_fwd f la lb : map_sub f la lb = true -> fwd f la lb.
Proof. rewrite map_sub_forall. intros H ka va Hi. apply look_b_true. auto. Qed.

Section MapGood.
  Variable la : list (val * val).
  Hypothesis GA : forall x, In x (elems la) -> good x.
  Hypothesis WA : wfl la.
  Hypothesis PA : keys_ok la.

  Lemma uniq_a kb : wf kb = true ->
    forall e e', In e la -> In e' la ->
    km py_eq (fst e) kb = true -> km py_eq (fst e') kb = true -> e = e'.
  Proof.
    intros W [k v] [k' v'] He He' H H'. simpl in *.
    apply (uniq_entries la PA); auto; simpl.
    - eapply good_common_r; eauto using in_elems_k.
    - eapply good_common_r; eauto using in_elems_k.
  Qed.

  Lemma uniq_b lb ka : good ka -> wfl lb -> keys_ok lb ->
    forall e e', In e lb -> In e' lb ->
    km py_eq ka (fst e) = true -> km py_eq ka (fst e') = true -> e = e'.
  Proof.
    intros G WB PB [k v] [k' v'] He He' H H'. simpl in *.
    apply (uniq_entries lb PB); auto; simpl.
    - eapply good_common_l; eauto using in_elems_k.
    - eapply good_common_l; eauto using in_elems_k.
  Qed.

  Lemma sup_iff lb : wfl lb -> (map_sup py_eq la lb = true <-> bwd py_eq la lb).
  Proof.
    intro WB. split; [apply map_sup_bwd|].
    intro H. apply map_sup_forall. intros kb vb Hi.
    destruct (H kb vb Hi) as [ka [va [Ha [Hk Hv]]]].
    rewrite (look_a_intro py_eq la kb vb ka va); auto.
    apply uniq_a. apply WB. eapply in_elems_k; eauto.
  Qed.

  Lemma sub_iff lb : wfl lb -> keys_ok lb -> (map_sub py_eq la lb = true <-> fwd py_eq la lb).
  Proof.
    intros WB PB. split; [apply map_sub_fwd|].
    intro H. apply map_sub_forall. intros ka va Hi.
    destruct (H ka va Hi) as [kb [vb [Hb [Hk Hv]]]].
    rewrite (look_b_intro py_eq ka va lb kb vb); auto.
    apply uniq_b; auto. apply GA. eapply in_elems_k; eauto.
  Qed.

  Lemma fwd_bwd lb : wfl lb -> keys_ok lb -> length la = length lb ->
    (fwd py_eq la lb <-> bwd py_eq la lb).
  Proof.
    intros WB PB Hlen. split; intro H.
    - (* every entry of la has a partner; la's keys are distinct: the partners exhaust lb *)
      pose (R := fun (ea eb : val * val) =>
                   wf (fst eb) = true /\ km py_eq (fst ea) (fst eb) = true /\ py_eq (snd ea) (snd eb) = true).
      assert (S : forall y, In y lb -> exists x, In x la /\ R x y).
      { apply matching_surj; auto.
        - intros [ka va] Hi. destruct (H ka va Hi) as [kb [vb [Hb [Hk Hv]]]].
          exists (kb, vb). split; auto. repeat split; auto. apply WB. eapply in_elems_k; eauto.
        - eapply fop_impl; [|apply (pairwise_map_ordpairs same_key fst la PA)].
          intros [k v] [k' v'] [Hi [Hi' Hs]] [kb vb] [W [Hk _]] [_ [Hk' _]]. simpl in *.
          rewrite (good_common_r k k' kb) in Hs; eauto using in_elems_k. discriminate. }
      intros kb vb Hi. destruct (S _ Hi) as [[ka va] [Ha [_ [Hk Hv]]]]. exists ka, va. auto.
    - pose (R := fun (eb ea : val * val) =>
                   good (fst ea) /\ km py_eq (fst ea) (fst eb) = true /\ py_eq (snd ea) (snd eb) = true).
      assert (S : forall x, In x la -> exists y, In y lb /\ R y x).
      { apply matching_surj; auto.
        - intros [kb vb] Hi. destruct (H kb vb Hi) as [ka [va [Ha [Hk Hv]]]].
          exists (ka, va). split; auto. split; [apply GA; eapply in_elems_k; eauto|split; auto].
        - eapply fop_impl; [|apply (pairwise_map_ordpairs same_key fst lb PB)].
          intros [k v] [k' v'] [Hi [Hi' Hs]] [ka va] [G [Hk _]] [_ [Hk' _]]. simpl in *.
          rewrite (good_common_l ka k k') in Hs; eauto using in_elems_k. discriminate. }
      intros ka va Hi. destruct (S _ Hi) as [[kb vb] [Hb [_ [Hk Hv]]]]. exists kb, vb. auto.
  Qed.

  Lemma map_norm sw lb : wfl lb ->
    eqd sw (VMap la) (VMap lb)
    = Nat.eqb (length la) (length lb) && (if sw then map_sub py_eq la lb else map_sup py_eq la lb).
  Proof.
    intro WB. rewrite eqd_map. f_equal. destruct sw.
    - apply map_sub_ext. intros x y Hx Hy. apply (good_any x false y); auto.
    - apply map_sup_ext. intros x y Hx Hy. apply (good_any x true y); auto.
  Qed.

  Lemma map_flip lb : wfl lb -> keys_ok lb -> length la = length lb ->
    map_sub py_eq la lb = map_sup py_eq la lb.
  Proof.
    intros WB PB Hlen. apply eq_true_iff_eq.
    rewrite (sub_iff lb WB PB), (sup_iff lb WB). apply fwd_bwd; auto.
  Qed.

  Lemma map_eq_iff sw lb : wfl lb -> keys_ok lb ->
    (eqd sw (VMap la) (VMap lb) = true <-> length la = length lb /\ bwd py_eq la lb).
  Proof.
    intros WB PB. rewrite (map_norm sw lb WB), andb_true_iff, Nat.eqb_eq.
    split; intros [Hlen H]; split; auto.
    - destruct sw; [rewrite (map_flip lb WB PB Hlen) in H|]; apply (sup_iff lb WB); exact H.
    - apply (sup_iff lb WB) in H. destruct sw; [rewrite (map_flip lb WB PB Hlen)|]; exact H.
  Qed.

  Lemma km_of x y : heq x y = true -> py_eq x y = true -> km py_eq x y = true.
  Proof. intros H1 H2. unfold km. rewrite H1, H2. reflexivity. Qed.

  Lemma map_matching lb : wfl lb -> keys_ok lb -> py_eq (VMap la) (VMap lb) = true ->
    exists lb', Permutation lb' lb /\
      Forall2 (fun ea eb => hash_of (fst ea) = hash_of (fst eb) /\ hash_of (snd ea) = hash_of (snd eb)) la lb'.
  Proof.
    intros WB PB H1. unfold py_eq in H1.
    apply (map_eq_iff false lb WB PB) in H1 as [L1 B1].
    assert (F1 := proj2 (fwd_bwd lb WB PB L1) B1).
    pose (R := fun (ea eb : val * val) =>
                 (wf (fst eb) = true /\ hash_of (fst ea) = hash_of (fst eb) /\ hash_of (snd ea) = hash_of (snd eb))
                 /\ km py_eq (fst ea) (fst eb) = true).
    destruct (matching_perm R la lb L1) as [lb' [Hp Hf]].
    + intros [ka va] Hi. destruct (F1 ka va Hi) as [kb [vb [Hb [Hk Hv]]]].
      exists (kb, vb). split; auto.
      assert (Wkb : wf kb = true) by (apply WB; eapply in_elems_k; eauto).
      assert (Wvb : wf vb = true) by (apply WB; eapply in_elems_v; eauto).
      unfold R; simpl. repeat split; auto.
      * apply (g_h ka (GA _ (in_elems_k _ _ _ Hi)) kb Wkb).
        unfold km in Hk. apply andb_true_iff in Hk. tauto.
      * apply (g_h va (GA _ (in_elems_v _ _ _ Hi)) vb Wvb Hv).
    + eapply fop_impl; [|apply (pairwise_map_ordpairs same_key fst la PA)].
      intros [k v] [k' v'] [Hi [Hi' Hs]] [kb vb] [[W _] Hk] [_ Hk']. simpl in *.
      rewrite (good_common_r k k' kb) in Hs; eauto using in_elems_k. discriminate.
    + exists lb'. split; auto. clear - Hf. induction Hf as [|a b ra rb [[_ ?] _] _ IH]; constructor; auto.
  Qed.

  Theorem map_good : good (VMap la).
  Proof.
    split.
    - (* a == b and b == a agree *)
      intros y W. destruct y as [| | | | | | |lb| |]; try (rewrite !eqd_unfold; reflexivity).
      destruct (wf_map _ W) as [WB PB]. rewrite !(map_norm _ lb WB).
      destruct (Nat.eqb (length la) (length lb)) eqn:E; simpl; auto.
      apply map_flip; auto. apply Nat.eqb_eq; auto.
    - (* transitive *)
      intros sw y z Wy Wz H1 H2. unfold py_eq in H1.
      destruct (eqd_map_inv _ _ _ H1) as [lb ->]. destruct (eqd_map_inv _ _ _ H2) as [lc ->].
      destruct (wf_map _ Wy) as [WB PB]. destruct (wf_map _ Wz) as [WC PC].
      apply (map_eq_iff false lb WB PB) in H1 as [L1 B1].
      rewrite eqd_map, andb_true_iff, Nat.eqb_eq in H2. destruct H2 as [L2 H2].
      apply (map_eq_iff false lc WC PC). split; [congruence|].
      destruct sw.
      + (* b == c evaluated as c.__eq__-side loop over b *)
        apply (fwd_bwd lc WC PC); [congruence|].
        apply (fwd_bwd lb WB PB L1) in B1. apply map_sub_fwd in H2.
        intros ka va Ha. destruct (B1 ka va Ha) as [kb [vb [Hb [Hk Hv]]]].
        destruct (H2 kb vb Hb) as [kc [vc [Hc [Hk2 Hv2]]]]. exists kc, vc. split; auto.
        unfold km in Hk, Hk2. apply andb_true_iff in Hk as [Hh Hk], Hk2 as [Hh2 Hk2].
        assert (Gk : good ka) by (apply GA; eapply in_elems_k; eauto).
        assert (Gv : good va) by (apply GA; eapply in_elems_v; eauto).
        split.
        * apply km_of; [eapply heq_trans; eauto|].
          apply (g_t ka Gk false kb kc); auto; [apply WB|apply WC]; eapply in_elems_k; eauto.
        * apply (g_t va Gv false vb vc); auto; [apply WB|apply WC]; eapply in_elems_v; eauto.
      + apply map_sup_bwd in H2.
        intros kc vc Hc. destruct (H2 kc vc Hc) as [kb [vb [Hb [Hk2 Hv2]]]].
        destruct (B1 kb vb Hb) as [ka [va [Ha [Hk Hv]]]]. exists ka, va. split; auto.
        unfold km in Hk, Hk2. apply andb_true_iff in Hk as [Hh Hk], Hk2 as [Hh2 Hk2].
        assert (Gk : good ka) by (apply GA; eapply in_elems_k; eauto).
        assert (Gv : good va) by (apply GA; eapply in_elems_v; eauto).
        split.
        * apply km_of; [eapply heq_trans; eauto|].
          apply (g_t ka Gk true kb kc); auto; [apply WB|apply WC]; eapply in_elems_k; eauto.
        * apply (g_t va Gv true vb vc); auto; [apply WB|apply WC]; eapply in_elems_v; eauto.
    - (* Euclidean *)
      intros sw y z Wy Wz H1 H2. unfold py_eq in H1, H2.
      destruct (eqd_map_inv _ _ _ H1) as [lb ->]. destruct (eqd_map_inv _ _ _ H2) as [lc ->].
      destruct (wf_map _ Wy) as [WB PB]. destruct (wf_map _ Wz) as [WC PC].
      apply (map_eq_iff false lb WB PB) in H1 as [L1 B1].
      apply (map_eq_iff false lc WC PC) in H2 as [L2 B2].
      assert (F1 := proj2 (fwd_bwd lb WB PB L1) B1). assert (F2 := proj2 (fwd_bwd lc WC PC L2) B2).
      rewrite eqd_map, andb_true_iff, Nat.eqb_eq. split; [congruence|].
      destruct sw.
      + apply map_sub_forall. intros kb vb Hb.
        destruct (B1 kb vb Hb) as [ka [va [Ha [Hk Hv]]]].
        destruct (F2 ka va Ha) as [kc [vc [Hc [Hk2 Hv2]]]].
        assert (Gk : good ka) by (apply GA; eapply in_elems_k; eauto).
        assert (Gv : good va) by (apply GA; eapply in_elems_v; eauto).
        assert (Wkb : wf kb = true) by (apply WB; eapply in_elems_k; eauto).
        assert (Wkc : wf kc = true) by (apply WC; eapply in_elems_k; eauto).
        unfold km in Hk, Hk2. apply andb_true_iff in Hk as [Hh Hk], Hk2 as [Hh2 Hk2].
        rewrite (look_b_intro (eqd false) kb vb lc kc vc); auto.
        * apply (g_e va Gv false vb vc); auto; [apply WB|apply WC]; eapply in_elems_v; eauto.
        * (* uniqueness of the entry of lc matching kb *)
          intros [k1 v1] [k2 v2] He He' M1 M2. simpl in *.
          assert (Wk1 : wf k1 = true) by (apply WC; eapply in_elems_k; eauto).
          assert (Wk2 : wf k2 = true) by (apply WC; eapply in_elems_k; eauto).
          unfold km in M1, M2. apply andb_true_iff in M1 as [Mh1 M1], M2 as [Mh2 M2].
          assert (K1 : km py_eq ka k1 = true).
          { apply km_of; [apply (heq_trans _ kb); auto|]. apply (g_t ka Gk false kb k1); auto. }
          assert (K2 : km py_eq ka k2 = true).
          { apply km_of; [apply (heq_trans _ kb); auto|]. apply (g_t ka Gk false kb k2); auto. }
          apply (uniq_entries lc PC); auto; simpl;
            [apply (good_common_l ka k1 k2)|apply (good_common_l ka k2 k1)]; auto.
        * unfold km. apply andb_true_iff. split.
          -- apply (heq_trans _ ka); auto. rewrite heq_sym; auto.
          -- apply (g_e ka Gk false kb kc); auto.
      + apply map_sup_forall. intros kc vc Hc.
        destruct (B2 kc vc Hc) as [ka [va [Ha [Hk2 Hv2]]]].
        destruct (F1 ka va Ha) as [kb [vb [Hb [Hk Hv]]]].
        assert (Gk : good ka) by (apply GA; eapply in_elems_k; eauto).
        assert (Gv : good va) by (apply GA; eapply in_elems_v; eauto).
        assert (Wkb : wf kb = true) by (apply WB; eapply in_elems_k; eauto).
        assert (Wkc : wf kc = true) by (apply WC; eapply in_elems_k; eauto).
        unfold km in Hk, Hk2. apply andb_true_iff in Hk as [Hh Hk], Hk2 as [Hh2 Hk2].
        rewrite (look_a_intro (eqd true) lb kc vc kb vb); auto.
        * apply (g_e va Gv true vb vc); auto; [apply WB|apply WC]; eapply in_elems_v; eauto.
        * intros [k1 v1] [k2 v2] He He' M1 M2. simpl in *.
          assert (Wk1 : wf k1 = true) by (apply WB; eapply in_elems_k; eauto).
          assert (Wk2 : wf k2 = true) by (apply WB; eapply in_elems_k; eauto).
          unfold km in M1, M2. apply andb_true_iff in M1 as [Mh1 M1], M2 as [Mh2 M2].
          (* eqd true k1 kc is "kc == k1" *)
          rewrite (eqd_coh k1 true kc) in M1. rewrite (eqd_coh k2 true kc) in M2. simpl in M1, M2.
          assert (K1 : km py_eq ka k1 = true).
          { apply km_of; [apply (heq_trans _ kc); auto; rewrite heq_sym; auto|].
            apply (g_t ka Gk false kc k1); auto. }
          assert (K2 : km py_eq ka k2 = true).
          { apply km_of; [apply (heq_trans _ kc); auto; rewrite heq_sym; auto|].
            apply (g_t ka Gk false kc k2); auto. }
          apply (uniq_entries lb PB); auto; simpl;
            [apply (good_common_l ka k1 k2)|apply (good_common_l ka k2 k1)]; auto.
        * unfold km. apply andb_true_iff. split.
          -- apply (heq_trans _ ka); auto. rewrite heq_sym; auto.
          -- apply (g_e ka Gk true kb kc); auto.
    - (* same hash *)
      intros y Wy H1. destruct (eqd_map_inv _ _ _ H1) as [lb ->].
      destruct (wf_map _ Wy) as [WB PB].
      destruct (map_matching lb WB PB H1) as [lb' [Hp Hf]].
      simpl. apply hbag_perm.
      transitivity (flat_map (fun kv => [hash_of (fst kv); hash_of (snd kv)]) lb').
      + clear - Hf. induction Hf as [|ea eb ra rb [E1 E2] _ IH]; simpl; auto.
        rewrite E1, E2, IH. reflexivity.
      + apply Permutation_flat_map. exact Hp.
  Qed.
End MapGood.
