(** C05: the theorems about [equals] (core [=]), [hash_of] and lookup, derived from
    Main.wf_good. *)
From Coq Require Import List Bool ZArith QArith NArith Arith Lia Permutation.
Import ListNotations.
From Verif Require Import Common.ListX Gen.Prims Gen.Tables C05.Model C05.Unfold C05.Lemmas
  C05.Coherence C05.StrSort C05.Good C05.MapGood C05.Main.

(** * Python's [==] on well-formed values *)
Theorem py_eq_sym x y : wf x = true -> wf y = true -> py_eq x y = py_eq y x.
Proof. intros Wx Wy. symmetry. apply good_sym; auto using wf_good. Qed.

Theorem py_eq_trans x y z : wf x = true -> wf y = true -> wf z = true ->
  py_eq x y = true -> py_eq y z = true -> py_eq x z = true.
Proof. intros Wx Wy Wz. apply (g_t x (wf_good x Wx) false y z Wy Wz). Qed.

Theorem py_eq_hash x y : wf x = true -> wf y = true -> py_eq x y = true -> hash_of x = hash_of y.
Proof. intros Wx Wy. apply (g_h x (wf_good x Wx) y Wy). Qed.

(** the two evaluation orders of one comparison agree *)
Theorem eqd_flag x y sw : wf x = true -> wf y = true -> eqd sw x y = py_eq x y.
Proof. intros Wx Wy. apply good_any; auto using wf_good. Qed.

(** * runtime.equals *)
Lemma identical_singleton_eq a b : identical_singleton a b = true -> a = b.
Proof.
  destruct a, b; simpl; try discriminate; auto. intro H. apply eqb_prop in H. congruence.
Qed.
Lemma identical_singleton_sym a b : identical_singleton a b = identical_singleton b a.
Proof. destruct a, b; simpl; auto. destruct b, b0; reflexivity. Qed.
Lemma identical_refl a : is_bool_or_nil a = true -> identical_singleton a a = true.
Proof. destruct a; simpl; try discriminate; auto. intros _. apply eqb_reflx. Qed.

Theorem equals_sym x y : wf x = true -> wf y = true -> equals x y = equals y x.
Proof.
  intros Wx Wy. unfold equals. rewrite (orb_comm (is_bool_or_nil y)).
  destruct (is_bool_or_nil x || is_bool_or_nil y).
  - apply identical_singleton_sym.
  - apply py_eq_sym; auto.
Qed.

Theorem equals_trans x y z : wf x = true -> wf y = true -> wf z = true ->
  equals x y = true -> equals y z = true -> equals x z = true.
Proof.
  intros Wx Wy Wz. unfold equals.
  destruct (is_bool_or_nil x || is_bool_or_nil y) eqn:G1.
  - intros H1. apply identical_singleton_eq in H1. subst y. auto.
  - destruct (is_bool_or_nil y || is_bool_or_nil z) eqn:G2.
    + intros H1 H2. apply identical_singleton_eq in H2. subst z. rewrite G1. exact H1.
    + apply orb_false_iff in G1 as [Gx Gy]. apply orb_false_iff in G2 as [_ Gz].
      rewrite Gx, Gz. simpl. apply py_eq_trans; auto.
Qed.

Theorem equals_hash x y : wf x = true -> wf y = true -> equals x y = true -> hash_of x = hash_of y.
Proof.
  intros Wx Wy. unfold equals. destruct (is_bool_or_nil x || is_bool_or_nil y).
  - intro H. apply identical_singleton_eq in H. congruence.
  - apply py_eq_hash; auto.
Qed.

(** * reflexivity, except for NaN *)
Lemma num_eq_refl n : n <> NaN -> num_eq n n = true.
Proof.
  destruct n; simpl; auto; try congruence. intros _. apply Qeq_bool_iff. apply Qeq_refl.
Qed.

Lemma seq_all2_refl l : Forall (fun x => py_eq x x = true) l -> seq_all2 py_eq l l = true.
Proof. induction 1; simpl; auto. rewrite H, IHForall. reflexivity. Qed.

Lemma existsb_false {A} (p : A -> bool) l : existsb p l = false -> forall x, In x l -> p x = false.
Proof.
  intros H x Hx. destruct (p x) eqn:E; auto.
  assert (existsb p l = true) by (apply existsb_exists; eauto). congruence.
Qed.

Theorem py_eq_refl : forall x, wf x = true -> has_nan x = false -> py_eq x x = true.
Proof.
  induction x as [|b|k n|s|ns nm|ns nm|k l IH|l IH|t l IH|l IH] using val_ind'; intros W N.
  - reflexivity.
  - unfold py_eq. rewrite eqd_atom_l by reflexivity. simpl. destruct b; reflexivity.
  - unfold py_eq. rewrite eqd_atom_l by reflexivity. simpl. apply num_eq_refl.
    intro E. subst. discriminate.
  - unfold py_eq. rewrite eqd_atom_l by reflexivity. simpl. apply str_eqb_refl.
  - unfold py_eq. rewrite eqd_atom_l by reflexivity. simpl. apply name_eqb_eq. auto.
  - unfold py_eq. rewrite eqd_atom_l by reflexivity. simpl. apply name_eqb_eq. auto.
  - assert (Wl := wf_seq _ _ W). unfold py_eq. rewrite eqd_seq.
    rewrite seq_norm; auto.
    + apply seq_all2_refl. simpl in N. rewrite Forall_forall in *. intros x Hx.
      apply IH; auto. apply (existsb_false _ _ N x Hx).
    + rewrite Forall_forall in *. intros; apply wf_good; auto.
  - destruct (wf_map _ W) as [WA PA].
    assert (GA : forall x, In x (elems l) -> good x) by (intros; apply wf_good; auto).
    apply (map_eq_iff l GA WA PA false l WA PA). split; auto.
    intros kb vb Hi. exists kb, vb. split; auto.
    simpl in N. apply (existsb_false _ _ N) in Hi as Hn. simpl in Hn. apply orb_false_iff in Hn as [Nk Nv].
    rewrite Forall_forall in IH. destruct (IH _ Hi) as [IHk IHv]. simpl in *.
    split.
    + apply km_of; [apply heq_refl|]. apply IHk; auto. apply WA. eapply in_elems_k; eauto.
    + apply IHv; auto. apply WA. eapply in_elems_v; eauto.
  - assert (Wl := wf_rec _ _ W). unfold py_eq. rewrite eqd_rec, str_eqb_refl. simpl.
    rewrite seq_norm; auto.
    + apply seq_all2_refl. simpl in N. rewrite Forall_forall in *. intros x Hx.
      apply IH; auto. apply (existsb_false _ _ N x Hx).
    + rewrite Forall_forall in *. intros; apply wf_good; auto.
  - assert (WM := wf_set_unit _ W). destruct (wf_map _ WM) as [WA PA].
    assert (GA : forall x, In x (elems (unit_map l)) -> good x) by (intros; apply wf_good; auto).
    unfold py_eq. rewrite eqd_set_as_map. simpl negb.
    apply (map_eq_iff (unit_map l) GA WA PA true (unit_map l) WA PA). split; auto.
    intros kb vb Hi. exists kb, vb. split; auto. apply in_unit in Hi as [Hk ->].
    destruct (wf_set _ W) as [W1 _]. rewrite Forall_forall in IH. simpl in N.
    split; [|reflexivity]. apply km_of; [apply heq_refl|]. apply IH; auto.
    apply (existsb_false _ _ N _ Hk).
Qed.

Theorem equals_refl x : wf x = true -> has_nan x = false -> equals x x = true.
Proof.
  intros W N. unfold equals. rewrite orb_diag. destruct (is_bool_or_nil x) eqn:G.
  - apply identical_refl. exact G.
  - apply py_eq_refl; auto.
Qed.

(** * sequential collections: equal iff pairwise equal, in order *)
Theorem seq_eq_iff k la k' lb : wf (VSeq k la) = true -> wf (VSeq k' lb) = true ->
  (equals (VSeq k la) (VSeq k' lb) = true <-> Forall2 (fun x y => py_eq x y = true) la lb).
Proof.
  intros Wa Wb. unfold equals. simpl orb. cbv iota. unfold py_eq at 1. rewrite eqd_seq.
  rewrite seq_norm.
  - apply seq_all2_Forall2.
  - apply wf_seq in Wa. rewrite Forall_forall in *. intros; apply wf_good; auto.
  - apply (wf_seq _ _ Wb).
Qed.

Definition is_bool (v : val) : bool := match v with VBool _ => true | _ => false end.
Lemma equals_py_eq x y : is_bool x = false -> is_bool y = false -> equals x y = py_eq x y.
Proof.
  intros Bx By. unfold equals, py_eq.
  destruct (is_bool_or_nil x) eqn:Gx.
  - destruct x; try discriminate. rewrite eqd_atom_l by reflexivity. destruct y; reflexivity.
  - destruct (is_bool_or_nil y) eqn:Gy; simpl; [|reflexivity].
    destruct y; try discriminate. rewrite eqd_atom_r by reflexivity.
    destruct x; try discriminate; reflexivity.
Qed.

(** * maps and sets: equal iff same size and every entry (member) has an equal one *)
Theorem map_eq_iff_entries la lb : wf (VMap la) = true -> wf (VMap lb) = true ->
  (equals (VMap la) (VMap lb) = true <->
   length la = length lb /\
   forall ka va, In (ka, va) la -> exists kb vb, In (kb, vb) lb /\ py_eq ka kb = true /\ py_eq va vb = true).
Proof.
  intros Wa Wb. destruct (wf_map _ Wa) as [WA PA]. destruct (wf_map _ Wb) as [WB PB].
  assert (GA : forall x, In x (elems la) -> good x) by (intros; apply wf_good; auto).
  unfold equals. simpl orb. cbv iota. unfold py_eq at 1.
  rewrite (map_eq_iff la GA WA PA false lb WB PB).
  split; intros [L H]; split; auto.
  - apply (fwd_bwd la GA WA PA lb WB PB L) in H.
    intros ka va Hi. destruct (H ka va Hi) as [kb [vb [Hb [Hk Hv]]]]. exists kb, vb.
    unfold km in Hk. apply andb_true_iff in Hk. tauto.
  - apply (fwd_bwd la GA WA PA lb WB PB L).
    intros ka va Hi. destruct (H ka va Hi) as [kb [vb [Hb [Hk Hv]]]]. exists kb, vb.
    split; auto. split; auto.
    rewrite good_km; auto. + apply GA. eapply in_elems_k; eauto. + apply WB. eapply in_elems_k; eauto.
Qed.

Theorem set_eq_iff_members la lb : wf (VSet la) = true -> wf (VSet lb) = true ->
  (equals (VSet la) (VSet lb) = true <->
   length la = length lb /\ forall x, In x la -> exists y, In y lb /\ py_eq x y = true).
Proof.
  intros Wa Wb.
  assert (WMa := wf_set_unit _ Wa). assert (WMb := wf_set_unit _ Wb).
  assert (H := map_eq_iff_entries _ _ WMa WMb).
  unfold equals in *. simpl orb in *. cbv iota in *. unfold py_eq at 1.
  rewrite eqd_set_as_map. simpl negb. rewrite (eqd_flag _ _ true WMa WMb). rewrite H.
  rewrite !unit_length. split; intros [L F]; split; auto.
  - intros x Hx. destruct (F x VNil (unit_in _ _ Hx)) as [kb [vb [Hb [Hk _]]]].
    apply in_unit in Hb as [Hb _]. eauto.
  - intros ka va Hi. apply in_unit in Hi as [Hi ->]. destruct (F ka Hi) as [y [Hy E]].
    exists y, VNil. split; [apply unit_in; auto|]. auto.
Qed.

(** * lookup: equal values find the same entries *)
Lemma key_match_congr x y k : wf x = true -> wf y = true -> wf k = true ->
  equals x y = true -> key_match x k = key_match y k.
Proof.
  intros Wx Wy Wk E. unfold equals in E.
  destruct (is_bool_or_nil x || is_bool_or_nil y).
  - apply identical_singleton_eq in E. congruence.
  - unfold key_match, heq. rewrite (py_eq_hash x y Wx Wy E). f_equal.
    apply eq_true_iff_eq. split; intro H.
    + apply (py_eq_trans y x k); auto. rewrite py_eq_sym; auto.
    + apply (py_eq_trans x y k); auto.
Qed.

Theorem lookup_interchangeable m x y :
  (forall k v, In (k, v) m -> wf k = true) -> wf x = true -> wf y = true ->
  equals x y = true -> lookup m x = lookup m y.
Proof.
  intros Wm Wx Wy E. induction m as [|[k v] r IH]; simpl; auto.
  rewrite (key_match_congr x y k); auto.
  - rewrite IH; auto. intros; eapply Wm; simpl; eauto.
  - eapply Wm; simpl; eauto.
Qed.

Theorem contains_interchangeable s x y :
  (forall k, In k s -> wf k = true) -> wf x = true -> wf y = true ->
  equals x y = true -> contains s x = contains s y.
Proof.
  intros Ws Wx Wy E. unfold contains. apply existsb_ext_in. intros k Hk.
  apply key_match_congr; auto.
Qed.

(** a key is found with any equal probe, and only with a probe that is [==] *)
Theorem lookup_finds k v x : wf k = true -> wf x = true -> is_bool k = false -> is_bool x = false ->
  (lookup [(k, v)] x = Some v <-> equals x k = true).
Proof.
  intros Wk Wx Bk Bx. simpl. rewrite (equals_py_eq x k Bx Bk). unfold key_match.
  destruct (py_eq x k) eqn:E.
  - rewrite (proj2 (heq_eq x k) (py_eq_hash x k Wx Wk E)). simpl. tauto.
  - rewrite andb_false_r. split; discriminate.
Qed.

(** * booleans *)
Theorem bool_not_number b k n : equals (VBool b) (VNum k n) = false /\ equals (VNum k n) (VBool b) = false.
Proof. split; reflexivity. Qed.
Theorem bool_only_itself b y : equals (VBool b) y = true <-> y = VBool b.
Proof.
  unfold equals. simpl. destruct y; simpl; split; try discriminate; try congruence.
  - intro H. apply eqb_prop in H. congruence.
  - intro H. inversion H. apply eqb_reflx.
Qed.
Theorem nil_only_itself y : equals VNil y = true <-> y = VNil.
Proof. unfold equals. simpl. destruct y; simpl; split; try discriminate; auto. Qed.

(** * NaN *)
Theorem nan_never_equal k y : equals (VNum k NaN) y = false /\ equals y (VNum k NaN) = false.
Proof.
  unfold equals, py_eq. simpl is_bool_or_nil. split.
  - destruct (is_bool_or_nil y) eqn:G; simpl orb; cbv iota.
    + destruct y; try discriminate; reflexivity.
    + rewrite eqd_atom_l by reflexivity. destruct y; try reflexivity; discriminate.
  - rewrite orb_false_r. destruct (is_bool_or_nil y) eqn:G.
    + destruct y; try discriminate; reflexivity.
    + rewrite eqd_atom_r by reflexivity. destruct y; try reflexivity; try discriminate.
      simpl. destruct n; reflexivity.
Qed.

(** * every sequential type hashes alike (F-05a repaired; breaks if a family changes) *)
Theorem seq_hash_kind_independent k k' l : hash_of (VSeq k l) = hash_of (VSeq k' l).
Proof. simpl. rewrite !family_ok. reflexivity. Qed.
