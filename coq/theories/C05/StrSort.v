(** C05: the canonical order of the members of an order-independent hash ([ssort]) does
    not depend on the order in which the members are listed. *)
From Coq Require Import List Bool NArith Arith Lia Permutation Sorted.
Import ListNotations.
From Verif Require Import Common.ListX C05.Model.

Definition sle (a b : str) : Prop := str_ltb b a = false.

Lemma sle_refl a : sle a a.
Proof. apply str_ltb_irrefl. Qed.

Lemma sle_trans a b c : sle a b -> sle b c -> sle a c.
Proof.
  unfold sle. intros H1 H2. destruct (str_ltb c a) eqn:E; [|reflexivity].
  destruct (str_ltb b c) eqn:E2.
  - rewrite (str_ltb_trans b c a E2 E) in H1. discriminate.
  - assert (b = c) by (apply str_ltb_total; auto). subst. congruence.
Qed.

Lemma sle_total a b : sle a b \/ sle b a.
Proof.
  unfold sle. destruct (str_ltb b a) eqn:E; auto. right. apply str_ltb_asym. exact E.
Qed.

Lemma sle_antisym a b : sle a b -> sle b a -> a = b.
Proof. unfold sle. intros. apply str_ltb_total; auto. Qed.

Lemma sinsert_perm x l : Permutation (sinsert x l) (x :: l).
Proof.
  induction l as [|y r IH]; simpl; auto.
  destruct (str_ltb y x); auto.
  rewrite IH. apply perm_swap.
Qed.

Lemma ssort_perm l : Permutation (ssort l) l.
Proof.
  induction l as [|x r IH]; simpl; auto.
  rewrite sinsert_perm. auto.
Qed.

Lemma sinsert_sorted x l : StronglySorted sle l -> StronglySorted sle (sinsert x l).
Proof.
  induction l as [|y r IH]; simpl; intro S.
  - constructor; constructor.
  - inversion S as [|? ? Sr Fy]; subst.
    destruct (str_ltb y x) eqn:E.
    + constructor; auto.
      apply (Permutation_Forall (Permutation_sym (sinsert_perm x r))).
      constructor; auto. unfold sle. apply str_ltb_asym. exact E.
    + constructor; auto. constructor; [exact E|].
      eapply Forall_impl; [|exact Fy]. intros z Hz. eapply sle_trans; [exact E|exact Hz].
Qed.

Lemma ssort_sorted l : StronglySorted sle (ssort l).
Proof.
  induction l as [|x r IH]; simpl; [constructor|]. apply sinsert_sorted. exact IH.
Qed.

Lemma sorted_perm_eq : forall l1 l2,
  StronglySorted sle l1 -> StronglySorted sle l2 -> Permutation l1 l2 -> l1 = l2.
Proof.
  induction l1 as [|x r1 IH]; intros l2 S1 S2 Hp.
  - apply Permutation_nil in Hp. auto.
  - destruct l2 as [|y r2]; [apply Permutation_sym, Permutation_nil in Hp; discriminate|].
    inversion S1 as [|? ? S1' F1]; subst. inversion S2 as [|? ? S2' F2]; subst.
    assert (x = y).
    { assert (I1 : In x (y :: r2)) by (apply (Permutation_in _ Hp); left; auto).
      assert (I2 : In y (x :: r1)) by (apply (Permutation_in _ (Permutation_sym Hp)); left; auto).
      rewrite Forall_forall in F1, F2.
      destruct I1 as [->|I1]; auto. destruct I2 as [->|I2]; auto.
      apply sle_antisym; auto. }
    subst y. f_equal. apply IH; auto. eapply Permutation_cons_inv; eauto.
Qed.

Theorem ssort_perm_eq l1 l2 : Permutation l1 l2 -> ssort l1 = ssort l2.
Proof.
  intro Hp. apply sorted_perm_eq; try apply ssort_sorted.
  rewrite ssort_perm, Hp. symmetry. apply ssort_perm.
Qed.

Corollary hbag_perm l1 l2 : Permutation l1 l2 -> hbag l1 = hbag l2.
Proof.
  intro Hp. unfold hbag. rewrite (ssort_perm_eq _ _ Hp), (Permutation_length Hp). reflexivity.
Qed.
