(** C05 correspondence interface: cases, observable outputs, spec predicate, model, tag. *)
From Coq Require Import List Bool ZArith QArith NArith.
Import ListNotations.
From Verif Require Export Common.ListX C05.Values C05.Model C05.Spec.

Inductive case :=
| CPair (same : bool) (x y : val)   (* same = true: y is the very object x (and the JSON repeats it) *)
| CTriple (x y z : val).            (* three separately built objects *)

Inductive out :=
| OBits (l : list bool)
  (* CPair: [(= x y); (= y x); (= (hash x) (hash y));
             (get (hash-map x :found) y) found; (get (hash-map y :found) x) found;
             (contains? (hash-set x) y); (contains? (hash-set y) x)]
     CTriple: [(= x y); (= y x); (= y z); (= z y); (= x z); (= z x)] *)
| OErr (cls : N).                   (* 1 exception, 2 malformed/build failure, 3 timeout/hang *)

Definition out_eqb (a b : out) : bool :=
  match a, b with
  | OBits l1, OBits l2 => list_eqb Bool.eqb l1 l2
  | OErr a, OErr b => N.eqb a b
  | _, _ => false
  end.

Definition imp (a b : bool) : bool := negb a || b.

Definition spec_ok (c : case) (o : out) : bool :=
  match c, o with
  | CPair same x y, OBits [exy; eyx; h; gxy; gyx; cxy; cyx] =>
      let r := ref_equal same x y in
      Bool.eqb exy r && Bool.eqb eyx r && imp r h
      && (if same then imp r gxy && imp r gyx && imp r cxy && imp r cyx
          else Bool.eqb gxy r && Bool.eqb gyx r && Bool.eqb cxy r && Bool.eqb cyx r)
  | CTriple x y z, OBits [xy; yx; yz; zy; xz; zx] =>
      Bool.eqb xy (ref_eq x y) && Bool.eqb yx (ref_eq y x) && Bool.eqb yz (ref_eq y z)
      && Bool.eqb zy (ref_eq z y) && Bool.eqb xz (ref_eq x z) && Bool.eqb zx (ref_eq z x)
      (* the laws, on the implementation's own answers *)
      && Bool.eqb xy yx && Bool.eqb yz zy && Bool.eqb xz zx && imp (xy && yz) xz
  | _, _ => false
  end.

(** Observations predicted by the model of the code.  Object identity is not part of [val]:
    for [same = true] every [__eq__] of the repo starts with [self is other] (records:
    [identical?]; Symbol/str/numbers compare contents) so [=] holds unless the object is the
    float NaN, its hash is its own hash, and immutables finds a key by identity first.
    hash(NaN) is identity based (CPython >= 3.10): two separately built values containing a
    NaN never hash alike. *)
Definition hash_same (x y : val) : bool := negb (has_nan x || has_nan y) && heq x y.

Definition model (c : case) : out :=
  match c with
  | CPair true x _ =>
      let r := negb (is_nan x) in OBits [r; r; true; true; true; true; true]
  | CPair false x y =>
      (* get and contains? run the same immutables lookup: probe == stored after a hash match *)
      let gxy := key_match y x in
      let gyx := key_match x y in
      OBits [equals x y; equals y x; hash_same x y; gxy; gyx; gxy; gyx]
  | CTriple x y z =>
      OBits [equals x y; equals y x; equals y z; equals z y; equals x z; equals z x]
  end.

(** defect tag: bit 0 = a boolean occurs in one of the operands (F-05b can only fire then) *)
Definition tag (c : case) : N :=
  match c with
  | CPair _ x y => if has_bool x || has_bool y then 1%N else 0%N
  | CTriple x y z => if has_bool x || has_bool y || has_bool z then 1%N else 0%N
  end.
