(** C05: induction principle for [val] and the unfolding equations of [eqd]: the protocol
    (method of the left operand, reflected method, subclass priority, length pre-checks)
    collapses, class pair by class pair, to the loops of Model.Schemes. *)
From Coq Require Import List Bool ZArith QArith NArith Arith Lia.
Import ListNotations.
From Verif Require Import Common.ListX Gen.Prims Gen.Tables C05.Model.

Section ValInd.
  Variable P : val -> Prop.
  Hypothesis Hnil : P VNil.
  Hypothesis Hbool : forall b, P (VBool b).
  Hypothesis Hnum : forall k n, P (VNum k n).
  Hypothesis Hstr : forall s, P (VStr s).
  Hypothesis Hkw : forall ns nm, P (VKw ns nm).
  Hypothesis Hsym : forall ns nm, P (VSym ns nm).
  Hypothesis Hseq : forall k l, Forall P l -> P (VSeq k l).
  Hypothesis Hmap : forall l, Forall (fun kv => P (fst kv) /\ P (snd kv)) l -> P (VMap l).
  Hypothesis Hrec : forall t l, Forall P l -> P (VRec t l).
  Hypothesis Hset : forall l, Forall P l -> P (VSet l).

  Fixpoint val_ind' (v : val) : P v :=
    let fix go (l : list val) : Forall P l :=
      match l with [] => Forall_nil _ | x :: r => Forall_cons _ (val_ind' x) (go r) end in
    let fix gom (l : list (val * val)) : Forall (fun kv => P (fst kv) /\ P (snd kv)) l :=
      match l with
      | [] => Forall_nil _
      | (k, v) :: r => Forall_cons (k, v) (conj (val_ind' k) (val_ind' v)) (gom r)
      end in
    match v with
    | VNil => Hnil
    | VBool b => Hbool b
    | VNum k n => Hnum k n
    | VStr s => Hstr s
    | VKw ns nm => Hkw ns nm
    | VSym ns nm => Hsym ns nm
    | VSeq k l => Hseq k l (go l)
    | VMap l => Hmap l (gom l)
    | VRec t l => Hrec t l (go l)
    | VSet l => Hset l (go l)
    end.
End ValInd.

(** [==] on the non-collection values: exact numeric value (True = 1, False = 0), same text *)
Definition numval (v : val) : option num :=
  match v with VBool b => Some (b2n b) | VNum _ n => Some n | _ => None end.
Definition atom_eq (a b : val) : bool :=
  match a, b with
  | VNil, VNil => true
  | (VBool _ | VNum _ _), (VBool _ | VNum _ _) =>
      match numval a, numval b with Some n, Some m => num_eq n m | _, _ => false end
  | VStr s, VStr t => str_eqb s t
  | VKw ns nm, VKw ns' nm' => name_eqb ns nm ns' nm'
  | VSym ns nm, VSym ns' nm' => name_eqb ns nm ns' nm'
  | _, _ => false
  end.

(** which operand's [__eq__] runs first decides the operand order of the element comparisons *)
Definition flip (sw : bool) (a b : val) : bool :=
  if sw then proper_subclass a b else proper_subclass b a.

Definition ceq_step (rec : bool -> val -> val -> bool) (sw : bool) (a b : val) : bool :=
  match a, b with
  | VSeq _ la, VSeq _ lb => seq_all2 (rec (xorb sw (flip sw a b))) la lb
  | VMap la, VMap lb =>
      Nat.eqb (length la) (length lb)
      && (if sw then map_sub (rec false) la lb else map_sup (rec true) la lb)
  | VRec t la, VRec t' lb => str_eqb t t' && seq_all2 (rec sw) la lb
  | VSet la, VSet lb =>
      Nat.eqb (length la) (length lb)
      && (if sw then set_sup (rec true) la lb else set_sub (rec false) la lb)
  | _, _ => atom_eq a b
  end.

Lemma seq_all2_length f la : forall lb, seq_all2 f la lb = true -> length la = length lb.
Proof.
  induction la as [|x ra IH]; intros [|y rb]; simpl; intro H; try discriminate; auto.
  apply andb_true_iff in H as [_ H]. f_equal; auto.
Qed.

Lemma seq_all2_len_false f la lb : Nat.eqb (length la) (length lb) = false -> seq_all2 f la lb = false.
Proof.
  intro H. destruct (seq_all2 f la lb) eqn:E; [|reflexivity].
  apply seq_all2_length in E. rewrite E, Nat.eqb_refl in H. discriminate.
Qed.

Lemma num_eq_sym a b : num_eq a b = num_eq b a.
Proof.
  destruct a as [x| | |], b as [y| | |]; simpl; auto.
  destruct (Qeq_bool x y) eqn:E1, (Qeq_bool y x) eqn:E2; auto.
  - apply Qeq_bool_iff in E1. symmetry in E1. apply Qeq_bool_iff in E1. congruence.
  - apply Qeq_bool_iff in E2. symmetry in E2. apply Qeq_bool_iff in E2. congruence.
Qed.

Lemma str_eqb_sym a b : str_eqb a b = str_eqb b a.
Proof.
  destruct (str_eqb a b) eqn:E1, (str_eqb b a) eqn:E2; auto.
  - apply str_eqb_eq in E1. subst. rewrite str_eqb_refl in E2. discriminate.
  - apply str_eqb_eq in E2. subst. rewrite str_eqb_refl in E1. discriminate.
Qed.

Lemma ostr_eqb_sym a b : ostr_eqb a b = ostr_eqb b a.
Proof. destruct a, b; simpl; auto. apply str_eqb_sym. Qed.

Lemma name_eqb_sym ns nm ns' nm' : name_eqb ns nm ns' nm' = name_eqb ns' nm' ns nm.
Proof. unfold name_eqb. rewrite ostr_eqb_sym, str_eqb_sym. reflexivity. Qed.

Lemma eqb_sym_nat a b : Nat.eqb a b = Nat.eqb b a.
Proof. apply Nat.eqb_sym. Qed.

Ltac dk := repeat match goal with k : nkind |- _ => destruct k | k : skind |- _ => destruct k end.
Ltac kill_len :=
  repeat match goal with
  | |- context [Nat.eqb ?a ?b] => let E := fresh "E" in destruct (Nat.eqb a b) eqn:E; simpl
  end.
Ltac len_contra :=
  match goal with
  | H1 : Nat.eqb ?a ?b = true, H2 : Nat.eqb ?b ?a = false |- _ =>
      rewrite Nat.eqb_sym in H1; congruence
  end.
Ltac fin :=
  first [ reflexivity
        | rewrite num_eq_sym; reflexivity
        | rewrite str_eqb_sym; reflexivity
        | rewrite name_eqb_sym; reflexivity
        | len_contra
        | match goal with
          | H : Nat.eqb (length ?la) (length ?lb) = false |- context [seq_all2 ?f ?la ?lb] =>
              rewrite (seq_all2_len_false f la lb H); reflexivity
          | H : Nat.eqb (length ?lb) (length ?la) = false |- context [seq_all2 ?f ?la ?lb] =>
              rewrite Nat.eqb_sym in H; rewrite (seq_all2_len_false f la lb H); reflexivity
          | x : bool, y : bool |- _ => destruct x, y; reflexivity
          end ].

(** One step of [eqd], for every pair of classes. *)
Lemma eqd_unfold sw a b : eqd sw a b = ceq_step eqd sw a b.
Proof.
  destruct a as [|x|k n|s|ns nm|ns nm|k la|la|t la|la];
  destruct b as [|y|k' n'|s'|ns' nm'|ns' nm'|k' lb|lb|t' lb|lb];
  destruct sw; dk; simpl; unfold len_differs; simpl; kill_len; fin.
Qed.
