(** C05: what the regenerated tables (Gen/Tables.v, harness/tr/tr_equality.py) must be for
    the model of Model.v to be the model of the source. *)
From Coq Require Import List NArith Bool.
Import ListNotations.
From Verif Require Import Common.ListX Gen.Tables.

(** the classes of interfaces.py, keyword.py, list.py, map.py, queue.py, set.py, symbol.py,
    vector.py that define their own __eq__ / __hash__ (all of them are modelled; the
    transient collections compare by identity) *)
Definition expected_eq_hash_classes : list str := [
  [105%N; 110%N; 116%N; 101%N; 114%N; 102%N; 97%N; 99%N; 101%N; 115%N; 46%N; 112%N; 121%N; 58%N; 73%N; 83%N; 101%N; 113%N; 46%N; 95%N; 95%N; 101%N; 113%N; 95%N; 95%N] (* interfaces.py:ISeq.__eq__ *);
  [105%N; 110%N; 116%N; 101%N; 114%N; 102%N; 97%N; 99%N; 101%N; 115%N; 46%N; 112%N; 121%N; 58%N; 73%N; 83%N; 101%N; 113%N; 46%N; 95%N; 95%N; 104%N; 97%N; 115%N; 104%N; 95%N; 95%N] (* interfaces.py:ISeq.__hash__ *);
  [107%N; 101%N; 121%N; 119%N; 111%N; 114%N; 100%N; 46%N; 112%N; 121%N; 58%N; 75%N; 101%N; 121%N; 119%N; 111%N; 114%N; 100%N; 46%N; 95%N; 95%N; 101%N; 113%N; 95%N; 95%N] (* keyword.py:Keyword.__eq__ *);
  [107%N; 101%N; 121%N; 119%N; 111%N; 114%N; 100%N; 46%N; 112%N; 121%N; 58%N; 75%N; 101%N; 121%N; 119%N; 111%N; 114%N; 100%N; 46%N; 95%N; 95%N; 104%N; 97%N; 115%N; 104%N; 95%N; 95%N] (* keyword.py:Keyword.__hash__ *);
  [108%N; 105%N; 115%N; 116%N; 46%N; 112%N; 121%N; 58%N; 80%N; 101%N; 114%N; 115%N; 105%N; 115%N; 116%N; 101%N; 110%N; 116%N; 76%N; 105%N; 115%N; 116%N; 46%N; 95%N; 95%N; 104%N; 97%N; 115%N; 104%N; 95%N; 95%N] (* list.py:PersistentList.__hash__ *);
  [109%N; 97%N; 112%N; 46%N; 112%N; 121%N; 58%N; 80%N; 101%N; 114%N; 115%N; 105%N; 115%N; 116%N; 101%N; 110%N; 116%N; 77%N; 97%N; 112%N; 46%N; 95%N; 95%N; 101%N; 113%N; 95%N; 95%N] (* map.py:PersistentMap.__eq__ *);
  [109%N; 97%N; 112%N; 46%N; 112%N; 121%N; 58%N; 80%N; 101%N; 114%N; 115%N; 105%N; 115%N; 116%N; 101%N; 110%N; 116%N; 77%N; 97%N; 112%N; 46%N; 95%N; 95%N; 104%N; 97%N; 115%N; 104%N; 95%N; 95%N] (* map.py:PersistentMap.__hash__ *);
  [109%N; 97%N; 112%N; 46%N; 112%N; 121%N; 58%N; 84%N; 114%N; 97%N; 110%N; 115%N; 105%N; 101%N; 110%N; 116%N; 77%N; 97%N; 112%N; 46%N; 95%N; 95%N; 101%N; 113%N; 95%N; 95%N] (* map.py:TransientMap.__eq__ *);
  [113%N; 117%N; 101%N; 117%N; 101%N; 46%N; 112%N; 121%N; 58%N; 80%N; 101%N; 114%N; 115%N; 105%N; 115%N; 116%N; 101%N; 110%N; 116%N; 81%N; 117%N; 101%N; 117%N; 101%N; 46%N; 95%N; 95%N; 101%N; 113%N; 95%N; 95%N] (* queue.py:PersistentQueue.__eq__ *);
  [113%N; 117%N; 101%N; 117%N; 101%N; 46%N; 112%N; 121%N; 58%N; 80%N; 101%N; 114%N; 115%N; 105%N; 115%N; 116%N; 101%N; 110%N; 116%N; 81%N; 117%N; 101%N; 117%N; 101%N; 46%N; 95%N; 95%N; 104%N; 97%N; 115%N; 104%N; 95%N; 95%N] (* queue.py:PersistentQueue.__hash__ *);
  [115%N; 101%N; 116%N; 46%N; 112%N; 121%N; 58%N; 80%N; 101%N; 114%N; 115%N; 105%N; 115%N; 116%N; 101%N; 110%N; 116%N; 83%N; 101%N; 116%N; 46%N; 95%N; 95%N; 101%N; 113%N; 95%N; 95%N] (* set.py:PersistentSet.__eq__ *);
  [115%N; 101%N; 116%N; 46%N; 112%N; 121%N; 58%N; 80%N; 101%N; 114%N; 115%N; 105%N; 115%N; 116%N; 101%N; 110%N; 116%N; 83%N; 101%N; 116%N; 46%N; 95%N; 95%N; 104%N; 97%N; 115%N; 104%N; 95%N; 95%N] (* set.py:PersistentSet.__hash__ *);
  [115%N; 101%N; 116%N; 46%N; 112%N; 121%N; 58%N; 84%N; 114%N; 97%N; 110%N; 115%N; 105%N; 101%N; 110%N; 116%N; 83%N; 101%N; 116%N; 46%N; 95%N; 95%N; 101%N; 113%N; 95%N; 95%N] (* set.py:TransientSet.__eq__ *);
  [115%N; 121%N; 109%N; 98%N; 111%N; 108%N; 46%N; 112%N; 121%N; 58%N; 83%N; 121%N; 109%N; 98%N; 111%N; 108%N; 46%N; 95%N; 95%N; 101%N; 113%N; 95%N; 95%N] (* symbol.py:Symbol.__eq__ *);
  [115%N; 121%N; 109%N; 98%N; 111%N; 108%N; 46%N; 112%N; 121%N; 58%N; 83%N; 121%N; 109%N; 98%N; 111%N; 108%N; 46%N; 95%N; 95%N; 104%N; 97%N; 115%N; 104%N; 95%N; 95%N] (* symbol.py:Symbol.__hash__ *);
  [118%N; 101%N; 99%N; 116%N; 111%N; 114%N; 46%N; 112%N; 121%N; 58%N; 80%N; 101%N; 114%N; 115%N; 105%N; 115%N; 116%N; 101%N; 110%N; 116%N; 86%N; 101%N; 99%N; 116%N; 111%N; 114%N; 46%N; 95%N; 95%N; 101%N; 113%N; 95%N; 95%N] (* vector.py:PersistentVector.__eq__ *);
  [118%N; 101%N; 99%N; 116%N; 111%N; 114%N; 46%N; 112%N; 121%N; 58%N; 80%N; 101%N; 114%N; 115%N; 105%N; 115%N; 116%N; 101%N; 110%N; 116%N; 86%N; 101%N; 99%N; 116%N; 111%N; 114%N; 46%N; 95%N; 95%N; 104%N; 97%N; 115%N; 104%N; 95%N; 95%N] (* vector.py:PersistentVector.__hash__ *);
  [118%N; 101%N; 99%N; 116%N; 111%N; 114%N; 46%N; 112%N; 121%N; 58%N; 84%N; 114%N; 97%N; 110%N; 115%N; 105%N; 101%N; 110%N; 116%N; 86%N; 101%N; 99%N; 116%N; 111%N; 114%N; 46%N; 95%N; 95%N; 101%N; 113%N; 95%N; 95%N] (* vector.py:TransientVector.__eq__ *)
].

Definition hash_families : list N :=
  [c05_vec_hash_family; c05_list_hash_family; c05_queue_hash_family; c05_iseq_hash_family].
Definition eq_shapes : list N :=
  [c05_seq_equals_shape; c05_iseq_eq_shape; c05_vec_eq_shape; c05_queue_eq_shape; c05_map_eq_shape;
   c05_set_eq_shape; c05_kw_eq_shape; c05_sym_eq_shape; c05_equals_shape; c05_core_eq_shape;
   c05_record_eq_shape].

Lemma eq_hash_classes_ok : c05_eq_hash_classes = expected_eq_hash_classes.
Proof. reflexivity. Qed.
Lemma hash_families_ok : forallb (N.eqb 1) hash_families = true.
Proof. reflexivity. Qed.
Lemma eq_shapes_ok : forallb (N.eqb 1) eq_shapes = true.
Proof. reflexivity. Qed.
