(** C05: where the code violates the property (F-05b: inside collections elements and keys
    are compared with Python's [==], for which True == 1 and False == 0; runtime.equals keeps
    booleans apart at the top level only), the restrictions under which the clauses do hold,
    and agreement of the model with the reference equality on values without booleans. *)
From Coq Require Import List Bool ZArith QArith NArith Arith Lia Permutation.
Import ListNotations.
From Verif Require Import Common.ListX Gen.Prims Gen.Tables C05.Model C05.Spec C05.Unfold C05.Lemmas
  C05.Coherence C05.StrSort C05.Good C05.MapGood C05.Main C05.Proofs.

Definition one := VNum KInt (Fin 1).
Definition kw_a := VKw None [97%N].

(** * refutations (witnesses are re-run on the implementation by the check) *)
Theorem nested_bool_refuted :
  exists x y, wf x = true /\ wf y = true /\ equals x y = true /\ ref_eq x y = false.
Proof. exists (VSeq KVec [one]), (VSeq KVec [VBool true]). vm_compute. auto. Qed.

Theorem nested_bool_map_refuted :
  exists x y, wf x = true /\ wf y = true /\ equals x y = true /\ ref_eq x y = false.
Proof. exists (VMap [(kw_a, one)]), (VMap [(kw_a, VBool true)]). vm_compute. auto. Qed.

Theorem nested_bool_set_refuted :
  exists x y, wf x = true /\ wf y = true /\ equals x y = true /\ ref_eq x y = false.
Proof. exists (VSet [one]), (VSet [VBool true]). vm_compute. auto. Qed.

Theorem seq_eq_iff_pointwise_refuted :
  exists la lb, equals (VSeq KVec la) (VSeq KList lb) = true /\
                ~ Forall2 (fun x y => equals x y = true) la lb.
Proof.
  exists [one], [VBool true]. split; [vm_compute; reflexivity|].
  intro H. inversion H; subst. discriminate.
Qed.

Theorem map_eq_iff_entries_refuted :
  exists la lb, equals (VMap la) (VMap lb) = true /\
    ~ (forall ka va, In (ka, va) la -> exists kb vb, In (kb, vb) lb /\ equals ka kb = true /\ equals va vb = true).
Proof.
  exists [(kw_a, one)], [(kw_a, VBool true)]. split; [vm_compute; reflexivity|].
  intro H. destruct (H kw_a one (or_introl eq_refl)) as [kb [vb [[E|[]] [_ Hv]]]].
  inversion E; subst. discriminate.
Qed.

(** a boolean key is found with the number 1 as probe although [(= 1 true)] is false *)
Theorem lookup_bool_refuted :
  exists k x v, equals x k = false /\ lookup [(k, v)] x = Some v /\ contains [k] x = true.
Proof. exists one, (VBool true), kw_a. vm_compute. auto. Qed.

(** * the clauses under the guard "no boolean among the elements" *)
Definition no_bool_elems (l : list val) : bool := forallb (fun x => negb (is_bool x)) l.

Lemma Forall2_equals_py_eq la lb :
  no_bool_elems la = true -> no_bool_elems lb = true ->
  (Forall2 (fun x y => equals x y = true) la lb <-> Forall2 (fun x y => py_eq x y = true) la lb).
Proof.
  unfold no_bool_elems. rewrite !forallb_forall. intros Ha Hb.
  split; intro H; induction H as [|x y ra rb E _ IH]; constructor;
    try (apply IH; intros; [apply Ha|apply Hb]; simpl; auto).
  - rewrite <- equals_py_eq; auto; apply negb_true_iff; [apply Ha|apply Hb]; simpl; auto.
  - rewrite equals_py_eq; auto; apply negb_true_iff; [apply Ha|apply Hb]; simpl; auto.
Qed.

Theorem seq_eq_iff_pointwise_partial k la k' lb :
  wf (VSeq k la) = true -> wf (VSeq k' lb) = true ->
  no_bool_elems la = true -> no_bool_elems lb = true ->
  (equals (VSeq k la) (VSeq k' lb) = true <-> Forall2 (fun x y => equals x y = true) la lb).
Proof.
  intros Wa Wb Na Nb. rewrite (seq_eq_iff k la k' lb Wa Wb). symmetry.
  apply Forall2_equals_py_eq; auto.
Qed.

Theorem map_eq_iff_entries_partial la lb :
  wf (VMap la) = true -> wf (VMap lb) = true ->
  no_bool_elems (elems la) = true -> no_bool_elems (elems lb) = true ->
  (equals (VMap la) (VMap lb) = true <->
   length la = length lb /\
   forall ka va, In (ka, va) la -> exists kb vb, In (kb, vb) lb /\ equals ka kb = true /\ equals va vb = true).
Proof.
  intros Wa Wb Na Nb. rewrite (map_eq_iff_entries la lb Wa Wb).
  unfold no_bool_elems in *. rewrite forallb_forall in Na, Nb.
  assert (EQ : forall ka va kb vb, In (ka, va) la -> In (kb, vb) lb ->
                 equals ka kb = py_eq ka kb /\ equals va vb = py_eq va vb).
  { intros ka va kb vb Ha Hb. split; apply equals_py_eq; apply negb_true_iff.
    - apply Na. eapply in_elems_k; eauto.
    - apply Nb. eapply in_elems_k; eauto.
    - apply Na. eapply in_elems_v; eauto.
    - apply Nb. eapply in_elems_v; eauto. }
  split; intros [L H]; (split; [exact L|]); intros ka va Hi;
    destruct (H ka va Hi) as [kb [vb [Hb [Hk Hv]]]]; exists kb, vb;
    destruct (EQ ka va kb vb Hi Hb) as [E1 E2]; (split; [exact Hb|]).
  - rewrite E1, E2. auto.
  - rewrite <- E1, <- E2. auto.
Qed.

(** * the model is the reference equality on values that contain no boolean *)
Lemma seq_all2_all2 f la lb : seq_all2 f la lb = all2 f la lb.
Proof. revert lb. induction la as [|x r IH]; intros [|y rb]; simpl; auto; rewrite IH; reflexivity. Qed.
Lemma all2_ext f g la : forall lb,
  (forall x y, In x la -> In y lb -> f x y = g x y) -> all2 f la lb = all2 g la lb.
Proof.
  induction la as [|x ra IH]; intros [|y rb] H; simpl; auto.
  rewrite H by (left; auto). f_equal. apply IH. intros; apply H; right; auto.
Qed.
Lemma entries_sub_iff f la lb :
  entries_sub f la lb = true <->
  (forall ka va, In (ka, va) la -> exists kb vb, In (kb, vb) lb /\ f ka kb = true /\ f va vb = true).
Proof.
  induction la as [|[ka va] r IH]; simpl.
  - split; auto. intros _ ? ? [].
  - rewrite andb_true_iff, IH. unfold entry_in. rewrite existsb_exists. split.
    + intros [[[kb vb] [Hb E]] H] k v [Eq|Hi]; auto. inversion Eq; subst.
      simpl in E. apply andb_true_iff in E. exists kb, vb. tauto.
    + intro H. split; [|intros; apply H; auto].
      destruct (H ka va (or_introl eq_refl)) as [kb [vb [Hb [E1 E2]]]].
      exists (kb, vb). simpl. rewrite E1, E2. auto.
Qed.
Lemma members_sub_iff f la lb :
  members_sub f la lb = true <-> (forall x, In x la -> exists y, In y lb /\ f x y = true).
Proof.
  induction la as [|x r IH]; simpl.
  - split; auto. intros _ ? [].
  - rewrite andb_true_iff, IH. unfold member. rewrite existsb_exists. split.
    + intros [[y Hy] H] x' [<-|Hx]; eauto.
    + intro H. split; [apply H; auto|intros; apply H; auto].
Qed.

Definition agrees (x : val) : Prop :=
  wf x = true -> has_bool x = false ->
  forall y, wf y = true -> has_bool y = false -> py_eq x y = ref_eq x y.

Lemma has_bool_elems l x : existsb has_bool l = false -> In x l -> has_bool x = false.
Proof. intros H Hx. apply (existsb_false _ _ H x Hx). Qed.

Theorem py_eq_is_ref_eq : forall x, agrees x.
Proof.
  induction x as [|b|k n|s|ns nm|ns nm|k la IH|la IH|t la IH|la IH] using val_ind';
    intros W B y Wy By; try discriminate;
    try (unfold py_eq; rewrite eqd_atom_l by reflexivity; destruct y; try discriminate; reflexivity).
  - (* seq *)
    destruct y as [| | | | | |k' lb| | |]; try (unfold py_eq; rewrite eqd_unfold; reflexivity).
    unfold py_eq. rewrite eqd_seq, seq_norm; [|apply wf_seq in W; rewrite Forall_forall in *; intros; apply wf_good; auto|apply (wf_seq _ _ Wy)].
    simpl. rewrite seq_all2_all2. apply all2_ext. intros x y Hx Hy.
    rewrite Forall_forall in IH. apply wf_seq in W, Wy. rewrite Forall_forall in W, Wy.
    simpl in B, By. apply IH; auto; [apply (has_bool_elems la x B Hx)|apply (has_bool_elems lb y By Hy)].
  - (* map *)
    destruct y as [| | | | | | |lb| |]; try (unfold py_eq; rewrite eqd_unfold; reflexivity).
    apply eq_true_iff_eq. fold (equals (VMap la) (VMap lb)).
    change (py_eq (VMap la) (VMap lb)) with (equals (VMap la) (VMap lb)).
    rewrite (map_eq_iff_entries la lb W Wy). simpl ref_eq.
    rewrite andb_true_iff, Nat.eqb_eq, entries_sub_iff.
    destruct (wf_map _ W) as [WA _]. destruct (wf_map _ Wy) as [WB _].
    apply (Forall_elems agrees) in IH. rewrite Forall_forall in IH. simpl in B, By.
    assert (EQ : forall ka va kb vb, In (ka, va) la -> In (kb, vb) lb ->
                   py_eq ka kb = ref_eq ka kb /\ py_eq va vb = ref_eq va vb).
    { intros ka va kb vb Ha Hb.
      apply (existsb_false _ _ B) in Ha as Na. apply (existsb_false _ _ By) in Hb as Nb.
      simpl in Na, Nb. apply orb_false_iff in Na as [? ?], Nb as [? ?].
      split; apply IH; eauto using in_elems_k, in_elems_v. }
    split; intros [L H]; (split; [exact L|]); intros ka va Hi;
      destruct (H ka va Hi) as [kb [vb [Hb [Hk Hv]]]]; exists kb, vb;
      destruct (EQ ka va kb vb Hi Hb) as [E1 E2]; (split; [exact Hb|]).
    + rewrite <- E1, <- E2. auto.
    + rewrite E1, E2. auto.
  - (* rec *)
    destruct y as [| | | | | | | |t' lb|]; try (unfold py_eq; rewrite eqd_unfold; reflexivity).
    unfold py_eq. rewrite eqd_rec, seq_norm; [|apply wf_rec in W; rewrite Forall_forall in *; intros; apply wf_good; auto|apply (wf_rec _ _ Wy)].
    simpl. f_equal. rewrite seq_all2_all2. apply all2_ext. intros x y Hx Hy.
    rewrite Forall_forall in IH. apply wf_rec in W, Wy. rewrite Forall_forall in W, Wy.
    simpl in B, By. apply IH; auto; [apply (has_bool_elems la x B Hx)|apply (has_bool_elems lb y By Hy)].
  - (* set *)
    destruct y as [| | | | | | | | |lb]; try (unfold py_eq; rewrite eqd_unfold; reflexivity).
    apply eq_true_iff_eq.
    change (py_eq (VSet la) (VSet lb)) with (equals (VSet la) (VSet lb)).
    rewrite (set_eq_iff_members la lb W Wy). simpl ref_eq.
    rewrite andb_true_iff, Nat.eqb_eq, members_sub_iff.
    destruct (wf_set _ W) as [WA _]. destruct (wf_set _ Wy) as [WB _].
    rewrite Forall_forall in IH. simpl in B, By.
    assert (EQ : forall x y, In x la -> In y lb -> py_eq x y = ref_eq x y).
    { intros x y Hx Hy. apply IH; auto; [apply (has_bool_elems la x B Hx)|apply (has_bool_elems lb y By Hy)]. }
    split; intros [L H]; (split; [exact L|]); intros x Hx; destruct (H x Hx) as [y [Hy E]];
      exists y; (split; [exact Hy|]).
    + rewrite <- (EQ x y Hx Hy). exact E.
    + rewrite (EQ x y Hx Hy). exact E.
Qed.

Theorem agrees_with_reference_partial x y :
  wf x = true -> wf y = true -> has_bool x = false -> has_bool y = false -> equals x y = ref_eq x y.
Proof.
  intros Wx Wy Bx By. rewrite equals_py_eq.
  - apply py_eq_is_ref_eq; auto.
  - destruct x; try discriminate; reflexivity.
  - destruct y; try discriminate; reflexivity.
Qed.

(** * non-vacuity: premises of the theorems are met by non-trivial values *)
Definition two := VNum KInt (Fin 2).
Example ex_values :
  let v := VSeq KVec [one; two] in
  let l := VSeq KLazy [VNum KFloat (Fin 1); VNum KDec (Fin (4 # 2))] in
  let q := VSeq KQueue [VNum KRatio (Fin (2 # 2)); two] in
  wf v = true /\ wf l = true /\ wf q = true /\
  equals v l = true /\ equals l q = true /\ equals v q = true /\ equals q v = true /\
  hash_of v = hash_of l /\ hash_of l = hash_of q /\
  lookup [(v, kw_a)] q = Some kw_a /\ contains [VMap [(l, VSet [one])]] (VMap [(q, VSet [VNum KFloat (Fin 1)])]) = true.
Proof. vm_compute. repeat split; reflexivity. Qed.
