(** C05: the value universe shared by the model of the code (Model.v) and the reference
    semantics (Spec.v). *)
From Coq Require Import List Bool ZArith QArith NArith.
Import ListNotations.
From Verif Require Import Common.ListX.

(** * Values *)

(** Numbers are exact extended rationals: Python compares int, float, Fraction and Decimal
    by exact value.  [NaN] is the float NaN. *)
Inductive num := Fin (q : Q) | PInf | NInf | NaN.
(** Python representation of a number (irrelevant to [==] and [hash], kept so that the
    theorems quantify over every representation). *)
Inductive nkind := KInt | KFloat | KRatio | KDec.
(** The sequential types: PersistentVector, MapEntry (subclass of PersistentVector),
    PersistentList, Cons / the empty seq, LazySeq, PersistentQueue. *)
Inductive skind := KVec | KEntry | KList | KCons | KLazy | KQueue.

Inductive val :=
| VNil
| VBool (b : bool)
| VNum (k : nkind) (n : num)
| VStr (s : str)
| VKw (ns : option str) (nm : str)
| VSym (ns : option str) (nm : str)
| VSeq (k : skind) (l : list val)
| VMap (l : list (val * val))          (* PersistentMap: entries in insertion order *)
| VRec (tag : str) (l : list val)      (* record of type [tag]: field values in declaration order *)
| VSet (l : list val).                 (* PersistentSet *)

Definition num_eq (a b : num) : bool :=
  match a, b with
  | Fin x, Fin y => Qeq_bool x y
  | PInf, PInf => true
  | NInf, NInf => true
  | _, _ => false
  end.

(** Python: True == 1, False == 0 *)
Definition b2n (b : bool) : num := Fin (if b then 1 else 0)%Q.
