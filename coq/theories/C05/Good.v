(** C05: the invariant of the main induction ([good]) and its proof for non-collections,
    sequential collections and records. *)
From Coq Require Import List Bool ZArith QArith NArith Arith Lia Permutation.
Import ListNotations.
From Verif Require Import Common.ListX Gen.Prims Gen.Tables C05.Model C05.Unfold C05.Lemmas
  C05.Coherence C05.StrSort.

(** What is proved of every well-formed value [x], for all well-formed [y], [z]:
    - [a == b] and [b == a] agree;
    - [==] is transitive and Euclidean through [x], whichever way round the second
      comparison is evaluated;
    - values that are [==] have the same hash. *)
Record good (x : val) : Prop := {
  g_fi : forall y, wf y = true -> eqd true x y = eqd false x y;
  g_t : forall sw y z, wf y = true -> wf z = true ->
        py_eq x y = true -> eqd sw y z = true -> py_eq x z = true;
  g_e : forall sw y z, wf y = true -> wf z = true ->
        py_eq x y = true -> py_eq x z = true -> eqd sw y z = true;
  g_h : forall y, wf y = true -> py_eq x y = true -> hash_of x = hash_of y;
}.

Lemma good_any x sw y : good x -> wf y = true -> eqd sw x y = py_eq x y.
Proof. intros G W. destruct sw; [apply (g_fi x G y W)|reflexivity]. Qed.
Lemma good_sym x y : good x -> wf y = true -> py_eq y x = py_eq x y.
Proof. intros G W. rewrite py_eq_flip. apply (g_fi x G y W). Qed.
Lemma good_km x y : good x -> wf y = true -> km py_eq x y = py_eq x y.
Proof.
  intros G W. unfold km. destruct (py_eq x y) eqn:E; [|apply andb_false_r].
  rewrite andb_true_r. apply heq_eq. apply (g_h x G y W E).
Qed.

(** two good values matching one probe are one key; two probes matched by one good value too *)
Lemma good_common_r x x' y :
  good x -> good x' -> wf x' = true -> wf y = true ->
  km py_eq x y = true -> km py_eq x' y = true -> same_key x x' = true.
Proof.
  intros G G' W' Wy H H'. unfold km in *. apply andb_true_iff in H as [H1 H2], H' as [H1' H2'].
  unfold same_key. apply andb_true_iff. split.
  - apply (heq_trans _ y); auto. rewrite heq_sym. auto.
  - apply (g_t x G false y x' Wy W' H2). fold (py_eq y x'). rewrite (good_sym x' y G' Wy). auto.
Qed.
Lemma good_common_l x y y' :
  good x -> wf y = true -> wf y' = true ->
  km py_eq x y = true -> km py_eq x y' = true -> same_key y y' = true.
Proof.
  intros G W W' H H'. unfold km in *. apply andb_true_iff in H as [H1 H2], H' as [H1' H2'].
  unfold same_key. apply andb_true_iff. split.
  - apply (heq_trans _ x); auto. rewrite heq_sym. auto.
  - apply (g_e x G false y y' W W' H2 H2').
Qed.

(** * non-collections *)
Lemma atom_good a : is_coll a = false -> good a.
Proof.
  intro A. split.
  - intros y _. rewrite !(eqd_atom_l _ a y A). reflexivity.
  - intros sw y z _ _. unfold py_eq. rewrite !(eqd_atom_l _ a _ A). intros H1 H2.
    destruct (atom_eq_atoms _ _ H1) as [_ Ay]. rewrite (eqd_atom_l sw y z Ay) in H2.
    eapply atom_eq_trans; eauto.
  - intros sw y z _ _. unfold py_eq. rewrite !(eqd_atom_l _ a _ A). intros H1 H2.
    destruct (atom_eq_atoms _ _ H1) as [_ Ay]. rewrite (eqd_atom_l sw y z Ay).
    rewrite atom_eq_sym in H1. eapply atom_eq_trans; eauto.
  - intros y _. unfold py_eq. rewrite (eqd_atom_l _ a y A). apply atom_eq_hash.
Qed.

(** * the hash families regenerated from the source are all the tuple hash *)
Lemma family_ok k : family_of k = 1%N.
Proof. destruct k; reflexivity. Qed.
Lemma vec_family_ok : c05_vec_hash_family = 1%N.
Proof. reflexivity. Qed.

(** * element-wise loops over good elements *)
Section Seq.
  Variable la : list val.
  Hypothesis GA : Forall good la.

  Lemma seq_norm s lb : Forall (fun y => wf y = true) lb -> seq_all2 (eqd s) la lb = seq_all2 py_eq la lb.
  Proof.
    intro WB. apply seq_all2_ext. intros x y Hx Hy. rewrite Forall_forall in GA, WB.
    apply good_any; auto.
  Qed.
End Seq.

Lemma seq_trans la : Forall good la -> forall lb lc s,
  Forall (fun y => wf y = true) lb -> Forall (fun y => wf y = true) lc ->
  seq_all2 py_eq la lb = true -> seq_all2 (eqd s) lb lc = true -> seq_all2 py_eq la lc = true.
Proof.
  induction 1 as [|x ra G _ IH]; intros [|y rb] [|z rc] s WB WC; simpl; try discriminate; auto.
  inversion WB; subst. inversion WC; subst.
  rewrite !andb_true_iff. intros [E1 E2] [E3 E4]. split; [|apply (IH rb rc s); auto].
  eapply (g_t x G s y z); eauto.
Qed.
Lemma seq_eucl la : Forall good la -> forall lb lc s,
  Forall (fun y => wf y = true) lb -> Forall (fun y => wf y = true) lc ->
  seq_all2 py_eq la lb = true -> seq_all2 py_eq la lc = true -> seq_all2 (eqd s) lb lc = true.
Proof.
  induction 1 as [|x ra G _ IH]; intros [|y rb] [|z rc] s WB WC; simpl; try discriminate; auto.
  inversion WB; subst. inversion WC; subst.
  rewrite !andb_true_iff. intros [E1 E2] [E3 E4]. split; [|apply (IH rb rc s); auto].
  eapply (g_e x G s y z); eauto.
Qed.
Lemma seq_hash la : Forall good la -> forall lb,
  Forall (fun y => wf y = true) lb -> seq_all2 py_eq la lb = true -> map hash_of la = map hash_of lb.
Proof.
  induction 1 as [|x ra G _ IH]; intros [|y rb] WB; simpl; try discriminate; auto.
  inversion WB; subst. rewrite andb_true_iff. intros [E1 E2]. f_equal; auto. apply (g_h x G y); auto.
Qed.

Lemma wf_seq k l : wf (VSeq k l) = true -> Forall (fun y => wf y = true) l.
Proof. simpl. rewrite andb_true_iff, forallb_forall. intros [H _]. apply Forall_forall. exact H. Qed.
Lemma wf_rec t l : wf (VRec t l) = true -> Forall (fun y => wf y = true) l.
Proof. simpl. rewrite forallb_forall. intro H. apply Forall_forall. exact H. Qed.

Lemma seq_good k la : Forall good la -> good (VSeq k la).
Proof.
  intro GA. split.
  - intros y W. destruct y as [| | | | | |k' lb| | |]; try (rewrite !eqd_unfold; reflexivity).
    rewrite !eqd_seq, !(seq_norm la GA _ lb (wf_seq _ _ W)). reflexivity.
  - intros sw y z Wy Wz H1 H2. unfold py_eq in H1.
    destruct (eqd_seq_inv _ _ _ _ H1) as [k' [lb ->]]. destruct (eqd_seq_inv _ _ _ _ H2) as [k'' [lc ->]].
    unfold py_eq. rewrite eqd_seq in *.
    rewrite (seq_norm la GA _ lb (wf_seq _ _ Wy)) in H1. rewrite (seq_norm la GA _ lc (wf_seq _ _ Wz)).
    exact (seq_trans la GA lb lc _ (wf_seq _ _ Wy) (wf_seq _ _ Wz) H1 H2).
  - intros sw y z Wy Wz H1 H2. unfold py_eq in H1, H2.
    destruct (eqd_seq_inv _ _ _ _ H1) as [k' [lb ->]]. destruct (eqd_seq_inv _ _ _ _ H2) as [k'' [lc ->]].
    rewrite eqd_seq in *.
    rewrite (seq_norm la GA _ lb (wf_seq _ _ Wy)) in H1. rewrite (seq_norm la GA _ lc (wf_seq _ _ Wz)) in H2.
    exact (seq_eucl la GA lb lc _ (wf_seq _ _ Wy) (wf_seq _ _ Wz) H1 H2).
  - intros y Wy H1. unfold py_eq in H1. destruct (eqd_seq_inv _ _ _ _ H1) as [k' [lb ->]].
    rewrite eqd_seq in H1. rewrite (seq_norm la GA _ lb (wf_seq _ _ Wy)) in H1.
    simpl. rewrite !family_ok. f_equal. exact (seq_hash la GA lb (wf_seq _ _ Wy) H1).
Qed.

Lemma rec_good t la : Forall good la -> good (VRec t la).
Proof.
  intro GA. split.
  - intros y W. destruct y as [| | | | | | | |t' lb|]; try (rewrite !eqd_unfold; reflexivity).
    rewrite !eqd_rec, !(seq_norm la GA _ lb (wf_rec _ _ W)). reflexivity.
  - intros sw y z Wy Wz H1 H2. unfold py_eq in H1.
    destruct (eqd_rec_inv _ _ _ _ H1) as [lb ->]. destruct (eqd_rec_inv _ _ _ _ H2) as [lc ->].
    unfold py_eq. rewrite eqd_rec in *. rewrite str_eqb_refl in *. simpl in *.
    rewrite (seq_norm la GA _ lb (wf_rec t _ Wy)) in H1. rewrite (seq_norm la GA _ lc (wf_rec t _ Wz)).
    exact (seq_trans la GA lb lc _ (wf_rec t _ Wy) (wf_rec t _ Wz) H1 H2).
  - intros sw y z Wy Wz H1 H2. unfold py_eq in H1, H2.
    destruct (eqd_rec_inv _ _ _ _ H1) as [lb ->]. destruct (eqd_rec_inv _ _ _ _ H2) as [lc ->].
    rewrite eqd_rec in *. rewrite str_eqb_refl in *. simpl in *.
    rewrite (seq_norm la GA _ lb (wf_rec t _ Wy)) in H1. rewrite (seq_norm la GA _ lc (wf_rec t _ Wz)) in H2.
    exact (seq_eucl la GA lb lc _ (wf_rec t _ Wy) (wf_rec t _ Wz) H1 H2).
  - intros y Wy H1. unfold py_eq in H1. destruct (eqd_rec_inv _ _ _ _ H1) as [lb ->].
    rewrite eqd_rec, str_eqb_refl in H1. simpl in H1. rewrite (seq_norm la GA _ lb (wf_rec t _ Wy)) in H1.
    simpl. f_equal. f_equal. exact (seq_hash la GA lb (wf_rec t _ Wy) H1).
Qed.
