(** C05: lemmas about the loops of Model.Schemes (extensionality, characterisation by
    existence of a partner), per-class equations of [eqd], and the combinatorial core:
    a total, injective matching between two lists of the same length is a bijection. *)
From Coq Require Import List Bool ZArith QArith NArith Arith Lia Permutation.
Import ListNotations.
From Verif Require Import Common.ListX Gen.Prims Gen.Tables C05.Model C05.Unfold.

(** * per-class equations *)
Lemma eqd_seq sw k la k' lb :
  eqd sw (VSeq k la) (VSeq k' lb)
  = seq_all2 (eqd (xorb sw (flip sw (VSeq k la) (VSeq k' lb)))) la lb.
Proof. rewrite eqd_unfold. reflexivity. Qed.
Lemma eqd_map sw la lb :
  eqd sw (VMap la) (VMap lb)
  = Nat.eqb (length la) (length lb) && (if sw then map_sub (eqd false) la lb else map_sup (eqd true) la lb).
Proof. rewrite eqd_unfold. reflexivity. Qed.
Lemma eqd_rec sw t la t' lb :
  eqd sw (VRec t la) (VRec t' lb) = str_eqb t t' && seq_all2 (eqd sw) la lb.
Proof. rewrite eqd_unfold. reflexivity. Qed.
Lemma eqd_set sw la lb :
  eqd sw (VSet la) (VSet lb)
  = Nat.eqb (length la) (length lb) && (if sw then set_sup (eqd true) la lb else set_sub (eqd false) la lb).
Proof. rewrite eqd_unfold. reflexivity. Qed.

Definition is_coll (v : val) : bool :=
  match v with VSeq _ _ | VMap _ | VRec _ _ | VSet _ => true | _ => false end.

Lemma eqd_atom_l sw a b : is_coll a = false -> eqd sw a b = atom_eq a b.
Proof. intro H. rewrite eqd_unfold. destruct a; try discriminate; destruct b; reflexivity. Qed.
Lemma eqd_atom_r sw a b : is_coll b = false -> eqd sw a b = atom_eq a b.
Proof. intro H. rewrite eqd_unfold. destruct b; try discriminate; destruct a; reflexivity. Qed.

Lemma eqd_seq_inv sw k la b : eqd sw (VSeq k la) b = true -> exists k' lb, b = VSeq k' lb.
Proof. rewrite eqd_unfold. destruct b; simpl; try discriminate. eauto. Qed.
Lemma eqd_map_inv sw la b : eqd sw (VMap la) b = true -> exists lb, b = VMap lb.
Proof. rewrite eqd_unfold. destruct b; simpl; try discriminate. eauto. Qed.
Lemma eqd_rec_inv sw t la b : eqd sw (VRec t la) b = true -> exists lb, b = VRec t lb.
Proof.
  rewrite eqd_unfold. destruct b; simpl; try discriminate. intro H.
  apply andb_true_iff in H as [H _]. apply str_eqb_eq in H. subst. eauto.
Qed.
Lemma eqd_set_inv sw la b : eqd sw (VSet la) b = true -> exists lb, b = VSet lb.
Proof. rewrite eqd_unfold. destruct b; simpl; try discriminate. eauto. Qed.
Lemma eqd_coll_r sw a b : eqd sw a b = true -> is_coll b = true -> is_coll a = true.
Proof.
  intros H Hb. destruct (is_coll a) eqn:Ha; auto.
  rewrite (eqd_atom_l sw a b Ha) in H. destruct a; try discriminate; destruct b; discriminate.
Qed.

(** * heq *)
Lemma heq_refl x : heq x x = true.
Proof. apply str_eqb_refl. Qed.
Lemma heq_sym x y : heq x y = heq y x.
Proof. apply str_eqb_sym. Qed.
Lemma heq_eq x y : heq x y = true <-> hash_of x = hash_of y.
Proof. apply str_eqb_eq. Qed.
Lemma heq_trans x y z : heq x y = true -> heq y z = true -> heq x z = true.
Proof. rewrite !heq_eq. congruence. Qed.

(** * extensionality of the loops *)
Lemma seq_all2_ext f g la : forall lb,
  (forall x y, In x la -> In y lb -> f x y = g x y) -> seq_all2 f la lb = seq_all2 g la lb.
Proof.
  induction la as [|x ra IH]; intros [|y rb] H; simpl; auto.
  rewrite H by (left; auto). f_equal. apply IH. intros; apply H; right; auto.
Qed.

Lemma existsb_ext_in {A} (p q : A -> bool) l : (forall x, In x l -> p x = q x) -> existsb p l = existsb q l.
Proof.
  induction l as [|x r IH]; simpl; intro H; auto.
  rewrite H by auto. f_equal. apply IH. auto.
Qed.
Lemma forallb_ext_in {A} (p q : A -> bool) l : (forall x, In x l -> p x = q x) -> forallb p l = forallb q l.
Proof.
  induction l as [|x r IH]; simpl; intro H; auto.
  rewrite H by auto. f_equal. apply IH. auto.
Qed.

Lemma set_sub_ext f g la lb :
  (forall x y, In x la -> In y lb -> f x y = g x y) -> set_sub f la lb = set_sub g la lb.
Proof.
  induction la as [|x ra IH]; simpl; intro H; auto.
  f_equal.
  - unfold mem_b. apply existsb_ext_in. intros y Hy. rewrite H; auto.
  - apply IH. intros; apply H; auto.
Qed.
Lemma mem_a_ext f g la y : (forall x, In x la -> f x y = g x y) -> mem_a f la y = mem_a g la y.
Proof.
  induction la as [|x ra IH]; simpl; intro H; auto.
  rewrite H by auto. f_equal. apply IH; auto.
Qed.
Lemma set_sup_ext f g la lb :
  (forall x y, In x la -> In y lb -> f x y = g x y) -> set_sup f la lb = set_sup g la lb.
Proof.
  intro H. unfold set_sup. apply forallb_ext_in. intros y Hy. apply mem_a_ext. intros; apply H; auto.
Qed.

(** keys and values of a map, as one list *)
Definition elems (l : list (val * val)) : list val := flat_map (fun kv => [fst kv; snd kv]) l.
Lemma in_elems_k k v l : In (k, v) l -> In k (elems l).
Proof. intro H. unfold elems. apply in_flat_map. exists (k, v). simpl; auto. Qed.
Lemma in_elems_v k v l : In (k, v) l -> In v (elems l).
Proof. intro H. unfold elems. apply in_flat_map. exists (k, v). simpl; auto. Qed.
Lemma elems_cons k v l x : In x (elems l) -> In x (elems ((k, v) :: l)).
Proof. simpl. auto. Qed.
Lemma Forall_elems (P : val -> Prop) l :
  Forall (fun kv => P (fst kv) /\ P (snd kv)) l -> Forall P (elems l).
Proof.
  induction 1 as [|[k v] r [Hk Hv] _ IH]; simpl; auto.
Qed.

Lemma look_a_ext f g la kb vb :
  (forall x y, In x (elems la) -> (y = kb \/ y = vb) -> f x y = g x y) ->
  look_a f la kb vb = look_a g la kb vb.
Proof.
  induction la as [|[ka va] r IH]; simpl; intro H; auto.
  rewrite (H ka kb), (H va vb) by auto. rewrite IH; auto; intros; apply H; simpl; auto.
Qed.
Lemma map_sup_ext f g la lb :
  (forall x y, In x (elems la) -> In y (elems lb) -> f x y = g x y) -> map_sup f la lb = map_sup g la lb.
Proof.
  intro H. unfold map_sup. apply forallb_ext_in. intros [kb vb] Hy. simpl.
  apply look_a_ext. intros x y Hx [->| ->]; apply H; auto; [eapply in_elems_k|eapply in_elems_v]; eauto.
Qed.
Lemma look_b_ext f g ka va lb :
  (forall x y, (x = ka \/ x = va) -> In y (elems lb) -> f x y = g x y) ->
  look_b f ka va lb = look_b g ka va lb.
Proof.
  induction lb as [|[kb vb] r IH]; simpl; intro H; auto.
  rewrite (H ka kb), (H va vb) by (simpl; auto). rewrite IH; auto; intros; apply H; simpl; auto.
Qed.
Lemma map_sub_ext f g la lb :
  (forall x y, In x (elems la) -> In y (elems lb) -> f x y = g x y) -> map_sub f la lb = map_sub g la lb.
Proof.
  induction la as [|[ka va] r IH]; simpl; intro H; auto.
  f_equal.
  - apply look_b_ext. intros x y [->| ->] Hy; apply H; auto.
  - apply IH. intros; apply H; auto.
Qed.

(** * characterisations *)
Lemma seq_all2_Forall2 f la : forall lb,
  seq_all2 f la lb = true <-> Forall2 (fun x y => f x y = true) la lb.
Proof.
  induction la as [|x ra IH]; intros [|y rb]; simpl; split; intro H;
    try discriminate; try constructor; try (inversion H; fail).
  - apply andb_true_iff in H. tauto.
  - apply IH. apply andb_true_iff in H. tauto.
  - inversion H; subst. apply andb_true_iff. split; auto. apply IH; auto.
Qed.

Definition km (f : val -> val -> bool) (x y : val) : bool := heq x y && f x y.

Lemma set_sub_iff f la lb :
  set_sub f la lb = true <-> (forall x, In x la -> exists y, In y lb /\ km f x y = true).
Proof.
  induction la as [|x ra IH]; simpl.
  - split; auto. intros _ x [].
  - rewrite andb_true_iff, IH. unfold mem_b. rewrite existsb_exists. split.
    + intros [[y Hy] H] x' [<-|Hx]; eauto.
    + intro H. split; [apply H; auto|]. intros; apply H; auto.
Qed.
Lemma mem_a_iff f la y : mem_a f la y = true <-> exists x, In x la /\ km f x y = true.
Proof.
  induction la as [|x ra IH]; simpl.
  - split; [discriminate|intros [x [[] _]]].
  - rewrite orb_true_iff, IH. split.
    + intros [H|[x' [Hx H]]]; eauto.
    + intros [x' [[<-|Hx] H]]; eauto.
Qed.
Lemma set_sup_iff f la lb :
  set_sup f la lb = true <-> (forall y, In y lb -> exists x, In x la /\ km f x y = true).
Proof.
  unfold set_sup. rewrite forallb_forall. split; intros H y Hy; apply mem_a_iff; auto.
Qed.

Lemma look_a_true f la kb vb :
  look_a f la kb vb = true ->
  exists ka va, In (ka, va) la /\ km f ka kb = true /\ f va vb = true.
Proof.
  induction la as [|[ka va] r IH]; simpl; [discriminate|].
  destruct (heq ka kb && f ka kb) eqn:E; intro H.
  - exists ka, va. auto.
  - destruct (IH H) as [ka' [va' [Hi Hk]]]. exists ka', va'. auto.
Qed.
Lemma look_a_split f l1 ka va l2 kb vb :
  (forall e, In e l1 -> km f (fst e) kb = false) -> km f ka kb = true ->
  look_a f (l1 ++ (ka, va) :: l2) kb vb = f va vb.
Proof.
  induction l1 as [|[k v] r IH]; simpl; intros H1 H2.
  - unfold km in H2. rewrite H2. reflexivity.
  - specialize (H1 (k, v) (or_introl eq_refl)) as H. unfold km in H. simpl in H. rewrite H.
    apply IH; auto.
Qed.
Lemma look_b_true f ka va lb :
  look_b f ka va lb = true ->
  exists kb vb, In (kb, vb) lb /\ km f ka kb = true /\ f va vb = true.
Proof.
  induction lb as [|[kb vb] r IH]; simpl; [discriminate|].
  destruct (heq ka kb && f ka kb) eqn:E; intro H.
  - exists kb, vb. auto.
  - destruct (IH H) as [kb' [vb' [Hi Hk]]]. exists kb', vb'. auto.
Qed.
Lemma look_b_split f ka va l1 kb vb l2 :
  (forall e, In e l1 -> km f ka (fst e) = false) -> km f ka kb = true ->
  look_b f ka va (l1 ++ (kb, vb) :: l2) = f va vb.
Proof.
  induction l1 as [|[k v] r IH]; simpl; intros H1 H2.
  - unfold km in H2. rewrite H2. reflexivity.
  - specialize (H1 (k, v) (or_introl eq_refl)) as H. unfold km in H. simpl in H. rewrite H.
    apply IH; auto.
Qed.
Lemma map_sub_forall f la lb :
  map_sub f la lb = true <-> (forall ka va, In (ka, va) la -> look_b f ka va lb = true).
Proof.
  induction la as [|[ka va] r IH]; simpl.
  - split; auto; intros _ ? ? [].
  - rewrite andb_true_iff, IH. split.
    + intros [H1 H2] k v [E|Hi]; [inversion E; subst; auto|auto].
    + intro H. split; auto.
Qed.
Lemma map_sup_forall f la lb :
  map_sup f la lb = true <-> (forall kb vb, In (kb, vb) lb -> look_a f la kb vb = true).
Proof.
  unfold map_sup. rewrite forallb_forall. split.
  - intros H kb vb Hi. apply (H (kb, vb) Hi).
  - intros H [kb vb] Hi. apply H; auto.
Qed.

(** * pairwise *)
Lemma pairwise_split {A} (r : A -> A -> bool) l1 x l2 :
  pairwise r (l1 ++ x :: l2) = true ->
  (forall y, In y l1 -> r y x = false) /\ (forall y, In y l2 -> r x y = false).
Proof.
  induction l1 as [|z t IH]; simpl; intro H.
  - apply andb_true_iff in H as [H _]. rewrite forallb_forall in H. split; [intros ? []|].
    intros y Hy. apply negb_true_iff. auto.
  - apply andb_true_iff in H as [H1 H2]. destruct (IH H2) as [Ha Hb]. split; auto.
    intros y [<-|Hy]; auto. rewrite forallb_forall in H1. apply negb_true_iff. apply H1.
    apply in_or_app. right. left. auto.
Qed.
Lemma pairwise_ordpairs {A} (r : A -> A -> bool) l :
  pairwise r l = true -> ForallOrdPairs (fun x y => r x y = false) l.
Proof.
  induction l as [|x t IH]; simpl; intro H; constructor.
  - apply andb_true_iff in H as [H _]. rewrite forallb_forall in H. apply Forall_forall.
    intros y Hy. apply negb_true_iff. auto.
  - apply IH. apply andb_true_iff in H. tauto.
Qed.

(** * matching: total + injective + same length = bijective *)
Section Matching.
  Context {A B : Type}.
  Variable R : A -> B -> Prop.

  Lemma matching_perm : forall (la : list A) (lb : list B),
    length la = length lb ->
    (forall x, In x la -> exists y, In y lb /\ R x y) ->
    ForallOrdPairs (fun x x' => forall y, R x y -> R x' y -> False) la ->
    exists lb', Permutation lb' lb /\ Forall2 R la lb'.
  Proof.
    induction la as [|x ra IH]; intros lb Hlen Htot Hsep.
    - destruct lb; [|discriminate]. exists []. split; constructor.
    - destruct (Htot x (or_introl eq_refl)) as [y [Hy Rxy]].
      destruct (in_split _ _ Hy) as [l1 [l2 ->]].
      inversion Hsep as [|? ? Hx Hsep']; subst.
      destruct (IH (l1 ++ l2)) as [lb' [Hp Hf]].
      + rewrite app_length in *. simpl in *. lia.
      + intros x' Hx'. destruct (Htot x' (or_intror Hx')) as [y' [Hy' Rxy']].
        exists y'. split; auto.
        apply in_app_or in Hy'. apply in_or_app. destruct Hy' as [?|[E|?]]; auto.
        subst y'. exfalso. rewrite Forall_forall in Hx. eapply Hx; eauto.
      + exact Hsep'.
      + exists (y :: lb'). split; [|constructor; auto].
        apply Permutation_cons_app. exact Hp.
  Qed.

  Lemma matching_surj (la : list A) (lb : list B) :
    length la = length lb ->
    (forall x, In x la -> exists y, In y lb /\ R x y) ->
    ForallOrdPairs (fun x x' => forall y, R x y -> R x' y -> False) la ->
    forall y, In y lb -> exists x, In x la /\ R x y.
  Proof.
    intros Hlen Htot Hsep y Hy.
    destruct (matching_perm la lb Hlen Htot Hsep) as [lb' [Hp Hf]].
    apply (Permutation_in _ (Permutation_sym Hp)) in Hy.
    clear - Hf Hy. induction Hf as [|x y' ra rb Hr _ IH]; [destruct Hy|].
    destruct Hy as [<-|Hy]; [exists x; simpl; auto|].
    destruct (IH Hy) as [x' [Hx' Hr']]. exists x'. simpl; auto.
  Qed.
End Matching.
