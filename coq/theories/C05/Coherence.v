(** C05: facts about [==] on non-collections, and coherence of the two ways the model
    computes one Python expression: [eqd true a b] (recursion on [a]) and [eqd false b a]
    (recursion on [b]) are both "b == a". *)
From Coq Require Import List Bool ZArith QArith NArith Arith Lia.
Import ListNotations.
From Verif Require Import Common.ListX Gen.Prims Gen.Tables C05.Model C05.Unfold C05.Lemmas.

(** * atoms *)
Lemma num_eq_trans a b c : num_eq a b = true -> num_eq b c = true -> num_eq a c = true.
Proof.
  destruct a as [x| | |], b as [y| | |], c as [z| | |]; simpl; try discriminate; auto.
  rewrite !Qeq_bool_iff. intros. eapply Qeq_trans; eauto.
Qed.
Lemma num_eq_hash k n k' m : num_eq n m = true -> hash_of (VNum k n) = hash_of (VNum k' m).
Proof.
  destruct n as [x| | |], m as [y| | |]; simpl; try discriminate; auto.
  rewrite Qeq_bool_iff. intro E. unfold hnum. rewrite (Qred_complete _ _ E). reflexivity.
Qed.
Lemma name_eqb_eq ns nm ns' nm' : name_eqb ns nm ns' nm' = true <-> ns = ns' /\ nm = nm'.
Proof.
  unfold name_eqb, ostr_eqb. rewrite andb_true_iff, str_eqb_eq.
  rewrite (option_eqb_spec str_eqb str_eqb_eq). tauto.
Qed.

Lemma atom_eq_sym a b : atom_eq a b = atom_eq b a.
Proof.
  destruct a, b; unfold atom_eq, numval; try reflexivity;
    first [apply num_eq_sym | apply str_eqb_sym | apply name_eqb_sym].
Qed.

Lemma atom_eq_atoms a b : atom_eq a b = true -> is_coll a = false /\ is_coll b = false.
Proof. destruct a, b; simpl; try discriminate; auto. Qed.

Lemma atom_eq_trans a b c : atom_eq a b = true -> atom_eq b c = true -> atom_eq a c = true.
Proof.
  destruct a, b; unfold atom_eq at 1, numval; try discriminate;
    destruct c; unfold atom_eq, numval; try discriminate; auto;
    first [ apply num_eq_trans
          | rewrite !str_eqb_eq; congruence
          | rewrite !name_eqb_eq; intros [? ?] [? ?]; split; congruence ].
Qed.

Lemma hash_bool b : hash_of (VBool b) = hash_of (VNum KInt (b2n b)).
Proof. destruct b; reflexivity. Qed.

Lemma atom_eq_hash a b : atom_eq a b = true -> hash_of a = hash_of b.
Proof.
  destruct a, b; simpl atom_eq; try discriminate; auto.
  - intro H. rewrite !hash_bool. apply num_eq_hash. exact H.
  - intro H. rewrite hash_bool. apply num_eq_hash. exact H.
  - intro H. rewrite hash_bool. apply num_eq_hash. exact H.
  - apply num_eq_hash.
  - rewrite str_eqb_eq. congruence.
  - rewrite name_eqb_eq. intros [-> ->]. reflexivity.
  - rewrite name_eqb_eq. intros [-> ->]. reflexivity.
Qed.

(** * coherence *)
Definition coh (x : val) : Prop := forall sw y, eqd sw x y = eqd (negb sw) y x.

Lemma seq_all2_swap la : Forall coh la -> forall lb s,
  seq_all2 (eqd s) la lb = seq_all2 (eqd (negb s)) lb la.
Proof.
  induction 1 as [|x ra Hx _ IH]; intros [|y rb] s; simpl; auto.
  rewrite Hx, IH. reflexivity.
Qed.

Lemma mem_a_existsb f l y : mem_a f l y = existsb (fun x => heq x y && f x y) l.
Proof. induction l as [|x r IH]; simpl; auto. rewrite IH. reflexivity. Qed.
Lemma set_sub_forallb f la lb : set_sub f la lb = forallb (fun x => mem_b f x lb) la.
Proof. induction la as [|x r IH]; simpl; auto. rewrite IH. reflexivity. Qed.
Lemma map_sub_forallb f la lb : map_sub f la lb = forallb (fun e => look_b f (fst e) (snd e) lb) la.
Proof. induction la as [|[k v] r IH]; simpl; auto. rewrite IH. reflexivity. Qed.

Lemma look_ab f g la kb vb :
  (forall x y, In x (elems la) -> f x y = g y x) -> look_a f la kb vb = look_b g kb vb la.
Proof.
  induction la as [|[ka va] r IH]; simpl; intro H; auto.
  rewrite (H ka kb), (H va vb), (heq_sym ka kb) by auto. rewrite IH; auto.
Qed.
Lemma look_ba f g lb ka va :
  (forall y, f y ka = g ka y) -> (forall y, f y va = g va y) -> look_a f lb ka va = look_b g ka va lb.
Proof.
  intros Hk Hv. induction lb as [|[kb vb] r IH]; simpl; auto.
  rewrite Hk, Hv, (heq_sym kb ka), IH. reflexivity.
Qed.

Theorem eqd_coh : forall a, coh a.
Proof.
  induction a as [|x|k n|s|ns nm|ns nm|k la IH|la IH|t la IH|la IH] using val_ind';
    intros sw b;
    try (rewrite (eqd_atom_l sw _ b), (eqd_atom_r (negb sw) b _) by reflexivity; apply atom_eq_sym).
  - (* seq *)
    destruct b as [| | | | | |k' lb| | |];
      try (rewrite (eqd_atom_r sw _ _), (eqd_atom_l (negb sw) _ _) by reflexivity; apply atom_eq_sym);
      try (rewrite !eqd_unfold; reflexivity).
    rewrite !eqd_seq. rewrite (seq_all2_swap la IH).
    f_equal. f_equal. destruct sw, k, k'; reflexivity.
  - (* map *)
    destruct b as [| | | | | | |lb| |];
      try (rewrite (eqd_atom_r sw _ _), (eqd_atom_l (negb sw) _ _) by reflexivity; apply atom_eq_sym);
      try (rewrite !eqd_unfold; reflexivity).
    rewrite !eqd_map. rewrite (Nat.eqb_sym (length lb) (length la)). f_equal.
    apply Forall_elems in IH. rewrite Forall_forall in IH.
    destruct sw; simpl.
    + rewrite map_sub_forallb. unfold map_sup. apply forallb_ext_in. intros [ka va] Hi. simpl.
      symmetry. apply look_ba; intro y.
      * rewrite (IH ka (in_elems_k _ _ _ Hi) false y). reflexivity.
      * rewrite (IH va (in_elems_v _ _ _ Hi) false y). reflexivity.
    + rewrite map_sub_forallb. unfold map_sup. apply forallb_ext_in. intros [kb vb] Hi. simpl.
      apply look_ab. intros x y Hx. apply (IH x Hx true y).
  - (* rec *)
    destruct b as [| | | | | | | |t' lb|];
      try (rewrite (eqd_atom_r sw _ _), (eqd_atom_l (negb sw) _ _) by reflexivity; apply atom_eq_sym);
      try (rewrite !eqd_unfold; reflexivity).
    rewrite !eqd_rec, (str_eqb_sym t' t), (seq_all2_swap la IH). reflexivity.
  - (* set *)
    destruct b as [| | | | | | | | |lb];
      try (rewrite (eqd_atom_r sw _ _), (eqd_atom_l (negb sw) _ _) by reflexivity; apply atom_eq_sym);
      try (rewrite !eqd_unfold; reflexivity).
    rewrite !eqd_set. rewrite (Nat.eqb_sym (length lb) (length la)). f_equal.
    rewrite Forall_forall in IH.
    destruct sw; simpl.
    + rewrite set_sub_forallb. unfold set_sup. apply forallb_ext_in. intros y Hy.
      rewrite mem_a_existsb. unfold mem_b. apply existsb_ext_in. intros x Hx.
      rewrite (heq_sym x y). f_equal. apply (IH x Hx true y).
    + rewrite set_sub_forallb. unfold set_sup. apply forallb_ext_in. intros x Hx.
      rewrite mem_a_existsb. unfold mem_b. apply existsb_ext_in. intros y Hy.
      rewrite (heq_sym x y). f_equal. apply (IH x Hx false y).
Qed.

Corollary py_eq_flip a b : py_eq b a = eqd true a b.
Proof. unfold py_eq. rewrite (eqd_coh a true b). reflexivity. Qed.
