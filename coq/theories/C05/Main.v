(** C05: sets are maps from their members to a dummy value (this is how PersistentSet is
    implemented, and AbstractSet.__eq__'s loop is then the entry loop of the map with the
    operands' roles exchanged); every well-formed value is [good]. *)
From Coq Require Import List Bool ZArith QArith NArith Arith Lia Permutation.
Import ListNotations.
From Verif Require Import Common.ListX Gen.Prims Gen.Tables C05.Model C05.Unfold C05.Lemmas
  C05.Coherence C05.StrSort C05.Good C05.MapGood.

Definition unit_map (l : list val) : list (val * val) := map (fun x => (x, VNil)) l.

Lemma unit_keys l : map fst (unit_map l) = l.
Proof. unfold unit_map. rewrite map_map. simpl. apply map_id. Qed.
Lemma unit_length l : length (unit_map l) = length l.
Proof. apply map_length. Qed.
Lemma unit_elems l x : In x (elems (unit_map l)) -> In x l \/ x = VNil.
Proof.
  induction l as [|y r IH]; simpl; [tauto|]. intros [<-|[<-|H]]; auto. destruct (IH H); auto.
Qed.
Lemma unit_in l x : In x l -> In (x, VNil) (unit_map l).
Proof. intro H. unfold unit_map. apply in_map_iff. exists x. auto. Qed.
Lemma in_unit l k v : In (k, v) (unit_map l) -> In k l /\ v = VNil.
Proof. unfold unit_map. rewrite in_map_iff. intros [x [E H]]. inversion E; subst. auto. Qed.

Section SetAsMap.
  Variable f : val -> val -> bool.
  Hypothesis Hnil : f VNil VNil = true.

  Lemma look_b_unit x lb : look_b f x VNil (unit_map lb) = mem_b f x lb.
  Proof.
    induction lb as [|y r IH]; simpl; auto. rewrite IH, Hnil.
    destruct (heq x y && f x y); reflexivity.
  Qed.
  Lemma set_sub_unit la lb : set_sub f la lb = map_sub f (unit_map la) (unit_map lb).
  Proof. induction la as [|x r IH]; simpl; auto. rewrite look_b_unit, IH. reflexivity. Qed.
  Lemma look_a_unit la y : look_a f (unit_map la) y VNil = mem_a f la y.
  Proof.
    induction la as [|x r IH]; simpl; auto. rewrite IH, Hnil.
    destruct (heq x y && f x y); reflexivity.
  Qed.
  Lemma set_sup_unit la lb : set_sup f la lb = map_sup f (unit_map la) (unit_map lb).
  Proof.
    unfold set_sup, map_sup. induction lb as [|y r IH]; simpl; auto.
    rewrite look_a_unit, IH. reflexivity.
  Qed.
End SetAsMap.

Lemma eqd_set_as_map sw la lb :
  eqd sw (VSet la) (VSet lb) = eqd (negb sw) (VMap (unit_map la)) (VMap (unit_map lb)).
Proof.
  rewrite eqd_set, eqd_map, !unit_length. f_equal. destruct sw; simpl.
  - apply set_sup_unit. reflexivity.
  - apply set_sub_unit. reflexivity.
Qed.

Lemma wf_set l : wf (VSet l) = true -> (forall x, In x l -> wf x = true) /\ pairwise same_key l = true.
Proof. simpl. rewrite andb_true_iff, forallb_forall. tauto. Qed.
Lemma wf_set_unit l : wf (VSet l) = true -> wf (VMap (unit_map l)) = true.
Proof.
  intro W. destruct (wf_set _ W) as [W1 W2]. simpl. rewrite unit_keys, W2, andb_true_r.
  apply forallb_forall. intros [k v] Hi. apply in_unit in Hi as [Hk ->]. simpl. rewrite (W1 k Hk). reflexivity.
Qed.

Lemma set_good la : (forall x, In x la -> good x) -> wf (VSet la) = true -> good (VSet la).
Proof.
  intros GA W.
  assert (WM := wf_set_unit la W). destruct (wf_map _ WM) as [WA PA].
  assert (GM : good (VMap (unit_map la))).
  { apply map_good; auto. intros x Hx. apply unit_elems in Hx as [Hx| ->]; auto.
    apply atom_good. reflexivity. }
  split.
  - intros y Wy. destruct y as [| | | | | | | | |lb]; try (rewrite !eqd_unfold; reflexivity).
    rewrite !eqd_set_as_map. simpl negb. symmetry. apply (g_fi _ GM). apply wf_set_unit. exact Wy.
  - intros sw y z Wy Wz H1 H2. unfold py_eq in *.
    destruct (eqd_set_inv _ _ _ H1) as [lb ->]. destruct (eqd_set_inv _ _ _ H2) as [lc ->].
    rewrite eqd_set_as_map in *. simpl negb in *.
    assert (WB := wf_set_unit _ Wy). assert (WC := wf_set_unit _ Wz).
    rewrite (g_fi _ GM _ WB) in H1. rewrite (g_fi _ GM _ WC).
    exact (g_t _ GM (negb sw) _ _ WB WC H1 H2).
  - intros sw y z Wy Wz H1 H2. unfold py_eq in *.
    destruct (eqd_set_inv _ _ _ H1) as [lb ->]. destruct (eqd_set_inv _ _ _ H2) as [lc ->].
    rewrite eqd_set_as_map in *. simpl negb in *.
    assert (WB := wf_set_unit _ Wy). assert (WC := wf_set_unit _ Wz).
    rewrite (g_fi _ GM _ WB) in H1. rewrite (g_fi _ GM _ WC) in H2.
    exact (g_e _ GM (negb sw) _ _ WB WC H1 H2).
  - intros y Wy H1. unfold py_eq in H1. destruct (eqd_set_inv _ _ _ H1) as [lb ->].
    rewrite eqd_set_as_map in H1. simpl negb in H1.
    assert (WB := wf_set_unit _ Wy). rewrite (g_fi _ GM _ WB) in H1.
    destruct (wf_map _ WB) as [WB1 PB1].
    assert (GA' : forall x, In x (elems (unit_map la)) -> good x).
    { intros x Hx. apply unit_elems in Hx as [Hx| ->]; auto. apply atom_good. reflexivity. }
    destruct (map_matching (unit_map la) GA' WA PA (unit_map lb) WB1 PB1 H1) as [lb' [Hp Hf]].
    simpl. apply hbag_perm.
    transitivity (map hash_of (map fst lb')).
    + apply Permutation_refl'. clear - Hf. remember (unit_map la) as ua eqn:E.
      revert la E. induction Hf as [|ea eb ra rb [E1 _] _ IH]; intros la E.
      * destruct la; [reflexivity|discriminate].
      * destruct la as [|x r]; [discriminate|]. simpl in E. inversion E; subst. simpl in *.
        rewrite E1. f_equal. apply IH. reflexivity.
    + apply Permutation_map. rewrite <- (unit_keys lb). apply Permutation_map. exact Hp.
Qed.

(** * Every well-formed value is good *)
Theorem wf_good : forall a, wf a = true -> good a.
Proof.
  induction a as [|x|k n|s|ns nm|ns nm|k la IH|la IH|t la IH|la IH] using val_ind'; intro W;
    try (apply atom_good; reflexivity).
  - apply seq_good. apply wf_seq in W. rewrite Forall_forall in *. auto.
  - destruct (wf_map _ W) as [WA PA]. apply map_good; auto.
    apply (Forall_elems (fun x => wf x = true -> good x)) in IH. rewrite Forall_forall in IH. auto.
  - apply rec_good. apply wf_rec in W. rewrite Forall_forall in *. auto.
  - apply set_good; auto. destruct (wf_set _ W) as [W1 _]. rewrite Forall_forall in IH. auto.
Qed.
