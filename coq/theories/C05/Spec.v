(** C05 specification: what [=] is supposed to be, written without reference to Python's
    [==] protocol, to hashes or to lookup order.

    [ref_eq] is the reference equality of the property:
    - nil and booleans are equal only to themselves (a boolean never equals a number, at any
      depth);
    - numbers are equal iff their exact values are (whatever the representation; NaN is not
      equal to anything);
    - strings, keywords, symbols: same kind and same text;
    - sequential collections (vector, map entry, list, cons, lazy seq, queue): same length and
      pairwise equal elements in order;
    - maps: same number of entries and every entry of one has an entry of the other with an
      equal key and an equal value; sets likewise; a record equals only a record of the same
      type with pairwise equal fields (as in Clojure a record never equals a plain map). *)
From Coq Require Import List Bool ZArith QArith NArith Arith.
Import ListNotations.
From Verif Require Import Common.ListX Gen.Prims.
From Verif Require Export C05.Values.

Section All2.
  Variable f : val -> val -> bool.
  Fixpoint all2 (la lb : list val) : bool :=
    match la, lb with
    | [], [] => true
    | x :: ra, y :: rb => f x y && all2 ra rb
    | _, _ => false
    end.
  Definition entry_in (ka va : val) (lb : list (val * val)) : bool :=
    existsb (fun e => f ka (fst e) && f va (snd e)) lb.
  Fixpoint entries_sub (la lb : list (val * val)) : bool :=
    match la with [] => true | (ka, va) :: r => entry_in ka va lb && entries_sub r lb end.
  Definition member (x : val) (lb : list val) : bool := existsb (f x) lb.
  Fixpoint members_sub (la lb : list val) : bool :=
    match la with [] => true | x :: r => member x lb && members_sub r lb end.
End All2.

Fixpoint ref_eq (a b : val) {struct a} : bool :=
  match a, b with
  | VNil, VNil => true
  | VBool x, VBool y => Bool.eqb x y
  | VNum _ n, VNum _ m => num_eq n m
  | VStr s, VStr t => str_eqb s t
  | VKw ns nm, VKw ns' nm' => ostr_eqb ns ns' && str_eqb nm nm'
  | VSym ns nm, VSym ns' nm' => ostr_eqb ns ns' && str_eqb nm nm'
  | VSeq _ la, VSeq _ lb => all2 (fun x y => ref_eq x y) la lb
  | VMap la, VMap lb => Nat.eqb (length la) (length lb) && entries_sub (fun x y => ref_eq x y) la lb
  | VRec t la, VRec t' lb => str_eqb t t' && all2 (fun x y => ref_eq x y) la lb
  | VSet la, VSet lb => Nat.eqb (length la) (length lb) && members_sub (fun x y => ref_eq x y) la lb
  | _, _ => false
  end.

(** What the property prescribes for the observations of one pair: [=] both ways is
    [ref_eq]; equal values have equal hashes; a map keyed by one value is found with the other
    (and a set contains it) exactly when they are equal.  [same] = the two operands are one
    and the same object: then [=] must hold unless the object is NaN itself, and hash and
    lookups trivially agree. *)
Definition is_nan (v : val) : bool := match v with VNum _ NaN => true | _ => false end.
Definition ref_equal (same : bool) (x y : val) : bool :=
  if same then negb (is_nan x) else ref_eq x y.
