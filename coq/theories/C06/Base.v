(** C06 -- shared vocabulary of the two models of rust/src/basilisp_native/seq.rs.

    Objects a producer can return / a cell can hold, the four-state cell of [LazySeq]
    ([enum LazySeqState]), generators (what the [Initialized] state carries), scripted
    producer behaviours, iterators shared by [Sequence] cells. *)
From Coq Require Import List NArith Bool Arith Lia.
Import ListNotations.

Definition cid := nat.          (* index of a LazySeq cell in the heap *)

(** Python-level values that flow through seq.rs: [None], the [EMPTY] seq, a [Cons]
    (first, rest) and a [LazySeq] object (by identity). *)
Inductive obj :=
| ONil
| OEmpty
| OCons (v : N) (r : obj)
| OLazy (c : cid).

Inductive fn := FAdd (k : N) | FMul (k : N) | FConst (k : N).
Definition app_fn (f : fn) (x : N) : N :=
  match f with FAdd k => (x + k)%N | FMul k => (x * k)%N | FConst k => k end.

Inductive pred := PTrue | PFalse | PEven | PLt (k : N) | PMod (m r : N).
Definition app_pred (p : pred) (x : N) : bool :=
  match p with
  | PTrue => true | PFalse => false
  | PEven => N.even x
  | PLt k => (x <? k)%N
  | PMod m r => (N.modulo x (N.succ m) =? r)%N
  end.

(** One step of a scripted producer (a Python callable interpreted from JSON by the harness). *)
Inductive action :=
| AYield                 (* a point where the producer lets go of the GIL (switch interval, blocking call) *)
| AWait (e : nat)        (* threading.Event.wait(): releases the GIL while the event is unset *)
| ASet (e : nat)         (* threading.Event.set() *)
| ATouch (c : cid)       (* calls .seq() on LazySeq c and remembers whether it saw nil (re-entrancy probe) *)
| ARet (o : obj)         (* return o *)
| ARetTick (r : obj)     (* return Cons(next(shared counter), r): a producer with a shared side effect *)
| AThrow.                (* raise *)

(** Generators: the callable stored in [LazySeqState::Initialized]. *)
Inductive gen :=
| GScript (l : list action)
| GSeqIt (it : nat)                   (* seq.rs Sequence.__call__ over shared iterator [it] *)
| GMap (f : fn) (src : obj)           (* core.lpy map, 2-ary:    (when-let [coll (seq coll)] (cons (f (first coll)) (map f (rest coll)))) *)
| GFilter (p : pred) (src : obj)      (* core.lpy filter *)
| GTake (n : N) (src : obj)           (* core.lpy take *)
| GIterate (f : fn) (x : N).          (* core.lpy iterate:       (cons x (iterate f (f x))) *)

Inductive cstate :=
| Initialized (g : gen)
| Computing
| Computed (o : obj)
| Realized (o : obj).

(** A cell with instrumentation: how often its generator was called and how often it raised. *)
Record cell := mkCell { cst : cstate; ncalls : N; nthrows : N }.

Inductive item := IVal (v : N) | IRaise.

(** Python iterators a [Sequence] pulls from. *)
Inductive iter :=
| ItList (l : list item)                         (* a scripted iterator: values, or an exception at that pull *)
| ItSeq (cur : obj)                              (* seq.rs SeqIterator: (iterator-seq (iter s)) *)
| ItChain (cur : option obj) (srcs : list obj).  (* runtime.concat_from_seq: chain.from_iterable(filter(None, map(to_seq, seqs))) *)

(** [Cons.rest] / [(rest coll)] of a cons whose stored rest is None is EMPTY. *)
Definition rest_norm (r : obj) : obj := match r with ONil => OEmpty | _ => r end.

(** [seq_or_nil] on something that is not a LazySeq. *)
Definition seq_or_nil (o : obj) : obj := match o with OEmpty => ONil | _ => o end.

Definition is_nil (o : obj) : bool := match o with ONil => true | _ => false end.

(* ---- decidable equalities (for the correspondence) ---- *)
Fixpoint obj_eqb (a b : obj) : bool :=
  match a, b with
  | ONil, ONil => true
  | OEmpty, OEmpty => true
  | OCons v r, OCons v' r' => N.eqb v v' && obj_eqb r r'
  | OLazy c, OLazy c' => Nat.eqb c c'
  | _, _ => false
  end.

Lemma obj_eqb_eq : forall a b, obj_eqb a b = true <-> a = b.
Proof.
  induction a; destruct b; simpl; split; intro H; try congruence; try discriminate; auto.
  - apply andb_true_iff in H. destruct H as [H1 H2]. apply N.eqb_eq in H1. apply IHa in H2. congruence.
  - inversion H; subst. rewrite N.eqb_refl. simpl. apply IHa. reflexivity.
  - apply Nat.eqb_eq in H. congruence.
  - inversion H; subst. apply Nat.eqb_refl.
Qed.

(* ---- list heap helpers ---- *)
Fixpoint upd {A} (l : list A) (i : nat) (x : A) : list A :=
  match l, i with
  | [], _ => []
  | _ :: t, O => x :: t
  | h :: t, S j => h :: upd t j x
  end.

Lemma upd_length : forall A (l : list A) i x, length (upd l i x) = length l.
Proof. induction l; destruct i; simpl; auto. Qed.

Lemma nth_error_upd_same : forall A (l : list A) i x, i < length l -> nth_error (upd l i x) i = Some x.
Proof. induction l; destruct i; simpl; intros; try lia; auto. apply IHl. lia. Qed.

Lemma nth_error_upd_other : forall A (l : list A) i j x, i <> j -> nth_error (upd l i x) j = nth_error l j.
Proof. induction l; destruct i, j; simpl; intros; try congruence; auto. Qed.

Lemma nth_error_upd : forall A (l : list A) i j x,
  nth_error (upd l i x) j = if Nat.eqb i j then (if Nat.ltb i (length l) then Some x else None) else nth_error l j.
Proof.
  intros. destruct (Nat.eqb_spec i j).
  - subst. destruct (Nat.ltb_spec j (length l)).
    + apply nth_error_upd_same; auto.
    + apply nth_error_None. rewrite upd_length. lia.
  - apply nth_error_upd_other; auto.
Qed.

(* ---- vocabulary shared by the model (LazySeq.v) and the reference semantics (Spec.v) ---- *)
Inductive res := Ok (o : obj) | Exn | OutOfFuel | Bad.


Inductive rootspec :=
| RObj (o : obj)                          (* an object as it is (OLazy c refers to a scripted cell) *)
| RMap (f : fn) (r : rootspec)
| RFilter (p : pred) (r : rootspec)
| RTake (n : N) (r : rootspec)
| RIterate (f : fn) (x : N)
| RConcat (rs : list rootspec)            (* (concat a b ...) *)
| RItSeq (it : nat).                      (* (iterator-seq <scripted iterator it>) / seq over a Python iterable *)

Inductive op :=
| OpFirst (r : nat) | OpRest (r : nat) | OpNext (r : nat) | OpSeq (r : nat)
| OpCount (r : nat) | OpNth (r : nat) (i : nat) | OpIter (r : nat) (limit : nat).

(** What one operation lets the consumer observe. *)
Inductive obs :=
| BVal (v : option N)          (* first / nth: a value or nil *)
| BKind (k : N)                (* rest / next / seq: 0 None, 1 EMPTY, 2 Cons, 3 LazySeq *)
| BNum (n : N)                 (* count *)
| BList (l : list N)           (* iteration *)
| BExn (k : N)                 (* 1 the producer's exception, 2 IndexError, 3 anything else *)
| BBad.                        (* the model cannot run this (out of fuel, dangling reference, blocked) *)

Definition kind_of (o : obj) : N :=
  match o with ONil => 0 | OEmpty => 1 | OCons _ _ => 2 | OLazy _ => 3 end%N.

Definition obs_of_res (r : res) (okf : obj -> obs) : obs :=
  match r with Ok o => okf o | Exn => BExn 1 | _ => BBad end.

