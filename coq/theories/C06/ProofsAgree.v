(** C06 -- consumers agree: whatever seq(c) has once returned to a consumer, the cell is Realized with
    exactly that and stays so, under every interleaving (for the repaired error path). *)
From Coq Require Import List NArith Bool Arith Lia.
Import ListNotations.
From Verif Require Import C06.Base C06.Machine C06.ProofsMachine C06.ProofsConc C06.ProofsLock.

(** nobody is inside seq / _compute_seq of cell c *)
Definition settled (st : mstate) (c : cid) : Prop :=
  forall t th, nth_error (thr st) t = Some th -> hcnt c (stk th) = 0.

Definition logged_ok (st : mstate) : Prop :=
  forall c o, In (c, o) (glog st) -> m_cst st c = Some (Realized o) /\ settled st c.

Lemma plain_hcnt : forall c k, forallb plain k = true -> hcnt c k = 0.
Proof.
  induction k; simpl; intros; auto. apply andb_true_iff in H. destruct H.
  rewrite hcnt_cons, IHk by assumption. destruct a; simpl in *; try discriminate; reflexivity.
Qed.

Lemma in_hcnt : forall c fr l, In fr l -> 1 <= hold c fr -> 1 <= hcnt c l.
Proof.
  induction l; simpl; intros; [tauto|]. rewrite hcnt_cons. destruct H.
  - subst. lia.
  - specialize (IHl H H0). lia.
Qed.

Lemma list_sum_pos : forall (l : list nat), 1 <= list_sum l -> exists i x, nth_error l i = Some x /\ 1 <= x.
Proof.
  induction l; simpl; intros; [lia|]. destruct a.
  - destruct (IHl H) as [i [x [Hi Hx]]]. exists (S i), x. auto.
  - exists 0, (S a). simpl. split; auto. lia.
Qed.

Lemma act_stk_pos : forall c l, 1 <= act_stk c l -> exists g b, In (KCompRet c g b) l.
Proof.
  unfold act_stk. induction l; simpl; intros; [lia|].
  destruct (is_act c a) eqn:E.
  - destruct a; simpl in E; try discriminate. apply Nat.eqb_eq in E. subst. eauto.
  - destruct (IHl H) as [g [b Hin]]. eauto.
Qed.

Lemma act_pos_frame : forall st c, 1 <= act st c ->
  exists t th g b, nth_error (thr st) t = Some th /\ In (KCompRet c g b) (stk th).
Proof.
  intros st c H. unfold act in H. destruct (list_sum_pos _ H) as [i [x [Hi Hx]]].
  rewrite nth_error_map in Hi. destruct (nth_error (thr st) i) as [th|] eqn:E; simpl in Hi; try discriminate.
  inversion Hi; subst. destruct (act_stk_pos _ _ Hx) as [g [b Hin]]. exists i, th, g, b. auto.
Qed.

Lemma nth_error_acq_other : forall ls c0 t c, c <> c0 -> nth_error (acq_l ls c0 t) c = nth_error ls c.
Proof.
  intros. unfold acq_l. destruct (nth_error ls c0) as [[[? ?]|]|]; auto; apply nth_error_upd_other; auto.
Qed.
Lemma nth_error_rel_other : forall ls c0 c, c <> c0 -> nth_error (rel_l ls c0) c = nth_error ls c.
Proof.
  intros. unfold rel_l. destruct (nth_error ls c0) as [[[? [|?]]|]|]; auto; apply nth_error_upd_other; auto.
Qed.

(** which mutex and which cell a step touches *)
Definition touches (restore : bool) (t : tid) (st st' : mstate) (th : thread) (c : cid) : Prop :=
  nth_error (mlocks st') c = nth_error (mlocks st) c /\ m_cst st' c = m_cst st c.

Lemma m_cst_app : forall st st' x c, mcells st' = mcells st ++ [x] -> c < length (mcells st) -> m_cst st' c = m_cst st c.
Proof. intros. unfold m_cst. rewrite H, nth_error_app1 by assumption. reflexivity. Qed.

(** a settled Realized cell is left alone by every step *)
Lemma realized_stable : forall restore st st' t th c o,
  lock_ok st -> nth_error (thr st) t = Some th -> eff restore t st st' th ->
  m_cst st c = Some (Realized o) -> settled st c ->
  (forall t', depth (nth_error (mlocks st') c) t' = depth (nth_error (mlocks st) c) t') /\ m_cst st' c = Some (Realized o).
Proof.
  intros restore st st' t th c o L Hth E Hr Hs.
  cut ((nth_error (mlocks st') c = nth_error (mlocks st) c \/ mlocks st' = mlocks st ++ [None]) /\ m_cst st' c = Some (Realized o)).
  { intros [[Hn|Hn] Hm]; split; auto; intro t'.
    - rewrite Hn. reflexivity.
    - rewrite Hn. destruct (Nat.lt_ge_cases c (length (mlocks st))).
      + rewrite nth_error_app1 by lia. reflexivity.
      + rewrite nth_error_app2 by lia.
        replace (nth_error (mlocks st) c) with (@None (option (tid * nat))) by (symmetry; apply nth_error_None; lia).
        destruct (c - length (mlocks st)); simpl; [reflexivity|]. destruct n; reflexivity. }
  assert (H0c : hcnt c (stk th) = 0) by (eapply Hs; eauto).
  assert (Hne_hold : forall c0 fr k, stk th = fr :: k -> 1 <= hold c0 fr -> c <> c0).
  { intros c0 fr k Hk Hh Heq. subst c0. rewrite Hk, hcnt_cons in H0c. lia. }
  assert (Hlen : c < length (mcells st)).
  { unfold m_cst in Hr. apply nth_error_Some. destruct (nth_error (mcells st) c); discriminate. }
  destruct E.
  - split; [left; rewrite H2; reflexivity|]. rewrite (m_cst_eq _ _ H1). exact Hr.
  - split; [left; rewrite H5; reflexivity|]. rewrite (m_cst_eq _ _ H4). exact Hr.
  - assert (c <> c0) by (intro; subst; rewrite Hr in H4; discriminate).
    split; [left; rewrite H6, !nth_error_acq_other by auto; reflexivity|].
    rewrite (m_cst_cset st st' c0 f_start c H5). destruct (Nat.eqb_spec c0 c); [congruence|]. exact Hr.
  - assert (c <> c0) by (intro; subst; rewrite Hr in H3; discriminate).
    split; [left; rewrite H5, nth_error_acq_other by auto; reflexivity|]. rewrite (m_cst_eq _ _ H4). exact Hr.
  - assert (c <> c0) by (intro; subst; rewrite Hr in H4; discriminate).
    split; [left; rewrite H6, nth_error_acq_other by auto; reflexivity|].
    rewrite (m_cst_cset st st' c0 f_start c H5). destruct (Nat.eqb_spec c0 c); [congruence|]. exact Hr.
  - assert (c <> c0) by (eapply Hne_hold; eauto; simpl; rewrite Nat.eqb_refl; destruct b; lia).
    split; [left; rewrite H3, nth_error_rel_other by auto; reflexivity|].
    rewrite (m_cst_cset st st' c0 _ c H2). destruct (Nat.eqb_spec c0 c); [congruence|]. exact Hr.
  - assert (c <> c0) by (eapply Hne_hold; eauto; simpl; rewrite Nat.eqb_refl; destruct b; lia).
    split.
    + left. rewrite H3. destruct b; rewrite ?nth_error_rel_other by auto; reflexivity.
    + rewrite (m_cst_cset st st' c0 _ c H2). destruct (Nat.eqb_spec c0 c); [congruence|]. exact Hr.
  - split; [left; rewrite H3; reflexivity|]. rewrite (m_cst_eq _ _ H2). exact Hr.
  - split; [left; rewrite H3; reflexivity|]. rewrite (m_cst_eq _ _ H2). exact Hr.
  - assert (c <> c0) by (eapply Hne_hold; eauto; simpl; rewrite Nat.eqb_refl; lia).
    split; [left; rewrite H3, nth_error_rel_other by auto; reflexivity|]. rewrite (m_cst_eq _ _ H2). exact Hr.
  - assert (c <> c0) by (eapply Hne_hold; eauto; simpl; rewrite Nat.eqb_refl; lia).
    split; [left; rewrite H4, nth_error_rel_other by auto; reflexivity|].
    rewrite (m_cst_cset st st' c0 _ c H3). destruct (Nat.eqb_spec c0 c); [congruence|]. exact Hr.
  - split; [right; exact H3|]. rewrite (m_cst_app st st' _ c H2 Hlen). exact Hr.
Qed.

Lemma eff_thr : forall restore t st st' th, eff restore t st st' th -> exists th', thr st' = upd (thr st) t th'.
Proof. intros. destruct H; eauto. Qed.

Lemma upd_some_old : forall A (l : list A) i x j y, nth_error (upd l i x) j = Some y -> exists z, nth_error l j = Some z.
Proof.
  intros. assert (j < length l). { rewrite <- (upd_length _ l i x). apply nth_error_Some. congruence. }
  destruct (nth_error l j) eqn:E; eauto. apply nth_error_None in E. lia.
Qed.

Lemma settled_stable : forall st st' t th' c,
  lock_ok st -> lock_ok st' -> thr st' = upd (thr st) t th' ->
  (forall t', depth (nth_error (mlocks st') c) t' = depth (nth_error (mlocks st) c) t') ->
  settled st c -> settled st' c.
Proof.
  intros st st' t th' c L L' Hthr Hd Hs t' th'' Ht'.
  rewrite (L' c t' th'' Ht'), Hd. rewrite Hthr in Ht'. destruct (upd_some_old _ _ _ _ _ _ Ht') as [z Hz].
  rewrite <- (L c t' z Hz). eapply Hs; eauto.
Qed.

Lemma depth_free : forall st c t th,
  lock_ok st -> nth_error (thr st) t = Some th -> can_lock st c t = true ->
  hcnt c (stk th) = 0 -> forall t', depth (nth_error (mlocks st) c) t' = 0.
Proof.
  intros st c t th L Hth Hc H0 t'. unfold can_lock in Hc.
  destruct (nth_error (mlocks st) c) as [[[o n]|]|] eqn:E; simpl; auto.
  apply Nat.eqb_eq in Hc. subst o. pose proof (L c t th Hth) as Hd. rewrite E in Hd. simpl in Hd.
  rewrite Nat.eqb_refl in Hd. lia.
Qed.

Lemma logged_ok_eff : forall st st' t th,
  InvA true st -> lock_ok st -> logged_ok st -> nth_error (thr st) t = Some th -> eff true t st st' th ->
  logged_ok st'.
Proof.
  intros st st' t th I L G Hth E.
  pose proof (lock_ok_eff _ _ _ _ _ L Hth E) as L'.
  destruct (eff_thr _ _ _ _ _ E) as [th1 Hthr1].
  assert (Hold : forall c o, In (c, o) (glog st) -> m_cst st' c = Some (Realized o) /\ settled st' c).
  { intros c o Hin. destruct (G c o Hin) as [Hr Hs].
    destruct (realized_stable _ _ _ _ _ _ _ L Hth E Hr Hs) as [Hd Hm]. split; auto.
    exact (settled_stable st st' t th1 c L L' Hthr1 Hd Hs). }
  intros c o Hin.
  destruct E; try solve [match goal with Hg : glog st' = glog st |- _ => rewrite Hg in Hin; apply Hold; exact Hin end].
  - (* seq answers from a Realized cell *)
    rewrite H6 in Hin. unfold logif in Hin. destruct (forallb plain k) eqn:Ep; [|apply Hold; exact Hin].
    destruct Hin as [Heq|Hin]; [|apply Hold; exact Hin]. inversion Heq; subst c0 o0; clear Heq.
    assert (H0c : hcnt c (stk th) = 0) by (rewrite H0, hcnt_cons, (plain_hcnt c k Ep); reflexivity).
    pose proof (depth_free st c t th L Hth H2 H0c) as Hfree.
    destruct H3 as [Hr|[Hcomp ->]].
    + split; [rewrite (m_cst_eq _ _ H4); exact Hr|].
      intros t' th'' Ht'. rewrite (L' c t' th'' Ht'), H5. apply Hfree.
    + exfalso. pose proof (ia_act_eq _ _ I eq_refl c) as Hge. unfold st_comp in Hge. rewrite Hcomp in Hge. simpl in Hge.
      destruct (act_pos_frame st c Hge) as [t2 [th2 [g [b [Ht2 Hin2]]]]].
      assert (1 <= hcnt c (stk th2)).
      { eapply in_hcnt; eauto. simpl. rewrite Nat.eqb_refl. destruct b; lia. }
      rewrite (L c t2 th2 Ht2), Hfree in H3. lia.
  - (* the loop ends: Realized *)
    rewrite H5 in Hin. unfold logif in Hin. destruct (forallb plain k) eqn:Ep; [|apply Hold; exact Hin].
    destruct Hin as [Heq|Hin]; [|apply Hold; exact Hin]. inversion Heq; subst c0 o; clear Heq.
    assert (Hex : exists k0, nth_error (mcells st) c = Some k0).
    { assert (Hcr : st_cr st c = true).
      { eapply (ia_unwrap _ _ I t th (KUnwrap c w) c); eauto. rewrite H0. left. reflexivity. simpl. apply Nat.eqb_refl. }
      unfold st_cr, m_cst in Hcr. destruct (nth_error (mcells st) c); eauto. discriminate. }
    destruct Hex as [k0 Hk0]. split.
    + rewrite (m_cst_cset st st' c _ c H3), Nat.eqb_refl, Hk0. reflexivity.
    + assert (Hh : hcnt c (stk th) = 1).
      { rewrite H0, hcnt_cons, (plain_hcnt c k Ep). simpl. rewrite Nat.eqb_refl. reflexivity. }
      pose proof (L c t th Hth) as Hd. rewrite Hh in Hd.
      intros t' th'' Ht'. rewrite H in Ht'. apply nth_error_upd_inv in Ht'. destruct Ht' as [[-> ->]|[Hne Ht']].
      * rewrite H1. apply plain_hcnt. exact Ep.
      * rewrite (L c t' th'' Ht'). unfold depth in *.
        destruct (nth_error (mlocks st) c) as [[[ow n]|]|]; auto.
        destruct (Nat.eqb_spec t ow); [|lia]. subst ow. destruct (Nat.eqb_spec t' t); [congruence|reflexivity].
Qed.

(* ---------------------------------------------------------------------------------- *)
(** ** all reachable states *)

Lemma lock_ok_same : forall st st', lock_ok st -> same_core st st' -> lock_ok st'.
Proof. intros st st' L [Ht [_ [Hl _]]] c t th Hth. rewrite Hl. rewrite Ht in Hth. apply L; auto. Qed.

Lemma lock_ok_fresh : forall st, fresh_state st -> lock_ok st.
Proof.
  intros st [_ [Ht [Hl _]]] c t th Hth. rewrite (Ht t th Hth). simpl.
  destruct (nth_error (mlocks st) c) as [l|] eqn:E; simpl; auto. rewrite (Hl c l E). reflexivity.
Qed.

Lemma lock_ok_reachable : forall restore st0 st, fresh_state st0 -> reachable restore st0 st -> lock_ok st.
Proof.
  intros restore st0 st Hf Hr. eapply (reachable_ind restore lock_ok); eauto.
  - apply lock_ok_fresh; auto.
  - intros s s' l L Hs. destruct (sched_eff _ _ _ _ Hs) as [Hsame|[t [th [Hth E]]]].
    + eapply lock_ok_same; eauto.
    + eapply lock_ok_eff; eauto.
Qed.

(** MUTUAL EXCLUSION.  A thread that is running the producer of c, or is inside the loop of seq(c), owns
    the mutex of c, and no other thread is inside seq / _compute_seq of c. *)
Theorem producer_runs_under_the_mutex : forall restore st0 st,
  fresh_state st0 -> reachable restore st0 st ->
  forall t th c fr, nth_error (thr st) t = Some th -> In fr (stk th) -> 1 <= hold c fr ->
    (exists n, nth_error (mlocks st) c = Some (Some (t, n))) /\
    (forall t' th', t' <> t -> nth_error (thr st) t' = Some th' -> hcnt c (stk th') = 0).
Proof.
  intros restore st0 st Hf Hr t th c fr Hth Hin Hh.
  pose proof (lock_ok_reachable _ _ _ Hf Hr) as L.
  pose proof (in_hcnt c fr _ Hin Hh) as Hc. pose proof (L c t th Hth) as Hd. rewrite Hd in Hc.
  unfold depth in Hc. destruct (nth_error (mlocks st) c) as [[[o n]|]|] eqn:E; try lia.
  destruct (Nat.eqb_spec t o); try lia. subst o. split; eauto.
  intros t' th' Hne Ht'. rewrite (L c t' th' Ht'), E. simpl. destruct (Nat.eqb_spec t' t); [congruence|reflexivity].
Qed.

Lemma logged_ok_same : forall st st', logged_ok st -> same_core st st' -> logged_ok st'.
Proof.
  intros st st' G [Ht [Hc [_ Hg]]] c o Hin. rewrite Hg in Hin. destruct (G c o Hin) as [Hr Hs]. split.
  - rewrite (m_cst_eq _ _ Hc). exact Hr.
  - intros t th Hth. rewrite Ht in Hth. eapply Hs; eauto.
Qed.

Lemma logged_ok_reachable : forall st0 st, fresh_state st0 -> reachable true st0 st -> logged_ok st.
Proof.
  intros st0 st Hf Hr.
  cut (InvA true st /\ lock_ok st /\ logged_ok st); [tauto|].
  eapply (reachable_ind true (fun s => InvA true s /\ lock_ok s /\ logged_ok s)); eauto.
  - split; [apply InvA_fresh; auto|split; [apply lock_ok_fresh; auto|]].
    intros c o Hin. destruct Hf as [_ [_ [_ [_ Hg]]]]. rewrite Hg in Hin. destruct Hin.
  - intros s s' l [I [L G]] Hs. destruct (sched_eff _ _ _ _ Hs) as [Hsame|[t [th [Hth E]]]].
    + split; [eapply InvA_same; eauto|split; [eapply lock_ok_same; eauto|eapply logged_ok_same; eauto]].
    + split; [eapply InvA_eff; eauto|split; [eapply lock_ok_eff; eauto|eapply logged_ok_eff; eauto]].
Qed.

(** CONSUMERS AGREE.  Under every interleaving (arbitrary pre-emption included), whatever seq(c) has
    returned to a consumer -- any thread, any time -- is what the cell holds from then on; hence any two
    consumers of the same cell got the same object. *)
Theorem consumers_agree : forall st0 st,
  fresh_state st0 -> reachable true st0 st ->
  (forall c o, In (c, o) (glog st) -> m_cst st c = Some (Realized o)) /\
  (forall c o1 o2, In (c, o1) (glog st) -> In (c, o2) (glog st) -> o1 = o2).
Proof.
  intros st0 st Hf Hr. pose proof (logged_ok_reachable _ _ Hf Hr) as G. split.
  - intros c o Hin. apply (G c o Hin).
  - intros c o1 o2 H1 H2. destruct (G c o1 H1) as [E1 _]. destruct (G c o2 H2) as [E2 _].
    rewrite E1 in E2. inversion E2. reflexivity.
Qed.
