(** C06 -- executable model of the LazySeq cell machine of rust/src/basilisp_native/seq.rs as
    ONE thread sees it (big-step, explicit fuel), with the generators of core.lpy that the
    property names (lazy-seq, map, filter, take, iterate, concat, iterator seqs).

    [restore] is the shape of the error path of [_compute_seq]:
      false = the pinned code: `gen.call0(py)?` returns with the state left [Computing];
      true  = the repaired code: the state is put back to [Initialized gen] before the error
              is returned (fixes/C06-lazyseq-error-path.patch).
    The check instantiates it with the constant the translator reads off seq.rs. *)
From Coq Require Import List NArith Bool Arith Lia.
Import ListNotations.
From Verif Require Export C06.Base.

Record st := mkSt {
  heap : list cell;
  iters : list iter;
  evs : list bool;
  tick : N;                       (* the shared counter of ARetTick *)
  fcalls : N;                     (* applications of the mapped function / predicate *)
  seen : list (cid * bool);       (* what ATouch saw, oldest first: (cell, saw nil) *)
  flags : N                       (* ghost: 4 = an exception left the loop of seq(c) after a nested call had stored Realized in c;
                                            8 = itertools.chain was ended by an exception (concat) *)
}.

Definition get (s : st) (c : cid) : option cell := nth_error (heap s) c.
Definition set_heap (s : st) (h : list cell) : st := mkSt h (iters s) (evs s) (tick s) (fcalls s) (seen s) (flags s).
Definition set_cst (s : st) (c : cid) (x : cstate) : st :=
  match get s c with
  | Some k => set_heap s (upd (heap s) c (mkCell x (ncalls k) (nthrows k)))
  | None => s
  end.
Definition start_call (s : st) (c : cid) : st :=
  match get s c with
  | Some k => set_heap s (upd (heap s) c (mkCell Computing (N.succ (ncalls k)) (nthrows k)))
  | None => s
  end.
Definition note_throw (s : st) (c : cid) (x : cstate) : st :=
  match get s c with
  | Some k => set_heap s (upd (heap s) c (mkCell x (ncalls k) (N.succ (nthrows k))))
  | None => s
  end.
Definition alloc (s : st) (g : gen) : st * cid :=
  (set_heap s (heap s ++ [mkCell (Initialized g) 0 0]), length (heap s)).
Definition set_iter (s : st) (i : nat) (x : iter) : st :=
  mkSt (heap s) (upd (iters s) i x) (evs s) (tick s) (fcalls s) (seen s) (flags s).
Definition set_ev (s : st) (e : nat) : st :=
  mkSt (heap s) (iters s) (upd (evs s) e true) (tick s) (fcalls s) (seen s) (flags s).
Definition bump_tick (s : st) : st := mkSt (heap s) (iters s) (evs s) (N.succ (tick s)) (fcalls s) (seen s) (flags s).
Definition bump_f (s : st) : st := mkSt (heap s) (iters s) (evs s) (tick s) (N.succ (fcalls s)) (seen s) (flags s).
Definition mark_if_realized (s : st) (c : cid) : st :=
  match nth_error (heap s) c with
  | Some k => match cst k with
              | Realized _ => mkSt (heap s) (iters s) (evs s) (tick s) (fcalls s) (seen s) (N.lor (flags s) 4)
              | _ => s end
  | None => s
  end.
Definition chain_dead (s : st) (it : nat) : st :=
  mkSt (heap s) (upd (iters s) it (ItChain None [])) (evs s) (tick s) (fcalls s) (seen s) (N.lor (flags s) 8).
Definition note_seen (s : st) (c : cid) (b : bool) : st :=
  mkSt (heap s) (iters s) (evs s) (tick s) (fcalls s) (seen s ++ [(c, b)]) (flags s).

(** Entry points of the code, one constructor each.  Results are objects; a pair (value, rest)
    is returned as [OCons value rest] and "StopIteration" as [ONil]. *)
Inductive call :=
| CSeq (c : cid)                 (* LazySeq.seq *)
| CCompute (c : cid)             (* LazySeq._compute_seq *)
| CUnwrap (c : cid) (w : obj)    (* the `loop { if wrapped is a LazySeq ... }` of seq, then the Realized store *)
| CToSeq (o : obj)               (* to_seq *)
| CGen (g : gen)                 (* gen.call0() *)
| CScript (l : list action)      (* a scripted producer *)
| CPull (it : nat)               (* next(iterator) *)
| CIterNext (cur : obj).         (* SeqIterator.__next__ with self.cur = cur: OCons v cur' | ONil *)

Section Model.
Variable restore : bool.

Fixpoint ev (fuel : nat) (k : call) (s : st) : st * res :=
  match fuel with
  | O => (s, OutOfFuel)
  | S f =>
    match k with
    | CSeq c =>
        match get s c with
        | None => (s, Bad)
        | Some cl =>
          match cst cl with
          | Realized o => (s, Ok o)
          | _ =>
            let (s1, r) := ev f (CCompute c) s in
            match r with
            | Ok _ =>
                match get s1 c with
                | Some cl1 =>
                    match cst cl1 with
                    | Computed o => ev f (CUnwrap c o) s1
                    | _ => (s1, Ok ONil)
                    end
                | None => (s1, Bad)
                end
            | e => (s1, e)
            end
          end
        end
    | CCompute c =>
        match get s c with
        | None => (s, Bad)
        | Some cl =>
          match cst cl with
          | Computing => (s, Ok ONil)
          | Computed o => (s, Ok o)
          | Realized o => (s, Ok o)
          | Initialized g =>
              let (s2, r) := ev f (CGen g) (start_call s c) in
              match r with
              | Ok o => (set_cst s2 c (Computed o), Ok o)
              | Exn => (note_throw s2 c (if restore then Initialized g else Computing), Exn)
              | e => (s2, e)
              end
          end
        end
    | CUnwrap c w =>
        match w with
        | OLazy d =>
            let (s1, r) := ev f (CCompute d) s in
            match r with
            | Ok w' => ev f (CUnwrap c w') s1
            | Exn => (mark_if_realized s1 c, Exn)
            | e => (s1, e)
            end
        | _ => let o := seq_or_nil w in (set_cst s c (Realized o), Ok o)
        end
    | CToSeq o =>
        match o with
        | OLazy c => ev f (CSeq c) s
        | _ => (s, Ok (seq_or_nil o))
        end
    | CGen g =>
        match g with
        | GScript l => ev f (CScript l) s
        | GSeqIt it =>
            let (s1, r) := ev f (CPull it) s in
            match r with
            | Ok (OCons v _) =>
                let (s2, n) := alloc s1 (GSeqIt it) in (s2, Ok (OCons v (OLazy n)))
            | Ok _ => (s1, Ok OEmpty)
            | e => (s1, e)
            end
        | GMap fn src =>
            let (s1, r) := ev f (CToSeq src) s in
            match r with
            | Ok (OCons v rst) =>
                let (s2, n) := alloc (bump_f s1) (GMap fn (rest_norm rst)) in
                (s2, Ok (OCons (app_fn fn v) (OLazy n)))
            | Ok _ => (s1, Ok ONil)
            | e => (s1, e)
            end
        | GFilter p src =>
            let (s1, r) := ev f (CToSeq src) s in
            match r with
            | Ok (OCons v rst) =>
                let (s2, n) := alloc (bump_f s1) (GFilter p (rest_norm rst)) in
                if app_pred p v then (s2, Ok (OCons v (OLazy n))) else (s2, Ok (OLazy n))
            | Ok _ => (s1, Ok ONil)
            | e => (s1, e)
            end
        | GTake n src =>
            if (n =? 0)%N then (s, Ok ONil) else
            let (s1, r) := ev f (CToSeq src) s in
            match r with
            | Ok (OCons v rst) =>
                let (s2, m) := alloc s1 (GTake (N.pred n) (rest_norm rst)) in
                (s2, Ok (OCons v (OLazy m)))
            | Ok _ => (s1, Ok ONil)
            | e => (s1, e)
            end
        | GIterate fn x =>
            let (s2, n) := alloc (bump_f s) (GIterate fn (app_fn fn x)) in
            (s2, Ok (OCons x (OLazy n)))
        end
    | CScript l =>
        match l with
        | [] => (s, Ok ONil)
        | AYield :: l' => ev f (CScript l') s
        | ASet e :: l' => ev f (CScript l') (set_ev s e)
        | AWait e :: l' => if nth e (evs s) false then ev f (CScript l') s else (s, Bad)
        | ATouch d :: l' =>
            let (s1, r) := ev f (CSeq d) s in
            match r with
            | Ok o => ev f (CScript l') (note_seen s1 d (is_nil o))
            | e => (s1, e)
            end
        | ARet o :: _ => (s, Ok o)
        | ARetTick r :: _ => (bump_tick s, Ok (OCons (tick s) r))
        | AThrow :: _ => (s, Exn)
        end
    | CPull it =>
        match nth_error (iters s) it with
        | None => (s, Bad)
        | Some (ItList []) => (s, Ok ONil)
        | Some (ItList (IVal v :: l)) => (set_iter s it (ItList l), Ok (OCons v ONil))
        | Some (ItList (IRaise :: l)) => (set_iter s it (ItList l), Exn)
        | Some (ItSeq cur) =>
            let (s1, r) := ev f (CIterNext cur) s in
            match r with
            | Ok (OCons v cur') => (set_iter s1 it (ItSeq cur'), Ok (OCons v ONil))
            | Ok _ => (s1, Ok ONil)
            | e => (s1, e)
            end
        | Some (ItChain (Some cur) srcs) =>
            let (s1, r) := ev f (CIterNext cur) s in
            match r with
            | Ok (OCons v cur') => (set_iter s1 it (ItChain (Some cur') srcs), Ok (OCons v ONil))
            | Ok _ => ev f (CPull it) (set_iter s1 it (ItChain None srcs))
            | e => (s1, e)
            end
        | Some (ItChain None []) => (s, Ok ONil)
        | Some (ItChain None (src :: srcs)) =>
            let s0 := set_iter s it (ItChain None srcs) in
            let (s1, r) := ev f (CToSeq src) s0 in
            match r with
            | Ok ONil => ev f (CPull it) s1
            | Ok o => ev f (CPull it) (set_iter s1 it (ItChain (Some o) srcs))
            | Exn => (chain_dead s1 it, Exn)
                (* CPython's chain_next: `iterable = PyIter_Next(source); if (iterable == NULL) { Py_CLEAR(source); ...`
                   -- an exception while advancing to the next input ends the chain for good *)
            | e => (s1, e)
            end
        end
    | CIterNext cur =>
        match cur with
        | ONil => (s, Ok ONil)
        | OLazy c =>
            let (s1, r) := ev f (CSeq c) s in
            match r with
            | Ok (OCons v rst) => (s1, Ok (OCons v (rest_norm rst)))
            | Ok _ => (s1, Ok ONil)
            | e => (s1, e)
            end
        | OCons v rst => (s, Ok (OCons v (rest_norm rst)))
        | OEmpty => (s, Ok ONil)
        end
    end
  end.

(* ---------------------------------------------------------------------------------- *)
(** ** Consumer operations (runtime.py first / rest / next_ / to_seq / count / nth, iteration) *)

(** LazySeq.first / Cons.first / EMPTY.first; runtime.first(None) = None. Result: [Ok (OCons v _)] = value v,
    [Ok ONil] = nil. *)
Definition op_first (fuel : nat) (o : obj) (s : st) : st * res :=
  match o with
  | OLazy c =>
      let (s1, r) := ev fuel (CSeq c) s in
      match r with
      | Ok (OCons v _) => (s1, Ok (OCons v ONil))
      | Ok _ => (s1, Ok ONil)
      | e => (s1, e)
      end
  | OCons v _ => (s, Ok (OCons v ONil))
  | _ => (s, Ok ONil)
  end.

(** runtime.rest: never nil; result is the new cursor. *)
Definition op_rest (fuel : nat) (o : obj) (s : st) : st * res :=
  match o with
  | OLazy c =>
      let (s1, r) := ev fuel (CSeq c) s in
      match r with
      | Ok (OCons _ rst) => (s1, Ok (rest_norm rst))
      | Ok _ => (s1, Ok OEmpty)
      | e => (s1, e)
      end
  | OCons _ rst => (s, Ok (rest_norm rst))
  | _ => (s, Ok OEmpty)
  end.

Definition op_seq (fuel : nat) (o : obj) (s : st) : st * res := ev fuel (CToSeq o) s.

(** runtime.next_ = to_seq(rest(o)) *)
Definition op_next (fuel : nat) (o : obj) (s : st) : st * res :=
  let (s1, r) := op_rest fuel o s in
  match r with
  | Ok o' => op_seq fuel o' s1
  | e => (s1, e)
  end.

(** Walk with a SeqIterator at most [n] steps collecting the values (in reverse). *)
Fixpoint walk (fuel : nat) (n : nat) (cur : obj) (acc : list N) (s : st) : st * res * list N :=
  match n with
  | O => (s, Ok cur, acc)
  | S m =>
      let (s1, r) := ev fuel (CIterNext cur) s in
      match r with
      | Ok (OCons v cur') => walk fuel m cur' (v :: acc) s1
      | Ok _ => (s1, Ok ONil, acc)
      | e => (s1, e, acc)
      end
  end.

End Model.

(* ---------------------------------------------------------------------------------- *)
(** ** Histories *)

Section Run.
Variable restore : bool.
Variable fuel : nat.

(** Building a root allocates the cells the real constructors allocate (a LazySeq per map / filter /
    take / iterate call, a Sequence + LazySeq per concat / iterator-seq). Children first. *)
Fixpoint build_root (r : rootspec) (s : st) : st * obj :=
  match r with
  | RObj o => (s, o)
  | RMap f r' => let (s1, o) := build_root r' s in let (s2, n) := alloc s1 (GMap f o) in (s2, OLazy n)
  | RFilter p r' => let (s1, o) := build_root r' s in let (s2, n) := alloc s1 (GFilter p o) in (s2, OLazy n)
  | RTake k r' => let (s1, o) := build_root r' s in let (s2, n) := alloc s1 (GTake k o) in (s2, OLazy n)
  | RIterate f x => let (s2, n) := alloc s (GIterate f x) in (s2, OLazy n)
  | RConcat rs =>
      let fix go (l : list rootspec) (s : st) : st * list obj :=
        match l with
        | [] => (s, [])
        | r' :: t => let (s1, o) := build_root r' s in let (s2, os) := go t s1 in (s2, o :: os)
        end in
      let (s1, os) := go rs s in
      let it := length (iters s1) in
      let s2 := mkSt (heap s1) (iters s1 ++ [ItChain None os]) (evs s1) (tick s1) (fcalls s1) (seen s1) (flags s1) in
      let (s3, n) := alloc s2 (GSeqIt it) in (s3, OLazy n)
  | RItSeq it => let (s2, n) := alloc s (GSeqIt it) in (s2, OLazy n)
  end.

Fixpoint build_roots (l : list rootspec) (s : st) : st * list obj :=
  match l with
  | [] => (s, [])
  | r :: t => let (s1, o) := build_root r s in let (s2, os) := build_roots t s1 in (s2, o :: os)
  end.

Definition reg (regs : list obj) (r : nat) : obj := nth r regs ONil.

(** One operation: new state, new register file (rest / next / seq append their result, also after
    an exception: then the register is nil), observation. *)
Definition do_op (o : op) (regs : list obj) (s : st) : st * list obj * obs :=
  match o with
  | OpFirst r =>
      let (s1, x) := op_first restore fuel (reg regs r) s in
      (s1, regs, obs_of_res x (fun o => match o with OCons v _ => BVal (Some v) | _ => BVal None end))
  | OpRest r =>
      let (s1, x) := op_rest restore fuel (reg regs r) s in
      (s1, regs ++ [match x with Ok o => o | _ => ONil end], obs_of_res x (fun o => BKind (kind_of o)))
  | OpNext r =>
      let (s1, x) := op_next restore fuel (reg regs r) s in
      (s1, regs ++ [match x with Ok o => o | _ => ONil end], obs_of_res x (fun o => BKind (kind_of o)))
  | OpSeq r =>
      let (s1, x) := op_seq restore fuel (reg regs r) s in
      (s1, regs ++ [match x with Ok o => o | _ => ONil end], obs_of_res x (fun o => BKind (kind_of o)))
  | OpCount r =>
      match reg regs r with
      | ONil => (s, regs, BNum 0)
      | cur =>
        let '(s1, x, acc) := walk restore fuel fuel cur [] s in
        (s1, regs, match x with Ok ONil => BNum (N.of_nat (length acc)) | Ok _ => BBad | Exn => BExn 1 | _ => BBad end)
      end
  | OpNth r i =>
      match reg regs r with
      | ONil => (s, regs, BVal None)
      | cur =>
        let '(s1, x, acc) := walk restore fuel (S i) cur [] s in
        (s1, regs, match x with
                   | Ok _ => if Nat.eqb (length acc) (S i) then BVal (hd_error acc) else BExn 2
                   | Exn => BExn 1 | _ => BBad end)
      end
  | OpIter r limit =>
      match reg regs r with
      | ONil => (s, regs, BExn 3)        (* iter(None): TypeError *)
      | cur =>
        let '(s1, x, acc) := walk restore fuel limit cur [] s in
        (s1, regs, match x with Ok _ => BList (rev acc) | Exn => BExn 1 | _ => BBad end)
      end
  end.

Fixpoint do_ops (l : list op) (regs : list obj) (s : st) (acc : list obs) : st * list obs :=
  match l with
  | [] => (s, rev acc)
  | o :: t => let '(s1, regs1, b) := do_op o regs s in do_ops t regs1 s1 (b :: acc)
  end.

End Run.

Definition init_cell (l : list action) : cell := mkCell (Initialized (GScript l)) 0 0.
Definition init_st (scripts : list (list action)) (its : list iter) (nev : nat) : st :=
  mkSt (map init_cell scripts) its (repeat false nev) 0 0 [] 0.
