(** C06 -- the premises of the laziness theorems are met by the states the correspondence starts from:
    (map f s), (filter p s), (take k s), (concat s ...), (iterate f x), (iterator-seq it) built by
    [build_root] over an instrumented chain. *)
From Coq Require Import List NArith Bool Arith Lia.
Import ListNotations.
From Verif Require Import C06.Base C06.LazySeq C06.ProofsBig C06.ProofsLazy C06.ProofsMap C06.ProofsTake
  C06.ProofsFilter C06.ProofsConcat.

Lemma chain_scripts_length : forall vs b, length (chain_scripts vs b) = S (length vs).
Proof. induction vs; intros; simpl; auto. Qed.

Definition s0 (vs : list N) (its : list iter) : st := init_st (chain_scripts vs 0) its 0.

Lemma hlen_s0 : forall vs its, hlen (s0 vs its) = S (length vs).
Proof. intros. unfold hlen, s0, init_st. simpl. rewrite map_length. apply chain_scripts_length. Qed.

Lemma alloc_root : forall vs its g,
  let s := fst (alloc (s0 vs its) g) in
  chain_at vs 0 0 s /\ get s (S (length vs)) = Some (out_cell g) /\ iters s = its.
Proof.
  intros vs its g. unfold alloc. cbn [fst]. split; [|split].
  - intros i Hi. erewrite get_app_old; [reflexivity|]. exact (chain_at_init vs its 0 i Hi).
  - rewrite <- (hlen_s0 vs its). apply get_app_new.
  - reflexivity.
Qed.

Example map_root : forall fn vs,
  map_at fn vs 0 0 (S (length vs)) (fst (build_root (RMap fn (RObj (OLazy 0))) (s0 vs []))).
Proof.
  intros. destruct (alloc_root vs [] (GMap fn (OLazy 0))) as [Hc [Hg _]].
  split; [exact Hc|split; [exact Hg|lia]].
Qed.

Example filter_root : forall p vs,
  filter_at p vs 0 0 (S (length vs)) (fst (build_root (RFilter p (RObj (OLazy 0))) (s0 vs []))).
Proof.
  intros. destruct (alloc_root vs [] (GFilter p (OLazy 0))) as [Hc [Hg _]].
  split; [exact Hc|split; [exact Hg|lia]].
Qed.

Example take_root : forall k vs,
  take_at k vs 0 0 (S (length vs)) (fst (build_root (RTake k (RObj (OLazy 0))) (s0 vs []))).
Proof.
  intros. destruct (alloc_root vs [] (GTake k (OLazy 0))) as [Hc [Hg _]].
  split; [exact Hc|split; [exact Hg|lia]].
Qed.

Example iterate_root : forall fn x vs,
  iter_at fn x (S (length vs)) (fst (build_root (RIterate fn x) (s0 vs []))).
Proof. intros. destruct (alloc_root vs [] (GIterate fn x)) as [_ [Hg _]]. exact Hg. Qed.

Example seqit_root : forall vs xs,
  let s := fst (build_root (RItSeq 0) (s0 vs [ItList (map IVal xs)])) in
  seqit_at 0 (S (length vs)) s /\ nth_error (iters s) 0 = Some (ItList (map IVal xs)).
Proof.
  intros. destruct (alloc_root vs [ItList (map IVal xs)] (GSeqIt 0)) as [_ [Hg Hi]].
  split; [exact Hg|]. reflexivity.
Qed.

Example concat_root : forall vs rest,
  concat_at vs 0 0 0 (S (length vs)) rest
    (fst (build_root (RConcat (RObj (OLazy 0) :: map RObj rest)) (s0 vs []))).
Proof.
  intros vs rest.
  assert (Hgo : forall (l : list obj) s,
            (fix go (l : list rootspec) (s : st) {struct l} : st * list obj :=
               match l with
               | [] => (s, [])
               | r' :: t => let (s1, o) := build_root r' s in let (s2, os) := go t s1 in (s2, o :: os)
               end) (map RObj l) s = (s, l)).
  { induction l; intros; simpl; auto. rewrite IHl. reflexivity. }
  simpl build_root. rewrite Hgo. simpl.
  set (S0 := init_st (chain_scripts vs 0) [ItChain None (OLazy 0 :: rest)] 0).
  change (concat_at vs 0 0 0 (S (length vs)) rest
            (set_heap S0 (heap S0 ++ [mkCell (Initialized (GSeqIt 0)) 0 0]))).
  assert (Hh : hlen S0 = S (length vs)).
  { unfold hlen, S0, init_st. simpl. rewrite map_length. apply chain_scripts_length. }
  split; [|split; [|split]].
  - intros i Hi. erewrite get_app_old; [reflexivity|]. exact (chain_at_init vs _ 0 i Hi).
  - unfold seqit_at. rewrite <- Hh. apply get_app_new.
  - lia.
  - reflexivity.
Qed.
