(** C06 -- laziness of core.lpy map / iterate / iterator seqs over instrumented chains. *)
From Coq Require Import List NArith Bool Arith Lia.
Import ListNotations.
From Verif Require Import C06.Base C06.LazySeq C06.ProofsBig C06.ProofsLazy.

(** changing a cell outside the chain keeps the chain as it is *)
Lemma chain_at_frame : forall vs b j s s',
  chain_at vs b j s -> (forall i, i <= length vs -> get s' (b + i) = get s (b + i)) -> chain_at vs b j s'.
Proof. intros vs b j s s' H Hf i Hi. rewrite Hf by assumption. apply H; assumption. Qed.

Lemma fcalls_set_cst : forall s c x, fcalls (set_cst s c x) = fcalls s.
Proof. intros. unfold set_cst. destruct (get s c); reflexivity. Qed.
Lemma fcalls_start_call : forall s c, fcalls (start_call s c) = fcalls s.
Proof. intros. unfold start_call. destruct (get s c); reflexivity. Qed.
Lemma iters_set_cst : forall s c x, iters (set_cst s c x) = iters s.
Proof. intros. unfold set_cst. destruct (get s c); reflexivity. Qed.
Lemma iters_start_call : forall s c, iters (start_call s c) = iters s.
Proof. intros. unfold start_call. destruct (get s c); reflexivity. Qed.

Definition out_cell (g : gen) : cell := mkCell (Initialized g) 0 0.

Definition map_at (fn : fn) (vs : list N) (b j c : nat) (s : st) : Prop :=
  chain_at vs b j s /\ get s c = Some (out_cell (GMap fn (OLazy (b + j)))) /\ b + length vs < c.

Lemma map_step_cons : forall restore f fn vs b j c s v,
  map_at fn vs b j c s -> nth_error vs j = Some v ->
  exists s',
    ev restore (S (S (S (S (S (S (S (S f)))))))) (CSeq c) s = (s', Ok (OCons (app_fn fn v) (OLazy (hlen s))))
    /\ map_at fn vs b (S j) (hlen s) s'
    /\ fcalls s' = N.succ (fcalls s)
    /\ hlen s' = S (hlen s).
Proof.
  intros restore f fn vs b j c s v [Hc [Hg Hout]] Ev.
  assert (Hj : j < length vs) by (apply nth_error_Some; congruence).
  assert (Hcr : chain_ret vs b j = OCons v (OLazy (b + S j))) by (unfold chain_ret; rewrite Ev; reflexivity).
  set (s1 := start_call s c).
  assert (Hc1 : chain_at vs b j s1).
  { eapply chain_at_frame; eauto. intros i Hi. unfold s1. rewrite get_start_call.
    destruct (Nat.eqb_spec c (b + i)); [lia | reflexivity]. }
  destruct (chain_step restore f vs b j s1 Hc1 ltac:(lia)) as [Hev Hc2].
  rewrite Hcr in Hev, Hc2.
  set (s2 := realize_plain s1 (b + j) (OCons v (OLazy (b + S j)))) in *.
  assert (Hclt : c < hlen s) by (eapply get_lt; eauto).
  assert (Hh2 : hlen s2 = hlen s).
  { unfold s2. rewrite hlen_realize_plain. unfold s1. apply hlen_start_call. }
  set (r := OCons (app_fn fn v) (OLazy (hlen s))).
  set (s3 := set_heap (bump_f s2) (heap (bump_f s2) ++ [out_cell (GMap fn (OLazy (b + S j)))])).
  assert (Hg3 : get s3 c = Some (mkCell Computing 1 0)).
  { unfold s3. erewrite get_app_old; [reflexivity|]. rewrite get_bump_f. unfold s2.
    rewrite get_realize_plain_other by lia. unfold s1. rewrite get_start_call, Nat.eqb_refl, Hg. reflexivity. }
  exists (set_cst (set_cst s3 c (Computed r)) c (Realized r)). split; [|split; [|split]].
  - rewrite ev_CSeq, Hg. cbn [cst out_cell]. rewrite ev_CCompute, Hg. cbn [cst out_cell].
    rewrite ev_CGen_map, ev_CToSeq_lazy. fold s1. rewrite Hev. cbn [rest_norm].
    unfold alloc. cbn [fst snd]. change (set_heap (bump_f s2) _) with s3.
    change (length (heap (bump_f s2))) with (hlen s2). rewrite Hh2. fold r.
    rewrite get_set_cst, Nat.eqb_refl, Hg3. cbn [option_map cst].
    rewrite ev_CUnwrap_plain by reflexivity. reflexivity.
  - split; [|split].
    + eapply chain_at_frame; [exact Hc2|]. intros i Hi.
      rewrite !get_set_cst. destruct (Nat.eqb_spec c (b + i)); [lia|].
      unfold s3. pose proof (Hc2 i Hi) as Hgi. erewrite get_app_old; [|rewrite get_bump_f; exact Hgi].
      symmetry. exact Hgi.
    + rewrite !get_set_cst. destruct (Nat.eqb_spec c (hlen s)); [lia|].
      unfold s3. replace (hlen s) with (hlen (bump_f s2)) by (exact Hh2). rewrite get_app_new.
      replace (b + S j) with (b + S j) by lia. reflexivity.
    + pose proof (Hc (length vs) (le_n _)) as Hl. apply get_lt in Hl. unfold hlen. lia.
  - rewrite !fcalls_set_cst. unfold s3. cbn [fcalls set_heap bump_f]. unfold s2.
    rewrite fcalls_realize_plain. unfold s1. rewrite fcalls_start_call. reflexivity.
  - rewrite !hlen_set_cst. unfold s3. rewrite hlen_app. f_equal. exact Hh2.
Qed.

Lemma map_step_nil : forall restore f fn vs b c s,
  map_at fn vs b (length vs) c s ->
  exists s',
    ev restore (S (S (S (S (S (S (S (S f)))))))) (CSeq c) s = (s', Ok ONil)
    /\ chain_at vs b (S (length vs)) s'
    /\ fcalls s' = fcalls s.
Proof.
  intros restore f fn vs b c s [Hc [Hg Hout]].
  assert (Ev : nth_error vs (length vs) = None) by (apply nth_error_None; lia).
  assert (Hcr : chain_ret vs b (length vs) = ONil) by (unfold chain_ret; rewrite Ev; reflexivity).
  set (s1 := start_call s c).
  assert (Hc1 : chain_at vs b (length vs) s1).
  { eapply chain_at_frame; eauto. intros i Hi. unfold s1. rewrite get_start_call.
    destruct (Nat.eqb_spec c (b + i)); [lia | reflexivity]. }
  destruct (chain_step restore f vs b (length vs) s1 Hc1 ltac:(lia)) as [Hev Hc2].
  rewrite Hcr in Hev, Hc2.
  set (s2 := realize_plain s1 (b + length vs) ONil) in *.
  assert (Hg2 : get s2 c = Some (mkCell Computing 1 0)).
  { unfold s2. rewrite get_realize_plain_other by lia. unfold s1. rewrite get_start_call, Nat.eqb_refl, Hg. reflexivity. }
  exists (set_cst (set_cst s2 c (Computed ONil)) c (Realized ONil)). split; [|split].
  - rewrite ev_CSeq, Hg. cbn [cst out_cell]. rewrite ev_CCompute, Hg. cbn [cst out_cell].
    rewrite ev_CGen_map, ev_CToSeq_lazy. fold s1. rewrite Hev.
    rewrite get_set_cst, Nat.eqb_refl, Hg2. cbn [option_map cst].
    rewrite ev_CUnwrap_plain by reflexivity. reflexivity.
  - eapply chain_at_frame; [exact Hc2|]. intros i Hi.
    rewrite !get_set_cst. destruct (Nat.eqb_spec c (b + i)); [lia|]. reflexivity.
  - rewrite !fcalls_set_cst. unfold s2. rewrite fcalls_realize_plain. unfold s1. apply fcalls_start_call.
Qed.

(** (map f chain): walking m elements runs the producers of the first m source cells (plus the final
    nil cell when the walk reaches the end) and applies f once per element produced -- nothing ahead. *)
Lemma walk_map : forall restore f fn vs b m j c s acc,
  map_at fn vs b j c s -> j <= length vs ->
  exists s' cur,
    walk restore (S (S (S (S (S (S (S (S (S f))))))))) m (OLazy c) acc s =
      (s', Ok cur, rev (map (app_fn fn) (chain_vals vs j m)) ++ acc)
    /\ chain_at vs b (Nat.min (j + m) (S (length vs))) s'
    /\ fcalls s' = (fcalls s + N.of_nat (Nat.min m (length vs - j)))%N.
Proof.
  induction m; intros j c s acc Hm Hj.
  - exists s, (OLazy c). simpl. unfold chain_vals. simpl. split; [reflexivity|split].
    + replace (Nat.min (j + 0) (S (length vs))) with j by lia. apply Hm.
    + simpl. lia.
  - rewrite walk_S, ev_CIterNext_lazy.
    destruct (nth_error vs j) as [v|] eqn:Ev.
    + assert (Hlt : j < length vs) by (apply nth_error_Some; congruence).
      destruct (map_step_cons restore f fn vs b j c s v Hm Ev) as [s1 [Hev [Hm1 [Hf1 Hh1]]]].
      rewrite Hev. cbn [rest_norm].
      destruct (IHm (S j) (hlen s) s1 (app_fn fn v :: acc) Hm1 ltac:(lia)) as [s' [cur [Hw [Hc' Hf']]]].
      exists s', cur. rewrite Hw. split; [|split].
      * f_equal. unfold chain_vals. rewrite (skipn_cons_nth vs j v Ev). simpl. rewrite <- app_assoc. reflexivity.
      * replace (j + S m) with (S j + m) by lia. exact Hc'.
      * rewrite Hf', Hf1. replace (Nat.min (S m) (length vs - j)) with (S (Nat.min m (length vs - S j))) by lia. lia.
    + assert (Hge : length vs <= j) by (apply nth_error_None; assumption).
      assert (j = length vs) by lia. subst j.
      destruct (map_step_nil restore f fn vs b c s Hm) as [s1 [Hev [Hc1 Hf1]]].
      rewrite Hev. exists s1, ONil. split; [|split].
      * unfold chain_vals. rewrite skipn_all. rewrite firstn_nil. reflexivity.
      * replace (Nat.min (length vs + S m) (S (length vs))) with (S (length vs)) by lia. exact Hc1.
      * rewrite Hf1. replace (length vs - length vs) with 0 by lia. rewrite Nat.min_0_r. simpl. lia.
Qed.

(* ---------------------------------------------------------------------------------- *)
(** ** iterate *)

Definition iter_at (fn : fn) (x : N) (c : nat) (s : st) : Prop := get s c = Some (out_cell (GIterate fn x)).

Lemma iterate_step : forall restore f fn x c s,
  iter_at fn x c s ->
  exists s',
    ev restore (S (S (S f))) (CSeq c) s = (s', Ok (OCons x (OLazy (hlen s))))
    /\ iter_at fn (app_fn fn x) (hlen s) s'
    /\ fcalls s' = N.succ (fcalls s).
Proof.
  intros restore f fn x c s Hg. unfold iter_at in *.
  assert (Hclt : c < hlen s) by (eapply get_lt; eauto).
  set (s1 := start_call s c).
  assert (Hh1 : hlen s1 = hlen s) by apply hlen_start_call.
  set (r := OCons x (OLazy (hlen s))).
  set (s3 := set_heap (bump_f s1) (heap (bump_f s1) ++ [out_cell (GIterate fn (app_fn fn x))])).
  assert (Hg3 : get s3 c = Some (mkCell Computing 1 0)).
  { unfold s3. erewrite get_app_old; [reflexivity|]. rewrite get_bump_f. unfold s1.
    rewrite get_start_call, Nat.eqb_refl, Hg. reflexivity. }
  exists (set_cst (set_cst s3 c (Computed r)) c (Realized r)). split; [|split].
  - rewrite ev_CSeq, Hg. cbn [cst out_cell]. rewrite ev_CCompute, Hg. cbn [cst out_cell].
    rewrite ev_CGen_iterate. fold s1. unfold alloc. change (set_heap (bump_f s1) _) with s3.
    change (length (heap (bump_f s1))) with (hlen s1). rewrite Hh1. fold r.
    rewrite get_set_cst, Nat.eqb_refl, Hg3. cbn [option_map cst].
    rewrite ev_CUnwrap_plain by reflexivity. reflexivity.
  - rewrite !get_set_cst. destruct (Nat.eqb_spec c (hlen s)); [lia|].
    unfold s3. replace (hlen s) with (hlen (bump_f s1)) by (exact Hh1). apply get_app_new.
  - rewrite !fcalls_set_cst. unfold s3. cbn [fcalls set_heap bump_f]. unfold s1. rewrite fcalls_start_call. reflexivity.
Qed.

Fixpoint iterates (fn : fn) (x : N) (m : nat) : list N :=
  match m with O => [] | S k => x :: iterates fn (app_fn fn x) k end.

(** forcing m elements of (iterate f x) applies f exactly m times: one application more than the
    m - 1 the elements need (the generator computes the NEXT seed eagerly): lookahead 1 *)
Lemma walk_iterate : forall restore f fn m x c s acc,
  iter_at fn x c s ->
  exists s' cur,
    walk restore (S (S (S (S f)))) m (OLazy c) acc s = (s', Ok cur, rev (iterates fn x m) ++ acc)
    /\ fcalls s' = (fcalls s + N.of_nat m)%N.
Proof.
  induction m; intros x c s acc Hi.
  - exists s, (OLazy c). simpl. split; [reflexivity|lia].
  - rewrite walk_S, ev_CIterNext_lazy.
    destruct (iterate_step restore f fn x c s Hi) as [s1 [Hev [Hi1 Hf1]]].
    rewrite Hev. cbn [rest_norm].
    destruct (IHm (app_fn fn x) (hlen s) s1 (x :: acc) Hi1) as [s' [cur [Hw Hf']]].
    exists s', cur. rewrite Hw. split.
    + simpl. rewrite <- app_assoc. reflexivity.
    + rewrite Hf', Hf1. lia.
Qed.

(* ---------------------------------------------------------------------------------- *)
(** ** iterator seqs: seq.rs Sequence over a Python iterator -- one pull per cell *)

Definition seqit_at (it c : nat) (s : st) : Prop := get s c = Some (out_cell (GSeqIt it)).

Lemma ev_CPull_val : forall restore f it s v l,
  nth_error (iters s) it = Some (ItList (IVal v :: l)) ->
  ev restore (S f) (CPull it) s = (set_iter s it (ItList l), Ok (OCons v ONil)).
Proof. intros. simpl. rewrite H. reflexivity. Qed.

Lemma ev_CPull_end : forall restore f it s,
  nth_error (iters s) it = Some (ItList []) ->
  ev restore (S f) (CPull it) s = (s, Ok ONil).
Proof. intros. simpl. rewrite H. reflexivity. Qed.

Lemma seqit_step_val : forall restore f it c s v l,
  seqit_at it c s -> nth_error (iters s) it = Some (ItList (IVal v :: l)) ->
  exists s',
    ev restore (S (S (S (S f)))) (CSeq c) s = (s', Ok (OCons v (OLazy (hlen s))))
    /\ seqit_at it (hlen s) s'
    /\ nth_error (iters s') it = Some (ItList l).
Proof.
  intros restore f it c s v l Hg Hi. unfold seqit_at in *.
  assert (Hclt : c < hlen s) by (eapply get_lt; eauto).
  set (s1 := start_call s c).
  assert (Hh1 : hlen s1 = hlen s) by apply hlen_start_call.
  assert (Hi1 : nth_error (iters s1) it = Some (ItList (IVal v :: l))) by (unfold s1; rewrite iters_start_call; exact Hi).
  set (s2 := set_iter s1 it (ItList l)).
  set (r := OCons v (OLazy (hlen s))).
  set (s3 := set_heap s2 (heap s2 ++ [out_cell (GSeqIt it)])).
  assert (Hg3 : get s3 c = Some (mkCell Computing 1 0)).
  { unfold s3. erewrite get_app_old; [reflexivity|]. unfold s2, s1.
    change (get (set_iter (start_call s c) it (ItList l)) c) with (get (start_call s c) c).
    rewrite get_start_call, Nat.eqb_refl, Hg. reflexivity. }
  exists (set_cst (set_cst s3 c (Computed r)) c (Realized r)). split; [|split].
  - rewrite ev_CSeq, Hg. cbn [cst out_cell]. rewrite ev_CCompute, Hg. cbn [cst out_cell].
    rewrite ev_CGen_seqit. fold s1. rewrite (ev_CPull_val restore f it s1 v l Hi1). fold s2.
    unfold alloc. change (set_heap s2 _) with s3. change (length (heap s2)) with (hlen s1). rewrite Hh1. fold r.
    rewrite get_set_cst, Nat.eqb_refl, Hg3. cbn [option_map cst].
    rewrite ev_CUnwrap_plain by reflexivity. reflexivity.
  - rewrite !get_set_cst. destruct (Nat.eqb_spec c (hlen s)); [lia|].
    unfold s3. replace (hlen s) with (hlen s2) by (exact Hh1). apply get_app_new.
  - rewrite !iters_set_cst. unfold s3. cbn [iters set_heap]. unfold s2. cbn [iters set_iter].
    apply nth_error_upd_same. apply nth_error_Some. congruence.
Qed.

Lemma seqit_step_end : forall restore f it c s,
  seqit_at it c s -> nth_error (iters s) it = Some (ItList []) ->
  exists s',
    ev restore (S (S (S (S f)))) (CSeq c) s = (s', Ok ONil)
    /\ nth_error (iters s') it = Some (ItList []) /\ hlen s' = hlen s.
Proof.
  intros restore f it c s Hg Hi. unfold seqit_at in *.
  set (s1 := start_call s c).
  assert (Hi1 : nth_error (iters s1) it = Some (ItList [])) by (unfold s1; rewrite iters_start_call; exact Hi).
  assert (Hg1 : get s1 c = Some (mkCell Computing 1 0)).
  { unfold s1. rewrite get_start_call, Nat.eqb_refl, Hg. reflexivity. }
  exists (set_cst (set_cst s1 c (Computed OEmpty)) c (Realized ONil)). split; [|split].
  - rewrite ev_CSeq, Hg. cbn [cst out_cell]. rewrite ev_CCompute, Hg. cbn [cst out_cell].
    rewrite ev_CGen_seqit. fold s1. rewrite (ev_CPull_end restore f it s1 Hi1).
    rewrite get_set_cst, Nat.eqb_refl, Hg1. cbn [option_map cst].
    rewrite ev_CUnwrap_plain by reflexivity. reflexivity.
  - rewrite !iters_set_cst. exact Hi1.
  - rewrite !hlen_set_cst. apply hlen_start_call.
Qed.

(** walking m elements of (iterator-seq it) takes exactly min m (length vs) values out of the
    iterator (and, when the walk reaches the end, the one pull that finds it exhausted) *)
Lemma walk_seqit : forall restore f it m vs c s acc,
  seqit_at it c s -> nth_error (iters s) it = Some (ItList (map IVal vs)) ->
  exists s' cur,
    walk restore (S (S (S (S (S f))))) m (OLazy c) acc s = (s', Ok cur, rev (firstn m vs) ++ acc)
    /\ nth_error (iters s') it = Some (ItList (map IVal (skipn m vs))).
Proof.
  induction m; intros vs c s acc Hg Hi.
  - exists s, (OLazy c). simpl. split; [reflexivity|exact Hi].
  - rewrite walk_S, ev_CIterNext_lazy. destruct vs as [|v vs].
    + destruct (seqit_step_end restore f it c s Hg Hi) as [s1 [Hev [Hi1 _]]].
      rewrite Hev. exists s1, ONil. split; [reflexivity|exact Hi1].
    + simpl in Hi.
      destruct (seqit_step_val restore f it c s v (map IVal vs) Hg Hi) as [s1 [Hev [Hg1 Hi1]]].
      rewrite Hev. cbn [rest_norm].
      destruct (IHm vs (hlen s) s1 (v :: acc) Hg1 Hi1) as [s' [cur [Hw Hi']]].
      exists s', cur. rewrite Hw. split.
      * simpl. rewrite <- app_assoc. reflexivity.
      * exact Hi'.
Qed.
