(** C06 -- laziness of core.lpy map / iterate / iterator seqs over instrumented chains. *)
From Coq Require Import List NArith Bool Arith Lia.
Import ListNotations.
From Verif Require Import C06.Base C06.LazySeq C06.ProofsBig C06.ProofsLazy.

(** changing a cell outside the chain keeps the chain as it is *)
Lemma chain_at_frame : forall vs b j s s',
  chain_at vs b j s -> (forall i, i <= length vs -> get s' (b + i) = get s (b + i)) -> chain_at vs b j s'.
Proof. intros vs b j s s' H Hf i Hi. rewrite Hf by assumption. apply H; assumption. Qed.

Lemma fcalls_set_cst : forall s c x, fcalls (set_cst s c x) = fcalls s.
Proof. intros. unfold set_cst. destruct (get s c); reflexivity. Qed.
Lemma fcalls_start_call : forall s c, fcalls (start_call s c) = fcalls s.
Proof. intros. unfold start_call. destruct (get s c); reflexivity. Qed.
Lemma iters_set_cst : forall s c x, iters (set_cst s c x) = iters s.
Proof. intros. unfold set_cst. destruct (get s c); reflexivity. Qed.
Lemma iters_start_call : forall s c, iters (start_call s c) = iters s.
Proof. intros. unfold start_call. destruct (get s c); reflexivity. Qed.

Definition out_cell (g : gen) : cell := mkCell (Initialized g) 0 0.

Definition map_at (fn : fn) (vs : list N) (b j c : nat) (s : st) : Prop :=
  chain_at vs b j s /\ get s c = Some (out_cell (GMap fn (OLazy (b + j)))) /\ b + length vs < c.

Lemma map_step_cons : forall restore f fn vs b j c s v,
  map_at fn vs b j c s -> nth_error vs j = Some v ->
  exists s',
    ev restore (S (S (S (S (S (S (S (S f)))))))) (CSeq c) s = (s', Ok (OCons (app_fn fn v) (OLazy (hlen s))))
    /\ map_at fn vs b (S j) (hlen s) s'
    /\ fcalls s' = N.succ (fcalls s)
    /\ hlen s' = S (hlen s).
Proof.
  intros restore f fn vs b j c s v [Hc [Hg Hout]] Ev.
  assert (Hj : j < length vs) by (apply nth_error_Some; congruence).
  assert (Hcr : chain_ret vs b j = OCons v (OLazy (b + S j))) by (unfold chain_ret; rewrite Ev; reflexivity).
  set (s1 := start_call s c).
  assert (Hc1 : chain_at vs b j s1).
  { eapply chain_at_frame; eauto. intros i Hi. unfold s1. rewrite get_start_call.
    destruct (Nat.eqb_spec c (b + i)); [lia | reflexivity]. }
  destruct (chain_step restore f vs b j s1 Hc1 ltac:(lia)) as [Hev Hc2].
  rewrite Hcr in Hev, Hc2.
  set (s2 := realize_plain s1 (b + j) (OCons v (OLazy (b + S j)))) in *.
  assert (Hclt : c < hlen s) by (eapply get_lt; eauto).
  assert (Hh2 : hlen s2 = hlen s).
  { unfold s2. rewrite hlen_realize_plain. unfold s1. apply hlen_start_call. }
  set (r := OCons (app_fn fn v) (OLazy (hlen s))).
  set (s3 := set_heap (bump_f s2) (heap (bump_f s2) ++ [out_cell (GMap fn (OLazy (b + S j)))])).
  assert (Hg3 : get s3 c = Some (mkCell Computing 1 0)).
  { unfold s3. erewrite get_app_old; [reflexivity|]. rewrite get_bump_f. unfold s2.
    rewrite get_realize_plain_other by lia. unfold s1. rewrite get_start_call, Nat.eqb_refl, Hg. reflexivity. }
  exists (set_cst (set_cst s3 c (Computed r)) c (Realized r)). split; [|split; [|split]].
  - rewrite ev_CSeq, Hg. cbn [cst out_cell]. rewrite ev_CCompute, Hg. cbn [cst out_cell].
    rewrite ev_CGen_map, ev_CToSeq_lazy. fold s1. rewrite Hev. cbn [rest_norm].
    unfold alloc. cbn [fst snd]. change (set_heap (bump_f s2) _) with s3.
    change (length (heap (bump_f s2))) with (hlen s2). rewrite Hh2. fold r.
    rewrite get_set_cst, Nat.eqb_refl, Hg3. cbn [option_map cst].
    rewrite ev_CUnwrap_plain by reflexivity. reflexivity.
  - split; [|split].
    + eapply chain_at_frame; [exact Hc2|]. intros i Hi.
      rewrite !get_set_cst. destruct (Nat.eqb_spec c (b + i)); [lia|].
      unfold s3. pose proof (Hc2 i Hi) as Hgi. erewrite get_app_old; [|rewrite get_bump_f; exact Hgi].
      symmetry. exact Hgi.
    + rewrite !get_set_cst. destruct (Nat.eqb_spec c (hlen s)); [lia|].
      unfold s3. replace (hlen s) with (hlen (bump_f s2)) by (exact Hh2). rewrite get_app_new.
      replace (b + S j) with (b + S j) by lia. reflexivity.
    + pose proof (Hc (length vs) (le_n _)) as Hl. apply get_lt in Hl. unfold hlen. lia.
  - rewrite !fcalls_set_cst. unfold s3. cbn [fcalls set_heap bump_f]. unfold s2.
    rewrite fcalls_realize_plain. unfold s1. rewrite fcalls_start_call. reflexivity.
  - rewrite !hlen_set_cst. unfold s3. rewrite hlen_app. f_equal. exact Hh2.
Qed.
