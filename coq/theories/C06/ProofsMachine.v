(** C06 -- invariants of the multi-threaded machine (Machine.v), over ALL interleavings. *)
From Coq Require Import List NArith Bool Arith Lia.
Import ListNotations.
From Verif Require Import C06.Base C06.Machine.

(* ---------------------------------------------------------------------------------- *)
(** ** vocabulary *)

Definition is_init (x : cstate) : bool := match x with Initialized _ => true | _ => false end.

(** the counters of a cell agree with its state: it has been started once more than it has failed,
    unless it is waiting to be started (with the pinned error path a failed cell is never restarted) *)
Definition cell_ok (restore : bool) (k : cell) : Prop :=
  ncalls k = ((if restore then nthrows k else 0) + (if is_init (cst k) then 0 else 1))%N.

Definition is_act (c : cid) (fr : frame) : bool :=
  match fr with KCompRet c' _ => Nat.eqb c c' | _ => false end.
Definition act_stk (c : cid) (l : list frame) : nat := length (filter (is_act c) l).
(** number of running activations of the producer of c, over all threads *)
Definition act (st : mstate) (c : cid) : nat := list_sum (map (fun th => act_stk c (stk th)) (thr st)).

Definition unwrapping (c : cid) (fr : frame) : bool :=
  match fr with KUnwrap c' _ | KUnwrapRet c' => Nat.eqb c c' | _ => false end.

Definition st_comp (st : mstate) (c : cid) : bool :=
  match m_cst st c with Some Computing => true | _ => false end.
Definition st_cr (st : mstate) (c : cid) : bool :=
  match m_cst st c with Some (Computed _) | Some (Realized _) => true | _ => false end.
Definition b2n (b : bool) : nat := if b then 1 else 0.

Record InvA (restore : bool) (st : mstate) : Prop := {
  ia_cells : forall c k, nth_error (mcells st) c = Some k -> cell_ok restore k;
  ia_act : forall c, act st c <= b2n (st_comp st c);
  ia_act_eq : restore = true -> forall c, b2n (st_comp st c) <= act st c;
  ia_unwrap : forall t th fr c, nth_error (thr st) t = Some th -> In fr (stk th) -> unwrapping c fr = true ->
              st_cr st c = true
}.

(* ---------------------------------------------------------------------------------- *)
(** ** list_sum over an updated list *)

Lemma list_sum_upd : forall (l : list nat) i x y,
  nth_error l i = Some x -> list_sum (upd l i y) + x = list_sum l + y.
Proof.
  induction l; intros i x y H; destruct i; simpl in *; try discriminate.
  - inversion H; subst. lia.
  - specialize (IHl _ _ y H). lia.
Qed.

Lemma map_upd : forall A B (f : A -> B) l i x, map f (upd l i x) = upd (map f l) i (f x).
Proof. induction l; destruct i; simpl; intros; auto. f_equal. apply IHl. Qed.

Lemma act_set_thr : forall st t th th' c,
  nth_error (thr st) t = Some th ->
  act (set_thr st t th') c + act_stk c (stk th) = act st c + act_stk c (stk th').
Proof.
  intros. unfold act. cbn [thr set_thr]. rewrite map_upd.
  apply list_sum_upd. rewrite nth_error_map, H. reflexivity.
Qed.

Lemma nth_error_upd_inv : forall A (l : list A) i x j y,
  nth_error (upd l i x) j = Some y -> (j = i /\ y = x) \/ (j <> i /\ nth_error l j = Some y).
Proof.
  intros. rewrite nth_error_upd in H. destruct (Nat.eqb_spec i j).
  - subst. destruct (Nat.ltb j (length l)); [inversion H; auto|discriminate].
  - right. split; auto.
Qed.

(* ---------------------------------------------------------------------------------- *)
(** ** projections of the state after each primitive update *)

Lemma thr_acquire : forall st c t, thr (acquire st c t) = thr st.
Proof. intros. unfold acquire. destruct (nth_error (mlocks st) c) as [[[? ?]|]|]; reflexivity. Qed.
Lemma mcells_acquire : forall st c t, mcells (acquire st c t) = mcells st.
Proof. intros. unfold acquire. destruct (nth_error (mlocks st) c) as [[[? ?]|]|]; reflexivity. Qed.
Lemma thr_release : forall st c, thr (release st c) = thr st.
Proof. intros. unfold release. destruct (nth_error (mlocks st) c) as [[[? [|?]]|]|]; reflexivity. Qed.
Lemma mcells_release : forall st c, mcells (release st c) = mcells st.
Proof. intros. unfold release. destruct (nth_error (mlocks st) c) as [[[? [|?]]|]|]; reflexivity. Qed.
Lemma thr_cell_set : forall st c f, thr (cell_set st c f) = thr st.
Proof. intros. unfold cell_set. destruct (nth_error (mcells st) c); reflexivity. Qed.
Lemma mcells_cell_set : forall st c f,
  mcells (cell_set st c f) = match nth_error (mcells st) c with Some k => upd (mcells st) c (f k) | None => mcells st end.
Proof. intros. unfold cell_set. destruct (nth_error (mcells st) c); reflexivity. Qed.
Lemma thr_seq_return : forall st t th k c o,
  thr (seq_return st t th k c o) = upd (thr st) t (th_set th k (Some (Ok o))).
Proof. intros. unfold seq_return. destruct (Nat.leb (length k) 1); reflexivity. Qed.
Lemma mcells_seq_return : forall st t th k c o, mcells (seq_return st t th k c o) = mcells st.
Proof. intros. unfold seq_return. destruct (Nat.leb (length k) 1); reflexivity. Qed.

#[export] Hint Rewrite thr_acquire mcells_acquire thr_release mcells_release thr_cell_set mcells_cell_set
  thr_seq_return mcells_seq_return : mproj.

(* ---------------------------------------------------------------------------------- *)
Ltac destruct_matches H :=
  repeat match type of H with
         | context [match ?x with _ => _ end] => destruct x eqn:?
         end.

Lemma stepf_thr : forall restore t st st',
  stepf restore t st = Some st' -> exists th', thr st' = upd (thr st) t th'.
Proof.
  intros restore t st st' H. unfold stepf, start_op, top_ret in H.
  destruct_matches H; try discriminate; inversion H; subst; clear H;
    unfold malloc in *;
    repeat match goal with H : (_, _) = (_, _) |- _ => inversion H; subst; clear H end;
    autorewrite with mproj; cbn [thr set_thr set_gil set_mev bump_mtick add_log set_miter];
    autorewrite with mproj; cbn [thr set_thr set_gil set_mev bump_mtick add_log set_miter];
    eexists; reflexivity.
Qed.
