(** C06 -- the multi-threaded machine (Machine.v): what one step can do, as a handful of effects.
    Every invariant in ProofsConc.v is proved over these effects, hence over ALL interleavings. *)
From Coq Require Import List NArith Bool Arith Lia.
Import ListNotations.
From Verif Require Import C06.Base C06.Machine.

(* ---------------------------------------------------------------------------------- *)
(** ** pure versions of the updates *)

Definition acq_l (ls : list (option (tid * nat))) (c : cid) (t : tid) :=
  match nth_error ls c with
  | Some None => upd ls c (Some (t, 0))
  | Some (Some (t', n)) => upd ls c (Some (t', S n))
  | None => ls
  end.
Definition rel_l (ls : list (option (tid * nat))) (c : cid) :=
  match nth_error ls c with
  | Some (Some (t', S n)) => upd ls c (Some (t', n))
  | Some (Some (_, O)) => upd ls c None
  | _ => ls
  end.
Definition cset (cs : list cell) (c : cid) (f : cell -> cell) :=
  match nth_error cs c with Some k => upd cs c (f k) | None => cs end.

Definition f_start (k : cell) := mkCell Computing (N.succ (ncalls k)) (nthrows k).
Definition f_cst (x : cstate) (k : cell) := mkCell x (ncalls k) (nthrows k).
Definition f_throw (x : cstate) (k : cell) := mkCell x (ncalls k) (N.succ (nthrows k)).

Lemma thr_acquire : forall st c t, thr (acquire st c t) = thr st.
Proof. intros. unfold acquire. destruct (nth_error (mlocks st) c) as [[[? ?]|]|]; reflexivity. Qed.
Lemma mcells_acquire : forall st c t, mcells (acquire st c t) = mcells st.
Proof. intros. unfold acquire. destruct (nth_error (mlocks st) c) as [[[? ?]|]|]; reflexivity. Qed.
Lemma glog_acquire : forall st c t, glog (acquire st c t) = glog st.
Proof. intros. unfold acquire. destruct (nth_error (mlocks st) c) as [[[? ?]|]|]; reflexivity. Qed.
Lemma mlocks_acquire : forall st c t, mlocks (acquire st c t) = acq_l (mlocks st) c t.
Proof. intros. unfold acquire, acq_l. destruct (nth_error (mlocks st) c) as [[[? ?]|]|]; reflexivity. Qed.
Lemma thr_release : forall st c, thr (release st c) = thr st.
Proof. intros. unfold release. destruct (nth_error (mlocks st) c) as [[[? [|?]]|]|]; reflexivity. Qed.
Lemma mcells_release : forall st c, mcells (release st c) = mcells st.
Proof. intros. unfold release. destruct (nth_error (mlocks st) c) as [[[? [|?]]|]|]; reflexivity. Qed.
Lemma glog_release : forall st c, glog (release st c) = glog st.
Proof. intros. unfold release. destruct (nth_error (mlocks st) c) as [[[? [|?]]|]|]; reflexivity. Qed.
Lemma mlocks_release : forall st c, mlocks (release st c) = rel_l (mlocks st) c.
Proof. intros. unfold release, rel_l. destruct (nth_error (mlocks st) c) as [[[? [|?]]|]|]; reflexivity. Qed.
Lemma thr_cell_set : forall st c f, thr (cell_set st c f) = thr st.
Proof. intros. unfold cell_set. destruct (nth_error (mcells st) c); reflexivity. Qed.
Lemma mlocks_cell_set : forall st c f, mlocks (cell_set st c f) = mlocks st.
Proof. intros. unfold cell_set. destruct (nth_error (mcells st) c); reflexivity. Qed.
Lemma glog_cell_set : forall st c f, glog (cell_set st c f) = glog st.
Proof. intros. unfold cell_set. destruct (nth_error (mcells st) c); reflexivity. Qed.
Lemma mcells_cell_set : forall st c f, mcells (cell_set st c f) = cset (mcells st) c f.
Proof. intros. unfold cell_set, cset. destruct (nth_error (mcells st) c); reflexivity. Qed.

Definition logif (k : list frame) (c : cid) (o : obj) (l : list (cid * obj)) :=
  if forallb plain k then (c, o) :: l else l.

Lemma thr_seq_return : forall st t th k c o,
  thr (seq_return st t th k c o) = upd (thr st) t (th_set th k (Some (Ok o))).
Proof. intros. unfold seq_return. destruct (forallb plain k); reflexivity. Qed.
Lemma mcells_seq_return : forall st t th k c o, mcells (seq_return st t th k c o) = mcells st.
Proof. intros. unfold seq_return. destruct (forallb plain k); reflexivity. Qed.
Lemma mlocks_seq_return : forall st t th k c o, mlocks (seq_return st t th k c o) = mlocks st.
Proof. intros. unfold seq_return. destruct (forallb plain k); reflexivity. Qed.
Lemma glog_seq_return : forall st t th k c o, glog (seq_return st t th k c o) = logif k c o (glog st).
Proof. intros. unfold seq_return, logif. destruct (forallb plain k); reflexivity. Qed.

#[export] Hint Rewrite thr_acquire mcells_acquire glog_acquire mlocks_acquire
  thr_release mcells_release glog_release mlocks_release
  thr_cell_set mlocks_cell_set glog_cell_set mcells_cell_set
  thr_seq_return mcells_seq_return mlocks_seq_return glog_seq_return : mproj.

(* ---------------------------------------------------------------------------------- *)
(** ** frames that matter *)

Definition core (l : list frame) : list frame := filter (fun fr => negb (plain fr)) l.

Definition nonlazy (o : obj) : bool := match o with OLazy _ => false | _ => true end.

(** What a step of thread [t] (old record [th]) does to threads, cells, mutexes and the log. *)
Inductive eff (restore : bool) (t : tid) (st st' : mstate) (th : thread) : Prop :=
| E_local : forall th',
    thr st' = upd (thr st) t th' -> core (stk th') = core (stk th) ->
    mcells st' = mcells st -> mlocks st' = mlocks st -> glog st' = glog st -> eff restore t st st' th
| E_seq_ret : forall th' c o k,
    thr st' = upd (thr st) t th' -> stk th = KSeq c :: k -> stk th' = k ->
    can_lock st c t = true ->
    (m_cst st c = Some (Realized o) \/ (m_cst st c = Some Computing /\ o = ONil)) ->
    mcells st' = mcells st -> mlocks st' = mlocks st -> glog st' = logif k c o (glog st) -> eff restore t st st' th
| E_seq_start : forall th' c g fr k,
    thr st' = upd (thr st) t th' -> stk th = KSeq c :: k -> stk th' = fr :: KCompRet c g true :: k ->
    plain fr = true -> can_lock st c t = true -> m_cst st c = Some (Initialized g) ->
    mcells st' = cset (mcells st) c f_start -> mlocks st' = acq_l (acq_l (mlocks st) c t) c t ->
    glog st' = glog st -> eff restore t st st' th
| E_seq_unwrap : forall th' c o k,
    thr st' = upd (thr st) t th' -> stk th = KSeq c :: k -> stk th' = KUnwrap c o :: k ->
    can_lock st c t = true -> m_cst st c = Some (Computed o) ->
    mcells st' = mcells st -> mlocks st' = acq_l (mlocks st) c t -> glog st' = glog st -> eff restore t st st' th
| E_comp_start : forall th' c g fr k,
    thr st' = upd (thr st) t th' -> stk th = KComp c :: k -> stk th' = fr :: KCompRet c g false :: k ->
    plain fr = true -> can_lock st c t = true -> m_cst st c = Some (Initialized g) ->
    mcells st' = cset (mcells st) c f_start -> mlocks st' = acq_l (mlocks st) c t ->
    glog st' = glog st -> eff restore t st st' th
| E_comp_ok : forall th' c g b o k,
    thr st' = upd (thr st) t th' -> stk th = KCompRet c g b :: k ->
    stk th' = (if b then KUnwrap c o :: k else k) ->
    mcells st' = cset (mcells st) c (f_cst (Computed o)) -> mlocks st' = rel_l (mlocks st) c ->
    glog st' = glog st -> eff restore t st st' th
| E_comp_exn : forall th' c g b k,
    thr st' = upd (thr st) t th' -> stk th = KCompRet c g b :: k -> stk th' = k ->
    mcells st' = cset (mcells st) c (f_throw (if restore then Initialized g else Computing)) ->
    mlocks st' = (if b then rel_l (rel_l (mlocks st) c) c else rel_l (mlocks st) c) ->
    glog st' = glog st -> eff restore t st st' th
| E_unwrap_call : forall th' c d k,
    thr st' = upd (thr st) t th' -> stk th = KUnwrap c (OLazy d) :: k -> stk th' = KComp d :: KUnwrapRet c :: k ->
    mcells st' = mcells st -> mlocks st' = mlocks st -> glog st' = glog st -> eff restore t st st' th
| E_unwrap_back : forall th' c w k,
    thr st' = upd (thr st) t th' -> stk th = KUnwrapRet c :: k -> stk th' = KUnwrap c w :: k ->
    mcells st' = mcells st -> mlocks st' = mlocks st -> glog st' = glog st -> eff restore t st st' th
| E_unwrap_exn : forall th' c k,
    thr st' = upd (thr st) t th' -> stk th = KUnwrapRet c :: k -> stk th' = k ->
    mcells st' = mcells st -> mlocks st' = rel_l (mlocks st) c -> glog st' = glog st -> eff restore t st st' th
| E_realize : forall th' c w k,
    thr st' = upd (thr st) t th' -> stk th = KUnwrap c w :: k -> stk th' = k -> nonlazy w = true ->
    mcells st' = cset (mcells st) c (f_cst (Realized (seq_or_nil w))) -> mlocks st' = rel_l (mlocks st) c ->
    glog st' = logif k c (seq_or_nil w) (glog st) -> eff restore t st st' th
| E_alloc : forall th' it k g,
    thr st' = upd (thr st) t th' -> stk th = KPull it :: k -> stk th' = k ->
    mcells st' = mcells st ++ [mkCell (Initialized g) 0 0] -> mlocks st' = mlocks st ++ [None] ->
    glog st' = glog st -> eff restore t st st' th.

Ltac destruct_matches H :=
  repeat match type of H with
         | context [match ?x with _ => _ end] => destruct x eqn:?
         end.

Ltac proj :=
  unfold m_start, m_set_cst, m_throw, malloc in *;
  repeat (autorewrite with mproj;
          cbn [thr mcells mlocks glog set_thr set_gil set_mev bump_mtick add_log set_miter set_cells set_locks
               stk rv th_set th_obs th_reg th_prog th_seen th_park fst snd]).

Ltac stk_norm := repeat match goal with H : stk _ = _ |- _ => rewrite H end.

Ltac fin :=
  first [ eassumption
        | reflexivity
        | proj; stk_norm; cbn [core filter plain negb app nonlazy]; reflexivity
        | left; eassumption
        | right; split; [eassumption | reflexivity] ].

Ltac solve_eff :=
  first
  [ solve [eapply E_local; [proj; reflexivity | fin ..]]
  | solve [eapply E_seq_ret; [proj; reflexivity | fin ..]]
  | solve [eapply E_seq_start; [proj; reflexivity | fin ..]]
  | solve [eapply E_seq_unwrap; [proj; reflexivity | fin ..]]
  | solve [eapply E_comp_start; [proj; reflexivity | fin ..]]
  | solve [eapply E_comp_ok; [proj; reflexivity | fin ..]]
  | solve [eapply E_comp_exn; [proj; reflexivity | fin ..]]
  | solve [eapply E_unwrap_call; [proj; reflexivity | fin ..]]
  | solve [eapply E_unwrap_back; [proj; reflexivity | fin ..]]
  | solve [eapply E_unwrap_exn; [proj; reflexivity | fin ..]]
  | solve [eapply E_realize; [proj; reflexivity | fin ..]]
  | solve [eapply E_alloc; [proj; reflexivity | fin ..]] ].

Lemma gen_frame_plain : forall g fr, gen_frame g = Some fr -> plain fr = true.
Proof. intros. destruct g; simpl in H; inversion H; reflexivity. Qed.

Lemma stepf_eff : forall restore t st st' th,
  stepf restore t st = Some st' -> nth_error (thr st) t = Some th -> eff restore t st st' th.
Proof.
  intros restore t st st' th H Hth. unfold stepf in H. rewrite Hth in H.
  unfold start_op, top_ret, malloc in H.
  destruct_matches H; try discriminate; inversion H; subst; clear H;
    repeat match goal with H : (_, _) = (_, _) |- _ => inversion H; subst; clear H end.
  all: try solve_eff.
  - eapply E_seq_start; [proj; reflexivity | try fin ..]. eapply gen_frame_plain; eauto.
  - eapply E_comp_start; [proj; reflexivity | try fin ..]. eapply gen_frame_plain; eauto.
Qed.
