(** C06 -- the cell mutex: the re-entrancy depth recorded in the mutex of cell c is exactly the number
    of times the frames of its owner hold it, and no other thread holds it (all interleavings). *)
From Coq Require Import List NArith Bool Arith Lia.
Import ListNotations.
From Verif Require Import C06.Base C06.Machine C06.ProofsMachine C06.ProofsConc.

Definition hold (c : cid) (fr : frame) : nat :=
  match fr with
  | KCompRet c' _ b => if Nat.eqb c c' then (if b then 2 else 1) else 0
  | KUnwrap c' _ | KUnwrapRet c' => if Nat.eqb c c' then 1 else 0
  | _ => 0
  end.
Definition hcnt (c : cid) (l : list frame) : nat := list_sum (map (hold c) l).

Definition depth (l : option (option (tid * nat))) (t : tid) : nat :=
  match l with Some (Some (o, n)) => if Nat.eqb t o then S n else 0 | _ => 0 end.

(** every thread holds every mutex exactly as often as the mutex says *)
Definition lock_ok (st : mstate) : Prop :=
  forall c t th, nth_error (thr st) t = Some th -> hcnt c (stk th) = depth (nth_error (mlocks st) c) t.

Lemma hcnt_core : forall c l, hcnt c l = hcnt c (core l).
Proof.
  intros. unfold hcnt, core. induction l; simpl; auto.
  destruct a; simpl; auto; lia.
Qed.

Lemma hcnt_cons : forall c fr l, hcnt c (fr :: l) = hold c fr + hcnt c l.
Proof. reflexivity. Qed.

Definition can_l (ls : list (option (tid * nat))) (c : cid) (t : tid) : bool :=
  match nth_error ls c with
  | Some None => true
  | Some (Some (t', _)) => Nat.eqb t' t
  | None => false
  end.

Lemma depth_acq : forall ls c0 t c t',
  can_l ls c0 t = true ->
  depth (nth_error (acq_l ls c0 t) c) t' =
  depth (nth_error ls c) t' + (if Nat.eqb c c0 && Nat.eqb t' t then 1 else 0).
Proof.
  intros ls c0 t c t' Hc. unfold can_l in Hc. unfold acq_l.
  destruct (nth_error ls c0) as [[[o n]|]|] eqn:E; try discriminate.
  - apply Nat.eqb_eq in Hc. subst o. rewrite nth_error_upd.
    assert (c0 < length ls) by (apply nth_error_Some; congruence).
    destruct (Nat.eqb_spec c0 c).
    + subst c. destruct (Nat.ltb_spec c0 (length ls)); try lia. rewrite E. rewrite Nat.eqb_refl. simpl.
      destruct (Nat.eqb t' t); simpl; lia.
    + destruct (Nat.eqb_spec c c0); [congruence|]. simpl. lia.
  - rewrite nth_error_upd.
    assert (c0 < length ls) by (apply nth_error_Some; congruence).
    destruct (Nat.eqb_spec c0 c).
    + subst c. destruct (Nat.ltb_spec c0 (length ls)); try lia. rewrite E. rewrite Nat.eqb_refl. simpl.
      destruct (Nat.eqb t' t); simpl; lia.
    + destruct (Nat.eqb_spec c c0); [congruence|]. simpl. lia.
Qed.

Lemma can_l_acq : forall ls c0 t, can_l ls c0 t = true -> can_l (acq_l ls c0 t) c0 t = true.
Proof.
  intros ls c0 t Hc. unfold can_l in *. unfold acq_l.
  destruct (nth_error ls c0) as [[[o n]|]|] eqn:E; try discriminate.
  - rewrite nth_error_upd_same by (apply nth_error_Some; congruence). exact Hc.
  - rewrite nth_error_upd_same by (apply nth_error_Some; congruence). apply Nat.eqb_refl.
Qed.

(** releasing: the releasing thread is the owner *)
Lemma depth_rel : forall ls c0 t c t',
  1 <= depth (nth_error ls c0) t ->
  depth (nth_error (rel_l ls c0) c) t' + (if Nat.eqb c c0 && Nat.eqb t' t then 1 else 0) =
  depth (nth_error ls c) t'.
Proof.
  intros ls c0 t c t' Hd. unfold rel_l. unfold depth in Hd.
  destruct (nth_error ls c0) as [[[o n]|]|] eqn:E; try lia.
  destruct (Nat.eqb_spec t o); try lia. subst o.
  assert (c0 < length ls) by (apply nth_error_Some; congruence).
  destruct n.
  - rewrite nth_error_upd. destruct (Nat.eqb_spec c0 c).
    + subst c. destruct (Nat.ltb_spec c0 (length ls)); try lia. rewrite E, Nat.eqb_refl. simpl.
      destruct (Nat.eqb t' t); simpl; lia.
    + destruct (Nat.eqb_spec c c0); [congruence|]. simpl. lia.
  - rewrite nth_error_upd. destruct (Nat.eqb_spec c0 c).
    + subst c. destruct (Nat.ltb_spec c0 (length ls)); try lia. rewrite E, Nat.eqb_refl. simpl.
      destruct (Nat.eqb t' t); simpl; lia.
    + destruct (Nat.eqb_spec c c0); [congruence|]. simpl. lia.
Qed.

(** the generic step: thread t's holds change by [dp] - [dm] at cell c0, the mutex table accordingly *)
Lemma lock_ok_step : forall st st' t th th' c0 (dp dm : nat) ls',
  lock_ok st -> nth_error (thr st) t = Some th -> thr st' = upd (thr st) t th' ->
  (forall c, hcnt c (stk th') + (if Nat.eqb c c0 then dm else 0) = hcnt c (stk th) + (if Nat.eqb c c0 then dp else 0)) ->
  mlocks st' = ls' ->
  (forall c t', depth (nth_error ls' c) t' + (if Nat.eqb c c0 && Nat.eqb t' t then dm else 0) =
                depth (nth_error (mlocks st) c) t' + (if Nat.eqb c c0 && Nat.eqb t' t then dp else 0)) ->
  lock_ok st'.
Proof.
  intros st st' t th th' c0 dp dm ls' L Hth Hthr Hh Hl Hd c t' th'' Ht'.
  rewrite Hl. specialize (Hd c t'). rewrite Hthr in Ht'. apply nth_error_upd_inv in Ht'.
  destruct Ht' as [[-> ->]|[Hne Ht']].
  - specialize (Hh c). rewrite (L c t th Hth) in Hh. rewrite Nat.eqb_refl, andb_true_r in Hd. lia.
  - rewrite (L c t' th'' Ht'). destruct (Nat.eqb_spec t' t); [congruence|]. rewrite andb_false_r in Hd. lia.
Qed.

Lemma lock_ok_eff : forall restore st st' t th,
  lock_ok st -> nth_error (thr st) t = Some th -> eff restore t st st' th -> lock_ok st'.
Proof.
  intros restore st st' t th L Hth E.
  assert (Hown : forall c fr k, stk th = fr :: k -> 1 <= hold c fr -> 1 <= depth (nth_error (mlocks st) c) t).
  { intros c fr k Hs Hf. rewrite <- (L c t th Hth), Hs, hcnt_cons. lia. }
  destruct E.
  - (* local *)
    eapply (lock_ok_step st st' t th th' 0 0 0 _ L Hth H); [ | eassumption | ].
    + intro c. rewrite (hcnt_core c (stk th')), (hcnt_core c (stk th)), H0. reflexivity.
    + intros. reflexivity.
  - eapply (lock_ok_step st st' t th th' 0 0 0 _ L Hth H); [ | eassumption | ].
    + intro c0. rewrite H0, H1, hcnt_cons. simpl. destruct (Nat.eqb c0 0); lia.
    + intros. reflexivity.
  - (* seq starts: two levels *)
    eapply (lock_ok_step st st' t th th' c 2 0 _ L Hth H); [ | eassumption | ].
    + intro c0. rewrite H0, H1, !hcnt_cons. simpl.
      replace (hold c0 fr) with 0 by (destruct fr; simpl in *; try discriminate; reflexivity).
      destruct (Nat.eqb c0 c); lia.
    + intros c0 t'. rewrite depth_acq by (apply can_l_acq; exact H3). rewrite depth_acq by exact H3.
      destruct (Nat.eqb c0 c && Nat.eqb t' t); lia.
  - eapply (lock_ok_step st st' t th th' c 1 0 _ L Hth H); [ | eassumption | ].
    + intro c0. rewrite H0, H1, !hcnt_cons. simpl. destruct (Nat.eqb c0 c); lia.
    + intros c0 t'. rewrite depth_acq by exact H2. destruct (Nat.eqb c0 c && Nat.eqb t' t); lia.
  - eapply (lock_ok_step st st' t th th' c 1 0 _ L Hth H); [ | eassumption | ].
    + intro c0. rewrite H0, H1, !hcnt_cons. simpl.
      replace (hold c0 fr) with 0 by (destruct fr; simpl in *; try discriminate; reflexivity).
      destruct (Nat.eqb c0 c); lia.
    + intros c0 t'. rewrite depth_acq by exact H3. destruct (Nat.eqb c0 c && Nat.eqb t' t); lia.
  - (* the producer returns: one level released; if called from seq the loop frame keeps the other *)
    assert (Hd : 1 <= depth (nth_error (mlocks st) c) t).
    { eapply Hown; eauto. simpl. rewrite Nat.eqb_refl. destruct b; lia. }
    eapply (lock_ok_step st st' t th th' c 0 1 _ L Hth H); [ | eassumption | ].
    + intro c0. rewrite H0, H1. destruct b; rewrite !hcnt_cons; simpl; destruct (Nat.eqb c0 c); lia.
    + intros c0 t'. pose proof (depth_rel (mlocks st) c t c0 t' Hd). destruct (Nat.eqb c0 c && Nat.eqb t' t); lia.
  - (* the producer raises: one or two levels released *)
    assert (Hd : (if b then 2 else 1) <= depth (nth_error (mlocks st) c) t).
    { rewrite <- (L c t th Hth), H0, hcnt_cons. simpl. rewrite Nat.eqb_refl. lia. }
    destruct b.
    + eapply (lock_ok_step st st' t th th' c 0 2 _ L Hth H); [ | eassumption | ].
      * intro c0. rewrite H0, H1, !hcnt_cons. simpl. destruct (Nat.eqb c0 c); lia.
      * intros c0 t'.
        assert (Hd1 : 1 <= depth (nth_error (mlocks st) c) t) by lia.
        pose proof (depth_rel (mlocks st) c t c t Hd1) as Hs. rewrite !Nat.eqb_refl in Hs. simpl in Hs.
        assert (Hd2 : 1 <= depth (nth_error (rel_l (mlocks st) c) c) t) by lia.
        pose proof (depth_rel (mlocks st) c t c0 t' Hd1).
        pose proof (depth_rel (rel_l (mlocks st) c) c t c0 t' Hd2).
        destruct (Nat.eqb c0 c && Nat.eqb t' t); lia.
    + eapply (lock_ok_step st st' t th th' c 0 1 _ L Hth H); [ | eassumption | ].
      * intro c0. rewrite H0, H1, !hcnt_cons. simpl. destruct (Nat.eqb c0 c); lia.
      * intros c0 t'. assert (Hd1 : 1 <= depth (nth_error (mlocks st) c) t) by lia.
        pose proof (depth_rel (mlocks st) c t c0 t' Hd1). destruct (Nat.eqb c0 c && Nat.eqb t' t); lia.
  - eapply (lock_ok_step st st' t th th' 0 0 0 _ L Hth H); [ | eassumption | ].
    + intro c0. rewrite H0, H1, !hcnt_cons. simpl. destruct (Nat.eqb c0 0); lia.
    + intros. reflexivity.
  - eapply (lock_ok_step st st' t th th' 0 0 0 _ L Hth H); [ | eassumption | ].
    + intro c0. rewrite H0, H1, !hcnt_cons. simpl. destruct (Nat.eqb c0 0); lia.
    + intros. reflexivity.
  - assert (Hd : 1 <= depth (nth_error (mlocks st) c) t).
    { eapply Hown; eauto. simpl. rewrite Nat.eqb_refl. lia. }
    eapply (lock_ok_step st st' t th th' c 0 1 _ L Hth H); [ | eassumption | ].
    + intro c0. rewrite H0, H1, !hcnt_cons. simpl. destruct (Nat.eqb c0 c); lia.
    + intros c0 t'. pose proof (depth_rel (mlocks st) c t c0 t' Hd). destruct (Nat.eqb c0 c && Nat.eqb t' t); lia.
  - assert (Hd : 1 <= depth (nth_error (mlocks st) c) t).
    { eapply Hown; eauto. simpl. rewrite Nat.eqb_refl. lia. }
    eapply (lock_ok_step st st' t th th' c 0 1 _ L Hth H); [ | eassumption | ].
    + intro c0. rewrite H0, H1, !hcnt_cons. simpl. destruct (Nat.eqb c0 c); lia.
    + intros c0 t'. pose proof (depth_rel (mlocks st) c t c0 t' Hd). destruct (Nat.eqb c0 c && Nat.eqb t' t); lia.
  - (* a new cell with a free mutex *)
    eapply (lock_ok_step st st' t th th' 0 0 0 _ L Hth H); [ | eassumption | ].
    + intro c0. rewrite H0, H1, !hcnt_cons. simpl. destruct (Nat.eqb c0 0); lia.
    + intros c0 t'.
      assert (depth (nth_error (mlocks st ++ [None]) c0) t' = depth (nth_error (mlocks st) c0) t').
      { destruct (Nat.lt_ge_cases c0 (length (mlocks st))).
        - rewrite nth_error_app1 by lia. reflexivity.
        - rewrite nth_error_app2 by lia.
          replace (nth_error (mlocks st) c0) with (@None (option (tid * nat))) by (symmetry; apply nth_error_None; lia).
          destruct (c0 - length (mlocks st)); simpl; [reflexivity|]. destruct n; reflexivity. }
      lia.
Qed.
