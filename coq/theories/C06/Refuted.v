(** C06 -- kernel-checked witnesses where the faithful model violates a clause of the property. *)
From Coq Require Import List NArith Bool Arith Lia.
Import ListNotations.
From Verif Require Import C06.Base C06.LazySeq C06.Spec C06.Machine C06.ProofsBig.

Definition F : nat := 200.

(* ---- F-06b, the pinned error path ------------------------------------------------------------ *)
Definition w_exn_cells : list (list action) := [[AThrow]].
Definition w_exn_ops : list op := [OpSeq 0; OpSeq 0; OpFirst 0].

(** restore = false: the producer raises once; every later look answers nil; the cell is Computing *)
Lemma exception_corrupts_old_shape :
  let '(s', obs) := do_ops false F w_exn_ops [OLazy 0] (init_st w_exn_cells [] 0) [] in
  obs = [BExn 1; BKind 0; BVal None] /\ comp s' 0 = true /\ map ncalls (heap s') = [1%N]
  /\ snd (s_do_ops F w_exn_ops [OLazy 0] (s_init w_exn_cells [] 0) []) = [BExn 1; BExn 1; BExn 1].
Proof. vm_compute. repeat split. Qed.

(** restore = true (the working tree): every look raises again, the producer is retried *)
Lemma exception_repaired_shape :
  let '(s', obs) := do_ops true F w_exn_ops [OLazy 0] (init_st w_exn_cells [] 0) [] in
  obs = [BExn 1; BExn 1; BExn 1] /\ comp s' 0 = false /\ map ncalls (heap s') = [3%N].
Proof. vm_compute. repeat split. Qed.

(* ---- F-06c: co-recursion + exception (both shapes) ------------------------------------------- *)
Definition w_corec_cells : list (list action) := [[ARet (OLazy 1)]; [ATouch 0; AThrow]].
Definition w_corec_ops : list op := [OpSeq 0; OpSeq 0; OpSeq 0].

Lemma corecursive_exception :
  let '(s', obs) := do_ops true F w_corec_ops [OLazy 0] (init_st w_corec_cells [] 0) [] in
  obs = [BExn 1; BKind 0; BKind 0]                                   (* raises once, then "empty" for ever *)
  /\ map cst (heap s') = [Realized ONil; Initialized (GScript [ATouch 0; AThrow])]
  /\ seen s' = [(0, true)]                                           (* B saw A empty *)
  /\ snd (s_do_ops F w_corec_ops [OLazy 0] (s_init w_corec_cells [] 0) []) = [BExn 1; BExn 1; BExn 1].
Proof. vm_compute. repeat split. Qed.

(* ---- F-06d: concat is cut short by an exception ---------------------------------------------- *)
Definition w_concat_roots : list rootspec := [RConcat [RObj (OLazy 0); RObj (OCons 5 ONil)]].
Definition w_concat_ops : list op := [OpFirst 0; OpFirst 0; OpCount 0].

Lemma concat_exception_truncates :
  let (s1, regs) := build_roots w_concat_roots (init_st w_exn_cells [] 0) in
  let '(s', obs) := do_ops true F w_concat_ops regs s1 [] in
  let (t1, sregs) := s_build_roots w_concat_roots (s_init w_exn_cells [] 0) in
  obs = [BExn 1; BVal None; BNum 0]                                  (* raises once, then the END of the seq *)
  /\ snd (s_do_ops F w_concat_ops sregs t1 []) = [BExn 1; BExn 1; BExn 1].
Proof. vm_compute. repeat split. Qed.

(* ---- re-entrancy: the documented behaviour, on the `primes` shape ----------------------------- *)
(** cell 0 looks at itself and then returns (7): it sees itself empty; consumers see (7) *)
Lemma reentrant_example :
  let '(s', obs) := do_ops true F [OpFirst 0; OpFirst 0] [OLazy 0]
                           (init_st [[ATouch 0; ARet (OCons 7 ONil)]] [] 0) [] in
  obs = [BVal (Some 7%N); BVal (Some 7%N)] /\ seen s' = [(0, true)] /\ map ncalls (heap s') = [1%N].
Proof. vm_compute. repeat split. Qed.

(* ---- F-06: the interpreter wedges -------------------------------------------------------------- *)
(** nobody can take a faithful step *)
Definition stuck (restore : bool) (st : mstate) : Prop :=
  forall l, faithful l = true -> sched restore l st = None.

(** T0 is inside the producer of cell 0, parked on event 1 with the GIL released; T1 waited for event 0
    (set by that producer), then touches cell 0: it blocks on the cell mutex holding the GIL. *)
Definition w_dead_cells : list (list action) :=
  [[ASet 0; AWait 1; ARet (OCons 1 (OLazy 1))]; [ARet (OCons 2 (OLazy 2))]; [ARet (OCons 3 (OLazy 3))]; [ARet ONil]].
Definition w_dead_progs : list (list cop) := [[CFirst 0]; [CWait 0; CFirst 0; CSet 1]].
Definition w_dead_init : mstate := init_m w_dead_cells [] 2 [OLazy 0] w_dead_progs.
Definition w_dead_sched : list label :=
  [LAcq 0; LRun 0; LRun 0; LRun 0; LRun 0;       (* T0: first -> seq(0) -> producer: set(0), wait(1): parks *)
   LAcq 1; LRun 1; LRun 1].                      (* T1: wait(0) passes, first -> seq(0): blocked *)

Lemma stuck_two_threads : forall restore st,
  length (thr st) = 2 -> gil st = Some 1 ->
  stepf restore 1 st = None ->
  (forall th, nth_error (thr st) 1 = Some th -> in_python th = false) ->
  stuck restore st.
Proof.
  intros restore st Hlen Hg Hstep Hpy l Hf. destruct l as [t|t|t|t]; simpl in *; try discriminate; rewrite Hg.
  - destruct (Nat.eqb_spec t 1); auto. subst. exact Hstep.
  - reflexivity.
  - destruct (nth_error (thr st) t) as [th|] eqn:E; auto. destruct (Nat.eqb_spec t 1); auto. subst.
    rewrite (Hpy th E). reflexivity.
Qed.

Lemma deadlock_witness : forall restore,
  exists st, run_labels restore w_dead_sched w_dead_init = Some st /\ stuck restore st /\ all_finished st = false.
Proof.
  intros restore.
  destruct (run_labels restore w_dead_sched w_dead_init) as [st|] eqn:E;
    [|destruct restore; vm_compute in E; discriminate].
  exists st. split; auto.
  assert (Hst : run_labels restore w_dead_sched w_dead_init = Some st) by exact E.
  destruct restore; vm_compute in E; inversion E; subst; clear E; (split; [|reflexivity]);
    (apply stuck_two_threads; [reflexivity | reflexivity | reflexivity |
      intros th Hth; vm_compute in Hth; inversion Hth; subst; reflexivity]).
Qed.

(** the same with an ordinary producer: no events, the producer is merely pre-empted (switch interval)
    inside its Python body *)
Definition w_dead2_init : mstate := init_m [[ARet (OCons 1 ONil)]] [] 0 [OLazy 0] [[CFirst 0]; [CFirst 0]].
Definition w_dead2_sched : list label := [LAcq 0; LRun 0; LRun 0; LRel 0; LAcq 1; LRun 1].

Lemma deadlock_witness_plain_producer : forall restore,
  exists st, run_labels restore w_dead2_sched w_dead2_init = Some st /\ stuck restore st /\ all_finished st = false.
Proof.
  intros restore.
  destruct (run_labels restore w_dead2_sched w_dead2_init) as [st|] eqn:E;
    [|destruct restore; vm_compute in E; discriminate].
  exists st. split; auto.
  destruct restore; vm_compute in E; inversion E; subst; clear E; (split; [|reflexivity]);
    (apply stuck_two_threads; [reflexivity | reflexivity | reflexivity |
      intros th Hth; vm_compute in Hth; inversion Hth; subst; reflexivity]).
Qed.

(** ... and what would un-wedge it: if the blocked thread gave the GIL up while waiting for the mutex
    ([LPreempt], which seq.rs never does), T0 finishes its producer and both threads complete. *)
Lemma deadlock_goes_away_if_lock_released_the_gil :
  exists st, run_labels true (w_dead2_sched ++
                [LPreempt 1; LAcq 0; LRun 0; LRun 0; LRun 0; LRun 0; LRel 0; LAcq 1; LRun 1; LRun 1]) w_dead2_init = Some st
             /\ all_finished st = true
             /\ map (fun th => tobs th) (thr st) = [[BVal (Some 1%N)]; [BVal (Some 1%N)]]
             /\ map ncalls (mcells st) = [1%N].
Proof. eexists. vm_compute. repeat split. Qed.
