(** C06 -- laziness of concat (runtime.concat_from_seq: a seq.rs Sequence over
    itertools.chain.from_iterable(filter(None, map(to_seq, seqs)))): element k of the first input is
    realized when element k of the concatenation is, and the later inputs are not looked at before the
    first one is exhausted. *)
From Coq Require Import List NArith Bool Arith Lia.
Import ListNotations.
From Verif Require Import C06.Base C06.LazySeq C06.ProofsBig C06.ProofsLazy C06.ProofsMap.

Definition chain_iter (b j : nat) (rest : list obj) : iter :=
  match j with
  | O => ItChain None (OLazy b :: rest)                (* nothing pulled yet *)
  | S _ => ItChain (Some (OLazy (b + j))) rest         (* a SeqIterator standing at position j of the first input *)
  end.

Definition concat_at (vs : list N) (b j it c : nat) (rest : list obj) (s : st) : Prop :=
  chain_at vs b j s /\ seqit_at it c s /\ b + length vs < c /\
  nth_error (iters s) it = Some (chain_iter b j rest).

Section Pull.
Variable restore : bool.

Lemma ev_CPull_chain_none : forall f it s src srcs,
  nth_error (iters s) it = Some (ItChain None (src :: srcs)) ->
  ev restore (S f) (CPull it) s =
    let s0 := set_iter s it (ItChain None srcs) in
    let (s1, r) := ev restore f (CToSeq src) s0 in
    match r with
    | Ok ONil => ev restore f (CPull it) s1
    | Ok o => ev restore f (CPull it) (set_iter s1 it (ItChain (Some o) srcs))
    | Exn => (chain_dead s1 it, Exn)
    | e => (s1, e)
    end.
Proof. intros. simpl. rewrite H. reflexivity. Qed.

Lemma ev_CPull_chain_some : forall f it s cur srcs,
  nth_error (iters s) it = Some (ItChain (Some cur) srcs) ->
  ev restore (S f) (CPull it) s =
    let (s1, r) := ev restore f (CIterNext cur) s in
    match r with
    | Ok (OCons v cur') => (set_iter s1 it (ItChain (Some cur') srcs), Ok (OCons v ONil))
    | Ok _ => ev restore f (CPull it) (set_iter s1 it (ItChain None srcs))
    | e => (s1, e)
    end.
Proof. intros. simpl. rewrite H. reflexivity. Qed.

Lemma ev_CIterNext_cons : forall f v rst s,
  ev restore (S f) (CIterNext (OCons v rst)) s = (s, Ok (OCons v (rest_norm rst))).
Proof. reflexivity. Qed.

Lemma iters_set_iter_same : forall s it x, it < length (iters s) -> nth_error (iters (set_iter s it x)) it = Some x.
Proof. intros. cbn [iters set_iter]. apply nth_error_upd_same. assumption. Qed.

Lemma chain_at_set_iter : forall vs b j s it x, chain_at vs b j s -> chain_at vs b j (set_iter s it x).
Proof. intros vs b j s it x H i Hi. exact (H i Hi). Qed.

(** one pull of the chain iterator while the first input has an element at position j *)
Lemma chain_pull : forall f vs b j it rest s v,
  chain_at vs b j s -> nth_error (iters s) it = Some (chain_iter b j rest) -> nth_error vs j = Some v ->
  exists s',
    ev restore (S (S (S (S (S (S (S f))))))) (CPull it) s = (s', Ok (OCons v ONil))
    /\ chain_at vs b (S j) s'
    /\ nth_error (iters s') it = Some (chain_iter b (S j) rest)
    /\ (forall c', (c' < b \/ b + length vs < c') -> get s' c' = get s c')
    /\ hlen s' = hlen s /\ fcalls s' = fcalls s.
Proof.
  intros f vs b j it rest s v Hc Hi Ev.
  assert (Hj : j < length vs) by (apply nth_error_Some; congruence).
  assert (Hcr : chain_ret vs b j = OCons v (OLazy (b + S j))) by (unfold chain_ret; rewrite Ev; reflexivity).
  assert (Hitlt : it < length (iters s)) by (apply nth_error_Some; congruence).
  destruct j as [|j'].
  - (* first pull: to_seq of the first input, then the SeqIterator over it *)
    simpl in Hi.
    set (s0 := set_iter s it (ItChain None rest)).
    assert (Hc0 : chain_at vs b 0 s0) by (apply chain_at_set_iter; exact Hc).
    destruct (chain_step restore (S f) vs b 0 s0 Hc0 ltac:(lia)) as [Hev Hc1]. rewrite Hcr in Hev, Hc1.
    replace (b + 0) with b in Hev, Hc1 by lia.
    set (s1 := realize_plain s0 b (OCons v (OLazy (b + 1)))) in *.
    set (s2 := set_iter s1 it (ItChain (Some (OCons v (OLazy (b + 1)))) rest)).
    assert (Hi2 : nth_error (iters s2) it = Some (ItChain (Some (OCons v (OLazy (b + 1)))) rest)).
    { unfold s2. apply iters_set_iter_same. unfold s1. rewrite iters_realize_plain. unfold s0.
      cbn [iters set_iter]. rewrite upd_length. exact Hitlt. }
    exists (set_iter s2 it (ItChain (Some (OLazy (b + 1))) rest)). split; [|split; [|split; [|split; [|split]]]].
    + rewrite (ev_CPull_chain_none _ it s (OLazy b) rest Hi). cbv zeta. fold s0.
      rewrite ev_CToSeq_lazy, Hev. fold s2.
      rewrite (ev_CPull_chain_some _ it s2 _ rest Hi2), ev_CIterNext_cons. reflexivity.
    + apply chain_at_set_iter. unfold s2. apply chain_at_set_iter. exact Hc1.
    + rewrite iters_set_iter_same.
      * simpl. replace (b + 1) with (b + 1) by lia. reflexivity.
      * unfold s2. cbn [iters set_iter]. rewrite upd_length. unfold s1. rewrite iters_realize_plain. unfold s0.
        cbn [iters set_iter]. rewrite upd_length. exact Hitlt.
    + intros c' Hr. change (get (set_iter s2 it (ItChain (Some (OLazy (b + 1))) rest)) c') with (get s1 c').
      unfold s1. rewrite get_realize_plain_other by lia. reflexivity.
    + change (hlen (set_iter s2 it (ItChain (Some (OLazy (b + 1))) rest))) with (hlen s1). unfold s1.
      rewrite hlen_realize_plain. reflexivity.
    + change (fcalls (set_iter s2 it (ItChain (Some (OLazy (b + 1))) rest))) with (fcalls s1). unfold s1.
      rewrite fcalls_realize_plain. reflexivity.
  - (* later pulls: the SeqIterator forces the position it stands at *)
    simpl in Hi.
    destruct (chain_step restore (S f) vs b (S j') s Hc ltac:(lia)) as [Hev Hc1]. rewrite Hcr in Hev, Hc1.
    set (s1 := realize_plain s (b + S j') (OCons v (OLazy (b + S (S j'))))) in *.
    exists (set_iter s1 it (ItChain (Some (OLazy (b + S (S j')))) rest)). split; [|split; [|split; [|split; [|split]]]].
    + rewrite (ev_CPull_chain_some _ it s _ rest Hi), ev_CIterNext_lazy.
      rewrite Hev. reflexivity.
    + apply chain_at_set_iter. exact Hc1.
    + rewrite iters_set_iter_same; [reflexivity|]. unfold s1. rewrite iters_realize_plain. exact Hitlt.
    + intros c' Hr. change (get (set_iter s1 it (ItChain (Some (OLazy (b + S (S j')))) rest)) c') with (get s1 c').
      unfold s1. rewrite get_realize_plain_other by lia. reflexivity.
    + change (hlen (set_iter s1 it (ItChain (Some (OLazy (b + S (S j')))) rest))) with (hlen s1). unfold s1.
      apply hlen_realize_plain.
    + change (fcalls (set_iter s1 it (ItChain (Some (OLazy (b + S (S j')))) rest))) with (fcalls s1). unfold s1.
      apply fcalls_realize_plain.
Qed.

(** one element of (concat chain rest...) *)
Lemma concat_step : forall f vs b j it c rest s v,
  concat_at vs b j it c rest s -> nth_error vs j = Some v ->
  exists s',
    ev restore (S (S (S (S (S (S (S (S (S (S f)))))))))) (CSeq c) s = (s', Ok (OCons v (OLazy (hlen s))))
    /\ concat_at vs b (S j) it (hlen s) rest s'.
Proof.
  intros f vs b j it c rest s v [Hc [Hg [Hout Hi]]] Ev. unfold seqit_at in Hg.
  assert (Hclt : c < hlen s) by (eapply get_lt; eauto).
  set (s1 := start_call s c).
  assert (Hc1 : chain_at vs b j s1).
  { eapply chain_at_frame; eauto. intros i Hi0. unfold s1. rewrite get_start_call.
    destruct (Nat.eqb_spec c (b + i)); [lia | reflexivity]. }
  assert (Hi1 : nth_error (iters s1) it = Some (chain_iter b j rest)) by (unfold s1; rewrite iters_start_call; exact Hi).
  destruct (chain_pull f vs b j it rest s1 v Hc1 Hi1 Ev) as [s2 [Hev [Hc2 [Hi2 [Hfr [Hh2 Hf2]]]]]].
  assert (Hh1 : hlen s1 = hlen s) by apply hlen_start_call.
  set (r := OCons v (OLazy (hlen s))).
  set (s3 := set_heap s2 (heap s2 ++ [out_cell (GSeqIt it)])).
  assert (Hg2 : get s2 c = Some (mkCell Computing 1 0)).
  { rewrite (Hfr c (or_intror Hout)). unfold s1. rewrite get_start_call, Nat.eqb_refl, Hg. reflexivity. }
  assert (Hg3 : get s3 c = Some (mkCell Computing 1 0)).
  { unfold s3. erewrite get_app_old; [reflexivity|exact Hg2]. }
  exists (set_cst (set_cst s3 c (Computed r)) c (Realized r)). split.
  - rewrite ev_CSeq, Hg. cbn [cst out_cell]. rewrite ev_CCompute, Hg. cbn [cst out_cell].
    rewrite ev_CGen_seqit. fold s1. rewrite Hev.
    unfold alloc. change (set_heap s2 _) with s3. change (length (heap s2)) with (hlen s2). rewrite Hh2, Hh1. fold r.
    rewrite get_set_cst, Nat.eqb_refl, Hg3. cbn [option_map cst].
    rewrite ev_CUnwrap_plain by reflexivity. reflexivity.
  - split; [|split; [|split]].
    + eapply chain_at_frame; [exact Hc2|]. intros i Hi0.
      rewrite !get_set_cst. destruct (Nat.eqb_spec c (b + i)); [lia|].
      unfold s3. pose proof (Hc2 i Hi0) as Hgi. erewrite get_app_old; [|exact Hgi]. symmetry. exact Hgi.
    + unfold seqit_at. rewrite !get_set_cst. destruct (Nat.eqb_spec c (hlen s)); [lia|].
      unfold s3. replace (hlen s) with (hlen s2) by lia. apply get_app_new.
    + pose proof (Hc (length vs) (le_n _)) as Hl. apply get_lt in Hl. unfold hlen. lia.
    + rewrite !iters_set_cst. unfold s3. cbn [iters set_heap]. exact Hi2.
Qed.

End Pull.

(** (concat s rest...): walking m <= length elements realizes exactly the first m cells of s; the iterator
    still holds [rest] untouched -- no later input has been looked at *)
Lemma walk_concat : forall restore f vs b rest m j it c s acc,
  concat_at vs b j it c rest s -> j + m <= length vs ->
  exists s' c',
    walk restore (S (S (S (S (S (S (S (S (S (S (S f))))))))))) m (OLazy c) acc s =
      (s', Ok (OLazy c'), rev (chain_vals vs j m) ++ acc)
    /\ concat_at vs b (j + m) it c' rest s'.
Proof.
  induction m; intros j it c s acc Hc Hm.
  - exists s, c. simpl. unfold chain_vals. simpl. replace (j + 0) with j by lia. split; [reflexivity|exact Hc].
  - rewrite walk_S, ev_CIterNext_lazy.
    destruct (nth_error vs j) as [v|] eqn:Ev; [|apply nth_error_None in Ev; lia].
    destruct (concat_step restore f vs b j it c rest s v Hc Ev) as [s1 [Hev Hc1]].
    rewrite Hev. cbn [rest_norm].
    destruct (IHm (S j) it (hlen s) s1 (v :: acc) Hc1 ltac:(lia)) as [s' [c' [Hw Hc']]].
    exists s', c'. rewrite Hw. split.
    + f_equal. unfold chain_vals. rewrite (skipn_cons_nth vs j v Ev). simpl. rewrite <- app_assoc. reflexivity.
    + replace (j + S m) with (S j + m) by lia. exact Hc'.
Qed.
