(** C06 -- laziness of core.lpy filter: forcing one element runs the source producers up to and
    including the first match -- the loop of LazySeq::seq over the lazy seqs the generator returns for
    non-matching elements -- and not one more. *)
From Coq Require Import List NArith Bool Arith Lia.
Import ListNotations.
From Verif Require Import C06.Base C06.LazySeq C06.ProofsBig C06.ProofsLazy C06.ProofsMap C06.ProofsTake.

Definition filter_at (p : pred) (vs : list N) (b j c : nat) (s : st) : Prop :=
  chain_at vs b j s /\ get s c = Some (out_cell (GFilter p (OLazy (b + j)))) /\ b + length vs < c.

(** what one call of the generator of a filter cell returns *)
Definition filter_ret (p : pred) (vs : list N) (j new : nat) : obj :=
  match nth_error vs j with
  | Some v => if app_pred p v then OCons v (OLazy new) else OLazy new
  | None => ONil
  end.

(** cells that are neither in the chain nor [c] nor freshly allocated keep their content *)
Definition frame_ok (vs : list N) (b c : nat) (s s' : st) : Prop :=
  forall c', c' <> c -> (c' < b \/ b + length vs < c') -> c' < hlen s -> get s' c' = get s c'.

Lemma filter_compute_cons : forall restore f p vs b j c s v,
  filter_at p vs b j c s -> nth_error vs j = Some v ->
  exists s',
    ev restore (S (S (S (S (S (S (S f))))))) (CCompute c) s = (s', Ok (filter_ret p vs j (hlen s)))
    /\ filter_at p vs b (S j) (hlen s) s'
    /\ fcalls s' = N.succ (fcalls s) /\ hlen s' = S (hlen s)
    /\ get s' c = Some (mkCell (Computed (filter_ret p vs j (hlen s))) 1 0)
    /\ frame_ok vs b c s s'.
Proof.
  intros restore f p vs b j c s v [Hc [Hg Hout]] Ev.
  assert (Hj : j < length vs) by (apply nth_error_Some; congruence).
  assert (Hcr : chain_ret vs b j = OCons v (OLazy (b + S j))) by (unfold chain_ret; rewrite Ev; reflexivity).
  set (s1 := start_call s c).
  assert (Hc1 : chain_at vs b j s1).
  { eapply chain_at_frame; eauto. intros i Hi. unfold s1. rewrite get_start_call.
    destruct (Nat.eqb_spec c (b + i)); [lia | reflexivity]. }
  destruct (chain_step restore f vs b j s1 Hc1 ltac:(lia)) as [Hev Hc2].
  rewrite Hcr in Hev, Hc2.
  set (s2 := realize_plain s1 (b + j) (OCons v (OLazy (b + S j)))) in *.
  assert (Hclt : c < hlen s) by (eapply get_lt; eauto).
  assert (Hh2 : hlen s2 = hlen s).
  { unfold s2. rewrite hlen_realize_plain. unfold s1. apply hlen_start_call. }
  set (r := filter_ret p vs j (hlen s)).
  set (s3 := set_heap (bump_f s2) (heap (bump_f s2) ++ [out_cell (GFilter p (OLazy (b + S j)))])).
  assert (Hg3 : get s3 c = Some (mkCell Computing 1 0)).
  { unfold s3. erewrite get_app_old; [reflexivity|]. rewrite get_bump_f. unfold s2.
    rewrite get_realize_plain_other by lia. unfold s1. rewrite get_start_call, Nat.eqb_refl, Hg. reflexivity. }
  exists (set_cst s3 c (Computed r)). split; [|split; [|split; [|split; [|split]]]].
  - rewrite ev_CCompute, Hg. cbn [cst out_cell].
    rewrite ev_CGen_filter, ev_CToSeq_lazy. fold s1. rewrite Hev. cbn [rest_norm].
    unfold alloc. change (set_heap (bump_f s2) _) with s3.
    change (length (heap (bump_f s2))) with (hlen s2). rewrite Hh2.
    unfold r, filter_ret. rewrite Ev. destruct (app_pred p v); reflexivity.
  - split; [|split].
    + eapply chain_at_frame; [exact Hc2|]. intros i Hi.
      rewrite get_set_cst. destruct (Nat.eqb_spec c (b + i)); [lia|].
      unfold s3. pose proof (Hc2 i Hi) as Hgi. erewrite get_app_old; [|rewrite get_bump_f; exact Hgi].
      symmetry. exact Hgi.
    + rewrite get_set_cst. destruct (Nat.eqb_spec c (hlen s)); [lia|].
      unfold s3. replace (hlen s) with (hlen (bump_f s2)) by (exact Hh2). apply get_app_new.
    + pose proof (Hc (length vs) (le_n _)) as Hl. apply get_lt in Hl. unfold hlen. lia.
  - rewrite fcalls_set_cst. unfold s3. cbn [fcalls set_heap bump_f]. unfold s2.
    rewrite fcalls_realize_plain. unfold s1. rewrite fcalls_start_call. reflexivity.
  - rewrite hlen_set_cst. unfold s3. rewrite hlen_app. f_equal. exact Hh2.
  - rewrite get_set_cst, Nat.eqb_refl, Hg3. reflexivity.
  - intros c' Hne Hrange Hlt. rewrite get_set_cst. destruct (Nat.eqb_spec c c'); [congruence|].
    unfold s3. rewrite get_set_heap. rewrite nth_error_app1 by (change (length (heap (bump_f s2))) with (hlen s2); lia).
    change (nth_error (heap (bump_f s2)) c') with (get s2 c'). unfold s2.
    rewrite get_realize_plain_other by lia. unfold s1. rewrite get_start_call.
    destruct (Nat.eqb_spec c c'); [congruence|reflexivity].
Qed.

Lemma filter_compute_nil : forall restore f p vs b c s,
  filter_at p vs b (length vs) c s ->
  exists s',
    ev restore (S (S (S (S (S (S (S f))))))) (CCompute c) s = (s', Ok ONil)
    /\ chain_at vs b (S (length vs)) s' /\ fcalls s' = fcalls s
    /\ get s' c = Some (mkCell (Computed ONil) 1 0)
    /\ frame_ok vs b c s s'.
Proof.
  intros restore f p vs b c s [Hc [Hg Hout]].
  assert (Ev : nth_error vs (length vs) = None) by (apply nth_error_None; lia).
  assert (Hcr : chain_ret vs b (length vs) = ONil) by (unfold chain_ret; rewrite Ev; reflexivity).
  set (s1 := start_call s c).
  assert (Hc1 : chain_at vs b (length vs) s1).
  { eapply chain_at_frame; eauto. intros i Hi. unfold s1. rewrite get_start_call.
    destruct (Nat.eqb_spec c (b + i)); [lia | reflexivity]. }
  destruct (chain_step restore f vs b (length vs) s1 Hc1 ltac:(lia)) as [Hev Hc2].
  rewrite Hcr in Hev, Hc2.
  set (s2 := realize_plain s1 (b + length vs) ONil) in *.
  assert (Hg2 : get s2 c = Some (mkCell Computing 1 0)).
  { unfold s2. rewrite get_realize_plain_other by lia. unfold s1. rewrite get_start_call, Nat.eqb_refl, Hg. reflexivity. }
  exists (set_cst s2 c (Computed ONil)). split; [|split; [|split; [|split]]].
  - rewrite ev_CCompute, Hg. cbn [cst out_cell].
    rewrite ev_CGen_filter, ev_CToSeq_lazy. fold s1. rewrite Hev. reflexivity.
  - eapply chain_at_frame; [exact Hc2|]. intros i Hi.
    rewrite get_set_cst. destruct (Nat.eqb_spec c (b + i)); [lia|]. reflexivity.
  - rewrite fcalls_set_cst. unfold s2. rewrite fcalls_realize_plain. unfold s1. apply fcalls_start_call.
  - rewrite get_set_cst, Nat.eqb_refl, Hg2. reflexivity.
  - intros c' Hne Hrange Hlt. rewrite get_set_cst. destruct (Nat.eqb_spec c c'); [congruence|].
    unfold s2. rewrite get_realize_plain_other by lia. unfold s1. rewrite get_start_call.
    destruct (Nat.eqb_spec c c'); [congruence|reflexivity].
Qed.

(** index of the first element at or after j that satisfies p (length vs if there is none) *)
Fixpoint first_match (p : pred) (vs : list N) (j : nat) (fuel : nat) : nat :=
  match fuel with
  | O => j
  | S k => match nth_error vs j with
           | Some v => if app_pred p v then j else first_match p vs (S j) k
           | None => j
           end
  end.

Definition match_obj (vs : list N) (jm : nat) (o : obj) : Prop :=
  match nth_error vs jm with
  | Some v => exists new, o = OCons v (OLazy new)
  | None => o = ONil
  end.

(** the loop of seq(c0) over the lazy seqs returned for non-matching elements *)
Lemma filter_unwrap : forall restore f p vs b r j c c0 s k0,
  length vs - j = r -> j <= length vs ->
  filter_at p vs b j c s ->
  get s c0 = Some k0 -> c0 <> c -> b + length vs < c0 ->
  exists s' o,
    ev restore (S (S (S (S (S (S (S (S (r + f))))))))) (CUnwrap c0 (OLazy c)) s = (s', Ok o)
    /\ match_obj vs (first_match p vs j (S r)) o
    /\ chain_at vs b (S (first_match p vs j (S r))) s'
    /\ option_map cst (get s' c0) = Some (Realized o)
    /\ fcalls s' = (fcalls s + N.of_nat (first_match p vs j (S r) - j
                                          + (if Nat.ltb (first_match p vs j (S r)) (length vs) then 1 else 0)))%N.
Proof.
  induction r; intros j c c0 s k0 Hr Hj Hf Hg0 Hne Hout0.
  - (* j = length vs: the source is exhausted *)
    assert (j = length vs) by lia. subst j.
    destruct (filter_compute_nil restore (0 + f) p vs b c s Hf) as [s1 [Hev [Hc1 [Hf1 [Hgc Hfr]]]]].
    assert (Ev : nth_error vs (length vs) = None) by (apply nth_error_None; lia).
    exists (set_cst s1 c0 (Realized ONil)), ONil.
    rewrite ev_CUnwrap_lazy, Hev. rewrite ev_CUnwrap_plain by reflexivity.
    simpl first_match. rewrite Ev. split; [reflexivity|split; [|split; [|split]]].
    + unfold match_obj. rewrite Ev. reflexivity.
    + eapply chain_at_frame; [exact Hc1|]. intros i Hi. rewrite get_set_cst.
      destruct (Nat.eqb_spec c0 (b + i)); [lia|reflexivity].
    + rewrite get_set_cst, Nat.eqb_refl.
      assert (Hlt0 : c0 < hlen s) by (eapply get_lt; eauto).
      rewrite (Hfr c0 Hne (or_intror Hout0) Hlt0), Hg0; try reflexivity.
    + rewrite fcalls_set_cst, Hf1. rewrite Nat.sub_diag. rewrite Nat.ltb_irrefl. simpl. lia.
  - (* j < length vs *)
    assert (Hlt : j < length vs) by lia.
    destruct (nth_error vs j) as [v|] eqn:Ev; [|apply nth_error_None in Ev; lia].
    destruct (filter_compute_cons restore (S r + f) p vs b j c s v Hf Ev) as [s1 [Hev [Hf1 [Hfc1 [Hh1 [Hgc Hfr]]]]]].
    assert (Hlt0 : c0 < hlen s) by (eapply get_lt; eauto).
    assert (Hg01 : get s1 c0 = Some k0) by (rewrite (Hfr c0 Hne (or_intror Hout0) Hlt0); exact Hg0).
    rewrite ev_CUnwrap_lazy. replace (S (S (S (S (S (S (S (S r + f))))))))
      with (S (S (S (S (S (S (S (S r + f)))))))) by reflexivity. rewrite Hev.
    change (first_match p vs j (S (S r))) with
      (match nth_error vs j with Some v => if app_pred p v then j else first_match p vs (S j) (S r) | None => j end).
    rewrite Ev. unfold filter_ret. rewrite Ev. destruct (app_pred p v) eqn:Ep.
    + (* match: the loop ends here *)
      exists (set_cst s1 c0 (Realized (OCons v (OLazy (hlen s))))), (OCons v (OLazy (hlen s))).
      rewrite ev_CUnwrap_plain by reflexivity. split; [reflexivity|split; [|split; [|split]]].
      * unfold match_obj. rewrite Ev. eauto.
      * destruct Hf1 as [Hc1 _]. eapply chain_at_frame; [exact Hc1|]. intros i Hi. rewrite get_set_cst.
        destruct (Nat.eqb_spec c0 (b + i)); [lia|reflexivity].
      * rewrite get_set_cst, Nat.eqb_refl, Hg01. reflexivity.
      * rewrite fcalls_set_cst, Hfc1. rewrite Nat.sub_diag. destruct (Nat.ltb_spec j (length vs)); simpl; lia.
    + (* no match: the generator returned the lazy seq for the rest; go round the loop *)
      assert (Hne1 : c0 <> hlen s) by lia.
      destruct (IHr (S j) (hlen s) c0 s1 k0 ltac:(lia) ltac:(lia) Hf1 Hg01 Hne1 Hout0) as [s' [o [Hev' [Hm [Hc' [Hg' Hfc']]]]]].
      exists s', o.
      replace (S (S (S (S (S (S (S (S r + f))))))))
        with (S (S (S (S (S (S (S (S (r + f))))))))) by (simpl; lia).
      rewrite Hev'. split; [reflexivity|split; [exact Hm|split; [exact Hc'|split; [exact Hg'|]]]].
      rewrite Hfc', Hfc1.
      assert (Hge : S j <= first_match p vs (S j) (S r)).
      { clear. generalize (S j) as i. induction (S r); intros; simpl; [lia|].
        destruct (nth_error vs i); [|lia]. destruct (app_pred p n0); [lia|]. specialize (IHn (S i)). lia. }
      destruct (Nat.ltb (first_match p vs (S j) (S r)) (length vs)); lia.
Qed.

(** forcing ONE element of (filter p s): the source producers j .. first match run (and the final nil cell
    when nothing matches), not one more; p is applied once per element inspected *)
Theorem seq_filter : forall restore f p vs b j c s,
  filter_at p vs b j c s -> j <= length vs ->
  let jm := first_match p vs j (S (length vs - j)) in
  exists s' o,
    ev restore (S (S (S (S (S (S (S (S (S ((length vs - j) + f)))))))))) (CSeq c) s = (s', Ok o)
    /\ match_obj vs jm o
    /\ chain_at vs b (S jm) s'
    /\ fcalls s' = (fcalls s + N.of_nat (jm - j + (if Nat.ltb jm (length vs) then 1 else 0)))%N.
Proof.
  intros restore f p vs b j c s Hf Hj jm. pose proof Hf as [Hc [Hg Hout]].
  rewrite ev_CSeq, Hg. cbn [cst out_cell].
  destruct (nth_error vs j) as [v|] eqn:Ev.
  - assert (Hlt : j < length vs) by (apply nth_error_Some; congruence).
    destruct (filter_compute_cons restore (S (length vs - j + f)) p vs b j c s v Hf Ev)
      as [s1 [Hev [Hf1 [Hfc1 [Hh1 [Hgc Hfr]]]]]].
    rewrite Hev, Hgc. cbn [cst].
    subst jm. destruct (length vs - j) as [|r] eqn:Er; [lia|].
    change (first_match p vs j (S (S r))) with
      (match nth_error vs j with Some v => if app_pred p v then j else first_match p vs (S j) (S r) | None => j end).
    rewrite Ev. unfold filter_ret. rewrite Ev. destruct (app_pred p v) eqn:Ep.
    + exists (set_cst s1 c (Realized (OCons v (OLazy (hlen s))))), (OCons v (OLazy (hlen s))).
      rewrite ev_CUnwrap_plain by reflexivity. split; [reflexivity|split; [|split]].
      * unfold match_obj. rewrite Ev. eauto.
      * destruct Hf1 as [Hc1 _]. eapply chain_at_frame; [exact Hc1|]. intros i Hi. rewrite get_set_cst.
        destruct (Nat.eqb_spec c (b + i)); [lia|reflexivity].
      * rewrite fcalls_set_cst, Hfc1. rewrite Nat.sub_diag. destruct (Nat.ltb_spec j (length vs)); simpl; lia.
    + assert (Hclt : c < hlen s) by (eapply get_lt; eauto).
      assert (Hne1 : c <> hlen s) by lia.
      destruct (filter_unwrap restore (S f) p vs b r (S j) (hlen s) c s1 _ ltac:(lia) ltac:(lia) Hf1 Hgc Hne1 Hout)
        as [s' [o [Hev' [Hm [Hc' [_ Hfc']]]]]].
      exists s', o.
      replace (S (S (S (S (S (S (S (S (S r + f))))))))) with (S (S (S (S (S (S (S (S (r + S f))))))))) by (simpl; lia).
      rewrite Hev'. split; [reflexivity|split; [exact Hm|split; [exact Hc'|]]].
      rewrite Hfc', Hfc1.
      assert (Hge : S j <= first_match p vs (S j) (S r)).
      { clear. generalize (S j) as i. induction (S r); intros; simpl; [lia|].
        destruct (nth_error vs i); [|lia]. destruct (app_pred p n0); [lia|]. specialize (IHn (S i)). lia. }
      destruct (Nat.ltb (first_match p vs (S j) (S r)) (length vs)); lia.
  - assert (Hge : length vs <= j) by (apply nth_error_None; assumption).
    assert (j = length vs) by lia. subst j.
    destruct (filter_compute_nil restore (S (length vs - length vs + f)) p vs b c s Hf) as [s1 [Hev [Hc1 [Hf1 [Hgc Hfr]]]]].
    rewrite Hev, Hgc. cbn [cst]. rewrite ev_CUnwrap_plain by reflexivity.
    exists (set_cst s1 c (Realized ONil)), ONil. subst jm. rewrite Nat.sub_diag. simpl first_match. rewrite Ev.
    split; [reflexivity|split; [|split]].
    + unfold match_obj. rewrite Ev. reflexivity.
    + eapply chain_at_frame; [exact Hc1|]. intros i Hi. rewrite get_set_cst.
      destruct (Nat.eqb_spec c (b + i)); [lia|reflexivity].
    + rewrite fcalls_set_cst, Hf1. rewrite Nat.sub_diag, Nat.ltb_irrefl. simpl. lia.
Qed.
