(** C06 -- laziness: what runs when an element is demanded (one-thread model, LazySeq.v).

    Sources are instrumented chains of scripted cells: cell b+i returns (cons v_i (lazy b+i+1)), the
    cell after the last returns nil.  [chain_at vs b j s] says: in state s the first j producers of
    the chain have run exactly once and the others never. *)
From Coq Require Import List NArith Bool Arith Lia.
Import ListNotations.
From Verif Require Import C06.Base C06.LazySeq C06.ProofsBig.

(* ---------------------------------------------------------------------------------- *)
(** ** reading a modified heap *)

Lemma get_set_cst : forall s c x c',
  get (set_cst s c x) c' =
  if Nat.eqb c c' then option_map (fun k => mkCell x (ncalls k) (nthrows k)) (get s c) else get s c'.
Proof.
  intros. unfold set_cst. destruct (get s c) eqn:E.
  - rewrite get_set_heap, nth_error_upd. destruct (Nat.eqb_spec c c'); auto.
    apply get_lt in E. destruct (Nat.ltb_spec c (length (heap s))); try lia. reflexivity.
  - destruct (Nat.eqb_spec c c'); auto. subst. rewrite E. reflexivity.
Qed.

Lemma get_start_call : forall s c c',
  get (start_call s c) c' =
  if Nat.eqb c c' then option_map (fun k => mkCell Computing (N.succ (ncalls k)) (nthrows k)) (get s c) else get s c'.
Proof.
  intros. unfold start_call. destruct (get s c) eqn:E.
  - rewrite get_set_heap, nth_error_upd. destruct (Nat.eqb_spec c c'); auto.
    apply get_lt in E. destruct (Nat.ltb_spec c (length (heap s))); try lia. reflexivity.
  - destruct (Nat.eqb_spec c c'); auto. subst. rewrite E. reflexivity.
Qed.

Lemma get_app_old : forall s x c k, get s c = Some k -> get (set_heap s (heap s ++ [x])) c = Some k.
Proof. intros. rewrite get_set_heap. rewrite nth_error_app1; auto. eapply get_lt; eauto. Qed.

Lemma get_app_new : forall s x, get (set_heap s (heap s ++ [x])) (hlen s) = Some x.
Proof. intros. rewrite get_set_heap. unfold hlen. rewrite nth_error_app2 by lia. rewrite Nat.sub_diag. reflexivity. Qed.

Lemma get_bump_f : forall s c, get (bump_f s) c = get s c.
Proof. reflexivity. Qed.

(* ---------------------------------------------------------------------------------- *)
(** ** one-level unfoldings of [ev] *)
Section Eqs.
Variable restore : bool.

Lemma ev_CSeq : forall f c s, ev restore (S f) (CSeq c) s =
        match get s c with
        | None => (s, Bad)
        | Some cl =>
          match cst cl with
          | Realized o => (s, Ok o)
          | _ =>
            let (s1, r) := ev restore f (CCompute c) s in
            match r with
            | Ok _ =>
                match get s1 c with
                | Some cl1 =>
                    match cst cl1 with
                    | Computed o => ev restore f (CUnwrap c o) s1
                    | _ => (s1, Ok ONil)
                    end
                | None => (s1, Bad)
                end
            | e => (s1, e)
            end
          end
        end.
Proof. reflexivity. Qed.

Lemma ev_CCompute : forall f c s, ev restore (S f) (CCompute c) s =
        match get s c with
        | None => (s, Bad)
        | Some cl =>
          match cst cl with
          | Computing => (s, Ok ONil)
          | Computed o => (s, Ok o)
          | Realized o => (s, Ok o)
          | Initialized g =>
              let (s2, r) := ev restore f (CGen g) (start_call s c) in
              match r with
              | Ok o => (set_cst s2 c (Computed o), Ok o)
              | Exn => (note_throw s2 c (if restore then Initialized g else Computing), Exn)
              | e => (s2, e)
              end
          end
        end.
Proof. reflexivity. Qed.

Lemma ev_CGen_script : forall f l s, ev restore (S f) (CGen (GScript l)) s = ev restore f (CScript l) s.
Proof. reflexivity. Qed.
Lemma ev_CScript_ret : forall f o l s, ev restore (S f) (CScript (ARet o :: l)) s = (s, Ok o).
Proof. reflexivity. Qed.
Lemma ev_CToSeq_lazy : forall f c s, ev restore (S f) (CToSeq (OLazy c)) s = ev restore f (CSeq c) s.
Proof. reflexivity. Qed.
Lemma ev_CIterNext_lazy : forall f c s, ev restore (S f) (CIterNext (OLazy c)) s =
  let (s1, r) := ev restore f (CSeq c) s in
  match r with
  | Ok (OCons v rst) => (s1, Ok (OCons v (rest_norm rst)))
  | Ok _ => (s1, Ok ONil)
  | e => (s1, e)
  end.
Proof. reflexivity. Qed.

Definition nonlazy (o : obj) : bool := match o with OLazy _ => false | _ => true end.

Lemma ev_CUnwrap_plain : forall f c w s, nonlazy w = true ->
  ev restore (S f) (CUnwrap c w) s = (set_cst s c (Realized (seq_or_nil w)), Ok (seq_or_nil w)).
Proof. intros. destruct w; try discriminate; reflexivity. Qed.

Lemma ev_CGen_map : forall f fn src s, ev restore (S f) (CGen (GMap fn src)) s =
            let (s1, r) := ev restore f (CToSeq src) s in
            match r with
            | Ok (OCons v rst) =>
                let (s2, n) := alloc (bump_f s1) (GMap fn (rest_norm rst)) in
                (s2, Ok (OCons (app_fn fn v) (OLazy n)))
            | Ok _ => (s1, Ok ONil)
            | e => (s1, e)
            end.
Proof. reflexivity. Qed.

Lemma ev_CGen_iterate : forall f fn x s, ev restore (S f) (CGen (GIterate fn x)) s =
            let (s2, n) := alloc (bump_f s) (GIterate fn (app_fn fn x)) in
            (s2, Ok (OCons x (OLazy n))).
Proof. reflexivity. Qed.

Lemma ev_CGen_seqit : forall f it s, ev restore (S f) (CGen (GSeqIt it)) s =
            let (s1, r) := ev restore f (CPull it) s in
            match r with
            | Ok (OCons v _) =>
                let (s2, n) := alloc s1 (GSeqIt it) in (s2, Ok (OCons v (OLazy n)))
            | Ok _ => (s1, Ok OEmpty)
            | e => (s1, e)
            end.
Proof. reflexivity. Qed.

(* ---------------------------------------------------------------------------------- *)
(** ** a memoised cell costs nothing *)
Lemma realized_seq : forall f s c k o,
  get s c = Some k -> cst k = Realized o -> ev restore (S f) (CSeq c) s = (s, Ok o).
Proof. intros. rewrite ev_CSeq, H, H0. reflexivity. Qed.

(* ---------------------------------------------------------------------------------- *)
(** ** realizing a scripted cell whose producer just returns a non-lazy object *)
Definition realize_plain (s : st) (c : cid) (o : obj) : st :=
  set_cst (set_cst (start_call s c) c (Computed o)) c (Realized (seq_or_nil o)).

Lemma plain_step : forall f s c k o,
  get s c = Some k -> cst k = Initialized (GScript [ARet o]) -> nonlazy o = true ->
  ev restore (S (S (S (S f)))) (CSeq c) s = (realize_plain s c o, Ok (seq_or_nil o)).
Proof.
  intros f s c k o Hg Hc Hn.
  rewrite ev_CSeq, Hg, Hc. rewrite ev_CCompute, Hg, Hc. rewrite ev_CGen_script, ev_CScript_ret.
  rewrite get_set_cst, Nat.eqb_refl, get_start_call, Nat.eqb_refl, Hg. cbn [option_map cst].
  rewrite ev_CUnwrap_plain by assumption. reflexivity.
Qed.

Lemma get_realize_plain_same : forall s c k o,
  get s c = Some k ->
  get (realize_plain s c o) c = Some (mkCell (Realized (seq_or_nil o)) (N.succ (ncalls k)) (nthrows k)).
Proof.
  intros. unfold realize_plain. rewrite !get_set_cst, !Nat.eqb_refl, get_start_call, Nat.eqb_refl, H. reflexivity.
Qed.

Lemma get_realize_plain_other : forall s c o c', c <> c' -> get (realize_plain s c o) c' = get s c'.
Proof.
  intros. unfold realize_plain.
  rewrite get_set_cst. destruct (Nat.eqb_spec c c'); [congruence|].
  rewrite get_set_cst. destruct (Nat.eqb_spec c c'); [congruence|].
  rewrite get_start_call. destruct (Nat.eqb_spec c c'); [congruence|]. reflexivity.
Qed.

Lemma hlen_realize_plain : forall s c o, hlen (realize_plain s c o) = hlen s.
Proof. intros. unfold realize_plain. rewrite !hlen_set_cst, hlen_start_call. reflexivity. Qed.

Lemma fcalls_realize_plain : forall s c o, fcalls (realize_plain s c o) = fcalls s.
Proof.
  intros. unfold realize_plain, set_cst, start_call.
  repeat (match goal with |- context [match ?x with _ => _ end] => destruct x end; simpl); reflexivity.
Qed.

Lemma iters_realize_plain : forall s c o, iters (realize_plain s c o) = iters s.
Proof.
  intros. unfold realize_plain, set_cst, start_call.
  repeat (match goal with |- context [match ?x with _ => _ end] => destruct x end; simpl); reflexivity.
Qed.

End Eqs.

(* ---------------------------------------------------------------------------------- *)
(** ** instrumented chains *)

Definition chain_ret (vs : list N) (b i : nat) : obj :=
  match nth_error vs i with Some v => OCons v (OLazy (b + S i)) | None => ONil end.
Definition fresh_cell (o : obj) : cell := mkCell (Initialized (GScript [ARet o])) 0 0.
Definition done_cell (o : obj) : cell := mkCell (Realized (seq_or_nil o)) 1 0.

(** the first [j] producers of the chain at [b] have run once, the others never *)
Definition chain_at (vs : list N) (b j : nat) (s : st) : Prop :=
  forall i, i <= length vs ->
    get s (b + i) = Some (if Nat.ltb i j then done_cell (chain_ret vs b i) else fresh_cell (chain_ret vs b i)).

Lemma chain_ret_nonlazy : forall vs b i, nonlazy (chain_ret vs b i) = true.
Proof. intros. unfold chain_ret. destruct (nth_error vs i); reflexivity. Qed.

Lemma chain_ret_seq : forall vs b i, seq_or_nil (chain_ret vs b i) = chain_ret vs b i.
Proof. intros. unfold chain_ret. destruct (nth_error vs i); reflexivity. Qed.

(** the scripts that make such a chain, and the initial state is a chain at 0 *)
Fixpoint chain_scripts (vs : list N) (b : nat) : list (list action) :=
  match vs with
  | [] => [[ARet ONil]]
  | v :: t => [ARet (OCons v (OLazy (S b)))] :: chain_scripts t (S b)
  end.

Lemma chain_scripts_nth : forall vs b i, i <= length vs ->
  nth_error (chain_scripts vs b) i = Some [ARet (chain_ret vs b i)].
Proof.
  induction vs; intros b i Hi; simpl in *.
  - assert (i = 0) by lia. subst. reflexivity.
  - destruct i; simpl.
    + unfold chain_ret. simpl. replace (b + 1) with (S b) by lia. reflexivity.
    + rewrite IHvs by lia. unfold chain_ret. simpl. replace (b + S (S i)) with (S (b + S i)) by lia. reflexivity.
Qed.

Lemma chain_at_init : forall vs its nev, chain_at vs 0 0 (init_st (chain_scripts vs 0) its nev).
Proof.
  intros vs its nev i Hi. unfold get, init_st. simpl.
  rewrite nth_error_map, chain_scripts_nth by assumption. reflexivity.
Qed.

(** one element of the chain: exactly its producer runs *)
Lemma chain_step : forall restore f vs b j s,
  chain_at vs b j s -> j <= length vs ->
  ev restore (S (S (S (S f)))) (CSeq (b + j)) s =
    (realize_plain s (b + j) (chain_ret vs b j), Ok (chain_ret vs b j))
  /\ chain_at vs b (S j) (realize_plain s (b + j) (chain_ret vs b j)).
Proof.
  intros restore f vs b j s Hc Hj. pose proof (Hc j Hj) as Hg. rewrite Nat.ltb_irrefl in Hg.
  split.
  - erewrite plain_step; eauto; [| reflexivity | apply chain_ret_nonlazy]. rewrite chain_ret_seq. reflexivity.
  - intros i Hi. destruct (Nat.eq_dec i j).
    + subst. erewrite get_realize_plain_same by eauto.
      destruct (Nat.ltb_spec j (S j)); try lia. reflexivity.
    + rewrite get_realize_plain_other by lia. rewrite (Hc i Hi).
      destruct (Nat.ltb_spec i j), (Nat.ltb_spec i (S j)); try lia; reflexivity.
Qed.

(** an already realized element: nothing runs *)
Lemma chain_memo : forall restore f vs b j i s,
  chain_at vs b j s -> i < j -> i <= length vs ->
  ev restore (S f) (CSeq (b + i)) s = (s, Ok (chain_ret vs b i)).
Proof.
  intros. pose proof (H i H1) as Hg. destruct (Nat.ltb_spec i j); try lia.
  erewrite realized_seq; eauto. simpl. rewrite chain_ret_seq. reflexivity.
Qed.

(* ---------------------------------------------------------------------------------- *)
(** ** (lazy-seq ...) chains: walking m elements runs m producers *)

Lemma skipn_cons_nth : forall (vs : list N) j v, nth_error vs j = Some v -> skipn j vs = v :: skipn (S j) vs.
Proof.
  induction vs; intros j v H; destruct j; simpl in *; try discriminate.
  - inversion H; reflexivity.
  - apply IHvs; assumption.
Qed.

Definition chain_vals (vs : list N) (j m : nat) : list N := firstn m (skipn j vs).

Lemma walk_S : forall restore fuel m cur acc s,
  walk restore fuel (S m) cur acc s =
      let (s1, r) := ev restore fuel (CIterNext cur) s in
      match r with
      | Ok (OCons v cur') => walk restore fuel m cur' (v :: acc) s1
      | Ok _ => (s1, Ok ONil, acc)
      | e => (s1, e, acc)
      end.
Proof. reflexivity. Qed.

Lemma walk_chain : forall restore f vs b m j s acc,
  chain_at vs b j s -> j <= length vs ->
  exists s',
    walk restore (S (S (S (S (S f))))) m (OLazy (b + j)) acc s =
      (s', Ok (if Nat.leb (j + m) (length vs) then OLazy (b + j + m) else ONil),
       rev (chain_vals vs j m) ++ acc)
    /\ chain_at vs b (Nat.min (j + m) (S (length vs))) s'
    /\ fcalls s' = fcalls s /\ iters s' = iters s.
Proof.
  induction m; intros j s acc Hc Hj.
  - exists s. simpl. replace (j + 0) with j by lia. destruct (Nat.leb_spec j (length vs)); try lia.
    unfold chain_vals. simpl. replace (b + j + 0) with (b + j) by lia. repeat split; auto.
    replace (Nat.min j (S (length vs))) with j by lia. assumption.
  - destruct (chain_step restore f vs b j s Hc Hj) as [Hev Hc'].
    rewrite walk_S, ev_CIterNext_lazy, Hev. unfold chain_vals.
    destruct (nth_error vs j) as [v|] eqn:Ev.
    + assert (Hcr : chain_ret vs b j = OCons v (OLazy (b + S j))) by (unfold chain_ret; rewrite Ev; reflexivity).
      assert (Hlt : j < length vs) by (apply nth_error_Some; congruence).
      rewrite Hcr in *. cbn [rest_norm].
      destruct (IHm (S j) _ (v :: acc) Hc' ltac:(lia)) as [s' [Hw [Hc'' [Hf Hi]]]].
      exists s'. replace (b + S j) with (b + (S j)) by lia. rewrite Hw. split; [|split; [|split]].
      * f_equal; [f_equal|].
        -- replace (S j + m) with (j + S m) by lia. replace (b + S j + m) with (b + j + S m) by lia. reflexivity.
        -- unfold chain_vals. rewrite (skipn_cons_nth vs j v Ev). simpl. rewrite <- app_assoc. reflexivity.
      * replace (j + S m) with (S j + m) by lia. assumption.
      * rewrite Hf. apply fcalls_realize_plain.
      * rewrite Hi. apply iters_realize_plain.
    + assert (Hcr : chain_ret vs b j = ONil) by (unfold chain_ret; rewrite Ev; reflexivity).
      assert (Hge : length vs <= j) by (apply nth_error_None; assumption).
      assert (j = length vs) by lia. subst j. rewrite Hcr in *.
      exists (realize_plain s (b + length vs) ONil). split; [|split; [|split]].
      * destruct (Nat.leb_spec (length vs + S m) (length vs)); try lia.
        rewrite skipn_all. simpl. reflexivity.
      * replace (Nat.min (length vs + S m) (S (length vs))) with (S (length vs)) by lia. assumption.
      * apply fcalls_realize_plain.
      * apply iters_realize_plain.
Qed.
