(** C06 -- laziness of core.lpy take / filter / concat over instrumented chains. *)
From Coq Require Import List NArith Bool Arith Lia.
Import ListNotations.
From Verif Require Import C06.Base C06.LazySeq C06.ProofsBig C06.ProofsLazy C06.ProofsMap.

Section Eqs.
Variable restore : bool.
Lemma ev_CGen_take : forall f n src s, ev restore (S f) (CGen (GTake n src)) s =
            if (n =? 0)%N then (s, Ok ONil) else
            let (s1, r) := ev restore f (CToSeq src) s in
            match r with
            | Ok (OCons v rst) =>
                let (s2, m) := alloc s1 (GTake (N.pred n) (rest_norm rst)) in
                (s2, Ok (OCons v (OLazy m)))
            | Ok _ => (s1, Ok ONil)
            | e => (s1, e)
            end.
Proof. reflexivity. Qed.
Lemma ev_CGen_filter : forall f p src s, ev restore (S f) (CGen (GFilter p src)) s =
            let (s1, r) := ev restore f (CToSeq src) s in
            match r with
            | Ok (OCons v rst) =>
                let (s2, n) := alloc (bump_f s1) (GFilter p (rest_norm rst)) in
                if app_pred p v then (s2, Ok (OCons v (OLazy n))) else (s2, Ok (OLazy n))
            | Ok _ => (s1, Ok ONil)
            | e => (s1, e)
            end.
Proof. reflexivity. Qed.
Lemma ev_CUnwrap_lazy : forall f c d s, ev restore (S f) (CUnwrap c (OLazy d)) s =
            let (s1, r) := ev restore f (CCompute d) s in
            match r with
            | Ok w' => ev restore f (CUnwrap c w') s1
            | Exn => (mark_if_realized s1 c, Exn)
            | e => (s1, e)
            end.
Proof. reflexivity. Qed.
End Eqs.

(* ---------------------------------------------------------------------------------- *)
(** ** take *)

Definition take_at (k : N) (vs : list N) (b j c : nat) (s : st) : Prop :=
  chain_at vs b j s /\ get s c = Some (out_cell (GTake k (OLazy (b + j)))) /\ b + length vs < c.

(** (take 0 s) answers nil without looking at s *)
Lemma take_step_zero : forall restore f vs b j c s,
  take_at 0 vs b j c s ->
  exists s', ev restore (S (S (S f))) (CSeq c) s = (s', Ok ONil) /\ chain_at vs b j s'.
Proof.
  intros restore f vs b j c s [Hc [Hg Hout]].
  set (s1 := start_call s c).
  assert (Hg1 : get s1 c = Some (mkCell Computing 1 0)).
  { unfold s1. rewrite get_start_call, Nat.eqb_refl, Hg. reflexivity. }
  exists (set_cst (set_cst s1 c (Computed ONil)) c (Realized ONil)). split.
  - rewrite ev_CSeq, Hg. cbn [cst out_cell]. rewrite ev_CCompute, Hg. cbn [cst out_cell].
    rewrite ev_CGen_take. cbn [N.eqb]. fold s1.
    rewrite get_set_cst, Nat.eqb_refl, Hg1. cbn [option_map cst].
    rewrite ev_CUnwrap_plain by reflexivity. reflexivity.
  - eapply chain_at_frame; [exact Hc|]. intros i Hi.
    rewrite !get_set_cst. destruct (Nat.eqb_spec c (b + i)); [lia|].
    unfold s1. rewrite get_start_call. destruct (Nat.eqb_spec c (b + i)); [lia|]. reflexivity.
Qed.

Lemma take_step_cons : forall restore f k vs b j c s v,
  take_at k vs b j c s -> (k <> 0)%N -> nth_error vs j = Some v ->
  exists s',
    ev restore (S (S (S (S (S (S (S (S f)))))))) (CSeq c) s = (s', Ok (OCons v (OLazy (hlen s))))
    /\ take_at (N.pred k) vs b (S j) (hlen s) s'.
Proof.
  intros restore f k vs b j c s v [Hc [Hg Hout]] Hk Ev.
  assert (Hj : j < length vs) by (apply nth_error_Some; congruence).
  assert (Hcr : chain_ret vs b j = OCons v (OLazy (b + S j))) by (unfold chain_ret; rewrite Ev; reflexivity).
  assert (Hk0 : (k =? 0)%N = false) by (apply N.eqb_neq; assumption).
  set (s1 := start_call s c).
  assert (Hc1 : chain_at vs b j s1).
  { eapply chain_at_frame; eauto. intros i Hi. unfold s1. rewrite get_start_call.
    destruct (Nat.eqb_spec c (b + i)); [lia | reflexivity]. }
  destruct (chain_step restore f vs b j s1 Hc1 ltac:(lia)) as [Hev Hc2].
  rewrite Hcr in Hev, Hc2.
  set (s2 := realize_plain s1 (b + j) (OCons v (OLazy (b + S j)))) in *.
  assert (Hclt : c < hlen s) by (eapply get_lt; eauto).
  assert (Hh2 : hlen s2 = hlen s).
  { unfold s2. rewrite hlen_realize_plain. unfold s1. apply hlen_start_call. }
  set (r := OCons v (OLazy (hlen s))).
  set (s3 := set_heap s2 (heap s2 ++ [out_cell (GTake (N.pred k) (OLazy (b + S j)))])).
  assert (Hg3 : get s3 c = Some (mkCell Computing 1 0)).
  { unfold s3. erewrite get_app_old; [reflexivity|]. unfold s2.
    rewrite get_realize_plain_other by lia. unfold s1. rewrite get_start_call, Nat.eqb_refl, Hg. reflexivity. }
  exists (set_cst (set_cst s3 c (Computed r)) c (Realized r)). split.
  - rewrite ev_CSeq, Hg. cbn [cst out_cell]. rewrite ev_CCompute, Hg. cbn [cst out_cell].
    rewrite ev_CGen_take, Hk0, ev_CToSeq_lazy. fold s1. rewrite Hev. cbn [rest_norm].
    unfold alloc. change (set_heap s2 _) with s3.
    change (length (heap s2)) with (hlen s2). rewrite Hh2. fold r.
    rewrite get_set_cst, Nat.eqb_refl, Hg3. cbn [option_map cst].
    rewrite ev_CUnwrap_plain by reflexivity. reflexivity.
  - split; [|split].
    + eapply chain_at_frame; [exact Hc2|]. intros i Hi.
      rewrite !get_set_cst. destruct (Nat.eqb_spec c (b + i)); [lia|].
      unfold s3. pose proof (Hc2 i Hi) as Hgi. erewrite get_app_old; [|exact Hgi].
      symmetry. exact Hgi.
    + rewrite !get_set_cst. destruct (Nat.eqb_spec c (hlen s)); [lia|].
      unfold s3. replace (hlen s) with (hlen s2) by (exact Hh2). apply get_app_new.
    + pose proof (Hc (length vs) (le_n _)) as Hl. apply get_lt in Hl. unfold hlen. lia.
Qed.

Lemma take_step_nil : forall restore f k vs b c s,
  take_at k vs b (length vs) c s -> (k <> 0)%N ->
  exists s',
    ev restore (S (S (S (S (S (S (S (S f)))))))) (CSeq c) s = (s', Ok ONil)
    /\ chain_at vs b (S (length vs)) s'.
Proof.
  intros restore f k vs b c s [Hc [Hg Hout]] Hk.
  assert (Ev : nth_error vs (length vs) = None) by (apply nth_error_None; lia).
  assert (Hcr : chain_ret vs b (length vs) = ONil) by (unfold chain_ret; rewrite Ev; reflexivity).
  assert (Hk0 : (k =? 0)%N = false) by (apply N.eqb_neq; assumption).
  set (s1 := start_call s c).
  assert (Hc1 : chain_at vs b (length vs) s1).
  { eapply chain_at_frame; eauto. intros i Hi. unfold s1. rewrite get_start_call.
    destruct (Nat.eqb_spec c (b + i)); [lia | reflexivity]. }
  destruct (chain_step restore f vs b (length vs) s1 Hc1 ltac:(lia)) as [Hev Hc2].
  rewrite Hcr in Hev, Hc2.
  set (s2 := realize_plain s1 (b + length vs) ONil) in *.
  assert (Hg2 : get s2 c = Some (mkCell Computing 1 0)).
  { unfold s2. rewrite get_realize_plain_other by lia. unfold s1. rewrite get_start_call, Nat.eqb_refl, Hg. reflexivity. }
  exists (set_cst (set_cst s2 c (Computed ONil)) c (Realized ONil)). split.
  - rewrite ev_CSeq, Hg. cbn [cst out_cell]. rewrite ev_CCompute, Hg. cbn [cst out_cell].
    rewrite ev_CGen_take, Hk0, ev_CToSeq_lazy. fold s1. rewrite Hev.
    rewrite get_set_cst, Nat.eqb_refl, Hg2. cbn [option_map cst].
    rewrite ev_CUnwrap_plain by reflexivity. reflexivity.
  - eapply chain_at_frame; [exact Hc2|]. intros i Hi.
    rewrite !get_set_cst. destruct (Nat.eqb_spec c (b + i)); [lia|]. reflexivity.
Qed.

(** walking m elements of (take k chain) runs the producers of min m k source cells (plus the final
    nil cell when the walk reaches the end of the source before k runs out) *)
Lemma walk_take : forall restore f vs b m k j c s acc,
  take_at k vs b j c s -> j <= length vs ->
  exists s' cur,
    walk restore (S (S (S (S (S (S (S (S (S f))))))))) m (OLazy c) acc s =
      (s', Ok cur, rev (chain_vals vs j (Nat.min m (N.to_nat k))) ++ acc)
    /\ chain_at vs b (Nat.min (j + Nat.min m (N.to_nat k)) (S (length vs))) s'.
Proof.
  induction m; intros k j c s acc Ht Hj.
  - exists s, (OLazy c). simpl. unfold chain_vals. simpl. split; [reflexivity|].
    replace (Nat.min (j + 0) (S (length vs))) with j by lia. apply Ht.
  - rewrite walk_S, ev_CIterNext_lazy.
    destruct (N.eq_dec k 0) as [Hk|Hk].
    + subst k. destruct (take_step_zero restore (S (S (S (S (S f))))) vs b j c s Ht) as [s1 [Hev Hc1]].
      rewrite Hev. exists s1, ONil. change (N.to_nat 0) with 0. rewrite Nat.min_0_r.
      unfold chain_vals. simpl. split; [reflexivity|].
      replace (Nat.min (j + 0) (S (length vs))) with j by lia. exact Hc1.
    + assert (Hkn : N.to_nat k = S (N.to_nat (N.pred k))) by lia.
      destruct (nth_error vs j) as [v|] eqn:Ev.
      * assert (Hlt : j < length vs) by (apply nth_error_Some; congruence).
        destruct (take_step_cons restore f k vs b j c s v Ht Hk Ev) as [s1 [Hev Ht1]].
        rewrite Hev. cbn [rest_norm].
        destruct (IHm (N.pred k) (S j) (hlen s) s1 (v :: acc) Ht1 ltac:(lia)) as [s' [cur [Hw Hc']]].
        exists s', cur. rewrite Hw. rewrite Hkn. split.
        -- f_equal. simpl Nat.min. unfold chain_vals. rewrite (skipn_cons_nth vs j v Ev). simpl. rewrite <- app_assoc. reflexivity.
        -- simpl Nat.min. replace (j + S (Nat.min m (N.to_nat (N.pred k)))) with (S j + Nat.min m (N.to_nat (N.pred k))) by lia.
           exact Hc'.
      * assert (Hge : length vs <= j) by (apply nth_error_None; assumption).
        assert (j = length vs) by lia. subst j.
        destruct (take_step_nil restore f k vs b c s Ht Hk) as [s1 [Hev Hc1]].
        rewrite Hev. exists s1, ONil. split.
        -- unfold chain_vals. rewrite skipn_all. rewrite firstn_nil. reflexivity.
        -- rewrite Hkn. simpl Nat.min.
           replace (Nat.min (length vs + S (Nat.min m (N.to_nat (N.pred k)))) (S (length vs))) with (S (length vs)) by lia.
           exact Hc1.
Qed.
