(** C06 -- invariants of the multi-threaded machine over ALL interleavings:
    at most one running activation per producer, started only from Initialized; counters. *)
From Coq Require Import List NArith Bool Arith Lia.
Import ListNotations.
From Verif Require Import C06.Base C06.Machine C06.ProofsMachine.

(* ---------------------------------------------------------------------------------- *)
(** ** every scheduler label is an effect of some thread, or changes nothing that matters *)

Definition same_core (st st' : mstate) : Prop :=
  thr st' = thr st /\ mcells st' = mcells st /\ mlocks st' = mlocks st /\ glog st' = glog st.

Lemma sched_eff : forall restore l st st',
  sched restore l st = Some st' ->
  same_core st st' \/ exists t th, nth_error (thr st) t = Some th /\ eff restore t st st' th.
Proof.
  intros restore l st st' H. destruct l; simpl in H.
  - destruct (gil st); try discriminate. destruct (Nat.eqb t t0); try discriminate.
    destruct (nth_error (thr st) t) as [th|] eqn:Eth.
    + right. exists t, th. split; auto. eapply stepf_eff; eauto.
    + unfold stepf in H. rewrite Eth in H. discriminate.
  - destruct (gil st); try discriminate. destruct (nth_error (thr st) t) as [th|] eqn:Eth; try discriminate.
    destruct (negb (finished_th th) && wakeable st th); try discriminate. inversion H; subst; clear H.
    right. exists t, th. split; auto. eapply E_local; try reflexivity.
  - destruct (gil st); try discriminate. destruct (nth_error (thr st) t) as [th|]; try discriminate.
    destruct (Nat.eqb t t0); try discriminate. destruct (in_python th); try discriminate.
    inversion H; subst. left. repeat split.
  - destruct (gil st); try discriminate. destruct (Nat.eqb t t0); try discriminate.
    inversion H; subst. left. repeat split.
Qed.

Definition reachable (restore : bool) (st0 st : mstate) : Prop :=
  exists ls, run_labels restore ls st0 = Some st.

Lemma reachable_ind : forall restore (P : mstate -> Prop) st0,
  P st0 ->
  (forall st st' l, P st -> sched restore l st = Some st' -> P st') ->
  forall st, reachable restore st0 st -> P st.
Proof.
  intros restore P st0 H0 Hstep st [ls Hr]. revert st0 H0 Hr.
  induction ls; intros st0 H0 Hr; simpl in Hr.
  - inversion Hr; subst; auto.
  - destruct (sched restore a st0) eqn:E; try discriminate. eapply IHls; [|eauto]. eapply Hstep; eauto.
Qed.

(* ---------------------------------------------------------------------------------- *)
(** ** vocabulary *)

Definition is_init (x : cstate) : bool := match x with Initialized _ => true | _ => false end.

(** the counters of a cell agree with its state: started once more often than failed, unless it is
    waiting to be started (with the pinned error path a failed cell is never started again) *)
Definition cell_ok (restore : bool) (k : cell) : Prop :=
  ncalls k = ((if restore then nthrows k else 0) + (if is_init (cst k) then 0 else 1))%N.

Definition is_act (c : cid) (fr : frame) : bool :=
  match fr with KCompRet c' _ _ => Nat.eqb c c' | _ => false end.
Definition act_stk (c : cid) (l : list frame) : nat := length (filter (is_act c) l).
(** number of running activations of the producer of c, over all threads *)
Definition act (st : mstate) (c : cid) : nat := list_sum (map (fun th => act_stk c (stk th)) (thr st)).

Definition unwrapping (c : cid) (fr : frame) : bool :=
  match fr with KUnwrap c' _ | KUnwrapRet c' => Nat.eqb c c' | _ => false end.

Definition st_comp (st : mstate) (c : cid) : bool :=
  match m_cst st c with Some Computing => true | _ => false end.
Definition st_cr (st : mstate) (c : cid) : bool :=
  match m_cst st c with Some (Computed _) | Some (Realized _) => true | _ => false end.
Definition b2n (b : bool) : nat := if b then 1 else 0.

Record InvA (restore : bool) (st : mstate) : Prop := {
  ia_cells : forall c k, nth_error (mcells st) c = Some k -> cell_ok restore k;
  ia_act : forall c, act st c <= b2n (st_comp st c);
  ia_act_eq : restore = true -> forall c, b2n (st_comp st c) <= act st c;
  ia_unwrap : forall t th fr c, nth_error (thr st) t = Some th -> In fr (stk th) -> unwrapping c fr = true ->
              st_cr st c = true
}.

(* ---------------------------------------------------------------------------------- *)
(** ** counting *)

Lemma list_sum_upd : forall (l : list nat) i x y,
  nth_error l i = Some x -> list_sum (upd l i y) + x = list_sum l + y.
Proof.
  induction l; intros i x y H; destruct i; simpl in *; try discriminate.
  - inversion H; subst. lia.
  - specialize (IHl _ _ y H). lia.
Qed.

Lemma map_upd : forall A B (f : A -> B) l i x, map f (upd l i x) = upd (map f l) i (f x).
Proof. induction l; destruct i; simpl; intros; auto. f_equal. apply IHl. Qed.

Lemma act_upd : forall st st' t th th' c,
  nth_error (thr st) t = Some th -> thr st' = upd (thr st) t th' ->
  act st' c + act_stk c (stk th) = act st c + act_stk c (stk th').
Proof.
  intros. unfold act. rewrite H0, map_upd.
  apply list_sum_upd. rewrite nth_error_map, H. reflexivity.
Qed.

Lemma act_stk_core : forall c l, act_stk c l = act_stk c (core l).
Proof.
  intros. unfold act_stk, core. induction l; simpl; auto.
  destruct a; simpl; auto; destruct (Nat.eqb c c0); simpl; auto.
Qed.

Lemma nth_error_upd_inv : forall A (l : list A) i x j y,
  nth_error (upd l i x) j = Some y -> (j = i /\ y = x) \/ (j <> i /\ nth_error l j = Some y).
Proof.
  intros. rewrite nth_error_upd in H. destruct (Nat.eqb_spec i j).
  - subst. destruct (Nat.ltb j (length l)); [inversion H; auto|discriminate].
  - right. split; auto.
Qed.

Lemma In_core : forall fr l, In fr l -> plain fr = false -> In fr (core l).
Proof. intros. unfold core. apply filter_In. split; auto. rewrite H0. reflexivity. Qed.
Lemma core_In : forall fr l, In fr (core l) -> In fr l.
Proof. intros. unfold core in H. apply filter_In in H. tauto. Qed.
Lemma unwrapping_not_plain : forall c fr, unwrapping c fr = true -> plain fr = false.
Proof. intros. destruct fr; simpl in *; try discriminate; reflexivity. Qed.

(** cells after [cset] *)
Lemma nth_error_cset : forall cs c f c',
  nth_error (cset cs c f) c' = if Nat.eqb c c' then option_map f (nth_error cs c) else nth_error cs c'.
Proof.
  intros. unfold cset. destruct (nth_error cs c) eqn:E.
  - rewrite nth_error_upd. destruct (Nat.eqb_spec c c'); auto.
    assert (c < length cs) by (apply nth_error_Some; congruence).
    destruct (Nat.ltb_spec c (length cs)); try lia. reflexivity.
  - destruct (Nat.eqb_spec c c'); auto. subst. rewrite E. reflexivity.
Qed.

Lemma m_cst_eq : forall st st', mcells st' = mcells st -> forall c, m_cst st' c = m_cst st c.
Proof. intros. unfold m_cst. rewrite H. reflexivity. Qed.

Lemma list_sum_ge : forall (l : list nat) i x, nth_error l i = Some x -> x <= list_sum l.
Proof.
  induction l; intros i x H; destruct i; simpl in *; try discriminate.
  - inversion H; subst. lia.
  - specialize (IHl _ _ H). lia.
Qed.

Lemma act_stk_in : forall c g b l, In (KCompRet c g b) l -> 1 <= act_stk c l.
Proof.
  intros. unfold act_stk. induction l; simpl in *; [tauto|]. destruct H.
  - subst. simpl. rewrite Nat.eqb_refl. simpl. lia.
  - specialize (IHl H). destruct (is_act c a); simpl; lia.
Qed.

Lemma act_ge_stk : forall st t th c, nth_error (thr st) t = Some th -> act_stk c (stk th) <= act st c.
Proof.
  intros. unfold act. eapply list_sum_ge. rewrite nth_error_map, H. reflexivity.
Qed.

Lemma running_is_computing : forall restore st t th c g b,
  InvA restore st -> nth_error (thr st) t = Some th -> In (KCompRet c g b) (stk th) ->
  m_cst st c = Some Computing /\ act st c = 1.
Proof.
  intros. pose proof (act_stk_in c g b _ H1). pose proof (act_ge_stk st t th c H0).
  pose proof (ia_act _ _ H c). unfold st_comp in *.
  destruct (m_cst st c) as [[]|]; simpl in *; try lia. split; [reflexivity|lia].
Qed.

Lemma st_comp_eq : forall st st' c, m_cst st' c = m_cst st c -> st_comp st' c = st_comp st c.
Proof. intros. unfold st_comp. rewrite H. reflexivity. Qed.
Lemma st_cr_eq : forall st st' c, m_cst st' c = m_cst st c -> st_cr st' c = st_cr st c.
Proof. intros. unfold st_cr. rewrite H. reflexivity. Qed.

Lemma m_cst_cset : forall st st' c f c',
  mcells st' = cset (mcells st) c f ->
  m_cst st' c' = if Nat.eqb c c' then option_map (fun k => cst (f k)) (nth_error (mcells st) c) else m_cst st c'.
Proof.
  intros. unfold m_cst. rewrite H, nth_error_cset. destruct (Nat.eqb c c'); auto.
  destruct (nth_error (mcells st) c); reflexivity.
Qed.

(** steps that leave the cells alone *)
Lemma InvA_frames : forall restore st st' t th th',
  InvA restore st -> nth_error (thr st) t = Some th -> thr st' = upd (thr st) t th' ->
  mcells st' = mcells st ->
  (forall c, act_stk c (stk th') = act_stk c (stk th)) ->
  (forall fr c, In fr (stk th') -> unwrapping c fr = true -> In fr (stk th) \/ st_cr st c = true) ->
  InvA restore st'.
Proof.
  intros restore st st' t th th' I Hth Hthr Hc Hact Hun.
  assert (Hm : forall c, m_cst st' c = m_cst st c) by (apply m_cst_eq; auto).
  assert (Ha : forall c, act st' c = act st c).
  { intro c. pose proof (act_upd st st' t th th' c Hth Hthr). rewrite Hact in H. lia. }
  constructor.
  - intros c k Hk. rewrite Hc in Hk. eapply ia_cells; eauto.
  - intro c. rewrite Ha, (st_comp_eq _ _ _ (Hm c)). apply (ia_act _ _ I).
  - intros Hr c. rewrite Ha, (st_comp_eq _ _ _ (Hm c)). apply (ia_act_eq _ _ I Hr).
  - intros t' th'' fr c Ht' Hin Hu. rewrite (st_cr_eq _ _ _ (Hm c)). rewrite Hthr in Ht'.
    apply nth_error_upd_inv in Ht'. destruct Ht' as [[-> ->]|[Hne Ht']].
    + destruct (Hun fr c Hin Hu) as [Hold|Hcr]; auto. eapply ia_unwrap; eauto.
    + eapply ia_unwrap; eauto.
Qed.

(** the generic part of a step that rewrites cell [c] *)
Lemma InvA_cset : forall restore st st' t th th' c f k0,
  InvA restore st -> nth_error (thr st) t = Some th -> thr st' = upd (thr st) t th' ->
  mcells st' = cset (mcells st) c f -> nth_error (mcells st) c = Some k0 ->
  cell_ok restore (f k0) ->
  (forall c', c' <> c -> act_stk c' (stk th') = act_stk c' (stk th)) ->
  act st' c <= b2n (match cst (f k0) with Computing => true | _ => false end) ->
  (restore = true -> b2n (match cst (f k0) with Computing => true | _ => false end) <= act st' c) ->
  (forall fr c', In fr (stk th') -> unwrapping c' fr = true -> In fr (stk th) \/ st_cr st' c' = true) ->
  (st_cr st c = true -> st_cr st' c = true) ->
  InvA restore st'.
Proof.
  intros restore st st' t th th' c f k0 I Hth Hthr Hc Hk0 Hok Hact Hle Hge Hun Hmono.
  assert (Hm : forall c', m_cst st' c' = if Nat.eqb c c' then Some (cst (f k0)) else m_cst st c').
  { intro c'. rewrite (m_cst_cset st st' c f c' Hc), Hk0. reflexivity. }
  assert (Ha : forall c', c' <> c -> act st' c' = act st c').
  { intros c' Hne. pose proof (act_upd st st' t th th' c' Hth Hthr). rewrite (Hact c' Hne) in H. lia. }
  constructor.
  - intros c' k Hk. rewrite Hc, nth_error_cset in Hk. destruct (Nat.eqb_spec c c').
    + subst. rewrite Hk0 in Hk. simpl in Hk. inversion Hk; subst. exact Hok.
    + eapply ia_cells; eauto.
  - intro c'. destruct (Nat.eq_dec c' c).
    + subst c'. unfold st_comp. rewrite Hm, Nat.eqb_refl. exact Hle.
    + rewrite (Ha c' n). unfold st_comp. rewrite Hm. destruct (Nat.eqb_spec c c'); [congruence|]. apply (ia_act _ _ I).
  - intros Hr c'. destruct (Nat.eq_dec c' c).
    + subst c'. unfold st_comp. rewrite Hm, Nat.eqb_refl. exact (Hge Hr).
    + rewrite (Ha c' n). unfold st_comp. rewrite Hm. destruct (Nat.eqb_spec c c'); [congruence|]. apply (ia_act_eq _ _ I Hr).
  - intros t' th'' fr c' Ht' Hin Hu.
    assert (Hold : st_cr st c' = true -> st_cr st' c' = true).
    { intro. destruct (Nat.eq_dec c' c); [subst c'; auto|]. unfold st_cr in *. rewrite Hm.
      destruct (Nat.eqb_spec c c'); [congruence|]. assumption. }
    rewrite Hthr in Ht'. apply nth_error_upd_inv in Ht'. destruct Ht' as [[-> ->]|[Hne Ht']].
    + destruct (Hun fr c' Hin Hu) as [Ho|Hcr]; auto. apply Hold. eapply ia_unwrap; eauto.
    + apply Hold. eapply ia_unwrap; eauto.
Qed.

Lemma m_cst_cell : forall st c x, m_cst st c = Some x -> exists k, nth_error (mcells st) c = Some k /\ cst k = x.
Proof. intros. unfold m_cst in H. destruct (nth_error (mcells st) c); inversion H. eauto. Qed.

Ltac inv_in :=
  repeat match goal with
         | H : In _ (_ :: _) |- _ => destruct H as [H|H]; [subst|]
         | H : unwrapping _ _ = true |- _ => progress simpl in H; try discriminate H
         end.

Lemma InvA_eff : forall restore st st' t th,
  InvA restore st -> nth_error (thr st) t = Some th -> eff restore t st st' th -> InvA restore st'.
Proof.
  intros restore st st' t th I Hth E. destruct E.
  - (* local *)
    eapply InvA_frames; eauto.
    + intro c. rewrite (act_stk_core c (stk th')), (act_stk_core c (stk th)), H0. reflexivity.
    + intros fr c Hin Hu. left. apply core_In. rewrite <- H0. apply In_core; auto. eapply unwrapping_not_plain; eauto.
  - (* seq answers *)
    eapply InvA_frames; eauto.
    + intro c0. rewrite H0, H1. reflexivity.
    + intros fr c0 Hin Hu. left. rewrite H0. right. rewrite <- H1. exact Hin.
  - (* seq starts the producer *)
    destruct (m_cst_cell _ _ _ H4) as [k0 [Hk0 Hck]].
    pose proof (ia_act _ _ I c) as Hle0. unfold st_comp in Hle0. rewrite H4 in Hle0. simpl in Hle0.
    assert (Hact_c : act st' c = 1).
    { pose proof (act_upd st st' t th th' c Hth H). rewrite H0, H1 in H8.
      unfold act_stk in H8. simpl in H8. rewrite Nat.eqb_refl in H8.
      replace (is_act c fr) with false in H8 by (destruct fr; simpl in *; try discriminate; reflexivity).
      simpl in H8. lia. }
    eapply (InvA_cset restore st st' t th th' c f_start k0); eauto.
    + pose proof (ia_cells _ _ I c k0 Hk0) as Hok. unfold cell_ok in *. simpl. rewrite Hck in Hok. simpl in Hok.
      rewrite Hok. destruct restore; lia.
    + intros c' Hne. rewrite H0, H1. unfold act_stk. simpl.
      replace (is_act c' fr) with false by (destruct fr; simpl in *; try discriminate; reflexivity).
      destruct (Nat.eqb_spec c' c); [congruence|]. reflexivity.
    + simpl. lia.
    + simpl. lia.
    + intros fr0 c' Hin Hu. rewrite H1 in Hin. inv_in.
      * destruct fr0; simpl in *; discriminate.
      * left. rewrite H0. right. exact Hin.
    + unfold st_cr. rewrite H4. discriminate.
  - (* seq enters the loop with the Computed object *)
    eapply InvA_frames; eauto.
    + intro c0. rewrite H0, H1. reflexivity.
    + intros fr c0 Hin Hu. rewrite H1 in Hin. inv_in.
      * right. apply Nat.eqb_eq in Hu. subst. unfold st_cr. rewrite H3. reflexivity.
      * left. rewrite H0. right. exact Hin.
  - (* _compute_seq starts the producer *)
    destruct (m_cst_cell _ _ _ H4) as [k0 [Hk0 Hck]].
    pose proof (ia_act _ _ I c) as Hle0. unfold st_comp in Hle0. rewrite H4 in Hle0. simpl in Hle0.
    assert (Hact_c : act st' c = 1).
    { pose proof (act_upd st st' t th th' c Hth H). rewrite H0, H1 in H8.
      unfold act_stk in H8. simpl in H8. rewrite Nat.eqb_refl in H8.
      replace (is_act c fr) with false in H8 by (destruct fr; simpl in *; try discriminate; reflexivity).
      simpl in H8. lia. }
    eapply (InvA_cset restore st st' t th th' c f_start k0); eauto.
    + pose proof (ia_cells _ _ I c k0 Hk0) as Hok. unfold cell_ok in *. simpl. rewrite Hck in Hok. simpl in Hok.
      rewrite Hok. destruct restore; lia.
    + intros c' Hne. rewrite H0, H1. unfold act_stk. simpl.
      replace (is_act c' fr) with false by (destruct fr; simpl in *; try discriminate; reflexivity).
      destruct (Nat.eqb_spec c' c); [congruence|]. reflexivity.
    + simpl. lia.
    + simpl. lia.
    + intros fr0 c' Hin Hu. rewrite H1 in Hin. inv_in.
      * destruct fr0; simpl in *; discriminate.
      * left. rewrite H0. right. exact Hin.
    + unfold st_cr. rewrite H4. discriminate.
  - (* the producer returns *)
    assert (Hin0 : In (KCompRet c g b) (stk th)) by (rewrite H0; left; reflexivity).
    destruct (running_is_computing restore st t th c g b I Hth Hin0) as [Hcomp Hone].
    destruct (m_cst_cell _ _ _ Hcomp) as [k0 [Hk0 Hck]].
    assert (Hact_c : act st' c = 0).
    { pose proof (act_upd st st' t th th' c Hth H). rewrite H0, H1 in H5.
      unfold act_stk in H5. simpl in H5. rewrite Nat.eqb_refl in H5. destruct b; simpl in H5; lia. }
    eapply (InvA_cset restore st st' t th th' c (f_cst (Computed o)) k0); eauto.
    + pose proof (ia_cells _ _ I c k0 Hk0) as Hok. unfold cell_ok in *. simpl. rewrite Hck in Hok. simpl in Hok. exact Hok.
    + intros c' Hne. rewrite H0, H1. unfold act_stk. simpl.
      destruct (Nat.eqb_spec c' c); [congruence|]. destruct b; reflexivity.
    + simpl. lia.
    + simpl. lia.
    + intros fr0 c' Hin Hu. rewrite H1 in Hin. destruct b.
      * inv_in.
        -- right. apply Nat.eqb_eq in Hu. subst. unfold st_cr.
           rewrite (m_cst_cset st st' c (f_cst (Computed o)) c H2), Nat.eqb_refl, Hk0. reflexivity.
        -- left. rewrite H0. right. exact Hin.
      * left. rewrite H0. right. exact Hin.
    + unfold st_cr. rewrite Hcomp. discriminate.
  - (* the producer raises *)
    assert (Hin0 : In (KCompRet c g b) (stk th)) by (rewrite H0; left; reflexivity).
    destruct (running_is_computing restore st t th c g b I Hth Hin0) as [Hcomp Hone].
    destruct (m_cst_cell _ _ _ Hcomp) as [k0 [Hk0 Hck]].
    assert (Hact_c : act st' c = 0).
    { pose proof (act_upd st st' t th th' c Hth H). rewrite H0, H1 in H5.
      unfold act_stk in H5. simpl in H5. rewrite Nat.eqb_refl in H5. simpl in H5. lia. }
    eapply (InvA_cset restore st st' t th th' c _ k0); eauto.
    + pose proof (ia_cells _ _ I c k0 Hk0) as Hok. unfold cell_ok in *. simpl. rewrite Hck in Hok. simpl in Hok.
      destruct restore; simpl; lia.
    + intros c' Hne. rewrite H0, H1. unfold act_stk. simpl.
      destruct (Nat.eqb_spec c' c); [congruence|]. reflexivity.
    + lia.
    + intros Hr. subst restore. simpl. lia.
    + intros fr0 c' Hin Hu. left. rewrite H0. right. rewrite <- H1. exact Hin.
    + unfold st_cr. rewrite Hcomp. discriminate.
  - (* the loop calls _compute_seq on the wrapped lazy seq *)
    eapply InvA_frames; eauto.
    + intro c0. rewrite H0, H1. reflexivity.
    + intros fr c0 Hin Hu. rewrite H1 in Hin. inv_in.
      * right. apply Nat.eqb_eq in Hu. subst. eapply (ia_unwrap _ _ I t th (KUnwrap c (OLazy d)) c); eauto.
        -- rewrite H0. left. reflexivity.
        -- simpl. apply Nat.eqb_refl.
      * left. rewrite H0. right. exact Hin.
  - (* ... and gets the next wrapped object *)
    eapply InvA_frames; eauto.
    + intro c0. rewrite H0, H1. reflexivity.
    + intros fr c0 Hin Hu. rewrite H1 in Hin. inv_in.
      * right. apply Nat.eqb_eq in Hu. subst. eapply (ia_unwrap _ _ I t th (KUnwrapRet c) c); eauto.
        -- rewrite H0. left. reflexivity.
        -- simpl. apply Nat.eqb_refl.
      * left. rewrite H0. right. exact Hin.
  - (* ... or an exception *)
    eapply InvA_frames; eauto.
    + intro c0. rewrite H0, H1. reflexivity.
    + intros fr c0 Hin Hu. left. rewrite H0. right. rewrite <- H1. exact Hin.
  - (* the loop is over: Realized *)
    assert (Hcr : st_cr st c = true).
    { eapply (ia_unwrap _ _ I t th (KUnwrap c w) c); eauto. rewrite H0. left. reflexivity. simpl. apply Nat.eqb_refl. }
    assert (Hex : exists k0, nth_error (mcells st) c = Some k0 /\ is_init (cst k0) = false /\ st_comp st c = false).
    { unfold st_cr, st_comp, m_cst in *. destruct (nth_error (mcells st) c) as [k0|]; simpl in *; try discriminate.
      exists k0. destruct (cst k0); try discriminate; auto. }
    destruct Hex as [k0 [Hk0 [Hni Hnc]]].
    assert (Hact_c : act st' c = 0).
    { pose proof (act_upd st st' t th th' c Hth H). rewrite H0, H1 in H6.
      unfold act_stk in H6. simpl in H6. pose proof (ia_act _ _ I c). rewrite Hnc in H7. simpl in H7.
      unfold act_stk in *. lia. }
    eapply (InvA_cset restore st st' t th th' c _ k0); eauto.
    + pose proof (ia_cells _ _ I c k0 Hk0) as Hok. unfold cell_ok in *. simpl. rewrite Hni in Hok. exact Hok.
    + intros c' Hne. rewrite H0, H1. reflexivity.
    + simpl. lia.
    + simpl. lia.
    + intros fr0 c' Hin Hu. left. rewrite H0. right. rewrite <- H1. exact Hin.
    + intros _. unfold st_cr. rewrite (m_cst_cset st st' c _ c H3), Nat.eqb_refl, Hk0. reflexivity.
  - (* Sequence.__call__ allocates the next cell *)
    assert (Hm : forall c, m_cst st' c = if Nat.ltb c (length (mcells st)) then m_cst st c
                                         else if Nat.eqb c (length (mcells st)) then Some (Initialized g) else None).
    { intro c. unfold m_cst. rewrite H2. destruct (Nat.ltb_spec c (length (mcells st))).
      - rewrite nth_error_app1 by lia. reflexivity.
      - rewrite nth_error_app2 by lia. destruct (Nat.eqb_spec c (length (mcells st))).
        + subst. rewrite Nat.sub_diag. reflexivity.
        + destruct (c - length (mcells st)) eqn:E; [lia|]. simpl. destruct n0; reflexivity. }
    assert (Hnone : forall c, length (mcells st) <= c -> m_cst st c = None).
    { intros. unfold m_cst. replace (nth_error (mcells st) c) with (@None cell); auto.
      symmetry. apply nth_error_None. lia. }
    assert (Ha : forall c, act st' c = act st c).
    { intro c. pose proof (act_upd st st' t th th' c Hth H). rewrite H0, H1 in H5. unfold act_stk in *. simpl in H5. lia. }
    assert (Hcomp : forall c, st_comp st' c = st_comp st c).
    { intro c. unfold st_comp. rewrite Hm. destruct (Nat.ltb_spec c (length (mcells st))); auto.
      rewrite (Hnone c H5). destruct (Nat.eqb c (length (mcells st))); reflexivity. }
    constructor.
    + intros c kk Hk. rewrite H2 in Hk. destruct (Nat.lt_ge_cases c (length (mcells st))).
      * rewrite nth_error_app1 in Hk by lia. eapply ia_cells; eauto.
      * rewrite nth_error_app2 in Hk by lia. destruct (c - length (mcells st)); simpl in Hk.
        -- inversion Hk; subst. unfold cell_ok. simpl. destruct restore; reflexivity.
        -- destruct n; discriminate.
    + intro c. rewrite Ha, Hcomp. apply (ia_act _ _ I).
    + intros Hr c. rewrite Ha, Hcomp. apply (ia_act_eq _ _ I Hr).
    + intros t' th'' fr c Ht' Hin Hu.
      assert (Hold : st_cr st c = true -> st_cr st' c = true).
      { intro Hc. unfold st_cr in *. rewrite Hm. destruct (Nat.ltb_spec c (length (mcells st))); auto.
        rewrite (Hnone c H5) in Hc. discriminate. }
      rewrite H in Ht'. apply nth_error_upd_inv in Ht'. destruct Ht' as [[-> ->]|[Hne Ht']].
      * apply Hold. eapply ia_unwrap; eauto. rewrite H0. right. rewrite <- H1. exact Hin.
      * apply Hold. eapply ia_unwrap; eauto.
Qed.

Lemma InvA_same : forall restore st st', InvA restore st -> same_core st st' -> InvA restore st'.
Proof.
  intros restore st st' I [Ht [Hc _]].
  assert (Hm : forall c, m_cst st' c = m_cst st c) by (apply m_cst_eq; auto).
  assert (Ha : forall c, act st' c = act st c) by (intro; unfold act; rewrite Ht; reflexivity).
  constructor.
  - intros c k Hk. rewrite Hc in Hk. eapply ia_cells; eauto.
  - intro c. rewrite Ha, (st_comp_eq _ _ _ (Hm c)). apply (ia_act _ _ I).
  - intros Hr c. rewrite Ha, (st_comp_eq _ _ _ (Hm c)). apply (ia_act_eq _ _ I Hr).
  - intros t th fr c Hth Hin Hu. rewrite (st_cr_eq _ _ _ (Hm c)). rewrite Ht in Hth. eapply ia_unwrap; eauto.
Qed.

Lemma InvA_sched : forall restore l st st', InvA restore st -> sched restore l st = Some st' -> InvA restore st'.
Proof.
  intros. destruct (sched_eff _ _ _ _ H0) as [Hs|[t [th [Hth E]]]].
  - eapply InvA_same; eauto.
  - eapply InvA_eff; eauto.
Qed.

(** initial states: every cell waits to be started, nobody is inside seq.rs *)
Definition fresh_state (st : mstate) : Prop :=
  (forall c k, nth_error (mcells st) c = Some k -> is_init (cst k) = true /\ ncalls k = 0%N /\ nthrows k = 0%N) /\
  (forall t th, nth_error (thr st) t = Some th -> stk th = []) /\
  (forall c l, nth_error (mlocks st) c = Some l -> l = None) /\
  length (mlocks st) = length (mcells st) /\ glog st = [].

Lemma fresh_init_m : forall scripts its nev roots progs, fresh_state (init_m scripts its nev roots progs).
Proof.
  intros. unfold fresh_state, init_m. simpl. repeat split.
  - apply nth_error_In in H. apply in_app_or in H. destruct H as [H|H]; apply in_map_iff in H;
      destruct H as [x [Hx _]]; subst; reflexivity.
  - apply nth_error_In in H. apply in_app_or in H. destruct H as [H|H]; apply in_map_iff in H;
      destruct H as [x [Hx _]]; subst; reflexivity.
  - apply nth_error_In in H. apply in_app_or in H. destruct H as [H|H]; apply in_map_iff in H;
      destruct H as [x [Hx _]]; subst; reflexivity.
  - intros t th H. apply nth_error_In in H. apply in_map_iff in H. destruct H as [x [Hx _]]. subst. reflexivity.
  - intros c l H. apply nth_error_In in H. apply repeat_spec in H. exact H.
  - rewrite repeat_length, app_length, !map_length, seq_length. reflexivity.
Qed.

Lemma list_sum_zero : forall (l : list nat), (forall x, In x l -> x = 0) -> list_sum l = 0.
Proof. induction l; simpl; intros; auto. rewrite (H a) by auto. rewrite IHl; auto. Qed.

Lemma InvA_fresh : forall restore st, fresh_state st -> InvA restore st.
Proof.
  intros restore st [Hc [Ht _]].
  assert (Ha : forall c, act st c = 0).
  { intro c. unfold act. apply list_sum_zero. intros x Hx. apply in_map_iff in Hx. destruct Hx as [th [Hx Hin]].
    apply In_nth_error in Hin. destruct Hin as [t Hin]. rewrite (Ht t th Hin) in Hx. subst. reflexivity. }
  constructor.
  - intros c k Hk. destruct (Hc c k Hk) as [Hi [Hn Hth]]. unfold cell_ok. rewrite Hi, Hn, Hth. destruct restore; reflexivity.
  - intro c. rewrite Ha. lia.
  - intros _ c. rewrite Ha. unfold st_comp, m_cst. destruct (nth_error (mcells st) c) as [k|] eqn:E; simpl; auto.
    destruct (Hc c k E) as [Hi _]. destruct (cst k); simpl in *; try discriminate; auto.
  - intros t th fr c Hth Hin. rewrite (Ht t th Hth) in Hin. destruct Hin.
Qed.

Lemma InvA_reachable : forall restore st0 st, fresh_state st0 -> reachable restore st0 st -> InvA restore st.
Proof.
  intros restore st0 st Hf Hr. eapply (reachable_ind restore (InvA restore)); eauto.
  - apply InvA_fresh; auto.
  - intros. eapply InvA_sched; eauto.
Qed.

(** AT MOST ONCE.  In every state reachable under ANY schedule (pre-emption at arbitrary points
    included), for every cell:
    - the generator has been called at most once more than it has raised (never more than once with the
      pinned error path, where a failed cell is never called again);
    - at most one activation of it is running, over all threads, and then the cell is Computing. *)
Theorem producer_at_most_once : forall restore st0 st,
  fresh_state st0 -> reachable restore st0 st ->
  forall c k, nth_error (mcells st) c = Some k ->
    (ncalls k <= 1 + nthrows k)%N /\ (restore = false -> (ncalls k <= 1)%N) /\
    act st c <= 1 /\
    (forall t th g b, nth_error (thr st) t = Some th -> In (KCompRet c g b) (stk th) -> cst k = Computing).
Proof.
  intros restore st0 st Hf Hr c k Hk. pose proof (InvA_reachable _ _ _ Hf Hr) as I.
  pose proof (ia_cells _ _ I c k Hk) as Hok. unfold cell_ok in Hok.
  repeat split.
  - destruct restore, (is_init (cst k)); lia.
  - intros ->. destruct (is_init (cst k)); lia.
  - pose proof (ia_act _ _ I c). destruct (st_comp st c); simpl in *; lia.
  - intros t th g b Hth Hin. destruct (running_is_computing _ _ _ _ _ _ _ I Hth Hin) as [Hc _].
    unfold m_cst in Hc. rewrite Hk in Hc. simpl in Hc. inversion Hc. reflexivity.
Qed.
