(** C06 -- small-step model of several Python threads using LazySeq cells of seq.rs.

    Two kinds of lock, transcribed from the code:
    - every cell has a RE-ENTRANT mutex (`parking_lot::ReentrantMutex`): `seq` takes it for its
      whole body, `_compute_seq` takes it again and keeps it ACROSS the call of the generator;
    - the GIL.  All of seq.rs runs with the GIL held (`#[pymethods]` taking `py: Python`, no
      `allow_threads` anywhere), so one step below = the Rust code between two calls back into
      Python.  `self.lock.lock()` blocks the OS thread WITHOUT releasing the GIL.  Python code (a
      producer, the consumer's own code between two operations) may lose the GIL at any point:
      scripts say where ([AYield], an [AWait] on an unset event), consumers between operations.

    A step of thread [t] needs the GIL.  A thread that finds a cell mutex taken by another thread
    cannot step -- and keeps the GIL. *)
From Coq Require Import List NArith Bool Arith Lia.
Import ListNotations.
From Verif Require Export C06.Base.

Definition tid := nat.

(** consumer operations of a thread (its own register file; register 0.. = the shared roots) *)
Inductive cop :=
| CFirst (r : nat) | CRest (r : nat) | CNext (r : nat) | CSeqOp (r : nat) | CIter (r : nat) (n : nat)
| CWait (e : nat) | CSet (e : nat).

Inductive topk := TFirst | TRest | TSeqOp | TNext | TIter (n : nat) (acc : list N).

Inductive frame :=
| KSeq (c : cid)                    (* call LazySeq.seq on c *)
| KUnwrap (c : cid) (w : obj)       (* inside seq(c): mutex held; head of `loop { if wrapped is a LazySeq ...` *)
| KUnwrapRet (c : cid)              (* inside seq(c): mutex held; waiting for wrapped._compute_seq() *)
| KComp (c : cid)                   (* call LazySeq._compute_seq on c (from the loop of another cell's seq) *)
| KCompRet (c : cid) (g : gen) (inseq : bool)
                                    (* inside _compute_seq(c): mutex held, generator g is running.  inseq = the call came
                                       from seq(c), which holds the mutex once more and goes on with the loop afterwards *)
| KScript (l : list action)         (* a scripted generator *)
| KTouched (d : cid) (l : list action)
| KPull (it : nat)                  (* Sequence.__call__ *)
| KIter (cur : obj) (n : nat) (acc : list N)   (* consumer: SeqIterator loop *)
| KTop (k : topk) (c : cid).        (* consumer: waiting for seq(c) *)

Record thread := mkT {
  stk : list frame;
  rv : option res;                  (* a callee has just returned this to the top frame *)
  prog : list cop;
  regs : list obj;
  tobs : list obs;                  (* newest first *)
  tseen : list (cid * bool);        (* newest first *)
  parked : option nat               (* waiting, without the GIL, for this event *)
}.

Record mstate := mkM {
  mcells : list cell;
  mlocks : list (option (tid * nat));     (* owner and re-entrancy depth - 1 *)
  miters : list iter;
  mevs : list bool;
  mtick : N;
  gil : option tid;
  thr : list thread;
  glog : list (cid * obj)                 (* results of seq(c) returned to a consumer (not to a generator) *)
}.

(* ---- setters ---- *)
Definition set_thr (st : mstate) (t : tid) (th : thread) : mstate :=
  mkM (mcells st) (mlocks st) (miters st) (mevs st) (mtick st) (gil st) (upd (thr st) t th) (glog st).
Definition set_cells (st : mstate) (cs : list cell) : mstate :=
  mkM cs (mlocks st) (miters st) (mevs st) (mtick st) (gil st) (thr st) (glog st).
Definition set_locks (st : mstate) (ls : list (option (tid * nat))) : mstate :=
  mkM (mcells st) ls (miters st) (mevs st) (mtick st) (gil st) (thr st) (glog st).
Definition set_gil (st : mstate) (g : option tid) : mstate :=
  mkM (mcells st) (mlocks st) (miters st) (mevs st) (mtick st) g (thr st) (glog st).
Definition set_mev (st : mstate) (e : nat) : mstate :=
  mkM (mcells st) (mlocks st) (miters st) (upd (mevs st) e true) (mtick st) (gil st) (thr st) (glog st).
Definition set_miter (st : mstate) (i : nat) (x : iter) : mstate :=
  mkM (mcells st) (mlocks st) (upd (miters st) i x) (mevs st) (mtick st) (gil st) (thr st) (glog st).
Definition bump_mtick (st : mstate) : mstate :=
  mkM (mcells st) (mlocks st) (miters st) (mevs st) (N.succ (mtick st)) (gil st) (thr st) (glog st).
Definition add_log (st : mstate) (c : cid) (o : obj) : mstate :=
  mkM (mcells st) (mlocks st) (miters st) (mevs st) (mtick st) (gil st) (thr st) ((c, o) :: glog st).
Definition malloc (st : mstate) (g : gen) : mstate * cid :=
  (mkM (mcells st ++ [mkCell (Initialized g) 0 0]) (mlocks st ++ [None]) (miters st) (mevs st) (mtick st)
       (gil st) (thr st) (glog st), length (mcells st)).

Definition cell_set (st : mstate) (c : cid) (f : cell -> cell) : mstate :=
  match nth_error (mcells st) c with
  | Some k => set_cells st (upd (mcells st) c (f k))
  | None => st
  end.
Definition m_set_cst (st : mstate) (c : cid) (x : cstate) : mstate :=
  cell_set st c (fun k => mkCell x (ncalls k) (nthrows k)).
Definition m_start (st : mstate) (c : cid) : mstate :=
  cell_set st c (fun k => mkCell Computing (N.succ (ncalls k)) (nthrows k)).
Definition m_throw (st : mstate) (c : cid) (x : cstate) : mstate :=
  cell_set st c (fun k => mkCell x (ncalls k) (N.succ (nthrows k))).
Definition m_cst (st : mstate) (c : cid) : option cstate := option_map cst (nth_error (mcells st) c).

(* ---- the re-entrant mutex ---- *)
Definition can_lock (st : mstate) (c : cid) (t : tid) : bool :=
  match nth_error (mlocks st) c with
  | Some None => true
  | Some (Some (t', _)) => Nat.eqb t' t
  | None => false
  end.
Definition acquire (st : mstate) (c : cid) (t : tid) : mstate :=
  match nth_error (mlocks st) c with
  | Some None => set_locks st (upd (mlocks st) c (Some (t, 0)))
  | Some (Some (t', n)) => set_locks st (upd (mlocks st) c (Some (t', S n)))
  | None => st
  end.
Definition release (st : mstate) (c : cid) : mstate :=
  match nth_error (mlocks st) c with
  | Some (Some (t', S n)) => set_locks st (upd (mlocks st) c (Some (t', n)))
  | Some (Some (_, O)) => set_locks st (upd (mlocks st) c None)
  | _ => st
  end.

(* ---- thread field updates ---- *)
Definition th_set (th : thread) (k : list frame) (r : option res) : thread :=
  mkT k r (prog th) (regs th) (tobs th) (tseen th) (parked th).
Definition th_obs (th : thread) (b : obs) : thread :=
  mkT (stk th) (rv th) (prog th) (regs th) (b :: tobs th) (tseen th) (parked th).
Definition th_reg (th : thread) (o : obj) : thread :=
  mkT (stk th) (rv th) (prog th) (regs th ++ [o]) (tobs th) (tseen th) (parked th).
Definition th_prog (th : thread) (p : list cop) : thread :=
  mkT (stk th) (rv th) p (regs th) (tobs th) (tseen th) (parked th).
Definition th_seen (th : thread) (d : cid) (b : bool) : thread :=
  mkT (stk th) (rv th) (prog th) (regs th) (tobs th) ((d, b) :: tseen th) (parked th).
Definition th_park (th : thread) (e : option nat) : thread :=
  mkT (stk th) (rv th) (prog th) (regs th) (tobs th) (tseen th) e.

Definition gen_frame (g : gen) : option frame :=
  match g with
  | GScript l => Some (KScript l)
  | GSeqIt it => Some (KPull it)
  | _ => None                       (* the core.lpy generators are modelled in LazySeq.v only *)
  end.

(** frames of Python code and of calls that have not taken a mutex (yet): everything except the three
    kinds of frame that sit inside seq / _compute_seq with the cell mutex held *)
Definition plain (fr : frame) : bool :=
  match fr with KCompRet _ _ _ | KUnwrap _ _ | KUnwrapRet _ => false | _ => true end.

(** seq(c) returns [o] normally to the frames [k] of thread [th].  A return to a CONSUMER -- the thread is
    then not inside any other seq / _compute_seq, i.e. not inside the realization of some cell -- is logged
    (ghost state for the agreement theorem). *)
Definition seq_return (st : mstate) (t : tid) (th : thread) (k : list frame) (c : cid) (o : obj) : mstate :=
  let st1 := set_thr st t (th_set th k (Some (Ok o))) in
  if forallb plain k then add_log st1 c o else st1.

(** a consumer operation whose argument is not a LazySeq needs no call *)
Definition kind_obs (o : obj) : obs := BKind (kind_of o).

Section Step.
Variable restore : bool.

(** start the consumer operation [op] (the thread is between operations) *)
Definition start_op (st : mstate) (t : tid) (th : thread) (op : cop) (p : list cop) : option mstate :=
  let th := th_prog th p in
  let reg r := nth r (regs th) ONil in
  match op with
  | CWait e =>
      if nth e (mevs st) false then Some (set_thr st t th)
      else Some (set_gil (set_thr st t (th_park (th_prog th (op :: p)) (Some e))) None)
  | CSet e => Some (set_mev (set_thr st t th) e)
  | CFirst r =>
      match reg r with
      | OLazy c => Some (set_thr st t (th_set th [KSeq c; KTop TFirst c] None))
      | OCons v _ => Some (set_thr st t (th_obs th (BVal (Some v))))
      | _ => Some (set_thr st t (th_obs th (BVal None)))
      end
  | CRest r =>
      match reg r with
      | OLazy c => Some (set_thr st t (th_set th [KSeq c; KTop TRest c] None))
      | OCons _ rst => Some (set_thr st t (th_obs (th_reg th (rest_norm rst)) (kind_obs (rest_norm rst))))
      | _ => Some (set_thr st t (th_obs (th_reg th OEmpty) (kind_obs OEmpty)))
      end
  | CSeqOp r =>
      match reg r with
      | OLazy c => Some (set_thr st t (th_set th [KSeq c; KTop TSeqOp c] None))
      | o => Some (set_thr st t (th_obs (th_reg th (seq_or_nil o)) (kind_obs (seq_or_nil o))))
      end
  | CNext r =>
      match reg r with
      | OLazy c => Some (set_thr st t (th_set th [KSeq c; KTop TNext c] None))
      | OCons _ rst =>
          match rest_norm rst with
          | OLazy d => Some (set_thr st t (th_set th [KSeq d; KTop TSeqOp d] None))
          | o => Some (set_thr st t (th_obs (th_reg th (seq_or_nil o)) (kind_obs (seq_or_nil o))))
          end
      | _ => Some (set_thr st t (th_obs (th_reg th ONil) (kind_obs ONil)))
      end
  | CIter r n =>
      match reg r with
      | ONil => Some (set_thr st t (th_obs th (BExn 3)))
      | o => Some (set_thr st t (th_set th [KIter o n []] None))
      end
  end.

(** the consumer frame [KTop k c] receives the result of seq(c) *)
Definition top_ret (st : mstate) (t : tid) (th : thread) (rest : list frame) (k : topk) (c : cid) (r : res)
  : option mstate :=
  let th0 := th_set th rest None in
  match r with
  | Ok o =>
      match k with
      | TFirst => Some (set_thr st t (th_obs th0 (match o with OCons v _ => BVal (Some v) | _ => BVal None end)))
      | TRest =>
          let o' := match o with OCons _ rst => rest_norm rst | _ => OEmpty end in
          Some (set_thr st t (th_obs (th_reg th0 o') (kind_obs o')))
      | TSeqOp => Some (set_thr st t (th_obs (th_reg th0 o) (kind_obs o)))
      | TNext =>
          let o' := match o with OCons _ rst => rest_norm rst | _ => OEmpty end in
          match o' with
          | OLazy d => Some (set_thr st t (th_set th (KSeq d :: KTop TSeqOp d :: rest) None))
          | _ => Some (set_thr st t (th_obs (th_reg th0 (seq_or_nil o')) (kind_obs (seq_or_nil o'))))
          end
      | TIter n acc =>
          match o with
          | OCons v rst => Some (set_thr st t (th_set th (KIter (rest_norm rst) n (v :: acc) :: rest) None))
          | _ => Some (set_thr st t (th_obs th0 (BList (rev acc))))
          end
      end
  | Exn =>
      match k with
      | TFirst | TIter _ _ => Some (set_thr st t (th_obs th0 (BExn 1)))
      | _ => Some (set_thr st t (th_obs (th_reg th0 ONil) (BExn 1)))
      end
  | _ => None
  end.

(** One step of thread [t], which holds the GIL.  [None]: it cannot move (finished, parked,
    blocked on a cell mutex, or a malformed program). *)
Definition stepf (t : tid) (st : mstate) : option mstate :=
  match nth_error (thr st) t with
  | None => None
  | Some th =>
    match rv th, stk th with
    (* ---------- between two consumer operations ---------- *)
    | None, [] =>
        match prog th with
        | [] => None
        | op :: p => start_op st t th op p
        end
    (* ---------- LazySeq.seq ---------- *)
    | None, KSeq c :: k =>
        if can_lock st c t then
          match m_cst st c with
          | Some (Realized o) => Some (seq_return st t th k c o)
          | Some Computing => Some (seq_return st t th k c ONil)
              (* _compute_seq answers None for Computing; the state is then not Computed: `_ => Ok(None)` *)
          | Some (Computed o) => Some (set_thr (acquire st c t) t (th_set th (KUnwrap c o :: k) None))
          | Some (Initialized g) =>
              match gen_frame g with
              | Some fr =>
                  Some (set_thr (m_start (acquire (acquire st c t) c t) c) t
                                (th_set th (fr :: KCompRet c g true :: k) None))
              | None => None
              end
          | None => None
          end
        else None
    | None, KUnwrap c w :: k =>
        match w with
        | OLazy d => Some (set_thr st t (th_set th (KComp d :: KUnwrapRet c :: k) None))
        | _ =>
            let o := seq_or_nil w in
            Some (seq_return (release (m_set_cst st c (Realized o)) c) t th k c o)
        end
    | Some r, KUnwrapRet c :: k =>
        match r with
        | Ok w' => Some (set_thr st t (th_set th (KUnwrap c w' :: k) None))
        | Exn => Some (set_thr (release st c) t (th_set th k (Some Exn)))
        | _ => None
        end
    (* ---------- LazySeq._compute_seq called from the loop ---------- *)
    | None, KComp c :: k =>
        if can_lock st c t then
          match m_cst st c with
          | Some Computing => Some (set_thr st t (th_set th k (Some (Ok ONil))))
          | Some (Computed o) | Some (Realized o) => Some (set_thr st t (th_set th k (Some (Ok o))))
          | Some (Initialized g) =>
              match gen_frame g with
              | Some fr => Some (set_thr (m_start (acquire st c t) c) t (th_set th (fr :: KCompRet c g false :: k) None))
              | None => None
              end
          | None => None
          end
        else None
    | Some r, KCompRet c g inseq :: k =>
        match r with
        | Ok o =>
            let st1 := release (m_set_cst st c (Computed o)) c in
            if inseq
            then Some (set_thr st1 t (th_set th (KUnwrap c o :: k) None))
                 (* back in seq(c), same stretch of Rust code: the state is the Computed(obj) just stored *)
            else Some (set_thr st1 t (th_set th k (Some (Ok o))))
        | Exn =>
            let st1 := release (m_throw st c (if restore then Initialized g else Computing)) c in
            Some (set_thr (if inseq then release st1 c else st1) t (th_set th k (Some Exn)))
        | _ => None
        end
    (* ---------- generators ---------- *)
    | None, KScript l :: k =>
        match l with
        | [] => Some (set_thr st t (th_set th k (Some (Ok ONil))))
        | AYield :: l' => Some (set_gil (set_thr st t (th_set th (KScript l' :: k) None)) None)
        | AWait e :: l' =>
            if nth e (mevs st) false then Some (set_thr st t (th_set th (KScript l' :: k) None))
            else Some (set_gil (set_thr st t (th_park th (Some e))) None)
        | ASet e :: l' => Some (set_mev (set_thr st t (th_set th (KScript l' :: k) None)) e)
        | ATouch d :: l' => Some (set_thr st t (th_set th (KSeq d :: KTouched d l' :: k) None))
        | ARet o :: _ => Some (set_thr st t (th_set th k (Some (Ok o))))
        | ARetTick r :: _ => Some (bump_mtick (set_thr st t (th_set th k (Some (Ok (OCons (mtick st) r))))))
        | AThrow :: _ => Some (set_thr st t (th_set th k (Some Exn)))
        end
    | Some r, KTouched d l :: k =>
        match r with
        | Ok o => Some (set_thr st t (th_seen (th_set th (KScript l :: k) None) d (is_nil o)))
        | Exn => Some (set_thr st t (th_set th k (Some Exn)))
        | _ => None
        end
    | None, KPull it :: k =>
        match nth_error (miters st) it with
        | Some (ItList []) => Some (set_thr st t (th_set th k (Some (Ok OEmpty))))
        | Some (ItList (IVal v :: l)) =>
            let (st1, n) := malloc (set_miter st it (ItList l)) (GSeqIt it) in
            Some (set_thr st1 t (th_set th k (Some (Ok (OCons v (OLazy n))))))
        | Some (ItList (IRaise :: l)) => Some (set_thr (set_miter st it (ItList l)) t (th_set th k (Some Exn)))
        | _ => None
        end
    (* ---------- consumer frames ---------- *)
    | None, KIter cur n acc :: k =>
        match n with
        | O => Some (set_thr st t (th_obs (th_set th k None) (BList (rev acc))))
        | S m =>
            match cur with
            | OLazy c => Some (set_thr st t (th_set th (KSeq c :: KTop (TIter m acc) c :: k) None))
            | OCons v rst => Some (set_thr st t (th_set th (KIter (rest_norm rst) m (v :: acc) :: k) None))
            | _ => Some (set_thr st t (th_obs (th_set th k None) (BList (rev acc))))
            end
        end
    | Some r, KTop tk c :: k => top_ret st t th k tk c r
    | _, _ => None
    end
  end.

(* ---------------------------------------------------------------------------------- *)
(** ** Scheduling *)

Inductive label :=
| LRun (t : tid)        (* the GIL holder takes a step *)
| LAcq (t : tid)        (* a thread that wants the GIL takes it when it is free *)
| LRel (t : tid)        (* Python code is pre-empted: a consumer between two of its operations, a scripted
                           generator before any of its actions *)
| LPreempt (t : tid).   (* NOT a behaviour of the code: the GIL holder gives the GIL up at an arbitrary
                           point, even inside seq.rs or while blocked on a cell mutex.  Safety theorems are
                           proved with it (so they do not rest on where the GIL is released); liveness
                           statements exclude it ([faithful]). *)

Definition finished_th (th : thread) : bool :=
  match stk th, rv th, prog th with [], None, [] => true | _, _, _ => false end.

Definition wakeable (st : mstate) (th : thread) : bool :=
  match parked th with
  | Some e => nth e (mevs st) false
  | None => true
  end.

(** the thread is executing Python code (not seq.rs): between consumer operations, or inside a scripted generator *)
Definition in_python (th : thread) : bool :=
  match rv th, stk th with
  | None, [] => true
  | None, KScript _ :: _ => true
  | None, KPull _ :: _ => true          (* the scripted iterator's __next__ is Python code *)
  | _, _ => false
  end.

Definition sched (l : label) (st : mstate) : option mstate :=
  match l with
  | LRun t =>
      match gil st with
      | Some t' => if Nat.eqb t t' then stepf t st else None
      | None => None
      end
  | LAcq t =>
      match gil st, nth_error (thr st) t with
      | None, Some th =>
          if negb (finished_th th) && wakeable st th
          then Some (set_gil (set_thr st t (th_park th None)) (Some t))
          else None
      | _, _ => None
      end
  | LRel t =>
      match gil st, nth_error (thr st) t with
      | Some t', Some th =>
          if Nat.eqb t t' then
            if in_python th then Some (set_gil st None) else None
          else None
      | _, _ => None
      end
  | LPreempt t =>
      match gil st with
      | Some t' => if Nat.eqb t t' then Some (set_gil st None) else None
      | None => None
      end
  end.

Fixpoint run_labels (ls : list label) (st : mstate) : option mstate :=
  match ls with
  | [] => Some st
  | l :: t => match sched l st with Some st' => run_labels t st' | None => None end
  end.

Definition faithful (l : label) : bool := match l with LPreempt _ => false | _ => true end.

End Step.

(* ---------------------------------------------------------------------------------- *)
(** ** Initial states *)

Definition init_thread (roots : list obj) (p : list cop) : thread := mkT [] None p roots [] [] None.

Definition init_m (scripts : list (list action)) (its : list iter) (nev : nat)
                  (roots : list obj) (progs : list (list cop)) : mstate :=
  mkM (map (fun l => mkCell (Initialized (GScript l)) 0 0) scripts ++
       map (fun it => mkCell (Initialized (GSeqIt it)) 0 0) (seq 0 (length its)))
      (repeat None (length scripts + length its))
      its (repeat false nev) 0 None (map (init_thread roots) progs) [].

Definition all_finished (st : mstate) : bool := forallb finished_th (thr st).

(* ---------------------------------------------------------------------------------- *)
(** ** Exhaustive exploration (used by the correspondence run, not by the proofs)

    Between two scheduling points the GIL holder runs alone, so it is enough to branch where the
    GIL is free.  A segment = LAcq t, then LRun t until t gives the GIL up; Python code gives it up
    wherever it can (LRel after every consumer operation and before every action of a scripted
    generator), which over-approximates CPython's pre-emption (switch interval). *)
Inductive outcome :=
| Done (obs : list (list obs)) (counts : list N) (throws : list N) (seen : list (list (cid * bool)))
| Wedged
| ExploreFuel.

Section Explore.
Variable restore : bool.

(** run t (holding the GIL) until it no longer holds it; [None] = it can never move again while
    holding the GIL (blocked on a mutex) *)
Fixpoint run_seg (fuel : nat) (t : tid) (st : mstate) : option (option mstate) :=
  match fuel with
  | O => None
  | S f =>
      match gil st with
      | Some t' =>
          if negb (Nat.eqb t t') then Some (Some st) else
          match nth_error (thr st) t with
          | None => Some None
          | Some th =>
              if finished_th th then Some (Some (set_gil st None)) else
              match stepf restore t st with
              | None => Some None                      (* blocked with the GIL *)
              | Some st1 =>
                  match nth_error (thr st1) t with
                  | Some th1 =>
                      match gil st1 with
                      | Some _ => if in_python th1 then Some (Some (set_gil st1 None))     (* LRel *)
                                  else run_seg f t st1
                      | None => run_seg f t st1
                      end
                  | None => Some None
                  end
              end
          end
      | None => Some (Some st)
      end
  end.

Definition result_of (st : mstate) (nstatic : nat) : outcome :=
  Done (map (fun th => rev (tobs th)) (thr st))
       (map ncalls (firstn nstatic (mcells st)))
       (map nthrows (firstn nstatic (mcells st)))
       (map (fun th => rev (tseen th)) (thr st)).

Definition choosable (st : mstate) : list tid :=
  filter (fun t => match nth_error (thr st) t with
                   | Some th => negb (finished_th th) && wakeable st th
                   | None => false end)
         (seq 0 (length (thr st))).

(** all maximal runs from [st] (GIL free): the list of their outcomes (with repetitions) *)
Fixpoint explore (fuel : nat) (segfuel : nat) (nstatic : nat) (st : mstate) : list outcome :=
  match fuel with
  | O => [ExploreFuel]
  | S f =>
      if all_finished st then [result_of st nstatic] else
      match choosable st with
      | [] => [Wedged]                   (* every unfinished thread waits for an event nobody can set *)
      | ts =>
          flat_map (fun t =>
            match sched restore (LAcq t) st with
            | None => [ExploreFuel]
            | Some st1 =>
                match run_seg segfuel t st1 with
                | None => [ExploreFuel]
                | Some None => [Wedged]
                | Some (Some st2) => explore f segfuel nstatic st2
                end
            end) ts
      end
  end.
End Explore.
