(** C06 -- proofs about the one-thread model (LazySeq.v): re-entrancy, the error path. *)
From Coq Require Import List NArith Bool Arith Lia.
Import ListNotations.
From Verif Require Import C06.Base C06.LazySeq.

(* ---------------------------------------------------------------------------------- *)
(** ** A producer that looks at a cell being computed sees it empty, and nothing changes *)

Lemma reentrant_sees_empty : forall restore f s c k,
  get s c = Some k -> cst k = Computing ->
  ev restore (S (S f)) (CSeq c) s = (s, Ok ONil).
Proof.
  intros restore f s c k Hg Hc. simpl. rewrite Hg, Hc. rewrite Hg, Hc. reflexivity.
Qed.

Lemma compute_of_computing : forall restore f s c k,
  get s c = Some k -> cst k = Computing ->
  ev restore (S f) (CCompute c) s = (s, Ok ONil).
Proof. intros. simpl. rewrite H, H0. reflexivity. Qed.

(** the script-level reading: `ATouch c` inside the producer of c notes (c, saw nil = true) and goes on *)
Lemma touch_own_cell : forall restore f s c k l,
  get s c = Some k -> cst k = Computing ->
  ev restore (S (S (S f))) (CScript (ATouch c :: l)) s =
  ev restore (S (S f)) (CScript l) (note_seen s c true).
Proof.
  intros. change (ev restore (S (S (S f))) (CScript (ATouch c :: l)) s)
    with (let (s1, r) := ev restore (S (S f)) (CSeq c) s in
          match r with
          | Ok o => ev restore (S (S f)) (CScript l) (note_seen s1 c (is_nil o))
          | e => (s1, e)
          end).
  rewrite (reentrant_sees_empty restore f s c k H H0). reflexivity.
Qed.

(* ---------------------------------------------------------------------------------- *)
(** ** Which cells are Computing *)

Definition iscomp (x : cstate) : bool := match x with Computing => true | _ => false end.
Definition comp (s : st) (c : cid) : bool :=
  match get s c with Some k => iscomp (cst k) | None => false end.

Definition okres (r : res) : Prop := match r with Ok _ | Exn => True | _ => False end.

Lemma get_set_heap : forall s h c, get (set_heap s h) c = nth_error h c.
Proof. reflexivity. Qed.

Lemma get_lt : forall s c k, get s c = Some k -> c < length (heap s).
Proof. intros. apply nth_error_Some. unfold get in H. congruence. Qed.

Lemma comp_set_cst : forall s c x c',
  comp (set_cst s c x) c' = if Nat.eqb c c' then (match get s c with Some _ => iscomp x | None => false end) else comp s c'.
Proof.
  intros. unfold set_cst, comp. destruct (get s c) eqn:E.
  - rewrite get_set_heap, nth_error_upd. destruct (Nat.eqb_spec c c').
    + subst. apply get_lt in E. destruct (Nat.ltb_spec c' (length (heap s))); try lia. reflexivity.
    + reflexivity.
  - destruct (Nat.eqb_spec c c'); auto. subst. rewrite E. reflexivity.
Qed.

Lemma comp_start_call : forall s c c',
  comp (start_call s c) c' = if Nat.eqb c c' then (match get s c with Some _ => true | None => false end) else comp s c'.
Proof.
  intros. unfold start_call, comp. destruct (get s c) eqn:E.
  - rewrite get_set_heap, nth_error_upd. destruct (Nat.eqb_spec c c').
    + subst. apply get_lt in E. destruct (Nat.ltb_spec c' (length (heap s))); try lia. reflexivity.
    + reflexivity.
  - destruct (Nat.eqb_spec c c'); auto. subst. rewrite E. reflexivity.
Qed.

Lemma comp_note_throw : forall s c x c',
  comp (note_throw s c x) c' = if Nat.eqb c c' then (match get s c with Some _ => iscomp x | None => false end) else comp s c'.
Proof.
  intros. unfold note_throw, comp. destruct (get s c) eqn:E.
  - rewrite get_set_heap, nth_error_upd. destruct (Nat.eqb_spec c c').
    + subst. apply get_lt in E. destruct (Nat.ltb_spec c' (length (heap s))); try lia. reflexivity.
    + reflexivity.
  - destruct (Nat.eqb_spec c c'); auto. subst. rewrite E. reflexivity.
Qed.

Lemma comp_app_init : forall s' s g n t c,
  heap s' = heap s ++ [mkCell (Initialized g) n t] -> comp s' c = comp s c.
Proof.
  intros. unfold comp, get. rewrite H.
  destruct (Nat.lt_ge_cases c (length (heap s))).
  - rewrite nth_error_app1 by lia. reflexivity.
  - rewrite nth_error_app2 by lia.
    replace (nth_error (heap s) c) with (@None cell) by (symmetry; apply nth_error_None; lia).
    destruct (c - length (heap s)) as [|m]; simpl; [reflexivity|]. destruct m; reflexivity.
Qed.

Lemma comp_mark : forall s c c', comp (mark_if_realized s c) c' = comp s c'.
Proof. intros. unfold mark_if_realized. destruct (nth_error (heap s) c); auto. destruct (cst c0); auto. Qed.

(** a heap-preserving update does not change [comp] *)
Lemma comp_same_heap : forall s' s c, heap s' = heap s -> comp s' c = comp s c.
Proof. intros. unfold comp, get. rewrite H. reflexivity. Qed.

Definition pre (k : call) (s : st) : Prop :=
  match k with CUnwrap c _ => comp s c = false | _ => True end.

Ltac same_heap := apply comp_same_heap; reflexivity.

(** With the repaired error path, every call -- whether it returns or raises -- leaves exactly the
    cells Computing that were Computing before. *)
Lemma computing_preserved : forall f k s s' r,
  ev true f k s = (s', r) -> okres r -> pre k s -> forall c, comp s' c = comp s c.
Proof.
  induction f; intros k s s' r H Hok Hpre c.
  - simpl in H. inversion H; subst. simpl in Hok. contradiction.
  - destruct k; simpl in H.
    + (* CSeq *)
      destruct (get s c0) as [cl|] eqn:Eg; [|inversion H; subst; simpl in Hok; contradiction].
      assert (Hgen : forall s1 r1, ev true f (CCompute c0) s = (s1, r1) ->
                (match r1 with
                 | Ok _ => match get s1 c0 with
                           | Some cl1 => match cst cl1 with
                                         | Computed o => ev true f (CUnwrap c0 o) s1
                                         | _ => (s1, Ok ONil) end
                           | None => (s1, Bad) end
                 | e => (s1, e) end) = (s', r) -> comp s' c = comp s c).
      { intros s1 r1 E1 H1. destruct r1; try solve [inversion H1; subst; try (simpl in Hok; contradiction)].
        - destruct (get s1 c0) as [cl1|] eqn:Eg1; [|inversion H1; subst; simpl in Hok; contradiction].
          destruct (cst cl1) eqn:Ec1; try solve [inversion H1; subst; eapply IHf; eauto; simpl; auto].
          assert (Hc0 : comp s1 c0 = false) by (unfold comp; rewrite Eg1, Ec1; reflexivity).
          rewrite (IHf _ _ _ _ H1 Hok Hc0 c). eapply IHf; eauto; simpl; auto.
        - inversion H1; subst. eapply IHf; eauto; simpl; auto. }
      destruct (cst cl) eqn:Ec;
        try solve [destruct (ev true f (CCompute c0) s) as [s1 r1] eqn:E1; exact (Hgen s1 r1 eq_refl H)].
      inversion H; subst. reflexivity.
    + (* CCompute *)
      destruct (get s c0) as [cl|] eqn:Eg; [|inversion H; subst; simpl in Hok; contradiction].
      destruct (cst cl) eqn:Ec; try solve [inversion H; subst; reflexivity].
      destruct (ev true f (CGen g) (start_call s c0)) as [s2 r2] eqn:E2.
      assert (Hs : comp s c0 = false) by (unfold comp; rewrite Eg, Ec; reflexivity).
      destruct r2; inversion H; subst; try (simpl in Hok; contradiction).
      * rewrite comp_set_cst. destruct (Nat.eqb_spec c0 c).
        -- subst. rewrite Hs. destruct (get s2 c); reflexivity.
        -- rewrite (IHf _ _ _ _ E2 I I), comp_start_call. destruct (Nat.eqb_spec c0 c); congruence.
      * rewrite comp_note_throw. destruct (Nat.eqb_spec c0 c).
        -- subst. rewrite Hs. destruct (get s2 c); reflexivity.
        -- rewrite (IHf _ _ _ _ E2 I I), comp_start_call. destruct (Nat.eqb_spec c0 c); congruence.
    + (* CUnwrap *)
      simpl in Hpre. destruct w.
      * inversion H; subst. rewrite comp_set_cst. destruct (Nat.eqb_spec c0 c); auto.
        subst. rewrite Hpre. destruct (get s c); reflexivity.
      * inversion H; subst. rewrite comp_set_cst. destruct (Nat.eqb_spec c0 c); auto.
        subst. rewrite Hpre. destruct (get s c); reflexivity.
      * inversion H; subst. rewrite comp_set_cst. destruct (Nat.eqb_spec c0 c); auto.
        subst. rewrite Hpre. destruct (get s c); reflexivity.
      * destruct (ev true f (CCompute c1) s) as [s1 r1] eqn:E1.
        destruct r1; try solve [inversion H; subst; simpl in Hok; contradiction].
        -- assert (Hc0 : comp s1 c0 = false) by (rewrite (IHf _ _ _ _ E1 I I c0); auto).
           rewrite (IHf _ _ _ _ H Hok Hc0 c). eapply IHf; eauto; simpl; auto.
        -- inversion H; subst. rewrite comp_mark. eapply IHf; eauto; simpl; auto.
    + (* CToSeq *)
      destruct o; try solve [inversion H; subst; reflexivity]. eapply IHf; eauto; simpl; auto.
    + (* CGen *)
      destruct g.
      * eapply IHf; eauto; simpl; auto.
      * destruct (ev true f (CPull it) s) as [s1 r1] eqn:E1.
        destruct r1 as [o| | |]; try solve [inversion H; subst; try (simpl in Hok; contradiction); eapply IHf; eauto; simpl; auto].
        destruct o; try solve [inversion H; subst; eapply IHf; eauto; simpl; auto].
        inversion H; subst. erewrite comp_app_init by reflexivity. eapply IHf; eauto; simpl; auto.
      * destruct (ev true f (CToSeq src) s) as [s1 r1] eqn:E1.
        destruct r1 as [o| | |]; try solve [inversion H; subst; try (simpl in Hok; contradiction); eapply IHf; eauto; simpl; auto].
        destruct o; try solve [inversion H; subst; eapply IHf; eauto; simpl; auto].
        inversion H; subst. erewrite (comp_app_init _ s1) by reflexivity. eapply IHf; eauto; simpl; auto.
      * destruct (ev true f (CToSeq src) s) as [s1 r1] eqn:E1.
        destruct r1 as [o| | |]; try solve [inversion H; subst; try (simpl in Hok; contradiction); eapply IHf; eauto; simpl; auto].
        destruct o; try solve [inversion H; subst; eapply IHf; eauto; simpl; auto].
        destruct (app_pred p v); inversion H; subst;
          erewrite (comp_app_init _ s1) by reflexivity; eapply IHf; eauto; simpl; auto.
      * destruct (n =? 0)%N; [inversion H; subst; reflexivity|].
        destruct (ev true f (CToSeq src) s) as [s1 r1] eqn:E1.
        destruct r1 as [o| | |]; try solve [inversion H; subst; try (simpl in Hok; contradiction); eapply IHf; eauto; simpl; auto].
        destruct o; try solve [inversion H; subst; eapply IHf; eauto; simpl; auto].
        inversion H; subst. erewrite (comp_app_init _ s1) by reflexivity. eapply IHf; eauto; simpl; auto.
      * inversion H; subst. erewrite (comp_app_init _ s) by reflexivity. reflexivity.
    + (* CScript *)
      destruct l as [|a l]; [inversion H; subst; reflexivity|].
      destruct a.
      * eapply IHf; eauto; simpl; auto.
      * destruct (nth e (evs s) false); [eapply IHf; eauto; simpl; auto | inversion H; subst; simpl in Hok; contradiction].
      * rewrite (IHf _ _ _ _ H Hok I c). same_heap.
      * destruct (ev true f (CSeq c0) s) as [s1 r1] eqn:E1.
        destruct r1; try solve [inversion H; subst; try (simpl in Hok; contradiction); eapply IHf; eauto; simpl; auto].
        rewrite (IHf _ _ _ _ H Hok I c). rewrite (comp_same_heap (note_seen s1 c0 (is_nil o)) s1) by reflexivity.
        eapply IHf; eauto; simpl; auto.
      * inversion H; subst; reflexivity.
      * inversion H; subst. same_heap.
      * inversion H; subst; reflexivity.
    + (* CPull *)
      destruct (nth_error (iters s) it) as [i|] eqn:Ei; [|inversion H; subst; simpl in Hok; contradiction].
      destruct i.
      * destruct l as [|x l]; [inversion H; subst; reflexivity|].
        destruct x; inversion H; subst; same_heap.
      * destruct (ev true f (CIterNext cur) s) as [s1 r1] eqn:E1.
        destruct r1 as [o| | |]; try solve [inversion H; subst; try (simpl in Hok; contradiction); eapply IHf; eauto; simpl; auto].
        destruct o; inversion H; subst; try solve [eapply IHf; eauto; simpl; auto].
        rewrite (comp_same_heap (set_iter s1 it (ItSeq o)) s1) by reflexivity. eapply IHf; eauto; simpl; auto.
      * destruct cur as [cur|].
        -- destruct (ev true f (CIterNext cur) s) as [s1 r1] eqn:E1.
           destruct r1 as [o| | |]; try solve [inversion H; subst; try (simpl in Hok; contradiction); eapply IHf; eauto; simpl; auto].
           assert (Hs1 : comp s1 c = comp s c) by (eapply IHf; eauto; simpl; auto).
           destruct o;
             try solve [rewrite (IHf _ _ _ _ H Hok I c);
                        rewrite (comp_same_heap (set_iter s1 it (ItChain None srcs)) s1) by reflexivity;
                        exact Hs1].
           inversion H; subst.
           rewrite (comp_same_heap (set_iter s1 it (ItChain (Some o) srcs)) s1) by reflexivity.
           exact Hs1.
        -- destruct srcs as [|src srcs]; [inversion H; subst; reflexivity|].
           destruct (ev true f (CToSeq src) (set_iter s it (ItChain None srcs))) as [s1 r1] eqn:E1.
           assert (Hs1 : okres r1 -> comp s1 c = comp s c).
           { intro. rewrite (IHf _ _ _ _ E1 H0 I c). same_heap. }
           destruct r1 as [o| | |]; try solve [inversion H; subst; simpl in Hok; contradiction].
           ++ destruct o;
                try solve [rewrite (IHf _ _ _ _ H Hok I c);
                           rewrite (comp_same_heap (set_iter s1 it _) s1) by reflexivity; apply Hs1; exact I];
                try solve [rewrite (IHf _ _ _ _ H Hok I c); apply Hs1; exact I].
           ++ inversion H; subst. rewrite (comp_same_heap (chain_dead s1 it) s1) by reflexivity. apply Hs1; exact I.
    + (* CIterNext *)
      destruct cur; try solve [inversion H; subst; reflexivity].
      destruct (ev true f (CSeq c0) s) as [s1 r1] eqn:E1.
      destruct r1 as [o| | |]; try solve [inversion H; subst; try (simpl in Hok; contradiction); eapply IHf; eauto; simpl; auto].
      destruct o; inversion H; subst; eapply IHf; eauto; simpl; auto.
Qed.

(* ---------------------------------------------------------------------------------- *)
(** ** The heap only grows *)

Definition hlen (s : st) : nat := length (heap s).

Lemma hlen_set_cst : forall s c x, hlen (set_cst s c x) = hlen s.
Proof. intros. unfold set_cst, hlen. destruct (get s c); simpl; auto. apply upd_length. Qed.
Lemma hlen_start_call : forall s c, hlen (start_call s c) = hlen s.
Proof. intros. unfold start_call, hlen. destruct (get s c); simpl; auto. apply upd_length. Qed.
Lemma hlen_note_throw : forall s c x, hlen (note_throw s c x) = hlen s.
Proof. intros. unfold note_throw, hlen. destruct (get s c); simpl; auto. apply upd_length. Qed.
Lemma hlen_mark : forall s c, hlen (mark_if_realized s c) = hlen s.
Proof. intros. unfold mark_if_realized, hlen. destruct (nth_error (heap s) c); auto. destruct (cst c0); auto. Qed.
Lemma hlen_app : forall s x, hlen (set_heap s (heap s ++ [x])) = S (hlen s).
Proof. intros. unfold hlen. simpl. rewrite app_length. simpl. lia. Qed.

Ltac destruct_matches H :=
  repeat match type of H with
         | context [match ?x with _ => _ end] => destruct x eqn:?
         end.

Ltac use_IH IH :=
  repeat match goal with
         | E : ev _ _ _ _ = (_, _) |- _ => apply IH in E
         end.

Lemma heap_mono : forall restore f k s s' r, ev restore f k s = (s', r) -> hlen s <= hlen s'.
Proof.
  induction f; intros k s s' r H.
  - simpl in H. inversion H; subst. lia.
  - destruct k; simpl in H; destruct_matches H; inversion H; subst; clear H; use_IH IHf;
      repeat (rewrite ?hlen_set_cst, ?hlen_start_call, ?hlen_note_throw, ?hlen_mark, ?hlen_app in * );
      unfold hlen in *; simpl in *; try rewrite ?app_length in *; simpl in *; try lia.
Qed.

(* ---------------------------------------------------------------------------------- *)
(** ** histories: no cell is ever left Computing (repaired error path) *)

Definition quiet (s : st) : Prop := forall c, comp s c = false.

Lemma ev_quiet : forall f k s s' r,
  ev true f k s = (s', r) -> okres r -> pre k s -> quiet s -> quiet s'.
Proof. intros f k s s' r H Hok Hp Hq c. rewrite (computing_preserved f k s s' r H Hok Hp c). apply Hq. Qed.

Lemma quiet_pre : forall k s, quiet s -> pre k s.
Proof. intros. destruct k; simpl; auto. Qed.

Lemma op_first_quiet : forall fuel o s s' r, op_first true fuel o s = (s', r) -> okres r -> quiet s -> quiet s'.
Proof.
  intros fuel o s s' r H Hok Hq. unfold op_first in H. destruct o; try (inversion H; subst; assumption).
  destruct (ev true fuel (CSeq c) s) as [s1 r1] eqn:E.
  destruct r1 as [o| | |]; try (inversion H; subst; simpl in Hok; contradiction).
  - assert (quiet s1) by (eapply ev_quiet; eauto; simpl; auto). destruct o; inversion H; subst; assumption.
  - inversion H; subst. eapply ev_quiet; eauto; simpl; auto.
Qed.

Lemma op_rest_quiet : forall fuel o s s' r, op_rest true fuel o s = (s', r) -> okres r -> quiet s -> quiet s'.
Proof.
  intros fuel o s s' r H Hok Hq. unfold op_rest in H. destruct o; try (inversion H; subst; assumption).
  destruct (ev true fuel (CSeq c) s) as [s1 r1] eqn:E.
  destruct r1 as [o| | |]; try (inversion H; subst; simpl in Hok; contradiction).
  - assert (quiet s1) by (eapply ev_quiet; eauto; simpl; auto). destruct o; inversion H; subst; assumption.
  - inversion H; subst. eapply ev_quiet; eauto; simpl; auto.
Qed.

Lemma op_seq_quiet : forall fuel o s s' r, op_seq true fuel o s = (s', r) -> okres r -> quiet s -> quiet s'.
Proof. intros. unfold op_seq in H. eapply ev_quiet; eauto. simpl. auto. Qed.

Lemma op_next_quiet : forall fuel o s s' r, op_next true fuel o s = (s', r) -> okres r -> quiet s -> quiet s'.
Proof.
  intros fuel o s s' r H Hok Hq. unfold op_next in H.
  destruct (op_rest true fuel o s) as [s1 r1] eqn:E.
  destruct r1 as [o1| | |]; try (inversion H; subst; simpl in Hok; contradiction).
  - eapply op_seq_quiet; eauto. eapply op_rest_quiet; eauto. simpl. auto.
  - inversion H; subst. eapply op_rest_quiet; eauto.
Qed.

Lemma walk_quiet : forall fuel n cur acc s s' r acc',
  walk true fuel n cur acc s = (s', r, acc') -> okres r -> quiet s -> quiet s'.
Proof.
  induction n; intros cur acc s s' r acc' H Hok Hq; simpl in H.
  - inversion H; subst. assumption.
  - destruct (ev true fuel (CIterNext cur) s) as [s1 r1] eqn:E.
    destruct r1 as [o| | |]; try (inversion H; subst; simpl in Hok; contradiction).
    + assert (quiet s1) by (eapply ev_quiet; eauto; simpl; auto).
      destruct o; try (inversion H; subst; assumption). eapply IHn; eauto.
    + inversion H; subst. eapply ev_quiet; eauto; simpl; auto.
Qed.

Lemma obs_of_res_bad : forall x f, (forall o, f o <> BBad) -> obs_of_res x f <> BBad -> okres x.
Proof. intros. destruct x; simpl in *; auto. Qed.

Lemma do_op_quiet : forall fuel o regs s s' regs' b,
  do_op true fuel o regs s = (s', regs', b) -> b <> BBad -> quiet s -> quiet s'.
Proof.
  intros fuel o regs s s' regs' b H Hb Hq. destruct o; cbv beta match delta [do_op] in H.
  - destruct (op_first true fuel (reg regs r) s) as [s1 x] eqn:E. inversion H; subst.
    eapply op_first_quiet; eauto. eapply obs_of_res_bad; eauto. intros ox; destruct ox; discriminate.
  - destruct (op_rest true fuel (reg regs r) s) as [s1 x] eqn:E. inversion H; subst.
    eapply op_rest_quiet; eauto. eapply obs_of_res_bad; eauto. intros ox; discriminate.
  - destruct (op_next true fuel (reg regs r) s) as [s1 x] eqn:E. inversion H; subst.
    eapply op_next_quiet; eauto. eapply obs_of_res_bad; eauto. intros ox; discriminate.
  - destruct (op_seq true fuel (reg regs r) s) as [s1 x] eqn:E. inversion H; subst.
    eapply op_seq_quiet; eauto. eapply obs_of_res_bad; eauto. intros ox; discriminate.
  - destruct (reg regs r) eqn:Er; try (inversion H; subst; assumption);
      (destruct (walk true fuel fuel _ [] s) as [[s1 x] acc] eqn:E; inversion H; subst;
       eapply walk_quiet; eauto; destruct x as [ox| | |]; simpl; auto; try (destruct ox); congruence).
  - destruct (reg regs r) eqn:Er; try (inversion H; subst; assumption);
      (destruct (walk true fuel (S i) _ [] s) as [[s1 x] acc] eqn:E; inversion H; subst;
       eapply walk_quiet; eauto; destruct x as [ox| | |]; simpl; auto; congruence).
  - destruct (reg regs r) eqn:Er; try (inversion H; subst; assumption);
      (destruct (walk true fuel limit _ [] s) as [[s1 x] acc] eqn:E; inversion H; subst;
       eapply walk_quiet; eauto; destruct x as [ox| | |]; simpl; auto; congruence).
Qed.

Lemma do_ops_quiet : forall fuel ops regs s acc s' obs,
  do_ops true fuel ops regs s acc = (s', obs) -> ~ In BBad obs -> quiet s -> quiet s'.
Proof.
  induction ops; intros regs s acc s' obs H Hn Hq; simpl in H.
  - inversion H; subst. assumption.
  - destruct (do_op true fuel a regs s) as [[s1 regs1] b] eqn:E.
    assert (Hin : In b obs).
    { clear -H. revert regs1 s1 acc H. generalize (b :: nil). intros l.
      assert (forall ops regs s acc s' obs, do_ops true fuel ops regs s acc = (s', obs) -> forall x, In x acc -> In x obs).
      { induction ops0; intros; simpl in H.
        - inversion H; subst. apply in_rev. rewrite rev_involutive. assumption.
        - destruct (do_op true fuel a regs s) as [[s2 regs2] b2]. eapply IHops0; eauto. right. assumption. }
      intros. eapply H; eauto. left. reflexivity. }
    eapply IHops; eauto. eapply do_op_quiet; eauto. intro; subst; contradiction.
Qed.

(** a failed producer is put back: the very generator it had, to be called again *)
Lemma failed_producer_restored : forall f s c k g s',
  get s c = Some k -> cst k = Initialized g ->
  ev true (S f) (CCompute c) s = (s', Exn) ->
  exists k', get s' c = Some k' /\ cst k' = Initialized g.
Proof.
  intros f s c k g s' Hg Hc H. simpl in H. rewrite Hg, Hc in H.
  destruct (ev true f (CGen g) (start_call s c)) as [s2 r2] eqn:E.
  destruct r2; inversion H; subst; clear H.
  assert (Hl : c < hlen s2).
  { apply heap_mono in E. rewrite hlen_start_call in E. apply get_lt in Hg. unfold hlen in *. lia. }
  unfold note_throw. destruct (get s2 c) as [k2|] eqn:E2.
  - exists (mkCell (Initialized g) (ncalls k2) (N.succ (nthrows k2))). split; [|reflexivity].
    rewrite get_set_heap. apply nth_error_upd_same. exact Hl.
  - unfold get in E2. apply nth_error_None in E2. unfold hlen in Hl. lia.
Qed.
